import TTModel.Scalar
import TTModel.C01_Tree
import TTModel.C01_Pruning
/-!
# C02 — the same tree and data, written down differently (core Lean only)

`LTree β`: a rooted binary tree as it is read from a Newick string — leaves carry taxon *names*,
every node carries the datum `β` of the branch above it (a length; the root's is unused).

* `LTree.edges` lists (node index, branch datum) with exactly the numbering of `setup_indexes`
  (`TT.C01.setupIdx`): this is the array `blens` / the branch-length parameter addressed by node
  index that `TreeLikelihoodModel._call` turns into matrices `mats[b]`.
* `likIdx` is the C01 pipeline on that input: indices from the `Taxa` order, matrices by node
  index, tip vectors by taxon position — the thing the implementation computes.
* `likN` is the same likelihood written with NO order and NO index: structural recursion over the
  named tree, tip data looked up by name.  `TTProps.C02.likIdx_eq_likN` proves they agree, which is
  what makes the value independent of the order of `Taxa`.
* `slideRoot`, `stepLeft`, `stepRight`: moving the root of the (unrooted) tree.
-/
namespace TT.C02
open TT TT.C01

inductive LTree (β : Type) where
  | leaf (name : String) (b : β)
  | node (l r : LTree β) (b : β)
deriving Repr, Inhabited

variable {β : Type}

def LTree.branch : LTree β → β
  | .leaf _ b => b
  | .node _ _ b => b

def LTree.setBranch (b : β) : LTree β → LTree β
  | .leaf nm _ => .leaf nm b
  | .node l r _ => .node l r b

def LTree.shape : LTree β → NTree
  | .leaf nm _ => .leaf nm
  | .node l r _ => .node l.shape r.shape

def LTree.names : LTree β → List String
  | .leaf nm _ => [nm]
  | .node l r _ => l.names ++ r.names

/-- (node index, branch datum) for every node of the subtree, numbered as `setupIdx` does:
    a leaf gets the position of its name in `taxa`, an internal node the running counter -/
def LTree.edges (taxa : List String) : LTree β → Nat → List (Nat × β) × Nat
  | .leaf nm b, k => ([(taxa.idxOf nm, b)], k)
  | .node l r b, k =>
    let a := l.edges taxa k
    let c := r.edges taxa a.2
    (a.1 ++ c.1 ++ [(c.2, b)], c.2 + 1)

/-- `blens[i]`: the datum stored for node index `i` (`d` if there is none) -/
def lookupIdx (es : List (Nat × β)) (d : β) (i : Nat) : β :=
  match es.find? (fun p => p.1 == i) with
  | some p => p.2
  | none => d

section lik
variable {α : Type} [Add α] [Mul α] [Zero α] [One α] {K S : Nat}

/-- the implementation's computation for one site: node indices from the order of `taxa`,
    `mats[b][k] = P(blens[b], k)`, tip `i` holds the data of the taxon at position `i` -/
def likIdx (π : Fin S → α) (props : Fin K → α) (P : β → Fin K → Fin S → Fin S → α) (d : β)
    (taxa : List String) (T : LTree β) (data : String → Fin S → α) : Option α :=
  siteLik π props (fun b k => P (lookupIdx (T.edges taxa taxa.length).1 d b) k)
    (postorder (setupIndexes taxa.length (T.shape.toBTree taxa))) taxa.length
    (fun i => data (taxa.getD i ""))

/-- conditional likelihoods by structural recursion on the named tree (no index, no order) -/
def partialN (P : β → Fin K → Fin S → Fin S → α) (data : String → Fin S → α) : LTree β → Partial α K S
  | .leaf nm _ => fun _ => data nm
  | .node l r _ => fun k s =>
      matVec (P l.branch k) (partialN P data l k) s * matVec (P r.branch k) (partialN P data r k) s

/-- the likelihood of one site as a function of the named tree and the name-indexed data -/
def likN (π : Fin S → α) (props : Fin K → α) (P : β → Fin K → Fin S → Fin S → α)
    (data : String → Fin S → α) (T : LTree β) : α :=
  rootSum π props (partialN P data T)

end lik

/-! ### moving the root (branch data = lengths) -/
section reroot
variable {α : Type} [Add α] [Zero α]

/-- the root sits on the branch joining its two children; only the sum of the two root branch
    lengths belongs to the unrooted tree. `slideRoot a' b'` re-splits it. -/
def slideRoot (a' b' : α) : LTree α → LTree α
  | .node l r b => .node (l.setBranch a') (r.setBranch b') b
  | t => t

/-- move the root across the left child `v = (X, Y)`: from the branch `v — Z` to the branch `v — X`.
    `((X:x, Y:y):a, Z:b)  ↦  (X:x, (Y:y, Z:a+b):0)` -/
def stepLeft : LTree α → LTree α
  | .node (.node X Y a) Z b0 => .node X (.node Y (Z.setBranch (a + Z.branch)) 0) b0
  | t => t

/-- move the root across the right child `v = (Y, Z)`: `(X:a, (Y:y, Z:z):b)  ↦  ((X:a+b, Y:y):0, Z:z)` -/
def stepRight : LTree α → LTree α
  | .node X (.node Y Z b) b0 => .node (.node (X.setBranch (X.branch + b)) Y 0) Z b0
  | t => t

/-- swap the children of the root -/
def swapRoot : LTree α → LTree α
  | .node l r b => .node r l b
  | t => t

/-- swap the children of the root's left child -/
def swapLeft : LTree α → LTree α
  | .node (.node X Y a) Z b => .node (.node Y X a) Z b
  | t => t

inductive Move | left | right | swap | swapLeft
deriving Repr, DecidableEq

def applyMove : Move → LTree α → LTree α
  | .left => stepLeft
  | .right => stepRight
  | .swap => swapRoot
  | .swapLeft => swapLeft

/-- any sequence of root moves: reaches every branch of the tree -/
def reroot (ms : List Move) (T : LTree α) : LTree α := ms.foldl (fun t m => applyMove m t) T

def LTree.size : LTree β → Nat
  | .leaf _ _ => 1
  | .node l r _ => l.size + r.size + 1

/-- every rooting on a branch strictly inside the left child of the root (fuel ≥ size suffices) -/
def belowLeft : Nat → LTree α → List (LTree α)
  | 0, _ => []
  | f + 1, T =>
    match T with
    | .node (.node _ _ _) _ _ =>
      let t1 := stepLeft T
      let t2 := stepLeft (swapLeft T)
      t1 :: belowLeft f t1 ++ t2 :: belowLeft f t2
    | _ => []

/-- every rooting of the unrooted tree underlying `T`: the given one, those inside the left child,
    those inside the right child (`2n-3` for `n` leaves) -/
def allRootings (T : LTree α) : List (LTree α) :=
  T :: belowLeft T.size T ++ belowLeft T.size (swapRoot T)

end reroot

end TT.C02
