/-!
# C13 — JSON values and the two pre-passes of `torchtree.py:main`

`Json ν` is the tree `json.load` returns (a tree: no aliasing), polymorphic in the number type `ν`
(the driver runs it with `JNumber`, the theorems hold for every `ν`).  Objects are association
lists in insertion order, as Python dicts are.

Modelled as coded (`torchtree/core/utils.py`):
* `remove_comments`  → `removeComments`   (in-place deletion = the filtered tree)
* `replace_star_with_str`, `replace_wildcard_with_str`, `expand_plates` → `replaceStar`,
  `replaceWildcard`, `expandPlates` (including the index-walk over a list that is being
  spliced: the FIRST clone of a plate is not itself revisited, an element following an
  empty-range plate is skipped).
Core Lean only.
-/
namespace TT.C13

/-- truthiness of a number (`bool(x)` in Python: `0`, `0.0`, `-0.0` are falsy) -/
class JNum (ν : Type) where
  truthy : ν → Bool

inductive Json (ν : Type) where
  | null
  | bool (b : Bool)
  | num (x : ν)
  | str (s : String)
  | arr (xs : List (Json ν))
  | obj (kvs : List (String × Json ν))
  deriving Inhabited

namespace Json
variable {ν : Type}

/-- `d[k]` on an insertion-ordered dict (first match; json.load never yields duplicate keys) -/
def lookup (k : String) : List (String × Json ν) → Option (Json ν)
  | [] => none
  | (k', v) :: rest => if k' = k then some v else lookup k rest

def hasKey (k : String) (kvs : List (String × Json ν)) : Bool := (lookup k kvs).isSome

/-- `d[k] = v`: replaces in place when present, appends otherwise -/
def setKey (k : String) (v : Json ν) : List (String × Json ν) → List (String × Json ν)
  | [] => [(k, v)]
  | (k', v') :: rest => if k' = k then (k, v) :: rest else (k', v') :: setKey k v rest

/-- `del d[k]` (when present) -/
def delKey (k : String) : List (String × Json ν) → List (String × Json ν)
  | [] => []
  | (k', v') :: rest => if k' = k then rest else (k', v') :: delKey k rest

/-- Python truthiness -/
def truthy [JNum ν] : Json ν → Bool
  | null => false
  | bool b => b
  | num x => JNum.truthy x
  | str s => s ≠ ""
  | arr xs => !xs.isEmpty
  | obj kvs => !kvs.isEmpty

/-- `isinstance(v, dict) and "ignore" in v and v["ignore"]` -/
def ignored [JNum ν] : Json ν → Bool
  | obj kvs => match lookup "ignore" kvs with
    | some v => truthy v
    | none => false
  | _ => false

def underscore (k : String) : Bool := k.startsWith "_"

/-! ## remove_comments -/
mutual
/-- `remove_comments(obj)`: the tree left in place afterwards -/
def removeComments [JNum ν] : Json ν → Json ν
  | arr xs => arr (rcList xs)
  | obj kvs => obj (rcFields kvs)
  | j => j
/-- list case: elements that are ignored dicts are deleted, the others cleaned -/
def rcList [JNum ν] : List (Json ν) → List (Json ν)
  | [] => []
  | x :: xs => if ignored x then rcList xs else removeComments x :: rcList xs
/-- dict case: `_keys` and ignored dict values are deleted, the other values cleaned -/
def rcFields [JNum ν] : List (String × Json ν) → List (String × Json ν)
  | [] => []
  | (k, v) :: rest =>
    if underscore k || ignored v then rcFields rest else (k, removeComments v) :: rcFields rest
end

/-! predicates used by the theorems: "no comment is left anywhere" -/
mutual
def clean [JNum ν] : Json ν → Bool
  | arr xs => cleanList xs
  | obj kvs => cleanFields kvs
  | _ => true
def cleanList [JNum ν] : List (Json ν) → Bool
  | [] => true
  | x :: xs => !ignored x && clean x && cleanList xs
def cleanFields [JNum ν] : List (String × Json ν) → Bool
  | [] => true
  | (k, v) :: rest => !underscore k && !ignored v && clean v && cleanFields rest
end

/-! ## plates -/

/-- `s.replace(w, v)` for non-empty `w` -/
def strReplace (s w v : String) : String :=
  if w = "" then s else v.intercalate (s.splitOn w)

def strContains (s w : String) : Bool := (s.splitOn w).length > 1 || w = ""

mutual
/-- `replace_wildcard_with_str(obj, wildcard, value)`; a non-string `id` is left alone
(Python would raise `TypeError`: never generated) -/
def replaceWildcard (w v : String) : Json ν → Json ν
  | arr xs => arr (rwList w v xs)
  | obj kvs => obj (rwFields w v kvs)
  | j => j
def rwList (w v : String) : List (Json ν) → List (Json ν)
  | [] => []
  | x :: xs => replaceWildcard w v x :: rwList w v xs
def rwFields (w v : String) : List (String × Json ν) → List (String × Json ν)
  | [] => []
  | (k, x) :: rest =>
    let x' := replaceWildcard w v x
    let x'' := if k = "id" then
        match x' with
        | str s => if strContains s w then str (strReplace s w v) else x'
        | _ => x'
      else x'
    (k, x'') :: rwFields w v rest
end

/-- `s[-1] == '*'` then `s[:-1] + value` -/
def starSubst (s v : String) : String :=
  match s.toList.reverse with
  | '*' :: r => String.ofList r.reverse ++ v
  | _ => s

mutual
/-- `replace_star_with_str(obj, value)` -/
def replaceStar (v : String) : Json ν → Json ν
  | arr xs => arr (rsList v xs)
  | obj kvs => obj (rsFields v kvs)
  | j => j
def rsList (v : String) : List (Json ν) → List (Json ν)
  | [] => []
  | x :: xs => replaceStar v x :: rsList v xs
def rsFields (v : String) : List (String × Json ν) → List (String × Json ν)
  | [] => []
  | (k, x) :: rest =>
    let x' := replaceStar v x
    let x'' := if k = "id" then
        match x' with
        | str s => str (starSubst s v)
        | _ => x'
      else x'
    (k, x'') :: rsFields v rest
end

/-- `range(*r)` for 1, 2 or 3 integers (step ≠ 0) -/
def pyRange : List Int → Option (List Int)
  | [n] => some ((List.range n.toNat).map fun (i : Nat) => (i : Int))
  | [a, b] => some ((List.range (b - a).toNat).map fun (i : Nat) => a + (i : Int))
  | [a, b, s] =>
    if s > 0 then some ((List.range (((b - a) + s - 1) / s).toNat).map fun (i : Nat) => a + (i : Int) * s)
    else if s < 0 then some ((List.range (((a - b) + (-s) - 1) / (-s)).toNat).map fun (i : Nat) => a + (i : Int) * s)
    else none
  | _ => none

/-- split a character list at every `:` -/
def splitColon : List Char → List (List Char)
  | [] => [[]]
  | c :: cs =>
    match splitColon cs with
    | [] => [[]]       -- unreachable
    | w :: ws => if c = ':' then [] :: w :: ws else (c :: w) :: ws

def digitsToNat : List Char → Nat → Option Nat
  | [], acc => some acc
  | c :: cs, acc => if c.isDigit then digitsToNat cs (acc * 10 + (c.toNat - '0'.toNat)) else none

/-- `int(s)` for plain decimal literals (optional sign, at least one digit) -/
def parseIntChars : List Char → Option Int
  | [] => none
  | '-' :: (d :: ds) => (digitsToNat (d :: ds) 0).map fun n => -(n : Int)
  | '+' :: (d :: ds) => (digitsToNat (d :: ds) 0).map fun n => (n : Int)
  | cs => (digitsToNat cs 0).map fun n => (n : Int)

/-- `list(map(int, s.split(':')))` for plain decimal literals -/
def parseRange (s : String) : Option (List Int) := (splitColon s.toList).mapM parseIntChars

inductive PlateErr where
  | notInList          -- JSONParseError('plate works only when part of a list')
  | crash              -- any other exception (malformed range, non-string type/id …)
  | fuel
  deriving DecidableEq, Repr

/-- is this dict a plate (`'type' in obj and obj['type'].endswith('Plate')`) -/
def isPlate (kvs : List (String × Json ν)) : Bool :=
  match lookup "type" kvs with
  | some (str t) => t.endsWith "Plate"
  | _ => false

/-- the clones a plate with a `range` expands to -/
def plateClones (kvs : List (String × Json ν)) : Except PlateErr (List (Json ν)) :=
  match lookup "range" kvs with
  | some (str r) =>
    match parseRange r >>= pyRange, lookup "object" kvs with
    | some is, some o =>
      match lookup "var" kvs with
      | some (str var) => .ok (is.map fun i => replaceWildcard ("${" ++ var ++ "}") (toString i) o)
      | some _ => .error .crash
      | none => .ok (is.map fun i => replaceStar (toString i) o)
    | _, _ => .error .crash
  | _ => .error .crash

/-- the index walk of `for i, element in enumerate(obj): expand_plates(element, obj, i)` over the
list that is being spliced: `done` = elements before position `i` (reversed), `todo` = elements
from position `i` on; `f` = the recursive call on an element that is not a plate-with-range;
`n` bounds the number of steps (the list may grow). -/
def expandWalk (f : Json ν → Except PlateErr (Json ν)) :
    Nat → List (Json ν) → List (Json ν) → Except PlateErr (List (Json ν))
  | _, done, [] => .ok done.reverse
  | 0, _, _ :: _ => .error .fuel
  | n + 1, done, x :: rest =>
    match x with
    | obj kvs =>
      if isPlate kvs then
        if hasKey "range" kvs then
          match plateClones kvs with
          | .error e => .error e
          | .ok [] =>
            -- nothing inserted: the element that slid into position i is skipped
            (match rest with
             | [] => .ok done.reverse
             | y :: rest' => expandWalk f n (y :: done) rest')
          | .ok (c :: cs) =>
            -- the first clone sits at position i and is not revisited
            expandWalk f n (c :: done) (cs ++ rest)
        else expandWalk f n (x :: done) rest      -- a plate without range: left alone
      else
        match f x with
        | .error e => .error e
        | .ok x' => expandWalk f n (x' :: done) rest
    | _ =>
      match f x with
      | .error e => .error e
      | .ok x' => expandWalk f n (x' :: done) rest

/-- `for value in obj.values(): expand_plates(value, obj, None)` -/
def expandFields (f : Json ν → Except PlateErr (Json ν)) :
    List (String × Json ν) → Except PlateErr (List (String × Json ν))
  | [] => .ok []
  | (k, v) :: rest =>
    match f v with
    | .error e => .error e
    | .ok v' => match expandFields f rest with
      | .error e => .error e
      | .ok rest' => .ok ((k, v') :: rest')

/-- `expand_plates(obj, parent, idx)` for a value that is NOT a list element handled by
`expandWalk` (so a dict that is a plate with a range here is the "not part of a list" error).
`fuel` bounds the nesting depth, `steps` the length of any list walk (the driver supplies far
more than any input needs). -/
def expandPlatesFuel (steps : Nat) : Nat → Json ν → Except PlateErr (Json ν)
  | 0, _ => .error .fuel
  | fuel + 1, j =>
    match j with
    | arr xs => (expandWalk (expandPlatesFuel steps fuel) steps [] xs).map arr
    | obj kvs =>
      if isPlate kvs then
        if hasKey "range" kvs then .error .notInList else .ok j
      else (expandFields (expandPlatesFuel steps fuel) kvs).map obj
    | _ => .ok j

end Json
end TT.C13
