/-!
Line-protocol helpers shared by all drivers (core Lean only).
One request per line: `<op> <arg> <arg> ...`; one reply per line. Unknown → `bad-op`.
Floats cross the pipe as 16-hex-digit IEEE bit patterns, rationals as `p/q`.
-/
namespace TT.Proto

def splitWords (line : String) : List String :=
  (line.splitOn " ").filter (· ≠ "")

def hexDigit (c : Char) : Option Nat :=
  if '0' ≤ c ∧ c ≤ '9' then some (c.toNat - '0'.toNat)
  else if 'a' ≤ c ∧ c ≤ 'f' then some (c.toNat - 'a'.toNat + 10)
  else if 'A' ≤ c ∧ c ≤ 'F' then some (c.toNat - 'A'.toNat + 10)
  else none

def parseHex (s : String) : Option Nat :=
  if s.isEmpty then none else
  s.toList.foldl (fun acc c => do let a ← acc; let d ← hexDigit c; pure (a * 16 + d)) (some 0)

def toHex16 (n : UInt64) : String :=
  let digits := "0123456789abcdef".toList.toArray
  let rec go (i : Nat) (n : Nat) (acc : List Char) : List Char :=
    match i with
    | 0 => acc
    | i + 1 => go i (n / 16) (digits[n % 16]! :: acc)
  String.ofList (go 16 n.toNat [])

def parseFloatBits (s : String) : Option Float :=
  (parseHex s).map fun n => Float.ofBits n.toUInt64

def floatBits (x : Float) : String := toHex16 x.toBits

def parseInt (s : String) : Option Int := s.toInt?

/-- `p/q` or an integer -/
def parseRat (s : String) : Option Rat :=
  match s.splitOn "/" with
  | [p] => (p.toInt?).map fun n => (n : Rat)
  | [p, q] => do
      let n ← p.toInt?
      let d ← q.toNat?
      if d = 0 then none else pure (mkRat n d)
  | _ => none

def showRat (r : Rat) : String :=
  if r.den = 1 then toString r.num else s!"{r.num}/{r.den}"

/-- read-eval-print loop: `handle` returns the reply for one request line -/
partial def loop (h : IO.FS.Stream) (out : IO.FS.Stream) (handle : String → String) : IO Unit := do
  let line ← h.getLine
  if line.isEmpty then return ()
  let l := String.ofList ((line.toList.reverse.dropWhile (fun c => c = Char.ofNat 10 || c = Char.ofNat 13)).reverse)
  out.putStrLn (handle l)
  out.flush
  loop h out handle

def mainLoop (handle : String → String) : IO Unit := do
  loop (← IO.getStdin) (← IO.getStdout) handle

end TT.Proto
