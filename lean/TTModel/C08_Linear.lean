import TTModel.Scalar
import TTModel.C08_Coalescent
/-!
# C08 — executable model of `PiecewiseLinearCoalescentGrid.log_prob` (as repaired by F25)

As written in `coalescent.py`:

* `torch.unique(node_heights[:n], return_counts=True)`: sorted distinct sampling times, mask = multiplicity;
* the grid gets a sentinel `-1` in front (`cat([-1.0], grid)`) so that it sorts first; after the sort
  `grid_heights_sorted[..., 0] = 0` turns it into the grid point `0`;
* population size at every sorted position: grid marks take `θ_k` for the k-th grid mark (`scatter` of `thetas` at
  the positions `mask == 0`), every other event takes the interpolated value at its time:
  `i = bucketize(v, grid)` (`#{g < v}` for an increasing grid), `e = clamp(i + 1, max = len θ - 1)`,
  `θ_i + (θ_e - θ_i)(v - g0_i)/(g0_e - g0_i)` when `i + 1 = e`, else `θ_e`; `g0 = [0] ++ grid`;
* interval `p → p+1` for `p ≥ 1` (the interval after the sentinel is skipped: `intervals = t[2:] - t[1:-1]`,
  `lchoose2[1:]`): `Δt (log N_{p+1} - log N_p)/(N_{p+1} - N_p)` where the sizes differ, `Δt / N_p` where they are equal
  (F25: before the repair the last `θ` was used);
* minus the sum of `log N` over the coalescent marks.
-/
namespace TT.C08

variable {α : Type}

section unique
variable [LE α] [DecidableLE α]

/-- insert into the sorted list of (value, multiplicity) -/
def insertCount (x : α) : List (α × Nat) → List (α × Nat)
  | [] => [(x, 1)]
  | (u, c) :: rest =>
      if x ≤ u then (if u ≤ x then (u, c + 1) :: rest else (x, 1) :: (u, c) :: rest)
      else (u, c) :: insertCount x rest

/-- `torch.unique(·, return_counts=True)` -/
def uniqueCounts (l : List α) : List (α × Nat) := l.foldr insertCount []

end unique

section events
variable [LE α] [DecidableLE α] [Neg α] [One α] [Zero α]

/-- `cat(unique sampling times, internal heights, [-1] ++ grid)` with mask `cat(counts, -1…, 0…)` -/
def linearEvents (heights grid : List α) : List (Ev α) :=
  let n := taxaCount heights
  (uniqueCounts (heights.take n)).map (fun p => (⟨p.1, (p.2 : Int)⟩ : Ev α))
    ++ (heights.drop n).map (fun h => ⟨h, -1⟩)
    ++ ((-1 : α) :: grid).map (fun g => ⟨g, 0⟩)

/-- `grid_heights_sorted[..., 0] = 0` -/
def zeroHead : List (Ev α) → List (Ev α)
  | e :: rest => ⟨0, e.mark⟩ :: rest
  | [] => []

/-- sorted events with the sentinel moved to time 0 -/
def linearSorted (heights grid : List α) : List (Ev α) := zeroHead (sortEvents (linearEvents heights grid))

end events

section sizes
variable [LE α] [DecidableLE α] [Add α] [Sub α] [Mul α] [Div α] [Zero α]

/-- `torch.bucketize(v, grid)` for an increasing grid: the number of grid points strictly below `v` -/
def bucket (grid : List α) (v : α) : Nat := grid.countP (fun g => decide (¬ (v ≤ g)))

/-- interpolated population size at time `v` -/
def interp (θ grid : List α) (v : α) : α :=
  let i := bucket grid v
  let e := min (i + 1) (θ.length - 1)
  if i + 1 = e then
    θ.getD i 0 + (θ.getD e 0 - θ.getD i 0) * (v - (0 :: grid).getD i 0) / ((0 :: grid).getD e 0 - (0 :: grid).getD i 0)
  else θ.getD e 0

/-- population size at every sorted position -/
def popSizes (θ grid : List α) (ev : List (Ev α)) : List α :=
  List.zipWith (fun e (c : Nat) => if e.mark = 0 then θ.getD (c - 1) 0 else interp θ grid e.t) ev
    (cumsum (isMark 0 (marks ev)))

end sizes

section logprob
variable [LE α] [DecidableLE α] [Add α] [Sub α] [Mul α] [Div α] [Neg α] [Zero α] [One α] [IntCast α]
  [OfNat α 2] [Trans α]

/-- `∫ 1/N` over an interval of length `dt` on which `N` goes linearly from `na` to `nb` -/
def linearPiece (dt na nb : α) : α :=
  if (nb - na ≤ 0 ∧ 0 ≤ nb - na) then dt / na else dt * (Trans.log nb - Trans.log na) / (nb - na)

/-- per-interval integrals along consecutive (time, size) pairs -/
def pieces : List α → List α → List α
  | t1 :: t2 :: ts, p1 :: p2 :: ps => linearPiece (t2 - t1) p1 p2 :: pieces (t2 :: ts) (p2 :: ps)
  | _, _ => []

/-- `sum(lchoose2[1:] * integral)` -/
def linearIntegral (θ grid : List α) (ev : List (Ev α)) : α :=
  (List.zipWith (fun k q => (choose2 k : α) * q) (lineages ev).tail
    (pieces (times ev).tail (popSizes θ grid ev).tail)).sum

/-- `sum(log_pop_sizes[event_mask_sorted == -1])` -/
def linearLogs (θ grid : List α) (ev : List (Ev α)) : α :=
  (List.zipWith (fun e p => if e.mark = -1 then Trans.log p else (0 : α)) ev (popSizes θ grid ev)).sum

/-- `PiecewiseLinearCoalescentGrid.log_prob` -/
def linearLogProb (θ grid heights : List α) : α :=
  -(linearIntegral θ grid (linearSorted heights grid)) - linearLogs θ grid (linearSorted heights grid)

end logprob

end TT.C08
