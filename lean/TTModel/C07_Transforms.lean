import TTModel.Scalar
import TTModel.C06_Heights
/-!
# C07 — changes of variables: forward map, inverse and reported log|det Jacobian| (as coded)

Mirrors `torchtree/distributions/transforms.py` (CumSum, CumSumExp, SoftPlus, CumSumSoftPlus,
Log, TrilExpDiagonal), `torchtree/evolution/rate_transform.py` (LogDifferenceRate), the
`log_abs_det_jacobian` of the two node-height transforms of C06, and
`TransformedParameter.__call__` (`torchtree/core/parameter.py`).

Vectors are functions `Nat → α` with an explicit length `n`; `x.cumsum(-1)` is the sequential
recursion `csum`; `.sum(-1)` is `sumTo n`.
-/
namespace TT.C07
open TT

section generic
variable {α : Type} [Add α] [Sub α] [Mul α] [Div α] [Neg α] [Zero α] [One α]

/-- `x.cumsum(-1)[i]` -/
def csum (x : Nat → α) : Nat → α
  | 0 => x 0
  | i + 1 => csum x i + x (i + 1)

/-- `v[..., :n].sum(-1)` -/
def sumTo (n : Nat) (v : Nat → α) : α := sumFin (fun i : Fin n => v i.val)

/-- `torch.cat((y[..., :1], y[..., 1:] - y[..., :-1]), -1)` -/
def diffs (y : Nat → α) : Nat → α := fun i => if i = 0 then y 0 else y i - y (i - 1)

/-! ### CumSumTransform -/
def cumsumFwd (x : Nat → α) : Nat → α := csum x
def cumsumInv (y : Nat → α) : Nat → α := diffs y
/-- `torch.zeros(x.shape[:-1])` -/
def cumsumLd (_n : Nat) (_x _y : Nat → α) : α := 0

variable [Trans α]

/-! ### CumSumExpTransform -/
def cumsumexpFwd (x : Nat → α) : Nat → α := fun i => Trans.exp (csum x i)
def cumsumexpInv (y : Nat → α) : Nat → α := diffs (fun i => Trans.log (y i))
/-- `x.cumsum(-1).sum(-1)` -/
def cumsumexpLd (n : Nat) (x _y : Nat → α) : α := sumTo n (csum x)

/-! ### SoftPlusTransform (element-wise; the log-Jacobian is reported per element) -/
/-- `softplus(x) = log(1 + exp x)` (torch switches to the identity above its threshold 20, where
the two agree to 2e-9) -/
def softplus (x : α) : α := Trans.log (1 + Trans.exp x)
def softplusFwd (x : Nat → α) : Nat → α := fun i => softplus (x i)
/-- `torch.expm1(y).log()` -/
def softplusInv (y : Nat → α) : Nat → α := fun i => Trans.log (Trans.exp (y i) - 1)
/-- `-softplus(-x)` -/
def softplusLd (x _y : Nat → α) : Nat → α := fun i => -softplus (-(x i))

/-! ### CumSumSoftPlusTransform -/
/-- `torch.log(x.cumsum(-1).exp() + 1.0)` -/
def cumsumsoftplusFwd (x : Nat → α) : Nat → α := fun i => Trans.log (Trans.exp (csum x i) + 1)
/-- inverse as repaired (F02): differences of `log(expm1 y)` -/
def cumsumsoftplusInv (y : Nat → α) : Nat → α := diffs (fun i => Trans.log (Trans.exp (y i) - 1))
/-- log-Jacobian as repaired (F02): `-softplus(-x.cumsum(-1)).sum(-1)` -/
def cumsumsoftplusLd (n : Nat) (x _y : Nat → α) : α := sumTo n (fun i => -softplus (-(csum x i)))
/-- the unrepaired code: inverse = differences of `log y`, log-Jacobian = 0 -/
def cumsumsoftplusInvOld (y : Nat → α) : Nat → α := diffs (fun i => Trans.log (y i))
def cumsumsoftplusLdOld (_n : Nat) (_x _y : Nat → α) : α := 0

/-! ### LogTransform (element-wise) -/
def logFwd (x : Nat → α) : Nat → α := fun i => Trans.log (x i)
def logInv (y : Nat → α) : Nat → α := fun i => Trans.exp (y i)
/-- `-y` -/
def logLd (_x y : Nat → α) : Nat → α := fun i => -(y i)

/-! ### LogDifferenceRateTransform: `x` are the rates of the `m` non-root nodes (`m = 2n-2`), the
root has rate 1; output position `j` belongs to the `j`-th pre-order pair `(parent, child)` -/
def lograteFwd (m : Nat) (pre : List (Nat × Nat)) (x : Nat → α) : Nat → α :=
  let rates : Nat → α := fun i => Trans.log (if i < m then x i else 1)
  fun j => let a := pre.getD j (0, 0); rates a.2 - rates a.1
/-- log-Jacobian as repaired (F03): `-x.log().sum(-1)` -/
def lograteLd (m : Nat) (x _y : Nat → α) : α := -(sumTo m (fun i => Trans.log (x i)))
/-- the unrepaired code: `-y.sum(-1)` -/
def lograteLdOld (m : Nat) (_x y : Nat → α) : α := -(sumTo m y)

/-! ### TrilExpDiagonalTransform: a vector of length `d(d+1)/2` fills the lower triangle row by
row (`torch.tril_indices` order); the diagonal is exponentiated -/
def trilPos (r c : Nat) : Nat := r * (r + 1) / 2 + c
def trilFwd (x : Nat → α) (r c : Nat) : α :=
  if c < r then x (trilPos r c) else if c = r then Trans.exp (x (trilPos r c)) else 0
/-- row of the `k`-th entry of the lower triangle: the `r` with `r(r+1)/2 ≤ k < (r+1)(r+2)/2` -/
def trilRowAux (k : Nat) : Nat → Nat → Nat
  | 0, r => r
  | fuel + 1, r => if (r + 1) * (r + 2) / 2 ≤ k then trilRowAux k fuel (r + 1) else r
def trilRow (k : Nat) : Nat := trilRowAux k (k + 1) 0
def trilInv (Y : Nat → Nat → α) (k : Nat) : α :=
  let r := trilRow k
  let c := k - r * (r + 1) / 2
  if c = r then Trans.log (Y r r) else Y r c

/-! ### log-Jacobians of the node-height transforms (C06) -/
/-- `torch.log(y[..., _det_indices] - _bounds[n:-1]).sum(-1)` -/
def ratioLd (terms : List α) : α := (terms.map Trans.log).foldl (· + ·) 0
/-- `torch.zeros(x.shape[:-1])` -/
def diffLd : α := 0

end generic

/-! ### `TransformedParameter`: cached transformed value, log-Jacobian on call -/
structure TP (α : Type) where
  x : α
  cached : α
  needUpdate : Bool

namespace TP
variable {α β : Type}
/-- `__init__`: `_tensor = transform(x.tensor)`, `need_update = False` -/
def init (f : α → α) (x : α) : TP α := ⟨x, f x, false⟩
/-- the wrapped parameter changes and notifies: `handle_parameter_changed` sets `need_update` -/
def setX (tp : TP α) (x' : α) : TP α := { tp with x := x', needUpdate := true }
/-- refresh as `tensor`, `__call__`, `shape` … do -/
def refresh (f : α → α) (tp : TP α) : TP α :=
  if tp.needUpdate then { tp with cached := f tp.x, needUpdate := false } else tp
/-- `__call__`: refresh, then `transform.log_abs_det_jacobian(x.tensor, _tensor)` -/
def call (f : α → α) (ld : α → α → β) (tp : TP α) : β × TP α :=
  let tp' := refresh f tp
  (ld tp'.x tp'.cached, tp')
end TP

end TT.C07
