/-!
# C11 — what `Parametric.__setattr__` does with an assigned value

The generated table (`TTGen/C11_Setattr.lean`) lists, for every kind of assigned value and for a name
that is / is not already present in the instance dictionary, the actions the source performs
(`register_parameter` / `register_model` inlined).
-/
namespace TT.C11

inductive VKind | param | model | other
deriving DecidableEq, Repr, Inhabited

inductive Act
  | removeFromDict | removeFromParams | removeFromModels
  | storeDict | storeParams | storeModels
  | addParamListener | addModelListener
  | raise | unknown
deriving DecidableEq, Repr, Inhabited

structure SetattrCase where
  kind : VKind
  inDict : Bool
  acts : List Act
deriving DecidableEq, Repr, Inhabited

/-- the assignment registers: the value is filed under `_parameters` / `_models`, the owner is appended to
the value's listener list, no stale copy of the name stays in the instance dictionary, and nothing else
(unrecognised / raising) happens -/
def SetattrCase.registers (c : SetattrCase) : Bool :=
  !c.acts.contains .unknown && !c.acts.contains .raise &&
  match c.kind with
  | .param => c.acts.contains .storeParams && c.acts.contains .addParamListener &&
      c.acts.contains .removeFromDict && !c.acts.contains .storeDict
  | .model => c.acts.contains .storeModels && c.acts.contains .addModelListener &&
      c.acts.contains .removeFromDict && !c.acts.contains .storeDict
  | .other => c.acts == [.storeDict]

end TT.C11
