/-!
# C09 — JSON option plumbing of BDSKModel / BirthDeathModel (core Lean only)

Shapes of the table `harness/translators/tr_fromjson.py` regenerates into `TTGen/C09_Options.lean`, and
what it means for the table to be sound.
-/
namespace TT.C09

/-- one constructor argument filled by `from_json` -/
structure OptionRow where
  /-- constructor parameter that receives the value -/
  param : String
  /-- JSON key the value is read from -/
  key : String
  /-- JSON key whose presence guards the read ("" = unconditional) -/
  guard : String
  /-- `object`: built by `process_object` / `Parameter(...)`; `raw`: the JSON value itself -/
  kindRead : String
  /-- what the constructor's annotation asks for -/
  kindExpected : String
  /-- the name really is a parameter of `__init__` -/
  isParam : Bool
deriving Repr, DecidableEq

structure ClassOptions where
  name : String
  options : List OptionRow
  /-- `self.<name>` read by `_call` / `_sample_shape` -/
  attrsRead : List String
  /-- attributes assigned by the `__init__`s of the hierarchy, plus its methods and properties -/
  attrsDef : List String
  /-- overridden change handlers whose body is `pass` -/
  inertHandlers : List String
deriving Repr

/-- the JSON spelling of a constructor parameter: a trailing underscore (`lambda_`, `id_`) is dropped -/
def jsonName (p : String) : String :=
  if p = "lambda_" then "lambda" else if p = "id_" then "id" else p

/-- an option selects the behaviour it names: read from the key of its own name, guarded (if at all)
by that same key, delivered in the form the constructor expects, to a parameter that exists -/
def OptionRow.ok (r : OptionRow) : Bool :=
  r.key == jsonName r.param && (r.guard == "" || r.guard == r.key) && r.kindRead == r.kindExpected && r.isParam

def ClassOptions.ok (c : ClassOptions) : Bool :=
  c.options.all OptionRow.ok
  && c.attrsRead.all (fun a => c.attrsDef.contains a)
  && c.inertHandlers.isEmpty

end TT.C09
