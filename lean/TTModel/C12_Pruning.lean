import TTModel.Scalar
import TTModel.C01_Tree
import TTModel.C01_Pruning
/-!
# C12 — the pruning recursion as a function of the tree (core Lean only)

`partialT` is the post-order loop of `calculate_treelikelihood` written as a recursion over the
indexed tree (`TT.C01.ITree`), with `mat b` the transition matrix of the branch above node `b`
(the indexing convention of `TT.C01.Mats`, one rate category).  The driver runs it at `Dual Float`
to differentiate the site likelihood with respect to a branch length; the theorems show it is affine
in each single edge matrix.
-/
namespace TT.C12
open TT.C01

variable {α : Type} [Add α] [Mul α] [Zero α]

/-- partial likelihood vector at the root of the subtree `t` -/
def partialT {S : Nat} (tip : Nat → Fin S → α) (mat : Nat → Fin S → Fin S → α) : ITree → Fin S → α
  | .leaf i => tip i
  | .node _ l r => fun s =>
      matVec (mat l.idx) (partialT tip mat l) s * matVec (mat r.idx) (partialT tip mat r) s

/-- `freqs @ partials[root]` for one site and one rate category -/
def siteLikT {S : Nat} (π : Fin S → α) (tip : Nat → Fin S → α) (mat : Nat → Fin S → Fin S → α)
    (t : ITree) : α :=
  sumFin fun s => π s * partialT tip mat t s

/-- the branches of the tree, named by the node below them -/
def edges : ITree → List Nat
  | .leaf _ => []
  | .node _ l r => l.idx :: r.idx :: (edges l ++ edges r)

end TT.C12
