import TTModel.Scalar
import TTModel.C15_Expr
/-!
# C15 — `MCMC.run` as a step function consuming a random tape

Mirrors `torchtree/inference/mcmc/mcmc.py:MCMC.run` (one loop iteration = `mcmcStep`),
`operator.py:MCMCOperator.step/accept/reject/tune` and the `_step` of `ScalerOperator`,
`SlidingWindowOperator`, `DirichletOperator`; the HMC proposal (`HMCOperator._step`, model in
`TTModel/C16_Leapfrog.lean`) and the GMRF block proposal enter as functions of the environment.

Random numbers are consumed from four typed streams in the order the code draws them:
`ints` (`Categorical(weights).sample()`, `torch.randint`), `rands` (`torch.rand(1)`),
`dirs` (`Dirichlet(...).sample()`), `normals` (momentum / `torch.randn` draws).  In particular
the uniform of the accept test is drawn only in the non-degenerate branch, as in the code.

The target is an arbitrary function of the parameter state (`Env.target`): "evaluation is
fresh" (C11) is exactly the assumption that `self.joint()` is a function of the state.
-/
namespace TT.C15

/-- all parameters of the run: parameter index ↦ its 1-D tensor -/
abbrev Params (α : Type) := List (List α)

/-- `log_joint_proposed`: finite, or caught by `torch.isnan(x) or torch.isinf(x)` -/
inductive LogP (α : Type) where
  | fin (x : α)
  | bad
deriving Repr, BEq

/-- value returned by `operator.step()`: finite, or caught by `torch.isinf` -/
inductive HR (α : Type) where
  | fin (x : α)
  | inf
deriving Repr, BEq

structure Tape (α : Type) where
  rands : List α
  ints : List Nat
  dirs : List (List α)
  normals : List (List α)
deriving Repr

inductive Kind where
  | scaler | window | dirichlet | hmc | block
deriving Repr, BEq, DecidableEq

/-- an `Adaptor` of `HMCOperator._adaptors` (`hmc/adaptation.py`) with its bookkeeping state -/
inductive Adaptor (α : Type) where
  /-- `AdaptiveStepSize`: target, `_start`, `_end` (`none` = inf), `use_acceptance_rate`,
  `_call_counter`, `_accepted` -/
  | adaptive (target : α) (start : Nat) (stop : Option Nat) (useRate : Bool) (calls accepted : Nat)
  /-- `DualAveragingStepSize` + its `DualAveraging`: mu, gamma, kappa, t0, delta, `_start`, `_end`,
  `_call_counter`, `_counter`, x, x_bar, s_bar -/
  | dual (mu gamma kappa t0 delta : α) (start : Nat) (stop : Option Nat) (calls counter : Nat)
      (x xbar sbar : α)
  /-- `MassMatrixAdaptor`: acts on the mass matrix parameter, never on the step size (the current
  mass matrix enters the machine through `Env.hmcProp`) -/
  | massMatrix
deriving Repr

/-- one `MCMCOperator` object -/
structure Op (α : Type) where
  id : Nat                   -- position in `self._operators`
  kind : Kind
  pidx : List Nat            -- `self.parameters` (indices into the run's parameter list)
  target : α                 -- `target_acceptance_probability`
  disabled : Bool            -- `_disable_adaptation`
  windowLen : Nat            -- `_accept_window_length`
  scale : α                  -- `_scaler` / `_width` / `_integrator.step_size`
  adaptCount : Nat           -- `_adapt_count`
  accept : Nat               -- `_accept`
  reject : Nat               -- `_reject`
  window : List Nat          -- `_accept_window`
  adaptors : List (Adaptor α) := []   -- `HMCOperator._adaptors`
deriving Repr

structure Machine (α : Type) where
  state : Params α
  logJoint : α               -- the local `log_joint` of `MCMC.run`
  ops : List (Op α)
  epoch : Nat                -- `self._epoch`
  acceptTotal : Nat          -- the local `accept`
deriving Repr

/-- what the model is parametric in -/
structure Env (α : Type) where
  target : Params α → LogP α
  /-- `Dirichlet(concentration).log_prob(x)` -/
  dirLogProb : List α → List α → α
  /-- `HMCOperator._step` on the concatenated own parameters: step size, positions, the
  available momentum draws ↦ (new positions, returned value, number of draws consumed) -/
  hmcProp : Op α → List α → List (List α) → List α × HR α × Nat
  /-- GMRF block proposal on (field, precision): scale, own parameters, tape ↦
  (new own parameters, returned value, remaining tape) -/
  blockProp : Op α → List (List α) → Tape α → List (List α) × HR α × Tape α
  get : Kind → α → α         -- `adaptable_parameter` getter, as a function of the scale field
  set : Kind → α → α         -- the scale field `set_adaptable_parameter(value)` stores
  rm : α → α → α → α → α     -- `MCMCOperator.tune`: (adaptable, acceptance_prob, target, count)
  /-- `AdaptiveStepSize.learn`: (step size, prob, target, call counter) ↦ new step size -/
  asNew : α → α → α → α → α
  /-- `DualAveraging.step`: mu gamma kappa t0, new counter, s_bar, x_bar, statistic ↦ (s_bar, x, x_bar) -/
  daStep : α → α → α → α → α → α → α → α → α × α × α
  /-- `math.exp` of `DualAveragingStepSize.learn` -/
  daSet : α → α

/-- non-finite constants an operator may return instead of a Hastings ratio; `HR.inf` stands for any of them
that the run loop's first test catches (`TTGen.C15_RunOrder.loopFailureTests`) -/
inductive Sentinel where
  | posInf | negInf | nan
deriving Repr, DecidableEq

/-- which value of `self._epoch` a statement of the loop body reads -/
inductive EpochRef where
  | epochBefore | epochAfter
deriving Repr, BEq, DecidableEq

/-- the phases of `MCMC.run` (`TTGen/C15_RunOrder.lean` lists them in SOURCE order) -/
inductive Phase where
  | logInitial | evaluateInitial
  | select | propose | decide | acceptReject
  | log (sample : EpochRef)
  | tune (sample : EpochRef) (passesAccProb passesAccepted : Bool)
  | counter | checkpoint
deriving Repr, BEq, DecidableEq

/-- the order `mcmcStep` implements: the operator is drawn, proposes, the move is decided (the joint is
evaluated inside the decision, only in the non-degenerate branch), accepted or restored, THEN the loggers
write the row of this iteration number, THEN the operator is tuned with the acceptance probability and the
decision of this move and this iteration number, then the counter advances (and a checkpoint may be
written, C17/C18). -/
def stepOrder : List Phase :=
  [.select, .propose, .decide, .acceptReject, .log .epochBefore, .tune .epochBefore true true,
   .counter, .checkpoint]

/-- before the loop: loggers write row 0, then the joint is evaluated at the initial state -/
def initialOrder : List Phase := [.logInitial, .evaluateInitial]

/-- record of one transition, for the correspondence -/
structure Rec (α : Type) where
  opIdx : Nat
  proposed : Params α
  hr : HR α
  lpProposed : Option (LogP α)    -- `none`: `self.joint()` was not evaluated
  accProb : α
  accepted : Bool
  uUsed : Option α
  stateAfter : Params α
  logJointAfter : α
  logged : LogP α                 -- what a logger holding the joint writes for this row
  logSample : Nat                 -- `sample=` of `logger.log`
  tuneSample : Nat                -- `sample=` of `operator.tune`
  scaleAfter : α
deriving Repr

section
variable {α : Type}

/-- `zip(self.parameters, tensors)` assignment loop -/
def setMany (st : Params α) (pidx : List Nat) (vals : List (List α)) : Params α :=
  (pidx.zip vals).foldl (fun st kv => st.set kv.1 kv.2) st

/-- `[parameter.tensor.clone() for parameter in self.parameters]` -/
def savedOf (st : Params α) (pidx : List Nat) : List (List α) :=
  pidx.map fun k => st.getD k []

/-- `set_tensor`: cut the concatenated vector back into the parameters' sizes -/
def splitBy : List Nat → List α → List (List α)
  | [], _ => []
  | s :: ss, v => v.take s :: splitBy ss (v.drop s)

end

section
variable {α : Type} [Add α] [Sub α] [Mul α] [Div α] [Neg α] [Zero α] [One α] [FromNat α]
  [Trans α] [LT α] [DecidableLT α]

/-- `ScalerOperator._step` -/
def proposeScaler (op : Op α) (st : Params α) (tape : Tape α) : Params α × HR α × Tape α :=
  match tape.rands, tape.ints with
  | r :: rs, i1 :: i2 :: is =>
    match op.pidx[i1]? with
    | none => (st, .inf, tape)      -- IndexError in the code; never happens with randint's range
    | some k =>
      let s := op.scale + r * ((1 / op.scale) - op.scale)
      let p := (st.getD k []).modify i2 (· * s)
      (st.set k p, .fin (-(Trans.log s)), { tape with rands := rs, ints := is })
  | _, _ => (st, .inf, tape)

/-- `SlidingWindowOperator._step` -/
def proposeWindow (half : α) (op : Op α) (st : Params α) (tape : Tape α) :
    Params α × HR α × Tape α :=
  match tape.rands, tape.ints with
  | r :: rs, i1 :: i2 :: is =>
    match op.pidx[i1]? with
    | none => (st, .inf, tape)
    | some k =>
      let shift := op.scale * (r - half)
      let p := (st.getD k []).modify i2 (· + shift)
      (st.set k p, .fin 0, { tape with rands := rs, ints := is })
  | _, _ => (st, .inf, tape)

/-- `DirichletOperator._step` -/
def proposeDirichlet (env : Env α) (op : Op α) (st : Params α) (tape : Tape α) :
    Params α × HR α × Tape α :=
  match tape.dirs, op.pidx with
  | newv :: ds, k :: _ =>
    let old := st.getD k []
    let scaledOld := old.map (· * op.scale)
    let scaledNew := newv.map (· * op.scale)
    let f := env.dirLogProb scaledOld newv
    let b := env.dirLogProb scaledNew old
    (st.set k newv, .fin (b - f), { tape with dirs := ds })
  | _, _ => (st, .inf, tape)

/-- `HMCOperator._step` (the integrator is `Env.hmcProp`, C16) -/
def proposeHmc (env : Env α) (op : Op α) (st : Params α) (tape : Tape α) :
    Params α × HR α × Tape α :=
  let own := savedOf st op.pidx
  let r := env.hmcProp op own.flatten tape.normals
  (setMany st op.pidx (splitBy (own.map List.length) r.1), r.2.1,
    { tape with normals := tape.normals.drop r.2.2 })

/-- GMRF block update: `self.parameters = [gmrf.field, gmrf.precision]` -/
def proposeBlock (env : Env α) (op : Op α) (st : Params α) (tape : Tape α) :
    Params α × HR α × Tape α :=
  let r := env.blockProp op (savedOf st op.pidx) tape
  (setMany st op.pidx r.1, r.2.1, r.2.2)

/-- `operator._step()` -/
def propose (env : Env α) (half : α) (op : Op α) (st : Params α) (tape : Tape α) :
    Params α × HR α × Tape α :=
  match op.kind with
  | .scaler => proposeScaler op st tape
  | .window => proposeWindow half op st tape
  | .dirichlet => proposeDirichlet env op st tape
  | .hmc => proposeHmc env op st tape
  | .block => proposeBlock env op st tape

/-- `_accept_window.append(x)`; `popleft()` when longer than the window length -/
def pushWindow (w : List Nat) (len : Nat) (x : Nat) : List Nat :=
  let w' := w ++ [x]
  if w'.length > len then w'.tail else w'

/-- `MCMCOperator.accept` -/
def Op.onAccept (op : Op α) : Op α :=
  { op with accept := op.accept + 1, window := pushWindow op.window op.windowLen 1 }

/-- `MCMCOperator.reject` (the restoring loop is `setMany` in `mcmcStep`) -/
def Op.onReject (op : Op α) : Op α :=
  { op with reject := op.reject + 1, window := pushWindow op.window op.windowLen 0 }

/-- `start <= call_counter <= end` -/
def inWindow (start : Nat) (stop : Option Nat) (calls : Nat) : Bool :=
  decide (start ≤ calls) && (match stop with | none => true | some e => decide (calls ≤ e))

/-- `Adaptor.learn(acceptance_prob, sample, accepted)`: new adaptor state and new step size -/
def Adaptor.learn (env : Env α) (step : α) (accProb : α) (accepted : Bool) :
    Adaptor α → Adaptor α × α
  | .adaptive target start stop useRate calls acc =>
    let calls' := calls + 1
    let acc' := acc + (if accepted then 1 else 0)
    let a' := Adaptor.adaptive target start stop useRate calls' acc'
    if inWindow start stop calls' && (!useRate || decide (10 ≤ calls')) then
      let prob : α := if useRate then FromNat.ofNat acc' / FromNat.ofNat calls' else accProb
      (a', env.asNew step prob target (FromNat.ofNat calls'))
    else (a', step)
  | .dual mu gamma kappa t0 delta start stop calls counter x xbar sbar =>
    let calls' := calls + 1
    if inWindow start stop calls' then
      let counter' := counter + 1
      let r := env.daStep mu gamma kappa t0 (FromNat.ofNat counter') sbar xbar (delta - accProb)
      (.dual mu gamma kappa t0 delta start stop calls' counter' r.2.1 r.2.2 r.1, env.daSet r.2.1)
    else
      let a' := Adaptor.dual mu gamma kappa t0 delta start stop calls' counter x xbar sbar
      match stop with
      | some e => if e ≤ calls' then (a', env.daSet xbar) else (a', step)
      | none => (a', step)
  | .massMatrix => (.massMatrix, step)

/-- `for adaptor in self._adaptors: adaptor.learn(...)` -/
def learnAll (env : Env α) (accProb : α) (accepted : Bool) :
    List (Adaptor α) → α → List (Adaptor α) × α
  | [], step => ([], step)
  | a :: rest, step =>
    let r := a.learn env step accProb accepted
    let rr := learnAll env accProb accepted rest r.2
    (r.1 :: rr.1, rr.2)

/-- `MCMCOperator.tune` + the `adaptable_parameter` setter (`_adapt_count += 1`);
`HMCOperator.tune` hands over to its adaptors when it has any (then `_disable_adaptation` is not
consulted, as in the code) -/
def tune (env : Env α) (op : Op α) (accProb : α) (accepted : Bool) : Op α :=
  if op.adaptors.isEmpty then
    if op.disabled then op
    else
      let newp := env.rm (env.get op.kind op.scale) accProb op.target (FromNat.ofNat op.adaptCount)
      { op with scale := env.set op.kind newp, adaptCount := op.adaptCount + 1 }
  else
    let r := learnAll env accProb accepted op.adaptors op.scale
    { op with adaptors := r.1, scale := r.2 }

/-- outcome of the accept/reject block of `MCMC.run` -/
structure Decision (α : Type) where
  accProb : α
  accepted : Bool
  lpProposed : Option (LogP α)
  lpValue : α                -- `log_joint_proposed` when accepted
  uUsed : Option α
  tape : Tape α

/-- the `if torch.isinf(hastings_ratio) … else …` block -/
def decideMove (env : Env α) (logJoint : α) (prop : Params α) (hr : HR α) (tape : Tape α) :
    Decision α :=
  match hr with
  | .inf => ⟨0, false, none, logJoint, none, tape⟩
  | .fin h =>
    match env.target prop with
    | .bad => ⟨0, false, some .bad, logJoint, none, tape⟩
    | .fin lp =>
      match tape.rands with
      | [] => ⟨0, false, some (.fin lp), logJoint, none, tape⟩   -- tape exhausted (not in a run)
      | u :: rs =>
        let logAlpha := (lp - logJoint) + h
        -- Python's `min(zeros, log_alpha)`: the second argument only if it is smaller
        let accProb := Trans.exp (if logAlpha < 0 then logAlpha else 0)
        ⟨accProb, decide (u < accProb), some (.fin lp), lp, some u, { tape with rands := rs }⟩

/-- one iteration of the `while` loop of `MCMC.run` -/
def mcmcStep (env : Env α) (half : α) (m : Machine α) (tape : Tape α) :
    Option (Machine α × Tape α × Rec α) :=
  match tape.ints with
  | [] => none
  | oi :: is =>
    match m.ops[oi]? with
    | none => none
    | some op =>
      let tape1 := { tape with ints := is }
      let saved := savedOf m.state op.pidx                  -- `operator.step()` clones
      let (prop, hr, tape2) := propose env half op m.state tape1
      let d := decideMove env m.logJoint prop hr tape2
      let stateAfter := if d.accepted then prop else setMany prop op.pidx saved
      let logJointAfter := if d.accepted then d.lpValue else m.logJoint
      let op1 := if d.accepted then op.onAccept else op.onReject
      let logged := env.target stateAfter                    -- `logger.log(sample=epoch)`
      let op2 := tune env op1 d.accProb d.accepted
      let m' : Machine α :=
        { state := stateAfter, logJoint := logJointAfter, ops := m.ops.set oi op2,
          epoch := m.epoch + 1,
          acceptTotal := if d.accepted then m.acceptTotal + 1 else m.acceptTotal }
      some (m', d.tape,
        { opIdx := oi, proposed := prop, hr := hr, lpProposed := d.lpProposed,
          accProb := d.accProb, accepted := d.accepted, uUsed := d.uUsed,
          stateAfter := stateAfter, logJointAfter := logJointAfter, logged := logged,
          logSample := m.epoch, tuneSample := m.epoch, scaleAfter := op2.scale })

/-- `n` iterations (stops early only when the tape runs dry) -/
def run (env : Env α) (half : α) : Nat → Machine α → Tape α → Machine α × List (Rec α)
  | 0, m, _ => (m, [])
  | n + 1, m, tape =>
    match mcmcStep env half m tape with
    | none => (m, [])
    | some (m', tape', r) =>
      let (mf, rs) := run env half n m' tape'
      (mf, r :: rs)

end
/-! ## GMRF block update: the precision proposal

`GMRFPiecewiseCoalescentBlockUpdatingOperator.propose_precision`:

    length = scaler - 1/scaler
    if scaler == 1:                                   new = precision            (no draw)
    elif rand() < length / (length + 2 log scaler):   new = (1/scaler + length*rand()) * precision
    else:                                             new = pow(scaler, 2*rand() - 1) * precision
-/
section
variable {α : Type} [Add α] [Sub α] [Mul α] [Div α] [One α] [FromNat α] [Trans α] [LT α]
  [DecidableLT α] [BEq α]

/-- multiplier applied to the precision and the number of uniforms consumed -/
def precisionMultiplier (s : α) (rands : List α) : α × Nat :=
  let length := s - 1 / s
  if s == 1 then (1, 0)
  else match rands with
    | u1 :: u2 :: _ =>
      if u1 < length / (length + FromNat.ofNat 2 * Trans.log s) then (1 / s + length * u2, 2)
      else (Trans.pow s (FromNat.ofNat 2 * u2 - 1), 2)
    | _ => (1, 0)

end
end TT.C15
