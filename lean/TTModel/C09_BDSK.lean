import TTModel.Scalar
/-!
# C09 — birth–death skyline density (core Lean only, scalar-polymorphic)

Mirrors `torchtree/evolution/bdsk.py` for ONE sample (no batch dimensions):
`epidemiology_to_birth_death`, `PiecewiseConstantBirthDeath.log_p` (backward recursion for
`p_i, A_i, B_i`), `log_q`, `p0`, and `log_prob` with its index conventions:

* `times = [t_0 = 0, t_1, …, t_m]` are FORWARD times (0 = origin, `t_m` = present); epoch `i`
  (`0 ≤ i < m`) is `[t_i, t_{i+1})` and carries `lam i, mu i, psi i`; `rho i` is the probability of
  the sampling event at `t_{i+1}` (`rho (m-1)`: at the present).
* internal node at forward time `x`: epoch `searchsorted(times, x, right=True) - 1`
  (a node exactly on a boundary belongs to the younger epoch, its stem crosses the boundary);
* tip at forward time `y`: epoch `clamp(searchsorted(times, y, right=False) - 1, 0, m-1)`
  (a tip exactly on `t_i` belongs to the epoch that ENDS there and does not cross it);
* `n_i = #{x < t_i} - #{y ≤ t_i} + 1` lineages cross `t_i`; `N_i = #{y = t_{i+1}}`.

Per-epoch arrays are functions `Nat → α`; counts are turned into scalars with `ofNat`.
-/
namespace TT.C09

variable {α : Type} [Add α] [Sub α] [Mul α] [Div α] [Neg α] [Zero α] [One α] [Trans α]

def two : α := 1 + 1
def four : α := two + two

def ofNat : Nat → α
  | 0 => 0
  | n + 1 => ofNat n + 1

/-- integer counts (the code computes them in floating point: they may be negative on inputs that are not trees) -/
def ofInt : Int → α
  | .ofNat n => ofNat n
  | .negSucc n => -(ofNat (n + 1))

def sumList (l : List α) : α := l.foldr (· + ·) 0

/-- `epidemiology_to_birth_death(R, delta, s, r)`: (lambda, mu, psi) -/
def epiToBD (R delta s : α) (r : Option α) : α × α × α :=
  match r with
  | none => (R * delta, delta - s * delta, s * delta)
  | some r =>
      let psi := s * delta / (1 + (r - 1) * s)
      (R * delta, delta - psi * r, psi)

structure Rates (α : Type) where
  lam : Nat → α
  mu : Nat → α
  psi : Nat → α
  rho : Nat → α

/-- `A_i = sqrt((lam - mu - psi)^2 + 4 lam psi)` -/
def Acoef (r : Rates α) (i : Nat) : α :=
  Trans.sqrt ((r.lam i - r.mu i - r.psi i) * (r.lam i - r.mu i - r.psi i) + four * r.lam i * r.psi i)

/-- `B_i` from `p_{i+1}(t_{i+1})` -/
def Bcoef (r : Rates α) (i : Nat) (pnext : α) : α :=
  ((1 - two * (1 - r.rho i) * pnext) * r.lam i + r.mu i + r.psi i) / Acoef r i

/-- the value of `p` at distance `d` before the end of an epoch with coefficients `A, B`:
`(lam + mu + psi - A (e^{A d}(1+B) - (1-B)) / (e^{A d}(1+B) + (1-B))) / (2 lam)` -/
def pClosed (lam mu psi A B d : α) : α :=
  let term := Trans.exp (A * d) * (1 + B)
  (lam + mu + psi - A * (term - (1 - B)) / (term + (1 - B))) / (two * lam)

/-- one step of the loop in `log_p` (written there as `* inv_2lambda`) -/
def pStep (r : Rates α) (i : Nat) (d pnext : α) : α :=
  let A := Acoef r i
  let B := Bcoef r i pnext
  let term := Trans.exp (A * d) * (1 + B)
  (r.lam i + r.mu i + r.psi i - A * (term - (1 - B)) / (term + (1 - B))) * (1 / (two * r.lam i))

/-- `p[m - j]`: `j` steps back from `p[m] = 1` -/
def pBack (r : Rates α) (t : Nat → α) (m : Nat) : Nat → α
  | 0 => 1
  | j + 1 => pStep r (m - (j + 1)) (t (m - (j + 1) + 1) - t (m - (j + 1))) (pBack r t m j)

/-- `p[i] = p_i(t_i)`: a lineage alive at the start of epoch `i` has no sampled descendant -/
def pAt (r : Rates α) (t : Nat → α) (m i : Nat) : α := pBack r t m (m - i)

def BAt (r : Rates α) (t : Nat → α) (m i : Nat) : α := Bcoef r i (pAt r t m (i + 1))

/-- `log_q(A, B, t, t_i)` with `e = exp(-A (t - t_i))` -/
def logq (A B t ti : α) : α :=
  let e := Trans.exp (-(A * (t - ti)))
  Trans.log (four * e / ((e * (1 + B) + (1 - B)) * (e * (1 + B) + (1 - B))))

/-- `p0(A, B, t, t_i)` of the epoch with rates `lam mu psi` -/
def p0 (lam mu psi A B t ti : α) : α := pClosed lam mu psi A B (t - ti)

section Order
variable [LT α] [DecidableRel (α := α) (· < ·)] [LE α] [DecidableRel (α := α) (· ≤ ·)] [BEq α]

/-- `#{k < n : t k ≤ x}` — `searchsorted(times, x, right=True)` on sorted `times` of length `n` -/
def countLE (t : Nat → α) (n : Nat) (x : α) : Nat := ((List.range n).filter fun k => t k ≤ x).length
/-- `#{k < n : t k < x}` — `searchsorted(times, x, right=False)` -/
def countLT (t : Nat → α) (n : Nat) (x : α) : Nat := ((List.range n).filter fun k => t k < x).length
def countEq (t : Nat → α) (n : Nat) (x : α) : Nat := ((List.range n).filter fun k => t k == x).length

/-- epoch of an internal node -/
def idxX (t : Nat → α) (m : Nat) (x : α) : Nat := countLE t (m + 1) x - 1
/-- epoch of a tip -/
def idxY (t : Nat → α) (m : Nat) (y : α) : Nat := min (countLT t (m + 1) y - 1) (m - 1)

/-- the tip sits on a sampling time whose `rho` is positive -/
def isRhoTip (r : Rates α) (t : Nat → α) (m : Nat) (y : α) : Bool :=
  decide (0 < countEq t (m + 1) y) && decide (0 < r.rho (idxY t m y))

/-- `n_i` for the boundary `t_i`, `1 ≤ i ≤ m-1`: `#{x < t_i} - #{y ≤ t_i} + 1` (an integer, as in the code) -/
def nCross (t : Nat → α) (i : Nat) (xs ys : List α) : Int :=
  ((xs.filter fun x => x < t i).length : Int) - ((ys.filter fun y => y ≤ t i).length : Int) + 1

/-- `N_i`: tips sampled exactly at `t_{i+1}` -/
def nAt (t : Nat → α) (i : Nat) (ys : List α) : Nat := (ys.filter fun y => y == t (i + 1)).length

/-- `PiecewiseConstantBirthDeath.log_prob` for tip heights `tips` and internal node heights `ints`
(ages), `rem`: removal probability per epoch -/
def logProb (r : Rates α) (rem : Option (Nat → α)) (t : Nat → α) (m : Nat) (survival : Bool)
    (tips ints : List α) : α :=
  let A := Acoef r
  let B := BAt r t m
  let xs := ints.map fun h => t m - h
  let ys := tips.map fun h => t m - h
  let first := logq (A 0) (B 0) 0 (t 1)
  let surv := if survival then first - Trans.log (1 - pAt r t m 0) else first
  let births := sumList (xs.map fun x =>
    let i := idxX t m x
    Trans.log (r.lam i) + logq (A i) (B i) x (t (i + 1)))
  let serial :=
    if ys.any (fun y => !isRhoTip r t m y) then
      sumList (ys.map fun y =>
        if isRhoTip r t m y then 0 else
        let i := idxY t m y
        let lq := logq (A i) (B i) y (t (i + 1))
        match rem with
        | none => Trans.log (r.psi i) - lq
        | some rr =>
            Trans.log (r.psi i * (rr i + (1 - rr i) * p0 (r.lam i) (r.mu i) (r.psi i) (A i) (B i) (t (i + 1)) y)) - lq)
    else 0
  let crossing := sumList ((List.range (m - 1)).map fun k =>
    let i := k + 1
    ofInt (nCross t i xs ys) * (logq (A i) (B i) (t i) (t (i + 1)) + Trans.log (1 - r.rho k)))
  let rhoTerm := sumList ((List.range m).map fun i =>
    let n := nAt t i ys
    ofNat n * Trans.log (if 0 < n ∧ 0 < r.rho i then r.rho i else 1))
  let remTerm :=
    match rem with
    | none => 0
    | some rr =>
        sumList ((List.range m).map fun i =>
          let n := nAt t i ys
          ofNat n * Trans.log (if 0 < n ∧ 0 < r.rho i then rr i + (1 - rr i) * pAt r t m (i + 1) else 1))
        + Trans.log two * ofNat (tips.length - 1)
  surv + births + serial + crossing + rhoTerm + remTerm

/-- `BirthDeath.log_prob` of `torchtree/evolution/birth_death.py` (constant rates; as repaired: a tip at the present is
`rho`-sampled when `rho > 0`, every other tip `psi`-sampled): origin age `T`, ages `tips`, `ints` -/
def logProbConst (lam mu psi rho T : α) (survival : Bool) (tips ints : List α) : α :=
  let A := Trans.sqrt ((lam - mu - psi) * (lam - mu - psi) + four * lam * psi)
  let B := ((1 - two * (1 - rho)) * lam + mu + psi) / A
  let term := Trans.exp (A * T) * (1 + B)
  let p := (lam + mu + psi - A * (term - (1 - B)) / (term + (1 - B))) / (two * lam)
  let e := Trans.exp (-(A * T))
  let first := Trans.log (four * e / ((e * (1 - B) + (1 + B)) * (e * (1 - B) + (1 + B))))
  let surv := if survival then first - Trans.log (1 - p) else first
  let births := sumList (ints.map fun h => Trans.log lam + logq A B (T - h) T)
  let isRho := fun (h : α) => (h == 0) && decide (0 < rho)
  let serial :=
    if tips.any (fun h => !isRho h) then
      sumList (tips.map fun h => if isRho h then 0 else Trans.log psi - logq A B (T - h) T)
    else 0
  let rhoT := sumList (tips.map fun h => if isRho h then Trans.log (if 0 < rho then rho else 1) else 0)
  surv + births + serial + rhoT

end Order

/-! ## refining the epoch grid -/

/-- epoch times with a boundary `s` inserted after index `i` -/
def cutTimes (t : Nat → α) (i : Nat) (s : α) : Nat → α :=
  fun k => if k ≤ i then t k else if k = i + 1 then s else t (k - 1)

/-- a per-epoch array with entry `i` duplicated -/
def dupAt (f : Nat → α) (i : Nat) : Nat → α := fun k => if k ≤ i then f k else f (k - 1)

/-- the rates of the refined grid: epoch `i` cut in two sub-epochs with its rates, no sampling event at the cut,
the sampling event of epoch `i` kept at its end -/
def cutRates (r : Rates α) (i : Nat) : Rates α where
  lam := dupAt r.lam i
  mu := dupAt r.mu i
  psi := dupAt r.psi i
  rho := fun k => if k < i then r.rho k else if k = i then 0 else r.rho (k - 1)

/-! ## a tree with node times, for the lineage-count theorem -/

/-- binary tree carrying the forward time of every node -/
inductive TTree (α : Type) where
  | tip (y : α)
  | node (x : α) (l r : TTree α)

namespace TTree
def internalTimes : TTree α → List α
  | tip _ => []
  | node x l r => x :: (internalTimes l ++ internalTimes r)
def tipTimes : TTree α → List α
  | tip y => [y]
  | node _ l r => tipTimes l ++ tipTimes r
def time : TTree α → α
  | tip y => y
  | node x _ _ => x
end TTree

end TT.C09
