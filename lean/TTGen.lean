import TTGen.SavePlan
