import TTProofs.Props.C08
import TTProofs.Lemmas.C08_Ties
/-!
# C08 — the hypotheses of the `…_eq_kingman` theorems, characterised

The main theorems exclude (i) a coalescent time on a grid point, (ii) tied coalescent times for the skyride,
(iii) growth rate 0.  This file says what happens THERE:

* `skygrid_eq_kingman_left_continuous`: the model (stable sort of `[sampling | coalescent | grid]`) needs no
  exclusion at all: with a coalescent time ON a grid point it is the Kingman density of the LEFT-continuous
  `N(t) = θ[#{g < t}]` — and a sampling time may coincide with a coalescent time;
* `skygrid_tie_order_matters`: the other admissible order of the tied events (grid mark first — torch's `argsort`
  is not stable, either order can occur) gives the RIGHT-continuous value: two time-sorted orders of the same
  events, values differing by `log θ₁ - log θ₀`.  So the excluded set is exactly where the unspecified tie order
  of `argsort` is observable, and the two possible values are the two one-sided choices of `N`;
* `skyride_eq_kingman_up_to_logs` / `skyride_tied_coalescent_witness`: with tied coalescent times the interval part
  still agrees; the code adds `Σ log θ_i` over ALL pieces while `Σ log N(c_j)` repeats the piece of the tie;
* `exponential_growth_zero_witness`: at `g = 0` the code's formula divides by `θ·g`: over ℝ (`x/0 = 0`) the whole
  interval part disappears (float64: `nan`), so the value is not the Kingman density of `N ≡ θ`.
-/
namespace TTProps.C08
open TT TT.C08 TT.C08.Ex MeasureTheory intervalIntegral

/-- the skygrid value computed from an already sorted event list (`skygridLogProb` is this on `sortEvents`) -/
noncomputable def skygridOfSorted (θ : List ℝ) (ev : List (Ev ℝ)) : ℝ :=
  -(zipWith3 (fun k d i => (choose2 k : ℝ) * d / θ.getD i 0) (lineages ev) (diffs (times ev))
      (skygridIdx ev).dropLast).sum - skygridLogs θ ev

theorem skygridLogProb_eq_ofSorted (θ grid heights : List ℝ) :
    skygridLogProb θ grid heights = skygridOfSorted θ (sortEvents (mkEvents heights grid)) := rfl

/-- **skygrid_eq_kingman_left_continuous** — no exclusion of ties: for every order of the input blocks, grid
points anywhere INCLUDING on coalescent times, coalescent times possibly equal to sampling times, the model is the
Kingman density of the left-continuous step function. -/
theorem skygrid_eq_kingman_left_continuous (θ grid : List ℝ) {samp coal samp' coal' : List ℝ}
    (hs : samp'.Perm samp) (hc : coal'.Perm coal) (hlen : samp.length = coal.length + 1) (a b : ℝ)
    (ha : ∀ t ∈ samp ++ coal ++ grid, a ≤ t) (hb : ∀ t ∈ samp ++ coal ++ grid, t ≤ b)
    (hyoung : ∀ c ∈ coal, ∃ s ∈ samp, s ≤ c) :
    skygridLogProb θ grid (samp' ++ coal') = kingman samp coal (stepN θ grid) a b := by
  have hI := window_integral (fun k j _ => (choose2 k : ℝ) / θ.getD j 0)
    (fun k j a b => (choose2 k : ℝ) * (b - a) / θ.getD j 0) 0
    (fun k j a b _ => by
      obtain ⟨h1, h2⟩ := const_piece ((choose2 k : ℝ) / θ.getD j 0) a b
      exact ⟨h1, by rw [h2]; ring⟩)
    (fun _ _ => by simp [choose2_zero]) (fun _ _ => by simp [choose2_one]) grid hs hc hlen a b ha hb
  have hL := grid_logs_tie (fun i => Real.log (θ.getD i 0)) grid hs hc hlen hyoung
  unfold skygridLogProb skygridIntegral skygridLogs kingman lineages
  dsimp only
  rw [show (skygridIdx (sortEvents (mkEvents (samp' ++ coal') grid))).dropLast
      = (cumsumFrom 0 (isMark 0 (marks (sortEvents (mkEvents (samp' ++ coal') grid))))).dropLast from rfl]
  unfold cumsum
  rw [zipWith3_eq_walk (fun k d i => (choose2 k : ℝ) * d / θ.getD i 0) 0, ← hI]
  congr 1
  congr 2; funext x; rw [jAt_zero_evs]; rfl

-- a coalescent time (1) exactly on the grid point 1, and another (2) on a sampling time
example : skygridLogProb [2, 8] [1] (([2, 0, 0] : List ℝ) ++ [1, 3])
    = kingman [0, 0, 2] [1, 3] (stepN [2, 8] [1]) 0 3 :=
  skygrid_eq_kingman_left_continuous [2, 8] [1] (samp := [0, 0, 2]) (coal := [1, 3])
    ((List.Perm.swap 0 2 [0]).trans ((List.Perm.swap 0 2 []).cons 0)) (List.Perm.refl _) rfl 0 3
    (by simp) (by simp; norm_num)
    (by intro c hc; exact ⟨0, by simp, by simp at hc; rcases hc with rfl | rfl <;> norm_num⟩)

/-- **skygrid_tie_order_matters** — samples at 0, 0; a coalescent event and a grid point both at time 1;
`θ = (2, 8)`.  Both lists below are time-sorted orders of the same four events; the coalescent-first order (the
model's, left-continuous `N(1) = 2`) and the grid-first order (right-continuous `N(1) = 8`) differ by
`log 8 - log 2`. -/
theorem skygrid_tie_order_matters :
    let ev₁ : List (Ev ℝ) := [⟨0, 1⟩, ⟨0, 1⟩, ⟨1, -1⟩, ⟨1, 0⟩]
    let ev₂ : List (Ev ℝ) := [⟨0, 1⟩, ⟨0, 1⟩, ⟨1, 0⟩, ⟨1, -1⟩]
    TimeSorted ev₁ ∧ TimeSorted ev₂ ∧ ev₁.Perm ev₂ ∧
      ev₁ = sortEvents (mkEvents [0, 0, 1] [1]) ∧
      skygridOfSorted [2, 8] ev₁ = -(1 / 2) - Real.log 2 ∧
      skygridOfSorted [2, 8] ev₂ = -(1 / 2) - Real.log 8 ∧
      skygridOfSorted [2, 8] ev₁ ≠ skygridOfSorted [2, 8] ev₂ := by
  intro ev₁ ev₂
  have h1 : skygridOfSorted [2, 8] ev₁ = -(1 / 2) - Real.log 2 := by
    simp [ev₁, skygridOfSorted, skygridLogs, skygridIdx, lineages, cumsum, cumsumFrom, marks, times, isMark, diffs,
      zipWith3, choose2]
    norm_num
  have h2 : skygridOfSorted [2, 8] ev₂ = -(1 / 2) - Real.log 8 := by
    simp [ev₂, skygridOfSorted, skygridLogs, skygridIdx, lineages, cumsum, cumsumFrom, marks, times, isMark, diffs,
      zipWith3, choose2]
    norm_num
  refine ⟨by simp [ev₁, TimeSorted], by simp [ev₂, TimeSorted], ?_, ?_, h1, h2, ?_⟩
  · exact (List.Perm.swap _ _ _).cons _ |>.cons _
  · simp [ev₁, sortEvents, insertEv, mkEvents, taxaCount, nodeMask]
  · rw [h1, h2]
    have : Real.log 2 < Real.log 8 := Real.log_lt_log (by norm_num) (by norm_num)
    intro h
    linarith

/-- the skyride's interval part needs no distinctness of coalescent times; only the log terms do -/
theorem skyride_eq_kingman_up_to_logs (θ : List ℝ) {samp coal samp' coal' : List ℝ}
    (hs : samp'.Perm samp) (hc : coal'.Perm coal) (hlen : samp.length = coal.length + 1) (a b : ℝ)
    (ha : ∀ t ∈ samp ++ coal ++ [], a ≤ t) (hb : ∀ t ∈ samp ++ coal ++ [], t ≤ b) :
    skyrideLogProb θ (samp' ++ coal')
      = kingman samp coal (stepN θ coal) a b
        + ((coal.map (fun c => Real.log (stepN θ coal c))).sum - (θ.map Real.log).sum) := by
  have hI := window_integral (fun k j _ => (choose2 k : ℝ) / θ.getD j 0)
    (fun k j a b => (choose2 k : ℝ) * (b - a) / θ.getD j 0) (-1)
    (fun k j a b _ => by
      obtain ⟨h1, h2⟩ := const_piece ((choose2 k : ℝ) / θ.getD j 0) a b
      exact ⟨h1, by rw [h2]; ring⟩)
    (fun _ _ => by simp [choose2_zero]) (fun _ _ => by simp [choose2_one]) [] hs hc hlen a b ha hb
  unfold skyrideLogProb skyrideIntegral kingman lineages skyrideIdx cumsum
  rw [zipWith3_eq_walk (fun k d i => (choose2 k : ℝ) * d / θ.getD i 0) (-1), ← hI]
  have hfun : (fun x => (choose2 (lineagesAt samp coal x) : ℝ) / θ.getD (jAt (-1) (evs samp coal []) x) 0)
      = fun t => (choose2 (lineagesAt samp coal t) : ℝ) / stepN θ coal t := by
    funext x; rw [jAt_neg_evs]; rfl
  rw [hfun]
  simp only [show (Trans.log : ℝ → ℝ) = Real.log from rfl]
  ring

/-- **skyride_tied_coalescent_witness** — two coalescent events at the same time 1 (samples 0, 0, 0), `θ = (2, 8)`:
the code counts `log 2 + log 8`, the density of `N(t) = θ[#{c_j < t}]` counts `log N(1)` twice `= 2 log 2`. -/
theorem skyride_tied_coalescent_witness :
    skyrideLogProb [2, 8] (([0, 0, 0] : List ℝ) ++ [1, 1])
      ≠ kingman [0, 0, 0] [1, 1] (stepN [2, 8] [1, 1]) 0 1 := by
  rw [skyride_eq_kingman_up_to_logs [2, 8] (List.Perm.refl _) (List.Perm.refl _) rfl 0 1 (by simp) (by simp)]
  have h : (([1, 1] : List ℝ).map (fun c => Real.log (stepN [2, 8] [1, 1] c))).sum
      - (([2, 8] : List ℝ).map Real.log).sum = Real.log 2 - Real.log 8 := by
    simp [stepN]
  rw [h]
  have : Real.log 2 < Real.log 8 := Real.log_lt_log (by norm_num) (by norm_num)
  intro heq
  linarith

/-- **exponential_growth_zero_witness** — `g = 0` (the code's own TODO): over ℝ the interval part of the formula
vanishes (`d / (θ·0) = 0`; in float64 it is `0/0 = nan`), so samples 0, 0, coalescence at 1, `θ = 1` evaluate
to 0 while the Kingman density of `N ≡ 1` is `-1`. -/
theorem exponential_growth_zero_witness :
    exponentialLogProb 1 0 (([0, 0] : List ℝ) ++ [1]) = 0 ∧
      kingman [0, 0] [1] (expN 1 0) 0 1 = -1 ∧
      exponentialLogProb 1 0 (([0, 0] : List ℝ) ++ [1]) ≠ kingman [0, 0] [1] (expN 1 0) 0 1 := by
  have h1 : exponentialLogProb 1 0 (([0, 0] : List ℝ) ++ [1]) = 0 := by
    simp [exponentialLogProb, exponentialIntegral, exponentialLogs, sortEvents, insertEv, mkEvents, taxaCount,
      nodeMask, lineages, cumsum, cumsumFrom, marks, times, diffs]
  have hN : expN 1 0 = constN 1 := by funext t; simp [expN, constN]
  have h2 : kingman [0, 0] [1] (expN 1 0) 0 1 = -1 := by
    rw [hN, ← constant_eq_kingman 1 (samp := [0, 0]) (coal := [1]) (List.Perm.refl _) (List.Perm.refl _) rfl 0 1
      (by simp) (by simp)]
    simp [constantLogProb, constantIntegral, sortEvents, insertEv, mkEvents, taxaCount, nodeMask, lineages, cumsum,
      cumsumFrom, marks, times, diffs, choose2]
    norm_num
  refine ⟨h1, h2, ?_⟩
  rw [h1, h2]; norm_num

end TTProps.C08
