/-! C11 property theorems — stub (not built yet). -/
namespace TTProps.C11
end TTProps.C11
