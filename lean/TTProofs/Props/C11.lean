import TTProofs.Lemmas.C11_Assign
import TTProofs.Lemmas.C11_Checks
import TTModel.C11_Table
import TTGen.C11_Setattr
/-!
# C11 — cached values never go stale; a parameter update never raises

The machine (`TTModel/C11_Cache.lean`) mirrors torchtree's listener registration, change
notification and flag-guarded caches.  The class table it runs on is REGENERATED from the source on
every run (`TTGen/C11_Wiring.lean`, translator `tr_wiring.py`); which inputs each class reads is
`TTModel/C11_Reads.lean`.

* `wellwired_no_stale` — for EVERY well-formed, well-wired machine, every initial flag assignment,
  every finite sequence of public operations (assignment to a parameter of any kind, in-place step
  + notification, distribution draw, operator proposal / rejection, getter calls, in any
  interleaving): no operation raises and every getter returns the value of a fresh rebuild.
* `torchtree_wellwired` — the generated table is well wired for every class of the anchored files
  (and the further classes of the check's graph): `decide`.
* `torchtree_no_stale` — the two combined for any graph instantiating those classes.
-/
namespace TTProps.C11
open TT.C11

variable {V : Type} [Inhabited V]

/-- an operation is admissible: assignments target parameters that have a public setter (all the
way down to plain parameters), getters are called on existing cells -/
def PrimValid (m : Machine) : Prim V → Prop
  | .assign j _ => j < m.nN ∧ settable m m.nN j = true
  | .eval c => c < m.nC

def OpValid (m : Machine) (op : Op V) : Prop := ∀ p ∈ op.prims, PrimValid m p

/-- what holds of a run so far -/
def Good (m : Machine) (F : Nat → List V → V) (r : Run V) : Prop :=
  r.raised = false ∧ (∀ o ∈ r.obs, o.got = o.fresh) ∧ Inv m F r.st

theorem runPrims_good (m : Machine) (hwf : WF m) (hww : WellWired m) (F : Nat → List V → V) :
    ∀ (ps : List (Prim V)) (r : Run V), (∀ p ∈ ps, PrimValid m p) → Good m F r →
      Good m F (runPrims m F ps r) := by
  intro ps
  induction ps with
  | nil => intro r _ h; exact h
  | cons p ps ih =>
    intro r hv hg
    have hp := hv p (List.mem_cons_self ..)
    have hrest : ∀ q ∈ ps, PrimValid m q := fun q hq => hv q (List.mem_cons_of_mem _ hq)
    obtain ⟨h1, h2, h3⟩ := hg
    cases p with
    | assign j v =>
      simp only [runPrims]
      have ha := assignF_spec m hwf hww F v m.nN j hp.1 hp.2 r.st h3
      simp only [ha.1, Bool.false_eq_true, if_false]
      apply ih _ hrest
      exact ⟨h1, h2, ha.2⟩
    | eval c =>
      simp only [runPrims]
      have he := evalF_spec m hwf F m.nC c hp hp true r.st h3
      apply ih _ hrest
      refine ⟨h1, ?_, he.2.1⟩
      intro o ho
      rcases List.mem_append.mp ho with ho | ho
      · exact h2 o ho
      · simp only [List.mem_singleton] at ho
        subst ho
        exact he.1

theorem runOps_good (m : Machine) (hwf : WF m) (hww : WellWired m) (F : Nat → List V → V) :
    ∀ (ops : List (Op V)) (r : Run V), (∀ op ∈ ops, OpValid m op) → Good m F r →
      Good m F (runOps m F ops r) := by
  intro ops
  induction ops with
  | nil => intro r _ h; exact h
  | cons op ops ih =>
    intro r hv hg
    simp only [runOps]
    exact ih _ (fun o ho => hv o (List.mem_cons_of_mem _ ho))
      (runPrims_good m hwf hww F op.prims r (hv op (List.mem_cons_self ..)) hg)

theorem initState_inv (m : Machine) (F : Nat → List V → V) (leaf : Nat → V) (fl0 : Flags) :
    Inv m F (initState m F leaf fl0) := by
  intro c _ f _ _
  rfl

/-- **wellwired_no_stale.**  In a well-formed, well-wired machine, whatever the flags after
construction and whatever finite sequence of admissible public operations is applied, no operation
raises, every getter call returns exactly what a freshly built copy holding the same leaf values
returns, and the cache-coherence invariant holds at the end (so the statement extends to every
continuation). -/
theorem wellwired_no_stale (m : Machine) (hwf : WF m) (hww : WellWired m) (F : Nat → List V → V)
    (leaf0 : Nat → V) (fl0 : Flags) (ops : List (Op V)) (hv : ∀ op ∈ ops, OpValid m op) :
    (run m F ops (initState m F leaf0 fl0)).raised = false ∧
    (∀ o ∈ (run m F ops (initState m F leaf0 fl0)).obs, o.got = o.fresh) ∧
    Inv m F (run m F ops (initState m F leaf0 fl0)).st := by
  exact runOps_good m hwf hww F ops _ hv
    ⟨rfl, fun o ho => absurd ho List.not_mem_nil, initState_inv m F leaf0 fl0⟩

/-- the same for a run continued from any state satisfying the invariant (histories compose) -/
theorem wellwired_no_stale_from (m : Machine) (hwf : WF m) (hww : WellWired m) (F : Nat → List V → V)
    (s : State V) (hs : Inv m F s) (ops : List (Op V)) (hv : ∀ op ∈ ops, OpValid m op) :
    Good m F (run m F ops s) := by
  exact runOps_good m hwf hww F ops _ hv ⟨rfl, fun o ho => absurd ho List.not_mem_nil, hs⟩

/-- getter calls never change a leaf value: two getters called one after the other (e.g. the
model density and the variational density after a draw, C14) see the same parameter values -/
theorem eval_keeps_leaves (m : Machine) (hwf : WF m) (F : Nat → List V → V) (s : State V)
    (hs : Inv m F s) (c : Nat) (hc : c < m.nC) : (evalF m F m.nC c true s).2.leaf = s.leaf :=
  (evalF_spec m hwf F m.nC c hc hc true s hs).2.2

/-- the translator recognised every handler of every class -/
theorem translator_recognised : TTGen.C11_Wiring.translatorOk = true := by decide

/-- **torchtree_wellwired.**  Every class of the anchored files (and the further classes used in the
check's graph) is well wired in the table generated from the source: for every notification a
cached quantity is sensitive to, the handler sets its guard flag and forwards; every input read is
one the class registers on; no handler the class can be called on raises. -/
theorem torchtree_wellwired :
    ∀ e ∈ theTable, e.1.name ∈ covered → classOK e.1 e.2 = true := by
  decide

/-- no class of torchtree at all has an unrecognised handler or one that raises on a notification
it can receive (the F06 shape), whether or not its reads are modelled -/
theorem all_handlers_total :
    ∀ c ∈ TTGen.C11_Wiring.classes, ∀ k ∈ [Kind.param, Kind.model],
      (c.handler k).recognised = true ∧ (c.canReceive k = true → (c.handler k).tail ≠ .raise) := by
  decide

/-- **setattr_registers.**  `Parametric.__setattr__` as generated from the source: whatever the name and
whether or not it is already present in the instance dictionary (a `None` placeholder, a replaced parameter),
assigning an `AbstractParameter` files it under `_parameters` and appends the owner to its listener list,
assigning a `Model` does the same with `_models` / model listeners, the placeholder is removed from the
instance dictionary, and nothing is registered for any other value; all six cases are present. -/
theorem setattr_registers :
    TTGen.C11_Setattr.translatorOk = true ∧
    (∀ c ∈ TTGen.C11_Setattr.table, c.registers = true) ∧
    (∀ k : VKind, ∀ d : Bool, ∃ c ∈ TTGen.C11_Setattr.table, c.kind = k ∧ c.inDict = d) := by
  refine ⟨by decide, by decide, ?_⟩
  intro k d
  cases k <;> cases d <;> decide

/-- **listeners_registered_by_identity.**  Every class's `add_parameter_listener` / `add_model_listener` is, in
the source, exactly `self.<list>.append(listener)`: a registration is never skipped because the new listener
"is already there" under `==` / `in` (derived parameters compare equal BY VALUE, so two distinct consumers of
the same parameters would be confused).  Together with `setattr_registers` and the identity-based conformance
check of every extracted graph (`conformsB`: the holder's node is in the listener list of each registered
input), the listener relation the machine runs on is over object identity. -/
theorem listeners_registered_by_identity :
    ∀ e ∈ TTGen.C11_Wiring.listenerAppends, e.2 = true := by
  decide

/-- **flags_reset_only_after_success.**  In every getter of every class the dirty flag is reset only where the
recomputation has succeeded: never in a `finally:` / `except` block and never before a statement that still computes.
So a getter that RAISES leaves its flag set (and its cache untouched): the next call recomputes or raises again,
it cannot answer from the cache (`failed_eval_keeps_inv` is the machine's side of this). -/
theorem flags_reset_only_after_success :
    ∀ e ∈ TTGen.C11_Wiring.flagResets, e.2.2.2 = true := by
  decide

/-- **shared_flag_reset_recomputes_all.**  Where several public getters of one object share a single dirty flag
(`SiteModel.rates` / `probabilities`, the four getters of `TransformedParameter`), every one of them runs — unconditionally
and before it resets the flag — the same recomputation, so reading them in any order after an update is the same as one
evaluation of the machine's cell (which the reads table models as ONE cell per flag). -/
theorem shared_flag_reset_recomputes_all :
    ∀ e ∈ TTGen.C11_Wiring.sharedFlags, e.2.2 = true := by
  decide

/-- **fire_reaches_every_listener.**  Every class's `fire_parameter_changed` / `fire_model_changed` is, in the source,
the plain loop over the object's OWN listener list — not decorated — at most behind a re-entrancy guard kept in an attribute
of the object itself.  This is what the machine's `fireL` assumes: a notification reaches every listener of the firing
object; the only calls that may be swallowed are echoes back into an object that is already firing (listener cycles).  A
guard shared between objects (a decorator's closure, a class variable) would drop the notification of one object while
another one is notifying. -/
theorem fire_reaches_every_listener :
    ∀ e ∈ TTGen.C11_Wiring.fireLoops, e.2 = true := by
  decide

/-- **failed_eval_keeps_inv.**  A getter call on cell `c` that fails in its own computation has evaluated (some of)
the cells it reads and then raised, leaving its own cache and flag as they were: the cache-coherence invariant still
holds and no parameter moved — so by `wellwired_no_stale_from` every later call returns the fresh value (or fails
again), never a value cached for earlier parameter values. -/
theorem failed_eval_keeps_inv (m : Machine) (hwf : WF m) (F : Nat → List V → V) (s : State V) (hs : Inv m F s)
    (c : Nat) (hc : c < m.nC) (k : Nat) :
    Inv m F (evalReads (evalF m F m.nC) ((m.cellAt c).reads.take k) s).2 ∧
    (evalReads (evalF m F m.nC) ((m.cellAt c).reads.take k) s).2.leaf = s.leaf := by
  have h := evalReads_spec m F (evalF m F m.nC) ((m.cellAt c).reads.take k) s (by
    intro r hr
    have hr' := List.mem_of_mem_take hr
    have := hwf.reads_lt c hc r hr'
    exact evalF_spec m hwf F m.nC r.1 (by omega) (by omega)) hs
  exact ⟨h.2.1, h.2.2⟩

/-- **torchtree_no_stale.**  Any object graph built from the covered classes — as extracted from
real objects by the harness: it passes the executable well-formedness and conformance checks —
never returns a stale value and no parameter update raises, for all operation sequences. -/
theorem torchtree_no_stale (m : Machine) (htab : m.table = theTable)
    (hwfB : wfB m = true) (hconf : conformsB m = true)
    (hcov : ∀ j < m.nN, (m.specOf j).name ∈ covered)
    (F : Nat → List V → V) (leaf0 : Nat → V) (fl0 : Flags) (ops : List (Op V))
    (hv : ∀ op ∈ ops, OpValid m op) :
    (run m F ops (initState m F leaf0 fl0)).raised = false ∧
    (∀ o ∈ (run m F ops (initState m F leaf0 fl0)).obs, o.got = o.fresh) := by
  have hwf := wfB_sound m hwfB
  have hcls : classesOKB m = true := by
    unfold classesOKB
    rw [allLt_iff]
    intro j hj
    have hlen : (m.nodeAt j).cls < m.table.length := by
      unfold conformsB at hconf
      simp only [Bool.and_eq_true, allLt_iff] at hconf
      simpa using hconf.2 j hj
    have hmem : m.table.getD (m.nodeAt j).cls default ∈ theTable := by
      rw [← htab, getD_eq_getElem _ _ _ hlen]
      exact List.getElem_mem hlen
    exact torchtree_wellwired _ hmem (hcov j hj)
  have hww := conforms_wellwired m hwf hconf hcls
  have := wellwired_no_stale m hwf hww F leaf0 fl0 ops hv
  exact ⟨this.1, this.2.1⟩

/-! ### non-vacuity: a concrete graph meets every hypothesis, and the conclusion has content -/

/-- `p` (plain) ← `v` (view) ; `t = Transformed(p)` ; a tree model reading `t`; a prior reading the
tree and `v` -/
def demo : Machine :=
  let ix (n : String) : Nat := (theTable.map (·.1.name)).idxOf n
  { table := theTable,
    nodes := [
      { cls := ix "Parameter", listeners := [1, 2], inputs := [], setter := .leaf 0 },
      { cls := ix "ViewParameter", listeners := [4], inputs := [(0, .explicit)], setter := .view 0 0 },
      { cls := ix "TransformedParameter", listeners := [3], inputs := [(0, .attr)], setter := .trans 0 },
      { cls := ix "UnRootedTreeModel", listeners := [4], inputs := [(2, .attr)], setter := .none },
      { cls := ix "ConstantCoalescentModel", listeners := [], inputs := [(1, .attr), (3, .attr)], setter := .none }],
    cells := [
      { owner := 0, tmpl := 0, leaf := true, guard := none, always := false, kinds := [], reads := [] },
      { owner := 1, tmpl := 0, leaf := false, guard := none, always := false, kinds := [.param], reads := [(0, true)] },
      { owner := 2, tmpl := 0, leaf := false, guard := some 0, always := false, kinds := [.param, .model], reads := [(0, true)] },
      { owner := 2, tmpl := 1, leaf := false, guard := none, always := false, kinds := [.param, .model], reads := [(2, true), (0, true)] },
      { owner := 3, tmpl := 0, leaf := false, guard := none, always := false, kinds := [.param], reads := [(2, true)] },
      { owner := 4, tmpl := 0, leaf := false, guard := some 0, always := false, kinds := [.param, .model], reads := [(1, true), (4, true)] }] }

example : demo.table = theTable ∧ wfB demo = true ∧ conformsB demo = true ∧
    (∀ j < demo.nN, (demo.specOf j).name ∈ covered) := by
  refine ⟨rfl, by decide, by decide, by decide⟩

/-- … hence the hypotheses of `wellwired_no_stale` itself: `demo` is well formed and well wired -/
example : WF demo ∧ WellWired demo := by
  have hwf : WF demo := wfB_sound demo (by decide)
  exact ⟨hwf, conforms_wellwired demo hwf (by decide) (by decide)⟩

/-- the state after construction satisfies the invariant (hypothesis of `wellwired_no_stale_from`) -/
example : Inv demo (fun c vs => c + vs.sum) (initState demo (fun c vs => c + vs.sum) (fun _ => (1 : Nat)) (fun _ _ => true)) :=
  initState_inv _ _ _ _

/-- the operations used below are admissible -/
example : OpValid demo (Op.assign 2 (fun _ => (7 : Nat))) ∧ OpValid demo (Op.eval (V := Nat) 5) := by
  constructor
  · intro p hp; simp only [Op.prims, List.mem_singleton] at hp; subst hp
    exact ⟨by decide, by decide⟩
  · intro p hp; simp only [Op.prims, List.mem_singleton] at hp; subst hp
    show 5 < demo.nC; decide

end TTProps.C11
