import TTModel.C05_SiteModel
import TTGen.C05Options
import TTProofs.Lemmas.Sums
import TTProofs.Lemmas.ScalarReal
import Mathlib.Algebra.Order.Field.Basic
import Mathlib.Algebra.Order.BigOperators.Ring.Finset
import Mathlib.Algebra.BigOperators.Field
import Mathlib.Tactic.FieldSimp
import Mathlib.Tactic.Ring
import Mathlib.Tactic.Positivity
import Mathlib.Tactic.Linarith
/-!
# C05 — among-site rate models keep the mean substitution rate at one

Theorems about the executable model `TTModel/C05_SiteModel.lean` (which mirrors
`torchtree/evolution/site_model.py`), instantiated at an arbitrary field / ordered field / `ℝ`.
`target mu` is what the property asks the mean rate to be: `1`, or the supplied relative rate.
-/
namespace TTProps.C05
open TT TT.C05

/-- the value the mean rate must have: one, or the relative rate `mu` when supplied -/
def target {R : Type} [One R] (mu : Option R) : R := mu.getD 1

/-! ## any field: sums -/
section field
variable {R : Type} [Field R]

/-- **mean_rate (abstract `inverse_cdf`)**: whatever vector `raw` the subclass's `inverse_cdf`
returns and whatever the category probabilities are, after the normalisation of
`update_rates` the probability-weighted mean rate is `1` (or `mu`), provided the normaliser
`Σ raw·probs` is non-zero. -/
theorem mean_rate_normalise {n : Nat} (raw probs : Fin n → R) (mu : Option R)
    (h : normaliser raw probs ≠ 0) :
    sumFin (fun i => probs i * normalise raw probs mu i) = target mu := by
  have hN : normaliser raw probs = ∑ i, raw i * probs i := sumFin_eq_sum _
  rw [sumFin_eq_sum]
  cases mu with
  | none =>
    have e : ∀ i, probs i * normalise raw probs none i = raw i * probs i / normaliser raw probs := by
      intro i; simp only [normalise, applyMu]; ring
    simp only [e, ← Finset.sum_div, target, Option.getD_none]
    rw [← hN]; exact div_self h
  | some m =>
    have e : ∀ i, probs i * normalise raw probs (some m) i
        = raw i * probs i / normaliser raw probs * m := by
      intro i; simp only [normalise, applyMu]; ring
    simp only [e, ← Finset.sum_mul, ← Finset.sum_div, target, Option.getD_some]
    rw [← hN, div_self h, one_mul]

theorem mean_rate_discretized (K : Nat) (raw : Fin K → R) (mu : Option R)
    (h : normaliser raw (probsPlain K) ≠ 0) :
    (discretized K raw mu).meanRate = target mu :=
  mean_rate_normalise raw (probsPlain K) mu h

theorem mean_rate_discretizedInv (K : Nat) (p : R) (raw : Fin (K + 1) → R) (mu : Option R)
    (h : normaliser raw (probsInv K p) ≠ 0) :
    (discretizedInv K p raw mu).meanRate = target mu :=
  mean_rate_normalise raw (probsInv K p) mu h

theorem mean_rate_constant (mu : Option R) : (constant mu).meanRate = target mu := by
  cases mu <;> simp [constant, SM.meanRate, sumFin_eq_sum, target]

/-- `InvariantSiteModel`: `p·0 + (1-p)·(1/(1-p))·mu = mu` for every `p ≠ 1` -/
theorem mean_rate_invariant (p : R) (mu : Option R) (hp : p ≠ 1) :
    (invariant p mu).meanRate = target mu := by
  have h1 : (1 : R) - p ≠ 0 := sub_ne_zero.mpr (Ne.symm hp)
  cases mu with
  | none =>
    simp [invariant, SM.meanRate, sumFin_eq_sum, target, applyMu, Fin.sum_univ_succ]
    field_simp
  | some m =>
    simp [invariant, SM.meanRate, sumFin_eq_sum, target, applyMu, Fin.sum_univ_succ]
    field_simp

theorem probs_sum_one_constant (mu : Option R) : (constant mu).probSum = 1 := by
  simp [constant, SM.probSum, sumFin_eq_sum]

theorem probs_sum_one_invariant (p : R) (mu : Option R) : (invariant p mu).probSum = 1 := by
  simp [invariant, SM.probSum, sumFin_eq_sum, Fin.sum_univ_succ]

theorem probs_sum_one_discretized (K : Nat) (hK : (K : R) ≠ 0) (raw : Fin K → R) (mu : Option R) :
    (discretized K raw mu).probSum = 1 := by
  simp only [discretized, SM.probSum, sumFin_eq_sum, probsPlain, Finset.sum_const,
    Finset.card_univ, Fintype.card_fin, nsmul_eq_mul]
  exact mul_one_div_cancel hK

theorem probs_sum_one_discretizedInv (K : Nat) (hK : (K : R) ≠ 0) (p : R) (raw : Fin (K + 1) → R)
    (mu : Option R) : (discretizedInv K p raw mu).probSum = 1 := by
  simp only [discretizedInv, SM.probSum, sumFin_eq_sum, probsInv, Fin.sum_univ_succ,
    Fin.cases_zero, Fin.cases_succ, Finset.sum_const, Finset.card_univ, Fintype.card_fin,
    nsmul_eq_mul]
  field_simp
  ring

/-- **invariant_rate_zero_prob_p** (invariant model): category 0 has rate exactly zero and
probability exactly the invariant proportion, with or without `mu` -/
theorem invariant_rate_zero_prob_p_invariant (p : R) (mu : Option R) :
    (invariant p mu).rates (0 : Fin 2) = 0 ∧ (invariant p mu).probs (0 : Fin 2) = p := by
  cases mu <;> simp [invariant, applyMu]

/-- **invariant_rate_zero_prob_p** (discretised model): if the subclass's `inverse_cdf` puts a
zero in front (as `WeibullSiteModel.inverse_cdf` does), category 0 has rate zero and
probability `p` after normalisation and scaling -/
theorem invariant_rate_zero_prob_p_discretizedInv (K : Nat) (p : R) (raw : Fin (K + 1) → R)
    (mu : Option R) (h0 : raw 0 = 0) :
    (discretizedInv K p raw mu).rates (0 : Fin (K + 1)) = 0 ∧
      (discretizedInv K p raw mu).probs (0 : Fin (K + 1)) = p := by
  cases mu <;> simp [discretizedInv, normalise, applyMu, probsInv, h0]

end field

/-! ## ordered fields: signs -/
section ordered
variable {R : Type} [Field R] [LinearOrder R] [IsStrictOrderedRing R]

theorem natCast_ne_zero_of_pos {K : Nat} (hK : 0 < K) : (K : R) ≠ 0 :=
  Nat.cast_ne_zero.mpr (Nat.pos_iff_ne_zero.mp hK)

/-- the median quantiles `(2i+1)/(2K)` lie strictly inside `(0,1)` -/
theorem quantile_mem (K : Nat) (i : Fin K) :
    0 < quantile (α := R) K i ∧ quantile (α := R) K i < 1 := by
  have hi : ((i.val : Nat) : R) + 1 ≤ (K : R) := by exact_mod_cast i.isLt
  have hi0 : (0 : R) ≤ ((i.val : Nat) : R) := Nat.cast_nonneg _
  have hK : (0 : R) < (K : R) := by linarith
  unfold quantile two
  constructor
  · apply div_pos <;> linarith
  · rw [div_lt_one (by linarith)]; linarith

theorem applyMu_nonneg (mu : Option R) (hmu : ∀ m ∈ mu, 0 ≤ m) {r : R} (hr : 0 ≤ r) :
    0 ≤ applyMu mu r := by
  cases mu with
  | none => exact hr
  | some m => exact mul_nonneg hr (hmu m rfl)

/-- **rates_nonneg (abstract `inverse_cdf`)**: if `inverse_cdf ≥ 0`, the category probabilities
are non-negative and `mu ≥ 0`, every normalised rate is non-negative -/
theorem rates_nonneg_normalise {n : Nat} (raw probs : Fin n → R) (mu : Option R)
    (hraw : ∀ i, 0 ≤ raw i) (hprobs : ∀ i, 0 ≤ probs i) (hmu : ∀ m ∈ mu, 0 ≤ m) (i : Fin n) :
    0 ≤ normalise raw probs mu i := by
  apply applyMu_nonneg mu hmu
  apply div_nonneg (hraw i)
  unfold normaliser
  rw [sumFin_eq_sum]
  exact Finset.sum_nonneg fun j _ => mul_nonneg (hraw j) (hprobs j)

theorem probs_nonneg_constant (mu : Option R) (i) : 0 ≤ (constant mu).probs i := by
  simp [constant]

theorem probs_nonneg_invariant (p : R) (mu : Option R) (h0 : 0 ≤ p) (h1 : p ≤ 1) (i) :
    0 ≤ (invariant p mu).probs i := by
  refine Fin.cases ?_ (fun j => ?_) i
  · simpa [invariant] using h0
  · simpa [invariant] using h1

theorem probs_nonneg_plain (K : Nat) (i : Fin K) : 0 ≤ probsPlain (α := R) K i := by
  unfold probsPlain; positivity

theorem probs_nonneg_inv (K : Nat) (p : R) (h0 : 0 ≤ p) (h1 : p ≤ 1) (i : Fin (K + 1)) :
    0 ≤ probsInv K p i := by
  refine Fin.cases ?_ (fun j => ?_) i
  · simpa [probsInv] using h0
  · have : (0 : R) ≤ 1 - p := by linarith
    simp only [probsInv, Fin.cases_succ]; positivity

theorem rates_nonneg_constant (mu : Option R) (hmu : ∀ m ∈ mu, 0 ≤ m) (i) :
    0 ≤ (constant mu).rates i := by
  cases mu with
  | none => simp [constant]
  | some m => simpa [constant] using hmu m rfl

theorem rates_nonneg_invariant (p : R) (mu : Option R) (h1 : p ≤ 1) (hmu : ∀ m ∈ mu, 0 ≤ m) (i) :
    0 ≤ (invariant p mu).rates i := by
  have : (0 : R) ≤ 1 - p := by linarith
  refine Fin.cases ?_ (fun j => ?_) i
  · exact applyMu_nonneg mu hmu (by simp)
  · apply applyMu_nonneg mu hmu
    simp only [Fin.cases_succ]; positivity

end ordered

/-! ## `ℝ`: the Weibull instance -/
section weibull

theorem weibullIcdf_pos (shape q : ℝ) (h0 : 0 < q) (h1 : q < 1) : 0 < weibullIcdf shape q := by
  unfold weibullIcdf
  simp only [trans_pow_real, trans_log_real]
  apply Real.rpow_pos_of_pos
  have : Real.log (1 - q) < 0 := Real.log_neg (by linarith) (by linarith)
  linarith

theorem weibullRaw_pos (K : Nat) (shape : ℝ) (i : Fin K) : 0 < weibullRaw K shape i :=
  weibullIcdf_pos _ _ (quantile_mem K i).1 (quantile_mem K i).2

theorem weibullRawInv_nonneg (K : Nat) (shape : ℝ) (i : Fin (K + 1)) :
    0 ≤ weibullRawInv K shape i := by
  refine Fin.cases ?_ (fun j => ?_) i
  · simp [weibullRawInv]
  · simpa [weibullRawInv] using (weibullRaw_pos K shape j).le

/-- **weibull_normaliser_pos**: for `K ≥ 1` (and, with an invariant category, `p < 1`) the
normaliser `Σ raw·probs` of the Weibull site model is strictly positive — for every real
`shape` (in particular all `shape > 0`), so the hypothesis of `mean_rate` is always met. -/
theorem weibull_normaliser_pos_plain (K : Nat) (hK : 0 < K) (shape : ℝ) :
    0 < normaliser (weibullRaw K shape) (probsPlain K) := by
  unfold normaliser
  rw [sumFin_eq_sum]
  have : Nonempty (Fin K) := ⟨⟨0, hK⟩⟩
  apply Finset.sum_pos _ Finset.univ_nonempty
  intro i _
  have hKr : (0 : ℝ) < (K : ℝ) := by exact_mod_cast hK
  exact mul_pos (weibullRaw_pos K shape i) (by unfold probsPlain; positivity)

theorem weibull_normaliser_pos_inv (K : Nat) (hK : 0 < K) (shape p : ℝ) (hp : p < 1) :
    0 < normaliser (weibullRawInv K shape) (probsInv K p) := by
  unfold normaliser
  rw [sumFin_eq_sum, Fin.sum_univ_succ]
  simp only [weibullRawInv, probsInv, Fin.cases_zero, Fin.cases_succ, zero_mul, zero_add]
  have : Nonempty (Fin K) := ⟨⟨0, hK⟩⟩
  apply Finset.sum_pos _ Finset.univ_nonempty
  intro i _
  have hKr : (0 : ℝ) < (K : ℝ) := by exact_mod_cast hK
  have : (0 : ℝ) < 1 - p := by linarith
  exact mul_pos (weibullRaw_pos K shape i) (by positivity)

/-- admissible invariant proportion: absent, or in `[0,1)` -/
def InvOk (inv : Option ℝ) : Prop := ∀ p ∈ inv, 0 ≤ p ∧ p < 1
/-- admissible relative rate: absent, or non-negative -/
def MuOk (mu : Option ℝ) : Prop := ∀ m ∈ mu, 0 ≤ m

theorem weibull_normaliser_pos (K : Nat) (hK : 0 < K) (shape : ℝ) (inv : Option ℝ) (hinv : InvOk inv) :
    match inv with
    | none => 0 < normaliser (weibullRaw K shape) (probsPlain K)
    | some p => 0 < normaliser (weibullRawInv K shape) (probsInv K p) := by
  cases inv with
  | none => exact weibull_normaliser_pos_plain K hK shape
  | some p => exact weibull_normaliser_pos_inv K hK shape p (hinv p rfl).2

/-- **mean_rate**: `WeibullSiteModel` with any `K ≥ 1`, any shape, any admissible invariant
proportion and any `mu`: `Σ_k p_k r_k = 1` (or `mu`). No side condition left. -/
theorem mean_rate (K : Nat) (hK : 0 < K) (shape : ℝ) (inv mu : Option ℝ) (hinv : InvOk inv) :
    (weibull K shape inv mu).meanRate = target mu := by
  cases inv with
  | none => exact mean_rate_discretized K _ mu (weibull_normaliser_pos_plain K hK shape).ne'
  | some p =>
    exact mean_rate_discretizedInv K p _ mu (weibull_normaliser_pos_inv K hK shape p (hinv p rfl).2).ne'

/-- **probs_sum_one** for the Weibull site model -/
theorem probs_sum_one (K : Nat) (hK : 0 < K) (shape : ℝ) (inv mu : Option ℝ) :
    (weibull K shape inv mu).probSum = 1 := by
  cases inv with
  | none => exact probs_sum_one_discretized K (natCast_ne_zero_of_pos hK) _ mu
  | some p => exact probs_sum_one_discretizedInv K (natCast_ne_zero_of_pos hK) p _ mu

/-- **probs_nonneg** for the Weibull site model -/
theorem probs_nonneg (K : Nat) (shape : ℝ) (inv mu : Option ℝ) (hinv : InvOk inv) (i) :
    0 ≤ (weibull K shape inv mu).probs i := by
  cases inv with
  | none => exact probs_nonneg_plain K i
  | some p => exact probs_nonneg_inv K p (hinv p rfl).1 (hinv p rfl).2.le i

/-- **rates_nonneg** for the Weibull site model -/
theorem rates_nonneg (K : Nat) (shape : ℝ) (inv mu : Option ℝ) (hinv : InvOk inv) (hmu : MuOk mu) (i) :
    0 ≤ (weibull K shape inv mu).rates i := by
  cases inv with
  | none =>
    exact rates_nonneg_normalise _ _ mu (fun j => (weibullRaw_pos K shape j).le)
      (probs_nonneg_plain K) hmu i
  | some p =>
    exact rates_nonneg_normalise _ _ mu (weibullRawInv_nonneg K shape)
      (probs_nonneg_inv K p (hinv p rfl).1 (hinv p rfl).2.le) hmu i

/-- **invariant_rate_zero_prob_p** for the Weibull site model with an invariant category -/
theorem invariant_rate_zero_prob_p (K : Nat) (shape p : ℝ) (mu : Option ℝ) :
    (discretizedInv K p (weibullRawInv K shape) mu).rates (0 : Fin (K + 1)) = 0 ∧
    (discretizedInv K p (weibullRawInv K shape) mu).probs (0 : Fin (K + 1)) = p :=
  invariant_rate_zero_prob_p_discretizedInv K p _ mu (by simp [weibullRawInv])

/-- the non-invariant categories of a Weibull model have strictly positive rate when `mu > 0`
(so the invariant category is the only one with rate zero) -/
theorem weibull_variable_rates_pos (K : Nat) (hK : 0 < K) (shape p : ℝ) (hp : p < 1) (mu : Option ℝ)
    (hmu : ∀ m ∈ mu, 0 < m) (j : Fin K) :
    0 < (discretizedInv K p (weibullRawInv K shape) mu).rates (Fin.succ j : Fin (K + 1)) := by
  have hN := weibull_normaliser_pos_inv K hK shape p hp
  have hr : 0 < weibullRawInv K shape j.succ / normaliser (weibullRawInv K shape) (probsInv K p) := by
    apply div_pos _ hN
    simpa [weibullRawInv] using weibullRaw_pos K shape j
  cases mu with
  | none => exact hr
  | some m => exact mul_pos hr (hmu m rfl)

/-- non-vacuity: the hypotheses are met by a concrete non-trivial instance
(K = 4, shape = 1/2, invariant proportion 1/5, mu = 2) and the conclusion is the non-trivial `2` -/
example : (weibull 4 (1 / 2 : ℝ) (some (1 / 5)) (some 2)).meanRate = 2 :=
  mean_rate 4 (by norm_num) _ _ _ (by intro p hp; cases hp; norm_num)

example : (invariant (1 / 5 : ℝ) (some 3)).meanRate = 3 :=
  mean_rate_invariant _ _ (by norm_num)

example : InvOk (some (1 / 5)) ∧ MuOk (some 2) ∧ InvOk none ∧ MuOk none := by
  refine ⟨?_, ?_, ?_, ?_⟩ <;> intro x hx <;> cases hx <;> norm_num

end weibull


/-! ## construction route: `from_json` (table regenerated from the source on every run) -/

/-- a JSON key reaches the constructor parameter it names; when an optional key is absent, what is
forwarded is the constructor's own default for that parameter, or — if the constructor has no
default — something other than `None` -/
def optionEntryOk (e : TTGen.C05Options.Entry) : Bool :=
  e.reached == e.expected &&
    (!e.optional || (match e.ctorDefault with | some d => e.absent == d | none => e.absent != 0))

/-- **options_reach_named_parameters**: the translator recognised every `from_json`, and in each of them
every key (required or optional, positional or keyword) lands in the constructor parameter of its name -/
theorem options_reach_named_parameters :
    TTGen.C05Options.translatorOk = true ∧ TTGen.C05Options.entries.all optionEntryOk = true := by
  decide

end TTProps.C05
