/-! C05 property theorems — stub (not built yet). -/
namespace TTProps.C05
end TTProps.C05
