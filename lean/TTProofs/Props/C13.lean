import TTModel.C13_Json
import TTModel.C13_Loader
import TTGen.C13_LoaderCfg
import TTProofs.Lemmas.C13_Loader
import TTProofs.Lemmas.C13_Comments
import TTProofs.Lemmas.C13_Plates
import TTProofs.Lemmas.C13_Fuel
/-!
# C13 — in a model specification every id denotes exactly one shared object

The loader theorems are about `TT.C13.processObject cfg tbl` for EVERY class table `tbl`, every
nesting depth (`fuel`) and every JSON value, under the single hypothesis `cfg.checkAfter = true`
("the duplicate test stands between construction and registration").  `TTGen.C13.cfg` is
regenerated from `torchtree/core/utils.py:process_object` on every run; `source_is_fixed` below
ties the hypothesis to the source, so on a tree without the F01 repair this file stops building.
-/
namespace TTProps.C13
open TT.C13 TT.C13.Json

/-- the translator recognised the shape of `process_object` -/
theorem translator_recognised : TTGen.C13.recognised = true := by decide

/-- the source tests for an existing id before construction AND again before registration -/
theorem source_is_fixed : TTGen.C13.cfg = Cfg.fixed := by decide

/-- every class whose `from_json` writes to the registry itself (AST scan of the whole library): only
FlexibleTimeTreeModel, whose own duplicate test and registration both stand after exactly one
`process_object` call (`taxa`) — nothing is loaded between the test and the registration -/
theorem source_dic_writers : TTGen.C13.dicWriters = [("FlexibleTimeTreeModel", 1, 1)] := by decide

/-- … and each of them is in the class table with that very registration point, its own test
standing immediately before the registration (what `constructSelf` models) -/
theorem self_registration_points_modelled :
    ∀ w ∈ TTGen.C13.dicWriters,
      w.2.1 = w.2.2 ∧ ((classTable.find w.1).bind (·.selfRegAfter)) = some w.2.2 := by
  decide +kernel

/-- classes that resolve a reference by reading `dic[...]` themselves (Distribution is in the class
table with that behaviour; Alignment and nn.Module are outside the modelled classes) -/
theorem source_dic_readers : TTGen.C13.dicReaders = ["Alignment", "Distribution", "Module"] := by decide

variable {ν : Type}

/-- (for the concrete examples) a successful result satisfying a decidable test -/
def okWith {α : Type} (r : Except Err (α × St)) (p : α → St → Bool) : Bool :=
  match r with
  | .ok (a, st) => p a st
  | .error _ => false
/-- (for the concrete examples) a failed result with exactly this error -/
def failsWith {α : Type} (r : Except Err α) (e : Err) : Bool :=
  match r with
  | .ok _ => false
  | .error e' => decide (e' = e)

/-! ## references -/

/-- **ref_resolves_to_registered**: a (plain) string evaluates to the address registered under
it — leaving the state untouched — or to `notFound`; nothing else can happen. -/
theorem ref_resolves_to_registered (cfg : Cfg) (tbl : ClassTable) (fuel : Nat) (s : String)
    (hs : s.toList.contains '{' = false) (st : St) :
    processObject (ν := ν) cfg tbl (fuel + 1) (.str s) st =
      match regLookup s st.reg with
      | some a => .ok (a, st)
      | none => .error (.notFound s) := by
  simp only [processObject, resolveRef, hs]
  cases regLookup s st.reg <;> simp

/-- forward references fail: an id that is not registered NOW is rejected, whatever the rest of
the file defines later -/
theorem forward_ref_fails (cfg : Cfg) (tbl : ClassTable) (fuel : Nat) (s : String)
    (hs : s.toList.contains '{' = false) (st : St) (h : regLookup s st.reg = none)
    (rest : List (Json ν)) :
    loadAll cfg tbl (fuel + 1) (.str s :: rest) st = .error (.notFound s) := by
  simp [loadAll, processObjects, processMany, ref_resolves_to_registered cfg tbl fuel s hs st, h]

example : failsWith (loadAll (ν := Unit) Cfg.fixed classTable 3
    [.str "a", .obj [("id", .str "a"), ("type", .str "VLeaf")]] ⟨[], []⟩) (.notFound "a") = true := by
  decide +kernel

/-! ## uniqueness -/

/-- a definition of an id that is already registered is rejected on the spot -/
theorem duplicate_rejected (cfg : Cfg) (hb : cfg.checkBefore = true) (tbl : ClassTable) (fuel : Nat)
    (data : List (String × Json ν)) (id : String) (a : Addr) (st : St)
    (hid : lookup "id" data = some (.str id)) (h : regLookup id st.reg = some a) :
    processObject cfg tbl (fuel + 1) (.obj data) st = .error (.duplicate id) := by
  simp [processObject, hid, hb, h]

/-- **load_ids_unique**: if a whole load succeeds, the objects constructed during it — one per
object literal met, at ANY depth, whether its class registers it through `process_object` or
registers itself inside its `from_json` — carry pairwise distinct ids, none of which was in the
initial registry; and the final registry is exactly the initial one followed by one entry
`id ↦ address` per constructed object, in construction order.  Equivalently: a second definition
of an id anywhere in the nesting makes the load fail. -/
theorem load_ids_unique (cfg : Cfg) (hc : cfg.checkAfter = true) (tbl : ClassTable) (fuel : Nat)
    (xs : List (Json ν)) (st0 st1 : St) (rs : List (List Addr))
    (hnd : (keys st0.reg).Nodup)
    (h : loadAll cfg tbl fuel xs st0 = .ok (rs, st1)) :
    ∃ ids : List String,
      heapIds st1 = heapIds st0 ++ ids ∧
      st1.reg = st0.reg ++ entries st0.heap.length ids ∧
      ids.Nodup ∧
      (∀ i ∈ ids, i ∉ keys st0.reg) ∧
      (keys st1.reg).Nodup := by
  have hg := loadAll_good cfg hc tbl fuel xs st0 rs st1 h
  rcases hg with ⟨⟨ids, hh, hr⟩, hn⟩
  have hn1 := hn hnd
  have hk : (keys st1.reg) = keys st0.reg ++ ids := by
    rw [hr]; unfold keys; rw [List.map_append]; congr 1; exact keys_entries _ _
  refine ⟨ids, hh, hr, ?_, ?_, hn1⟩
  · rw [NodupKeys, hk, List.nodup_append] at hn1
    exact hn1.2.1
  · intro i hi hmem
    rw [NodupKeys, hk, List.nodup_append] at hn1
    exact hn1.2.2 _ hmem _ hi rfl

/-- the same for one `process_object` call at any depth of the nesting -/
theorem object_ids_unique (cfg : Cfg) (hc : cfg.checkAfter = true) (tbl : ClassTable) (fuel : Nat)
    (j : Json ν) (st0 st1 : St) (a : Addr) (hnd : (keys st0.reg).Nodup)
    (h : processObject cfg tbl fuel j st0 = .ok (a, st1)) :
    ∃ ids : List String,
      heapIds st1 = heapIds st0 ++ ids ∧ st1.reg = st0.reg ++ entries st0.heap.length ids ∧
      (keys st1.reg).Nodup := by
  rcases processObject_good cfg hc tbl fuel j st0 a st1 h with ⟨⟨ids, hh, hr⟩, hn⟩
  exact ⟨ids, hh, hr, hn hnd⟩

/-- every object literal that is processed successfully is allocated at the returned address,
carries the literal's id, is registered under that id, and the id was not registered before -/
theorem literal_registered (cfg : Cfg) (hb : cfg.checkBefore = true) (hc : cfg.checkAfter = true)
    (tbl : ClassTable) (fuel : Nat)
    (data : List (String × Json ν)) (st st' : St) (a : Addr)
    (h : processObject cfg tbl fuel (.obj data) st = .ok (a, st')) :
    ∃ id, lookup "id" data = some (.str id) ∧ regLookup id st.reg = none ∧
      regLookup id st'.reg = some a ∧ (heapIds st')[a]? = some id := by
  cases fuel with
  | zero => simp [processObject] at h
  | succ fuel =>
    unfold processObject at h
    simp only at h
    split at h
    · cases h
    · rename_i id hid
      refine ⟨id, hid, ?_⟩
      simp only [hb, Bool.true_and] at h
      split at h
      · cases h
      · rename_i hno
        refine ⟨isSome_false_none _ hno, ?_⟩
        split at h
        · cases h
        · split at h
          · cases h
          · exact constructObject_registers cfg tbl (processObject_good cfg hc tbl fuel) _ _ _ _ _ _ h
        · cases h
    · cases h

/-- **fuel_enough**: the fuel of the model bounds the nesting depth only — with fuel at least the
depth of the value (what the driver supplies) the loader never answers `fuel`; every theorem above
therefore speaks about the real outcome of the load -/
theorem fuel_enough (cfg : Cfg) (tbl : ClassTable) (fuel : Nat) (j : Json ν) (st : St)
    (h : depth j ≤ fuel) : processObject cfg tbl fuel j st ≠ .error .fuel :=
  processObject_fuel_enough cfg tbl fuel j h st

/-! ## monotonicity and sharing -/

/-- **registry_monotone**: an entry, once registered, is never replaced or removed by anything a
load does afterwards -/
theorem registry_monotone (cfg : Cfg) (hc : cfg.checkAfter = true) (tbl : ClassTable) (fuel : Nat)
    (xs : List (Json ν)) (st0 st1 : St) (rs : List (List Addr))
    (h : loadAll cfg tbl fuel xs st0 = .ok (rs, st1)) (k : String) (a : Addr)
    (hk : regLookup k st0.reg = some a) :
    regLookup k st1.reg = some a ∧ (a < st0.heap.length → (heapIds st1)[a]? = (heapIds st0)[a]?) := by
  rcases (loadAll_good cfg hc tbl fuel xs st0 rs st1 h).1 with ⟨ids, hh, hr⟩
  constructor
  · rw [hr]; exact regLookup_append_left _ _ _ _ hk
  · intro ha; rw [hh, List.getElem?_append_left (by simpa [heapIds_length] using ha)]

/-- the same across one `process_object` call (any depth) -/
theorem registry_monotone_object (cfg : Cfg) (hc : cfg.checkAfter = true) (tbl : ClassTable)
    (fuel : Nat) (j : Json ν) (st0 st1 : St) (r : Addr)
    (h : processObject cfg tbl fuel j st0 = .ok (r, st1)) (k : String) (a : Addr)
    (hk : regLookup k st0.reg = some a) :
    regLookup k st1.reg = some a := by
  rcases (processObject_good cfg hc tbl fuel j st0 r st1 h).1 with ⟨objs, _, hr⟩
  rw [hr]; exact regLookup_append_left _ _ _ _ hk

/-- **sharing**: two holders that resolved the same reference — a plain id OR the range form
`stem{a:b}` — one at any point of a load, the other at any later point of it (after any further
successful loading), hold the same address, i.e. the same object instance; an update made through
one is seen by the other. -/
theorem sharing (cfg : Cfg) (hc : cfg.checkAfter = true) (tbl : ClassTable) (fuel f1 f2 : Nat)
    (s : String)
    (xs : List (Json ν)) (st1 st2 st1' st2' : St) (rs : List (List Addr)) (a1 a2 : Addr)
    (h1 : processObject (ν := ν) cfg tbl (f1 + 1) (.str s) st1 = .ok (a1, st1'))
    (hmid : loadAll cfg tbl fuel xs st1' = .ok (rs, st2))
    (h2 : processObject (ν := ν) cfg tbl (f2 + 1) (.str s) st2 = .ok (a2, st2')) :
    a1 = a2 := by
  simp only [processObject] at h1 h2
  cases hr1 : resolveRef s st1.reg with
  | error e => simp [hr1] at h1
  | ok b1 =>
    simp only [hr1, Except.ok.injEq, Prod.mk.injEq] at h1
    rcases h1 with ⟨rfl, rfl⟩
    have hmono : ∀ k x, regLookup k st1.reg = some x → regLookup k st2.reg = some x :=
      fun k x hk => (registry_monotone cfg hc tbl fuel xs st1 st2 rs hmid k x hk).1
    have := resolveRef_mono s st1.reg st2.reg b1 hmono hr1
    simp only [this, Except.ok.injEq, Prod.mk.injEq] at h2
    exact h2.1

/-- the range form `stem{a:b}` resolves (as coded) to the object registered under the LAST id of the
range, provided every id of the range is registered; it is stable under registry growth -/
theorem range_ref_stable (s : String) (reg reg' : List (String × Addr)) (a : Addr)
    (hm : ∀ k x, regLookup k reg = some x → regLookup k reg' = some x)
    (h : resolveRef s reg = .ok a) : resolveRef s reg' = .ok a :=
  resolveRef_mono s reg reg' a hm h

/-- the range form `stem{a:b}` is accepted only if EVERY member `stem+a, …, stem+(b-1)` is registered: an undefined
first / middle / last member is a dangling reference (it is not enough that the last one, which the reference denotes,
exists) -/
theorem range_ref_every_member_registered (s : String) (reg : List (String × Addr)) (x : Addr)
    (stem : String) (a b : Int) (hc : s.toList.contains '{' = true)
    (hp : parseRangeRef s = some (stem, a, b)) (h : resolveRef s reg = .ok x) :
    ∀ i : Nat, i < (b - a).toNat → ∃ y, regLookup (stem ++ toString (a + (i : Int))) reg = some y := by
  unfold resolveRef at h
  simp only [hc, if_true] at h
  exact resolveRange_all s reg x stem a b hp h

/-- non-vacuity: the loop over `w.0, w.1, w.2` with `w.1` undefined fails although the last member `w.2` exists -/
example : (match rangeFold (fun i => regLookup ("w." ++ toString ((0 : Int) + (i : Int))) [("w.0", 0), ("w.2", 1)])
    "w.{0:3}" (List.range 3) (.ok none) with | .ok _ => false | .error _ => true) = true := by decide +kernel

/-- a holder of an id holds the object literal that defined it: resolving `id` after the literal
was processed yields the address the literal was allocated at -/
theorem ref_is_the_literal (cfg : Cfg) (hb : cfg.checkBefore = true) (hc : cfg.checkAfter = true)
    (tbl : ClassTable) (fuel fuel' f2 : Nat) (data : List (String × Json ν)) (id : String)
    (hs : id.toList.contains '{' = false) (hid : lookup "id" data = some (.str id))
    (st st1 st2 : St) (a : Addr) (xs : List (Json ν)) (rs : List (List Addr))
    (h : processObject cfg tbl fuel (.obj data) st = .ok (a, st1))
    (hmid : loadAll cfg tbl fuel' xs st1 = .ok (rs, st2)) :
    processObject (ν := ν) cfg tbl (f2 + 1) (.str id) st2 = .ok (a, st2) := by
  rcases literal_registered cfg hb hc tbl fuel data st st1 a h with ⟨id', hid', _, hreg, _⟩
  rw [hid] at hid'
  cases hid'
  have := (registry_monotone cfg hc tbl fuel' xs st1 st2 rs hmid id a hreg).1
  rw [ref_resolves_to_registered cfg tbl f2 id hs, this]

/-- non-vacuity: a parameter defined once and held by two objects; both hold address 0 -/
example : okWith (loadAll (ν := Unit) Cfg.fixed classTable 3
    [ .obj [("id", .str "p"), ("type", .str "VLeaf")],
      .obj [("id", .str "q"), ("type", .str "VPair"), ("a", .str "p"), ("b", .str "p")] ] ⟨[], []⟩)
    (fun rs st => decide (rs = [[0], [1]]) && decide (st.reg = [("p", 0), ("q", 1)]) &&
      decide (st.heap = [⟨"VLeaf", "p", []⟩, ⟨"VPair", "q", [("a", [0]), ("b", [0])]⟩])) = true := by
  decide +kernel

/-! ## the defect F01 (behaviour before the repair), as a concrete witness -/

/-- without the post-construction test a child carrying its parent's id is ACCEPTED: two objects
carry the id `a` and the registry keeps only the parent -/
theorem unfixed_accepts_duplicate :
    okWith (loadAll (ν := Unit) Cfg.unfixed classTable 3
      [.obj [("id", .str "a"), ("type", .str "VOne"),
             ("x", .obj [("id", .str "a"), ("type", .str "VLeaf")])]] ⟨[], []⟩)
      (fun rs st => decide (rs = [[1]]) && decide (st.reg = [("a", 1)]) &&
        decide (st.heap = [⟨"VLeaf", "a", []⟩, ⟨"VOne", "a", [("x", [0])]⟩])) = true := by
  decide +kernel

/-- … and with it the same specification is rejected -/
theorem fixed_rejects_duplicate :
    failsWith (loadAll (ν := Unit) Cfg.fixed classTable 3
      [.obj [("id", .str "a"), ("type", .str "VOne"),
             ("x", .obj [("id", .str "a"), ("type", .str "VLeaf")])]] ⟨[], []⟩) (.duplicate "a") = true := by
  decide +kernel


/-! ## plates -/

/-- the clones of a plate over `a:b` (no `var`): one per `i ∈ range(a, b)` — `b − a` of them —
each the plate's `object` with `replace_star_with_str(·, str(i))` applied -/
theorem plate_clones_range (kvs : List (String × Json ν)) (r : String) (a b : Int) (o : Json ν)
    (hr : lookup "range" kvs = some (.str r)) (hpr : parseRange r = some [a, b])
    (ho : lookup "object" kvs = some o) (hv : lookup "var" kvs = none) :
    plateClones kvs =
      .ok ((List.range (b - a).toNat).map fun (i : Nat) => replaceStar (toString (a + (i : Int))) o) := by
  simp [plateClones, hr, hpr, ho, hv, pyRange, bind, Option.bind]

/-- the same with a `var`: the wildcard `${var}` is substituted in every id -/
theorem plate_clones_range_var (kvs : List (String × Json ν)) (r var : String) (a b : Int) (o : Json ν)
    (hr : lookup "range" kvs = some (.str r)) (hpr : parseRange r = some [a, b])
    (ho : lookup "object" kvs = some o) (hv : lookup "var" kvs = some (.str var)) :
    plateClones kvs =
      .ok ((List.range (b - a).toNat).map fun (i : Nat) =>
        replaceWildcard ("${" ++ var ++ "}") (toString (a + (i : Int))) o) := by
  simp [plateClones, hr, hpr, ho, hv, pyRange, bind, Option.bind]

/-- the documented id substitution: a trailing `*` is replaced by the index -/
theorem star_subst (s v : String) : starSubst (s ++ "*") v = s ++ v := by
  simp [starSubst]

/-- … in the `id` of the cloned object (and, by the same function, of every nested object) -/
theorem clone_id (v : String) (kvs : List (String × Json ν)) (s : String)
    (h : lookup "id" kvs = some (.str s)) :
    lookup "id" (match replaceStar v (.obj kvs) with | .obj kvs' => kvs' | _ => []) =
      some (.str (starSubst s v)) := by
  simp only [replaceStar]
  induction kvs with
  | nil => simp [lookup] at h
  | cons e rest ih =>
    rcases e with ⟨k, x⟩
    simp only [lookup] at h
    by_cases hk : k = "id"
    · simp only [hk, if_true, Option.some.injEq] at h
      subst h
      simp [rsFields, lookup, hk, replaceStar]
    · simp only [hk, if_false] at h
      simp [rsFields, lookup, hk, ih h]

/-- **plates_expand**: in a list whose other elements (and the clones) contain no plate, a plate
with a range is replaced, in place, by its clones — nothing else changes.  (`fuel`/`steps` only
have to exceed the size of the data.) -/
theorem plates_expand (steps fuel : Nat) (pre post clones : List (Json ν))
    (kvs : List (String × Json ν))
    (hp : isPlate kvs = true) (hr : hasKey "range" kvs = true) (hc : plateClones kvs = .ok clones)
    (hpre : plateFreeList pre = true) (hcl : plateFreeList clones = true)
    (hpost : plateFreeList post = true)
    (hsize : nodesList pre + nodesList clones + nodesList post + 2 ≤ min fuel steps) :
    expandPlatesFuel steps (fuel + 2) (.arr (pre ++ .obj kvs :: post)) =
      .ok (.arr (pre ++ clones ++ post)) := by
  have hf := expandPlatesFuel_noop (ν := ν) steps fuel
  have hlpre := length_le_nodesList pre
  have hlcl := length_le_nodesList clones
  have hlpost := length_le_nodesList post
  have hsteps : nodesList pre + nodesList clones + nodesList post + 2 ≤ steps :=
    Nat.le_trans hsize (Nat.min_le_right _ _)
  rw [show expandPlatesFuel steps (fuel + 2) (.arr (pre ++ .obj kvs :: post)) =
    (expandWalk (expandPlatesFuel steps (fuel + 1)) steps [] (pre ++ .obj kvs :: post)).map .arr from rfl]
  rw [expandWalk_prefix hf pre steps [] _ hpre (by omega) (by omega)]
  obtain ⟨n, hn⟩ : ∃ n, steps - pre.length = n + 1 := ⟨steps - pre.length - 1, by omega⟩
  rw [hn]
  cases clones with
  | nil =>
    cases post with
    | nil => simp [expandWalk, hp, hr, hc, Except.map]
    | cons y post' =>
      simp only [plateFreeList, Bool.and_eq_true] at hpost
      simp only [nodesList] at hsize hsteps
      simp only [List.length_cons, nodesList] at hlpost
      have hy := nodes_pos y
      have : expandWalk (expandPlatesFuel steps (fuel + 1)) (n + 1) (pre.reverse ++ []) (.obj kvs :: y :: post')
          = expandWalk (expandPlatesFuel steps (fuel + 1)) n (y :: (pre.reverse ++ [])) post' := by
        simp [expandWalk, hp, hr, hc]
      rw [this, expandWalk_plateFree hf post' n _ hpost.2 (by omega) (by omega)]
      simp [Except.map]
  | cons c cs =>
    simp only [plateFreeList, Bool.and_eq_true] at hcl
    simp only [nodesList] at hsize hsteps
    simp only [List.length_cons, nodesList] at hlcl
    have hcpos := nodes_pos c
    rw [expandWalk_plate _ n _ post kvs c cs hp hr hc,
      expandWalk_plateFree hf (cs ++ post) n _ (by simp [plateFreeList_append, hcl.2, hpost])
        (by rw [nodesList_append]; omega) (by simp; omega)]
    simp [Except.map]

/-- non-vacuity: `[x, Plate(0:2, {id: p*}), y]` ↦ `[x, {id: p0}, {id: p1}, y]` -/
example : (match expandPlatesFuel (ν := Unit) 100 100
    (.arr [.str "x", .obj [("type", .str "Plate"), ("range", .str "0:2"),
                           ("object", .obj [("id", .str "p*"), ("type", .str "VLeaf")])], .str "y"]) with
    | .ok (.arr [.str "x", .obj [("id", .str "p0"), ("type", .str "VLeaf")],
                 .obj [("id", .str "p1"), ("type", .str "VLeaf")], .str "y"]) => true
    | _ => false) = true := by
  decide +kernel

example : parseRange "0:2" = some [0, 2] := by decide +kernel

/-! ## a class whose `from_json` registers the object itself (FlexibleTimeTreeModel, F01b) -/

/-- with the repaired loader a self-registering object loads, may be referred to by its own
children (a cycle), and is registered once, at its own address -/
theorem self_registering_loads :
    okWith (loadAll (ν := Unit) Cfg.fixed classTable 3
      [.obj [("id", .str "t"), ("type", .str "VSelf"),
             ("pre", .obj [("id", .str "taxa"), ("type", .str "VLeaf")]),
             ("inner", .obj [("id", .str "h"), ("type", .str "VOne"), ("x", .str "t")])]] ⟨[], []⟩)
      (fun rs st => decide (rs = [[1]]) && decide (st.reg = [("taxa", 0), ("t", 1), ("h", 2)]) &&
        decide (st.heap = [⟨"VLeaf", "taxa", []⟩,
                           ⟨"VSelf", "t", [("pre", [0]), ("inner", [2]), ("rest", [])]⟩,
                           ⟨"VOne", "h", [("x", [1])]⟩])) = true := by
  decide +kernel

/-- with F01 alone (`if id_ in dic` without `and dic[id_] is not obj`) the very same specification is
rejected: the regression F01b repairs -/
theorem f01only_rejects_self_registering :
    failsWith (loadAll (ν := Unit) Cfg.f01only classTable 3
      [.obj [("id", .str "t"), ("type", .str "VSelf"),
             ("inner", .obj [("id", .str "h"), ("type", .str "VLeaf")])]] ⟨[], []⟩) (.duplicate "t") = true := by
  decide +kernel

/-- a child of a self-registering object that carries ITS id is still rejected (by the test before
construction, since the id is already registered) -/
theorem self_registering_child_duplicate_rejected :
    failsWith (loadAll (ν := Unit) Cfg.fixed classTable 3
      [.obj [("id", .str "t"), ("type", .str "VSelf"),
             ("inner", .obj [("id", .str "t"), ("type", .str "VLeaf")])]] ⟨[], []⟩)
      (.wrapped "VSelf" "t" (.duplicate "t")) = true := by
  decide +kernel

/-! ## comments -/
section
variable [JNum ν]

/-- **comments_removed**: after `remove_comments` no key starting with an underscore and no dict
with a truthy `ignore` is left, at any depth -/
theorem comments_removed (j : Json ν) : clean (removeComments j) = true :=
  clean_removeComments j

/-- **comments_noop_when_absent** -/
theorem comments_noop_when_absent (j : Json ν) (h : clean j = true) : removeComments j = j :=
  removeComments_of_clean j h

/-- **comments_idempotent** -/
theorem comments_idempotent (j : Json ν) : removeComments (removeComments j) = removeComments j :=
  removeComments_of_clean _ (clean_removeComments j)

/-- an underscore key, or a key holding an ignored object, has no effect wherever it is inserted
in a dict (whatever it holds — including object literals re-using ids of the specification) -/
theorem comment_key_no_effect (pre post : List (String × Json ν)) (k : String) (v : Json ν)
    (h : underscore k = true ∨ ignored v = true) :
    removeComments (.obj (pre ++ (k, v) :: post)) = removeComments (.obj (pre ++ post)) := by
  have : rcFields ((k, v) :: post) = rcFields post := by
    rcases h with h | h <;> simp [rcFields, h]
  simp only [removeComments, rcFields_append, this]

/-- an ignored object has no effect wherever it is inserted in a list -/
theorem ignored_element_no_effect (pre post : List (Json ν)) (x : Json ν) (h : ignored x = true) :
    removeComments (.arr (pre ++ x :: post)) = removeComments (.arr (pre ++ post)) := by
  have : rcList (x :: post) = rcList post := by simp [rcList, h]
  simp only [removeComments, rcList_append, this]

/-- the ORDER of the two pre-passes of `main`: an ignored element (in particular an ignored PLATE) has no effect on what
reaches the loader - it is removed before plates are expanded, so its clones never exist -/
theorem ignored_before_plates (steps fuel : Nat) (pre post : List (Json ν)) (x : Json ν) (h : ignored x = true) :
    preprocess steps fuel (.arr (pre ++ x :: post)) = preprocess steps fuel (.arr (pre ++ post)) := by
  unfold preprocess
  rw [ignored_element_no_effect pre post x h]

/-- … and so has anything under an underscore key or an ignored value of a dict -/
theorem commented_field_before_plates (steps fuel : Nat) (pre post : List (String × Json ν)) (k : String) (v : Json ν)
    (h : underscore k = true ∨ ignored v = true) :
    preprocess steps fuel (.obj (pre ++ (k, v) :: post)) = preprocess steps fuel (.obj (pre ++ post)) := by
  unfold preprocess
  rw [comment_key_no_effect pre post k v h]

/-- … and the surrounding context does not matter: cleaning is a congruence -/
theorem comments_congr_field (pre post : List (String × Json ν)) (k : String) (v v' : Json ν)
    (hi : ignored v' = ignored v) (h : removeComments v' = removeComments v) :
    removeComments (.obj (pre ++ (k, v') :: post)) = removeComments (.obj (pre ++ (k, v) :: post)) := by
  simp only [removeComments, rcFields_append, rcFields, hi, h]

theorem comments_congr_elem (pre post : List (Json ν)) (x x' : Json ν)
    (hi : ignored x' = ignored x) (h : removeComments x' = removeComments x) :
    removeComments (.arr (pre ++ x' :: post)) = removeComments (.arr (pre ++ x :: post)) := by
  simp only [removeComments, rcList_append, rcList, hi, h]

end

instance : JNum Int := ⟨fun x => x != 0⟩

/-- non-vacuity: an ignored element, an underscore key, a falsy `ignore` (kept) and an ignored value -/
example : (match removeComments (ν := Int)
    (.arr [.obj [("ignore", .num 1), ("id", .str "a")],
           .obj [("_c", .str "x"), ("id", .str "a"), ("ignore", .num 0),
                 ("k", .obj [("ignore", .str "yes")])]]) with
    | .arr [.obj [("id", .str "a"), ("ignore", .num 0)]] => true
    | _ => false) = true := by
  decide +kernel

end TTProps.C13
