/-! C13 property theorems — stub (not built yet). -/
namespace TTProps.C13
end TTProps.C13
