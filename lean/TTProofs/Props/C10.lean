import TTProofs.Lemmas.C10_Lists
/-!
# C10 — a sample dimension never mixes samples

The numeric models of the other properties are functions of ONE sample; the only place where the
implementation picks a reduction by Python logic on shapes is
`JointDistributionModel.log_prob`, modelled branch by branch in `TTModel/C10_Shapes.lean`
(`choosePlan`, `applyPlan`, `catSumLast`, `joint`) together with the sample-shape inference
(`longest`, `containerSampleShape`, `distSampleShape`).  The theorems below hold for ALL sample
shapes, event shapes and numbers of components, over any commutative additive monoid of values.
The model is tied to the real class by an exact black-box correspondence (`harness/c10.py`:
power-of-two sentinel entries reveal which entries were added into which output entry).
-/
namespace TTProps.C10
open TT.C10

variable {α : Type} [AddCommMonoid α]

/-! ## sample-shape inference: "longest leading shape" -/

/-- `max(parts, key=len)`: the inferred sample shape is one of the parts and none is longer -/
theorem sample_shape_is_longest (parts : List Shape) (h : parts ≠ []) :
    modelSampleShape parts ∈ parts ∧ ∀ s ∈ parts, s.length ≤ (modelSampleShape parts).length :=
  ⟨longest_mem parts h, longest_length_max parts⟩

example : modelSampleShape [[], [3], [2]] = [3] := by decide

/-- when every component reports the same sample shape `J`, the joint infers `J` -/
theorem joint_infers_common_shape (J : Shape) (comps : List (Component α)) (hne : comps ≠ [])
    (h : ∀ c ∈ comps, c.claimed = J) : jointSampleShape comps = J := by
  unfold jointSampleShape containerSampleShape
  have hne' : comps.map (·.claimed) ≠ [] := by simpa using hne
  have hl : longest (comps.map (·.claimed)) = J :=
    longest_all_eq J _ hne' (by
      intro s hs
      obtain ⟨c, hc, rfl⟩ := List.mem_map.mp hs
      exact h c hc)
  have he : (comps.map (·.claimed)).isEmpty = false := by
    cases comps with
    | nil => exact absurd rfl hne
    | cons a l => rfl
  simp [he, hl]

/-! ## the branch chosen for a well-shaped component -/

/-- a component whose value is `J ++ E` and which reports `J` is unsqueezed (no event axes) or
flattened and summed from axis `|J|` on — whatever the joint's own sample shape is -/
theorem choosePlan_batched (J E J' : Shape) :
    choosePlan (J ++ E) J J' = if E = [] then Plan.unsqueezeLast else Plan.flattenSum J.length := by
  unfold choosePlan
  by_cases hE : E = []
  · simp [hE]
  · have h1 : J ++ E ≠ J := fun h => hE (append_eq_self_left.mp h)
    have h2 : J ++ E ≠ [] := by
      intro h; exact hE (List.append_eq_nil_iff.mp h).2
    have h3 : (J ++ E).length > J.length := by
      have : E.length ≠ 0 := fun h => hE (List.eq_nil_of_length_eq_zero h)
      simp; omega
    simp [hE, h1, h2, h3]

/-- what a component contributes to sample `s`: the sum of its entries with leading index `s` -/
def eventSum (J : Shape) (t : Tensor α) (s : List Nat) : α :=
  ((indices (t.shape.drop J.length)).map fun e => t.get (s ++ e)).sum

/-- the piece built for a well-shaped component has shape `J ++ [1]` and holds, for each sample,
the sum of that sample's entries only -/
theorem piece_batched (J E J' : Shape) (t : Tensor α) (ht : t.shape = J ++ E) :
    ∃ p, applyPlan (choosePlan t.shape J J') J' t = .ok p ∧ p.shape = J ++ [1] ∧
      ∀ s, s.length = J.length → p.get (s ++ [0]) = eventSum J t s := by
  rw [ht, choosePlan_batched]
  by_cases hE : E = []
  · subst hE
    refine ⟨⟨t.shape ++ [1], fun i => t.get i.dropLast⟩, by simp [applyPlan], by simp [ht], ?_⟩
    intro s _
    simp [eventSum, ht, indices]
  · refine ⟨sumFrom J.length t, by simp [hE, applyPlan], by simp [sumFrom, ht], ?_⟩
    intro s hs
    simp only [sumFrom, eventSum, ht, drop_len_append]
    rw [take_of_len_append s [0] J.length hs]

/-! ## concatenating and summing pieces of equal shape -/

theorem catSumLast_uniform (J : Shape) (ps : List (Tensor α)) (hne : ps ≠ [])
    (h : ∀ p ∈ ps, p.shape = J ++ [1]) :
    ∃ out, catSumLast ps = .ok out ∧ out.shape = J ∧
      ∀ s, out.get s = (ps.map fun p => p.get (s ++ [0])).sum := by
  cases ps with
  | nil => exact absurd rfl hne
  | cons p rest =>
    have hp := h p (by simp)
    have hrest : ∀ q ∈ rest, q.shape = J ++ [1] := fun q hq => h q (by simp [hq])
    have c1 : ¬ p.shape = [] := by simp [hp]
    have c2 : ¬ (rest.any (fun q => decide (q.shape.length ≠ p.shape.length)) = true) := by
      simp only [List.any_eq_true, not_exists, not_and]
      intro q hq
      simp [hrest q hq, hp]
    have c3 : ¬ (rest.any (fun q => decide (q.shape.dropLast ≠ p.shape.dropLast)) = true) := by
      simp only [List.any_eq_true, not_exists, not_and]
      intro q hq
      simp [hrest q hq, hp]
    refine ⟨⟨p.shape.dropLast, fun s =>
      ((p :: rest).map fun q => ((List.range (q.shape.getLastD 0)).map fun j => q.get (s ++ [j])).sum).sum⟩,
      ?_, by simp [hp], ?_⟩
    · simp only [catSumLast]
      rw [if_neg c1, if_neg c2, if_neg c3]
    intro s
    show ((p :: rest).map fun q => ((List.range (q.shape.getLastD 0)).map fun j => q.get (s ++ [j])).sum).sum = _
    congr 1
    apply List.map_congr_left
    intro q hq
    have : q.shape = J ++ [1] := h q hq
    simp [this, List.range_succ]

/-! ## `joint_sums_within_sample` -/

/-- components a joint distribution reduces correctly: value of shape `J ++ E` reporting `J`
(any event shape `E`, including none), or a one-element value of a component that reports some
other non-empty sample shape (the `expand` branch: added to every sample) -/
inductive WellShaped (J : Shape) (c : Component α) : Prop where
  | batched (E : Shape) (hc : c.claimed = J) (hs : c.value.shape = J ++ E)
  | constant (hs : c.value.shape = [1]) (hc : c.claimed ≠ [1]) (hl : 1 ≤ c.claimed.length)

/-- what component `c` must add to sample `s` -/
def contribution (J : Shape) (c : Component α) (s : List Nat) : α :=
  if c.value.shape = [1] ∧ c.claimed ≠ [1] ∧ 1 ≤ c.claimed.length then c.value.get [0]
  else eventSum J c.value s

theorem piece_wellshaped (J : Shape) (c : Component α) (h : WellShaped J c) :
    ∃ p, applyPlan (choosePlan c.value.shape c.claimed J) J c.value = .ok p ∧ p.shape = J ++ [1] ∧
      ∀ s, s.length = J.length → p.get (s ++ [0]) = contribution J c s := by
  cases h with
  | batched E hc hs =>
    obtain ⟨p, h1, h2, h3⟩ := piece_batched J E J c.value hs
    refine ⟨p, by rw [hc]; exact h1, h2, ?_⟩
    intro s hl
    rw [h3 s hl]
    unfold contribution
    have : ¬ (c.value.shape = [1] ∧ c.claimed ≠ [1] ∧ 1 ≤ c.claimed.length) := by
      rintro ⟨a, b, d⟩
      rw [hc] at b d
      rw [hs] at a
      -- J ++ E = [1] with J nonempty forces J = [1]
      cases J with
      | nil => simp at d
      | cons x xs =>
        cases xs with
        | nil => simp at a; exact b (by simp [a.1])
        | cons y ys => simp at a
    simp [this]
  | constant hs hc hl =>
    have hplan : choosePlan c.value.shape c.claimed J = Plan.expand := by
      unfold choosePlan
      have h1 : ([1] : Shape) ≠ c.claimed := fun h => hc h.symm
      have h3 : ¬ (1 > c.claimed.length) := by omega
      simp [hs, h1, h3]
    refine ⟨⟨J ++ [1], fun _ => c.value.get [0]⟩, by rw [hplan]; simp [applyPlan, hs], rfl, ?_⟩
    intro s _
    simp [contribution, hs, hc, hl]

theorem mapM_ok {β γ : Type} (f : β → Except Err γ) (P : β → γ → Prop) :
    ∀ (l : List β), (∀ c ∈ l, ∃ p, f c = .ok p ∧ P c p) →
      ∃ ps, l.mapM f = .ok ps ∧ List.Forall₂ P l ps
  | [], _ => ⟨[], by simp [pure, Except.pure], List.Forall₂.nil⟩
  | c :: l, h => by
    obtain ⟨p, hp, hP⟩ := h c (by simp)
    obtain ⟨ps, hps, hF⟩ := mapM_ok f P l (fun c hc => h c (by simp [hc]))
    refine ⟨p :: ps, ?_, List.Forall₂.cons hP hF⟩
    simp [List.mapM_cons, hp, hps, bind, Except.bind, pure, Except.pure]

theorem forall2_right {β γ : Type} {P : β → γ → Prop} {Q : γ → Prop} {l : List β} {ps : List γ}
    (hF : List.Forall₂ P l ps) (h : ∀ a b, P a b → Q b) : ∀ b ∈ ps, Q b := by
  induction hF with
  | nil => intro b hb; simp at hb
  | cons hab _ ih =>
    intro b hb
    rcases List.mem_cons.mp hb with rfl | hb'
    · exact h _ _ hab
    · exact ih b hb'

theorem forall2_sum {β γ : Type} {f : γ → α} {g : β → α} {l : List β} {ps : List γ}
    (hF : List.Forall₂ (fun a b => f b = g a) l ps) : (ps.map f).sum = (l.map g).sum := by
  induction hF with
  | nil => rfl
  | cons hab _ ih => simp [hab, ih]

/-- **joint_sums_within_sample** (given the joint's sample shape `J`): for any number of
well-shaped components — every sample shape `J`, every event shape — the joint log-density
evaluates without error, has shape `J`, and its entry for sample `s` is the sum over components of
that component's entries belonging to sample `s` (one-element components are added to every
sample). No entry of another sample enters. -/
theorem jointWith_sums_within_sample (J : Shape) (comps : List (Component α)) (hne : comps ≠ [])
    (h : ∀ c ∈ comps, WellShaped J c) :
    ∃ out, jointWith J comps = .ok out ∧ out.shape = J ∧
      ∀ s, s.length = J.length → out.get s = (comps.map fun c => contribution J c s).sum := by
  obtain ⟨ps, hps, hF⟩ := mapM_ok
    (fun c => applyPlan (choosePlan c.value.shape c.claimed J) J c.value)
    (fun c p => p.shape = J ++ [1] ∧ ∀ s, s.length = J.length → p.get (s ++ [0]) = contribution J c s)
    comps (fun c hc => piece_wellshaped J c (h c hc))
  have hpsne : ps ≠ [] := by
    intro he; subst he
    cases hF
    exact hne rfl
  have hshape : ∀ p ∈ ps, p.shape = J ++ [1] := forall2_right hF (fun _ _ h => h.1)
  obtain ⟨out, hout, hsh, hget⟩ := catSumLast_uniform J ps hpsne hshape
  refine ⟨out, by simp [jointWith, hps, hout, bind, Except.bind], hsh, ?_⟩
  intro s hs
  rw [hget s]
  exact forall2_sum (f := fun p => p.get (s ++ [0])) (g := fun c => contribution J c s)
    (hF.imp (fun _ _ h => h.2 s hs))

/-- **joint_sums_within_sample**: `JointDistributionModel.log_prob` with its own inferred sample
shape, when every component's value has shape `sampleShape ++ eventDims` and reports `sampleShape`:
`joint[s] = Σ_components Σ_events component[s, event]`, for all sample shapes and event shapes. -/
theorem joint_sums_within_sample (J : Shape) (comps : List (Component α)) (hne : comps ≠ [])
    (h : ∀ c ∈ comps, c.claimed = J ∧ ∃ E, c.value.shape = J ++ E) :
    ∃ out, joint comps = .ok out ∧ out.shape = J ∧
      ∀ s, s.length = J.length → out.get s = (comps.map fun c => eventSum J c.value s).sum := by
  have hJ : jointSampleShape comps = J := joint_infers_common_shape J comps hne (fun c hc => (h c hc).1)
  obtain ⟨out, h1, h2, h3⟩ := jointWith_sums_within_sample J comps hne
    (fun c hc => by obtain ⟨a, E, b⟩ := h c hc; exact WellShaped.batched E a b)
  refine ⟨out, by simpa [joint, hJ] using h1, h2, ?_⟩
  intro s hs
  rw [h3 s hs]
  congr 1
  apply List.map_congr_left
  intro c hc
  obtain ⟨a, E, b⟩ := h c hc
  unfold contribution
  have : ¬ (c.value.shape = [1] ∧ c.claimed ≠ [1] ∧ 1 ≤ c.claimed.length) := by
    rintro ⟨x, y, z⟩
    rw [a] at y z
    rw [b] at x
    cases J with
    | nil => simp at z
    | cons u us =>
      cases us with
      | nil => simp at x; exact y (by simp [x.1])
      | cons v vs => simp at x
  simp [this]

/-- the hypotheses are met by a non-trivial instance: two samples, one component with a 3-element
event axis and one without; the joint adds `10+11+12+1` for sample 0 and `20+21+22+2` for sample 1 -/
example :
    let a : Component Nat := ⟨⟨[2, 3], fun i => 10 * (i.getD 0 0 + 1) + i.getD 1 0⟩, [2]⟩
    let b : Component Nat := ⟨⟨[2], fun i => i.getD 0 0 + 1⟩, [2]⟩
    (match joint [a, b] with
      | .ok out => (out.shape, out.get [0], out.get [1])
      | .error _ => ([], 0, 0)) = ([2], 34, 65) := by
  decide

/-! ## `plan_total`: every other shape combination -/

theorem cut_le (L C : Shape) : cut L C ≤ L.length := by
  unfold cut
  split
  · omega
  · split
    · omega
    · split <;> omega

/-- **piece_spec**: whatever the three shapes are, every branch other than `expand`/`squeeze0`
keeps the first `cut L C` axes and adds up ALL entries behind them:
the piece has shape `L[:cut] ++ [1]` and `piece[s, 0] = Σ_e lp[s ++ e]`. -/
theorem piece_spec (L C J : Shape) (t : Tensor α) (ht : t.shape = L)
    (h1 : choosePlan L C J ≠ Plan.expand) (h2 : choosePlan L C J ≠ Plan.squeeze0) :
    ∃ p, applyPlan (choosePlan L C J) J t = .ok p ∧ p.shape = L.take (cut L C) ++ [1] ∧
      ∀ s, s.length = cut L C →
        p.get (s ++ [0]) = ((indices (L.drop (cut L C))).map fun e => t.get (s ++ e)).sum := by
  by_cases a : L = C
  · have hp : choosePlan L C J = Plan.unsqueezeLast := by simp [choosePlan, a]
    have hc : cut L C = L.length := by simp [cut, a]
    rw [hp, hc]
    refine ⟨⟨t.shape ++ [1], fun i => t.get i.dropLast⟩, rfl, by simp [ht], ?_⟩
    intro s _
    simp [indices]
  · by_cases b : L = []
    · subst b
      have hp : choosePlan [] C J = Plan.unsqueeze0 := by simp [choosePlan, a]
      have hc : cut [] C = 0 := by simp [cut, a]
      rw [hp, hc]
      refine ⟨⟨1 :: t.shape, fun i => t.get i.tail⟩, rfl, by simp [ht], ?_⟩
      intro s hs
      have : s = [] := List.eq_nil_of_length_eq_zero hs
      subst this
      simp [indices]
    · by_cases c : L.length > C.length
      · have hp : choosePlan L C J = Plan.flattenSum C.length := by simp [choosePlan, a, b, c]
        have hc : cut L C = C.length := by simp [cut, a, b, c]
        rw [hp, hc]
        refine ⟨sumFrom C.length t, rfl, by simp [sumFrom, ht], ?_⟩
        intro s hs
        simp only [sumFrom, ht]
        rw [take_of_len_append s [0] C.length hs]
      · have hc : cut L C = L.length - 1 := by simp [cut, a, b, c]
        by_cases d : L.getLast? = some 1
        · by_cases e : L.length = 1
          · exact absurd (by
              unfold choosePlan
              rw [if_neg a, if_neg b, if_neg c, if_neg (not_not.mpr d), if_pos e]) h1
          · by_cases f : L.length > 1 ∧ J.length = 0
            · exact absurd (by
                unfold choosePlan
                rw [if_neg a, if_neg b, if_neg c, if_neg (not_not.mpr d), if_neg e, if_pos f]) h2
            · have hp : choosePlan L C J = Plan.keep := by
                unfold choosePlan
                rw [if_neg a, if_neg b, if_neg c, if_neg (not_not.mpr d), if_neg e, if_neg f]
              rw [hp, hc]
              -- keep: the last axis has size 1, so `L = L[:-1] ++ [1]` and summing it is the identity
              have hL : L = L.dropLast ++ [1] := (List.dropLast_append_getLast? 1 (by simpa using d)).symm
              have hlen : L.length - 1 = L.dropLast.length := by simp
              refine ⟨t, rfl, ?_, ?_⟩
              · rw [ht, ← List.dropLast_eq_take]; exact hL
              · intro s _
                have hd : L.drop (L.length - 1) = [1] := by
                  rw [hlen]
                  conv_lhs => rw [hL]
                  simp
                rw [hd, indices_one]
                simp
        · have hp : choosePlan L C J = Plan.sumLast := by
            unfold choosePlan
            rw [if_neg a, if_neg b, if_neg c, if_pos d]
          rw [hp, hc]
          refine ⟨sumFrom (t.shape.length - 1) t, rfl, by simp [sumFrom, ht], ?_⟩
          intro s hs
          simp only [sumFrom, ht]
          rw [take_of_len_append s [0] (L.length - 1) hs]

/-- **plan_total (no silent mixing next to a correctly shaped component)**: put ANY component
(value shape `L`, reported shape `C`, not the one-element `expand` case, `squeeze0` being
unreachable) into a joint next to one well-shaped component. Either the joint raises (shape
mismatch in `torch.cat`), or the component's value really has the form `J ++ E` and it contributes
to sample `s` exactly the sum of its own entries with leading index `s`. A number mixing samples
is never returned. -/
theorem plan_total (J : Shape) (g c : Component α) (hg : WellShaped J g)
    (h1 : choosePlan c.value.shape c.claimed J ≠ Plan.expand)
    (h2 : choosePlan c.value.shape c.claimed J ≠ Plan.squeeze0) :
    (∃ e, jointWith J [g, c] = .error e) ∨
    (∃ out E, jointWith J [g, c] = .ok out ∧ c.value.shape = J ++ E ∧ out.shape = J ∧
      ∀ s, s.length = J.length → out.get s = contribution J g s + eventSum J c.value s) := by
  obtain ⟨pg, hpg, hgs, hgv⟩ := piece_wellshaped J g hg
  obtain ⟨pc, hpc, hcs, hcv⟩ := piece_spec c.value.shape c.claimed J c.value rfl h1 h2
  have hj : jointWith J [g, c] = catSumLast [pg, pc] := by
    simp [jointWith, List.mapM_cons, hpg, hpc, bind, Except.bind, pure, Except.pure]
  rw [hj]
  by_cases hsame : pc.shape = J ++ [1]
  · right
    have hcutJ : (c.value.shape.take (cut c.value.shape c.claimed)) = J := by
      rw [hcs] at hsame
      exact List.append_cancel_right hsame
    have hcut : cut c.value.shape c.claimed = J.length := by
      have := congrArg List.length hcutJ
      have hle := cut_le c.value.shape c.claimed
      simp at this
      omega
    obtain ⟨out, hout, hsh, hget⟩ := catSumLast_uniform J [pg, pc] (by simp)
      (by intro p hp; simp at hp; rcases hp with rfl | rfl <;> assumption)
    refine ⟨out, c.value.shape.drop J.length, hout, ?_, hsh, ?_⟩
    · rw [← hcut]
      conv_lhs => rw [← List.take_append_drop (cut c.value.shape c.claimed) c.value.shape]
      rw [hcutJ]
    · intro s hs
      rw [hget s]
      simp only [List.map_cons, List.map_nil, List.sum_cons, List.sum_nil, add_zero]
      rw [hgv s hs, hcv s (by omega), hcut]
      rfl
  · left
    have hA : ¬ pg.shape = [] := by simp [hgs]
    simp only [catSumLast]
    rw [if_neg hA]
    by_cases hlen : pc.shape.length = pg.shape.length
    · have hB : ¬ (([pc].any fun q => decide (q.shape.length ≠ pg.shape.length)) = true) := by
        simp [hlen]
      have hC : ([pc].any fun q => decide (q.shape.dropLast ≠ pg.shape.dropLast)) = true := by
        simp only [List.any_cons, List.any_nil, Bool.or_false, decide_eq_true_eq]
        intro hd
        apply hsame
        -- same leading axes; the last axis of `pc` is 1 by `piece_spec`
        rw [hcs, hgs] at hd
        rw [hcs]
        simp at hd
        rw [hd]
      refine ⟨Err.catSize, ?_⟩
      rw [if_neg hB, if_pos hC]
    · have hB : ([pc].any fun q => decide (q.shape.length ≠ pg.shape.length)) = true := by
        simp [hlen]
      refine ⟨Err.catNdim, ?_⟩
      rw [if_pos hB]

/-- `squeeze0` needs the joint's sample shape to be empty while the component reports a longer
one: inside a joint, whose sample shape is the longest reported shape, it is never taken -/
theorem squeeze0_unreachable (L C J : Shape) (h : C.length ≤ J.length) :
    choosePlan L C J ≠ Plan.squeeze0 := by
  unfold choosePlan
  split
  · simp
  · split
    · simp
    · split
      · simp
      · split
        · simp
        · split
          · simp
          · split
            · rename_i h3 _ _ h6
              omega
            · simp

/-- the joint's sample shape is at least as long as every reported shape -/
theorem claimed_le_joint (comps : List (Component α)) (c : Component α) (hc : c ∈ comps) :
    c.claimed.length ≤ (jointSampleShape comps).length := by
  unfold jointSampleShape containerSampleShape
  have hne : (comps.map (·.claimed)).isEmpty = false := by
    cases comps with
    | nil => simp at hc
    | cons a l => rfl
  have := longest_length_max (comps.map (·.claimed)) c.claimed (List.mem_map.mpr ⟨c, hc, rfl⟩)
  simp [hne]
  exact this

/-- **the finite description of what can mix**: for a value `J' ++ E` (its true sample axes `J'`)
reduced alone — i.e. when nothing next to it forces the right shape — an output entry adds up
different samples (`cut < |J'|`) exactly in these shape coincidences: the reported shape differs
from the value's shape, there is a sample axis, and either the reported shape is shorter than the
true one (flatten-and-sum starts inside the sample axes) or the value has no event axis and the
reported shape is at least as long (the last sample axis is summed as if it were the event axis). -/
theorem mixes_iff (J' E C : Shape) :
    cut (J' ++ E) C < J'.length ↔
      (J' ++ E ≠ C ∧ J' ≠ [] ∧ (C.length < J'.length ∨ (E = [] ∧ J'.length ≤ C.length))) := by
  unfold cut
  by_cases a : J' ++ E = C
  · simp [a]
    subst a
    simp
  · by_cases b : J' ++ E = []
    · have : J' = [] := (List.append_eq_nil_iff.mp b).1
      simp [a, b, this]
    · by_cases c : (J' ++ E).length > C.length
      · simp only [a, b, c, if_true, if_false]
        constructor
        · intro h
          refine ⟨by simpa using a, ?_, Or.inl h⟩
          intro hn; subst hn; simp at h
        · rintro ⟨_, _, h | ⟨hE, h⟩⟩
          · exact h
          · subst hE; simp at c; omega
      · simp only [a, b, c, if_false]
        have hlen : (J' ++ E).length = J'.length + E.length := by simp
        constructor
        · intro h
          have hE : E = [] := List.eq_nil_of_length_eq_zero (by omega)
          refine ⟨by simpa using a, ?_, Or.inr ⟨hE, ?_⟩⟩
          · intro hn; subst hn; subst hE; simp at b
          · subst hE; simp at c; exact c
        · rintro ⟨_, hJ, h | ⟨hE, h⟩⟩
          · omega
          · subst hE
            have : J'.length ≠ 0 := fun h0 => hJ (List.eq_nil_of_length_eq_zero h0)
            simp; omega

/-- `classify` (what the driver reports to the harness for every enumerated triple) says `mixes`
exactly when `cut` falls inside the sample axes -/
theorem classify_mixes_iff (L C J : Shape) (n : Nat)
    (h1 : choosePlan L C J ≠ Plan.expand) (h2 : choosePlan L C J ≠ Plan.squeeze0) :
    classify L C J n = Verdict.mixes ↔ cut L C < n := by
  unfold classify
  split
  · exact absurd (by assumption) h1
  · exact absurd (by assumption) h2
  · by_cases a : cut L C = n
    · simp [a]
    · by_cases b : cut L C < n
      · simp [a, b]
      · simp [a, b]

/-- a mixing witness on the model (the GMRF-precision situation found on the implementation: the
value carries two samples, the component reports no sample axis): the joint returns ONE number,
the sum over both samples -/
example :
    let c : Component Nat := ⟨⟨[2, 1], fun i => 5 + i.getD 0 0⟩, []⟩
    (match joint [c] with
      | .ok out => (out.shape, out.get [])
      | .error _ => ([7], 0)) = ([], 11) ∧ classify [2, 1] [] [] 1 = Verdict.mixes := by
  decide

end TTProps.C10
