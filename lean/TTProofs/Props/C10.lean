/-! C10 property theorems — stub (not built yet). -/
namespace TTProps.C10
end TTProps.C10
