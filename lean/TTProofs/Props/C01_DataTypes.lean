import TTModel.C01_Patterns
import TTProofs.Lemmas.C01_Codon
import TTProofs.Lemmas.C01_Main
import TTProofs.Lemmas.C01_Tables
import Mathlib.Data.List.Count
import Mathlib.Tactic.Ring
import Mathlib.Tactic.NormNum
/-!
# C01 — codon and general data types, column selection, site → pattern map

Companion of `Props/C01.lean` (same model, `TTModel/C01_Patterns.lean`): tip vectors of `CodonDataType` for EVERY
genetic code shipped (tables GENERATED from `datatype.py`), of `GeneralDataType` (user-supplied codes and ambiguity
map: genuine `∀` theorems), `SitePattern.indices`, and the inverse of `compress`.
-/
namespace TTProps.C01_DataTypes
open TT TT.C01 TTGen.C01

/-! ## CodonDataType -/

/-- **Every genetic code shipped** (`k` = its position in `GENETIC_CODE_NAMES`): the encodings `i − stop_count[i]` of
    the sense triplets, in triplet order, are exactly `0, 1, …, state_count − 1` — a bijection sense codon ↔ state
    index with the stop codons excluded — and `state_count = 64 − #stops = NUMBER_OF_CODONS[k]`. -/
theorem codon_table (k : Nat) (t : List Nat) (n : Nat)
    (ht : geneticCodes[k]? = some t) (hn : numberOfCodons[k]? = some n) :
    (((List.range 64).filter fun i => !isStop t i).map fun i => i - stopCount t i)
        = List.range (codonStateCount t) ∧
    codonStateCount t = 64 - stops t ∧ codonStateCount t = n := by
  have hmem : (t, n) ∈ geneticCodes.zip numberOfCodons := by
    refine List.mem_iff_getElem?.mpr ⟨k, ?_⟩
    rw [List.getElem?_zip_eq_some]
    exact ⟨ht, hn⟩
  have h := (List.all_eq_true.mp codon_codes_ok) (t, n) hmem
  simp only [codeOK, Bool.and_eq_true, beq_iff_eq] at h
  exact ⟨h.1.1, h.1.2, h.2⟩

/-- the triplet list is AAA, AAC, …, TTT, and the encoding of sense triplet number `i` is `i − stop_count[i]` -/
theorem codon_sense_encoding (t : List Nat) (i : Nat) (hi : i < 64) :
    codonEncoding t (codonTriplets.getD i []) = some (i - stopCount t i) := by
  have h := congrArg (fun l => l[i]?) codon_triplets_order
  simp only [List.getElem?_map, List.getElem?_take, hi, if_true] at h
  have h64 : i < codonTriplets.length := by
    rw [codon_tables_shape.2.2.2.2]; omega
  rw [List.getElem?_eq_getElem h64, List.getElem?_range hi] at h
  simp only [Option.map_some, Option.some.injEq] at h
  unfold codonEncoding
  rw [List.getD_eq_getElem?_getD, List.getElem?_eq_getElem h64, Option.getD_some, h]

/-- **tip vectors of sense codons**, every shipped code: the indicator vector (length `64 − #stops`) of the number of
    sense triplets preceding it; the tip state is that number -/
theorem codon_partial_sense (k : Nat) (t : List Nat) (ht : geneticCodes[k]? = some t) (i : Nat) (hi : i < 64)
    (hs : isStop t i = false) :
    codonPartial t (codonTriplets.getD i []) = some (oneHot (64 - stops t) (senseRank t i)) ∧
    codonTipState t (codonTriplets.getD i []) = some (senseRank t i) := by
  have hmem : t ∈ geneticCodes := List.mem_iff_getElem?.mpr ⟨k, ht⟩
  have h := (List.all_eq_true.mp ((List.all_eq_true.mp codon_partial_ok) t hmem)) i (List.mem_range.mpr hi)
  simp only [hs, Bool.false_or, Bool.and_eq_true, beq_iff_eq] at h
  exact h

/-- **ambiguous / gap triplets are missing data**: if one of the three letters is not a plain base (A, C, G, T, U in
    either case) the tip vector is all ones and the tip state is the missing state `state_count`, for any table -/
theorem codon_missing (t : List Nat) (o1 o2 o3 : Nat) (h1 : o1 < 128) (h2 : o2 < 128) (h3 : o3 < 128)
    (hnp : ¬ (plainState o1 < 4 ∧ plainState o2 < 4 ∧ plainState o3 < 4)) :
    codonPartial t [o1, o2, o3] = some (List.replicate (codonStateCount t) 1) ∧
    codonTipState t [o1, o2, o3] = some (codonStateCount t) := by
  obtain ⟨n1, e1⟩ := Option.isSome_iff_exists.mp (nucEncodingCode_isSome o1 h1)
  obtain ⟨n2, e2⟩ := Option.isSome_iff_exists.mp (nucEncodingCode_isSome o2 h2)
  obtain ⟨n3, e3⟩ := Option.isSome_iff_exists.mp (nucEncodingCode_isSome o3 h3)
  have p1 := plain_iff o1 h1
  have p2 := plain_iff o2 h2
  have p3 := plain_iff o3 h3
  rw [e1] at p1; rw [e2] at p2; rw [e3] at p3
  simp only [Option.getD_some] at p1 p2 p3
  have hn : ¬ (n1 ≤ 3 ∧ n2 ≤ 3 ∧ n3 ≤ 3) := by
    rw [p1, p2, p3]; exact hnp
  have henc : codonEncoding t [o1, o2, o3] = some 65 := by
    simp only [codonEncoding, tripletIndex, e1, e2, e3, hn, if_false]
  have hle := codonStateCount_le t
  constructor
  · simp only [codonPartial, henc, if_true]
  · simp only [codonTipState, henc, Option.map_some]
    congr 1
    omega

/-- **the Universal code is the standard genetic code**, and each of the other shipped codes is the NCBI translation
    table of its name (all but "No stops", which has no NCBI counterpart): entry by entry against the tables written
    in NCBI's own T,C,A,G presentation in `Lemmas/C01_Codon.lean` -/
theorem codon_tables_standard :
    ((geneticCodes.take 14).zip ncbiOf).all (fun p =>
      match ncbiTables.find? (fun q => q.1 == p.2) with
      | some q => (List.range 64).all fun i => p.1.getD i 0 == q.2.getD (ncbiIndex i) 1
      | none => false) = true := codon_tables_ncbi

example : (geneticCodes[0]?).map (fun t => (codonStateCount t, stops t, t.getD 48 0 /- TAA -/, t.getD 14 0 /- ATG -/))
    = some (61, 3, 42, 77) := by decide

/-- what the code does with a STOP codon in the data (outside the model's state space): `TAA` under the Universal
    code gets the state of the preceding sense codon `GTT` (47) — recorded, not claimed correct -/
example : (geneticCodes[0]?).bind (fun t => codonTipState t [84, 65, 65]) = some 47 ∧
    (geneticCodes[0]?).bind (fun t => codonTipState t [71, 84, 84]) = some 47 := by decide

/-! ## GeneralDataType -/

/-- a base code that is not also an ambiguity key: tip vector = its indicator, encoding = its position -/
theorem general_code (codes : List Sym) (ambs : List (Sym × List Sym)) (s : Sym)
    (hs : s ∈ codes) (hk : ambs.find? (fun a => a.1 == s) = none) :
    generalPartial codes ambs s = some (oneHot codes.length (codes.idxOf s)) ∧
    generalEncoding codes ambs s = codes.idxOf s := by
  constructor
  · simp only [generalPartial, generalCodes, hk, codeIndex, hs, if_true, Option.map_some, oneHot]
    congr 1
    refine List.map_congr_left fun j _ => ?_
    simp
  · simp [generalEncoding, hk, codeIndex, hs]

/-- an ambiguity key listing base codes: tip vector = indicator of the UNION of the listed codes
    (`codes` pairwise distinct) -/
theorem general_ambiguity (codes : List Sym) (ambs : List (Sym × List Sym)) (k : Sym) (vs : List Sym)
    (hnd : codes.Nodup) (hk : ambs.find? (fun a => a.1 == k) = some (k, vs)) (hv : ∀ v ∈ vs, v ∈ codes) :
    generalPartial codes ambs k
      = some ((List.range codes.length).map fun j => if codes.getD j [] ∈ vs then 1 else 0) := by
  have hm : vs.mapM (codeIndex codes) = some (vs.map (codes.idxOf ·)) := by
    clear hk
    induction vs with
    | nil => rfl
    | cons v vs ih =>
      have h1 : codeIndex codes v = some (codes.idxOf v) := by simp [codeIndex, hv v (by simp)]
      rw [List.mapM_cons, h1, ih (fun x hx => hv x (by simp [hx]))]
      rfl
  simp only [generalPartial, generalCodes, hk, hm]
  congr 1
  refine List.map_congr_left fun j hj => ?_
  have hj' : j < codes.length := List.mem_range.mp hj
  have : (j ∈ vs.map (codes.idxOf ·)) ↔ codes.getD j [] ∈ vs := by
    rw [List.getD_eq_getElem?_getD, List.getElem?_eq_getElem hj', Option.getD_some]
    constructor
    · intro h
      obtain ⟨v, hvm, e⟩ := List.mem_map.mp h
      have hvc := hv v hvm
      have : codes[j] = v := by
        have h2 := List.getElem_idxOf (xs := codes) (x := v) (List.idxOf_lt_length_iff.mpr hvc)
        simp only [e] at h2
        exact h2
      rw [this]; exact hvm
    · intro h
      refine List.mem_map.mpr ⟨codes[j], h, ?_⟩
      exact hnd.idxOf_getElem j hj'
  simp only [this]

/-- a symbol that is neither a code nor an ambiguity key is missing data: all ones, encoding `state_count` -/
theorem general_unknown (codes : List Sym) (ambs : List (Sym × List Sym)) (s : Sym)
    (hs : s ∉ codes) (hk : ambs.find? (fun a => a.1 == s) = none) :
    generalPartial codes ambs s = some (List.replicate codes.length 1) ∧
    generalEncoding codes ambs s = codes.length := by
  constructor
  · simp [generalPartial, generalCodes, hk, codeIndex, hs]
  · simp [generalEncoding, hk, codeIndex, hs]

/-- an alias (`{'U': 'T'}`) keeps the state of its target; a proper ambiguity (two or more codes) that is not itself
    a code has the missing state -/
theorem general_alias_encoding (codes : List Sym) (ambs : List (Sym × List Sym)) (k t : Sym)
    (hk : ambs.find? (fun a => a.1 == k) = some (k, [t])) (ht : t ∈ codes) :
    generalEncoding codes ambs k = codes.idxOf t := by
  simp [generalEncoding, hk, codeIndex, ht]

theorem general_multi_encoding (codes : List Sym) (ambs : List (Sym × List Sym)) (k : Sym) (v1 v2 : Sym) (vs : List Sym)
    (hk : ambs.find? (fun a => a.1 == k) = some (k, v1 :: v2 :: vs)) (hkc : k ∉ codes) :
    generalEncoding codes ambs k = codes.length := by
  simp [generalEncoding, hk, codeIndex, hkc]

example : generalPartial [['0'], ['1'], ['2']] [(['K'], [['0'], ['2']]), (['U'], [['1']])] ['K'] = some [1, 0, 1] ∧
    generalEncoding [['0'], ['1'], ['2']] [(['K'], [['0'], ['2']]), (['U'], [['1']])] ['U'] = 1 ∧
    generalPartial [['0'], ['1'], ['2']] [(['K'], [['0'], ['2']])] ['?'] = some [1, 1, 1] := by decide

/-! ## `compress` inverse: every site belongs to the pattern equal to its column -/

/-- the total weight of the patterns equal to `x` is the number of sites whose column is `x` -/
theorem compress_count {C : Type} [DecidableEq C] [LT C] [DecidableLT C] (cols : List C) (x : C) :
    (((compress cols).filter fun pw => pw.1 = x).map (·.2)).sum = cols.count x := by
  have h2 : ∀ l : List C, (l.map fun c => if c = x then 1 else 0).sum = l.count x := by
    intro l
    induction l with
    | nil => rfl
    | cons c cs ih =>
      by_cases e : c = x
      · subst e
        simp only [List.map_cons, List.sum_cons, if_true, List.count_cons_self, ih]
        omega
      · have e' : (c == x) = false := by simpa using e
        simp only [List.map_cons, List.sum_cons, e, if_false, List.count_cons, e', ih]
        simp
  have h := TT.C01.compress_sum (M := Nat) (fun c => if c = x then 1 else 0) cols
  rw [← h2 cols, ← h]
  generalize compress cols = l
  induction l with
  | nil => rfl
  | cons p ps ih =>
    by_cases e : p.1 = x
    · simp [e, ih]
    · simp [e, ih]

/-- **site → pattern**: for every site `j` the model's `patternOf` returns a position in the pattern list whose key
    IS the column of site `j` -/
theorem site_pattern_map {C : Type} [DecidableEq C] [LT C] [DecidableLT C] (cols : List C) (j : Nat)
    (hj : j < cols.length) :
    ∃ p, patternOf cols j = some p ∧ ((compress cols).map (·.1))[p]? = some cols[j] := by
  refine ⟨((compress cols).map (·.1)).idxOf cols[j], ?_, ?_⟩
  · simp [patternOf, List.getElem?_eq_getElem hj]
  · have hm : cols[j] ∈ (compress cols).map (·.1) := (TT.C01.mem_compress_keys _ _).mpr (List.getElem_mem hj)
    have hlt := List.idxOf_lt_length_iff.mpr hm
    rw [List.getElem?_eq_getElem hlt, List.getElem_idxOf]

example : patternOf [[3], [1], [3], [2]] 2 = some 2 ∧ compress [[3], [1], [3], [2]] = [([1], 1), ([2], 1), ([3], 2)] := by
  decide

/-! ## `SitePattern.indices` -/

/-- selecting everything (`":"`) changes nothing -/
theorem select_all {β : Type} (s : List β) : selectCols [Idx.slice none none none] s = some s := by
  have hps : pySlice s.length none none none = some (List.range s.length) := by
    have h10 : ¬ ((1 : Int) < 0) := by decide
    have h01 : (1 : Int) ≠ 0 := by decide
    have hp : (1 : Int) > 0 := by decide
    simp only [pySlice, Option.getD_none, h10, h01, hp, if_false, if_true]
    have hc : (if (0 : Int) < (s.length : Int) then (((s.length : Int) - 0 - 1) / 1 + 1).toNat else 0) = s.length := by
      by_cases h : s.length = 0
      · rw [h]; simp
      · have : (0 : Int) < s.length := by exact_mod_cast Nat.pos_of_ne_zero h
        simp only [this, if_true]
        have : ((s.length : Int) - 0 - 1) / 1 + 1 = s.length := by
          rw [Int.ediv_one]; ring
        rw [this]; simp
    rw [hc]
    congr 1
    apply List.ext_getElem
    · simp
    · intro i h1 h2
      simp
  simp only [selectCols, List.mapM_cons, List.mapM_nil, hps, Option.map_some]
  have : (List.range s.length).filterMap (fun j => s[j]?) = s := by
    apply List.ext_getElem?
    intro i
    by_cases hi : i < s.length
    · have : ((List.range s.length).filterMap fun j => s[j]?) = (List.range s.length).map fun j => s.getD j (s[i]'hi) := by
        rw [← List.filterMap_eq_map]
        refine List.filterMap_congr fun j hj => ?_
        have hj' := List.mem_range.mp hj
        simp [List.getElem?_eq_getElem hj', List.getD_eq_getElem?_getD]
      rw [this]
      simp [List.getElem?_map, List.getElem?_range hi, List.getElem?_eq_getElem hi, List.getD_eq_getElem?_getD]
    · have h1 : s[i]? = none := List.getElem?_eq_none (by omega)
      rw [h1]
      refine List.getElem?_eq_none ?_
      refine Nat.le_trans (List.length_filterMap_le _ _) ?_
      simp; omega
  simp [this]

/-- the slices the harness draws follow Python: `s[1:4]`, `s[::-2]`, `s[-2]` on a string of length 6 -/
example : pySlice 6 (some 1) (some 4) none = some [1, 2, 3] ∧ pySlice 6 none none (some (-2)) = some [5, 3, 1] ∧
    pyIndex 6 (-2) = some 4 ∧ pySlice 6 (some (-9)) (some 99) (some 3) = some [0, 3] ∧
    pySlice 6 none none (some 0) = none ∧ pyIndex 6 6 = none := by decide

end TTProps.C01_DataTypes
