import TTProofs.Props.C03
import TTProofs.Lemmas.C03_Batch
import TTProofs.Lemmas.C03_Example
/-!
# C03, batched evaluation: one flag for all samples, every sample still gets its own plain value

Model: `TTModel/C03_Batch.lean` (`evalBatchPartials`, `peelSafeB`, `runBatch`).  What the flag
automaton does for a batch:

* `evalBatch_flag`: branch and flag of a batched evaluation are `flagStep false rescale s` where `s`
  is the switch test over ALL samples — one branch for the whole batch, one flag for the object;
* `batch_switch_for_all`: if any sample makes the test fire, EVERY sample (also those far from
  underflow) is recomputed by the safe pass and the flag is set;
* `sticky_batch`: from then on every sample of every later batch takes the rescaled branch;
* `evalBatch_value`, `history_consistent_batch`: in all cases every sample's returned value is the
  plain log-likelihood of that sample's inputs — although inside the batched safe pass a node of
  sample `b` may be rescaled only because ANOTHER sample is below the threshold there
  (`safeB_sample`: seen from one sample the pass is a safe pass with outside decisions).
-/
open TT TT.C03

namespace TTProps.C03

variable {N K S B : Nat}

/-- **safe pass inside a batch = plain, per sample**: decisions shared with the other samples,
  positivity assumed on the plain partials of this sample only -/
theorem logLik_safeB_eq_plain (T : Nat) (thr : ℝ) (M : Fin B → Mats ℝ K S) (freqs : Fin S → ℝ)
    (props : Fin K → ℝ) (w : Fin N → ℝ) (st : Fin B → Store ℝ N K S) (ts : List Triple)
    (hwf : wf T ts = true) (b : Fin B)
    (hpl : ∀ t ∈ ts, ∀ n, ∃ k s, 0 < ((peel 0 noTips (M b) (st b) ts).get t.1).get n k s)
    (hlik : ∀ n, 0 < siteLik freqs props ((peel 0 noTips (M b) (st b) ts).get (rootOf ts)) n) :
    logLikScaled freqs props w
        (((peelSafeB thr M (fun b => peel 0 noTips (M b) (st b) ts) ts).st b).get (rootOf ts))
        ((peelSafeB thr M (fun b => peel 0 noTips (M b) (st b) ts) ts).scalers b)
      = logLikPlain freqs props w ((peel 0 noTips (M b) (st b) ts).get (rootOf ts)) := by
  obtain ⟨ds, hlen, hproj⟩ := safeB_sample thr M ts
    (⟨fun b => peel 0 noTips (M b) (st b) ts, fun _ => false, fun _ => []⟩ : BState ℝ N K S B)
  have hb := hproj b
  set Pf := peel 0 noTips (M b) (st b) ts with hPf
  have hst : (peelSafeB thr M (fun b => peel 0 noTips (M b) (st b) ts) ts).st b =
      (peelSafeDec (fun _ n p => maxKS p n) (M b) ⟨Pf, fun _ => false, []⟩ (ts.zip ds)).st :=
    congrArg SState.st hb
  have hsc : (peelSafeB thr M (fun b => peel 0 noTips (M b) (st b) ts) ts).scalers b =
      (peelSafeDec (fun _ n p => maxKS p n) (M b) ⟨Pf, fun _ => false, []⟩ (ts.zip ds)).scalers :=
    congrArg SState.scalers hb
  rw [hst, hsc]
  have hcons : Consistent Pf (M b) ts :=
    peel_consistent (T := T) (M b) ts (st b) [] [] _ (fun _ h => by simp at h) (wf_unpack hwf)
  have hmap : (ts.zip ds).map (·.1) = ts := by rw [List.map_fst_zip]; omega
  have hpos : ∀ sc ∈ (peelSafeDec (fun _ n p => maxKS p n) (M b) ⟨Pf, fun _ => false, []⟩ (ts.zip ds)).scalers,
      ∀ n : Fin N, 0 < sc[n] :=
    safeDec_scalers_pos_aux (M b) Pf (ts.zip ds) ⟨Pf, fun _ => false, []⟩ (fun _ _ => 1)
      (by rw [hmap]; exact hcons) (invA_refl Pf) (fun _ _ => one_pos) (by rw [hmap]; exact hpl)
      (fun _ h => by simp at h)
  unfold logLikScaled logLikPlain
  congr 1
  funext n
  have hmul := siteLik_safeDec_mul (T := T) (fun _ n p => maxKS p n) (M b) freqs props Pf ts ds hlen hwf hcons
    (fun sc h n => (hpos sc h n).ne') n
  set ss := peelSafeDec (fun _ n p => maxKS p n) (M b) ⟨Pf, fun _ => false, []⟩ (ts.zip ds) with hss
  have hne : ∀ x ∈ ss.scalers.map (fun sc => sc[n]), x ≠ 0 := by
    intro x hx
    obtain ⟨sc, hsc, rfl⟩ := List.mem_map.mp hx
    exact (hpos sc hsc n).ne'
  have hprodpos : (0 : ℝ) < (ss.scalers.map fun sc => sc[n]).prod := by
    apply List.prod_pos
    intro x hx
    obtain ⟨sc, hsc, rfl⟩ := List.mem_map.mp hx
    exact hpos sc hsc n
  have hq : siteLik freqs props (ss.st.get (rootOf ts)) n ≠ 0 := by
    intro h0
    have := hlik n
    rw [hmul, h0, mul_zero] at this
    exact lt_irrefl _ this
  rw [hmul]
  simp only [trans_log_real, logScalers]
  rw [Real.log_mul hprodpos.ne' hq, Real.log_list_prod hne, List.map_map]
  congr 1
  rw [add_comm]
  rfl

/-- **one flag, one branch for the whole batch** -/
theorem evalBatch_flag (switchB : (Fin B → ℝ) → (Fin B → Part ℝ N K S) → Bool) (thr : ℝ)
    (w : Fin N → ℝ) (ts : List Triple) (rescale : Bool) (st : Fin B → Store ℝ N K S)
    (inp : Fin B → Inputs ℝ K S) :
    ((evalBatchPartials switchB thr w ts rescale st inp).2.1,
      (evalBatchPartials switchB thr w ts rescale st inp).2.2.1) =
      flagStep false rescale
        (switchB (fun b => logLikPlain (inp b).freqs (inp b).props w
            ((peel 0 noTips (inp b).mats (st b) ts).get (rootOf ts)))
          (fun b => (peel 0 noTips (inp b).mats (st b) ts).get (rootOf ts))) := by
  unfold evalBatchPartials flagStep
  cases rescale
  · simp only [Bool.false_eq_true, if_false]
    split <;> simp_all
  · simp

/-- **the switch of one sample is the switch of all**: flag clear and the test over the batch fires
  (because of ANY sample) ⇒ the whole batch is recomputed by the safe pass and the flag is set -/
theorem batch_switch_for_all (switchB : (Fin B → ℝ) → (Fin B → Part ℝ N K S) → Bool) (thr : ℝ)
    (w : Fin N → ℝ) (ts : List Triple) (st : Fin B → Store ℝ N K S) (inp : Fin B → Inputs ℝ K S)
    (h : switchB (fun b => logLikPlain (inp b).freqs (inp b).props w
            ((peel 0 noTips (inp b).mats (st b) ts).get (rootOf ts)))
          (fun b => (peel 0 noTips (inp b).mats (st b) ts).get (rootOf ts)) = true) :
    (evalBatchPartials switchB thr w ts false st inp).2.1 = Branch.plainThenSafe ∧
    (evalBatchPartials switchB thr w ts false st inp).2.2.1 = true := by
  have hf := evalBatch_flag switchB thr w ts false st inp
  rw [h] at hf
  exact ⟨(Prod.ext_iff.mp hf).1, (Prod.ext_iff.mp hf).2⟩

/-- **every sample gets its own plain value**, whichever branch the batch takes -/
theorem evalBatch_value (T : Nat) (switchB : (Fin B → ℝ) → (Fin B → Part ℝ N K S) → Bool) (thr : ℝ)
    (w : Fin N → ℝ) (ts : List Triple) (rescale : Bool) (st : Fin B → Store ℝ N K S)
    (inp : Fin B → Inputs ℝ K S) (hwf : wf T ts = true) (b : Fin B)
    (hpl : ∀ t ∈ ts, ∀ n, ∃ k s, 0 < ((peel 0 noTips (inp b).mats (st b) ts).get t.1).get n k s)
    (hlik : ∀ n, 0 < siteLik (inp b).freqs (inp b).props
      ((peel 0 noTips (inp b).mats (st b) ts).get (rootOf ts)) n) :
    (evalBatchPartials switchB thr w ts rescale st inp).1 b =
      logLikPlain (inp b).freqs (inp b).props w ((peel 0 noTips (inp b).mats (st b) ts).get (rootOf ts)) := by
  unfold evalBatchPartials
  cases rescale
  · simp only [Bool.false_eq_true, if_false]
    split
    · exact logLik_safeB_eq_plain T thr (fun b => (inp b).mats) (inp b).freqs (inp b).props w st ts hwf b hpl hlik
    · rfl
  · simp only [if_true]
    exact logLik_rescaled_eq_plain T 0 (Nat.zero_le T) _ noTips (inp b).mats (inp b).freqs (inp b).props w
      (st b) ts hwf (peelRescaled_scalers_pos (T := T) 0 noTips (inp b).mats (st b) ts hwf hpl) hlik

/-- a batched evaluation never touches the tip slots of any sample -/
theorem evalBatch_tips (T : Nat) (switchB : (Fin B → ℝ) → (Fin B → Part ℝ N K S) → Bool) (thr : ℝ)
    (w : Fin N → ℝ) (ts : List Triple) (rescale : Bool) (st : Fin B → Store ℝ N K S)
    (inp : Fin B → Inputs ℝ K S) (hwf : wf T ts = true) (b : Fin B) :
    TipsAgree T ((evalBatchPartials switchB thr w ts rescale st inp).2.2.2 b) (st b) := by
  intro i hi
  have hp : (peel 0 noTips (inp b).mats (st b) ts).get i = (st b).get i :=
    peel_get_keep (T := T) 0 noTips (inp b).mats ts (st b) [] [] _ (wf_unpack hwf) i (Or.inl hi)
  unfold evalBatchPartials
  cases rescale
  · simp only [Bool.false_eq_true, if_false]
    split
    · obtain ⟨ds, hlen, hproj⟩ := safeB_sample thr (fun b => (inp b).mats) ts
        (⟨fun b => peel 0 noTips (inp b).mats (st b) ts, fun _ => false, fun _ => []⟩ : BState ℝ N K S B)
      have hst := congrArg SState.st (hproj b)
      show ((peelSafeB thr (fun b => (inp b).mats) (fun b => peel 0 noTips (inp b).mats (st b) ts) ts).st b).get i = _
      have hmap : (ts.zip ds).map (·.1) = ts := by rw [List.map_fst_zip]; omega
      have hk := safeDec_get_keep (T := T) (fun _ n p => maxKS p n) (inp b).mats (ts.zip ds)
        ⟨peel 0 noTips (inp b).mats (st b) ts, fun _ => false, []⟩ [] [] _
        (by rw [hmap]; exact wf_unpack hwf) i hi
      have : (peelSafeB thr (fun b => (inp b).mats) (fun b => peel 0 noTips (inp b).mats (st b) ts) ts).st b =
          (peelSafeDec (fun _ n p => maxKS p n) (inp b).mats
            ⟨peel 0 noTips (inp b).mats (st b) ts, fun _ => false, []⟩ (ts.zip ds)).st := hst
      rw [this]
      unfold peelSafeDec
      rw [hk]
      exact hp
    · exact hp
  · simp only [if_true]
    exact resc_get_keep (T := T) _ 0 noTips (inp b).mats ts ⟨st b, []⟩ [] [] _ (wf_unpack hwf) i hi

/-- **history of batched evaluations**: any sequence of parameter updates, any switch tests over
  the batch (so any pattern of which samples underflow when), any start state: the value returned
  for sample `b` in evaluation `i` is the plain log-likelihood of that sample's inputs -/
theorem history_consistent_batch (T : Nat) (thr : ℝ) (w : Fin N → ℝ) (ts : List Triple)
    (st0 : Fin B → Store ℝ N K S) (hwf : wf T ts = true) :
    ∀ (hist : List ((Fin B → Inputs ℝ K S) × ((Fin B → ℝ) → (Fin B → Part ℝ N K S) → Bool)))
      (rescale : Bool) (st : Fin B → Store ℝ N K S),
      (∀ b, TipsAgree T (st b) (st0 b)) →
      (∀ e ∈ hist, ∀ b, ∀ t ∈ ts, ∀ n, ∃ k s,
        0 < ((peel 0 noTips (e.1 b).mats (st0 b) ts).get t.1).get n k s) →
      (∀ e ∈ hist, ∀ b n, 0 < siteLik (e.1 b).freqs (e.1 b).props
        ((peel 0 noTips (e.1 b).mats (st0 b) ts).get (rootOf ts)) n) →
      ∀ b, (runBatch thr w ts rescale st hist).map (fun r => r.1 b) =
        hist.map fun e => logLikPlain (e.1 b).freqs (e.1 b).props w
          ((peel 0 noTips (e.1 b).mats (st0 b) ts).get (rootOf ts))
  | [], _, _, _, _, _, _ => rfl
  | e :: rest, rescale, st, hag, hP, hL, b => by
      -- plain slots written by the loop do not depend on leftovers: transfer positivity to `st`
      have hslot : ∀ b' t, t ∈ ts → (peel 0 noTips (e.1 b').mats (st b') ts).get t.1 =
          (peel 0 noTips (e.1 b').mats (st0 b') ts).get t.1 := by
        intro b' t ht
        exact peel_slot_indep (T := T) 0 noTips (e.1 b').mats ts (st b') (st0 b') hwf (hag b') (Nat.zero_le T) t ht
      have hroot : ∀ b', (peel 0 noTips (e.1 b').mats (st b') ts).get (rootOf ts) =
          (peel 0 noTips (e.1 b').mats (st0 b') ts).get (rootOf ts) := fun b' =>
        plain_root_indep T 0 (Nat.zero_le T) noTips (e.1 b').mats (st b') (st0 b') ts hwf (hag b')
      have hv : ∀ b', (evalBatchPartials e.2 thr w ts rescale st e.1).1 b' = _ := fun b' =>
        evalBatch_value T e.2 thr w ts rescale st e.1 hwf b'
          (fun t ht n => by rw [hslot b' t ht]; exact hP e (List.mem_cons_self) b' t ht n)
          (fun n => by rw [hroot b']; exact hL e (List.mem_cons_self) b' n)
      have hag' : ∀ b', TipsAgree T ((evalBatchPartials e.2 thr w ts rescale st e.1).2.2.2 b') (st0 b') :=
        fun b' i hi => (evalBatch_tips T e.2 thr w ts rescale st e.1 hwf b' i hi).trans (hag b' i hi)
      have ih := history_consistent_batch T thr w ts st0 hwf rest
        (evalBatchPartials e.2 thr w ts rescale st e.1).2.2.1 _ hag'
        (fun e' h => hP e' (List.mem_cons_of_mem _ h)) (fun e' h => hL e' (List.mem_cons_of_mem _ h)) b
      simp only [runBatch, List.map_cons, ih, hv b, hroot b]

/-- **sticky for batches**: once the flag is set, every later batch takes the rescaled branch for
  all its samples, whatever the switch tests would say -/
theorem sticky_batch (thr : ℝ) (w : Fin N → ℝ) (ts : List Triple) :
    ∀ (hist : List ((Fin B → Inputs ℝ K S) × ((Fin B → ℝ) → (Fin B → Part ℝ N K S) → Bool)))
      (st : Fin B → Store ℝ N K S),
      (runBatch thr w ts true st hist).map (·.2) = List.replicate hist.length (Branch.rescaled, true)
  | [], _ => rfl
  | e :: rest, st => by
      have hf := evalBatch_flag e.2 thr w ts true st e.1
      rw [sticky_step] at hf
      have h1 : (evalBatchPartials e.2 thr w ts true st e.1).2.1 = Branch.rescaled := (Prod.ext_iff.mp hf).1
      have h2 : (evalBatchPartials e.2 thr w ts true st e.1).2.2.1 = true := (Prod.ext_iff.mp hf).2
      simp only [runBatch, List.map_cons, List.length_cons, List.replicate_succ, h1, h2,
        sticky_batch thr w ts rest]


/-- a batch of two samples on the instance `Ex`, two parameter updates, arbitrary switch tests over
  the batch, arbitrary start flag and leftovers: every sample of every evaluation returns its plain
  value -/
example (thr : ℝ) (w : Fin 1 → ℝ) (sw1 sw2 : (Fin 2 → ℝ) → (Fin 2 → Part ℝ 1 1 2) → Bool) (flag : Bool)
    (st : Fin 2 → Store ℝ 1 1 2) (h : ∀ b, TipsAgree 3 (st b) Ex.tips) (b : Fin 2) :
    (runBatch thr w Ex.ts flag st [(fun _ => Ex.inp, sw1), (fun _ => Ex.inp, sw2)]).map (fun r => r.1 b) =
      [logLikPlain Ex.inp.freqs Ex.inp.props w ((peel 0 noTips Ex.M Ex.tips Ex.ts).get (rootOf Ex.ts)),
       logLikPlain Ex.inp.freqs Ex.inp.props w ((peel 0 noTips Ex.M Ex.tips Ex.ts).get (rootOf Ex.ts))] :=
  history_consistent_batch 3 thr w Ex.ts (fun _ => Ex.tips) Ex.wf_ts _ flag st h
    (by intro e he b
        simp only [List.mem_cons, List.not_mem_nil, or_false] at he
        rcases he with rfl | rfl <;> exact Ex.plain_pl Ex.tips (fun _ _ => rfl))
    (by intro e he b
        simp only [List.mem_cons, List.not_mem_nil, or_false] at he
        rcases he with rfl | rfl <;> exact Ex.plain_lik Ex.tips (fun _ _ => rfl))
    b

/-- the switch of the batch is an `any` over samples: here sample 1 alone asks for it -/
example (thr : ℝ) (w : Fin 1 → ℝ) (st : Fin 2 → Store ℝ 1 1 2) :
    (evalBatchPartials (fun _ _ => true) thr w Ex.ts false st (fun _ => Ex.inp)).2.1 = Branch.plainThenSafe ∧
    (evalBatchPartials (fun _ _ => true) thr w Ex.ts false st (fun _ => Ex.inp)).2.2.1 = true :=
  batch_switch_for_all _ thr w Ex.ts st _ rfl

end TTProps.C03
