import TTProofs.Props.C20
import TTProofs.Lemmas.C08_Ties
/-!
# C20 — sufficient statistics when a coalescent time lies exactly ON a grid point

`log_prob` of the skygrid reads `θ` on the LEFT of such a grid point when the tied coalescent mark is sorted before the
grid mark (the stable-sort model; `TTProps.C08.skygrid_eq_kingman_left_continuous`).  To reproduce `-log_prob` the
coalescent COUNTS must take the same side: the event is charged to the window ENDING at the grid point.

* `suffstats_reproduce_skygrid_ties`: no tie is excluded (grid points on coalescent times — root = cutoff, interior,
  several —, coalescent = sampling time): statistics and counts of the model reproduce `-log_prob`;
* `skygrid_counts_left_continuous`: the published counts are the left-continuous histogram
  `c_g = #{c_j : #{grid < c_j} = g}` (stated against every test function `ψ`);
* `right_continuous_counts_do_not_reproduce`: witness — charging the tied event to the window STARTING at the grid
  point (`bucketize(right=True)`) changes `Σ c_g log θ_g` and no longer equals `-log_prob`.
torch's `argsort` is not stable: `log_prob` itself may take either side, `sufficient_statistics` sorts the same tensor
the same way; the harness therefore compares the statistics with the SAME evaluation's `log_prob` and accepts exactly
the two assignments.
-/
namespace TTProps.C20
open TT TT.C08 TT.C20

/-- **suffstats_reproduce_skygrid_ties** — as `suffstats_reproduce_skygrid`, with every tie allowed: grid points may
coincide with coalescent times, and a coalescent time may coincide with the youngest sampling time. -/
theorem suffstats_reproduce_skygrid_ties (θ grid : List ℝ) {samp coal samp' coal' : List ℝ}
    (hs : samp'.Perm samp) (hc : coal'.Perm coal) (hlen : samp.length = coal.length + 1)
    (hyoung : ∀ c ∈ coal, ∃ s ∈ samp, s ≤ c) :
    reproduce θ (skygridSuffStats grid (samp' ++ coal')).1 (skygridSuffStats grid (samp' ++ coal')).2
      = -(skygridLogProb θ grid (samp' ++ coal')) := by
  obtain ⟨e1, l, hS, hperm, _, htie⟩ := sorted_events_tie grid hs hc hlen
  exact reproduce_of_head θ grid _ e1 l hS (head_not_coal_tie hperm htie hyoung)

-- root (3) = last grid point (cutoff), interior coalescent (2) = interior grid point
example : reproduce [1, 2, 4] (skygridSuffStats [2, 3] (([1, 0, 0] : List ℝ) ++ [3, 2])).1
      (skygridSuffStats [2, 3] (([1, 0, 0] : List ℝ) ++ [3, 2])).2
    = -(skygridLogProb [1, 2, 4] [2, 3] (([1, 0, 0] : List ℝ) ++ [3, 2])) :=
  suffstats_reproduce_skygrid_ties [1, 2, 4] [2, 3] Ex.p3 Ex.p2 rfl
    (by intro c hc; exact ⟨0, by simp, by simp at hc; rcases hc with rfl | rfl <;> norm_num⟩)

/-- **skygrid_counts_left_continuous** — against every test function `ψ` of the window number, the published counts
act as `Σ_j ψ(#{grid points strictly below c_j})`: a coalescent time on a grid point is counted in the window that ENDS
there. -/
theorem skygrid_counts_left_continuous (ψ : ℕ → ℝ) (grid : List ℝ) {samp coal samp' coal' : List ℝ}
    (hs : samp'.Perm samp) (hc : coal'.Perm coal) (hlen : samp.length = coal.length + 1)
    (hyoung : ∀ c ∈ coal, ∃ s ∈ samp, s ≤ c) :
    idxSum (fun s g => s * ψ g) 0 ((skygridSuffStats grid (samp' ++ coal')).2.map (fun c : ℕ => (c : ℝ)))
      = (coal.map (fun c => ψ (grid.countP (fun g => decide (g < c))))).sum := by
  obtain ⟨e1, l, hS, hperm, _, htie⟩ := sorted_events_tie grid hs hc hlen
  have hhead := head_not_coal_tie hperm htie hyoung
  rw [← grid_logs_tie ψ grid hs hc hlen hyoung]
  unfold skygridSuffStats
  simp only
  rw [hS]
  have hsum : ∀ g : List ℕ, ((g.sum : ℕ) : ℝ) = (g.map (fun c : ℕ => (c : ℝ))).sum := by
    intro g
    induction g with
    | nil => simp
    | cons a g ih => simp only [List.sum_cons, List.map_cons, ← ih]; push_cast; ring
  have hcast : ((splitAtMarks 0 (marks (e1 :: l)) (isMark (-1) (marks (e1 :: l)))).map List.sum).map
        (fun c : ℕ => (c : ℝ))
      = (splitAtMarks 0 (marks (e1 :: l)) ((isMark (-1) (marks (e1 :: l))).map (fun c : ℕ => (c : ℝ)))).map List.sum := by
    rw [splitAtMarks_map, List.map_map, List.map_map]
    apply List.map_congr_left
    intro g _
    simp only [Function.comp, hsum]
  rw [hcast]
  have hr := regroup ψ 0 (marks (e1 :: l)) ((isMark (-1) (marks (e1 :: l))).map (fun c : ℕ => (c : ℝ))) 0
    (by simp [isMark])
  rw [← hr]
  unfold skygridIdx cumsum
  simp only [marks, isMark, List.map_cons, cumsumFrom, List.zipWith_cons_cons, List.tail_cons, List.sum_cons,
    List.map_map]
  rw [if_neg hhead]
  simp only [Nat.cast_zero, zero_mul, zero_add]
  rw [List.zipWith_map_left, List.zipWith_map_left]
  congr 2
  funext a b
  simp only [Function.comp]
  by_cases hm : a.mark = -1 <;> simp [hm]

/-- **right_continuous_counts_do_not_reproduce** — samples 0, 0; the only coalescent event at 1 = the grid point;
`θ = (2, 8)`.  The model's statistics are `(1, 0)` with counts `(1, 0)` (left) and reproduce `-log_prob = 1/2 + log 2`;
the right-continuous counts `(0, 1)` give `1/2 + log 8`. -/
theorem right_continuous_counts_do_not_reproduce :
    skygridSuffStats [1] (([0, 0] : List ℝ) ++ [1]) = ([1, 0], [1, 0]) ∧
      -(skygridLogProb [2, 8] [1] (([0, 0] : List ℝ) ++ [1])) = 1 / 2 + Real.log 2 ∧
      reproduce [2, 8] [1, 0] [1, 0] = 1 / 2 + Real.log 2 ∧
      reproduce [2, 8] [1, 0] [0, 1] = 1 / 2 + Real.log 8 ∧
      reproduce [2, 8] [1, 0] [0, 1] ≠ -(skygridLogProb [2, 8] [1] (([0, 0] : List ℝ) ++ [1])) := by
  have h1 : skygridSuffStats [1] (([0, 0] : List ℝ) ++ [1]) = ([1, 0], [1, 0]) := by
    simp [skygridSuffStats, sortEvents, insertEv, mkEvents, taxaCount, nodeMask, marks, times, isMark, intervalTerms,
      lineages, cumsum, cumsumFrom, diffs, choose2, splitAtMarks, consHead]
    norm_num
  have h2 : -(skygridLogProb [2, 8] [1] (([0, 0] : List ℝ) ++ [1])) = 1 / 2 + Real.log 2 := by
    simp [skygridLogProb, skygridIntegral, skygridLogs, skygridIdx, sortEvents, insertEv, mkEvents, taxaCount, nodeMask,
      marks, times, isMark, lineages, cumsum, cumsumFrom, diffs, choose2, zipWith3]
    norm_num
    ring
  have h3 : reproduce [2, 8] [1, 0] [1, 0] = 1 / 2 + Real.log 2 := by
    simp [reproduce]
  have h4 : reproduce [2, 8] [1, 0] [0, 1] = 1 / 2 + Real.log 8 := by
    simp [reproduce]
  refine ⟨h1, h2, h3, h4, ?_⟩
  rw [h4, h2]
  have : Real.log 2 < Real.log 8 := Real.log_lt_log (by norm_num) (by norm_num)
  intro h
  linarith

end TTProps.C20
