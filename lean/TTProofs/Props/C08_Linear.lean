import TTProofs.Props.C08
import TTProofs.Lemmas.C08_LinMain
/-!
# C08 — `PiecewiseLinearCoalescentGrid` (as repaired by F25) equals the Kingman density of the linearly
interpolated population size

Model: `TTModel/C08_Linear.lean` (`torch.unique` with counts, the `-1` sentinel grid point moved to 0, `scatter` of
`θ` at the grid marks, `bucketize`/`clamp` interpolation at every other event, per-interval `Δt Δlog N / ΔN` or
`Δt / N`).  Spec: `linN θ grid` = interpolation through `(0,θ₀), (g₁,θ₁), …, (g_G,θ_G)`, constant beyond `g_G`.
No exclusion of ties is needed: `N` is continuous, so grid points may coincide with sampling or coalescent times.
-/
namespace TTProps.C08
open TT TT.C08 TT.C08.Ex MeasureTheory intervalIntegral

/-- **linear_eq_kingman** — every number of taxa, every order of the input blocks, every tie pattern, grid points
anywhere (before the first coalescence, on event times, beyond the root): the code's value is
`-(∫ C(k(t),2)/N(t) dt) - Σ_j log N(c_j)` for the linearly interpolated `N`. Hypotheses: one `θ > 0` per knot, grid
strictly increasing and positive, times non-negative (the code's sentinel `-1` must sort first). -/
theorem linear_eq_kingman (θ grid : List ℝ) {samp coal samp' coal' : List ℝ}
    (hs : samp'.Perm samp) (hc : coal'.Perm coal) (hlen : samp.length = coal.length + 1) (a b : ℝ)
    (ha : ∀ t ∈ samp ++ coal ++ (0 :: grid), a ≤ t) (hb : ∀ t ∈ samp ++ coal ++ (0 :: grid), t ≤ b)
    (hnn : ∀ t ∈ samp ++ coal ++ grid, 0 ≤ t)
    (hθ : θ.length = grid.length + 1) (hg : (0 :: grid).Pairwise (· < ·)) (hpos : ∀ t ∈ θ, 0 < t) :
    linearLogProb θ grid (samp' ++ coal') = kingman samp coal (linN θ grid) a b := by
  obtain ⟨l, hS, hperm, hsorted⟩ := linear_sorted_events grid hs hc hlen hnn
  have hlen' : samp'.length = coal'.length + 1 := by rw [hs.length_eq, hc.length_eq]; exact hlen
  have hP := popSizes_eq_linN θ grid hperm hsorted hθ hg
  -- membership of event times
  have hmemt : ∀ e ∈ (⟨0, 0⟩ : Ev ℝ) :: l, e.t ∈ samp ++ coal ++ (0 :: grid) := by
    intro e he
    simp only [List.mem_append, List.mem_cons]
    rcases mem_linEvs (hperm.mem_iff.mp he) with rfl | ⟨_, h⟩ | ⟨_, h⟩ | ⟨_, h⟩
    · exact Or.inr (Or.inl rfl)
    · exact Or.inl (Or.inl (hs.mem_iff.mp h))
    · exact Or.inl (Or.inr (hc.mem_iff.mp h))
    · exact Or.inr (Or.inr h)
  have hnn0 : ∀ e ∈ (⟨0, 0⟩ : Ev ℝ) :: l, (0 : ℝ) ≤ e.t := by
    intro e he
    have := hmemt e he
    simp only [List.mem_append, List.mem_cons] at this
    rcases this with (h | h) | (h | h)
    · exact hnn _ (by simp [h])
    · exact hnn _ (by simp [h])
    · rw [h]
    · exact hnn _ (by simp [h])
  -- consecutive events: non-negative, no knot strictly between
  have hcov : KnotsCovered (0 :: grid) ((⟨0, 0⟩ : Ev ℝ) :: l) := by
    intro g hg'
    refine Or.inl ⟨⟨g, 0⟩, hperm.mem_iff.mpr ?_, rfl⟩
    unfold linEvs
    rcases List.mem_cons.mp hg' with rfl | hg'
    · exact List.mem_cons_self
    · exact List.mem_cons_of_mem _ (by simp [hg'])
  have hgood : ConsecGood (LinGood grid) ((⟨0, 0⟩ : Ev ℝ) :: l) :=
    consecGood_and _ (consecGood_of_forall _ hnn0) (consecGood_of_covered _ _ hsorted hcov)
  have htotal : ((((⟨0, 0⟩ : Ev ℝ) :: l)).map (·.mark)).sum = 1 := by
    rw [(hperm.map _).sum_eq, marks_sum_linEvs, hlen']; push_cast; ring
  have hW := walk_integral_chain_window (fun k _ x => (choose2 k : ℝ) / linN θ grid x)
    (fun k _ a b => (choose2 k : ℝ) * linearPiece (b - a) (linN θ grid a) (linN θ grid b)) 2 (LinGood grid)
    (fun k _ a b hab hgd => linear_phi θ grid hθ hg hpos k a b hab hgd)
    l ⟨0, 0⟩ 0 0 hsorted hgood a b (fun e he => ha _ (hmemt e he)) (fun e he => hb _ (hmemt e he))
    (fun _ _ => by simp [choose2_zero]) (by rw [htotal]; intro _ _; simp [choose2_one])
  -- the integrand is the declarative one
  have hfun : stateFn (fun k _ x => (choose2 k : ℝ) / linN θ grid x) 2 0 0 ((⟨0, 0⟩ : Ev ℝ) :: l)
      = fun t => (choose2 (lineagesAt samp coal t) : ℝ) / linN θ grid t := by
    funext x
    unfold stateFn
    rw [kAt_perm hperm, kAt_linEvs, zero_add, lineagesAt_perm hs hc]
  rw [hfun] at hW
  -- the model's interval sum is that walk
  have hInt : linearIntegral θ grid ((⟨0, 0⟩ : Ev ℝ) :: l)
      = walk (fun k _ a b => (choose2 k : ℝ) * linearPiece (b - a) (linN θ grid a) (linN θ grid b)) 2 0 0
          ((⟨0, 0⟩ : Ev ℝ) :: l) := by
    unfold linearIntegral lineages cumsum
    rw [hP]
    simp only [marks, times, List.map_cons, cumsumFrom, List.tail_cons, tail_dropLast_cons]
    have hpw := pieces_eq_walk (linN θ grid) 2 l (0 + 0) (0 + 0)
    simp only [marks, times] at hpw
    rw [hpw]
    cases l with
    | nil => simp [walk]
    | cons e2 rest =>
      simp only [walk]
      rw [show ((0 : ℤ) + 0) = 0 from rfl, choose2_zero]
      simp
  -- the log terms
  have hLogs : linearLogs θ grid ((⟨0, 0⟩ : Ev ℝ) :: l) = (coal.map (fun c => Real.log (linN θ grid c))).sum := by
    unfold linearLogs
    rw [hP, List.zipWith_map_right, List.zipWith_self]
    simp only [trans_log_real]
    rw [(hperm.map _).sum_eq, sum_map_ite_eq_filter (fun e => e.mark = -1) (fun e => Real.log (linN θ grid e.t)),
      filter_coal_linEvs, List.map_map]
    exact ((hc.map _).sum_eq)
  unfold linearLogProb kingman
  rw [hS, hInt, hLogs, ← hW]

-- samples 0, 0, 1 (a tie), coalescent times 2, 3 supplied shuffled; knots at 0, 2 (ON a coalescent time), 5 (beyond the root)
example : linearLogProb [1, 2, 4] [2, 5] (([1, 0, 0] : List ℝ) ++ [3, 2])
    = kingman [0, 0, 1] [2, 3] (linN [1, 2, 4] [2, 5]) 0 5 :=
  linear_eq_kingman [1, 2, 4] [2, 5] p3 p2 rfl 0 5 (by simp <;> norm_num) (by simp <;> norm_num) (by simp <;> norm_num) rfl
    (by simp <;> norm_num) (by simp <;> norm_num)

/-- **linear_perm_invariant** — the value does not depend on the order in which node heights are supplied. -/
theorem linear_perm_invariant (θ grid : List ℝ) {samp coal samp' coal' : List ℝ}
    (hs : samp'.Perm samp) (hc : coal'.Perm coal) (hlen : samp.length = coal.length + 1)
    (hnn : ∀ t ∈ samp ++ coal ++ grid, 0 ≤ t)
    (hθ : θ.length = grid.length + 1) (hg : (0 :: grid).Pairwise (· < ·)) (hpos : ∀ t ∈ θ, 0 < t) :
    linearLogProb θ grid (samp' ++ coal') = linearLogProb θ grid (samp ++ coal) := by
  obtain ⟨a, b, ha, hb⟩ := exists_window (samp ++ coal ++ (0 :: grid))
  rw [linear_eq_kingman θ grid hs hc hlen a b ha hb hnn hθ hg hpos,
    linear_eq_kingman θ grid (List.Perm.refl _) (List.Perm.refl _) hlen a b ha hb hnn hθ hg hpos]

example : linearLogProb [1, 2, 4] [2, 5] (([1, 0, 0] : List ℝ) ++ [3, 2])
    = linearLogProb [1, 2, 4] [2, 5] ([0, 0, 1] ++ [2, 3]) :=
  linear_perm_invariant [1, 2, 4] [2, 5] p3 p2 rfl (by simp <;> norm_num) rfl (by simp <;> norm_num) (by simp <;> norm_num)

/-- **linear_scaling_law** — times, grid and all `θ_i` scaled by `c > 0` shift the value by `-(n-1) log c`. -/
theorem linear_scaling_law (θ grid : List ℝ) (c : ℝ) (hc : 0 < c) {samp coal : List ℝ}
    (hlen : samp.length = coal.length + 1) (hnn : ∀ t ∈ samp ++ coal ++ grid, 0 ≤ t)
    (hθ : θ.length = grid.length + 1) (hg : (0 :: grid).Pairwise (· < ·)) (hpos : ∀ t ∈ θ, 0 < t) :
    linearLogProb (θ.map (c * ·)) (grid.map (c * ·)) ((samp ++ coal).map (c * ·))
      = linearLogProb θ grid (samp ++ coal) - (coal.length : ℝ) * Real.log c := by
  obtain ⟨a, b, ha, hb⟩ := exists_window (samp ++ coal ++ (0 :: grid))
  have hsc : ∀ t ∈ samp.map (c * ·) ++ coal.map (c * ·) ++ (0 :: grid.map (c * ·)), c * a ≤ t ∧ t ≤ c * b := by
    intro t ht
    simp only [List.mem_append, List.mem_map, List.mem_cons] at ht
    rcases ht with (⟨s, hs, rfl⟩ | ⟨s, hs, rfl⟩) | (rfl | ⟨s, hs, rfl⟩)
    · exact ⟨mul_le_mul_of_nonneg_left (ha s (by simp [hs])) hc.le,
        mul_le_mul_of_nonneg_left (hb s (by simp [hs])) hc.le⟩
    · exact ⟨mul_le_mul_of_nonneg_left (ha s (by simp [hs])) hc.le,
        mul_le_mul_of_nonneg_left (hb s (by simp [hs])) hc.le⟩
    · have h0a := ha 0 (by simp)
      have h0b := hb 0 (by simp)
      exact ⟨by nlinarith, by nlinarith⟩
    · exact ⟨mul_le_mul_of_nonneg_left (ha s (by simp [hs])) hc.le,
        mul_le_mul_of_nonneg_left (hb s (by simp [hs])) hc.le⟩
  have hnn' : ∀ t ∈ samp.map (c * ·) ++ coal.map (c * ·) ++ grid.map (c * ·), 0 ≤ t := by
    intro t ht
    simp only [List.mem_append, List.mem_map] at ht
    rcases ht with (⟨s, hs, rfl⟩ | ⟨s, hs, rfl⟩) | ⟨s, hs, rfl⟩
    · exact mul_nonneg hc.le (hnn s (by simp [hs]))
    · exact mul_nonneg hc.le (hnn s (by simp [hs]))
    · exact mul_nonneg hc.le (hnn s (by simp [hs]))
  have hg' : (0 :: grid.map (c * ·)).Pairwise (· < ·) := by
    have : (0 :: grid.map (c * ·)) = (0 :: grid).map (c * ·) := by simp
    rw [this]
    exact List.pairwise_map.mpr (hg.imp (fun h => mul_lt_mul_of_pos_left h hc))
  have hpos' : ∀ t ∈ θ.map (c * ·), 0 < t := by
    intro t ht
    obtain ⟨s, hs, rfl⟩ := List.mem_map.mp ht
    exact mul_pos hc (hpos s hs)
  have hNpos : ∀ t ∈ coal, linN θ grid t ≠ 0 := by
    intro t ht
    cases θ with
    | nil => simp at hθ
    | cons y0 ys =>
      have hl : grid.length = ys.length := by simpa using hθ.symm
      have hk : KnotsSorted 0 (grid.zip ys) := by
        unfold KnotsSorted; rw [List.map_fst_zip (le_of_eq hl)]; exact hg
      exact (lin_pos _ 0 y0 t hk (hpos y0 List.mem_cons_self)
        (fun s hs => hpos s.2 (List.mem_cons_of_mem _ (List.of_mem_zip hs).2)) (hnn t (by simp [ht]))).ne'
  rw [List.map_append,
    linear_eq_kingman _ _ (List.Perm.refl _) (List.Perm.refl _) (by simpa using hlen) (c * a) (c * b)
      (fun t ht => (hsc t ht).1) (fun t ht => (hsc t ht).2) hnn' (by simpa using hθ) hg' hpos',
    linear_eq_kingman θ grid (List.Perm.refl _) (List.Perm.refl _) hlen a b ha hb hnn hθ hg hpos]
  exact kingman_scaling samp coal (linN θ grid) _ c hc (fun x => linN_scale c hc θ grid hθ hg x) hNpos a b

example : linearLogProb ([1, 2, 4].map (3 * ·)) ([2, 5].map (3 * ·)) ((([0, 0, 1] : List ℝ) ++ [2, 3]).map (3 * ·))
    = linearLogProb [1, 2, 4] [2, 5] ([0, 0, 1] ++ [2, 3]) - (2 : ℕ) * Real.log 3 :=
  linear_scaling_law [1, 2, 4] [2, 5] 3 (by norm_num) rfl (by simp <;> norm_num) rfl (by simp <;> norm_num)
    (by simp <;> norm_num)

/-- all pieces equal: the piecewise-linear model is the constant model -/
theorem linear_all_equal_is_constant (θ₀ : ℝ) (hθ₀ : 0 < θ₀) (grid : List ℝ) {samp coal : List ℝ}
    (hlen : samp.length = coal.length + 1) (hnn : ∀ t ∈ samp ++ coal ++ grid, 0 ≤ t)
    (hg : (0 :: grid).Pairwise (· < ·)) :
    linearLogProb (List.replicate (grid.length + 1) θ₀) grid (samp ++ coal) = constantLogProb θ₀ (samp ++ coal) := by
  obtain ⟨a, b, ha, hb⟩ := exists_window (samp ++ coal ++ (0 :: grid))
  have ha' : ∀ t ∈ samp ++ coal ++ [], a ≤ t := fun t ht => ha t (by simp at ht ⊢; tauto)
  have hb' : ∀ t ∈ samp ++ coal ++ [], t ≤ b := fun t ht => hb t (by simp at ht ⊢; tauto)
  rw [linear_eq_kingman _ grid (List.Perm.refl _) (List.Perm.refl _) hlen a b ha hb hnn (by simp) hg
      (by intro t ht; rw [List.eq_of_mem_replicate ht]; exact hθ₀),
    constant_eq_kingman θ₀ (List.Perm.refl _) (List.Perm.refl _) hlen a b ha' hb']
  have hN : linN (List.replicate (grid.length + 1) θ₀) grid = constN θ₀ := by
    funext t
    rw [List.replicate_succ, linN]
    unfold constN
    have : ∀ (segs : List (ℝ × ℝ)) (x0 : ℝ), (∀ s ∈ segs, s.2 = θ₀) → lin x0 θ₀ segs t = θ₀ := by
      intro segs
      induction segs with
      | nil => intro _ _; rfl
      | cons s rest ih =>
        intro x0 hs
        obtain ⟨x1, y1⟩ := s
        have hy : y1 = θ₀ := hs (x1, y1) List.mem_cons_self
        subst hy
        simp only [lin, sub_self, zero_mul, zero_div, add_zero]
        rw [ih x1 (fun s hs' => hs s (List.mem_cons_of_mem _ hs'))]
        simp
    apply this
    intro s hs
    exact List.eq_of_mem_replicate (List.of_mem_zip hs).2
  rw [hN]

end TTProps.C08
