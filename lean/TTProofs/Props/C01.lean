/-! C01 property theorems — stub (not built yet). -/
namespace TTProps.C01
end TTProps.C01
