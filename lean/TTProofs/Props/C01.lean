import TTModel.C01_Tree
import TTModel.C01_Pruning
import TTModel.C01_Patterns
import TTProofs.Lemmas.C01_Pruning
import TTProofs.Lemmas.C01_Tree
import TTProofs.Lemmas.C01_TipStates
import TTProofs.Lemmas.C01_Patterns
import TTProofs.Lemmas.C01_Main
import TTProofs.Lemmas.C01_Tables
import TTProofs.Lemmas.ScalarReal
import Mathlib.Algebra.Order.Field.Rat
/-!
# C01 — tree log-likelihood equals exact marginalisation over ancestral states

The model (`TTModel/C01_*.lean`) mirrors `setup_indexes`, `update_traversals`,
`calculate_treelikelihood_discrete`, `calculate_treelikelihood_tip_states_discrete`, `compress`
and the tip-vector tables (the latter GENERATED from `datatype.py`).  The theorems below are
about exactly those definitions; the same definitions are executed at `Rat`/`Float` by `drv_c01`
and compared with the real code by `harness/c01.py`.
-/
namespace TTProps.C01
open TT TT.C01

/-! ## pruning = sum over ALL labelings -/

/-- **Headline.** For every binary tree (at least one internal node), every number of taxa `n`
    bounding the leaf indices, all edge matrices, tip vectors, root frequencies, category weights,
    over any commutative semiring: the value the index-addressed loop of
    `calculate_treelikelihood_discrete` computes on the post-order triples produced by
    `setup_indexes`/`update_traversals` is defined (no unset slot is ever read) and equals
    `Σ_k p_k Σ_{σ : labelings of the internal nodes} π(σ root) · Π_{internal edges} P_e(σ parent, σ child)
     · Π_{tip edges} Σ_j P_e(σ parent, j)·tip(j)`, the inner sum ranging over `allLabs`. -/
theorem peel_eq_marginal {R : Type} [CommSemiring R] {K S : Nat}
    (π : Fin S → R) (props : Fin K → R) (mats : Mats R K S) (tip : Nat → Fin S → R)
    (n : Nat) (l r : BTree) (hleaves : ∀ i ∈ (BTree.node l r).leaves, i < n) :
    siteLik π props mats (postorder (setupIndexes n (.node l r))) n tip
      = some (marginal π props mats tip (setupIndexes n (.node l r))) :=
  TT.C01.peel_eq_marginal π props mats tip n l r hleaves

example : (∀ i ∈ (BTree.node (.node (.leaf 2) (.leaf 0)) (.leaf 1)).leaves, i < 3) := by decide

/-- `allLabs` lists every assignment of states to the internal nodes … -/
theorem allLabs_complete (S : Nat) (t : ITree) (lab : Lab S t) : lab ∈ allLabs S t :=
  TT.C01.allLabs_complete S t lab

/-- … exactly once … -/
theorem allLabs_nodup (S : Nat) (t : ITree) : (allLabs S t).Nodup := TT.C01.allLabs_nodup S t

/-- … so there are `S ^ (number of internal nodes)` of them. -/
theorem allLabs_length (S : Nat) (t : ITree) : (allLabs S t).length = S ^ t.internals.length :=
  TT.C01.allLabs_length S t

example : (allLabs 4 (setupIndexes 3 (.node (.node (.leaf 2) (.leaf 0)) (.leaf 1)))).length = 16 := by
  rw [allLabs_length]; rfl

/-- `setup_indexes` + `update_traversals` produce a valid schedule: the node column of the triple
    list is `n, n+1, …` (every internal index exactly once, root last, `n-1` of them when the tree
    has `n` leaves), and every triple reads only tips (`< n`) or nodes written by an earlier triple. -/
theorem postorder_wellformed (n : Nat) (T : BTree) (hleaves : ∀ i ∈ T.leaves, i < n) :
    (postorder (setupIndexes n T)).map (·.1) = List.range' n T.internalCount ∧
    Sched n [] (postorder (setupIndexes n T)) ∧
    T.leaves.length = T.internalCount + 1 ∧
    (∀ l r, T = .node l r →
      ((postorder (setupIndexes n T)).getLast?).map (·.1) = some (n + T.internalCount - 1)) := by
  refine ⟨?_, ?_, BTree.leaves_length T, ?_⟩
  · rw [postorder_fst, setupIndexes_internals]
  · exact sched_postorder n _ (setupIndexes_WF n T hleaves) []
  · intro l r e
    subst e
    have h1 : ((postorder (setupIndexes n (.node l r))).map (·.1)).getLast?
        = (List.range' n (BTree.node l r).internalCount).getLast? := by
      rw [postorder_fst, setupIndexes_internals]
    rw [List.getLast?_map] at h1
    rw [h1]
    simp [BTree.internalCount, List.getLast?_range']

example : postorder (setupIndexes 4 (.node (.node (.leaf 1) (.leaf 3)) (.node (.leaf 0) (.leaf 2))))
    = [(4, 1, 3), (5, 0, 2), (6, 4, 5)] := by decide

/-! ## tip states vs tip partials -/

/-- The tip-state loop (`calculate_treelikelihood_tip_states_discrete`: gather column `state` of
    `[P | 1]`) returns the same value as the tip-partial loop run on the indicator vector of the state,
    resp. the all-ones vector for the missing state `S`, provided every transition matrix has rows
    summing to one (supplied by C04) and the tree has exactly `n` leaves (`tip_count = len(post)+1`). -/
theorem tipStates_eq_tipPartials {R : Type} [CommSemiring R] {K S : Nat}
    (π : Fin S → R) (props : Fin K → R) (mats : Mats R K S) (tipState : Nat → Nat)
    (n : Nat) (l r : BTree) (hleaves : ∀ i ∈ (BTree.node l r).leaves, i < n)
    (hn : (BTree.node l r).leaves.length = n)
    (hrow : ∀ b k s, ∑ j, mats b k s j = 1) :
    siteLikTS π props mats (postorder (setupIndexes n (.node l r))) tipState
      = siteLik π props mats (postorder (setupIndexes n (.node l r))) n
          (fun i => stateVec (tipState i)) :=
  TT.C01.tipStates_eq_tipPartials π props mats tipState n l r hleaves hn hrow

example : ∀ (b : Nat) (k : Fin 1) (s : Fin 2), ∑ j, (fun _ _ _ _ => (1 / 2 : ℚ) : Mats ℚ 1 2) b k s j = 1 := by
  intro b k s; simp

/-! ## site patterns -/

/-- Compressing columns into (pattern, multiplicity) pairs preserves every column-wise sum:
    `Σ_{c ∈ columns} f c = Σ_{(p,w) ∈ compress columns} w • f p`, for every `f`. -/
theorem compress_sum {C : Type} [DecidableEq C] [LT C] [DecidableLT C] {M : Type} [AddCommMonoid M]
    (f : C → M) (cols : List C) :
    ((compress cols).map fun pw => pw.2 • f pw.1).sum = (cols.map f).sum :=
  TT.C01.compress_sum f cols

/-- the patterns are exactly the columns that occur -/
theorem compress_keys {C : Type} [DecidableEq C] [LT C] [DecidableLT C] (x : C) (cols : List C) :
    x ∈ (compress cols).map (·.1) ↔ x ∈ cols := mem_compress_keys x cols

example : compress [[3], [1], [3], [2], [1], [3]] = [([1], 2), ([2], 1), ([3], 3)] := by decide

/-- The reported value `Σ_p w_p · log(L_p)` over the compressed patterns equals the sum over all
    sites of `log(L_site)` (over `ℝ`; `lik` is any per-column likelihood). -/
theorem loglik_eq {C : Type} [DecidableEq C] [LT C] [DecidableLT C] (lik : C → ℝ) (cols : List C) :
    logLik ((compress cols).map fun p => lik p.1) ((compress cols).map fun p => (p.2 : ℝ))
      = (cols.map fun c => Real.log (lik c)).sum := by
  rw [← compress_sum (fun c => Real.log (lik c)) cols]
  unfold logLik
  rw [List.zipWith_map, List.zipWith_self]
  congr 1
  refine List.map_congr_left fun p _ => ?_
  simp [nsmul_eq_mul, mul_comm]

/-- **End to end on the model**: the reported log-likelihood (patterns, weights, pruning loop over the
    post-order, rate categories) equals `Σ_sites log( marginal over all labelings and categories )`. -/
theorem reported_eq_marginal {C : Type} [DecidableEq C] [LT C] [DecidableLT C] {K S : Nat}
    (π : Fin S → ℝ) (props : Fin K → ℝ) (mats : Mats ℝ K S) (tipOf : C → Nat → Fin S → ℝ)
    (n : Nat) (l r : BTree) (hleaves : ∀ i ∈ (BTree.node l r).leaves, i < n) (cols : List C) :
    logLik ((compress cols).map fun p =>
              (siteLik π props mats (postorder (setupIndexes n (.node l r))) n (tipOf p.1)).getD 0)
           ((compress cols).map fun p => (p.2 : ℝ))
      = (cols.map fun c => Real.log (marginal π props mats (tipOf c) (setupIndexes n (.node l r)))).sum := by
  rw [← loglik_eq (fun c => marginal π props mats (tipOf c) (setupIndexes n (.node l r))) cols]
  congr 1
  refine List.map_congr_left fun p _ => ?_
  rw [peel_eq_marginal π props mats (tipOf p.1) n l r hleaves]
  rfl

/-! ## tip vectors: the GENERATED tables against an independently written standard -/

/-- IUPAC nucleotide codes (NC-IUB 1985), written here independently of `datatype.py`:
    letter ↦ membership of (A, C, G, T) in the set the letter stands for -/
def iupacStd : List (Nat × List Nat) :=
  [ (65 /- A -/, [1, 0, 0, 0]), (67 /- C -/, [0, 1, 0, 0]), (71 /- G -/, [0, 0, 1, 0]),
    (84 /- T -/, [0, 0, 0, 1]), (85 /- U = T -/, [0, 0, 0, 1]),
    (82 /- R puRine A|G -/, [1, 0, 1, 0]), (89 /- Y pYrimidine C|T -/, [0, 1, 0, 1]),
    (83 /- S strong C|G -/, [0, 1, 1, 0]), (87 /- W weak A|T -/, [1, 0, 0, 1]),
    (75 /- K keto G|T -/, [0, 0, 1, 1]), (77 /- M amino A|C -/, [1, 1, 0, 0]),
    (66 /- B not A -/, [0, 1, 1, 1]), (68 /- D not C -/, [1, 0, 1, 1]),
    (72 /- H not G -/, [1, 1, 0, 1]), (86 /- V not T -/, [1, 1, 1, 0]),
    (78 /- N any -/, [1, 1, 1, 1]) ]

/-- the standard's tip vector: the union of the states a letter may stand for (either case);
    anything that is not an IUPAC letter (gap `-`, `?`, …) is missing data = all states -/
def iupacSpec (o : Nat) : List Nat :=
  match iupacStd.find? (fun p => p.1 == upperCode o) with
  | some p => p.2
  | none => [1, 1, 1, 1]

/-- every one of the 128 entries of the generated table, through `NucleotideDataType.partial`
    with ambiguities on, is the IUPAC-standard indicator vector -/
theorem iupac_table : ∀ o, o < 128 → nucPartialCode true o = some (iupacSpec o) := by decide

/-- … lifted to characters -/
theorem iupac_table_char (c : Char) (h : c.toNat < 128) : nucPartial true c = some (iupacSpec c.toNat) :=
  iupac_table c.toNat h

/-- tip states (`compress_alignment_states`): plain bases (A0 C1 G2 T3 U3, either case; `plainState`) get their
    state, everything else the missing state `4` -/
theorem tipstate_table : ∀ o, o < 128 → nucTipStateCode o = some (plainState o) := TT.C01.tipstate_table

/-- with `use_ambiguities = False` the tip vector is the indicator of the plain base, and all ones for
    every other symbol — i.e. exactly the vector `stateVec` of the tip state (this is what makes the
    tip-state and tip-partial representations agree, C02) -/
theorem noamb_table : ∀ o, o < 128 →
    nucPartialCode false o = some (List.ofFn (stateVec (α := Nat) (S := 4) (plainState o))) := TT.C01.noamb_table

example : nucPartial true 'r' = some [1, 0, 1, 0] ∧ nucPartial false 'R' = some [1, 1, 1, 1] ∧
    nucTipState '-' = some 4 := by decide

/-- amino-acid letters in state order, written independently -/
def aaOrder : List Nat :=
  [65, 67, 68, 69, 70, 71, 72, 73, 75, 76, 77, 78, 80, 81, 82, 83, 84, 86, 87, 89]
  -- A   C   D   E   F   G   H   I   K   L   M   N   P   Q   R   S   T   V   W   Y

def aaSpec (o : Nat) : List Nat :=
  let u := upperCode o
  if aaOrder.contains u then aaOrder.map fun x => if x = u then 1 else 0
  else if u = 66 /- B = D|N -/ then aaOrder.map fun x => if x = 68 ∨ x = 78 then 1 else 0
  else if u = 90 /- Z = E|Q -/ then aaOrder.map fun x => if x = 69 ∨ x = 81 then 1 else 0
  else List.replicate 20 1

/-- the generated amino-acid table: 20 states, `B = D|N`, `Z = E|Q`, everything else missing -/
theorem aa_table : ∀ o, o < 128 → aaPartialCode true o = some (aaSpec o) := by decide

/-- amino-acid tip state: the letter's position in `aaOrder` (either case), `20` = missing for everything else
    — in particular for the ambiguity codes `B`, `Z`, `X`, `J` and for `*`, `?`, `-` -/
def aaPlainState (o : Nat) : Nat :=
  let u := upperCode o
  if aaOrder.contains u then aaOrder.idxOf u else 20

/-- `compress_alignment_states` on amino acids (`clamp(encoding, max=20)`) -/
theorem aa_tipstate_table : ∀ o, o < 128 → aaTipStateCode o = some (aaPlainState o) := by decide

/-- with `use_ambiguities = False` the amino-acid tip vector is exactly `stateVec` of the tip state: `B`, `Z`, `X`, `J`
    are then MISSING in both representations (and with ambiguities on, `aa_table` gives `B = D|N`, `Z = E|Q`, `X`/`J` = all) -/
theorem aa_noamb_table : ∀ o, o < 128 →
    aaPartialCode false o = some (List.ofFn (stateVec (α := Nat) (S := 20) (aaPlainState o))) := by decide

example : aaPartialCode true 66 /- B -/ = some [0,0,1,0,0,0,0,0,0,0,0,1,0,0,0,0,0,0,0,0] ∧
    aaPartialCode false 66 = some (List.replicate 20 1) ∧ aaTipStateCode 66 = some 20 ∧
    aaPartialCode true 74 /- J -/ = some (List.replicate 20 1) ∧ aaTipStateCode 120 /- x -/ = some 20 := by decide

end TTProps.C01
