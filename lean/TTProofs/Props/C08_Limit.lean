import TTProofs.Props.C08
import Mathlib.Analysis.Calculus.Deriv.Slope
/-!
# C08 — the exponential-growth coalescent at growth rate 0

The code's formula divides by `θ·g` (its own TODO; `exponential_growth_zero_witness` in `Props/C08_Ties.lean`: over ℝ the
interval part vanishes, in float64 it is `nan`).  What a correct resolution of `g = 0` MUST return:

* `exponential_zero_growth_is_constant`: the Kingman density of the documented `N(t) = θ e^{-g t}` at `g = 0` is the value of
  the constant model, `constantLogProb θ`;
* `exponential_tendsto_constant`: the code's own formula tends to exactly that value as `g → 0`, `g ≠ 0` — so the
  constant-model value is also the continuous extension of what the code computes;
and it must return it ROW BY ROW: a decision taken once for a whole batch (`if torch.any(growth == 0)`) changes the rows
whose growth is not 0 — `harness/c08.py: batched_special` checks every other row of such a batch against the oracle.
-/
namespace TTProps.C08
open TT TT.C08 TT.C08.Ex MeasureTheory intervalIntegral Filter Topology

/-- **exponential_zero_growth_is_constant** — at `g = 0` the documented population size is constant, and its Kingman
density is what `ConstantCoalescent.log_prob` returns (every order of the input, every tie pattern). -/
theorem exponential_zero_growth_is_constant (θ : ℝ) {samp coal samp' coal' : List ℝ}
    (hs : samp'.Perm samp) (hc : coal'.Perm coal) (hlen : samp.length = coal.length + 1) (a b : ℝ)
    (ha : ∀ t ∈ samp ++ coal ++ [], a ≤ t) (hb : ∀ t ∈ samp ++ coal ++ [], t ≤ b) :
    kingman samp coal (expN θ 0) a b = constantLogProb θ (samp' ++ coal') := by
  have hN : expN θ 0 = constN θ := by funext t; simp [expN, constN]
  rw [hN, constant_eq_kingman θ hs hc hlen a b ha hb]

example : kingman [0, 0, 1] [2, 3] (expN 2 0) 0 3 = constantLogProb 2 (([1, 0, 0] : List ℝ) ++ [3, 2]) :=
  exponential_zero_growth_is_constant 2 p3 p2 rfl 0 3 (by simp) (by simp <;> norm_num)

theorem tendsto_walk (F : Filter ℝ) (c : ℝ → ℤ → ℕ → ℝ → ℝ → ℝ) (c0 : ℤ → ℕ → ℝ → ℝ → ℝ) (v : Int)
    (hc : ∀ k j a b, Tendsto (fun g => c g k j a b) F (𝓝 (c0 k j a b))) :
    ∀ (l : List (Ev ℝ)) (k : ℤ) (j : ℕ), Tendsto (fun g => walk (c g) v k j l) F (𝓝 (walk c0 v k j l))
  | [], _, _ => by simpa [walk] using tendsto_const_nhds
  | [_], _, _ => by simpa [walk] using tendsto_const_nhds
  | e1 :: e2 :: rest, k, j => by
      simp only [walk]
      exact (hc _ _ _ _).add (tendsto_walk F c c0 v hc (e2 :: rest) _ _)

theorem tendsto_list_sum_map {ι : Type} (F : Filter ℝ) (f : ℝ → ι → ℝ) (f0 : ι → ℝ) :
    ∀ l : List ι, (∀ i ∈ l, Tendsto (fun g => f g i) F (𝓝 (f0 i))) →
      Tendsto (fun g => (l.map (f g)).sum) F (𝓝 (l.map f0).sum)
  | [], _ => by simpa using tendsto_const_nhds
  | i :: l, h => by
      simp only [List.map_cons, List.sum_cons]
      exact (h i List.mem_cons_self).add (tendsto_list_sum_map F f f0 l (fun j hj => h j (List.mem_cons_of_mem _ hj)))

/-- `(e^{b g} − e^{a g}) / (θ g) → (b − a)/θ` as `g → 0`, `g ≠ 0` -/
theorem tendsto_exp_piece (θ a b : ℝ) :
    Tendsto (fun g => (Real.exp (b * g) - Real.exp (a * g)) / (θ * g)) (𝓝[≠] 0) (𝓝 ((b - a) / θ)) := by
  have hd : HasDerivAt (fun g : ℝ => Real.exp (b * g) - Real.exp (a * g)) (b - a) 0 := by
    have h1 : HasDerivAt (fun g : ℝ => Real.exp (b * g)) (Real.exp (b * 0) * b) 0 :=
      (Real.hasDerivAt_exp (b * 0)).comp 0 (by simpa using (hasDerivAt_id (0 : ℝ)).const_mul b)
    have h2 : HasDerivAt (fun g : ℝ => Real.exp (a * g)) (Real.exp (a * 0) * a) 0 :=
      (Real.hasDerivAt_exp (a * 0)).comp 0 (by simpa using (hasDerivAt_id (0 : ℝ)).const_mul a)
    have h3 := h1.sub h2
    simp only [mul_zero, Real.exp_zero, one_mul] at h3
    exact h3
  have hs := hd.tendsto_slope_zero
  have hfun : (fun g => (Real.exp (b * g) - Real.exp (a * g)) / (θ * g))
      = fun g => (g⁻¹ • ((fun g : ℝ => Real.exp (b * g) - Real.exp (a * g)) (0 + g)
          - (fun g : ℝ => Real.exp (b * g) - Real.exp (a * g)) 0)) / θ := by
    funext g
    simp only [zero_add, mul_zero, Real.exp_zero, sub_self, sub_zero, smul_eq_mul]
    rw [div_mul_eq_div_div_swap, div_eq_inv_mul]
    ring
  rw [hfun]
  exact hs.div_const θ

/-- **exponential_tendsto_constant** — the value the code computes for `g ≠ 0` tends, as `g → 0`, to the constant model's
value: the only continuous resolution of the `growth == 0` TODO. -/
theorem exponential_tendsto_constant (θ : ℝ) (hθ : θ ≠ 0) {samp coal samp' coal' : List ℝ}
    (hs : samp'.Perm samp) (hc : coal'.Perm coal) (hlen : samp.length = coal.length + 1)
    (hyoung : ∀ c ∈ coal, ∃ s ∈ samp, s < c) :
    Tendsto (fun g => exponentialLogProb θ g (samp' ++ coal')) (𝓝[≠] 0) (𝓝 (constantLogProb θ (samp' ++ coal'))) := by
  have hlen' : samp'.length = coal'.length + 1 := by rw [hs.length_eq, hc.length_eq]; exact hlen
  have hn : taxaCount (samp' ++ coal') - 1 = coal.length := by
    unfold taxaCount; rw [List.length_append, ← hc.length_eq]; omega
  -- rewrite both sides through the walk / the sum over coalescent times
  have hE : ∀ g, exponentialLogProb θ g (samp' ++ coal')
      = -(walk (fun k _ a b => (choose2 k : ℝ) * ((Real.exp (b * g) - Real.exp (a * g)) / (θ * g))) 2 0 0
            (sortEvents (mkEvents (samp' ++ coal') [])))
        - (coal.map fun t => Real.log (θ * Real.exp (-t * g))).sum := by
    intro g
    have hL := plain_logs (fun t => Real.log (θ * Real.exp (-t * g))) hs hc hlen hyoung
    have hw := zipWith_eq_walk (fun k d => (choose2 k : ℝ) * (d / (θ * g))) (fun t => Real.exp (t * g)) 2
      (sortEvents (mkEvents (samp' ++ coal') [])) 0 0
    unfold exponentialLogProb exponentialIntegral exponentialLogs lineages cumsum
    simp only [trans_exp_real, trans_log_real]
    rw [hw, hL]
  have hC : constantLogProb θ (samp' ++ coal')
      = -(walk (fun k _ a b => (choose2 k : ℝ) * ((b - a) / θ)) 2 0 0 (sortEvents (mkEvents (samp' ++ coal') [])))
        - (coal.map fun _ => Real.log θ).sum := by
    have hw := zipWith_eq_walk (fun k d => (choose2 k : ℝ) * (d / θ)) id 2
      (sortEvents (mkEvents (samp' ++ coal') [])) 0 0
    rw [List.map_id] at hw
    simp only [id] at hw
    unfold constantLogProb constantIntegral lineages cumsum
    rw [hn, ← hw]
    simp only [trans_log_real, List.map_const', List.sum_replicate, nsmul_eq_mul]
    have : ∀ (ks : List ℤ) (ds : List ℝ), (List.zipWith (fun k d => -(choose2 k : ℝ) * d / θ) ks ds).sum
        = -(List.zipWith (fun k d => (choose2 k : ℝ) * (d / θ)) ks ds).sum := by
      intro ks
      induction ks with
      | nil => intro ds; simp
      | cons k ks ih =>
        intro ds
        cases ds with
        | nil => simp
        | cons d ds => simp only [List.zipWith_cons_cons, List.sum_cons, ih ds]; ring
    rw [this]
    push_cast
    ring
  rw [hC]
  simp only [hE]
  refine Tendsto.sub (Tendsto.neg ?_) ?_
  · apply tendsto_walk
    intro k _ a b
    exact (tendsto_exp_piece θ a b).const_mul _
  · apply tendsto_list_sum_map
    intro t _
    have hcont : Tendsto (fun g : ℝ => θ * Real.exp (-t * g)) (𝓝[≠] 0) (𝓝 (θ * Real.exp (-t * 0))) := by
      apply Tendsto.mono_left _ nhdsWithin_le_nhds
      exact (Continuous.tendsto (by fun_prop) 0)
    have h0 : θ * Real.exp (-t * 0) = θ := by simp
    rw [h0] at hcont
    exact (Real.continuousAt_log hθ).tendsto.comp hcont

example : Tendsto (fun g => exponentialLogProb 2 g (([1, 0, 0] : List ℝ) ++ [3, 2])) (𝓝[≠] 0)
    (𝓝 (constantLogProb 2 (([1, 0, 0] : List ℝ) ++ [3, 2]))) :=
  exponential_tendsto_constant 2 (by norm_num) p3 p2 rfl young

end TTProps.C08
