import TTProofs.Lemmas.C09_Master
import TTProofs.Lemmas.C09_TreeLineages
/-!
# C09 (companion) — the modelled closed forms ARE the solutions of the birth–death master equations

Time conventions, derived here rather than assumed.  The code works in FORWARD time `t` (0 at the origin, `t_m` at the
present); inside epoch `k = [t_k, t_{k+1})` it evaluates `p_k` and `q_k` at the distance `d = t_{k+1} − t` to the END of the
epoch (`log_p`: `exp(A (t_{k+1} − t_k))`, `log_q(A, B, t, t_{k+1})`: `exp(−A (t − t_{k+1}))`).  In `d` (backwards in time):

    dP/dd = μ − (λ+μ+ψ) P + λ P²          P(0) = (1 − ρ_k) · p_{k+1}(t_{k+1})   (1 beyond the present)
    dq/dd = −(λ+μ+ψ − 2λ P(d)) · q        q(0) = 1

hence in the code's forward time `p'(t) = −(μ − (λ+μ+ψ) p + λ p²)` and `q'(t) = +(λ+μ+ψ − 2λ p(t)) q(t)`
(`p_master_equation_forward`, `q_master_equation_forward`).

* (1) `p_master_equation`, `q_master_equation` (+ `_forward`), boundary values `p_boundary`, `p_present`, `p_epoch_start`,
  `q_boundary`, `logq_is_log_q`: the closed forms satisfy the equations at every point of every epoch.
* (2) `master_solution_unique_p`, `master_solution_unique_q` (Grönwall, `ODE_solution_unique_of_mem_Icc_right`): ANY
  continuous solution with the same boundary value is the closed form on the epoch; `master_p_all_epochs`: by induction
  over the epochs, a family of exact solutions glued by the code's boundary condition reproduces every `p[k]`.
* assembly: `master_event_density_eq_model` — the log density assembled EVENT BY EVENT from exact solutions
  (`masterEpochTerm`: which factor each entering lineage, birth, ψ-sampling, unsampled crossing, ρ-sampling and the
  survival term contribute) equals the modelled `logProb`; and **`master_tree_density_eq_model`** — the log density
  assembled BRANCH BY BRANCH ALONG THE TREE (`branchLog`: every branch carries the solution of the linear master
  equation integrated along it, with a factor `1 − ρ` at each boundary it crosses unsampled; every birth its rate `λ`,
  every tip its sampling rate `ψ` or `ρ`; plus the survival term) equals the modelled `logProb`, for every binary tree
  and any number of epochs (`crossing_double_count`: the terms `n_j` of the code count, lineage by lineage, the
  boundaries each branch crosses).  `branch_product_eq_event_product` is the multiplicative one-epoch version.
  NOT derived here: the master equations themselves from the birth–death process (they are the specification, as in
  the property text).
* the RK4 integrator of `harness/c09_oracle.py` integrates exactly these equations, with these boundary conditions, along
  the tree and is compared with the implementation on every run: it ties this specification to the code.
-/
namespace TTProps.C09.Master
open TT TT.C09 Set

/-- **p_master_equation**: inside epoch `k`, as a function of the distance `d ≥ 0` to the end of the epoch, the coded
`p` satisfies `P' = μ_k − (λ_k+μ_k+ψ_k) P + λ_k P²` -/
theorem p_master_equation (r : Rates ℝ) (t : Nat → ℝ) (m : Nat) (g : Grid t m) (hr : Admissible r m) (k : Nat)
    (hk : k < m) (d : ℝ) (hd : 0 ≤ d) :
    HasDerivAt (fun d => pClosed (r.lam k) (r.mu k) (r.psi k) (Acoef r k) (BAt r t m k) d)
      (r.mu k - (r.lam k + r.mu k + r.psi k) * pClosed (r.lam k) (r.mu k) (r.psi k) (Acoef r k) (BAt r t m k) d
        + r.lam k * (pClosed (r.lam k) (r.mu k) (r.psi k) (Acoef r k) (BAt r t m k) d) ^ 2) d := by
  obtain ⟨a, _, c, _, _⟩ := hr k hk
  exact hasDerivAt_pClosed _ _ _ _ _ d a.ne' (Acoef_sq r k (mul_pos a c).le) (denom_ne_zero_epoch r t m g hr k hk d hd)

/-- the same in the code's forward time `τ ≤ t_{k+1}`: the sign flips -/
theorem p_master_equation_forward (r : Rates ℝ) (t : Nat → ℝ) (m : Nat) (g : Grid t m) (hr : Admissible r m) (k : Nat)
    (hk : k < m) (τ : ℝ) (hτ : τ ≤ t (k + 1)) :
    HasDerivAt (fun τ => pClosed (r.lam k) (r.mu k) (r.psi k) (Acoef r k) (BAt r t m k) (t (k + 1) - τ))
      (-(r.mu k - (r.lam k + r.mu k + r.psi k) * pClosed (r.lam k) (r.mu k) (r.psi k) (Acoef r k) (BAt r t m k) (t (k + 1) - τ)
        + r.lam k * (pClosed (r.lam k) (r.mu k) (r.psi k) (Acoef r k) (BAt r t m k) (t (k + 1) - τ)) ^ 2)) τ := by
  have h1 := p_master_equation r t m g hr k hk (t (k + 1) - τ) (by linarith)
  have h2 : HasDerivAt (fun τ => t (k + 1) - τ) (-1) τ := by
    simpa using (hasDerivAt_id τ).const_sub (t (k + 1))
  have := h1.comp τ h2
  exact this.congr_deriv (by ring)

/-- boundary condition at the end of epoch `k`, as coded: `(1 − ρ_k)` times the value at the start of the next epoch -/
theorem p_boundary (r : Rates ℝ) (t : Nat → ℝ) (m : Nat) (hr : Admissible r m) (k : Nat) (hk : k < m) :
    pClosed (r.lam k) (r.mu k) (r.psi k) (Acoef r k) (BAt r t m k) 0 = (1 - r.rho k) * pAt r t m (k + 1) := by
  obtain ⟨a, _, c, _, _⟩ := hr k hk
  exact pClosed_zero r k _ (Acoef_pos r k (mul_pos a c)).ne' a.ne'

/-- … and 1 beyond the present, as the code has it (`p[m] = 1`) -/
theorem p_present (r : Rates ℝ) (t : Nat → ℝ) (m : Nat) : pAt r t m m = 1 := pAt_end r t m m le_rfl

/-- the value the code stores as `p[k]` is the closed form at the start of epoch `k` -/
theorem p_epoch_start (r : Rates ℝ) (t : Nat → ℝ) (m k : Nat) (hk : k < m) :
    pAt r t m k = pClosed (r.lam k) (r.mu k) (r.psi k) (Acoef r k) (BAt r t m k) (t (k + 1) - t k) := by
  rw [pAt_step r t m k hk, pStep_eq_pClosed]; rfl

/-- **q_master_equation**: the branch factor of the code satisfies, in `d`, `q' = −(λ_k+μ_k+ψ_k − 2λ_k P(d)) q` -/
theorem q_master_equation (r : Rates ℝ) (t : Nat → ℝ) (m : Nat) (g : Grid t m) (hr : Admissible r m) (k : Nat)
    (hk : k < m) (d : ℝ) (hd : 0 ≤ d) :
    HasDerivAt (fun d => qv (Acoef r k) (BAt r t m k) d)
      (-(r.lam k + r.mu k + r.psi k - 2 * r.lam k * pClosed (r.lam k) (r.mu k) (r.psi k) (Acoef r k) (BAt r t m k) d)
        * qv (Acoef r k) (BAt r t m k) d) d := by
  obtain ⟨a, _, _, _, _⟩ := hr k hk
  exact hasDerivAt_qv _ _ _ _ _ d a.ne' (denom_ne_zero_epoch r t m g hr k hk d hd)

/-- in the code's forward time: `q'(τ) = (λ_k+μ_k+ψ_k − 2λ_k p(τ)) q(τ)` -/
theorem q_master_equation_forward (r : Rates ℝ) (t : Nat → ℝ) (m : Nat) (g : Grid t m) (hr : Admissible r m) (k : Nat)
    (hk : k < m) (τ : ℝ) (hτ : τ ≤ t (k + 1)) :
    HasDerivAt (fun τ => qv (Acoef r k) (BAt r t m k) (t (k + 1) - τ))
      ((r.lam k + r.mu k + r.psi k - 2 * r.lam k * pClosed (r.lam k) (r.mu k) (r.psi k) (Acoef r k) (BAt r t m k) (t (k + 1) - τ))
        * qv (Acoef r k) (BAt r t m k) (t (k + 1) - τ)) τ := by
  have h1 := q_master_equation r t m g hr k hk (t (k + 1) - τ) (by linarith)
  have h2 : HasDerivAt (fun τ => t (k + 1) - τ) (-1) τ := by
    simpa using (hasDerivAt_id τ).const_sub (t (k + 1))
  exact (h1.comp τ h2).congr_deriv (by ring)

theorem q_boundary (A B : ℝ) : qv A B 0 = 1 := qv_zero A B

/-- `log_q(A, B, t, t_end)` of the code is the logarithm of that branch factor at distance `t_end − t` -/
theorem logq_is_log_q (A B τ tend : ℝ) : logq A B τ tend = Real.log (qv A B (tend - τ)) := logq_eq A B τ tend

/-- **master_solution_unique_p**: on one epoch, any continuous `f` with `f' = μ − (λ+μ+ψ) f + λ f²` on `[0, Δ)` and the
coded boundary value is the coded closed form on `[0, Δ]` -/
theorem master_solution_unique_p (r : Rates ℝ) (t : Nat → ℝ) (m : Nat) (g : Grid t m) (hr : Admissible r m) (k : Nat)
    (hk : k < m) (Δ : ℝ) (f : ℝ → ℝ) (hf : ContinuousOn f (Icc 0 Δ))
    (hf' : ∀ d ∈ Ico 0 Δ, HasDerivWithinAt f
      (r.mu k - (r.lam k + r.mu k + r.psi k) * f d + r.lam k * (f d) ^ 2) (Ici d) d)
    (h0 : f 0 = (1 - r.rho k) * pAt r t m (k + 1)) :
    EqOn f (fun d => pClosed (r.lam k) (r.mu k) (r.psi k) (Acoef r k) (BAt r t m k) d) (Icc 0 Δ) := by
  obtain ⟨a, _, c, _, _⟩ := hr k hk
  exact riccati_unique _ _ _ _ _ Δ a.ne' (Acoef_sq r k (mul_pos a c).le) (denom_ne_zero_epoch r t m g hr k hk) f hf hf'
    (by rw [h0, p_boundary r t m hr k hk])

/-- **master_solution_unique_q**: any continuous solution of the linear equation along the coded `p`, with value `g0` at
the end of the epoch, is `g0 · q` -/
theorem master_solution_unique_q (r : Rates ℝ) (t : Nat → ℝ) (m : Nat) (g : Grid t m) (hr : Admissible r m) (k : Nat)
    (hk : k < m) (Δ : ℝ) (f : ℝ → ℝ) (g0 : ℝ) (hf : ContinuousOn f (Icc 0 Δ))
    (hf' : ∀ d ∈ Ico 0 Δ, HasDerivWithinAt f
      (-(r.lam k + r.mu k + r.psi k - 2 * r.lam k * pClosed (r.lam k) (r.mu k) (r.psi k) (Acoef r k) (BAt r t m k) d) * f d)
      (Ici d) d)
    (h0 : f 0 = g0) :
    EqOn f (fun d => g0 * qv (Acoef r k) (BAt r t m k) d) (Icc 0 Δ) := by
  obtain ⟨a, _, c, _, _⟩ := hr k hk
  exact branch_unique _ _ _ _ _ Δ a.ne' (Acoef_sq r k (mul_pos a c).le) (denom_ne_zero_epoch r t m g hr k hk) f g0 hf hf' h0

/-- **master_p_all_epochs**: by induction over the epochs, from the present back to the origin: exact solutions glued by
the code's boundary condition are the closed forms on every epoch and take the values `p[k]` at the epoch starts -/
theorem master_p_all_epochs (r : Rates ℝ) (t : Nat → ℝ) (m : Nat) (g : Grid t m) (hr : Admissible r m)
    (pt : Nat → ℝ → ℝ) (hp : MasterP r t m pt) (k : Nat) (hk : k < m) :
    EqOn (pt k) (fun d => pClosed (r.lam k) (r.mu k) (r.psi k) (Acoef r k) (BAt r t m k) d) (Icc 0 (t (k + 1) - t k))
      ∧ pt k (t (k + 1) - t k) = pAt r t m k :=
  masterP_eq_closed r t m g hr pt hp (m - k) k rfl hk

/-- per-branch product along a tree inside one epoch: a branch from `p` to `c` carries `q p / q c`, a birth `λ`, a
sampling `ψ` -/
noncomputable def branchProd (q : ℝ → ℝ) (lam psi : ℝ) (p : ℝ) : TTree ℝ → ℝ
  | .tip y => q p / q y * psi
  | .node x l r => q p / q x * lam * (branchProd q lam psi x l * branchProd q lam psi x r)

/-- **branch_product_eq_event_product**: along any binary tree the product over branches equals the per-event product
`q(origin) · ∏ λ q(x) · ∏ ψ / q(y)` used by the density -/
theorem branch_product_eq_event_product (q : ℝ → ℝ) (lam psi : ℝ) (hq : ∀ z, q z ≠ 0) : ∀ (T : TTree ℝ) (p : ℝ),
    branchProd q lam psi p T
      = q p * (T.internalTimes.map fun x => lam * q x).prod * (T.tipTimes.map fun y => psi / q y).prod
  | .tip y, p => by simp [branchProd, TTree.internalTimes, TTree.tipTimes]; ring
  | .node x l r, p => by
      rw [branchProd, branch_product_eq_event_product q lam psi hq l x, branch_product_eq_event_product q lam psi hq r x]
      simp only [TTree.internalTimes, TTree.tipTimes, List.map_cons, List.map_append, List.prod_cons, List.prod_append]
      have := hq x
      field_simp

/-- **master_event_density_eq_model**: the log density assembled event by event from EXACT solutions of the master
equations (`pt` for `p`, `gt` for the branch factors, one per epoch, glued as the code glues them) is the modelled
`PiecewiseConstantBirthDeath` log density. -/
theorem master_event_density_eq_model (r : Rates ℝ) (t : Nat → ℝ) (m' : Nat) (g : Grid t (m' + 1))
    (hr : Admissible r (m' + 1)) (t0 : t 0 = 0) (pt gt : Nat → ℝ → ℝ) (hp : MasterP r t (m' + 1) pt)
    (hg : MasterG r t (m' + 1) pt gt) (surv : Bool) (tips ints : List ℝ)
    (hints : ∀ a ∈ ints, 0 < a ∧ a ≤ t (m' + 1)) (htips : ∀ a ∈ tips, 0 ≤ a ∧ a < t (m' + 1)) :
    masterLogDensity r t (m' + 1) pt gt surv (ints.map fun h => t (m' + 1) - h) (tips.map fun h => t (m' + 1) - h)
      = logProb r none t (m' + 1) surv tips ints := by
  have hev : Events t (m' + 1) (ints.map fun h => t (m' + 1) - h) (tips.map fun h => t (m' + 1) - h) := by
    constructor
    · intro x hx
      obtain ⟨h, hh, rfl⟩ := List.mem_map.mp hx
      have := hints h hh
      rw [t0]; constructor <;> linarith
    · intro y hy
      obtain ⟨h, hh, rfl⟩ := List.mem_map.mp hy
      have := htips h hh
      rw [t0]; constructor <;> linarith
  have hxidx : ∀ a ∈ ints, idxX t (m' + 1) (t (m' + 1) - a) < m' + 1 := by
    intro a ha
    have d := hev.1 _ (List.mem_map_of_mem ha)
    obtain ⟨k, hk, k1, k2⟩ := exists_epoch_X (t := t) (m := m' + 1) _ d.1 d.2
    rw [idxX_of_mem g k hk _ k1 k2]; exact hk
  rw [logProb_eq_sum_epochs r t m' surv tips ints t0 hxidx]
  unfold masterLogDensity
  rw [(master_p_all_epochs r t (m' + 1) g hr pt hp 0 (by omega)).2]
  congr 1
  apply Finset.sum_congr rfl
  intro k hk
  exact masterEpochTerm_eq r t (m' + 1) g hr pt gt hp hg _ _ hev k (Finset.mem_range.mp hk)

/-- log density of a tree assembled BRANCH BY BRANCH: `ΦN z` is the log of what a lineage starting at a birth time (or the
origin) `z` pays up to the present if it is never sampled, `ΦT y` the same seen from a sampling time; a branch from `p`
to a child pays the difference (= the linear master equation integrated along the branch, `1 − ρ` at each boundary
crossed); a birth pays `log λ`, a tip `log` of its sampling rate -/
noncomputable def branchLog (ΦN ΦT lrate srate : ℝ → ℝ) (p : ℝ) : TTree ℝ → ℝ
  | .tip y => ΦN p - ΦT y + Real.log (srate y)
  | .node x l r => ΦN p - ΦN x + Real.log (lrate x) + branchLog ΦN ΦT lrate srate x l + branchLog ΦN ΦT lrate srate x r

theorem branchLog_eq_lineages (ΦN ΦT lrate srate : ℝ → ℝ) : ∀ (T : TTree ℝ) (p : ℝ),
    branchLog ΦN ΦT lrate srate p T
      = ΦN p + (T.internalTimes.map fun x => Real.log (lrate x) + ΦN x).sum
        + (T.tipTimes.map fun y => Real.log (srate y) - ΦT y).sum
  | .tip y, p => by simp [branchLog, TTree.internalTimes, TTree.tipTimes]; ring
  | .node x l r, p => by
      rw [branchLog, branchLog_eq_lineages ΦN ΦT lrate srate l x, branchLog_eq_lineages ΦN ΦT lrate srate r x]
      simp only [TTree.internalTimes, TTree.tipTimes, List.map_cons, List.map_append, List.sum_cons, List.sum_append]
      ring

/-- **master_tree_density_eq_model**: for every binary tree `T` (node times forward from the origin `t 0 = 0`, births in
`[0, T)`, samplings in `(0, T]`), any number of epochs, admissible rates and exact solutions `pt`, `gt` of the master
equations: survival term + the branch-by-branch log density along the tree = the modelled log density. -/
theorem master_tree_density_eq_model (r : Rates ℝ) (t : Nat → ℝ) (m' : Nat) (g : Grid t (m' + 1))
    (hr : Admissible r (m' + 1)) (t0 : t 0 = 0) (pt gt : Nat → ℝ → ℝ) (hp : MasterP r t (m' + 1) pt)
    (hg : MasterG r t (m' + 1) pt gt) (surv : Bool) (T : TTree ℝ)
    (hx : ∀ x ∈ T.internalTimes, 0 ≤ x ∧ x < t (m' + 1)) (hy : ∀ y ∈ T.tipTimes, 0 < y ∧ y ≤ t (m' + 1)) :
    (if surv then -Real.log (1 - pt 0 (t 1 - t 0)) else 0)
      + branchLog (phiN r t (m' + 1) fun k z => Real.log (gt k (t (k + 1) - z)))
          (phiT r t (m' + 1) fun k z => Real.log (gt k (t (k + 1) - z)))
          (fun x => r.lam (idxX t (m' + 1) x)) (sampRate r t (m' + 1)) (t 0) T
      = logProb r none t (m' + 1) surv (T.tipTimes.map fun y => t (m' + 1) - y)
          (T.internalTimes.map fun x => t (m' + 1) - x) := by
  have hev : Events t (m' + 1) T.internalTimes T.tipTimes := by
    constructor
    · intro x hxx; rw [t0]; exact hx x hxx
    · intro y hyy; rw [t0]; exact hy y hyy
  have hLq0 : ∀ k, k < m' + 1 → (fun k z => Real.log (gt k (t (k + 1) - z))) k (t (k + 1)) = 0 := by
    intro k hk; simp [hg.norm k hk]
  rw [branchLog_eq_lineages, add_assoc (phiN _ _ _ _ _),
    ← add_assoc (phiN _ _ _ _ _), ← sum_epochTermL_eq_lineages r t m' g _ T.internalTimes T.tipTimes hev hLq0]
  have hmodel := master_event_density_eq_model r t m' g hr t0 pt gt hp hg surv
    (T.tipTimes.map fun y => t (m' + 1) - y) (T.internalTimes.map fun x => t (m' + 1) - x)
    (by
      intro a ha
      obtain ⟨x, hxx, rfl⟩ := List.mem_map.mp ha
      have := hx x hxx
      constructor <;> linarith)
    (by
      intro a ha
      obtain ⟨y, hyy, rfl⟩ := List.mem_map.mp ha
      have := hy y hyy
      constructor <;> linarith)
  have e1 : ((T.internalTimes.map fun x => t (m' + 1) - x).map fun h => t (m' + 1) - h) = T.internalTimes := by
    rw [List.map_map]; simp [Function.comp]
  have e2 : ((T.tipTimes.map fun y => t (m' + 1) - y).map fun h => t (m' + 1) - h) = T.tipTimes := by
    rw [List.map_map]; simp [Function.comp]
  rw [e1, e2] at hmodel
  rw [← hmodel]
  unfold masterLogDensity
  congr 1

/-- non-vacuity: the closed forms themselves are exact solutions (`MasterP`, `MasterG` are inhabited) for any admissible
rates on any increasing grid -/
theorem closed_forms_are_master_solutions (r : Rates ℝ) (t : Nat → ℝ) (m : Nat) (g : Grid t m) (hr : Admissible r m) :
    MasterP r t m (fun k d => pClosed (r.lam k) (r.mu k) (r.psi k) (Acoef r k) (BAt r t m k) d)
    ∧ MasterG r t m (fun k d => pClosed (r.lam k) (r.mu k) (r.psi k) (Acoef r k) (BAt r t m k) d)
        (fun k d => qv (Acoef r k) (BAt r t m k) d) := by
  constructor
  · refine ⟨fun k hk d hd => (p_master_equation r t m g hr k hk d hd.1).continuousAt.continuousWithinAt,
      fun k hk d hd => (p_master_equation r t m g hr k hk d hd.1).hasDerivWithinAt, fun k hk => ?_⟩
    rw [p_boundary r t m hr k hk]
    congr 1
    by_cases h1 : k + 1 < m
    · simp only [h1, ↓reduceIte]; exact p_epoch_start r t m (k + 1) h1
    · simp only [h1, ↓reduceIte]; exact pAt_end r t m (k + 1) (by omega)
  · exact ⟨fun k hk d hd => (q_master_equation r t m g hr k hk d hd.1).continuousAt.continuousWithinAt,
      fun k hk d hd => (q_master_equation r t m g hr k hk d hd.1).hasDerivWithinAt, fun k _ => qv_zero _ _⟩

/-- non-vacuity: admissible rates and an increasing grid exist (two epochs, different rates, `ρ = 1/4` at the boundary) -/
example : ∃ (r : Rates ℝ) (t : Nat → ℝ), Grid t 2 ∧ Admissible r 2 ∧ r.lam 0 ≠ r.lam 1 := by
  refine ⟨⟨fun k => if k = 0 then 2 else 3, fun _ => 1, fun _ => 1/2, fun k => if k = 0 then 1/4 else 0⟩,
    fun k => (k : ℝ), ?_, ?_, by norm_num⟩
  · intro a b hab _; show (a : ℝ) < (b : ℝ); exact_mod_cast hab
  · intro k hk
    interval_cases k <;> norm_num

/-- non-vacuity for the tree theorem: on that grid (`t_k = k`, two epochs) the tree with a birth at 1/2, a tip exactly on the
boundary `t_1 = 1` and a tip at the present satisfies the hypotheses on its node times -/
example : let T : TTree ℝ := .node (1/2) (.tip 1) (.tip 2)
    (∀ x ∈ T.internalTimes, 0 ≤ x ∧ x < ((2 : ℕ) : ℝ)) ∧ (∀ y ∈ T.tipTimes, 0 < y ∧ y ≤ ((2 : ℕ) : ℝ)) := by
  simp [TTree.internalTimes, TTree.tipTimes]; norm_num

end TTProps.C09.Master
