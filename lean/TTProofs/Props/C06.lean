import TTProofs.Lemmas.C06_Real
import TTGen.C06_Devices
/-!
# C06 — node-height parameterisations yield a valid time tree and are invertible; device and
dtype moves keep the parameterisation

All theorems are about the executable model `TTModel/C06_Heights.lean` (the loops of
`tree_height_transform.py` / `tree_model.py` as written, with their index conventions) and about
the device table regenerated from the source (`TTGen/C06_Devices.lean`). They hold for EVERY
rooted binary tree `T` on `n ≥ 2` taxa (`WF n T`: the tips are the taxa `0…n-1`, each once), every
sampling-time vector `s`, every parameter vector in the stated domain. Reals throughout.

Notation: `B = bounds n s (postorder n T)` (`_bounds`), `h = ratioFwd …` (`transform(x)`),
`H = nodeHeights n s h` (`node_heights`), `preorder n T` = all `(parent, child)` edges.
-/
namespace TTProps.C06
open TT.C06 TTGen.C06Devices

variable {n : Nat} {T : BTree}

/-! ## bounds -/

/-- **bounds_correct**: for every node of the tree (root of the subtree `t` numbered from `k`),
`_bounds[node]` is the largest sampling time among the tips below it — stated against an
independent declarative notion (`IsMaxOver`: an upper bound that is attained). -/
theorem bounds_correct (hT : WF n T) (s : Nat → ℝ) {t : BTree} {k : Nat} (h : SubAt T n t k) :
    IsMaxOver s t.tips (bounds n s (postorder n T) (t.rootIdx k)) :=
  bounds_sub hT s t k h.post_subset (fun x hx => hT.2.1 x (h.tips_subset x hx))

theorem root_index (hT : WF n T) (hn : 2 ≤ n) : T.rootIdx n = 2 * n - 2 := by
  have := hT.ints
  have := rootIdx_succ (k := n) (t := T) (by omega)
  omega

/-- the bound of the root is the oldest tip of the whole tree -/
theorem root_bound_is_oldest_tip (hT : WF n T) (hn : 2 ≤ n) (s : Nat → ℝ) :
    IsMaxOver s T.tips (bounds n s (postorder n T) (2 * n - 2)) := by
  rw [← root_index hT hn]; exact bounds_correct hT s SubAt.refl

/-! ## the ratio transform -/

/-- closed domain of the ratio parameterisation: ratios in `[0,1]`, root height at least the
oldest tip -/
structure RatioDom (n : Nat) (B x : Nat → ℝ) : Prop where
  ratios : ∀ j, j < n - 2 → 0 ≤ x j ∧ x j ≤ 1
  root : B (2 * n - 2) ≤ x (n - 2)

/-- open domain: ratios in `(0,1)`, root height above the oldest tip -/
structure RatioDomOpen (n : Nat) (B x : Nat → ℝ) : Prop where
  ratios : ∀ j, j < n - 2 → 0 < x j ∧ x j < 1
  root : B (2 * n - 2) < x (n - 2)

theorem RatioDomOpen.closed {B x : Nat → ℝ} (h : RatioDomOpen n B x) : RatioDom n B x :=
  ⟨fun j hj => ⟨le_of_lt (h.ratios j hj).1, le_of_lt (h.ratios j hj).2⟩, le_of_lt h.root⟩

section ratio
variable (s x : Nat → ℝ)

/-- along every forward pair: the parent is above its own bound, the child above its own bound,
and the child is not older than the parent -/
theorem ratio_pairs (hT : WF n T) (hn : 2 ≤ n)
    (hx : RatioDom n (bounds n s (postorder n T)) x) :
    ∀ a ∈ forwardIndices n T,
      (bounds n s (postorder n T) (n + a.1)
          ≤ ratioFwd n (bounds n s (postorder n T)) (forwardIndices n T) x a.1 ∧
        bounds n s (postorder n T) (n + a.2)
          ≤ ratioFwd n (bounds n s (postorder n T)) (forwardIndices n T) x a.2) ∧
      ratioFwd n (bounds n s (postorder n T)) (forwardIndices n T) x a.2
        ≤ ratioFwd n (bounds n s (postorder n T)) (forwardIndices n T) x a.1 := by
  set B := bounds n s (postorder n T) with hB
  set h := ratioFwd n B (forwardIndices n T) x with hh
  obtain ⟨spec, hroot⟩ := ratio_spec x hT B
  have hmono := fwd_bound_mono hT s
  have step : ∀ a ∈ forwardIndices n T, B (n + a.1) ≤ h a.1 → B (n + a.2) ≤ h a.2 ∧ h a.2 ≤ h a.1 := by
    intro a ha hp
    have e := spec a ha
    have hr := hx.ratios a.2 (fwd_child_lt hT a ha).1
    have hd : 0 ≤ h a.1 - B (n + a.2) := by linarith [hmono a ha]
    rw [← hh] at e
    constructor
    · rw [e]; nlinarith [mul_nonneg hr.1 hd]
    · rw [e]; nlinarith [mul_le_of_le_one_left hd hr.2]
  have hP := Reach.ind (P := fun j => B (n + j) ≤ h j) (fwd_reach hT hn)
    (fun j hj => by
      subst hj
      show B (n + (n - 2)) ≤ h (n - 2)
      rw [hh, hroot, show n + (n - 2) = 2 * n - 2 by omega]; exact hx.root)
    (fun a ha hp => (step a ha hp).1)
  intro a ha
  exact ⟨hP a ha, (step a ha (hP a ha).1).2⟩

/-- every internal node lies at or above its bound -/
theorem ratio_ge_bound (hT : WF n T) (hn : 2 ≤ n)
    (hx : RatioDom n (bounds n s (postorder n T)) x) {i : Nat} (h1 : n ≤ i) (h2 : i ≤ 2 * n - 2) :
    bounds n s (postorder n T) i
      ≤ ratioFwd n (bounds n s (postorder n T)) (forwardIndices n T) x (i - n) := by
  rcases Nat.eq_or_lt_of_le h2 with rfl | hlt
  · rw [show 2 * n - 2 - n = n - 2 by omega, (ratio_spec x hT _).2]; exact hx.root
  · have : i ∈ (T.pre n).map Prod.snd := (pre_children_perm hT).mem_iff.mpr (List.mem_range.mpr hlt)
    obtain ⟨b, hb, rfl⟩ := List.mem_map.mp this
    have hmem : (b.1 - n, b.2 - n) ∈ forwardIndices n T := fwd_mem.mpr ⟨b, hb, h1, rfl⟩
    have := ((ratio_pairs s x hT hn hx _ hmem).1).2
    simpa [Nat.add_sub_cancel' h1] using this

/-- **ratio_valid**: ratios in `[0,1]` and a root height at least the oldest tip give a valid time
tree: every tip sits at its sampling time, and along every edge `(parent, child)` of the tree
the parent is at least as old as the child. -/
theorem ratio_valid (hT : WF n T) (hn : 2 ≤ n)
    (hx : RatioDom n (bounds n s (postorder n T)) x) :
    (∀ i, i < n →
      nodeHeights n s (ratioFwd n (bounds n s (postorder n T)) (forwardIndices n T) x) i = s i) ∧
    ∀ a ∈ preorder n T,
      nodeHeights n s (ratioFwd n (bounds n s (postorder n T)) (forwardIndices n T) x) a.2
        ≤ nodeHeights n s (ratioFwd n (bounds n s (postorder n T)) (forwardIndices n T) x) a.1 := by
  refine ⟨fun i hi => by simp [nodeHeights, hi], ?_⟩
  intro a ha
  obtain ⟨h1, h2, _, h4⟩ := pre_mem hT.tipsOK a ha
  have hi := hT.ints
  have hp : ¬ a.1 < n := by omega
  by_cases hc : n ≤ a.2
  · have hmem : (a.1 - n, a.2 - n) ∈ forwardIndices n T := fwd_mem.mpr ⟨a, ha, hc, rfl⟩
    have := (ratio_pairs s x hT hn hx _ hmem).2
    simpa [nodeHeights, hp, show ¬ a.2 < n by omega] using this
  · have hc' : a.2 < n := by omega
    have hb := bounds_mono hT s a ha
    have hg := ratio_ge_bound s x hT hn hx (i := a.1) h1 (by omega)
    simp only [nodeHeights, hp, hc', if_true, if_false]
    calc s a.2 = bounds n s (T.post n) a.2 := (bounds_tip s _ hc').symm
      _ ≤ bounds n s (T.post n) a.1 := hb
      _ ≤ _ := hg

/-- **ratio_valid_strict**: in the open domain (ratios in `(0,1)`, root above the oldest tip)
every parent is strictly older than each of its children, so every branch is strictly positive. -/
theorem ratio_valid_strict (hT : WF n T) (hn : 2 ≤ n)
    (hx : RatioDomOpen n (bounds n s (postorder n T)) x) :
    (∀ i, n ≤ i → i ≤ 2 * n - 2 → bounds n s (postorder n T) i
        < ratioFwd n (bounds n s (postorder n T)) (forwardIndices n T) x (i - n)) ∧
    ∀ a ∈ preorder n T,
      nodeHeights n s (ratioFwd n (bounds n s (postorder n T)) (forwardIndices n T) x) a.2
        < nodeHeights n s (ratioFwd n (bounds n s (postorder n T)) (forwardIndices n T) x) a.1 := by
  set B := bounds n s (postorder n T) with hB
  set h := ratioFwd n B (forwardIndices n T) x with hh
  obtain ⟨spec, hroot⟩ := ratio_spec x hT B
  have hmono := fwd_bound_mono hT s
  have step : ∀ a ∈ forwardIndices n T, B (n + a.1) < h a.1 → B (n + a.2) < h a.2 ∧ h a.2 < h a.1 := by
    intro a ha hp
    have e := spec a ha
    have hr := hx.ratios a.2 (fwd_child_lt hT a ha).1
    have hd : 0 < h a.1 - B (n + a.2) := by linarith [hmono a ha]
    rw [← hh] at e
    constructor
    · rw [e]; nlinarith [mul_pos hr.1 hd]
    · rw [e]; nlinarith [mul_lt_of_lt_one_left hd hr.2]
  have hP := Reach.ind (P := fun j => B (n + j) < h j) (fwd_reach hT hn)
    (fun j hj => by
      subst hj
      show B (n + (n - 2)) < h (n - 2)
      rw [hh, hroot, show n + (n - 2) = 2 * n - 2 by omega]; exact hx.root)
    (fun a ha hp => (step a ha hp).1)
  have hgt : ∀ i, n ≤ i → i ≤ 2 * n - 2 → B i < h (i - n) := by
    intro i h1 h2
    rcases Nat.eq_or_lt_of_le h2 with rfl | hlt
    · rw [show 2 * n - 2 - n = n - 2 by omega, hh, hroot]; exact hx.root
    · have : i ∈ (T.pre n).map Prod.snd := (pre_children_perm hT).mem_iff.mpr (List.mem_range.mpr hlt)
      obtain ⟨b, hb, rfl⟩ := List.mem_map.mp this
      have hmem : (b.1 - n, b.2 - n) ∈ forwardIndices n T := fwd_mem.mpr ⟨b, hb, h1, rfl⟩
      have := (hP _ hmem).2
      simpa [Nat.add_sub_cancel' h1] using this
  refine ⟨hgt, ?_⟩
  intro a ha
  obtain ⟨h1, h2, _, h4⟩ := pre_mem hT.tipsOK a ha
  have hi := hT.ints
  have hp : ¬ a.1 < n := by omega
  by_cases hc : n ≤ a.2
  · have hmem : (a.1 - n, a.2 - n) ∈ forwardIndices n T := fwd_mem.mpr ⟨a, ha, hc, rfl⟩
    have := (step _ hmem (hP _ hmem).1).2
    simpa [nodeHeights, hp, show ¬ a.2 < n by omega] using this
  · have hc' : a.2 < n := by omega
    have hb := bounds_mono hT s a ha
    have hg := hgt a.1 h1 (by omega)
    simp only [nodeHeights, hp, hc', if_true, if_false]
    calc s a.2 = B a.2 := (bounds_tip s _ hc').symm
      _ ≤ B a.1 := hb
      _ < _ := hg

end ratio

/-! ## branch lengths -/

/-- the child-sorted pre-order holds each edge at the position of its child -/
theorem sorted_get_of_mem (hT : WF n T) {a : Nat × Nat} (ha : a ∈ preorder n T) :
    (indicesSorted n T).getD a.2 (0, 0) = a := by
  obtain ⟨h1, h2, _, h4⟩ := pre_mem hT.tipsOK a ha
  have hi := hT.ints
  obtain ⟨hm, he⟩ := sorted_get hT (i := a.2) (by omega)
  have hnd := idx_nodup hT.tipsOK
  rw [idx_eq, List.nodup_cons] at hnd
  exact List.inj_on_of_nodup_map hnd.2 hm ha he

/-- **branch_eq**: for ANY node heights `H`, `branch_lengths()[child] = H[parent] − H[child]` for
every edge `(parent, child)` of the tree. -/
theorem branch_eq (hT : WF n T) (H : Nat → ℝ) :
    ∀ a ∈ preorder n T, (branchLengths (indicesSorted n T) H).getD a.2 0 = H a.1 - H a.2 := by
  intro a ha
  unfold branchLengths
  have : (0 : ℝ) = (fun a : Nat × Nat => H a.1 - H a.2) (0, 0) := by simp
  rw [this, List.getD_map, sorted_get_of_mem hT ha]

/-- **ratio_branch_nonneg**: under the ratio parameterisation every branch length is
`parent − child` and non-negative (strictly positive in the open domain). -/
theorem ratio_branch_nonneg (hT : WF n T) (hn : 2 ≤ n) (s x : Nat → ℝ)
    (hx : RatioDom n (bounds n s (postorder n T)) x) :
    ∀ a ∈ preorder n T,
      0 ≤ (branchLengths (indicesSorted n T)
        (nodeHeights n s (ratioFwd n (bounds n s (postorder n T)) (forwardIndices n T) x))).getD a.2 0 := by
  intro a ha
  rw [branch_eq hT _ a ha]
  linarith [(ratio_valid s x hT hn hx).2 a ha]

theorem ratio_branch_pos (hT : WF n T) (hn : 2 ≤ n) (s x : Nat → ℝ)
    (hx : RatioDomOpen n (bounds n s (postorder n T)) x) :
    ∀ a ∈ preorder n T,
      0 < (branchLengths (indicesSorted n T)
        (nodeHeights n s (ratioFwd n (bounds n s (postorder n T)) (forwardIndices n T) x))).getD a.2 0 := by
  intro a ha
  rw [branch_eq hT _ a ha]
  linarith [(ratio_valid_strict s x hT hn hx).2 a ha]

/-! ## the ratio transform is invertible -/

/-- **ratio_inv_fwd**: `inverse(forward(x)) = x` on all `n-1` positions, provided no parent height
coincides with its child's bound (guaranteed in the open domain, see `ratio_inv_fwd_open`). -/
theorem ratio_inv_fwd (hT : WF n T) (hn : 2 ≤ n) (s x : Nat → ℝ)
    (hne : ∀ a ∈ forwardIndices n T,
      ratioFwd n (bounds n s (postorder n T)) (forwardIndices n T) x a.1
        ≠ bounds n s (postorder n T) (n + a.2)) :
    ∀ j, j < n - 1 →
      ratioInv n (bounds n s (postorder n T)) (indicesSorted n T)
        (ratioFwd n (bounds n s (postorder n T)) (forwardIndices n T) x) j = x j := by
  intro j hj
  obtain ⟨spec, hroot⟩ := ratio_spec x hT (bounds n s (postorder n T))
  unfold ratioInv
  by_cases hj2 : j < n - 2
  · rw [if_pos hj2]
    obtain ⟨hm, he⟩ := sorted_get hT (i := n + j) (by omega)
    set a := (indicesSorted n T).getD (n + j) (0, 0) with ha
    have h1 := (pre_mem hT.tipsOK a hm).1
    have hmem : (a.1 - n, a.2 - n) ∈ forwardIndices n T := fwd_mem.mpr ⟨a, hm, by omega, rfl⟩
    have e := spec _ hmem
    have hd := hne _ hmem
    simp only [he, Nat.add_sub_cancel_left] at e hd ⊢
    rw [e]
    have hd' : ratioFwd n (bounds n s (postorder n T)) (forwardIndices n T) x (a.1 - n)
        - bounds n s (postorder n T) (n + j) ≠ 0 := sub_ne_zero.mpr hd
    field_simp
    ring
  · rw [if_neg hj2, hroot]
    congr 1; omega

/-- in the open domain no parent sits at its child's bound -/
theorem ratio_image_nondegenerate (hT : WF n T) (hn : 2 ≤ n) (s x : Nat → ℝ)
    (hx : RatioDomOpen n (bounds n s (postorder n T)) x) :
    ∀ a ∈ forwardIndices n T,
      ratioFwd n (bounds n s (postorder n T)) (forwardIndices n T) x a.1
        ≠ bounds n s (postorder n T) (n + a.2) := by
  intro a ha
  obtain ⟨b, hb, hc, rfl⟩ := fwd_mem.mp ha
  obtain ⟨h1, h2, _, _⟩ := pre_mem hT.tipsOK b hb
  have hi := hT.ints
  have hgt := (ratio_valid_strict s x hT hn hx).1 b.1 h1 (by omega)
  have hm := bounds_mono hT s b hb
  simp only [postorder, Nat.add_sub_cancel' hc] at hm ⊢
  exact ne_of_gt (lt_of_le_of_lt hm hgt)

/-- **ratio_inv_fwd_open**: on the whole open domain the inverse undoes the forward map -/
theorem ratio_inv_fwd_open (hT : WF n T) (hn : 2 ≤ n) (s x : Nat → ℝ)
    (hx : RatioDomOpen n (bounds n s (postorder n T)) x) :
    ∀ j, j < n - 1 →
      ratioInv n (bounds n s (postorder n T)) (indicesSorted n T)
        (ratioFwd n (bounds n s (postorder n T)) (forwardIndices n T) x) j = x j :=
  ratio_inv_fwd hT hn s x (ratio_image_nondegenerate hT hn s x hx)

/-- **ratio_fwd_inv**: `forward(inverse(y)) = y` for internal heights `y` in which no parent sits
exactly at its child's bound (true of every valid time tree with positive branches). -/
theorem ratio_fwd_inv (hT : WF n T) (hn : 2 ≤ n) (s y : Nat → ℝ)
    (hne : ∀ a ∈ forwardIndices n T, y a.1 ≠ bounds n s (postorder n T) (n + a.2)) :
    ∀ j, j < n - 1 →
      ratioFwd n (bounds n s (postorder n T)) (forwardIndices n T)
        (ratioInv n (bounds n s (postorder n T)) (indicesSorted n T) y) j = y j := by
  set B := bounds n s (postorder n T) with hB
  set r := ratioInv n B (indicesSorted n T) y with hr
  obtain ⟨spec, hroot⟩ := ratio_spec r hT B
  have hi := hT.ints
  have rroot : r (n - 2) = y (n - 2) := by simp [hr, ratioInv]
  have rval : ∀ a ∈ forwardIndices n T, r a.2 = (y a.2 - B (n + a.2)) / (y a.1 - B (n + a.2)) := by
    intro a ha
    obtain ⟨b, hb, hc, rfl⟩ := fwd_mem.mp ha
    have hlt := (fwd_child_lt hT _ ha).1
    simp only [hr, ratioInv] at hlt ⊢
    rw [if_pos hlt, Nat.add_sub_cancel' hc, sorted_get_of_mem hT hb]
  have hP := Reach.ind (P := fun j => ratioFwd n B (forwardIndices n T) r j = y j) (fwd_reach hT hn)
    (fun j hj => by subst hj; show ratioFwd n B (forwardIndices n T) r (n - 2) = y (n - 2); rw [hroot, rroot])
    (fun a ha hp => by
      show ratioFwd n B (forwardIndices n T) r a.2 = y a.2
      rw [spec a ha, hp, rval a ha]
      have hd : y a.1 - B (n + a.2) ≠ 0 := sub_ne_zero.mpr (hne a ha)
      field_simp
      ring)
  intro j hj
  by_cases hj2 : j < n - 2
  · have : n + j ∈ (T.pre n).map Prod.snd :=
      (pre_children_perm hT).mem_iff.mpr (List.mem_range.mpr (by omega))
    obtain ⟨b, hb, hbj⟩ := List.mem_map.mp this
    have hmem : (b.1 - n, b.2 - n) ∈ forwardIndices n T := fwd_mem.mpr ⟨b, hb, by omega, rfl⟩
    have := (hP _ hmem).2
    simpa [hbj] using this
  · rw [show j = n - 2 by omega, hroot, rroot]

/-! ## the difference transform -/

section diff
variable (mx : ℝ → ℝ → ℝ) (s x : Nat → ℝ)

/-- the node heights the model returns coincide with the post-order loop's array everywhere -/
theorem diff_heights_eq (hT : WF n T) (i : Nat) :
    nodeHeights n s (diffFwd n mx s (postorder n T) x) i = diffFwdAll n mx s (postorder n T) x i := by
  unfold nodeHeights diffFwd
  split
  · rename_i hi; exact ((diff_spec mx s x hT).2 i hi).symm
  · rename_i hi; rw [Nat.add_sub_cancel' (by omega)]

/-- **diff_valid**: non-negative increments (and any `mx` that dominates both arguments: the
maximum, or the smooth maximum) give a valid time tree: tips at their sampling times, every
parent at least as old as each child; strictly older for positive increments. -/
theorem diff_valid (hT : WF n T) (hmx : ∀ a b, a ≤ mx a b ∧ b ≤ mx a b)
    (hx : ∀ j, j < n - 1 → 0 ≤ x j) :
    (∀ i, i < n → nodeHeights n s (diffFwd n mx s (postorder n T) x) i = s i) ∧
    ∀ a ∈ preorder n T,
      nodeHeights n s (diffFwd n mx s (postorder n T) x) a.2
        ≤ nodeHeights n s (diffFwd n mx s (postorder n T) x) a.1 := by
  refine ⟨fun i hi => by simp [nodeHeights, hi], ?_⟩
  intro a ha
  rw [diff_heights_eq mx s x hT, diff_heights_eq mx s x hT]
  obtain ⟨b, hb, h1, h2⟩ := pre_to_post n T a ha
  obtain ⟨p1, p2, _, _⟩ := post_mem hT.tipsOK b hb
  have hi := hT.ints
  have e := (diff_spec mx s x hT).1 b hb
  have hx' := hx (b.1 - n) (by omega)
  rw [← h1, show postorder n T = T.post n from rfl, e]
  rcases h2 with h2 | h2 <;> rw [← h2]
  · linarith [(hmx (diffFwdAll n mx s (T.post n) x b.2.1) (diffFwdAll n mx s (T.post n) x b.2.2)).1]
  · linarith [(hmx (diffFwdAll n mx s (T.post n) x b.2.1) (diffFwdAll n mx s (T.post n) x b.2.2)).2]

theorem diff_valid_strict (hT : WF n T) (hmx : ∀ a b, a ≤ mx a b ∧ b ≤ mx a b)
    (hx : ∀ j, j < n - 1 → 0 < x j) :
    ∀ a ∈ preorder n T,
      nodeHeights n s (diffFwd n mx s (postorder n T) x) a.2
        < nodeHeights n s (diffFwd n mx s (postorder n T) x) a.1 := by
  intro a ha
  rw [diff_heights_eq mx s x hT, diff_heights_eq mx s x hT]
  obtain ⟨b, hb, h1, h2⟩ := pre_to_post n T a ha
  obtain ⟨p1, p2, _, _⟩ := post_mem hT.tipsOK b hb
  have hi := hT.ints
  have e := (diff_spec mx s x hT).1 b hb
  have hx' := hx (b.1 - n) (by omega)
  rw [← h1, show postorder n T = T.post n from rfl, e]
  rcases h2 with h2 | h2 <;> rw [← h2]
  · linarith [(hmx (diffFwdAll n mx s (T.post n) x b.2.1) (diffFwdAll n mx s (T.post n) x b.2.2)).1]
  · linarith [(hmx (diffFwdAll n mx s (T.post n) x b.2.1) (diffFwdAll n mx s (T.post n) x b.2.2)).2]

/-- `torch.max` dominates both arguments -/
theorem max2_dominates (a b : ℝ) : a ≤ max2 a b ∧ b ≤ max2 a b := by
  unfold max2; split
  · exact ⟨le_of_lt ‹_›, le_refl _⟩
  · exact ⟨le_refl _, not_lt.mp ‹_›⟩

/-- **diff_inv_fwd**: `inverse(forward(x)) = x` on all `n-1` positions, for any `mx` (the same
function is used in both directions), with no condition on `x`. -/
theorem diff_inv_fwd (hT : WF n T) :
    ∀ j, j < n - 1 →
      diffInv n mx s (postorder n T) (diffFwd n mx s (postorder n T) x) j = x j := by
  intro j hj
  obtain ⟨a, ha, haj⟩ := post_has hT hj
  have := diffInv_spec mx s hT (diffFwd n mx s (postorder n T) x) a ha
  rw [haj, Nat.add_sub_cancel_left] at this
  rw [show postorder n T = T.post n from rfl] at *
  rw [this]
  have e := (diff_spec mx s x hT).1 a ha
  have hh := diff_heights_eq (T := T) mx s x hT
  rw [show postorder n T = T.post n from rfl] at hh
  rw [hh, hh, hh, ← haj, e, haj, Nat.add_sub_cancel_left]
  ring

/-- **diff_fwd_inv**: `forward(inverse(y)) = y` on all `n-1` positions, for any `mx` and any `y`. -/
theorem diff_fwd_inv (hT : WF n T) (y : Nat → ℝ) :
    ∀ j, j < n - 1 →
      diffFwd n mx s (postorder n T) (diffInv n mx s (postorder n T) y) j = y j := by
  have hi := hT.ints
  set x' := diffInv n mx s (postorder n T) y with hx'
  have spec := diff_spec mx s x' hT
  have key : ∀ m i, i < m → i < 2 * n - 1 →
      diffFwdAll n mx s (T.post n) x' i = nodeHeights n s y i := by
    intro m
    induction m with
    | zero => intro i hi; omega
    | succ m ih =>
      intro i hi hlt
      by_cases hin : i < n
      · rw [spec.2 i hin]; simp [nodeHeights, hin]
      · obtain ⟨a, ha, hai⟩ := post_has hT (j := i - n) (by omega)
        have hai' : a.1 = i := by omega
        obtain ⟨_, _, c1, c2⟩ := post_mem hT.tipsOK a ha
        have e := spec.1 a ha
        have ev := diffInv_spec mx s hT y a ha
        rw [hai'] at e ev c1 c2
        rw [e, ih a.2.1 (by omega) (by omega), ih a.2.2 (by omega) (by omega)]
        rw [hx', show postorder n T = T.post n from rfl, ev]
        ring
  intro j hj
  unfold diffFwd
  rw [show postorder n T = T.post n from rfl, key (n + j + 1) (n + j) (by omega) (by omega)]
  simp [nodeHeights]

end diff

/-! ## sampling dates → leaf heights -/

/-- **leaf_heights**: dates whose smallest value is 0 are kept as ages; any other vector is read
as calendar dates, each tip getting `most recent date − date ≥ 0`. -/
theorem leaf_heights (dates : List ℝ) :
    (listMin dates = 0 → leafHeights dates = dates) ∧
    (listMin dates ≠ 0 →
      leafHeights dates = dates.map (fun d => listMax dates - d) ∧
      ∀ d ∈ dates, 0 ≤ listMax dates - d) := by
  constructor
  · intro h
    unfold leafHeights
    rw [if_neg]
    rw [h]; simp
  · intro h
    constructor
    · unfold leafHeights
      rw [if_pos]
      exact lt_or_gt_of_ne h
    · intro d hd
      have := (foldl_max_ge dates (dates.headD 0)).2 d hd
      unfold listMax
      linarith


/-! ## non-vacuity: a concrete heterochronous 4-taxon tree meets every hypothesis set -/
section examples

/-- `((T0,T1),(T2,T3))` -/
def T4 : BTree := .node (.node (.leaf 0) (.leaf 1)) (.node (.leaf 2) (.leaf 3))
/-- sampling times 0, 1, 2, 3 -/
noncomputable def s4 : Nat → ℝ := fun i => (i : ℝ)
/-- ratios 1/2, 1/2 and root height 5 -/
noncomputable def x4 : Nat → ℝ := fun j => if j = 2 then 5 else 1 / 2

theorem wf4 : WF 4 T4 := by unfold WF T4; decide

theorem dom4 : RatioDomOpen 4 (bounds 4 s4 (postorder 4 T4)) x4 := by
  refine ⟨fun j hj => ?_, ?_⟩
  · have : j ≠ 2 := by omega
    simp only [x4, this, if_false]; norm_num
  · obtain ⟨_, x, hx, e⟩ := root_bound_is_oldest_tip wf4 (by norm_num) s4
    have hx' : x ≤ 3 := by
      simp only [T4, BTree.tips, List.cons_append, List.nil_append, List.mem_cons,
        List.not_mem_nil, or_false] at hx
      omega
    have : s4 x ≤ 3 := by simp only [s4]; exact_mod_cast hx'
    show bounds 4 s4 (postorder 4 T4) (2 * 4 - 2) < x4 (4 - 2)
    rw [← e]; simp only [x4]; norm_num; linarith

example : ∀ a ∈ preorder 4 T4,
    nodeHeights 4 s4 (ratioFwd 4 (bounds 4 s4 (postorder 4 T4)) (forwardIndices 4 T4) x4) a.2
      < nodeHeights 4 s4 (ratioFwd 4 (bounds 4 s4 (postorder 4 T4)) (forwardIndices 4 T4) x4) a.1 :=
  (ratio_valid_strict s4 x4 wf4 (by norm_num) dom4).2

example : ∀ a ∈ preorder 4 T4,
    nodeHeights 4 s4 (ratioFwd 4 (bounds 4 s4 (postorder 4 T4)) (forwardIndices 4 T4) x4) a.2
      ≤ nodeHeights 4 s4 (ratioFwd 4 (bounds 4 s4 (postorder 4 T4)) (forwardIndices 4 T4) x4) a.1 :=
  (ratio_valid s4 x4 wf4 (by norm_num) dom4.closed).2

example : ∀ j, j < 3 →
    ratioInv 4 (bounds 4 s4 (postorder 4 T4)) (indicesSorted 4 T4)
      (ratioFwd 4 (bounds 4 s4 (postorder 4 T4)) (forwardIndices 4 T4) x4) j = x4 j :=
  ratio_inv_fwd_open wf4 (by norm_num) s4 x4 dom4

/-- the hypothesis of `ratio_fwd_inv` is met by every image of the open domain -/
example : ∀ j, j < 3 →
    ratioFwd 4 (bounds 4 s4 (postorder 4 T4)) (forwardIndices 4 T4)
      (ratioInv 4 (bounds 4 s4 (postorder 4 T4)) (indicesSorted 4 T4)
        (ratioFwd 4 (bounds 4 s4 (postorder 4 T4)) (forwardIndices 4 T4) x4)) j
      = ratioFwd 4 (bounds 4 s4 (postorder 4 T4)) (forwardIndices 4 T4) x4 j :=
  ratio_fwd_inv wf4 (by norm_num) s4 _ (ratio_image_nondegenerate wf4 (by norm_num) s4 x4 dom4)

example : ∀ a ∈ preorder 4 T4,
    nodeHeights 4 s4 (diffFwd 4 max2 s4 (postorder 4 T4) (fun _ => 1)) a.2
      < nodeHeights 4 s4 (diffFwd 4 max2 s4 (postorder 4 T4) (fun _ => 1)) a.1 :=
  diff_valid_strict max2 s4 _ wf4 max2_dominates (fun _ _ => one_pos)

example : SubAt T4 4 (.node (.leaf 2) (.leaf 3)) 5 := SubAt.right (l := .node (.leaf 0) (.leaf 1)) SubAt.refl

end examples

/-! ## device / dtype moves (generated table) -/

/-- the translator recognised every `cuda/cpu/to` body -/
theorem translator_recognised : translatorOk = true := by decide

theorem device_table_keeps :
    ∀ e ∈ table, e.2.2.apply .ratio = some .ratio ∧ e.2.2.apply .difference = some .difference := by
  decide

/-- **device_keeps_kind**: for every tree-model class carrying a node-height transform and each of
`cuda`, `cpu`, `to` (bodies regenerated from the source), the parameterisation in force after
the call is the one in force before it. -/
theorem device_keeps_kind (e : String × String × DevAction) (he : e ∈ table) (k : Kind) :
    e.2.2.apply k = some k := by
  cases k
  · exact (device_table_keeps e he).1
  · exact (device_table_keeps e he).2

/-- hence any sequence of device / dtype moves keeps the parameterisation -/
theorem device_moves_keep_kind (k : Kind) (moves : List (String × String × DevAction))
    (h : ∀ e ∈ moves, e ∈ table) :
    moves.foldl (fun s e => s.bind e.2.2.apply) (some k) = some k := by
  induction moves with
  | nil => rfl
  | cons e es ih =>
    simp only [List.foldl_cons, Option.bind_some]
    rw [device_keeps_kind e (h e (by simp)) k]
    exact ih (fun e he => h e (by simp [he]))

/-- the constructor installs the ratio transform exactly when `ratios_root_height` is given and the
difference transform when `shifts` is -/
theorem init_kinds :
    inits = [("ReparameterizedTimeTreeModel", "ratios_root_height", .ratio),
             ("ReparameterizedTimeTreeModel", "shifts", .difference)] := by decide

example : ("ReparameterizedTimeTreeModel", "cpu", DevAction.reinstall) ∈ table := by decide

end TTProps.C06
