/-! C06 property theorems — stub (not built yet). -/
namespace TTProps.C06
end TTProps.C06
