import TTProofs.Props.C02_Compose
import TTProofs.Lemmas.C04_Tables
import TTGen.C04Tables
import Mathlib.Data.Rat.Cast.Order
/-!
# C02 ∘ C04 ∘ generated tables — LG and WAG

`TTProps.C02_Compose.reroot_any_empirical` INSTANTIATED with the literal LG and WAG tables regenerated into
`TTGen/C04Tables.lean`: for the shipped LG and WAG models every sequence of root moves and every one of the `2n − 3`
rootings has the same likelihood.  A changed table entry re-opens these corollaries.
-/
namespace TTProps.C02_LGWAG
open TT TT.C01 TT.C02 TT.C04 TTProps.C02_Compose

noncomputable def lgRates : Nat → ℝ := fun k => ((ratOf (TTGen.C04Tables.lgRatesQ.getD k (0, 1)) : ℚ) : ℝ)
noncomputable def lgFreq : Fin 20 → ℝ := fun i => ((ratOf (TTGen.C04Tables.lgFreqQ.getD i.val (0, 1)) : ℚ) : ℝ)
noncomputable def wagRates : Nat → ℝ := fun k => ((ratOf (TTGen.C04Tables.wagRatesQ.getD k (0, 1)) : ℚ) : ℝ)
noncomputable def wagFreq : Fin 20 → ℝ := fun i => ((ratOf (TTGen.C04Tables.wagFreqQ.getD i.val (0, 1)) : ℚ) : ℝ)

/-- the translator recognised the source and the tables have 20 / 190 entries -/
theorem tables_ok :
    TTGen.C04Tables.translatorOk = true ∧
    TTGen.C04Tables.lgFreqQ.size = 20 ∧ TTGen.C04Tables.lgRatesQ.size = 190 ∧
    TTGen.C04Tables.wagFreqQ.size = 20 ∧ TTGen.C04Tables.wagRatesQ.size = 190 := by
  decide +kernel

variable {K : Nat}

/-- **LG satisfies the pulley hypotheses** (detailed balance, `P(0)=I`, semigroup) -/
theorem pulley_lg (rates : Fin K → ℝ) : Pulley lgFreq (edgeP (empiricalQ lgRates lgFreq) lgFreq rates) :=
  pulley_empirical lgRates lgFreq rates

theorem pulley_wag (rates : Fin K → ℝ) : Pulley wagFreq (edgeP (empiricalQ wagRates wagFreq) wagFreq rates) :=
  pulley_empirical wagRates wagFreq rates

/-- **LG: the root may sit on any branch** -/
theorem reroot_any_lg (rates props : Fin K → ℝ) (data : String → Fin 20 → ℝ) (T : LTree ℝ) :
    (∀ ms : List Move, likN lgFreq props (edgeP (empiricalQ lgRates lgFreq) lgFreq rates) data (reroot ms T)
        = likN lgFreq props (edgeP (empiricalQ lgRates lgFreq) lgFreq rates) data T) ∧
    (∀ T' ∈ allRootings T, likN lgFreq props (edgeP (empiricalQ lgRates lgFreq) lgFreq rates) data T'
        = likN lgFreq props (edgeP (empiricalQ lgRates lgFreq) lgFreq rates) data T) :=
  reroot_any_empirical lgRates lgFreq rates props data T

/-- **WAG: the root may sit on any branch** -/
theorem reroot_any_wag (rates props : Fin K → ℝ) (data : String → Fin 20 → ℝ) (T : LTree ℝ) :
    (∀ ms : List Move, likN wagFreq props (edgeP (empiricalQ wagRates wagFreq) wagFreq rates) data (reroot ms T)
        = likN wagFreq props (edgeP (empiricalQ wagRates wagFreq) wagFreq rates) data T) ∧
    (∀ T' ∈ allRootings T, likN wagFreq props (edgeP (empiricalQ wagRates wagFreq) wagFreq rates) data T'
        = likN wagFreq props (edgeP (empiricalQ wagRates wagFreq) wagFreq rates) data T) :=
  reroot_any_empirical wagRates wagFreq rates props data T

/-- the instantiation is about the literal values: the first WAG exchangeability is `1.14105` -/
example : wagRates 0 = 114105 / 100000 := by
  simp only [wagRates, ratOf]
  have : TTGen.C04Tables.wagRatesQ.getD 0 (0, 1) = (22821, 20000) := by decide +kernel
  rw [this]; norm_num

end TTProps.C02_LGWAG
