/-! C19 property theorems — stub (not built yet). -/
namespace TTProps.C19
end TTProps.C19
