import TTModel.C19_CLI
import TTGen.C19_Dispatch
import TTProofs.Lemmas.C19_CLI
import TTProofs.Lemmas.C19_Global
import TTProofs.Lemmas.C19_Covers
import TTProofs.Lemmas.C19_Meanfield
import Mathlib.Data.List.Nodup
import Mathlib.Algebra.BigOperators.Group.List.Basic
/-!
# C19 — the logic of the CLI: Jacobian collection and the constraint → transform rewriting

The theorems are about `TT.C19.createJacobians` / `makeUnconstrained`, which the harness ties to
`torchtree/cli/jacobians.py` and `torchtree/cli/utils.py` by replaying every real call the CLI
builders make (thousands of recorded inputs) on them.  They hold for every JSON value and every
interpretation `CliNum ν` of the numbers.  The exploration of the option space itself is NOT a
theorem (see the manifest: partial).
-/
namespace TTProps.C19
open TT.C13 TT.C13.Json TT.C19

variable {ν : Type} [CliNum ν]

/-! ## create_jacobians -/

/-- **jacobians_exactly_once**: whenever `create_jacobians` returns, its result is exactly the
list — in document order — of the ids of those dicts, occurring ANYWHERE in the specification
(any depth, inside lists, under any key), whose type is `TransformedParameter` and which are not
an `AffineTransform` with `scale == 1.0`: one entry per such object literal, and nothing else. -/
theorem jacobians_exactly_once (j : Json ν) (ids : List (Json ν))
    (h : createJacobians j = some ids) :
    ids = (subvalues j).filterMap jacIdOf := by
  rw [createJacobians_eq_collect] at h
  exact collect_eq_filterMap _ _ h

/-- membership form: `i` is listed iff it is the id of an included TransformedParameter literal
occurring somewhere in `j` -/
theorem jacobians_mem_iff (j : Json ν) (ids : List (Json ν)) (h : createJacobians j = some ids)
    (i : Json ν) :
    i ∈ ids ↔ ∃ kvs, Json.obj kvs ∈ subvalues j ∧ tpEntry kvs = some [i] := by
  rw [jacobians_exactly_once j ids h, List.mem_filterMap]
  constructor
  · rintro ⟨v, hv, hi⟩
    cases v with
    | obj kvs =>
      refine ⟨kvs, hv, ?_⟩
      simp only [jacIdOf, entryOf] at hi
      split at hi
      · rename_i i' he; cases hi; exact he
      · cases hi
    | _ => simp [jacIdOf, entryOf] at hi
  · rintro ⟨kvs, hv, he⟩
    exact ⟨.obj kvs, hv, by simp [jacIdOf, entryOf, he]⟩

/-- the id of ANY TransformedParameter literal (included or not) -/
def tpIdOf : Json ν → Option (Json ν)
  | .obj kvs => if strIs "TransformedParameter" (lookup "type" kvs) then lookup "id" kvs else none
  | _ => none

theorem jacIdOf_refines (v : Json ν) (i : Json ν) (h : jacIdOf v = some i) : tpIdOf v = some i := by
  cases v with
  | obj kvs =>
    simp only [jacIdOf, entryOf] at h
    split at h
    · rename_i i' he
      cases h
      rcases tpEntry_shape kvs [i] he with h0 | ⟨i2, h1, hid⟩
      · cases h0
      · cases h1
        have ht : strIs "TransformedParameter" (lookup "type" kvs) = true := by
          by_contra hn
          simp [tpEntry, hn] at he
        simp [tpIdOf, ht, hid]
    · cases h
  | _ => simp [jacIdOf, entryOf] at h

theorem filterMap_sublist_of_refines {α β : Type} (f g : α → Option β)
    (hfg : ∀ a b, f a = some b → g a = some b) :
    ∀ l : List α, (l.filterMap f).Sublist (l.filterMap g) := by
  intro l
  induction l with
  | nil => simp
  | cons a l ih =>
    cases hf : f a with
    | none =>
      cases hg : g a with
      | none => simpa [List.filterMap_cons, hf, hg] using ih
      | some b => simpa [List.filterMap_cons, hf, hg] using ih.cons b
    | some b =>
      have hg := hfg a b hf
      simpa [List.filterMap_cons, hf, hg] using ih.cons_cons b

/-- given distinct ids of the TransformedParameter literals, every Jacobian id is listed exactly
once -/
theorem jacobians_nodup (j : Json ν) (ids : List (Json ν)) (h : createJacobians j = some ids)
    (hdistinct : ((subvalues j).filterMap tpIdOf).Nodup) : ids.Nodup := by
  rw [jacobians_exactly_once j ids h]
  exact hdistinct.sublist (filterMap_sublist_of_refines _ _ jacIdOf_refines _)

/-- a toy interpretation of the numbers for the concrete examples (log/logit = identity) -/
instance instCliNumInt : CliNum Int where
  truthy x := x != 0
  isZero x := x == 0
  isOne x := x == 1
  pos x := x > 0
  eq a b := a == b
  zeroF := 0
  oneF := 1
  zeroI := 0
  pred x := x - 1
  toNat x := if x ≥ 0 then some x.toNat else none
  sub a b := a - b
  log x := x
  logit x := x
  stickInv xs := xs.dropLast

/-- non-vacuity: a TransformedParameter nested in a list under a dict is found, the
AffineTransform with scale 1 is left out, the nested child of the latter is still visited -/
example : (match createJacobians (ν := Int)
    (.arr [.obj [("id", .str "joint"), ("type", .str "JointDistributionModel"),
      ("distributions", .arr [
        .obj [("id", .str "a"), ("type", .str "TransformedParameter"),
              ("transform", .str "torch.distributions.ExpTransform"), ("x", .str "a.unres")],
        .obj [("id", .str "b"), ("type", .str "TransformedParameter"),
              ("transform", .str "torch.distributions.AffineTransform"),
              ("parameters", .obj [("loc", .num 3), ("scale", .num 1)]),
              ("x", .obj [("id", .str "b.unshifted"), ("type", .str "TransformedParameter"),
                          ("transform", .str "torch.distributions.ExpTransform"), ("x", .str "u")])]])]]) with
    | some [.str "a", .str "b.unshifted"] => true
    | _ => false) = true := by
  decide +kernel

/-! ## the tables read from the source

`TTGen/C19_Dispatch.lean` is regenerated on every run from `cli/utils.py:make_unconstrained`,
`cli/advi.py:create_meanfield` + `apply_*_transform` and the builders `build_hmc/mcmc/advi`. -/

/-- every code shape was recognised by the translator -/
theorem translator_recognised : TTGen.C19.recognised = true := by decide

/-- the constraint-dispatch table of `make_unconstrained` as read from the source -/
theorem source_unconstrain_table : TTGen.C19.unconstrain = Dispatch.reference := by decide

/-- … and of `create_meanfield` (through `apply_*_transform`) -/
theorem source_meanfield_table : TTGen.C19.meanfield = Dispatch.reference := by decide

/-- in every row the initial value of the child is computed with the inverse of the very transform
that is written into the specification (so `T(child) = initial value`) -/
theorem inverse_matches_declared :
    ∀ t ∈ [TTGen.C19.unconstrain, TTGen.C19.meanfield],
      ∀ r ∈ [t.unit, t.lower0, t.lowerPos, t.simplex], r.inverse = r.transform := by decide

/-- the sets torch's transforms map onto (trusted facts about torch.distributions) -/
inductive Range where
  | unitInterval      -- (0, 1)
  | positive          -- (0, ∞)
  | shift             -- ℝ + loc (composed with what follows)
  | simplex
  deriving DecidableEq, Repr

def rangeOf (transform : String) : Option Range :=
  if transform = sigmoidName then some .unitInterval
  else if transform = expName then some .positive
  else if transform = affineName then some .shift
  else if transform = stickName then some .simplex
  else none

/-- **the transform's range is the annotated set**, row by row of the tables read from the source:
`@lower 0, @upper 1` ↦ (0,1); `@lower ≤ 0` ↦ (0,∞); `@lower c > 0` ↦ shift by `c` of what the
lower-bound-0 row gives, i.e. (c,∞); `@simplex` ↦ the simplex -/
theorem dispatch_ranges :
    ∀ t ∈ [TTGen.C19.unconstrain, TTGen.C19.meanfield],
      rangeOf t.unit.transform = some .unitInterval ∧ rangeOf t.lower0.transform = some .positive ∧
      rangeOf t.lowerPos.transform = some .shift ∧ rangeOf t.simplex.transform = some .simplex := by
  decide

/-- the post-processing of the Jacobian list in the three builders, as read from the source:
`"tree"` is appended for a clock with ratio heights, `coalescent.theta` is removed for a piecewise
coalescent in the centred parameterisation only (F61) -/
theorem source_post :
    TTGen.C19.postHmc = ⟨true, .centeredOnly⟩ ∧ TTGen.C19.postMcmc = ⟨true, .centeredOnly⟩ ∧
    TTGen.C19.postAdvi = ⟨true, .centeredOnly⟩ := by decide

/-! ## the list finally handed to `joint.jacobian` -/

/-- **jacobians_exactly_once, lifted through the post-processing**: with pairwise distinct ids of the
TransformedParameter literals, none of them called `tree`, the list the builder hands to
`joint.jacobian` (i) has no repetition and (ii) consists exactly of: the id of every included
TransformedParameter literal occurring anywhere in the specification — except `coalescent.theta`
when the builder removes it — and `"tree"` when the clock/ratio condition holds. -/
theorem final_jacobians_exactly_once (p : Post) (f : Flags) (j : Json ν) (l : List (Json ν))
    (h : finalJacobians p f j = some l)
    (hdistinct : ((subvalues j).filterMap tpIdOf).Nodup)
    (htree : Json.str "tree" ∉ (subvalues j).filterMap tpIdOf) :
    l.Nodup ∧ ∀ x, x ∈ l ↔
      ((x ∈ (subvalues j).filterMap jacIdOf ∨ (p.appendTree && f.clock && f.ratio) = true ∧ x = .str "tree") ∧
       ((p.removes f) = true → isStr "coalescent.theta" x = false)) := by
  unfold finalJacobians at h
  cases hc : createJacobians j with
  | none => simp [hc] at h
  | some ids =>
    simp only [hc] at h
    have hids := jacobians_exactly_once j ids hc
    have hnd : ids.Nodup := jacobians_nodup j ids hc hdistinct
    have htree' : Json.str "tree" ∉ ids := by
      intro hm
      rw [hids] at hm
      exact htree ((filterMap_sublist_of_refines _ _ jacIdOf_refines _).subset hm)
    -- the list after the optional append
    have key : ∀ l1 : List (Json ν),
        l1 = (if (p.appendTree && f.clock && f.ratio) = true then ids ++ [Json.str "tree"] else ids) →
        l1.Nodup ∧ ∀ x, x ∈ l1 ↔ (x ∈ ids ∨ (p.appendTree && f.clock && f.ratio) = true ∧ x = .str "tree") := by
      intro l1 hl1
      by_cases ht : (p.appendTree && f.clock && f.ratio) = true
      · simp only [ht, if_true] at hl1
        subst hl1
        refine ⟨?_, by intro x; simp [ht]⟩
        rw [List.nodup_append]
        exact ⟨hnd, by simp, by intro a ha b hb; simp at hb; subst hb; intro hab; subst hab; exact htree' ha⟩
      · simp only [ht] at hl1
        subst hl1
        exact ⟨hnd, by intro x; simp [ht]⟩
    obtain ⟨hnd1, hmem1⟩ := key _ rfl
    by_cases hr : p.removes f = true
    · simp only [hr, if_true] at h
      refine ⟨hnd1.sublist (listRemove_sublist _ _ _ h), ?_⟩
      intro x
      rw [mem_listRemove _ _ _ hnd1 h x, hmem1 x, ← hids]
      simp [hr]
    · simp only [hr] at h
      simp only [Bool.false_eq_true, if_false, Option.some.injEq] at h
      subst h
      refine ⟨hnd1, ?_⟩
      intro x
      rw [hmem1 x, ← hids]
      simp [hr]

/-- the object appended by the builders lists `joint` first, then exactly that list -/
theorem joint_jacobian_lists (l : List (Json ν)) :
    lookup "distributions" (match jointJacobian l with | .obj kvs => kvs | _ => []) =
      some (.arr (.str "joint" :: l)) := by
  simp [jointJacobian, lookup]

/-- **bookkeeping half of the density identity.**  `lj i` is the log-Jacobian of the transform with id
`i` (its analytic correctness is C07), `J` the constrained joint density.  The density the sampler
gets is `J + Σ_{i listed} lj i`.  If every transform under a prior (`needed`) is listed or has an
identically zero log-Jacobian (the AffineTransform(scale 1) exclusion), and the listed ids are
distinct, then the sampler density is the constrained joint plus the log-Jacobian of each needed
transform EXACTLY ONCE, plus the terms of listed transforms under which no prior is placed
(an implicit flat prior on the constrained scale). -/
theorem sampler_density_bookkeeping {M : Type} [AddCommMonoid M] (J : M) (lj : String → M)
    (listed needed : List String) (hl : listed.Nodup) (hn : needed.Nodup)
    (hcover : ∀ i ∈ needed, i ∈ listed ∨ lj i = 0) :
    J + (listed.map lj).sum =
      J + (needed.map lj).sum + ((listed.filter (fun i => decide (i ∉ needed))).map lj).sum := by
  have hsplit : (listed.map lj).sum =
      ((listed.filter (fun i => decide (i ∈ needed))).map lj).sum +
      ((listed.filter (fun i => decide (i ∉ needed))).map lj).sum := by
    clear hl hcover
    induction listed with
    | nil => simp
    | cons a l ih =>
      by_cases ha : a ∈ needed
      · simp [List.filter_cons, ha, ih, add_assoc]
      · simp [List.filter_cons, ha, ih, add_left_comm]
  have hneeded : (needed.map lj).sum = ((listed.filter (fun i => decide (i ∈ needed))).map lj).sum := by
    -- both sides sum lj over the needed ids that are listed; the unlisted needed ids contribute 0
    have h1 : (needed.map lj).sum = ((needed.filter (fun i => decide (i ∈ listed))).map lj).sum := by
      clear hn hsplit
      induction needed with
      | nil => simp
      | cons a l ih =>
        have ih' := ih (fun i hi => hcover i (List.mem_cons_of_mem _ hi))
        by_cases ha : a ∈ listed
        · simp only [List.filter_cons, ha, decide_true, if_true, List.map_cons, List.sum_cons]
          rw [ih']
        · have h0 : lj a = 0 := (hcover a List.mem_cons_self).resolve_left ha
          simp only [List.filter_cons, ha, decide_false, Bool.false_eq_true, if_false, List.map_cons,
            List.sum_cons, h0, zero_add]
          rw [ih']
    rw [h1]
    apply List.Perm.sum_eq
    apply List.Perm.map
    rw [List.perm_ext_iff_of_nodup (hn.filter _) (hl.filter _)]
    intro a
    simp [List.mem_filter, and_comm]
  rw [hsplit, hneeded, add_assoc]

/-- the two halves together, for the list a builder emits: if the emitted `joint.jacobian` lists the
(string) ids `ids`, the TransformedParameter ids of the specification are pairwise distinct and none
is called `tree`, and every transform under a prior is among `ids` or has zero log-Jacobian, then
the density handed to the sampler is the constrained joint plus each needed log-Jacobian exactly
once (plus the terms of listed transforms under which no prior is placed). -/
theorem density_identity_for_emitted {M : Type} [AddCommMonoid M] (J : M) (lj : String → M)
    (p : Post) (f : Flags) (j : Json ν) (ids needed : List String)
    (h : finalJacobians p f j = some (ids.map Json.str))
    (hdistinct : ((subvalues j).filterMap tpIdOf).Nodup)
    (htree : Json.str "tree" ∉ (subvalues j).filterMap tpIdOf)
    (hn : needed.Nodup) (hcover : ∀ i ∈ needed, i ∈ ids ∨ lj i = 0) :
    J + (ids.map lj).sum =
      J + (needed.map lj).sum + ((ids.filter (fun i => decide (i ∉ needed))).map lj).sum := by
  have hnd := (final_jacobians_exactly_once p f j _ h hdistinct htree).1
  exact sampler_density_bookkeeping J lj ids needed (List.Nodup.of_map _ hnd) hn hcover

/-! ## make_unconstrained

Global statement first, then what it means for one parameter, then the exact values case by case. -/

/-- **unconstrain_global**: `make_unconstrained` on a whole specification replaces every `Parameter`
literal it reaches (any depth, inside lists, under any key; it does not look inside a `Parameter`
literal) by its `paramCase` image, changes nothing else, and reports — in document order — the
concatenation of what `paramCase` reports for each of them. -/
theorem unconstrain_global (d : Dispatch) (j : Json ν) (r : Unc ν) (h : makeUnconstrained d j = some r) :
    (∀ kvs ∈ topParams j, (paramCase d kvs).isSome = true) ∧ r.json = mapTop (ucJson d) j ∧
    r.unres = (topParams j).flatMap (ucUnres d) ∧ r.params = (topParams j).flatMap (ucParams d) :=
  makeUnconstrained_global d j r h

/-- **unconstrain_covers** (one statement over the Json tree): if `make_unconstrained` returns,
then for EVERY `Parameter` literal reached anywhere in the document
* if a row of the dispatch table applies to its annotation (unit interval, lower bound, simplex), its
  image in the output is a `TransformedParameter` carrying that row's transform over a child, and
  what is handed to the sampler for it is a non-empty list of plain `Parameter`s free of any
  constraint annotation;
* otherwise (fixed `@lower == @upper`, or no annotation) its image is the literal itself;
and the output is the input with exactly these replacements. -/
theorem unconstrain_covers (d : Dispatch) (j : Json ν) (r : Unc ν) (h : makeUnconstrained d j = some r) :
    r.json = mapTop (ucJson d) j ∧
    ∀ kvs ∈ topParams j, ∃ u, paramCase d kvs = some u ∧ ucJson d kvs = u.json ∧
      (∀ row, rowOf d kvs = some row →
        IsTransformed row u.json ∧ u.unres ≠ [] ∧ ∀ c ∈ u.unres, CleanParam c) ∧
      (rowOf d kvs = none → u.json = .obj kvs) := by
  have hg := makeUnconstrained_global d j r h
  refine ⟨hg.2.1, ?_⟩
  intro kvs hk
  have hs := hg.1 kvs hk
  cases hp : paramCase d kvs with
  | none => simp [hp] at hs
  | some u =>
    refine ⟨u, rfl, by simp [ucJson, hp], ?_, ?_⟩
    · intro row hr; exact paramCase_covers d kvs u row hp hr
    · intro hr; exact paramCase_untouched d kvs u hp hr

/-- everything handed to the sampler is an unconstrained plain parameter or an unannotated/fixed
parameter passed through as it is: no annotated parameter reaches the sampler un-rewritten -/
theorem unconstrain_sampler_gets_clean (d : Dispatch) (j : Json ν) (r : Unc ν)
    (h : makeUnconstrained d j = some r) :
    ∀ c ∈ r.unres, CleanParam c ∨ ∃ kvs ∈ topParams j, c = .obj kvs ∧ rowOf d kvs = none := by
  have hg := makeUnconstrained_global d j r h
  intro c hc
  rw [hg.2.2.1, List.mem_flatMap] at hc
  obtain ⟨kvs, hk, hcu⟩ := hc
  have hs := hg.1 kvs hk
  cases hp : paramCase d kvs with
  | none => simp [hp] at hs
  | some u =>
    simp only [ucUnres, hp] at hcu
    cases hr : rowOf d kvs with
    | some row => exact Or.inl ((paramCase_covers d kvs u row hp hr).2.2 c hcu)
    | none =>
      right
      refine ⟨kvs, hk, ?_, hr⟩
      -- untouched: the reported object is the literal itself (or nothing, for a fixed parameter)
      unfold paramCase at hp
      unfold rowOf at hr
      split at hp
      · rename_i lo up hlo hup
        simp only [hlo, hup] at hr
        by_cases hcnd : (isLo0 lo && isUp1 up) = true
        · simp [hcnd] at hr
        · simp only [hcnd, Bool.false_eq_true, if_false] at hp
          split at hp
          · cases hp; simp at hcu
          · cases hp
      · rename_i lo hlo hup
        simp only [hlo, hup] at hr
        cases lo with
        | num x => simp only at hr; split at hr <;> cases hr
        | _ => simp at hp
      · rename_i hlo
        simp only [hlo] at hr
        by_cases hs' : simplexFlag kvs = true
        · simp [hs'] at hr
        · simp only [hs', Bool.false_eq_true, if_false] at hp
          split at hp
          · cases hp; simpa using hcu
          · cases hp

/-! exact values, for the table read from the source (`Dispatch.reference`) -/

theorem elemInv_sigmoid : elemInv (ν := ν) sigmoidName = some CliNum.logit := by
  simp [elemInv]
theorem elemInv_exp : elemInv (ν := ν) expName = some CliNum.log := by
  simp [elemInv, expName, sigmoidName]

/-- **unit interval**: `@lower: 0, @upper: 1`, initial value a list → `SigmoidTransform` over a
fresh `id.unres` carrying `logit(initial)`; `id` is reported, the child goes to the sampler. -/
theorem unconstrain_covers_unit_interval (kvs : List (String × Json ν)) (lo up : Json ν) (i : String)
    (xs : List (Json ν))
    (hlo : lookup "@lower" kvs = some lo) (hup : lookup "@upper" kvs = some up)
    (hunit : (isLo0 lo && isUp1 up) = true)
    (hid : lookup "id" kvs = some (.str i)) (ht : lookup "tensor" kvs = some (.arr xs)) :
    paramCase Dispatch.reference kvs =
      (mapNum CliNum.logit (.arr xs)).map fun t =>
        let x : Json ν := .obj [("id", .str (i ++ ".unres")), ("type", .str "Parameter"), ("tensor", t)]
        ⟨.obj (rewrittenAs kvs sigmoidName x []), [x], [.str i]⟩ := by
  simp only [paramCase, hlo, hup, hunit, if_true, sigmoidCase, idPlus, hid, ht, Dispatch.reference, elemInv_sigmoid, childOf]
  cases hm : mapNum CliNum.logit (.arr xs) <;> simp [hm, bind, Option.bind, pure, Dispatch.reference]

/-- **lower bound 0** (`@lower` not positive, no `@upper`), plain initial value → `ExpTransform`
over `id.unres` carrying `log(initial)`. -/
theorem unconstrain_covers_positive (kvs : List (String × Json ν)) (lo : ν) (i : String) (tensor : Json ν)
    (hlo : lookup "@lower" kvs = some (.num lo)) (hup : lookup "@upper" kvs = none)
    (hpos : CliNum.pos lo = false)
    (hid : lookup "id" kvs = some (.str i)) (ht : lookup "tensor" kvs = some tensor)
    (hf : lookup "full" kvs = none) (hfl : lookup "full_like" kvs = none) :
    paramCase Dispatch.reference kvs =
      (mapNum CliNum.log tensor).map fun t =>
        let x : Json ν := .obj [("id", .str (i ++ ".unres")), ("type", .str "Parameter"), ("tensor", t)]
        ⟨.obj (rewrittenAs kvs expName x []), [x], [.str i]⟩ := by
  simp only [paramCase, hlo, hup, hpos, expCase, idPlus, hid, ht, Dispatch.reference, elemInv_exp, childOf, hasKey, hf, hfl]
  cases hm : mapNum CliNum.log tensor <;> simp [hm, bind, Option.bind, pure, Dispatch.reference]

/-- **lower bound 0, `full` form** (`tensor` a scalar replicated `full` times): the child keeps the
`full` shape and carries `log(scalar)`; `full` is removed from the parent. -/
theorem unconstrain_covers_positive_full (kvs : List (String × Json ν)) (lo v : ν) (i : String) (full : Json ν)
    (hlo : lookup "@lower" kvs = some (.num lo)) (hup : lookup "@upper" kvs = none)
    (hpos : CliNum.pos lo = false)
    (hid : lookup "id" kvs = some (.str i)) (ht : lookup "tensor" kvs = some (.num v))
    (hf : lookup "full" kvs = some full) :
    paramCase Dispatch.reference kvs =
      let x : Json ν := .obj [("id", .str (i ++ ".unres")), ("type", .str "Parameter"),
                               ("tensor", .num (CliNum.log v)), ("full", full)]
      some ⟨.obj (rewrittenAs kvs expName x ["full"]), [x], [.str i]⟩ := by
  simp [paramCase, hlo, hup, hpos, expCase, childOf, idPlus, hid, ht, hf, hasKey, mapNum, scalarOnly,
    bind, Option.bind, pure, Dispatch.reference, elemInv_exp]

/-- **simplex** (`@simplex` truthy, initial value a list): `StickBreakingTransform` over `id.unres`
carrying the stick-breaking inverse of the initial vector. -/
theorem unconstrain_covers_simplex (kvs : List (String × Json ν)) (i : String) (xs : List (Json ν)) (vec : List ν)
    (hlo : lookup "@lower" kvs = none) (hs : simplexFlag kvs = true)
    (hid : lookup "id" kvs = some (.str i)) (ht : lookup "tensor" kvs = some (.arr xs))
    (hv : numList xs = some vec) (hf : lookup "full" kvs = none) :
    paramCase Dispatch.reference kvs =
      let x : Json ν := .obj [("id", .str (i ++ ".unres")), ("type", .str "Parameter"),
                               ("tensor", .arr ((CliNum.stickInv vec).map .num))]
      some ⟨.obj (delKey "tensor" (setKey "x" x (setKey "transform" (.str stickName)
              (setKey "type" (.str "TransformedParameter") kvs)))), [x], [.str i]⟩ := by
  simp [paramCase, hlo, hs, simplexCase, simplexVec, idPlus, hid, ht, hv, hf, hasKey, Dispatch.reference]

/-- **positive lower bound** `@lower: c > 0`: `AffineTransform(loc = c, scale = 1.0)` over
`id.unshifted = initial − c`, which (lower bound `0.0`) is in turn an `ExpTransform` over
`id.unshifted.unres = log(initial − c)`.  (As coded, the id REPORTED is `id.unshifted`.) -/
theorem unconstrain_covers_lower_bound (kvs : List (String × Json ν)) (lo : ν) (i : String) (tensor : Json ν)
    (hlo : lookup "@lower" kvs = some (.num lo)) (hup : lookup "@upper" kvs = none)
    (hpos : CliNum.pos lo = true)
    (hid : lookup "id" kvs = some (.str i)) (ht : lookup "tensor" kvs = some tensor) :
    paramCase Dispatch.reference kvs =
      (mapNum (fun y => CliNum.sub y lo) tensor).bind fun t =>
        (mapNum CliNum.log t).map fun u =>
          let xu : Json ν := .obj [("id", .str (i ++ ".unshifted" ++ ".unres")), ("type", .str "Parameter"), ("tensor", u)]
          let shifted : List (String × Json ν) :=
            [("id", .str (i ++ ".unshifted")), ("type", .str "Parameter"), ("tensor", t), ("@lower", .num CliNum.zeroF)]
          let xs : Json ν := .obj (rewrittenAs shifted expName xu [])
          ⟨.obj (delKey "tensor" (setKey "x" xs
              (setKey "parameters" (.obj [("loc", .num lo), ("scale", .num CliNum.oneF)])
                (setKey "transform" (.str affineName)
                  (setKey "type" (.str "TransformedParameter") kvs))))),
           [xu], [.str (i ++ ".unshifted")]⟩ := by
  simp only [paramCase, hlo, hup, hpos, if_true, affineCase, idPlus, hid, ht]
  cases h1 : mapNum (fun y => CliNum.sub y lo) tensor with
  | none => simp [h1, Dispatch.reference, Option.bind]
  | some t =>
    simp only [h1, Option.bind, expCase, childOf, idPlus, lookup, hasKey, Dispatch.reference, elemInv_exp]
    cases h2 : mapNum CliNum.log t <;>
      cases t <;> simp_all [bind, Option.bind, pure, lookup, hasKey, Dispatch.reference]

/-- **fixed** parameters (`@lower == @upper`, not the unit interval) are left untouched and are NOT
handed to the sampler. -/
theorem unconstrain_fixed_untouched (d : Dispatch) (kvs : List (String × Json ν)) (lo up : Json ν)
    (hlo : lookup "@lower" kvs = some lo) (hup : lookup "@upper" kvs = some up)
    (hunit : (isLo0 lo && isUp1 up) = false) (heq : sameBound lo up = true) :
    paramCase d kvs = some ⟨.obj kvs, [], []⟩ := by
  simp [paramCase, hlo, hup, hunit, heq]

/-- an interval other than (0,1) is refused (`NotImplementedError`) rather than mis-translated -/
theorem unconstrain_other_interval_refused (d : Dispatch) (kvs : List (String × Json ν)) (lo up : Json ν)
    (hlo : lookup "@lower" kvs = some lo) (hup : lookup "@upper" kvs = some up)
    (hunit : (isLo0 lo && isUp1 up) = false) (hne : sameBound lo up = false) :
    paramCase d kvs = none := by
  simp [paramCase, hlo, hup, hunit, hne]

/-- an unannotated parameter is handed to the sampler as it is -/
theorem unconstrain_plain (d : Dispatch) (kvs : List (String × Json ν)) (i : Json ν)
    (hlo : lookup "@lower" kvs = none) (hs : simplexFlag kvs = false)
    (hid : lookup "id" kvs = some i) :
    paramCase d kvs = some ⟨.obj kvs, [.obj kvs], [i]⟩ := by
  simp [paramCase, hlo, hs, hid]

/-- non-vacuity: the annotation kinds in one nested specification (toy numbers: log/logit are the
identity, so only the bookkeeping is visible) -/
example : (match makeUnconstrained (ν := Int) TTGen.C19.unconstrain
    (.arr [.obj [("id", .str "m"), ("type", .str "Model"),
      ("a", .obj [("id", .str "p"), ("type", .str "Parameter"), ("tensor", .arr [.num 5]), ("@lower", .num 0)]),
      ("b", .arr [.obj [("id", .str "q"), ("type", .str "Parameter"), ("tensor", .arr [.num 2]),
                        ("@lower", .num 0), ("@upper", .num 1)],
                  .obj [("id", .str "r"), ("type", .str "Parameter"), ("tensor", .arr [.num 7]),
                        ("@lower", .num 3), ("@upper", .num 3)]])]]) with
    | some ⟨_, [_, _], [.str "p", .str "q"]⟩ => true
    | _ => false) = true := by
  decide +kernel

/-! ## create_meanfield (default family): the rewriting of the joint -/

/-- **meanfield_covers** (one statement over the Json tree): if the rewriting `create_meanfield`
performs returns, the joint afterwards is the joint before with every reached `Parameter` literal
replaced by its `mfParam` image; the image of a literal to which a row of the meanfield table
applies is a `TransformedParameter` with that row's transform over a child, every other literal is
left as it is. -/
theorem meanfield_covers (m : Dispatch) (j j' : Json ν) (h : meanfieldRewrite m j = some j') :
    j' = mapTop (mfJson m) j ∧
    ∀ kvs ∈ topParams j, ∃ img, mfParam m kvs = some img ∧ mfJson m kvs = img ∧
      (∀ row, mfRowOf m kvs = some row → IsTransformed row img) ∧
      (mfRowOf m kvs = none → img = .obj kvs) := by
  have hg := meanfieldRewrite_global m j j' h
  refine ⟨hg.2, ?_⟩
  intro kvs hk
  have hs := hg.1 kvs hk
  cases hp : mfParam m kvs with
  | none => simp [hp] at hs
  | some img =>
    exact ⟨img, rfl, by simp [mfJson, hp], fun row hr => mfParam_covers m kvs img row hp hr,
      fun hr => mfParam_untouched m kvs img hp hr⟩

end TTProps.C19
