import TTModel.C19_CLI
import TTProofs.Lemmas.C19_CLI
import Mathlib.Data.List.Nodup
/-!
# C19 — the logic of the CLI: Jacobian collection and the constraint → transform rewriting

The theorems are about `TT.C19.createJacobians` / `makeUnconstrained`, which the harness ties to
`torchtree/cli/jacobians.py` and `torchtree/cli/utils.py` by replaying every real call the CLI
builders make (thousands of recorded inputs) on them.  They hold for every JSON value and every
interpretation `CliNum ν` of the numbers.  The exploration of the option space itself is NOT a
theorem (see the manifest: partial).
-/
namespace TTProps.C19
open TT.C13 TT.C13.Json TT.C19

variable {ν : Type} [CliNum ν]

/-! ## create_jacobians -/

/-- **jacobians_exactly_once**: whenever `create_jacobians` returns, its result is exactly the
list — in document order — of the ids of those dicts, occurring ANYWHERE in the specification
(any depth, inside lists, under any key), whose type is `TransformedParameter` and which are not
an `AffineTransform` with `scale == 1.0`: one entry per such object literal, and nothing else. -/
theorem jacobians_exactly_once (j : Json ν) (ids : List (Json ν))
    (h : createJacobians j = some ids) :
    ids = (subvalues j).filterMap jacIdOf := by
  rw [createJacobians_eq_collect] at h
  exact collect_eq_filterMap _ _ h

/-- membership form: `i` is listed iff it is the id of an included TransformedParameter literal
occurring somewhere in `j` -/
theorem jacobians_mem_iff (j : Json ν) (ids : List (Json ν)) (h : createJacobians j = some ids)
    (i : Json ν) :
    i ∈ ids ↔ ∃ kvs, Json.obj kvs ∈ subvalues j ∧ tpEntry kvs = some [i] := by
  rw [jacobians_exactly_once j ids h, List.mem_filterMap]
  constructor
  · rintro ⟨v, hv, hi⟩
    cases v with
    | obj kvs =>
      refine ⟨kvs, hv, ?_⟩
      simp only [jacIdOf, entryOf] at hi
      split at hi
      · rename_i i' he; cases hi; exact he
      · cases hi
    | _ => simp [jacIdOf, entryOf] at hi
  · rintro ⟨kvs, hv, he⟩
    exact ⟨.obj kvs, hv, by simp [jacIdOf, entryOf, he]⟩

/-- the id of ANY TransformedParameter literal (included or not) -/
def tpIdOf : Json ν → Option (Json ν)
  | .obj kvs => if strIs "TransformedParameter" (lookup "type" kvs) then lookup "id" kvs else none
  | _ => none

theorem jacIdOf_refines (v : Json ν) (i : Json ν) (h : jacIdOf v = some i) : tpIdOf v = some i := by
  cases v with
  | obj kvs =>
    simp only [jacIdOf, entryOf] at h
    split at h
    · rename_i i' he
      cases h
      rcases tpEntry_shape kvs [i] he with h0 | ⟨i2, h1, hid⟩
      · cases h0
      · cases h1
        have ht : strIs "TransformedParameter" (lookup "type" kvs) = true := by
          by_contra hn
          simp [tpEntry, hn] at he
        simp [tpIdOf, ht, hid]
    · cases h
  | _ => simp [jacIdOf, entryOf] at h

theorem filterMap_sublist_of_refines {α β : Type} (f g : α → Option β)
    (hfg : ∀ a b, f a = some b → g a = some b) :
    ∀ l : List α, (l.filterMap f).Sublist (l.filterMap g) := by
  intro l
  induction l with
  | nil => simp
  | cons a l ih =>
    cases hf : f a with
    | none =>
      cases hg : g a with
      | none => simpa [List.filterMap_cons, hf, hg] using ih
      | some b => simpa [List.filterMap_cons, hf, hg] using ih.cons b
    | some b =>
      have hg := hfg a b hf
      simpa [List.filterMap_cons, hf, hg] using ih.cons_cons b

/-- given distinct ids of the TransformedParameter literals, every Jacobian id is listed exactly
once -/
theorem jacobians_nodup (j : Json ν) (ids : List (Json ν)) (h : createJacobians j = some ids)
    (hdistinct : ((subvalues j).filterMap tpIdOf).Nodup) : ids.Nodup := by
  rw [jacobians_exactly_once j ids h]
  exact hdistinct.sublist (filterMap_sublist_of_refines _ _ jacIdOf_refines _)

/-- a toy interpretation of the numbers for the concrete examples (log/logit = identity) -/
instance instCliNumInt : CliNum Int where
  truthy x := x != 0
  isZero x := x == 0
  isOne x := x == 1
  pos x := x > 0
  eq a b := a == b
  zeroF := 0
  oneF := 1
  zeroI := 0
  pred x := x - 1
  toNat x := if x ≥ 0 then some x.toNat else none
  sub a b := a - b
  log x := x
  logit x := x
  stickInv xs := xs.dropLast

/-- non-vacuity: a TransformedParameter nested in a list under a dict is found, the
AffineTransform with scale 1 is left out, the nested child of the latter is still visited -/
example : (match createJacobians (ν := Int)
    (.arr [.obj [("id", .str "joint"), ("type", .str "JointDistributionModel"),
      ("distributions", .arr [
        .obj [("id", .str "a"), ("type", .str "TransformedParameter"),
              ("transform", .str "torch.distributions.ExpTransform"), ("x", .str "a.unres")],
        .obj [("id", .str "b"), ("type", .str "TransformedParameter"),
              ("transform", .str "torch.distributions.AffineTransform"),
              ("parameters", .obj [("loc", .num 3), ("scale", .num 1)]),
              ("x", .obj [("id", .str "b.unshifted"), ("type", .str "TransformedParameter"),
                          ("transform", .str "torch.distributions.ExpTransform"), ("x", .str "u")])]])]]) with
    | some [.str "a", .str "b.unshifted"] => true
    | _ => false) = true := by
  decide +kernel

/-! ## make_unconstrained

`unconstrain_covers` is stated case by case, as the exact value `make_unconstrained` computes for a
`Parameter` dict under each kind of annotation (the transform names are torch's: Sigmoid has range
(0,1), Exp (0,∞), Affine(loc,1)∘Exp (loc,∞), StickBreaking the simplex — the annotated sets). -/

/-- **unit interval**: `@lower: 0, @upper: 1`, initial value a list → `SigmoidTransform` over a
fresh `id.unres` carrying `logit(initial)`; `id` is reported, the child goes to the sampler. -/
theorem unconstrain_covers_unit_interval (kvs : List (String × Json ν)) (lo up : ν) (i : String)
    (xs : List (Json ν))
    (hlo : lookup "@lower" kvs = some (.num lo)) (hup : lookup "@upper" kvs = some (.num up))
    (h0 : CliNum.isZero lo = true) (h1 : CliNum.isOne up = true)
    (hid : lookup "id" kvs = some (.str i)) (ht : lookup "tensor" kvs = some (.arr xs)) :
    paramCase kvs =
      (mapNum CliNum.logit (.arr xs)).map fun t =>
        let x : Json ν := .obj [("id", .str (i ++ ".unres")), ("type", .str "Parameter"), ("tensor", t)]
        ⟨.obj (rewrittenAs kvs "torch.distributions.SigmoidTransform" x []), [x], [.str i]⟩ := by
  simp only [paramCase, hlo, hup, h0, h1, Bool.and_self, if_true, sigmoidCase, childOf, idPlus, hid, ht]
  cases hm : mapNum CliNum.logit (.arr xs) <;> simp [hm, bind, Option.bind, pure]

/-- **unit interval, `full` form** (`tensor` a scalar replicated `full` times): the child keeps the
`full` shape and carries `logit(scalar)`; `full` is removed from the parent. -/
theorem unconstrain_covers_unit_interval_full (kvs : List (String × Json ν)) (lo up v : ν) (i : String)
    (full : Json ν)
    (hlo : lookup "@lower" kvs = some (.num lo)) (hup : lookup "@upper" kvs = some (.num up))
    (h0 : CliNum.isZero lo = true) (h1 : CliNum.isOne up = true)
    (hid : lookup "id" kvs = some (.str i)) (ht : lookup "tensor" kvs = some (.num v))
    (hf : lookup "full" kvs = some full) :
    paramCase kvs =
      let x : Json ν := .obj [("id", .str (i ++ ".unres")), ("type", .str "Parameter"),
                               ("tensor", .num (CliNum.logit v)), ("full", full)]
      some ⟨.obj (rewrittenAs kvs "torch.distributions.SigmoidTransform" x ["full"]), [x], [.str i]⟩ := by
  simp [paramCase, hlo, hup, h0, h1, sigmoidCase, childOf, idPlus, hid, ht, hf, hasKey, mapNum,
    scalarOnly, bind, Option.bind, pure]

/-- **lower bound 0** (`@lower` not positive, no `@upper`), plain initial value → `ExpTransform`
over `id.unres` carrying `log(initial)`. -/
theorem unconstrain_covers_positive (kvs : List (String × Json ν)) (lo : ν) (i : String) (tensor : Json ν)
    (hlo : lookup "@lower" kvs = some (.num lo)) (hup : lookup "@upper" kvs = none)
    (hpos : CliNum.pos lo = false)
    (hid : lookup "id" kvs = some (.str i)) (ht : lookup "tensor" kvs = some tensor)
    (hf : lookup "full" kvs = none) (hfl : lookup "full_like" kvs = none) :
    paramCase kvs =
      (mapNum CliNum.log tensor).map fun t =>
        let x : Json ν := .obj [("id", .str (i ++ ".unres")), ("type", .str "Parameter"), ("tensor", t)]
        ⟨.obj (rewrittenAs kvs "torch.distributions.ExpTransform" x []), [x], [.str i]⟩ := by
  simp only [paramCase, hlo, hup, hpos, expCase, childOf, idPlus, hid, ht, hasKey, hf, hfl]
  cases hm : mapNum CliNum.log tensor <;> simp [hm, bind, Option.bind, pure]

/-- **lower bound 0, `full` form** -/
theorem unconstrain_covers_positive_full (kvs : List (String × Json ν)) (lo v : ν) (i : String) (full : Json ν)
    (hlo : lookup "@lower" kvs = some (.num lo)) (hup : lookup "@upper" kvs = none)
    (hpos : CliNum.pos lo = false)
    (hid : lookup "id" kvs = some (.str i)) (ht : lookup "tensor" kvs = some (.num v))
    (hf : lookup "full" kvs = some full) :
    paramCase kvs =
      let x : Json ν := .obj [("id", .str (i ++ ".unres")), ("type", .str "Parameter"),
                               ("tensor", .num (CliNum.log v)), ("full", full)]
      some ⟨.obj (rewrittenAs kvs "torch.distributions.ExpTransform" x ["full"]), [x], [.str i]⟩ := by
  simp [paramCase, hlo, hup, hpos, expCase, childOf, idPlus, hid, ht, hf, hasKey, mapNum, scalarOnly,
    bind, Option.bind, pure]

/-- **positive lower bound** `@lower: c > 0`: `AffineTransform(loc = c, scale = 1.0)` over
`id.unshifted = initial − c`, which (lower bound `0.0`) is in turn an `ExpTransform` over
`id.unshifted.unres = log(initial − c)`.  (As coded, the id REPORTED is `id.unshifted`.) -/
theorem unconstrain_covers_lower_bound (kvs : List (String × Json ν)) (lo : ν) (i : String) (tensor : Json ν)
    (hlo : lookup "@lower" kvs = some (.num lo)) (hup : lookup "@upper" kvs = none)
    (hpos : CliNum.pos lo = true)
    (hid : lookup "id" kvs = some (.str i)) (ht : lookup "tensor" kvs = some tensor) :
    paramCase kvs =
      (mapNum (fun y => CliNum.sub y lo) tensor).bind fun t =>
        (mapNum CliNum.log t).map fun u =>
          let xu : Json ν := .obj [("id", .str (i ++ ".unshifted" ++ ".unres")), ("type", .str "Parameter"), ("tensor", u)]
          let shifted : List (String × Json ν) :=
            [("id", .str (i ++ ".unshifted")), ("type", .str "Parameter"), ("tensor", t), ("@lower", .num CliNum.zeroF)]
          let xs : Json ν := .obj (rewrittenAs shifted "torch.distributions.ExpTransform" xu [])
          ⟨.obj (delKey "tensor" (setKey "x" xs
              (setKey "parameters" (.obj [("loc", .num lo), ("scale", .num CliNum.oneF)])
                (setKey "transform" (.str "torch.distributions.AffineTransform")
                  (setKey "type" (.str "TransformedParameter") kvs))))),
           [xu], [.str (i ++ ".unshifted")]⟩ := by
  simp only [paramCase, hlo, hup, hpos, if_true, affineCase, idPlus, hid, ht]
  cases h1 : mapNum (fun y => CliNum.sub y lo) tensor with
  | none => simp [h1, bind, Option.bind]
  | some t =>
    simp only [h1, bind, Option.bind, expCase, childOf, idPlus, lookup, hasKey]
    cases h2 : mapNum CliNum.log t with
    | none =>
      cases t <;> simp_all [bind, Option.bind, pure, lookup, hasKey]
    | some u =>
      cases t <;> simp_all [bind, Option.bind, pure, lookup, hasKey]

/-- **fixed** parameters (`@lower == @upper`, not the unit interval) are left untouched and are NOT
handed to the sampler. -/
theorem unconstrain_fixed_untouched (kvs : List (String × Json ν)) (lo up : ν)
    (hlo : lookup "@lower" kvs = some (.num lo)) (hup : lookup "@upper" kvs = some (.num up))
    (hunit : (CliNum.isZero lo && CliNum.isOne up) = false) (heq : CliNum.eq lo up = true) :
    paramCase kvs = some ⟨.obj kvs, [], []⟩ := by
  simp [paramCase, hlo, hup, hunit, heq]

/-- an interval other than (0,1) is refused (`NotImplementedError`) rather than mis-translated -/
theorem unconstrain_other_interval_refused (kvs : List (String × Json ν)) (lo up : ν)
    (hlo : lookup "@lower" kvs = some (.num lo)) (hup : lookup "@upper" kvs = some (.num up))
    (hunit : (CliNum.isZero lo && CliNum.isOne up) = false) (hne : CliNum.eq lo up = false) :
    paramCase kvs = none := by
  simp [paramCase, hlo, hup, hunit, hne]

/-- an unannotated parameter is handed to the sampler as it is -/
theorem unconstrain_plain (kvs : List (String × Json ν)) (i : Json ν)
    (hlo : lookup "@lower" kvs = none) (hs : lookup "@simplex" kvs = none)
    (hid : lookup "id" kvs = some i) :
    paramCase kvs = some ⟨.obj kvs, [.obj kvs], [i]⟩ := by
  simp [paramCase, hlo, hs, hid]

/-- everything that is not a `Parameter` dict is traversed (lists element-wise, dicts value-wise,
at any depth), and the reported lists are the concatenation of the parts' lists in document order -/
theorem unconstrain_traverses_list (x : Json ν) (xs : List (Json ν)) :
    makeUnconstrained (.arr (x :: xs)) =
      match makeUnconstrained x, makeUnconstrained (.arr xs) with
      | some r, some rs =>
        (match rs.json with
         | .arr ys => some ⟨.arr (r.json :: ys), r.unres ++ rs.unres, r.params ++ rs.params⟩
         | _ => none)
      | _, _ => none := by
  simp only [makeUnconstrained, muList]
  cases makeUnconstrained x <;> cases muList xs <;> simp [Option.map]

/-- a dict that is not a `Parameter` is rewritten value by value (whatever its keys), a `Parameter`
dict is handled by the case analysis above and NOT descended into -/
theorem unconstrain_traverses_dict (kvs : List (String × Json ν)) :
    makeUnconstrained (.obj kvs) =
      if strIs "Parameter" (lookup "type" kvs) then paramCase kvs
      else (muFields kvs).map fun (ys, u, p) => ⟨.obj ys, u, p⟩ := by
  simp [makeUnconstrained]

/-- non-vacuity: the three annotation kinds in one nested specification (toy numbers: log/logit
are the identity, so only the bookkeeping is visible) -/
example : (match makeUnconstrained (ν := Int)
    (.arr [.obj [("id", .str "m"), ("type", .str "Model"),
      ("a", .obj [("id", .str "p"), ("type", .str "Parameter"), ("tensor", .arr [.num 5]), ("@lower", .num 0)]),
      ("b", .arr [.obj [("id", .str "q"), ("type", .str "Parameter"), ("tensor", .arr [.num 2]),
                        ("@lower", .num 0), ("@upper", .num 1)],
                  .obj [("id", .str "r"), ("type", .str "Parameter"), ("tensor", .arr [.num 7]),
                        ("@lower", .num 3), ("@upper", .num 3)]])]]) with
    | some ⟨_, [_, _], [.str "p", .str "q"]⟩ => true
    | _ => false) = true := by
  decide +kernel

end TTProps.C19
