/-! C04 property theorems — stub (not built yet). -/
namespace TTProps.C04
end TTProps.C04
