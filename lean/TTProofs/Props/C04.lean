import TTModel.C04_Subst
import TTGen.C04Options
import TTGen.C04Tables
import TTProofs.Lemmas.C04_Builders
import TTProofs.Lemmas.C04_JC
import TTProofs.Lemmas.C04_Exp
import TTProofs.Lemmas.C04_Stretch
import TTProofs.Lemmas.C04_Tables
/-!
# C04 — transition probabilities are exp(Qt) of a properly normalised rate matrix

Theorems about the executable model `TTModel/C04_Subst.lean` (mirrors
`torchtree/evolution/substitution_model/*.py`) and the tables `TTGen/C04Tables.lean` regenerated
from the source on every run.

* builders (any field / ordered field, any state count `n`, any mapping): rows of `q()` sum to
  zero, off-diagonal entries are non-negative, detailed balance for the symmetric family,
  `norm > 0`, and `norm (Q / norm) = 1`;
* closed forms `JC69.p_t`, `GeneralJC69.p_t` (ℝ): `P(0) = I`, rows sum to one, entries in `[0,1]`,
  `P(s+t) = P(s) P(t)`, derivative at `0` is `q()`, and `P(t) = exp(t • Q)`;
* eigen path: if `eigh`/`inverse` deliver `sqrt_pi Q sqrt_pi⁻¹ = V diag(e) V⁻¹`, `V V⁻¹ = 1`, the
  reconstruction coded in `p_t` IS `NormedSpace.exp (t • Q)`;
* the matrix exponential of a rate matrix: rows sum to one, entries non-negative, stationarity
  and detailed balance lift from `Q` to `exp(t • Q)`.
-/
namespace TTProps.C04
open TT TT.C04 Matrix

/-! ## the generated tables -/

/-- the translator recognised `amino_acid.py` and `datatype.py` -/
theorem translator_recognised : TTGen.C04Tables.translatorOk = true := by decide

def lgRates : Nat → ℚ := fun k => ratOf (TTGen.C04Tables.lgRatesQ.getD k (0, 1))
def lgFreq : Fin 20 → ℚ := fun i => ratOf (TTGen.C04Tables.lgFreqQ.getD i.val (0, 1))
def wagRates : Nat → ℚ := fun k => ratOf (TTGen.C04Tables.wagRatesQ.getD k (0, 1))
def wagFreq : Fin 20 → ℚ := fun i => ratOf (TTGen.C04Tables.wagFreqQ.getD i.val (0, 1))

/-- **LG and WAG tables**: 20 frequencies and 190 exchangeabilities each, all strictly positive -/
theorem lg_wag_tables_ok :
    TTGen.C04Tables.lgFreqQ.size = 20 ∧ TTGen.C04Tables.lgRatesQ.size = 190 ∧
    TTGen.C04Tables.wagFreqQ.size = 20 ∧ TTGen.C04Tables.wagRatesQ.size = 190 ∧
    tablePositive TTGen.C04Tables.lgFreqQ = true ∧ tablePositive TTGen.C04Tables.lgRatesQ = true ∧
    tablePositive TTGen.C04Tables.wagFreqQ = true ∧ tablePositive TTGen.C04Tables.wagRatesQ = true := by
  decide +kernel

/-- **MG94 state counts**: for every genetic code the number of coding triplets computed from the
table (what `MG94.__init__` enumerates) is `NUMBER_OF_CODONS` (what sizes the frequency vector) -/
theorem mg94_state_counts :
    TTGen.C04Tables.geneticCodeTables.map (fun t => (codingIndices t).length)
      = TTGen.C04Tables.numberOfCodons := by
  decide

/-! ## rate-matrix builders -/
section builders
variable {R : Type} [Field R] {n : Nat}

/-- **Q_rows_zero**, every builder that goes through `R @ diag(pi)` with the diagonal set to minus
the row sum: GeneralSymmetric (any mapping), GeneralNonSymmetric (any mapping), Empirical
(`create_rate_matrix`, hence LG and WAG), MG94 (any masks, hence every genetic code) -/
theorem Q_rows_zero_generalSym (mapping : Nat → Nat) (rates : Nat → R) (π : Fin n → R) (i : Fin n) :
    ∑ j, generalSymQ mapping rates π i j = 0 :=
  fromR_row_sum _ π (symR_diag _) i

theorem Q_rows_zero_generalNonSym (dim : Nat) (mapping : Nat → Nat) (rates : Nat → R) (π : Fin n → R)
    (i : Fin n) : ∑ j, generalNonSymQ dim mapping rates π i j = 0 :=
  fromR_row_sum _ π (nonSymR_diag _ _) i

theorem Q_rows_zero_empirical (rates : Nat → R) (π : Fin n → R) (i : Fin n) :
    ∑ j, empiricalQ rates π i j = 0 :=
  fromR_row_sum _ π (symR_diag _) i

theorem Q_rows_zero_mg94 (mask : Nat → Bool × Bool × Bool) (a b k : R) (π : Fin n → R) (i : Fin n) :
    ∑ j, mg94Q mask a b k π i j = 0 :=
  fromR_row_sum _ π (symR_diag _) i

theorem Q_rows_zero_hky (κ : R) (π : Fin 4 → R) (i : Fin 4) : ∑ j, hkyQ κ π i j = 0 := by
  rw [hkyQ_eq_generalSym]; exact Q_rows_zero_generalSym _ _ π i

theorem Q_rows_zero_gtr (r : Fin 6 → R) (π : Fin 4 → R) (i : Fin 4) : ∑ j, gtrQ r π i j = 0 := by
  rw [gtrQ_eq_generalSym]; exact Q_rows_zero_generalSym _ _ π i

/-- **Q_detailed_balance**: `π_i Q_ij = π_j Q_ji` for every symmetric-family builder, any `n`,
any mapping into the rate vector, any frequencies -/
theorem Q_detailed_balance_generalSym (mapping : Nat → Nat) (rates : Nat → R) (π : Fin n → R)
    (i j : Fin n) : π i * generalSymQ mapping rates π i j = π j * generalSymQ mapping rates π j i :=
  fromR_detailed_balance _ π (symR_symm _) i j

theorem Q_detailed_balance_empirical (rates : Nat → R) (π : Fin n → R) (i j : Fin n) :
    π i * empiricalQ rates π i j = π j * empiricalQ rates π j i :=
  fromR_detailed_balance _ π (symR_symm _) i j

theorem Q_detailed_balance_mg94 (mask : Nat → Bool × Bool × Bool) (a b k : R) (π : Fin n → R)
    (i j : Fin n) : π i * mg94Q mask a b k π i j = π j * mg94Q mask a b k π j i :=
  fromR_detailed_balance _ π (symR_symm _) i j

theorem Q_detailed_balance_hky (κ : R) (π : Fin 4 → R) (i j : Fin 4) :
    π i * hkyQ κ π i j = π j * hkyQ κ π j i := by
  rw [hkyQ_eq_generalSym]; exact Q_detailed_balance_generalSym _ _ π i j

theorem Q_detailed_balance_gtr (r : Fin 6 → R) (π : Fin 4 → R) (i j : Fin 4) :
    π i * gtrQ r π i j = π j * gtrQ r π j i := by
  rw [gtrQ_eq_generalSym]; exact Q_detailed_balance_generalSym _ _ π i j

/-- **Q_normalised**: dividing by `norm = −Σ_i π_i Q_ii` scales any rate matrix to one expected
substitution per unit time under the model's frequencies; zero row sums and detailed balance
survive the division -/
theorem Q_normalised (Q : Mat n R) (π : Fin n → R) (h : norm Q π ≠ 0) :
    norm (normalised Q π) π = 1 ∧
    (∀ i, ∑ j, Q i j = 0 → ∑ j, normalised Q π i j = 0) ∧
    (∀ i j, π i * Q i j = π j * Q j i → π i * normalised Q π i j = π j * normalised Q π j i) :=
  ⟨norm_normalised Q π h, fun i hi => normalised_row_sum Q π i hi,
   fun i j hij => normalised_detailed_balance Q π i j hij⟩

end builders

section ordered
variable {R : Type} [Field R] [LinearOrder R] [IsStrictOrderedRing R] {n : Nat}

/-- **Q_offdiag_nonneg** for parameters `≥ 0` -/
theorem Q_offdiag_nonneg_generalSym (mapping : Nat → Nat) (rates : Nat → R) (π : Fin n → R)
    (hr : ∀ k, 0 ≤ rates k) (hπ : ∀ i, 0 ≤ π i) {i j : Fin n} (h : i ≠ j) :
    0 ≤ generalSymQ mapping rates π i j :=
  fromR_offdiag_nonneg _ π (symR_nonneg _ fun _ => hr _) hπ h

theorem Q_offdiag_nonneg_generalNonSym (dim : Nat) (mapping : Nat → Nat) (rates : Nat → R)
    (π : Fin n → R) (hr : ∀ k, 0 ≤ rates k) (hπ : ∀ i, 0 ≤ π i) {i j : Fin n} (h : i ≠ j) :
    0 ≤ generalNonSymQ dim mapping rates π i j :=
  fromR_offdiag_nonneg _ π (nonSymR_nonneg _ _ (fun _ => hr _) (fun _ => hr _)) hπ h

theorem Q_offdiag_nonneg_empirical (rates : Nat → R) (π : Fin n → R)
    (hr : ∀ k, 0 ≤ rates k) (hπ : ∀ i, 0 ≤ π i) {i j : Fin n} (h : i ≠ j) :
    0 ≤ empiricalQ rates π i j :=
  fromR_offdiag_nonneg _ π (symR_nonneg _ hr) hπ h

theorem Q_offdiag_nonneg_mg94 (mask : Nat → Bool × Bool × Bool) (a b k : R) (π : Fin n → R)
    (ha : 0 ≤ a) (hb : 0 ≤ b) (hk : 0 ≤ k) (hπ : ∀ i, 0 ≤ π i) {i j : Fin n} (h : i ≠ j) :
    0 ≤ mg94Q mask a b k π i j :=
  fromR_offdiag_nonneg _ π (symR_nonneg _ fun _ => mg94Rate_nonneg a b k ha hb hk _) hπ h

theorem Q_offdiag_nonneg_hky (κ : R) (π : Fin 4 → R) (hκ : 0 ≤ κ) (hπ : ∀ i, 0 ≤ π i)
    {i j : Fin 4} (h : i ≠ j) : 0 ≤ hkyQ κ π i j := by
  rw [hkyQ_eq_generalSym]
  exact Q_offdiag_nonneg_generalSym _ _ π (fun k => by unfold hkyRates; split_ifs <;> simp [hκ]) hπ h

theorem Q_offdiag_nonneg_gtr (r : Fin 6 → R) (π : Fin 4 → R) (hr : ∀ k, 0 ≤ r k) (hπ : ∀ i, 0 ≤ π i)
    {i j : Fin 4} (h : i ≠ j) : 0 ≤ gtrQ r π i j := by
  rw [gtrQ_eq_generalSym]
  exact Q_offdiag_nonneg_generalSym _ _ π (fun k => by split_ifs <;> simp [hr]) hπ h

/-- the normaliser is strictly positive (so `Q_normalised` applies) for positive frequencies,
non-negative rates and at least one positive rate: here for strictly positive rate vectors
and at least two states -/
theorem norm_pos_generalSym (mapping : Nat → Nat) (rates : Nat → R) (π : Fin (n + 2) → R)
    (hr : ∀ k, 0 < rates k) (hπ : ∀ i, 0 < π i) : 0 < norm (generalSymQ mapping rates π) π :=
  norm_fromR_pos _ π (symR_nonneg _ fun k => (hr _).le) hπ 0 1 (by simp [symR, hr])

theorem norm_pos_mg94 (mask : Nat → Bool × Bool × Bool) (a b k : R) (π : Fin (n + 2) → R)
    (ha : 0 < a) (hb : 0 < b) (hk : 0 < k) (hπ : ∀ i, 0 < π i) : 0 < norm (mg94Q mask a b k π) π :=
  norm_fromR_pos _ π (symR_nonneg _ fun m => (mg94Rate_pos a b k ha hb hk _).le) hπ 0 1
    (by simp [symR, mg94Rate_pos a b k ha hb hk])

theorem norm_pos_hky (κ : R) (π : Fin 4 → R) (hκ : 0 < κ) (hπ : ∀ i, 0 < π i) :
    0 < norm (hkyQ κ π) π := by
  rw [hkyQ_eq_generalSym]
  exact norm_pos_generalSym (n := 2) _ _ π (fun k => by unfold hkyRates; split_ifs <;> simp [hκ]) hπ

end ordered

/-- **LG / WAG**: with the literal tables of `amino_acid.py` (exact rational values), `q()` has zero
row sums, non-negative off-diagonal entries, satisfies detailed balance, and its normaliser is
strictly positive -/
theorem lg_rate_matrix_ok :
    (∀ i, ∑ j, empiricalQ lgRates lgFreq i j = 0) ∧
    (∀ i j, i ≠ j → 0 ≤ empiricalQ lgRates lgFreq i j) ∧
    (∀ i j, lgFreq i * empiricalQ lgRates lgFreq i j = lgFreq j * empiricalQ lgRates lgFreq j i) ∧
    0 < norm (empiricalQ lgRates lgFreq) lgFreq := by
  obtain ⟨hs1, hs2, -, -, hf, hr, -, -⟩ := lg_wag_tables_ok
  have hrn : ∀ k, 0 ≤ lgRates k := fun k => getD_nonneg_of_tablePositive _ hr k
  have hfp : ∀ i, 0 < lgFreq i := fun i => getD_pos_of_tablePositive _ hf i.val (by rw [hs1]; exact i.isLt)
  refine ⟨Q_rows_zero_empirical _ _, fun i j h => Q_offdiag_nonneg_empirical _ _ hrn (fun i => (hfp i).le) h,
    Q_detailed_balance_empirical _ _, ?_⟩
  exact norm_fromR_pos _ _ (symR_nonneg _ hrn) hfp 0 1
    (by rw [symR_zero_one (n := 18)]; exact getD_pos_of_tablePositive _ hr 0 (by rw [hs2]; norm_num))

theorem wag_rate_matrix_ok :
    (∀ i, ∑ j, empiricalQ wagRates wagFreq i j = 0) ∧
    (∀ i j, i ≠ j → 0 ≤ empiricalQ wagRates wagFreq i j) ∧
    (∀ i j, wagFreq i * empiricalQ wagRates wagFreq i j = wagFreq j * empiricalQ wagRates wagFreq j i) ∧
    0 < norm (empiricalQ wagRates wagFreq) wagFreq := by
  obtain ⟨-, -, hs1, hs2, -, -, hf, hr⟩ := lg_wag_tables_ok
  have hrn : ∀ k, 0 ≤ wagRates k := fun k => getD_nonneg_of_tablePositive _ hr k
  have hfp : ∀ i, 0 < wagFreq i := fun i => getD_pos_of_tablePositive _ hf i.val (by rw [hs1]; exact i.isLt)
  refine ⟨Q_rows_zero_empirical _ _, fun i j h => Q_offdiag_nonneg_empirical _ _ hrn (fun i => (hfp i).le) h,
    Q_detailed_balance_empirical _ _, ?_⟩
  exact norm_fromR_pos _ _ (symR_nonneg _ hrn) hfp 0 1
    (by rw [symR_zero_one (n := 18)]; exact getD_pos_of_tablePositive _ hr 0 (by rw [hs2]; norm_num))

/-- non-vacuity of the builder theorems: HKY with `κ = 2`, `π = (1/10, 2/10, 3/10, 4/10)` -/
example : 0 < norm (hkyQ (2 : ℚ) fun i => ((i.val : ℚ) + 1) / 10) fun i => ((i.val : ℚ) + 1) / 10 :=
  norm_pos_hky _ _ (by norm_num) (fun i => by positivity)

/-! ## closed forms -/

/-- **jc_closed_form** for `GeneralJC69` with `n ≥ 2` states: `P(0) = I`; every row sums to one;
every entry is in `[0,1]` for `t ≥ 0`; `P(s+t) = P(s)·P(t)`; the derivative at `0` is `q()`; and
`q()` has zero row sums and is normalised under the uniform frequencies. -/
theorem jc_closed_form (n : Nat) (hn : 2 ≤ n) :
    generalJC69P n (0 : ℝ) = ident ∧
    (∀ (t : ℝ) i, ∑ j, generalJC69P n t i j = 1) ∧
    (∀ (t : ℝ), 0 ≤ t → ∀ i j, 0 ≤ generalJC69P n t i j ∧ generalJC69P n t i j ≤ 1) ∧
    (∀ s t : ℝ, mmul (generalJC69P n s) (generalJC69P n t) = generalJC69P n (s + t)) ∧
    (∀ i j, HasDerivAt (fun t : ℝ => generalJC69P n t i j) (generalJC69Q (α := ℝ) n i j) 0) ∧
    (∀ i, ∑ j, generalJC69Q (α := ℝ) n i j = 0) ∧
    norm (generalJC69Q (α := ℝ) n) (generalJC69Freq n) = 1 := by
  have h2 : (2 : ℝ) ≤ (n : ℝ) := by exact_mod_cast hn
  have hn0 : (n : ℝ) ≠ 0 := by linarith
  exact ⟨generalJC69P_zero n hn0, fun t i => generalJC69P_row_sum n hn0 t i,
    fun t ht i j => ⟨generalJC69P_nonneg n hn t ht i j, generalJC69P_le_one n hn t ht i j⟩,
    generalJC69P_semigroup n hn0, generalJC69P_deriv_zero n hn, generalJC69Q_row_sum n hn,
    generalJC69_norm n hn0⟩

/-- **jc_closed_form** for `JC69` (the literal constants `0.25`, `3/4`, `4/3`, `1/3`) -/
theorem jc69_closed_form :
    jc69P (0 : ℝ) = ident ∧
    (∀ (t : ℝ) i, ∑ j, jc69P t i j = 1) ∧
    (∀ (t : ℝ), 0 ≤ t → ∀ i j, 0 ≤ jc69P t i j ∧ jc69P t i j ≤ 1) ∧
    (∀ s t : ℝ, mmul (jc69P s) (jc69P t) = jc69P (s + t)) ∧
    (∀ i j, HasDerivAt (fun t : ℝ => jc69P t i j) (jc69Q (α := ℝ) i j) 0) ∧
    (∀ i, ∑ j, jc69Q (α := ℝ) i j = 0) ∧
    norm (jc69Q (α := ℝ)) jc69Freq = 1 := by
  have h := jc_closed_form 4 (by norm_num)
  simp only [← jc69P_eq, ← jc69Q_eq, ← jc69Freq_eq] at h
  exact h

/-- **jc_eq_exp**: the closed form IS the matrix exponential of `t` times `q()` -/
theorem jc_eq_exp (n : Nat) (hn : 2 ≤ n) (t : ℝ) :
    toM (generalJC69P n t) = NormedSpace.exp (t • toM (generalJC69Q (α := ℝ) n)) :=
  generalJC69P_eq_exp n hn t

theorem jc69_eq_exp (t : ℝ) : toM (jc69P t) = NormedSpace.exp (t • toM (jc69Q (α := ℝ))) := by
  rw [jc69P_eq, jc69Q_eq]; exact jc_eq_exp 4 (by norm_num) t

/-! ## eigen path -/

/-- **recon_eq_exp**: let `Q` be any matrix (in `p_t`: the normalised rate matrix), `π > 0`. If the
pair `(e, V)` returned by `eigh` and the matrix returned by `inverse` satisfy the contract
`sqrt_pi Q sqrt_pi⁻¹ = V diag(e) V⁻¹`, `V V⁻¹ = 1`, then what `SymmetricSubstitutionModel.p_t`
computes, `(sqrt_pi⁻¹ V) diag(exp(e t)) (V⁻¹ sqrt_pi)`, is the matrix exponential `exp(t • Q)`. -/
theorem recon_eq_exp {n : Nat} (π e : Fin n → ℝ) (V Vinv Q : Mat n ℝ) (hπ : ∀ i, 0 < π i)
    (hV : toM V * toM Vinv = 1)
    (hS : toM (symmetrised Q π) = toM V * diagonal e * toM Vinv) (t : ℝ) :
    toM (recon π V Vinv e t) = NormedSpace.exp (t • toM Q) :=
  recon_eq_exp_toM π e V Vinv Q hπ hV hS t

/-- hence `P(0) = I` and `P(s+t) = P(s) P(t)` for the reconstruction -/
theorem recon_zero_and_semigroup {n : Nat} (π e : Fin n → ℝ) (V Vinv Q : Mat n ℝ) (hπ : ∀ i, 0 < π i)
    (hV : toM V * toM Vinv = 1)
    (hS : toM (symmetrised Q π) = toM V * diagonal e * toM Vinv) :
    recon π V Vinv e 0 = ident ∧
    ∀ s t : ℝ, mmul (recon π V Vinv e s) (recon π V Vinv e t) = recon π V Vinv e (s + t) := by
  constructor
  · have h := recon_eq_exp π e V Vinv Q hπ hV hS 0
    rw [exp_smul_zero, ← toM_ident] at h
    exact h
  · intro s t
    have h := toM_mmul (recon π V Vinv e s) (recon π V Vinv e t)
    rw [recon_eq_exp π e V Vinv Q hπ hV hS, recon_eq_exp π e V Vinv Q hπ hV hS, ← exp_smul_add,
      ← recon_eq_exp π e V Vinv Q hπ hV hS] at h
    exact h

/-- non-vacuity: the contract is met by a concrete non-trivial instance (two states,
`π = (1/2, 1/2)`, `Q = [[-1,1],[1,-1]]`, `e = (0,-2)`, `V = [[1,1],[1,-1]]`) -/
example : ∃ (π e : Fin 2 → ℝ) (V Vinv Q : Mat 2 ℝ), (∀ i, 0 < π i) ∧ toM V * toM Vinv = 1 ∧
    toM (symmetrised Q π) = toM V * diagonal e * toM Vinv ∧ Q 0 1 = 1 := by
  refine ⟨fun _ => 1 / 2, fun i => if i = 0 then 0 else -2,
    fun i j => if i = 1 ∧ j = 1 then -1 else 1, fun i j => if i = 1 ∧ j = 1 then -1 / 2 else 1 / 2,
    fun i j => if i = j then -1 else 1, fun _ => by norm_num, ?_, ?_, by simp⟩
  · ext i j
    fin_cases i <;> fin_cases j <;> simp [Matrix.mul_apply, Fin.sum_univ_two] <;> norm_num
  · have hs : Real.sqrt (1 / 2) ≠ 0 := (Real.sqrt_pos.mpr (by norm_num)).ne'
    ext i j
    fin_cases i <;> fin_cases j <;>
      simp [symmetrised, Matrix.mul_apply, Fin.sum_univ_two, Matrix.diagonal_apply] <;>
      field_simp

/-! ## what the matrix exponential of a rate matrix satisfies -/

/-- **exp_rows_one**: `Q·1 = 0 ⇒ exp(tQ)·1 = 1` -/
theorem exp_rows_one {n : Nat} (Q : Matrix (Fin n) (Fin n) ℝ) (hQ : ∀ i, ∑ j, Q i j = 0) (t : ℝ)
    (i : Fin n) : ∑ j, NormedSpace.exp (t • Q) i j = 1 :=
  exp_row_sum Q hQ t i

/-- **exp_stationary**: `πQ = 0 ⇒ π·exp(tQ) = π` -/
theorem exp_stationary {n : Nat} (Q : Matrix (Fin n) (Fin n) ℝ) (π : Fin n → ℝ)
    (hπ : ∀ j, ∑ i, π i * Q i j = 0) (t : ℝ) (j : Fin n) :
    ∑ i, π i * NormedSpace.exp (t • Q) i j = π j :=
  exp_stationary_of Q π hπ t j

/-- **exp_reversible**: detailed balance lifts from `Q` to `exp(tQ)` -/
theorem exp_reversible {n : Nat} (Q : Matrix (Fin n) (Fin n) ℝ) (π : Fin n → ℝ)
    (hb : ∀ i j, π i * Q i j = π j * Q j i) (t : ℝ) (i j : Fin n) :
    π i * NormedSpace.exp (t • Q) i j = π j * NormedSpace.exp (t • Q) j i :=
  exp_detailed_balance Q π hb t i j

/-- **exp_nonneg**: off-diagonal entries of `Q` non-negative and `t ≥ 0` ⇒ every entry of
`exp(tQ)` is non-negative; with `exp_rows_one`, every row of `exp(tQ)` is a probability vector -/
theorem exp_nonneg {n : Nat} (Q : Matrix (Fin n) (Fin n) ℝ) (hQ : ∀ i j, i ≠ j → 0 ≤ Q i j) (t : ℝ)
    (ht : 0 ≤ t) (i j : Fin n) : 0 ≤ NormedSpace.exp (t • Q) i j :=
  exp_entry_nonneg Q hQ t ht i j

/-- **the property for the whole symmetric family in one statement**: for `Q = q()/norm` built by
`fromR` from a symmetric non-negative `R` with zero diagonal and positive frequencies, under the
`eigh` contract, the matrix computed by `p_t` has rows that are probability vectors, equals `I`
at `0`, has the frequencies as stationary distribution and satisfies detailed balance. -/
theorem p_t_symmetric_family {n : Nat} (Rm : Mat n ℝ) (π e : Fin n → ℝ) (V Vinv : Mat n ℝ)
    (hR0 : ∀ i, Rm i i = 0) (hRs : ∀ i j, Rm i j = Rm j i) (hRn : ∀ i j, 0 ≤ Rm i j)
    (hπ : ∀ i, 0 < π i) (hV : toM V * toM Vinv = 1)
    (hS : toM (symmetrised (normalised (fromR Rm π) π) π) = toM V * diagonal e * toM Vinv)
    (hnorm : 0 < norm (fromR Rm π) π) (t : ℝ) (ht : 0 ≤ t) :
    let P := recon π V Vinv e t
    (∀ i, ∑ j, P i j = 1) ∧ (∀ i j, 0 ≤ P i j) ∧
    (∀ j, ∑ i, π i * P i j = π j) ∧ (∀ i j, π i * P i j = π j * P j i) := by
  intro P
  have hP : toM P = NormedSpace.exp (t • toM (normalised (fromR Rm π) π)) :=
    recon_eq_exp π e V Vinv _ hπ hV hS t
  have hrow : ∀ i, ∑ j, toM (normalised (fromR Rm π) π) i j = 0 := fun i =>
    normalised_row_sum _ π i (fromR_row_sum Rm π hR0 i)
  have hdb : ∀ i j, π i * toM (normalised (fromR Rm π) π) i j
      = π j * toM (normalised (fromR Rm π) π) j i := fun i j =>
    normalised_detailed_balance _ π i j (fromR_detailed_balance Rm π hRs i j)
  have hoff : ∀ i j, i ≠ j → 0 ≤ toM (normalised (fromR Rm π) π) i j := fun i j h => by
    simp only [toM_apply, normalised]
    exact div_nonneg (fromR_offdiag_nonneg Rm π hRn (fun i => (hπ i).le) h) hnorm.le
  have hrows := fun i => exp_rows_one _ hrow t i
  have hbal := fun i j => exp_reversible _ π hdb t i j
  have hnn := fun i j => exp_nonneg _ hoff t ht i j
  rw [← hP] at hrows hbal hnn
  refine ⟨hrows, hnn, fun j => ?_, hbal⟩
  calc ∑ i, π i * P i j = ∑ i, π j * P j i := Finset.sum_congr rfl fun i _ => hbal i j
    _ = π j := by rw [← Finset.mul_sum]; simp only [← toM_apply]; rw [hrows j, mul_one]


/-! ## construction route: `from_json` (table regenerated from the source on every run) -/

/-- a JSON key reaches the constructor parameter it names; when an optional key is absent, what is
forwarded is the constructor's own default for that parameter, or — if the constructor has no
default — something other than `None` -/
def optionEntryOk (e : TTGen.C04Options.Entry) : Bool :=
  e.reached == e.expected &&
    (!e.optional || (match e.ctorDefault with | some d => e.absent == d | none => e.absent != 0))

/-- **options_reach_named_parameters**: the translator recognised every `from_json`, and in each of them
every key (required or optional, positional or keyword) lands in the constructor parameter of its name -/
theorem options_reach_named_parameters :
    TTGen.C04Options.translatorOk = true ∧ TTGen.C04Options.entries.all optionEntryOk = true := by
  decide

end TTProps.C04
