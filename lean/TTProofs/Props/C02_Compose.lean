import TTProofs.Lemmas.C04_Compose
import TTProofs.Lemmas.C02_Reroot
/-!
# C02 ∘ C04 — the pulley principle with its hypotheses DISCHARGED for the shipped reversible models

`TTProps.C02.reroot_any` assumes `Pulley π P` (detailed balance, `P(0) = I`, Chapman–Kolmogorov) of the
family of edge matrices.  Here `P a k = exp((a · rate_k) • Q/norm)` — what `p_t(branch_length * rate_k)`
is by C04 (`recon_eq_exp`, `jc_eq_exp`) — with `Q = q()` produced by the C04 builder functions
(`TTModel/C04_Subst.lean`), and `Pulley` is PROVED, for every real branch length (in particular all
`t ≥ 0`), every set of category rates and every parameter value (no admissibility condition is needed
for this clause: detailed balance of the builders is an algebraic identity).
Consequently the pruning likelihood `likN` is the same for every sequence of root moves and for each of
the `2n − 3` rootings enumerated by `allRootings`.
-/
namespace TTProps.C02_Compose
open TT TT.C01 TT.C02 TT.C04 Matrix

variable {K S : Nat}

/-- conclusion of `TTProps.C02.reroot_any`, from a `Pulley` -/
theorem reroot_of_pulley {π : Fin S → ℝ} {P : ℝ → Fin K → Fin S → Fin S → ℝ} (h : Pulley π P)
    (props : Fin K → ℝ) (data : String → Fin S → ℝ) (T : LTree ℝ) :
    (∀ ms : List Move, likN π props P data (reroot ms T) = likN π props P data T) ∧
    (∀ T' ∈ allRootings T, likN π props P data T' = likN π props P data T) :=
  ⟨fun ms => likN_reroot h props data ms T, fun T' hm => likN_allRootings h props data T T' hm⟩

/-- edge matrices of a model with rate matrix `q() = Q` and frequencies `π`:
`p_t(a · rate_k) = exp((a · rate_k) • Q / norm(Q))` -/
noncomputable def edgeP (Q : Mat S ℝ) (π : Fin S → ℝ) (rates : Fin K → ℝ) :
    ℝ → Fin K → Fin S → Fin S → ℝ :=
  expP (toM (normalised Q π)) rates

/-- **Pulley discharged**, any rate matrix in detailed balance with `π` -/
theorem pulley_of_balance (Q : Mat S ℝ) (π : Fin S → ℝ) (rates : Fin K → ℝ)
    (hb : ∀ i j, π i * Q i j = π j * Q j i) : Pulley π (edgeP Q π rates) :=
  pulley_expP _ π rates fun i j => normalised_detailed_balance Q π i j (hb i j)

/-- **Pulley discharged for the whole symmetric family**: `q() = fromR R π` with `R` symmetric -/
theorem pulley_symmetric_family (Rm : Mat S ℝ) (π : Fin S → ℝ) (rates : Fin K → ℝ)
    (hs : ∀ i j, Rm i j = Rm j i) : Pulley π (edgeP (fromR Rm π) π rates) :=
  pulley_of_balance _ π rates (fromR_detailed_balance Rm π hs)

theorem pulley_generalSym (mapping : Nat → Nat) (r : Nat → ℝ) (π : Fin S → ℝ) (rates : Fin K → ℝ) :
    Pulley π (edgeP (generalSymQ mapping r π) π rates) :=
  pulley_symmetric_family _ π rates (symR_symm _)

theorem pulley_empirical (r : Nat → ℝ) (π : Fin S → ℝ) (rates : Fin K → ℝ) :
    Pulley π (edgeP (empiricalQ r π) π rates) :=
  pulley_symmetric_family _ π rates (symR_symm _)

theorem pulley_mg94 (mask : Nat → Bool × Bool × Bool) (a b k : ℝ) (π : Fin S → ℝ) (rates : Fin K → ℝ) :
    Pulley π (edgeP (mg94Q mask a b k π) π rates) :=
  pulley_symmetric_family _ π rates (symR_symm _)

theorem pulley_hky (κ : ℝ) (π : Fin 4 → ℝ) (rates : Fin K → ℝ) : Pulley π (edgeP (hkyQ κ π) π rates) := by
  rw [hkyQ_eq_generalSym]; exact pulley_generalSym _ _ π rates

theorem pulley_gtr (r : Fin 6 → ℝ) (π : Fin 4 → ℝ) (rates : Fin K → ℝ) :
    Pulley π (edgeP (gtrQ r π) π rates) := by
  rw [gtrQ_eq_generalSym]; exact pulley_generalSym _ _ π rates

/-- the eigen reconstruction coded in `SymmetricSubstitutionModel.p_t` (one `eigh` of
`sqrt_pi (Q/norm) sqrt_pi⁻¹`, reused for every branch and category) under the `eigh`/`inverse` contract -/
theorem pulley_recon (Q : Mat S ℝ) (π e : Fin S → ℝ) (V Vinv : Mat S ℝ) (rates : Fin K → ℝ)
    (hb : ∀ i j, π i * Q i j = π j * Q j i) (hπ : ∀ i, 0 < π i) (hV : toM V * toM Vinv = 1)
    (hS : toM (symmetrised (normalised Q π) π) = toM V * diagonal e * toM Vinv) :
    Pulley π (reconP π e V Vinv rates) := by
  rw [reconP_eq_expP π e V Vinv (normalised Q π) rates hπ hV hS]
  exact pulley_of_balance Q π rates hb

/-! ## the corollaries: the likelihood does not depend on the rooting -/

/-- **HKY**: any κ, any frequencies, any category rates and weights, any data, any tree with real
branch lengths: every sequence of root moves and every one of the `2n−3` rootings gives the same
pruning likelihood with edge matrices `exp(t · rate_k · Q/norm)`. -/
theorem reroot_any_hky (κ : ℝ) (π : Fin 4 → ℝ) (rates props : Fin K → ℝ) (data : String → Fin 4 → ℝ)
    (T : LTree ℝ) :
    (∀ ms : List Move, likN π props (edgeP (hkyQ κ π) π rates) data (reroot ms T)
        = likN π props (edgeP (hkyQ κ π) π rates) data T) ∧
    (∀ T' ∈ allRootings T, likN π props (edgeP (hkyQ κ π) π rates) data T'
        = likN π props (edgeP (hkyQ κ π) π rates) data T) :=
  reroot_of_pulley (pulley_hky κ π rates) props data T

theorem reroot_any_gtr (r : Fin 6 → ℝ) (π : Fin 4 → ℝ) (rates props : Fin K → ℝ)
    (data : String → Fin 4 → ℝ) (T : LTree ℝ) :
    (∀ ms : List Move, likN π props (edgeP (gtrQ r π) π rates) data (reroot ms T)
        = likN π props (edgeP (gtrQ r π) π rates) data T) ∧
    (∀ T' ∈ allRootings T, likN π props (edgeP (gtrQ r π) π rates) data T'
        = likN π props (edgeP (gtrQ r π) π rates) data T) :=
  reroot_of_pulley (pulley_gtr r π rates) props data T

/-- **GeneralSymmetric**, any state count, any mapping into the rate vector -/
theorem reroot_any_generalSym (mapping : Nat → Nat) (r : Nat → ℝ) (π : Fin S → ℝ) (rates props : Fin K → ℝ)
    (data : String → Fin S → ℝ) (T : LTree ℝ) :
    (∀ ms : List Move, likN π props (edgeP (generalSymQ mapping r π) π rates) data (reroot ms T)
        = likN π props (edgeP (generalSymQ mapping r π) π rates) data T) ∧
    (∀ T' ∈ allRootings T, likN π props (edgeP (generalSymQ mapping r π) π rates) data T'
        = likN π props (edgeP (generalSymQ mapping r π) π rates) data T) :=
  reroot_of_pulley (pulley_generalSym mapping r π rates) props data T

/-- **Empirical** (`create_rate_matrix`; LG and WAG are the instances with the literal tables) -/
theorem reroot_any_empirical (r : Nat → ℝ) (π : Fin S → ℝ) (rates props : Fin K → ℝ)
    (data : String → Fin S → ℝ) (T : LTree ℝ) :
    (∀ ms : List Move, likN π props (edgeP (empiricalQ r π) π rates) data (reroot ms T)
        = likN π props (edgeP (empiricalQ r π) π rates) data T) ∧
    (∀ T' ∈ allRootings T, likN π props (edgeP (empiricalQ r π) π rates) data T'
        = likN π props (edgeP (empiricalQ r π) π rates) data T) :=
  reroot_of_pulley (pulley_empirical r π rates) props data T

/-- **MG94**, any masks (hence every genetic code), any α, β, κ -/
theorem reroot_any_mg94 (mask : Nat → Bool × Bool × Bool) (a b k : ℝ) (π : Fin S → ℝ)
    (rates props : Fin K → ℝ) (data : String → Fin S → ℝ) (T : LTree ℝ) :
    (∀ ms : List Move, likN π props (edgeP (mg94Q mask a b k π) π rates) data (reroot ms T)
        = likN π props (edgeP (mg94Q mask a b k π) π rates) data T) ∧
    (∀ T' ∈ allRootings T, likN π props (edgeP (mg94Q mask a b k π) π rates) data T'
        = likN π props (edgeP (mg94Q mask a b k π) π rates) data T) :=
  reroot_of_pulley (pulley_mg94 mask a b k π rates) props data T

/-- **JC69 / GeneralJC69 through their closed forms** (`JC69.p_t`, `GeneralJC69.p_t` as coded) -/
theorem reroot_any_generalJC69 (n : Nat) (hn : 1 ≤ n) (rates props : Fin K → ℝ) (data : String → Fin n → ℝ)
    (T : LTree ℝ) :
    (∀ ms : List Move, likN (generalJC69Freq n) props (jcP n rates) data (reroot ms T)
        = likN (generalJC69Freq n) props (jcP n rates) data T) ∧
    (∀ T' ∈ allRootings T, likN (generalJC69Freq n) props (jcP n rates) data T'
        = likN (generalJC69Freq n) props (jcP n rates) data T) :=
  reroot_of_pulley (pulley_jcP n (by exact_mod_cast Nat.pos_iff_ne_zero.mp hn) rates) props data T

theorem reroot_any_jc69 (rates props : Fin K → ℝ) (data : String → Fin 4 → ℝ) (T : LTree ℝ) :
    (∀ ms : List Move, likN jc69Freq props (jc69EdgeP rates) data (reroot ms T)
        = likN jc69Freq props (jc69EdgeP rates) data T) ∧
    (∀ T' ∈ allRootings T, likN jc69Freq props (jc69EdgeP rates) data T'
        = likN jc69Freq props (jc69EdgeP rates) data T) :=
  reroot_of_pulley (pulley_jc69 rates) props data T

/-- **what `p_t` computes** (eigen reconstruction with torch's `(e, V, V⁻¹)`), for any rate matrix in
detailed balance with positive frequencies, under the `eigh`/`inverse` contract -/
theorem reroot_any_recon (Q : Mat S ℝ) (π e : Fin S → ℝ) (V Vinv : Mat S ℝ) (rates props : Fin K → ℝ)
    (hb : ∀ i j, π i * Q i j = π j * Q j i) (hπ : ∀ i, 0 < π i) (hV : toM V * toM Vinv = 1)
    (hS : toM (symmetrised (normalised Q π) π) = toM V * diagonal e * toM Vinv)
    (data : String → Fin S → ℝ) (T : LTree ℝ) :
    (∀ ms : List Move, likN π props (reconP π e V Vinv rates) data (reroot ms T)
        = likN π props (reconP π e V Vinv rates) data T) ∧
    (∀ T' ∈ allRootings T, likN π props (reconP π e V Vinv rates) data T'
        = likN π props (reconP π e V Vinv rates) data T) :=
  reroot_of_pulley (pulley_recon Q π e V Vinv rates hb hπ hV hS) props data T

/-- the rootings quantified over are `2n − 3` in number (one per branch of the unrooted tree) -/
theorem rootings_count (l r : LTree ℝ) (b : ℝ) :
    (allRootings (.node l r b)).length = 2 * (LTree.node l r b).names.length - 3 :=
  allRootings_length l r b

/-! ## non-vacuity -/

/-- a concrete, non-trivial instance: HKY with κ = 2, π = (0.1, 0.2, 0.3, 0.4), two rate categories
(0.5, 1.5), the four-taxon tree ((A:0.1,B:0.2):0.3,(C:0.4,D:0.5):0.6): it has five rootings and all
have the likelihood of the given one -/
example (data : String → Fin 4 → ℝ) :
    let π : Fin 4 → ℝ := fun i => ((i.val : ℝ) + 1) / 10
    let rates : Fin 2 → ℝ := fun k => if k = 0 then 1 / 2 else 3 / 2
    let T : LTree ℝ := .node (.node (.leaf "A" 0.1) (.leaf "B" 0.2) 0.3) (.node (.leaf "C" 0.4) (.leaf "D" 0.5) 0.6) 0
    (allRootings T).length = 5 ∧
    ∀ T' ∈ allRootings T, likN π (fun _ => 1 / 2) (edgeP (hkyQ 2 π) π rates) data T'
      = likN π (fun _ => 1 / 2) (edgeP (hkyQ 2 π) π rates) data T := by
  intro π rates T
  exact ⟨by rw [rootings_count]; rfl, (reroot_any_hky 2 π rates _ data T).2⟩

/-- the builders' detailed balance is not vacuous: this HKY matrix has a non-zero entry -/
example : hkyQ (2 : ℝ) (fun i => ((i.val : ℝ) + 1) / 10) 0 2 = 3 / 5 := by
  simp [hkyQ]; norm_num

end TTProps.C02_Compose
