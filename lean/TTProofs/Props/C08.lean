/-! C08 property theorems — stub (not built yet). -/
namespace TTProps.C08
end TTProps.C08
