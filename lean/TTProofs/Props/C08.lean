import TTProofs.Lemmas.C08_Main
import TTProofs.Lemmas.C08_Scaling
import TTProofs.Lemmas.C08_Examples
import TTProofs.Lemmas.C08_LinPiece
import Mathlib.Data.List.Count
/-!
# C08 — coalescent priors equal the Kingman density of their demographic function

Models: `TTModel/C08_Coalescent.lean` (`constantLogProb`, `skyrideLogProb`, `skygridLogProb`,
`exponentialLogProb` — the code's argsort / cumsum[:-1] / gather formulation).
Spec (`Lemmas/C08_Spec.lean`, no sorting): `lineagesAt samp coal t = #{s < t} - #{c < t}`,
`kingman samp coal N a b = -(∫_a^b C(k(t),2)/N(t) dt) - Σ_j log N(c_j)`.

Every theorem quantifies over ALL list lengths and over EVERY order in which the sampling block and the
coalescent block are supplied (`samp' ~ samp`, `coal' ~ coal`); ties between event times are allowed
everywhere except where `N` itself is two-valued (a coalescent time on a grid point).
The integration window `[a, b]` is any interval containing all events (`a = 0`, `b ≥` root height and
last grid point is the documented one): outside the events the integrand is zero.
-/
namespace TTProps.C08
open TT TT.C08 TT.C08.Ex MeasureTheory intervalIntegral

/-! ## generic step-function lemma -/

/-- **sorted_sum_eq_integral** — for ANY time-sorted event list (ties in any order), any per-piece
integrand `φ k j` with interval integrals `c k j a b`, the sum over consecutive sorted events of
`c (running lineage count) (running v-mark count)` is the integral, from the first to the last event, of
`φ` evaluated at the *declarative* counters (events strictly before `x`). -/
theorem sorted_sum_eq_integral (φ : ℤ → ℕ → ℝ → ℝ) (c : ℤ → ℕ → ℝ → ℝ → ℝ) (v : Int)
    (hφ : ∀ k j a b, a ≤ b → IntervalIntegrable (φ k j) volume a b ∧ ∫ x in a..b, φ k j x = c k j a b)
    (l : List (Ev ℝ)) (e1 : Ev ℝ) (k : ℤ) (j : ℕ) (hs : TimeSorted (e1 :: l)) :
    ∫ x in e1.t..lastTime e1 l, φ (k + kAt (e1 :: l) x) (j + jAt v (e1 :: l) x) x
      = walk c v k j (e1 :: l) :=
  (walk_integral φ c v hφ l e1 k j hs).2

example : ∫ x in (0:ℝ)..lastTime (⟨0, 1⟩ : Ev ℝ) [⟨0, 1⟩, ⟨1, -1⟩],
      (fun (k : ℤ) (_ : ℕ) (_ : ℝ) => (k : ℝ)) (0 + kAt [⟨0, 1⟩, ⟨0, 1⟩, ⟨1, -1⟩] x) (0 + jAt 0 [⟨0, 1⟩, ⟨0, 1⟩, ⟨1, -1⟩] x) x
      = walk (fun k _ a b => (b - a) * (k : ℝ)) 0 0 0 [⟨0, 1⟩, ⟨0, 1⟩, ⟨1, -1⟩] :=
  sorted_sum_eq_integral (fun k _ _ => (k : ℝ)) (fun k _ a b => (b - a) * (k : ℝ)) 0
    (fun k _ a b _ => const_piece (k : ℝ) a b) _ _ 0 0 (by simp [TimeSorted])

/-! ## lineage counts -/

theorem lineage_count_sorted : ∀ (S : List (Ev ℝ)) (k : ℤ), TimeSorted S →
    ∀ (i : ℕ) (h : i + 1 < S.length) (x : ℝ), (S[i]'(by omega)).t < x → x ≤ (S[i + 1]'h).t →
      ((cumsumFrom k (marks S)).dropLast)[i]? = some (k + kAt S x)
  | [], _, _, i, h, _, _, _ => by simp at h
  | [_], _, _, i, h, _, _, _ => by simp at h
  | e1 :: e2 :: rest, k, hs, i, h, x, hlo, hhi => by
      have hp := List.pairwise_cons.mp hs
      have hp2 := List.pairwise_cons.mp hp.2
      simp only [marks, List.map_cons, cumsumFrom, List.dropLast_cons_cons]
      cases i with
      | zero =>
        simp only [List.getElem_cons_zero, List.getElem_cons_succ] at hlo hhi
        have hz : ∀ e ∈ e2 :: rest, x ≤ e.t := by
          intro e he
          rcases List.mem_cons.mp he with rfl | he
          · exact hhi
          · exact le_trans hhi (hp2.1 e he)
        rw [kAt_cons, kAt_eq_zero hz]
        simp [hlo]
      | succ i =>
        simp only [List.getElem_cons_succ] at hlo hhi
        have h' : i + 1 < (e2 :: rest).length := by simpa using h
        have ih := lineage_count_sorted (e2 :: rest) (k + e1.mark) hp.2 i h' x hlo hhi
        simp only [marks, List.map_cons, cumsumFrom] at ih
        have hle : e1.t ≤ ((e2 :: rest)[i]'(by omega)).t := hp.1 _ (List.getElem_mem _)
        have hlt : e1.t < x := lt_of_le_of_lt hle hlo
        rw [List.getElem?_cons_succ, ih, kAt_cons e1 (e2 :: rest), if_pos hlt, add_assoc]

/-- **lineage_count_correct** — the code's `mask_sorted.cumsum(-1)[..., :-1]` at position `i` is the number
of lineages `k(x) = #{s < x} - #{c < x}` for every `x` in the `i`-th inter-event interval `(t_i, t_{i+1}]`,
for every order of the input blocks and every tie pattern (zero-length intervals contain no `x`). -/
theorem lineage_count_correct {samp coal samp' coal' : List ℝ} (grid : List ℝ)
    (hs : samp'.Perm samp) (hc : coal'.Perm coal) (hlen : samp.length = coal.length + 1)
    (i : ℕ) (h : i + 1 < (sortEvents (mkEvents (samp' ++ coal') grid)).length) (x : ℝ)
    (hlo : ((sortEvents (mkEvents (samp' ++ coal') grid))[i]'(by omega)).t < x)
    (hhi : x ≤ ((sortEvents (mkEvents (samp' ++ coal') grid))[i + 1]'h).t) :
    (lineages (sortEvents (mkEvents (samp' ++ coal') grid)))[i]? = some (lineagesAt samp coal x) := by
  have hlen' : samp'.length = coal'.length + 1 := by rw [hs.length_eq, hc.length_eq]; exact hlen
  have hperm : (sortEvents (mkEvents (samp' ++ coal') grid)).Perm (evs samp coal grid) := by
    rw [mkEvents_eq samp' coal' grid hlen']
    exact (sortEvents_perm _).trans (evs_perm grid hs hc)
  have := lineage_count_sorted _ 0 (sortEvents_sorted (mkEvents (samp' ++ coal') grid)) i h x hlo hhi
  unfold lineages cumsum
  rw [this, zero_add, kAt_perm hperm, kAt_evs]

example : (lineages (sortEvents (mkEvents (([1, 0] : List ℝ) ++ [2]) [])))[1]?
    = some (lineagesAt [0, 1] [2] (3 / 2)) :=
  lineage_count_correct (samp := [0, 1]) (coal := [2]) [] (List.Perm.swap 0 1 []) (List.Perm.refl _) rfl 1
    (by simp [sortEvents, insertEv, mkEvents, taxaCount, nodeMask]; norm_num) (3 / 2)
    (by simp [sortEvents, insertEv, mkEvents, taxaCount, nodeMask]; norm_num)
    (by simp [sortEvents, insertEv, mkEvents, taxaCount, nodeMask]; norm_num)

/-! ## model = Kingman density -/

/-- **constant_eq_kingman** — `ConstantCoalescent.log_prob` is the Kingman density of `N(t) = θ`. -/
theorem constant_eq_kingman (θ : ℝ) {samp coal samp' coal' : List ℝ}
    (hs : samp'.Perm samp) (hc : coal'.Perm coal) (hlen : samp.length = coal.length + 1) (a b : ℝ)
    (ha : ∀ t ∈ samp ++ coal ++ [], a ≤ t) (hb : ∀ t ∈ samp ++ coal ++ [], t ≤ b) :
    constantLogProb θ (samp' ++ coal') = kingman samp coal (constN θ) a b := by
  have hI := window_integral (fun k _ _ => -(choose2 k : ℝ) / θ)
    (fun k _ a b => -(choose2 k : ℝ) * (id b - id a) / θ) 2
    (fun k j a b _ => by
      obtain ⟨h1, h2⟩ := const_piece (-(choose2 k : ℝ) / θ) a b
      exact ⟨h1, by rw [h2]; simp only [id]; ring⟩)
    (fun _ _ => by simp [choose2_zero]) (fun _ _ => by simp [choose2_one]) [] hs hc hlen a b ha hb
  have hlen' : samp'.length = coal'.length + 1 := by rw [hs.length_eq, hc.length_eq]; exact hlen
  have hn : taxaCount (samp' ++ coal') - 1 = coal.length := by
    unfold taxaCount; rw [List.length_append, ← hc.length_eq]; omega
  unfold constantLogProb constantIntegral kingman constN lineages cumsum
  rw [hn]
  have hw := zipWith_eq_walk (fun k d => -(choose2 k : ℝ) * d / θ) id 2
    (sortEvents (mkEvents (samp' ++ coal') [])) 0 0
  rw [List.map_id] at hw
  rw [hw, ← hI, ← intervalIntegral.integral_neg]
  congr 1
  · congr 1; funext x; ring
  · simp [List.map_const', List.sum_replicate]

example : constantLogProb 2 (([1, 0, 0] : List ℝ) ++ [3, 2]) = kingman [0, 0, 1] [2, 3] (constN 2) 0 3 :=
  constant_eq_kingman 2 p3 p2 rfl 0 3 (by simp) (by simp; norm_num)

/-- **skyride_eq_kingman** — `PiecewiseConstantCoalescent.log_prob` is the Kingman density of the step function
`N(t) = θ[#{c_j < t}]` (one piece per inter-coalescent interval), for pairwise distinct coalescent times. -/
theorem skyride_eq_kingman (θ : List ℝ) {samp coal samp' coal' : List ℝ}
    (hs : samp'.Perm samp) (hc : coal'.Perm coal) (hlen : samp.length = coal.length + 1) (a b : ℝ)
    (ha : ∀ t ∈ samp ++ coal ++ [], a ≤ t) (hb : ∀ t ∈ samp ++ coal ++ [], t ≤ b)
    (hθ : θ.length = coal.length) (hnd : coal.Nodup) :
    skyrideLogProb θ (samp' ++ coal') = kingman samp coal (stepN θ coal) a b := by
  have hI := window_integral (fun k j _ => (choose2 k : ℝ) / θ.getD j 0)
    (fun k j a b => (choose2 k : ℝ) * (b - a) / θ.getD j 0) (-1)
    (fun k j a b _ => by
      obtain ⟨h1, h2⟩ := const_piece ((choose2 k : ℝ) / θ.getD j 0) a b
      exact ⟨h1, by rw [h2]; ring⟩)
    (fun _ _ => by simp [choose2_zero]) (fun _ _ => by simp [choose2_one]) [] hs hc hlen a b ha hb
  unfold skyrideLogProb skyrideIntegral kingman lineages skyrideIdx cumsum
  rw [zipWith3_eq_walk (fun k d i => (choose2 k : ℝ) * d / θ.getD i 0) (-1), ← hI]
  congr 1
  · congr 2; funext x; rw [jAt_neg_evs]; rfl
  · have := sum_rank_eq (fun i => Real.log (θ.getD i 0)) coal hnd
    unfold stepN
    rw [this, ← hθ, map_getD_range Real.log 0 θ]
    rfl

example : skyrideLogProb [1, 2] (([1, 0, 0] : List ℝ) ++ [3, 2])
    = kingman [0, 0, 1] [2, 3] (stepN [1, 2] [2, 3]) 0 3 :=
  skyride_eq_kingman [1, 2] p3 p2 rfl 0 3 (by simp) (by simp; norm_num) rfl (by simp)

/-- **skygrid_eq_kingman** — `PiecewiseConstantCoalescentGrid.log_prob` is the Kingman density of the step
function `N(t) = θ[#{grid points < t}]`; grid points may lie anywhere (before the first coalescence, on
sampling times, beyond the root) but not on a coalescent time, where `N` is two-valued. -/
theorem skygrid_eq_kingman (θ grid : List ℝ) {samp coal samp' coal' : List ℝ}
    (hs : samp'.Perm samp) (hc : coal'.Perm coal) (hlen : samp.length = coal.length + 1) (a b : ℝ)
    (ha : ∀ t ∈ samp ++ coal ++ grid, a ≤ t) (hb : ∀ t ∈ samp ++ coal ++ grid, t ≤ b)
    (hyoung : ∀ c ∈ coal, ∃ s ∈ samp, s < c) (hne : ∀ c ∈ coal, ∀ g ∈ grid, g ≠ c) :
    skygridLogProb θ grid (samp' ++ coal') = kingman samp coal (stepN θ grid) a b := by
  have hI := window_integral (fun k j _ => (choose2 k : ℝ) / θ.getD j 0)
    (fun k j a b => (choose2 k : ℝ) * (b - a) / θ.getD j 0) 0
    (fun k j a b _ => by
      obtain ⟨h1, h2⟩ := const_piece ((choose2 k : ℝ) / θ.getD j 0) a b
      exact ⟨h1, by rw [h2]; ring⟩)
    (fun _ _ => by simp [choose2_zero]) (fun _ _ => by simp [choose2_one]) grid hs hc hlen a b ha hb
  have hL := grid_logs (fun i => Real.log (θ.getD i 0)) grid hs hc hlen hyoung hne
  unfold skygridLogProb skygridIntegral skygridLogs kingman lineages
  dsimp only
  rw [show (skygridIdx (sortEvents (mkEvents (samp' ++ coal') grid))).dropLast
      = (cumsumFrom 0 (isMark 0 (marks (sortEvents (mkEvents (samp' ++ coal') grid))))).dropLast from rfl]
  unfold cumsum
  rw [zipWith3_eq_walk (fun k d i => (choose2 k : ℝ) * d / θ.getD i 0) 0, ← hI]
  congr 1
  congr 2; funext x; rw [jAt_zero_evs]; rfl

-- grid point 1/2 before the first coalescence, grid point 5 beyond the root
example : skygridLogProb [1, 2, 4] [1 / 2, 5] (([1, 0, 0] : List ℝ) ++ [3, 2])
    = kingman [0, 0, 1] [2, 3] (stepN [1, 2, 4] [1 / 2, 5]) 0 5 :=
  skygrid_eq_kingman [1, 2, 4] [1 / 2, 5] p3 p2 rfl 0 5 (by simp) (by simp; norm_num) young
    (by simp; norm_num)

/-- **exponential_eq_kingman** — `ExponentialCoalescent.log_prob` is the Kingman density of
`N(t) = θ e^{-g t}` for every growth rate `g ≠ 0` of either sign (the code's own TODO: `g = 0` divides by
zero; excluded). -/
theorem exponential_eq_kingman (θ g : ℝ) (hg : g ≠ 0) {samp coal samp' coal' : List ℝ}
    (hs : samp'.Perm samp) (hc : coal'.Perm coal) (hlen : samp.length = coal.length + 1) (a b : ℝ)
    (ha : ∀ t ∈ samp ++ coal ++ [], a ≤ t) (hb : ∀ t ∈ samp ++ coal ++ [], t ≤ b)
    (hyoung : ∀ c ∈ coal, ∃ s ∈ samp, s < c) :
    exponentialLogProb θ g (samp' ++ coal') = kingman samp coal (expN θ g) a b := by
  have hI := window_integral (fun k _ x => (choose2 k : ℝ) * (Real.exp (x * g) / θ))
    (fun k _ a b => (choose2 k : ℝ) * ((Real.exp (b * g) - Real.exp (a * g)) / (θ * g))) 2
    (fun k j a b _ => by
      obtain ⟨h1, h2⟩ := exp_piece g hg a b
      refine ⟨(h1.div_const θ).const_mul _, ?_⟩
      rw [intervalIntegral.integral_const_mul, intervalIntegral.integral_div, h2]
      rw [div_div, mul_comm g θ])
    (fun _ _ => by simp [choose2_zero]) (fun _ _ => by simp [choose2_one]) [] hs hc hlen a b ha hb
  have hL := plain_logs (fun t => Real.log (θ * Real.exp (-t * g))) hs hc hlen hyoung
  unfold exponentialLogProb exponentialIntegral exponentialLogs kingman lineages cumsum
  have hw := zipWith_eq_walk (fun k d => (choose2 k : ℝ) * (d / (θ * g))) (fun t => Real.exp (t * g)) 2
    (sortEvents (mkEvents (samp' ++ coal') [])) 0 0
  simp only [trans_exp_real, trans_log_real]
  rw [hw, ← hI, hL]
  congr 1
  · congr 2; funext x
    unfold expN
    rw [Real.exp_neg, mul_comm g x]
    simp only [div_eq_mul_inv, mul_inv, inv_inv]
    ring
  · congr 2; funext c; unfold expN; ring_nf

example : exponentialLogProb 2 (-1 / 2) (([1, 0, 0] : List ℝ) ++ [3, 2])
    = kingman [0, 0, 1] [2, 3] (expN 2 (-1 / 2)) 0 3 :=
  exponential_eq_kingman 2 (-1 / 2) (by norm_num) p3 p2 rfl 0 3 (by simp) (by simp; norm_num) young

/-! ## the value does not depend on the order in which node heights are supplied -/

/-- **constant_perm_invariant** — any permutation of the sampling block and of the coalescent block (any
tie pattern) gives the same value. -/
theorem constant_perm_invariant (θ : ℝ) {samp coal samp' coal' : List ℝ}
    (hs : samp'.Perm samp) (hc : coal'.Perm coal) (hlen : samp.length = coal.length + 1) :
    constantLogProb θ (samp' ++ coal') = constantLogProb θ (samp ++ coal) := by
  obtain ⟨a, b, ha, hb⟩ := exists_window (samp ++ coal ++ [])
  rw [constant_eq_kingman θ hs hc hlen a b ha hb,
    constant_eq_kingman θ (List.Perm.refl _) (List.Perm.refl _) hlen a b ha hb]

example : constantLogProb 2 (([1, 0, 0] : List ℝ) ++ [3, 2]) = constantLogProb 2 ([0, 0, 1] ++ [2, 3]) :=
  constant_perm_invariant 2 p3 p2 rfl

theorem skyride_perm_invariant (θ : List ℝ) {samp coal samp' coal' : List ℝ}
    (hs : samp'.Perm samp) (hc : coal'.Perm coal) (hlen : samp.length = coal.length + 1)
    (hθ : θ.length = coal.length) (hnd : coal.Nodup) :
    skyrideLogProb θ (samp' ++ coal') = skyrideLogProb θ (samp ++ coal) := by
  obtain ⟨a, b, ha, hb⟩ := exists_window (samp ++ coal ++ [])
  rw [skyride_eq_kingman θ hs hc hlen a b ha hb hθ hnd,
    skyride_eq_kingman θ (List.Perm.refl _) (List.Perm.refl _) hlen a b ha hb hθ hnd]

example : skyrideLogProb [1, 2] (([1, 0, 0] : List ℝ) ++ [3, 2]) = skyrideLogProb [1, 2] ([0, 0, 1] ++ [2, 3]) :=
  skyride_perm_invariant [1, 2] p3 p2 rfl rfl (by simp)

theorem skygrid_perm_invariant (θ grid : List ℝ) {samp coal samp' coal' : List ℝ}
    (hs : samp'.Perm samp) (hc : coal'.Perm coal) (hlen : samp.length = coal.length + 1)
    (hyoung : ∀ c ∈ coal, ∃ s ∈ samp, s < c) (hne : ∀ c ∈ coal, ∀ g ∈ grid, g ≠ c) :
    skygridLogProb θ grid (samp' ++ coal') = skygridLogProb θ grid (samp ++ coal) := by
  obtain ⟨a, b, ha, hb⟩ := exists_window (samp ++ coal ++ grid)
  rw [skygrid_eq_kingman θ grid hs hc hlen a b ha hb hyoung hne,
    skygrid_eq_kingman θ grid (List.Perm.refl _) (List.Perm.refl _) hlen a b ha hb hyoung hne]

example : skygridLogProb [1, 2, 4] [1 / 2, 5] (([1, 0, 0] : List ℝ) ++ [3, 2])
    = skygridLogProb [1, 2, 4] [1 / 2, 5] ([0, 0, 1] ++ [2, 3]) :=
  skygrid_perm_invariant _ _ p3 p2 rfl young (by simp; norm_num)

theorem exponential_perm_invariant (θ g : ℝ) (hg : g ≠ 0) {samp coal samp' coal' : List ℝ}
    (hs : samp'.Perm samp) (hc : coal'.Perm coal) (hlen : samp.length = coal.length + 1)
    (hyoung : ∀ c ∈ coal, ∃ s ∈ samp, s < c) :
    exponentialLogProb θ g (samp' ++ coal') = exponentialLogProb θ g (samp ++ coal) := by
  obtain ⟨a, b, ha, hb⟩ := exists_window (samp ++ coal ++ [])
  rw [exponential_eq_kingman θ g hg hs hc hlen a b ha hb hyoung,
    exponential_eq_kingman θ g hg (List.Perm.refl _) (List.Perm.refl _) hlen a b ha hb hyoung]

example : exponentialLogProb 2 (1 / 4) (([1, 0, 0] : List ℝ) ++ [3, 2])
    = exponentialLogProb 2 (1 / 4) ([0, 0, 1] ++ [2, 3]) :=
  exponential_perm_invariant 2 (1 / 4) (by norm_num) p3 p2 rfl young

/-! ## models describing the same `N(t)` agree -/

/-- **skygrid_all_equal_is_constant** — a skygrid whose pieces are all equal is the constant model. -/
theorem skygrid_all_equal_is_constant (θ₀ : ℝ) (grid : List ℝ) {samp coal : List ℝ}
    (hlen : samp.length = coal.length + 1)
    (hyoung : ∀ c ∈ coal, ∃ s ∈ samp, s < c) (hne : ∀ c ∈ coal, ∀ g ∈ grid, g ≠ c) :
    skygridLogProb (List.replicate (grid.length + 1) θ₀) grid (samp ++ coal)
      = constantLogProb θ₀ (samp ++ coal) := by
  obtain ⟨a, b, ha, hb⟩ := exists_window (samp ++ coal ++ grid)
  have ha' : ∀ t ∈ samp ++ coal ++ [], a ≤ t := fun t ht => ha t (by simp at ht ⊢; tauto)
  have hb' : ∀ t ∈ samp ++ coal ++ [], t ≤ b := fun t ht => hb t (by simp at ht ⊢; tauto)
  rw [skygrid_eq_kingman _ grid (List.Perm.refl _) (List.Perm.refl _) hlen a b ha hb hyoung hne,
    constant_eq_kingman θ₀ (List.Perm.refl _) (List.Perm.refl _) hlen a b ha' hb']
  have hN : stepN (List.replicate (grid.length + 1) θ₀) grid = constN θ₀ := by
    funext t
    unfold stepN constN
    exact List.getD_replicate _ (Nat.lt_succ_of_le (List.countP_le_length))
  rw [hN]

example : skygridLogProb (List.replicate 3 7) [1 / 2, 5] (([0, 0, 1] : List ℝ) ++ [2, 3])
    = constantLogProb 7 ([0, 0, 1] ++ [2, 3]) :=
  skygrid_all_equal_is_constant 7 [1 / 2, 5] rfl young (by simp; norm_num)

/-- **skyride_all_equal_is_constant** — a skyride whose pieces are all equal is the constant model (every
sampling time strictly below some coalescent time, as in any tree with positive branch lengths). -/
theorem skyride_all_equal_is_constant (θ₀ : ℝ) {samp coal : List ℝ}
    (hlen : samp.length = coal.length + 1) (hnd : coal.Nodup)
    (hbelow : ∀ s ∈ samp, ∃ c ∈ coal, s < c) :
    skyrideLogProb (List.replicate coal.length θ₀) (samp ++ coal) = constantLogProb θ₀ (samp ++ coal) := by
  obtain ⟨a, b, ha, hb⟩ := exists_window (samp ++ coal ++ [])
  rw [skyride_eq_kingman _ (List.Perm.refl _) (List.Perm.refl _) hlen a b ha hb (by simp) hnd,
    constant_eq_kingman θ₀ (List.Perm.refl _) (List.Perm.refl _) hlen a b ha hb]
  unfold kingman
  -- below or at some coalescent time the step function reads θ₀
  have hin : ∀ x, (∃ c ∈ coal, x ≤ c) → stepN (List.replicate coal.length θ₀) coal x = θ₀ := by
    intro x ⟨c, hc, hxc⟩
    unfold stepN
    apply List.getD_replicate
    apply List.countP_lt_length_iff.mpr
    exact ⟨c, hc, by simpa using hxc⟩
  congr 1
  · congr 2
    funext x
    by_cases hx : ∃ c ∈ coal, x ≤ c
    · rw [hin x hx]; rfl
    · -- beyond every coalescent time exactly one lineage is left
      have hall : ∀ c ∈ coal, c < x := fun c hc => not_le.mp (fun h => hx ⟨c, hc, h⟩)
      have hk : lineagesAt samp coal x = 1 := by
        unfold lineagesAt
        have h1 : coal.countP (fun c => decide (c < x)) = coal.length :=
          List.countP_eq_length.mpr (fun c hc => by simpa using hall c hc)
        have h2 : samp.countP (fun s => decide (s < x)) = samp.length :=
          List.countP_eq_length.mpr (fun s hs => by
            obtain ⟨c, hc, hsc⟩ := hbelow s hs
            simpa using lt_trans hsc (hall c hc))
        rw [h1, h2, hlen]; push_cast; ring
      rw [hk, choose2_one]; simp
  · congr 1
    apply List.map_congr_left
    intro c hc
    rw [hin c ⟨c, hc, le_refl _⟩]; rfl

example : skyrideLogProb (List.replicate 2 7) (([0, 0, 1] : List ℝ) ++ [2, 3])
    = constantLogProb 7 ([0, 0, 1] ++ [2, 3]) :=
  skyride_all_equal_is_constant 7 (samp := [0, 0, 1]) (coal := [2, 3]) rfl (by simp)
    (by intro s hs; exact ⟨2, by simp, by simp at hs; rcases hs with rfl | rfl <;> norm_num⟩)

/-! ## piecewise-linear population size: the per-interval integral -/

/-- the analytic core of the piecewise-linear class (the full `linear_eq_kingman`, with its permutation-invariance and
scaling corollaries, is proved in `Props/C08_Linear.lean`): on an interval where `N` is linear from `Na` to `Nb` the
integral of `1/N` is `Δt · (log Nb − log Na)/(Nb − Na)` — the code's `intervals * diff_log_thetas / diff_thetas` — and
`Δt / Na` when `Na = Nb` (the flat case the unrepaired code divided by the LAST population size instead, F25). -/
theorem linear_eq_kingman_partial (a b Na Nb : ℝ) (hab : a < b) (hNa : 0 < Na) (hNb : 0 < Nb) :
    ∫ t in a..b, 1 / (Na + (Nb - Na) * (t - a) / (b - a))
      = if Na = Nb then (b - a) / Na else (b - a) * (Real.log Nb - Real.log Na) / (Nb - Na) :=
  linear_piece_integral a b Na Nb hab hNa hNb

example : ∫ t in (0:ℝ)..1, 1 / (8 + (8 - 8) * (t - 0) / (1 - 0)) = (1 - 0) / 8 := by
  rw [linear_eq_kingman_partial 0 1 8 8 (by norm_num) (by norm_num) (by norm_num)]; simp

/-! ## scaling law -/

/-- **scaling_law** (any demographic function): if `N'(c x) = c N(x)`, `c > 0`, the Kingman density of the
genealogy with all times multiplied by `c` under `N'` is the original one minus `(n-1) log c`
(`n - 1 = coal.length`). -/
theorem scaling_law (samp coal : List ℝ) (N N' : ℝ → ℝ) (c : ℝ) (hc : 0 < c)
    (hN' : ∀ x, N' (c * x) = c * N x) (hpos : ∀ t ∈ coal, N t ≠ 0) (a b : ℝ) :
    kingman (samp.map (c * ·)) (coal.map (c * ·)) N' (c * a) (c * b)
      = kingman samp coal N a b - (coal.length : ℝ) * Real.log c :=
  kingman_scaling samp coal N N' c hc hN' hpos a b

example : kingman (([0, 0, 1] : List ℝ).map (3 * ·)) (([2, 3] : List ℝ).map (3 * ·)) (constN (3 * 2)) (3 * 0) (3 * 3)
    = kingman [0, 0, 1] [2, 3] (constN 2) 0 3 - (2 : ℕ) * Real.log 3 :=
  scaling_law [0, 0, 1] [2, 3] (constN 2) (constN (3 * 2)) 3 (by norm_num) (fun _ => rfl)
    (fun _ _ => by unfold constN; norm_num) 0 3

/-- **constant_scaling_law** — the implementation's constant model: times and `θ` scaled by `c`. -/
theorem constant_scaling_law (θ c : ℝ) (hc : 0 < c) (hθ : θ ≠ 0) {samp coal : List ℝ}
    (hlen : samp.length = coal.length + 1) :
    constantLogProb (c * θ) ((samp ++ coal).map (c * ·))
      = constantLogProb θ (samp ++ coal) - (coal.length : ℝ) * Real.log c := by
  obtain ⟨a, b, ha, hb⟩ := exists_window (samp ++ coal ++ [])
  have hsc : ∀ t ∈ samp.map (c * ·) ++ coal.map (c * ·) ++ [], c * a ≤ t ∧ t ≤ c * b := by
    intro t ht
    simp only [List.append_nil, List.mem_append, List.mem_map] at ht
    rcases ht with ⟨s, hs, rfl⟩ | ⟨s, hs, rfl⟩
    · exact ⟨mul_le_mul_of_nonneg_left (ha s (by simp [hs])) hc.le,
        mul_le_mul_of_nonneg_left (hb s (by simp [hs])) hc.le⟩
    · exact ⟨mul_le_mul_of_nonneg_left (ha s (by simp [hs])) hc.le,
        mul_le_mul_of_nonneg_left (hb s (by simp [hs])) hc.le⟩
  rw [List.map_append,
    constant_eq_kingman (c * θ) (List.Perm.refl _) (List.Perm.refl _) (by simpa using hlen) (c * a) (c * b)
      (fun t ht => (hsc t ht).1) (fun t ht => (hsc t ht).2),
    constant_eq_kingman θ (List.Perm.refl _) (List.Perm.refl _) hlen a b ha hb]
  exact kingman_scaling samp coal (constN θ) (constN (c * θ)) c hc (fun _ => rfl) (fun _ _ => hθ) a b

example : constantLogProb (3 * 2) ((([0, 0, 1] : List ℝ) ++ [2, 3]).map (3 * ·))
    = constantLogProb 2 ([0, 0, 1] ++ [2, 3]) - (2 : ℕ) * Real.log 3 :=
  constant_scaling_law 2 3 (by norm_num) (by norm_num) rfl

/-- **skygrid_scaling_law** — times, grid and all `θ_i` scaled by `c`. -/
theorem skygrid_scaling_law (θ grid : List ℝ) (c : ℝ) (hc : 0 < c) {samp coal : List ℝ}
    (hlen : samp.length = coal.length + 1)
    (hyoung : ∀ x ∈ coal, ∃ s ∈ samp, s < x) (hne : ∀ x ∈ coal, ∀ g ∈ grid, g ≠ x)
    (hθlen : θ.length = grid.length + 1) (hθ : ∀ t ∈ θ, t ≠ 0) :
    skygridLogProb (θ.map (c * ·)) (grid.map (c * ·)) ((samp ++ coal).map (c * ·))
      = skygridLogProb θ grid (samp ++ coal) - (coal.length : ℝ) * Real.log c := by
  obtain ⟨a, b, ha, hb⟩ := exists_window (samp ++ coal ++ grid)
  have hsc : ∀ t ∈ samp.map (c * ·) ++ coal.map (c * ·) ++ grid.map (c * ·), c * a ≤ t ∧ t ≤ c * b := by
    intro t ht
    simp only [List.mem_append, List.mem_map] at ht
    rcases ht with (⟨s, hs, rfl⟩ | ⟨s, hs, rfl⟩) | ⟨s, hs, rfl⟩
    · exact ⟨mul_le_mul_of_nonneg_left (ha s (by simp [hs])) hc.le,
        mul_le_mul_of_nonneg_left (hb s (by simp [hs])) hc.le⟩
    · exact ⟨mul_le_mul_of_nonneg_left (ha s (by simp [hs])) hc.le,
        mul_le_mul_of_nonneg_left (hb s (by simp [hs])) hc.le⟩
    · exact ⟨mul_le_mul_of_nonneg_left (ha s (by simp [hs])) hc.le,
        mul_le_mul_of_nonneg_left (hb s (by simp [hs])) hc.le⟩
  have hyoung' : ∀ x ∈ coal.map (c * ·), ∃ s ∈ samp.map (c * ·), s < x := by
    intro x hx
    obtain ⟨y, hy, rfl⟩ := List.mem_map.mp hx
    obtain ⟨s, hs, hlt⟩ := hyoung y hy
    exact ⟨c * s, List.mem_map.mpr ⟨s, hs, rfl⟩, mul_lt_mul_of_pos_left hlt hc⟩
  have hne' : ∀ x ∈ coal.map (c * ·), ∀ g ∈ grid.map (c * ·), g ≠ x := by
    intro x hx g hg
    obtain ⟨y, hy, rfl⟩ := List.mem_map.mp hx
    obtain ⟨z, hz, rfl⟩ := List.mem_map.mp hg
    intro h
    exact hne y hy z hz (mul_left_cancel₀ hc.ne' h)
  have hpos : ∀ t ∈ coal, stepN θ grid t ≠ 0 := by
    intro t _
    unfold stepN
    have hlt : grid.countP (fun g => decide (g < t)) < θ.length := by
      rw [hθlen]; exact Nat.lt_succ_of_le List.countP_le_length
    rw [List.getD_eq_getElem _ _ hlt]
    exact hθ _ (List.getElem_mem _)
  rw [List.map_append,
    skygrid_eq_kingman _ _ (List.Perm.refl _) (List.Perm.refl _) (by simpa using hlen) (c * a) (c * b)
      (fun t ht => (hsc t ht).1) (fun t ht => (hsc t ht).2) hyoung' hne',
    skygrid_eq_kingman θ grid (List.Perm.refl _) (List.Perm.refl _) hlen a b ha hb hyoung hne]
  exact kingman_scaling samp coal (stepN θ grid) _ c hc (fun x => stepN_scale c hc θ grid x) hpos a b

example : skygridLogProb ([1, 2, 4].map (3 * ·)) ([1 / 2, 5].map (3 * ·))
      ((([0, 0, 1] : List ℝ) ++ [2, 3]).map (3 * ·))
    = skygridLogProb [1, 2, 4] [1 / 2, 5] ([0, 0, 1] ++ [2, 3]) - (2 : ℕ) * Real.log 3 :=
  skygrid_scaling_law [1, 2, 4] [1 / 2, 5] 3 (by norm_num) rfl young (by simp; norm_num) rfl (by simp)

end TTProps.C08
