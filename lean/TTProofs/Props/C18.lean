import TTModel.FS
import TTGen.C18_SavePlan
import TTGen.C18_Callers
/-!
# C18 — a crash while writing a checkpoint never loses the last good checkpoint

Theorems are about `TTGen.C18_SavePlan.prog`, which the translator regenerates from
`torchtree/core/parameter_utils.py:save_parameters` on every run, executed under the
file-system model `TT.FS` with the default flags (`safely=True, overwrite=False`) —
the flags every checkpointing caller that overwrites one file uses.
-/
namespace TTProps.C18
open TT.FS TTGen.C18_SavePlan

def defaultFlags : Flags := ⟨true, false⟩

/-- the translator recognised every statement of `save_parameters` -/
theorem translator_recognised : translatorOk = true := by decide

theorem allStates_complete (s : St) : s ∈ allStates := by
  rcases s with ⟨a, b, c⟩; cases a <;> cases b <;> cases c <;> decide

/-- the inductive invariant implies what the property asks of a directory -/
theorem inv_safe (s : St) (h : CkInv s) : Safe s := by
  unfold CkInv at h; unfold Safe
  rcases h with ⟨h1 | h1, h2⟩
  · exact ⟨Or.inl h1, h2⟩
  · exact ⟨Or.inr (Or.inl h1), h2⟩

/-- finite core: from every one of the 27 directory states satisfying the invariant, a write
interrupted after any number `k` of operations (or not interrupted: `k ≥ depth`) leaves a
state satisfying the invariant. -/
theorem crash_safe_step_table :
    ∀ s ∈ allStates, CkInv s → ∀ k ≤ prog.depth, CkInv (runProg defaultFlags s prog k) := by
  decide

/-- running with more fuel than the program has operations changes nothing -/
theorem runProg_depth (f : Flags) (p : Prog) : ∀ (s : St) (k : Nat), p.depth ≤ k →
    runProg f s p k = runProg f s p p.depth := by
  induction p with
  | done => intro s k _; simp [runProg]
  | seq o rest ih =>
    intro s k hk
    cases k with
    | zero => simp [Prog.depth] at hk
    | succ k =>
      simp only [Prog.depth, runProg]
      cases step s o with
      | none => rfl
      | some s' =>
        have : rest.depth ≤ k := by simp [Prog.depth] at hk; omega
        simpa using ih s' k this
  | ite c t e iht ihe =>
    intro s k hk
    have ht : t.depth ≤ k := Nat.le_trans (Nat.le_max_left _ _) hk
    have he : e.depth ≤ k := Nat.le_trans (Nat.le_max_right _ _) hk
    simp only [runProg, Prog.depth]
    split
    · rw [iht s k ht, iht s (max t.depth e.depth) (Nat.le_max_left _ _)]
    · rw [ihe s k he, ihe s (max t.depth e.depth) (Nat.le_max_right _ _)]

/-- **crash_safe_step**: one checkpoint write, interrupted at ANY crash point (any `k`), from
any directory state satisfying the invariant, leaves the invariant intact. -/
theorem crash_safe_step (s : St) (h : CkInv s) (k : Nat) :
    CkInv (runProg defaultFlags s prog k) := by
  by_cases hk : k ≤ prog.depth
  · exact crash_safe_step_table s (allStates_complete s) h k hk
  · rw [runProg_depth _ _ _ _ (Nat.le_of_lt (Nat.lt_of_not_le hk))]
    exact crash_safe_step_table s (allStates_complete s) h _ (Nat.le_refl _)

/-- a history: any number of consecutive writes, the i-th one interrupted after `ks[i]`
operations (a large `k` = completed write) -/
def history (s : St) (ks : List Nat) : St :=
  ks.foldl (fun s k => runProg defaultFlags s prog k) s

/-- **crash_safe_forever**: after any number of consecutive interrupted or completed writes
starting from a directory holding a complete checkpoint under its name, the invariant — hence
the property's `Safe` — holds. No bound on the number of writes or on the crash points. -/
theorem crash_safe_forever (s : St) (h : CkInv s) (ks : List Nat) : CkInv (history s ks) := by
  induction ks generalizing s with
  | nil => exact h
  | cons k ks ih => exact ih _ (crash_safe_step s h k)

theorem crash_safe_forever_safe (s : St) (h : CkInv s) (ks : List Nat) : Safe (history s ks) :=
  inv_safe _ (crash_safe_forever s h ks)

/-- an existing complete checkpoint (whatever stale siblings lie around) satisfies the invariant -/
theorem existing_checkpoint_inv (n o : Content) : CkInv ⟨.complete, n, o⟩ := by
  unfold CkInv; simp

/-- non-vacuity: the hypotheses are met by the ordinary starting state, and an uninterrupted
write really replaces the checkpoint (ends in the same clean state). -/
example : CkInv ⟨.complete, .absent, .absent⟩ ∧
    runProg defaultFlags ⟨.complete, .absent, .absent⟩ prog 100 = ⟨.complete, .absent, .absent⟩ := by
  decide

/-- a completed write from any invariant state ends with a complete file under the name -/
theorem completed_write_installs :
    ∀ s ∈ allStates, CkInv s → (runProg defaultFlags s prog prog.depth).name = .complete := by
  decide

/-! ### the callers

`TTGen.C18_Callers.callSites` is regenerated from every call site of `save_parameters` /
`save_full_state` in the library. -/
open TTGen.C18_Callers in
/-- the scan of the call sites succeeded -/
theorem callers_scanned : TTGen.C18_Callers.scanOk = true := by decide

open TTGen.C18_Callers in
/-- **callers_use_safe_flags**: every call site that rewrites the run's checkpoint file reaches
`save_parameters` with exactly the flags the crash-safety theorems are about
(`safely = True`, `overwrite = False`), statically — no caller can divert a checkpoint write
onto the direct-write branch. -/
theorem callers_use_safe_flags :
    ∀ c ∈ callSites, c.sameFile = true → c.safely = some true ∧ c.overwrite = some false := by
  decide

open TTGen.C18_Callers in
/-- **checkpoint_name_is_as_configured**: everywhere a checkpoint name is stored (option handling in
`from_json`, constructors) the stored value is the configured string itself — no `realpath`,
`abspath`, `join`, … — so the three names the crash-safety theorems speak about are the
configured name and its `.new` / `.old` siblings, also when the name is a symbolic link. -/
theorem checkpoint_name_is_as_configured : ∀ s ∈ nameSites, s.2 = true := by decide

open TTGen.C18_Callers in
/-- **only_save_parameters_touches_checkpoint_files**: outside `save_parameters` no code of the library applies
a file-system operation (remove, rename, replace, truncate, open for writing, …) to an expression computed from
a checkpoint name, so the only transitions of the three files `name`, `name.new`, `name.old` during a run —
including its start-up and shut-down — are those of the write program the crash-safety theorems quantify over
(generated table `fsSites`, regenerated from every function under `torchtree/`). -/
theorem only_save_parameters_touches_checkpoint_files : fsSites = [] := by decide

open TTGen.C18_Callers in
/-- non-vacuity: there are sites that store a checkpoint name -/
example : nameSites ≠ [] := by decide

open TTGen.C18_Callers in
/-- non-vacuity: there are call sites that rewrite the checkpoint file -/
example : ∃ c ∈ callSites, c.sameFile = true := by decide

end TTProps.C18
