import TTProofs.Lemmas.C14_Real
import TTProofs.Lemmas.C11_Eval
import TTModel.C14_Protocol
import TTModel.C11_Table
import TTGen.C14_Branch
/-!
# C14 — variational objectives are exact at the true posterior

`w[s][k] = log p(z, data) − log q(z)`.  If `q` is the posterior, `w` is the constant `log Z`
(`bayes_constant`); every estimator, with the reductions exactly as coded
(`TTModel/C14_Objectives.lean`, tied to the real classes by the stub correspondence of
`./check C14`), then returns that constant for every sample shape (`tight_*`).  Expressing the
model through a bijection adds the same reported log-Jacobian to both densities and leaves `w`
unchanged (`jacobian_bookkeeping`).  After a draw, the model density and the variational density are
evaluated at the same parameter values (`paired_samples`, on the C11 machine).  Every request
draws afresh (`fresh_draw_each_request`, for the `__call__` the generated table shows).
-/
namespace TTProps.C14
open TT TT.C14

/-! ### tightness: constant log-weights `c` ⇒ every estimator returns `c` -/

/-- ELBO, sample shape `[S]`, any `S ≥ 1` -/
theorem tight_elbo (w : List ℝ) (c : ℝ) (hS : w ≠ []) (h : ∀ x ∈ w, x = c) : elbo w = c := by
  rw [const_list h]
  exact mean_replicate _ (by simpa using hS) c

/-- multi-sample (importance-weighted) ELBO, sample shape `[S, K]`, any `S, K ≥ 1` -/
theorem tight_elboMulti (w : List (List ℝ)) (c : ℝ) (hS : w ≠ [])
    (h : ∀ row ∈ w, row ≠ [] ∧ ∀ x ∈ row, x = c) : elboMulti w = c := by
  unfold elboMulti
  have hc := rows_const h (fun row => lse row - Trans.log (natTo row.length)) (by
    intro n
    simp only [lse_replicate, List.length_replicate, natTo_real, trans_log_real]
    push_cast; ring)
  rw [const_list hc]
  exact mean_replicate _ (by simpa using hS) c

/-- Rényi bound, sample shape `[K]`, any order `a ≠ 1` -/
theorem tight_vr1 (a : ℝ) (ha : a ≠ 1) (w : List ℝ) (c : ℝ) (hK : w ≠ []) (h : ∀ x ∈ w, x = c) :
    vr1 a w = c := by
  rw [const_list h]
  obtain ⟨n, hn⟩ : ∃ n, w.length = n + 1 := ⟨w.length - 1, by have := List.length_pos_iff.mpr hK; omega⟩
  rw [hn]; exact vrRow_const a c ha n

/-- Rényi bound, sample shape `[S, K]` (rows averaged — the repaired reduction, F16) -/
theorem tight_vr (a : ℝ) (ha : a ≠ 1) (w : List (List ℝ)) (c : ℝ) (hS : w ≠ [])
    (h : ∀ row ∈ w, row ≠ [] ∧ ∀ x ∈ row, x = c) : vr a w = c := by
  unfold vr
  have hne : (1 - a) ≠ 0 := sub_ne_zero.mpr (Ne.symm ha)
  have hc := rows_const (c := c) h (fun row => vrRow a row / (1 - a)) (vrRow_const a c ha)
  have hc' : ∀ y ∈ w.map (vrRow a), y = c * (1 - a) := by
    intro y hy
    obtain ⟨row, hrow, rfl⟩ := List.mem_map.mp hy
    have := hc _ (List.mem_map.mpr ⟨row, hrow, rfl⟩)
    field_simp at this
    linarith
  rw [const_list hc', mean_replicate _ (by simpa using hS)]
  field_simp

/-- the reduction VR had before F16 (rows summed) is NOT tight: two rows of one sample give `2c` -/
theorem vrSum_not_tight : ∃ (w : List (List ℝ)) (c : ℝ),
    (∀ row ∈ w, row ≠ [] ∧ ∀ x ∈ row, x = c) ∧ vrSum 0 w ≠ c := by
  refine ⟨[[1], [1]], 1, ?_, ?_⟩
  · intro row hrow
    simp only [List.mem_cons, List.not_mem_nil, or_false, or_self] at hrow
    subst hrow; simp
  · simp [vrSum, vrRow, lse, maxL, natTo]

/-- chi upper bound, any sample shape (flattened), any order `n` -/
theorem tight_cubo (n : ℝ) (w : List ℝ) (c : ℝ) (hS : w ≠ []) (h : ∀ x ∈ w, x = c) : cubo n w = c := by
  rw [const_list h]
  obtain ⟨k, hk⟩ : ∃ k, w.length = k + 1 := ⟨w.length - 1, by have := List.length_pos_iff.mpr hS; omega⟩
  rw [hk]
  unfold cubo
  simp only [maxL_replicate, List.map_replicate, sub_self, trans_exp_real, Real.exp_zero, trans_pow_real,
    Real.one_rpow, trans_log_real]
  rw [mean_replicate _ (by omega)]
  simp

/-- self-normalised inclusive-KL estimate, sample shape `[S]` -/
theorem tight_klpq (w : List ℝ) (c : ℝ) (hS : w ≠ []) (h : ∀ x ∈ w, x = c) : klpq w = c := by
  rw [const_list h]
  obtain ⟨k, hk⟩ : ∃ k, w.length = k + 1 := ⟨w.length - 1, by have := List.length_pos_iff.mpr hS; omega⟩
  rw [hk]; exact klpqRow_const c k

/-- self-normalised inclusive-KL estimate, sample shape `[S, K]` (the repaired reduction, F17) -/
theorem tight_klpq2 (w : List (List ℝ)) (c : ℝ) (hS : w ≠ [])
    (h : ∀ row ∈ w, row ≠ [] ∧ ∀ x ∈ row, x = c) : klpq2 w = c := by
  unfold klpq2
  have hc := rows_const h klpqRow (klpqRow_const c)
  rw [const_list hc]
  exact mean_replicate _ (by simpa using hS) c

/-- what KLpq computed on `[S, K]` before F17 when the broadcast happened to be legal (`S = K`) is
NOT tight: `S·c` -/
theorem klpq2Broadcast_not_tight : ∃ (w : List (List ℝ)) (c : ℝ),
    (∀ row ∈ w, row ≠ [] ∧ ∀ x ∈ row, x = c) ∧ klpq2Broadcast w ≠ c := by
  refine ⟨[[1, 1], [1, 1]], 1, ?_, ?_⟩
  · intro row hrow
    simp only [List.mem_cons, List.not_mem_nil, or_false, or_self] at hrow
    subst hrow; simp
  · have h2 : lse ([1, 1] : List ℝ) = 1 + Real.log 2 := by
      have := lse_replicate 1 1
      simpa [List.replicate, one_add_one_eq_two] using this
    have he : Real.exp (1 - (1 + Real.log 2)) = 1 / 2 := by
      rw [show (1 : ℝ) - (1 + Real.log 2) = -Real.log 2 by ring, Real.exp_neg,
        Real.exp_log (by norm_num : (0 : ℝ) < 2)]
      norm_num
    simp only [klpq2Broadcast, List.map_cons, List.map_nil, h2, List.zip_cons_cons, List.zip_nil_right,
      trans_exp_real, he, List.sum_cons, List.sum_nil]
    norm_num

/-- the analytic-entropy ELBO is `mean log p + H(q)`: no per-draw equality with `log Z` is claimed
(it holds in expectation only); when the draws make `log p` constant the formula is that constant
plus the entropy -/
theorem elboEntropy_formula (logp h : List ℝ) (c : ℝ) (hS : logp ≠ []) (hc : ∀ x ∈ logp, x = c) :
    elboEntropy logp h = c + h.sum := by
  unfold elboEntropy
  rw [const_list hc, mean_replicate _ (by simpa using hS)]

/-! ### the two gradient surrogates (not estimates of `log Z`): what they reduce to at constant log-weights -/

/-- at constant log-weights the importance weights are uniform: the surrogate is minus the mean of `log q` -/
theorem klpqImportance_const (logq : List ℝ) (c : ℝ) (h : logq ≠ []) :
    klpqImportance (logq.map (· + c)) logq = -(mean logq) := by
  obtain ⟨n, hn⟩ : ∃ n, logq.length = n + 1 := ⟨logq.length - 1, by have := List.length_pos_iff.mpr h; omega⟩
  unfold klpqImportance
  simp only [zip_shift]
  rw [hn, maxL_replicate]
  simp only [List.map_replicate, sub_self, trans_exp_real, Real.exp_zero]
  rw [sum_replicate_real, ← hn, sum_zip_replicate_div_mul]
  unfold mean
  rw [natTo_real, hn]
  have : ((n : ℝ) + 1) ≠ 0 := by positivity
  push_cast
  field_simp
  ring

/-- the score-function surrogate at constant log-weights `c` is `c` times the mean of `log q` -/
theorem elboScore_const (logq : List ℝ) (c : ℝ) :
    elboScore (logq.map (· + c)) logq = c * mean logq := by
  unfold elboScore mean
  have : ((logq.map (· + c)).zip logq).map (fun pq => (pq.1 - pq.2) * pq.2) = logq.map (fun x => c * x) := by
    induction logq with
    | nil => rfl
    | cons x xs ih => simp [ih]
  rw [this, List.length_map, List.sum_map_mul_left]
  simp only [List.map_id']
  ring

/-! ### why the log-weights are constant at the posterior -/

/-- **bayes_constant**: if `q = joint / Z` pointwise then `log joint − log q = log Z` at every point -/
theorem bayes_constant (joint q : ℝ) (Z : ℝ) (hj : 0 < joint) (hZ : 0 < Z) (hq : q = joint / Z) :
    Real.log joint - Real.log q = Real.log Z := by
  rw [hq, Real.log_div hj.ne' hZ.ne']
  ring

/-- **jacobian_bookkeeping**: when model and variational family are both expressed in unconstrained
coordinates `y` (`z = T y`), each density carries the SAME reported log-Jacobian `J y`; the
log-weight is unchanged, whatever value is reported -/
theorem jacobian_bookkeeping (logp logq J : ℝ) : (logp + J) - (logq + J) = logp - logq := by
  ring

/-! ### paired samples and fresh draws -/

open TT.C11 in
/-- **paired_samples** (on the C11 machine): in any state satisfying the cache-coherence invariant
— in particular right after a draw, `wellwired_no_stale` — calling the getter of `q` and then the
getter of `p` returns the fresh values of both AT THE SAME leaf values: the first call does not move
any parameter, and neither returns a value cached from an earlier draw. -/
theorem paired_samples {V : Type} [Inhabited V] (m : Machine) (hwf : WF m) (F : Nat → List V → V)
    (s : State V) (hs : Inv m F s) (qc pc : Nat) (hq : qc < m.nC) (hp : pc < m.nC) :
    (evalF m F m.nC qc true s).1 = freshF m F s.leaf m.nC qc ∧
    (evalF m F m.nC pc true (evalF m F m.nC qc true s).2).1 = freshF m F s.leaf m.nC pc := by
  have h1 := evalF_spec m hwf F m.nC qc hq hq true s hs
  have h2 := evalF_spec m hwf F m.nC pc hp hp true _ h1.2.1
  exact ⟨h1.1, by rw [h2.1, h1.2.2]⟩

/-- with the inherited `CallableModel.__call__` a second request without a notification in between
answers from the first draw (F18) … -/
theorem cached_request_reuses_draw :
    runObj true initObj [.request, .request] = [1, 1] := by decide

/-- … **fresh_draw_each_request**: a `__call__` without the flag test answers the `k`-th request
from the `k`-th draw, whatever notifications arrive in between -/
theorem fresh_draw_each_request (evs : List Ev) (s : ObjState) :
    runObj false s evs = (List.range (evs.count .request)).map (fun i => s.draws + i + 1) := by
  induction evs generalizing s with
  | nil => simp [runObj]
  | cons e es ih =>
    cases e with
    | notify =>
      simp only [runObj, stepObj]
      rw [ih]
      simp
    | request =>
      simp only [runObj, stepObj, Bool.false_and, Bool.false_eq_true, if_false]
      rw [ih]
      simp only [List.count_cons_self, List.range_succ_eq_map, List.map_cons, List.map_map]
      congr 1
      · apply List.map_congr_left
        intro i _
        simp only [Function.comp]
        omega

/-- the objective classes of torchtree recompute on every request: none of them has a
`lp_needs_update` guard in its `__call__` (generated table) -/
theorem objectives_always_redraw :
    ∀ n ∈ ["ELBO", "KLpq", "KLpqImportance", "SELBO", "VR", "CUBO"],
      ((TTGen.C11_Wiring.find n).guards.any fun g => g.impl == "__call__") = false ∧
      (TTGen.C11_Wiring.find n).name = n := by
  decide

/-- **elbo_branch_by_rank.**  The branch table generated from `ELBO._call`: for every option and every shape class
(rank 1 / 2, last dimension 1 or larger) the source takes the branch the model assigns — in particular a
two-dimensional sample shape whose last dimension is 1 is still the multi-sample estimator (exact at the
posterior, `tight_elboMulti`), whatever `entropy` says; all 16 cases are present. -/
theorem elbo_branch_by_rank :
    TTGen.C14_Branch.translatorOk = true ∧ TTGen.C14_Branch.table.length = 16 ∧
    ∀ c ∈ TTGen.C14_Branch.table, c.branch = c.expected := by
  refine ⟨by decide, by decide, by decide⟩

/-! ### non-vacuity -/
example : elbo ([3, 3, 3] : List ℝ) = 3 := tight_elbo _ 3 (by simp) (by simp)
example : elboMulti ([[2, 2], [2, 2], [2, 2]] : List (List ℝ)) = 2 :=
  tight_elboMulti _ 2 (by simp) (by
    intro row hrow
    simp only [List.mem_cons, List.not_mem_nil, or_false, or_self] at hrow
    subst hrow; simp)
example : vr (1 / 2) ([[2, 2], [2, 2]] : List (List ℝ)) = 2 :=
  tight_vr _ (by norm_num) _ 2 (by simp) (by
    intro row hrow
    simp only [List.mem_cons, List.not_mem_nil, or_false, or_self] at hrow
    subst hrow; simp)
example : runObj false initObj [.request, .request, .notify, .request] = [1, 2, 3] := by decide
example : cubo 2 ([5, 5, 5] : List ℝ) = 5 := tight_cubo 2 _ 5 (by simp) (by simp)
example : klpq ([-1, -1] : List ℝ) = -1 := tight_klpq _ (-1) (by simp) (by simp)
example : klpq2 ([[4], [4], [4]] : List (List ℝ)) = 4 :=
  tight_klpq2 _ 4 (by simp) (by
    intro row hrow
    simp only [List.mem_cons, List.not_mem_nil, or_false, or_self] at hrow
    subst hrow; simp)
example : vr1 2 ([3, 3] : List ℝ) = 3 := tight_vr1 2 (by norm_num) _ 3 (by simp) (by simp)
example : Real.log 2 - Real.log (1 / 2 : ℝ) = Real.log 4 :=
  bayes_constant 2 (1 / 2) 4 (by norm_num) (by norm_num) (by norm_num)

end TTProps.C14
