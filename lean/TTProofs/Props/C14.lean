/-! C14 property theorems — stub (not built yet). -/
namespace TTProps.C14
end TTProps.C14
