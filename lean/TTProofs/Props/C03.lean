import TTModel.C03_Rescale
import TTProofs.Lemmas.C03_Rescale
import TTProofs.Lemmas.ScalarReal
import TTProofs.Lemmas.C03_Example
import Mathlib.Analysis.SpecialFunctions.Log.Basic
/-!
# C03 — rescaled, safe and plain pruning denote the same log-likelihood; the flag is sticky

All statements are over `ℝ` (the float64 execution is compared with the exact model by the sweep
in `harness/c03.py`; that it stays within 1e-8 is an IEEE statement that is NOT proved here).

Hypotheses that appear below
* `wf T ts`: the triples are a post-order of a binary tree with tips `< T` (every internal slot
  written once, used as a child once, the last node is the root).  Needed: the code adds the log
  of EVERY appended scaler, which is right only if every rescaled node hangs below the root.
  The harness checks `wf` on the post-order of every real tree model it builds.
* every appended scaler is positive (any choice of scalers, in particular the code's `max`);
* the plain site likelihood is positive ("the true value is finite").

The `example`s instantiate the hypotheses on `TT.C03.Ex` (3 tips, 2 states, post-order
`[(3,0,1),(4,3,2)]`, matrices `[[3/4,1/4],[1/4,3/4]]`; plain site value 3/32).

NOT provable here (IEEE statements; covered by the exact-reference sweep of `harness/c03.py`):
  `float64 execution of peelRescaled / peelSafe stays within relative 1e-8 of the real value for
   every tree size`, and `the plain pass is accurate whenever TreeLikelihoodModel keeps its result`
  (false before fix F21: denormal band).
-/
open TT TT.C03

namespace TTProps.C03

variable {N K S : Nat}

/-- **rescaled = plain, per site**, for any tree, matrices, tips, start list and ANY positive
  scalers: `log(site value of the scaled root) + Σ_nodes log scaler = log(plain site value)`.
  `tipCount = 0`: `calculate_treelikelihood_discrete_rescaled`; `tipCount = T`: the tip-state one. -/
theorem rescaled_eq_plain (T tipCount : Nat) (hT : tipCount ≤ T)
    (scaler : Nat → Fin N → Part ℝ N K S → ℝ) (tipc : Nat → Fin N → Fin K → Fin S → ℝ)
    (M : Mats ℝ K S) (freqs : Fin S → ℝ) (props : Fin K → ℝ) (st : Store ℝ N K S)
    (ts : List Triple) (hwf : wf T ts = true)
    (hpos : ∀ sc ∈ (peelRescaledWith scaler tipCount tipc M st ts).scalers, ∀ n : Fin N, 0 < sc[n])
    (n : Fin N) (hlik : 0 < siteLik freqs props ((peel tipCount tipc M st ts).get (rootOf ts)) n) :
    Trans.log (siteLik freqs props
        ((peelRescaledWith scaler tipCount tipc M st ts).st.get (rootOf ts)) n)
      + logScalers (peelRescaledWith scaler tipCount tipc M st ts).scalers n
    = Trans.log (siteLik freqs props ((peel tipCount tipc M st ts).get (rootOf ts)) n) := by
  have hmul := siteLik_rescaled_mul hT scaler tipc M freqs props st ts hwf
    (fun sc h n => (hpos sc h n).ne') n
  set rs := peelRescaledWith scaler tipCount tipc M st ts with hrs
  have hne : ∀ x ∈ rs.scalers.map (fun sc => sc[n]), x ≠ 0 := by
    intro x hx
    obtain ⟨sc, hsc, rfl⟩ := List.mem_map.mp hx
    exact (hpos sc hsc n).ne'
  have hprodpos : (0 : ℝ) < (rs.scalers.map fun sc => sc[n]).prod := by
    apply List.prod_pos
    intro x hx
    obtain ⟨sc, hsc, rfl⟩ := List.mem_map.mp hx
    exact hpos sc hsc n
  have hq : siteLik freqs props (rs.st.get (rootOf ts)) n ≠ 0 := by
    intro h0
    rw [hmul, h0, mul_zero] at hlik
    exact lt_irrefl _ hlik
  rw [hmul]
  simp only [trans_log_real, logScalers]
  rw [Real.log_mul hprodpos.ne' hq, Real.log_list_prod hne, List.map_map]
  rw [add_comm]
  rfl

/-- hypotheses of `rescaled_eq_plain` are met: any constant positive scaler (here 2) on `Ex` -/
example : Trans.log (siteLik Ex.inp.freqs Ex.inp.props
        ((peelRescaledWith (fun _ _ _ => (2 : ℝ)) 0 noTips Ex.M Ex.tips Ex.ts).st.get (rootOf Ex.ts)) 0)
      + logScalers (peelRescaledWith (fun _ _ _ => (2 : ℝ)) 0 noTips Ex.M Ex.tips Ex.ts).scalers 0
    = Trans.log (siteLik Ex.inp.freqs Ex.inp.props ((peel 0 noTips Ex.M Ex.tips Ex.ts).get (rootOf Ex.ts)) 0) :=
  rescaled_eq_plain 3 0 (by omega) _ noTips Ex.M _ _ Ex.tips Ex.ts Ex.wf_ts
    (by
      intro sc hsc n
      simp only [peelRescaledWith, Ex.ts, List.foldl_cons, List.foldl_nil, rescStep, List.nil_append,
        List.cons_append, List.mem_cons, List.not_mem_nil, or_false] at hsc
      rcases hsc with rfl | rfl <;> simp)
    0 (Ex.plain_lik Ex.tips (fun _ _ => rfl) 0)

/-- the same with the code's scaler, `max` over categories and states per site
  (`calculate_treelikelihood_discrete_rescaled`, `_tip_states_discrete_rescaled`) -/
theorem rescaled_eq_plain_max (T tipCount : Nat) (hT : tipCount ≤ T)
    (tipc : Nat → Fin N → Fin K → Fin S → ℝ)
    (M : Mats ℝ K S) (freqs : Fin S → ℝ) (props : Fin K → ℝ) (st : Store ℝ N K S)
    (ts : List Triple) (hwf : wf T ts = true)
    (hpos : ∀ sc ∈ (peelRescaled tipCount tipc M st ts).scalers, ∀ n : Fin N, 0 < sc[n])
    (n : Fin N) (hlik : 0 < siteLik freqs props ((peel tipCount tipc M st ts).get (rootOf ts)) n) :
    Trans.log (siteLik freqs props ((peelRescaled tipCount tipc M st ts).st.get (rootOf ts)) n)
      + logScalers (peelRescaled tipCount tipc M st ts).scalers n
    = Trans.log (siteLik freqs props ((peel tipCount tipc M st ts).get (rootOf ts)) n) :=
  rescaled_eq_plain T tipCount hT _ tipc M freqs props st ts hwf hpos n hlik

example : Trans.log (siteLik Ex.inp.freqs Ex.inp.props
        ((peelRescaled 0 noTips Ex.M Ex.tips Ex.ts).st.get (rootOf Ex.ts)) 0)
      + logScalers (peelRescaled 0 noTips Ex.M Ex.tips Ex.ts).scalers 0
    = Trans.log (siteLik Ex.inp.freqs Ex.inp.props ((peel 0 noTips Ex.M Ex.tips Ex.ts).get (rootOf Ex.ts)) 0) :=
  rescaled_eq_plain_max 3 0 (by omega) noTips Ex.M _ _ Ex.tips Ex.ts Ex.wf_ts
    (Ex.resc_pos Ex.tips (fun _ _ => rfl)) 0 (Ex.plain_lik Ex.tips (fun _ _ => rfl) 0)

/-- **the returned numbers agree**: `sum((log(...) + Σ log scalers) * weights)` of the rescaled
  pass equals `sum(log(...) * weights)` of the plain pass -/
theorem logLik_rescaled_eq_plain (T tipCount : Nat) (hT : tipCount ≤ T)
    (scaler : Nat → Fin N → Part ℝ N K S → ℝ) (tipc : Nat → Fin N → Fin K → Fin S → ℝ)
    (M : Mats ℝ K S) (freqs : Fin S → ℝ) (props : Fin K → ℝ) (w : Fin N → ℝ) (st : Store ℝ N K S)
    (ts : List Triple) (hwf : wf T ts = true)
    (hpos : ∀ sc ∈ (peelRescaledWith scaler tipCount tipc M st ts).scalers, ∀ n : Fin N, 0 < sc[n])
    (hlik : ∀ n, 0 < siteLik freqs props ((peel tipCount tipc M st ts).get (rootOf ts)) n) :
    logLikScaled freqs props w ((peelRescaledWith scaler tipCount tipc M st ts).st.get (rootOf ts))
        (peelRescaledWith scaler tipCount tipc M st ts).scalers
      = logLikPlain freqs props w ((peel tipCount tipc M st ts).get (rootOf ts)) := by
  unfold logLikScaled logLikPlain
  congr 1
  funext n
  rw [rescaled_eq_plain T tipCount hT scaler tipc M freqs props st ts hwf hpos n (hlik n)]


example (w : Fin 1 → ℝ) :
    logLikScaled Ex.inp.freqs Ex.inp.props w ((peelRescaled 0 noTips Ex.M Ex.tips Ex.ts).st.get (rootOf Ex.ts))
        (peelRescaled 0 noTips Ex.M Ex.tips Ex.ts).scalers
      = logLikPlain Ex.inp.freqs Ex.inp.props w ((peel 0 noTips Ex.M Ex.tips Ex.ts).get (rootOf Ex.ts)) :=
  logLik_rescaled_eq_plain 3 0 (by omega) _ noTips Ex.M _ _ w Ex.tips Ex.ts Ex.wf_ts
    (Ex.resc_pos Ex.tips (fun _ _ => rfl)) (Ex.plain_lik Ex.tips (fun _ _ => rfl))

/-- **safe = plain, per site**: the mixed pass `calculate_treelikelihood_discrete_safe`, run on the
  list `Pf` a plain pass with the same matrices left behind (`Consistent`), for ANY threshold test
  `below` and ANY positive scalers; nodes that are not rescaled contribute no scaler. The value is
  compared with the plain site value, which is what `Pf` holds at the root. -/
theorem safe_eq_plain_of_consistent (T : Nat) (below : Part ℝ N K S → Bool)
    (scaler : Nat → Fin N → Part ℝ N K S → ℝ) (M : Mats ℝ K S) (freqs : Fin S → ℝ)
    (props : Fin K → ℝ) (Pf : Store ℝ N K S) (ts : List Triple) (hwf : wf T ts = true)
    (hcons : Consistent Pf M ts)
    (hpos : ∀ sc ∈ (peelSafeWith below scaler M Pf ts).scalers, ∀ n : Fin N, 0 < sc[n])
    (n : Fin N) (hlik : 0 < siteLik freqs props (Pf.get (rootOf ts)) n) :
    Trans.log (siteLik freqs props ((peelSafeWith below scaler M Pf ts).st.get (rootOf ts)) n)
      + logScalers (peelSafeWith below scaler M Pf ts).scalers n
    = Trans.log (siteLik freqs props (Pf.get (rootOf ts)) n) := by
  have hmul := siteLik_safe_mul (T := T) below scaler M freqs props Pf ts hwf hcons
    (fun sc h n => (hpos sc h n).ne') n
  set ss := peelSafeWith below scaler M Pf ts with hss
  have hne : ∀ x ∈ ss.scalers.map (fun sc => sc[n]), x ≠ 0 := by
    intro x hx
    obtain ⟨sc, hsc, rfl⟩ := List.mem_map.mp hx
    exact (hpos sc hsc n).ne'
  have hprodpos : (0 : ℝ) < (ss.scalers.map fun sc => sc[n]).prod := by
    apply List.prod_pos
    intro x hx
    obtain ⟨sc, hsc, rfl⟩ := List.mem_map.mp hx
    exact hpos sc hsc n
  have hq : siteLik freqs props (ss.st.get (rootOf ts)) n ≠ 0 := by
    intro h0
    rw [hmul, h0, mul_zero] at hlik
    exact lt_irrefl _ hlik
  rw [hmul]
  simp only [trans_log_real, logScalers]
  rw [Real.log_mul hprodpos.ne' hq, Real.log_list_prod hne, List.map_map]
  rw [add_comm]
  rfl

/-- **safe = plain as `calculate_with_tip_partials` uses it**: plain pass on any start list `st`,
  then the safe pass (the code's threshold test and `max` scalers) on what it left -/
theorem safe_eq_plain (T : Nat) (thr : ℝ) (M : Mats ℝ K S) (freqs : Fin S → ℝ) (props : Fin K → ℝ)
    (st : Store ℝ N K S) (ts : List Triple) (hwf : wf T ts = true)
    (hpos : ∀ sc ∈ (peelSafe thr M (peel 0 noTips M st ts) ts).scalers, ∀ n : Fin N, 0 < sc[n])
    (n : Fin N) (hlik : 0 < siteLik freqs props ((peel 0 noTips M st ts).get (rootOf ts)) n) :
    Trans.log (siteLik freqs props
        ((peelSafe thr M (peel 0 noTips M st ts) ts).st.get (rootOf ts)) n)
      + logScalers (peelSafe thr M (peel 0 noTips M st ts) ts).scalers n
    = Trans.log (siteLik freqs props ((peel 0 noTips M st ts).get (rootOf ts)) n) :=
  safe_eq_plain_of_consistent T _ _ M freqs props _ ts hwf
    (peel_consistent (T := T) M ts st [] [] _ (fun _ h => by simp at h) (wf_unpack hwf)) hpos n hlik

/-- returned numbers: safe pass after a plain pass = the plain pass -/
theorem logLik_safe_eq_plain (T : Nat) (thr : ℝ) (M : Mats ℝ K S) (freqs : Fin S → ℝ)
    (props : Fin K → ℝ) (w : Fin N → ℝ) (st : Store ℝ N K S) (ts : List Triple)
    (hwf : wf T ts = true)
    (hpos : ∀ sc ∈ (peelSafe thr M (peel 0 noTips M st ts) ts).scalers, ∀ n : Fin N, 0 < sc[n])
    (hlik : ∀ n, 0 < siteLik freqs props ((peel 0 noTips M st ts).get (rootOf ts)) n) :
    logLikScaled freqs props w ((peelSafe thr M (peel 0 noTips M st ts) ts).st.get (rootOf ts))
        (peelSafe thr M (peel 0 noTips M st ts) ts).scalers
      = logLikPlain freqs props w ((peel 0 noTips M st ts).get (rootOf ts)) := by
  unfold logLikScaled logLikPlain
  congr 1
  funext n
  rw [safe_eq_plain T thr M freqs props st ts hwf hpos n (hlik n)]

example (thr : ℝ) (w : Fin 1 → ℝ) :
    logLikScaled Ex.inp.freqs Ex.inp.props w
        ((peelSafe thr Ex.M (peel 0 noTips Ex.M Ex.tips Ex.ts) Ex.ts).st.get (rootOf Ex.ts))
        (peelSafe thr Ex.M (peel 0 noTips Ex.M Ex.tips Ex.ts) Ex.ts).scalers
      = logLikPlain Ex.inp.freqs Ex.inp.props w ((peel 0 noTips Ex.M Ex.tips Ex.ts).get (rootOf Ex.ts)) :=
  logLik_safe_eq_plain 3 thr Ex.M _ _ w Ex.tips Ex.ts Ex.wf_ts (Ex.safe_pos thr Ex.tips (fun _ _ => rfl))
    (Ex.plain_lik Ex.tips (fun _ _ => rfl))

/-! ### the flag automaton -/

/-- once the flag is set, an evaluation takes the rescaled branch and leaves the flag set -/
theorem sticky_step (useTipStates b : Bool) : flagStep useTipStates true b = (.rescaled, true) := rfl

/-- **sticky**: once set, EVERY later evaluation takes the rescaled branch and the flag stays set,
  whatever the later plain passes would have returned -/
theorem sticky (useTipStates : Bool) : ∀ bs : List Bool,
    flagRun useTipStates true bs = (List.replicate bs.length Branch.rescaled, true)
  | [] => rfl
  | b :: bs => by
      simp only [flagRun, sticky_step, sticky useTipStates bs, List.length_cons, List.replicate_succ]

example : flagRun true true [false, true, false] = (List.replicate 3 Branch.rescaled, true) :=
  sticky true _

example : flagRun false false [false, true, false, false] =
    ([.plain, .plainThenSafe, .rescaled, .rescaled], true) := by decide

/-- the flag never goes back: after any history the flag is set iff it was set before or some
  evaluation asked for the switch -/
theorem flag_monotone (useTipStates : Bool) : ∀ (r : Bool) (bs : List Bool),
    (flagRun useTipStates r bs).2 = (r || bs.any id)
  | r, [] => by simp [flagRun]
  | true, b :: bs => by simp [sticky]
  | false, b :: bs => by
      cases b
      · simp [flagRun, flagStep, flag_monotone useTipStates false bs]
      · simp [flagRun, flagStep, sticky]


/-! ### `TreeLikelihoodModel`: every branch returns the same number; histories are consistent -/

/-- the list holds the same tips as `st0` (slots `< T`); internal slots may hold anything
  (leftovers of earlier evaluations) -/
def TipsAgree (T : Nat) (st st0 : Store ℝ N K S) : Prop := ∀ i, i < T → st.get i = st0.get i

/-- the plain root partial depends on the tips only, not on what earlier evaluations left -/
theorem plain_root_indep (T tipCount : Nat) (hT : tipCount ≤ T)
    (tipc : Nat → Fin N → Fin K → Fin S → ℝ) (M : Mats ℝ K S)
    (st st0 : Store ℝ N K S) (ts : List Triple) (hwf : wf T ts = true) (h : TipsAgree T st st0) :
    (peel tipCount tipc M st ts).get (rootOf ts) = (peel tipCount tipc M st0 ts).get (rootOf ts) :=
  peel_indep (T := T) tipCount tipc M ts st st0 [] [] _ (fun _ h => by simp at h) (wf_unpack hwf)
    (fun i _ hi => h i (hi.resolve_right (by simp))) _ (List.mem_singleton.mpr rfl)
    (Nat.le_trans hT (wf_root_ge hwf))

/-- tip-state passes (`tipCount = T`) never read a tip slot: the plain root partial does not depend
  on the start list at all -/
theorem plain_root_indep_tipstates (T : Nat) (tipc : Nat → Fin N → Fin K → Fin S → ℝ) (M : Mats ℝ K S)
    (st st0 : Store ℝ N K S) (ts : List Triple) (hwf : wf T ts = true) :
    (peel T tipc M st ts).get (rootOf ts) = (peel T tipc M st0 ts).get (rootOf ts) :=
  peel_indep (T := T) T tipc M ts st st0 [] [] _ (fun _ h => by simp at h) (wf_unpack hwf)
    (fun i hge hi => absurd (hi.resolve_right (by simp)) (Nat.not_lt.mpr hge)) _
    (List.mem_singleton.mpr rfl) (wf_root_ge hwf)

example (st : Store ℝ 1 1 2) (h : TipsAgree 3 st Ex.tips) :
    (peel 0 noTips Ex.M st Ex.ts).get (rootOf Ex.ts) = (peel 0 noTips Ex.M Ex.tips Ex.ts).get (rootOf Ex.ts) :=
  plain_root_indep 3 0 (by omega) noTips Ex.M st Ex.tips Ex.ts Ex.wf_ts h

/-- **one evaluation, tip-partials path**: whichever branch runs (flag set: rescaled; flag clear:
  plain, or plain then safe when `switch` fires), the returned value is the plain log-likelihood -/
theorem evalPartials_value (T : Nat) (switch : ℝ → Part ℝ N K S → Bool) (thr : ℝ) (w : Fin N → ℝ)
    (ts : List Triple) (ms : MState ℝ N K S) (inp : Inputs ℝ K S) (hwf : wf T ts = true)
    (hposR : ∀ sc ∈ (peelRescaled 0 noTips inp.mats ms.st ts).scalers, ∀ n : Fin N, 0 < sc[n])
    (hposS : ∀ sc ∈ (peelSafe thr inp.mats (peel 0 noTips inp.mats ms.st ts) ts).scalers,
      ∀ n : Fin N, 0 < sc[n])
    (hlik : ∀ n, 0 < siteLik inp.freqs inp.props
      ((peel 0 noTips inp.mats ms.st ts).get (rootOf ts)) n) :
    (evalPartials switch thr w ts ms inp).1 =
      logLikPlain inp.freqs inp.props w ((peel 0 noTips inp.mats ms.st ts).get (rootOf ts)) := by
  unfold evalPartials
  cases hr : ms.rescale
  · simp only [Bool.false_eq_true, if_false]
    split
    · exact logLik_safe_eq_plain T thr inp.mats inp.freqs inp.props w ms.st ts hwf hposS hlik
    · rfl
  · simp only [if_true]
    exact logLik_rescaled_eq_plain T 0 (Nat.zero_le T) _ noTips inp.mats inp.freqs inp.props w ms.st ts
      hwf hposR hlik

/-- **one evaluation, tip-states path** (plain, plain then rescaled, or rescaled) -/
theorem evalStates_value (switch : ℝ → Part ℝ N K S → Bool) (w : Fin N → ℝ)
    (ts : List Triple) (states : Nat → Fin N → Nat) (ms : MState ℝ N K S) (inp : Inputs ℝ K S)
    (hwf : wf (ts.length + 1) ts = true)
    (hpos : ∀ st', ∀ sc ∈ (peelRescaled (ts.length + 1) (tipVec inp.mats states) inp.mats st' ts).scalers,
      ∀ n : Fin N, 0 < sc[n])
    (hlik : ∀ n, 0 < siteLik inp.freqs inp.props
      ((peel (ts.length + 1) (tipVec inp.mats states) inp.mats ms.st ts).get (rootOf ts)) n) :
    (evalStates switch w ts states ms inp).1 =
      logLikPlain inp.freqs inp.props w
        ((peel (ts.length + 1) (tipVec inp.mats states) inp.mats ms.st ts).get (rootOf ts)) := by
  unfold evalStates
  cases hr : ms.rescale
  swap
  · simp only [if_true]
    exact logLik_rescaled_eq_plain _ _ (Nat.le_refl _) _ _ inp.mats inp.freqs inp.props w ms.st ts
      hwf (hpos ms.st) hlik
  · simp only [Bool.false_eq_true, if_false]
    split
    · -- second pass starts from the list the plain pass left; same number by independence
      have hag : TipsAgree (ts.length + 1)
          (peel (ts.length + 1) (tipVec inp.mats states) inp.mats ms.st ts) ms.st := fun i hi =>
        peel_get_keep (T := ts.length + 1) _ _ inp.mats ts ms.st [] [] _ (wf_unpack hwf) i (Or.inl hi)
      have hroot := plain_root_indep (ts.length + 1) (ts.length + 1) (Nat.le_refl _) (tipVec inp.mats states) inp.mats
        _ ms.st ts hwf hag
      have := logLik_rescaled_eq_plain (ts.length + 1) (ts.length + 1) (Nat.le_refl _)
        (fun _ n p => maxKS p n) (tipVec inp.mats states) inp.mats inp.freqs inp.props w
        (peel (ts.length + 1) (tipVec inp.mats states) inp.mats ms.st ts) ts hwf (hpos _)
        (by rw [hroot]; exact hlik)
      rw [hroot] at this
      exact this
    · rfl

example (sw : ℝ → Part ℝ 1 1 2 → Bool) (thr : ℝ) (w : Fin 1 → ℝ) (flag : Bool) :
    (evalPartials sw thr w Ex.ts ⟨flag, Ex.tips⟩ Ex.inp).1 =
      logLikPlain Ex.inp.freqs Ex.inp.props w ((peel 0 noTips Ex.M Ex.tips Ex.ts).get (rootOf Ex.ts)) :=
  evalPartials_value 3 sw thr w Ex.ts ⟨flag, Ex.tips⟩ Ex.inp Ex.wf_ts (Ex.resc_pos Ex.tips (fun _ _ => rfl))
    (Ex.safe_pos thr Ex.tips (fun _ _ => rfl)) (Ex.plain_lik Ex.tips (fun _ _ => rfl))

example (sw : ℝ → Part ℝ 1 1 2 → Bool) (w : Fin 1 → ℝ) (ms : MState ℝ 1 1 2) :
    (evalStates sw w Ex.ts Ex.states ms Ex.inp).1 =
      logLikPlain Ex.inp.freqs Ex.inp.props w
        ((peel (Ex.ts.length + 1) (tipVec Ex.inp.mats Ex.states) Ex.inp.mats ms.st Ex.ts).get (rootOf Ex.ts)) :=
  evalStates_value sw w Ex.ts Ex.states ms Ex.inp Ex.wf_ts (fun st' => Ex.resc_pos_ts st')
    (Ex.plain_lik_ts ms.st)

/-- the flag and the branch of one evaluation are those of the automaton `flagStep` -/
theorem evalPartials_flag (switch : ℝ → Part ℝ N K S → Bool) (thr : ℝ) (w : Fin N → ℝ)
    (ts : List Triple) (ms : MState ℝ N K S) (inp : Inputs ℝ K S) :
    ((evalPartials switch thr w ts ms inp).2.1, (evalPartials switch thr w ts ms inp).2.2.rescale) =
      flagStep false ms.rescale
        (switch (logLikPlain inp.freqs inp.props w ((peel 0 noTips inp.mats ms.st ts).get (rootOf ts)))
          ((peel 0 noTips inp.mats ms.st ts).get (rootOf ts))) := by
  unfold evalPartials flagStep
  cases hr : ms.rescale
  · simp only [Bool.false_eq_true, if_false]
    split <;> simp_all
  · simp

/-- an evaluation never touches the tip slots -/
theorem evalPartials_tips (T : Nat) (switch : ℝ → Part ℝ N K S → Bool) (thr : ℝ) (w : Fin N → ℝ)
    (ts : List Triple) (ms : MState ℝ N K S) (inp : Inputs ℝ K S) (hwf : wf T ts = true) :
    TipsAgree T (evalPartials switch thr w ts ms inp).2.2.st ms.st := by
  intro i hi
  have hp : (peel 0 noTips inp.mats ms.st ts).get i = ms.st.get i :=
    peel_get_keep (T := T) 0 noTips inp.mats ts ms.st [] [] _ (wf_unpack hwf) i (Or.inl hi)
  unfold evalPartials
  cases hr : ms.rescale
  · simp only [Bool.false_eq_true, if_false]
    split
    · show (peelSafe thr inp.mats (peel 0 noTips inp.mats ms.st ts) ts).st.get i = _
      rw [← hp]
      exact safe_get_keep (T := T) _ _ inp.mats ts ⟨_, fun _ => false, []⟩ [] [] _ (wf_unpack hwf) i hi
    · exact hp
  · simp only [if_true]
    exact resc_get_keep (T := T) _ 0 noTips inp.mats ts ⟨ms.st, []⟩ [] [] _ (wf_unpack hwf) i hi

/-- **history consistency** (tip-partials path): for ANY sequence of evaluations — any inputs, any
  switch tests (so whatever the float64 passes return and whenever the flag gets set), any state the
  object starts in — the i-th returned value is the plain log-likelihood of the i-th inputs on the
  tips. Scalers are assumed positive for every list holding these tips. -/
theorem history_consistent (T : Nat) (thr : ℝ) (w : Fin N → ℝ) (ts : List Triple)
    (st0 : Store ℝ N K S) (hwf : wf T ts = true) :
    ∀ (hist : List (Inputs ℝ K S × (ℝ → Part ℝ N K S → Bool))) (ms : MState ℝ N K S),
      TipsAgree T ms.st st0 →
      (∀ e ∈ hist, ∀ st', TipsAgree T st' st0 →
        ∀ sc ∈ (peelRescaled 0 noTips e.1.mats st' ts).scalers, ∀ n : Fin N, 0 < sc[n]) →
      (∀ e ∈ hist, ∀ st', TipsAgree T st' st0 →
        ∀ sc ∈ (peelSafe thr e.1.mats (peel 0 noTips e.1.mats st' ts) ts).scalers,
          ∀ n : Fin N, 0 < sc[n]) →
      (∀ e ∈ hist, ∀ n, 0 < siteLik e.1.freqs e.1.props
        ((peel 0 noTips e.1.mats st0 ts).get (rootOf ts)) n) →
      (runPartials thr w ts ms hist).map (·.1) =
        hist.map fun e => logLikPlain e.1.freqs e.1.props w
          ((peel 0 noTips e.1.mats st0 ts).get (rootOf ts))
  | [], _, _, _, _, _ => rfl
  | e :: rest, ms, hag, hR, hS, hL => by
      have hroot := plain_root_indep T 0 (Nat.zero_le T) noTips e.1.mats ms.st st0 ts hwf hag
      have hv := evalPartials_value T e.2 thr w ts ms e.1 hwf
        (hR e (List.mem_cons_self) ms.st hag) (hS e (List.mem_cons_self) ms.st hag)
        (by rw [hroot]; exact hL e (List.mem_cons_self))
      have hag' : TipsAgree T (evalPartials e.2 thr w ts ms e.1).2.2.st st0 := fun i hi =>
        (evalPartials_tips T e.2 thr w ts ms e.1 hwf i hi).trans (hag i hi)
      have ih := history_consistent T thr w ts st0 hwf rest _ hag'
        (fun e' h => hR e' (List.mem_cons_of_mem _ h)) (fun e' h => hS e' (List.mem_cons_of_mem _ h))
        (fun e' h => hL e' (List.mem_cons_of_mem _ h))
      simp only [runPartials, List.map_cons, ih, hv, hroot]

/-- a two-evaluation history on `Ex` starting from ANY object state (flag and leftovers
  arbitrary), with arbitrary switch tests: both evaluations return the plain value -/
example (thr : ℝ) (w : Fin 1 → ℝ) (sw1 sw2 : ℝ → Part ℝ 1 1 2 → Bool) (ms : MState ℝ 1 1 2)
    (h : TipsAgree 3 ms.st Ex.tips) :
    (runPartials thr w Ex.ts ms [(Ex.inp, sw1), (Ex.inp, sw2)]).map (·.1) =
      [logLikPlain Ex.inp.freqs Ex.inp.props w ((peel 0 noTips Ex.M Ex.tips Ex.ts).get (rootOf Ex.ts)),
       logLikPlain Ex.inp.freqs Ex.inp.props w ((peel 0 noTips Ex.M Ex.tips Ex.ts).get (rootOf Ex.ts))] := by
  have := history_consistent 3 thr w Ex.ts Ex.tips Ex.wf_ts [(Ex.inp, sw1), (Ex.inp, sw2)] ms h
    (by intro e he st' hs
        simp only [List.mem_cons, List.not_mem_nil, or_false] at he
        rcases he with rfl | rfl <;> exact Ex.resc_pos st' hs)
    (by intro e he st' hs
        simp only [List.mem_cons, List.not_mem_nil, or_false] at he
        rcases he with rfl | rfl <;> exact Ex.safe_pos thr st' hs)
    (by intro e he
        simp only [List.mem_cons, List.not_mem_nil, or_false] at he
        rcases he with rfl | rfl <;> exact Ex.plain_lik Ex.tips (fun _ _ => rfl))
  exact this

/-- **sticky, on the model object**: started with the flag set, every evaluation of any history
  takes the rescaled branch and leaves the flag set -/
theorem sticky_history (thr : ℝ) (w : Fin N → ℝ) (ts : List Triple) :
    ∀ (hist : List (Inputs ℝ K S × (ℝ → Part ℝ N K S → Bool))) (ms : MState ℝ N K S),
      ms.rescale = true →
      (runPartials thr w ts ms hist).map (·.2) = List.replicate hist.length (Branch.rescaled, true)
  | [], _, _ => rfl
  | e :: rest, ms, h => by
      have hf := evalPartials_flag e.2 thr w ts ms e.1
      rw [h, sticky_step] at hf
      have h1 : (evalPartials e.2 thr w ts ms e.1).2.1 = Branch.rescaled := (Prod.ext_iff.mp hf).1
      have h2 : (evalPartials e.2 thr w ts ms e.1).2.2.rescale = true := (Prod.ext_iff.mp hf).2
      simp only [runPartials, List.map_cons, List.length_cons, List.replicate_succ,
        sticky_history thr w ts rest _ h2, h1, h2]


/-! ### the tip-states path (`calculate_with_tip_states`, `…_tip_states_discrete(_rescaled)`)

The code has NO safe-pass analogue on this path: when the switch fires the full rescaled pass
`calculate_treelikelihood_tip_states_discrete_rescaled` is run (`Branch.plainThenResc`). Value:
`evalStates_value` above; flag and stickiness: below. -/

/-- flag and branch of one tip-states evaluation follow `flagStep true` -/
theorem evalStates_flag (switch : ℝ → Part ℝ N K S → Bool) (w : Fin N → ℝ) (ts : List Triple)
    (states : Nat → Fin N → Nat) (ms : MState ℝ N K S) (inp : Inputs ℝ K S) :
    ((evalStates switch w ts states ms inp).2.1, (evalStates switch w ts states ms inp).2.2.rescale) =
      flagStep true ms.rescale
        (switch (logLikPlain inp.freqs inp.props w
            ((peel (ts.length + 1) (tipVec inp.mats states) inp.mats ms.st ts).get (rootOf ts)))
          ((peel (ts.length + 1) (tipVec inp.mats states) inp.mats ms.st ts).get (rootOf ts))) := by
  unfold evalStates flagStep
  cases hr : ms.rescale
  · simp only [Bool.false_eq_true, if_false]
    split <;> simp_all
  · simp

/-- **history consistency, tip-states path**: for any sequence of evaluations, any switch tests, any
  start state (flag and list contents arbitrary — tip slots are never read), the i-th value is the
  plain tip-states log-likelihood of the i-th inputs -/
theorem history_consistent_states (w : Fin N → ℝ) (ts : List Triple) (states : Nat → Fin N → Nat)
    (st0 : Store ℝ N K S) (hwf : wf (ts.length + 1) ts = true) :
    ∀ (hist : List (Inputs ℝ K S × (ℝ → Part ℝ N K S → Bool))) (ms : MState ℝ N K S),
      (∀ e ∈ hist, ∀ st', ∀ sc ∈ (peelRescaled (ts.length + 1) (tipVec e.1.mats states) e.1.mats st' ts).scalers,
        ∀ n : Fin N, 0 < sc[n]) →
      (∀ e ∈ hist, ∀ n, 0 < siteLik e.1.freqs e.1.props
        ((peel (ts.length + 1) (tipVec e.1.mats states) e.1.mats st0 ts).get (rootOf ts)) n) →
      (runStates w ts states ms hist).map (·.1) =
        hist.map fun e => logLikPlain e.1.freqs e.1.props w
          ((peel (ts.length + 1) (tipVec e.1.mats states) e.1.mats st0 ts).get (rootOf ts))
  | [], _, _, _ => rfl
  | e :: rest, ms, hR, hL => by
      have hroot := plain_root_indep_tipstates (ts.length + 1) (tipVec e.1.mats states) e.1.mats ms.st st0 ts hwf
      have hv := evalStates_value e.2 w ts states ms e.1 hwf (hR e (List.mem_cons_self))
        (by rw [hroot]; exact hL e (List.mem_cons_self))
      have ih := history_consistent_states w ts states st0 hwf rest
        (evalStates e.2 w ts states ms e.1).2.2
        (fun e' h => hR e' (List.mem_cons_of_mem _ h)) (fun e' h => hL e' (List.mem_cons_of_mem _ h))
      simp only [runStates, List.map_cons, ih, hv, hroot]

/-- **sticky, tip-states path** -/
theorem sticky_history_states (w : Fin N → ℝ) (ts : List Triple) (states : Nat → Fin N → Nat) :
    ∀ (hist : List (Inputs ℝ K S × (ℝ → Part ℝ N K S → Bool))) (ms : MState ℝ N K S),
      ms.rescale = true →
      (runStates w ts states ms hist).map (·.2) = List.replicate hist.length (Branch.rescaled, true)
  | [], _, _ => rfl
  | e :: rest, ms, h => by
      have hf := evalStates_flag e.2 w ts states ms e.1
      rw [h, sticky_step] at hf
      have h1 : (evalStates e.2 w ts states ms e.1).2.1 = Branch.rescaled := (Prod.ext_iff.mp hf).1
      have h2 : (evalStates e.2 w ts states ms e.1).2.2.rescale = true := (Prod.ext_iff.mp hf).2
      simp only [runStates, List.map_cons, List.length_cons, List.replicate_succ,
        sticky_history_states w ts states rest _ h2, h1, h2]

example (w : Fin 1 → ℝ) (sw1 sw2 : ℝ → Part ℝ 1 1 2 → Bool) (ms : MState ℝ 1 1 2) :
    (runStates w Ex.ts Ex.states ms [(Ex.inp, sw1), (Ex.inp, sw2)]).map (·.1) =
      [logLikPlain Ex.inp.freqs Ex.inp.props w
         ((peel 3 (tipVec Ex.M Ex.states) Ex.M Ex.tips Ex.ts).get (rootOf Ex.ts)),
       logLikPlain Ex.inp.freqs Ex.inp.props w
         ((peel 3 (tipVec Ex.M Ex.states) Ex.M Ex.tips Ex.ts).get (rootOf Ex.ts))] :=
  history_consistent_states w Ex.ts Ex.states Ex.tips Ex.wf_ts [(Ex.inp, sw1), (Ex.inp, sw2)] ms
    (by intro e he st'
        simp only [List.mem_cons, List.not_mem_nil, or_false] at he
        rcases he with rfl | rfl <;> exact Ex.resc_pos_ts st')
    (by intro e he
        simp only [List.mem_cons, List.not_mem_nil, or_false] at he
        rcases he with rfl | rfl <;> exact Ex.plain_lik_ts Ex.tips)

example (thr : ℝ) (w : Fin 1 → ℝ) (sw1 sw2 : ℝ → Part ℝ 1 1 2 → Bool) (st : Store ℝ 1 1 2) :
    (runPartials thr w Ex.ts ⟨true, st⟩ [(Ex.inp, sw1), (Ex.inp, sw2)]).map (·.2) =
      [(Branch.rescaled, true), (Branch.rescaled, true)] :=
  sticky_history thr w Ex.ts _ ⟨true, st⟩ rfl

end TTProps.C03
