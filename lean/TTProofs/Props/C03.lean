/-! C03 property theorems — stub (not built yet). -/
namespace TTProps.C03
end TTProps.C03
