import TTProofs.Lemmas.C04_Compose
import TTProofs.Lemmas.C01_Main
/-!
# C01 ∘ C04 — the row-stochastic hypothesis DISCHARGED for the shipped substitution models

`TTProps.C01.tipStates_eq_tipPartials` (and `TTProps.C02.tipStates_vs_partials`) assume that every edge
matrix has rows summing to one.  Here the edge matrices are what the likelihood builds,
`mats b k = p_t(blens b · rate_k)`, with `p_t(t) = exp(t • Q/norm)` for `Q = q()` produced by the C04
builder functions (symmetric family AND the non-symmetric builder), resp. the closed forms of
JC69/GeneralJC69 and the eigen reconstruction coded in `p_t`; the hypothesis is PROVED, for all real
branch lengths and category rates and all parameter values, and for admissible parameters every row is
a probability vector.
-/
namespace TTProps.C01_Compose
open TT TT.C01 TT.C04 Matrix

variable {K S : Nat}

/-- the list `mats` of the likelihood: branch `b` (index of the node below it), category `k` -/
noncomputable def edgeMats (P : ℝ → Fin K → Fin S → Fin S → ℝ) (blens : Nat → ℝ) : Mats ℝ K S :=
  fun b k => P (blens b) k

/-- `exp((a · rate_k) • Q/norm)` for `q() = Q` -/
noncomputable def edgeP (Q : Mat S ℝ) (π : Fin S → ℝ) (rates : Fin K → ℝ) :
    ℝ → Fin K → Fin S → Fin S → ℝ :=
  expP (toM (normalised Q π)) rates

/-- **rows sum to one** for any rate matrix with zero row sums -/
theorem rows_one_of_rows_zero (Q : Mat S ℝ) (π : Fin S → ℝ) (rates : Fin K → ℝ) (blens : Nat → ℝ)
    (hQ : ∀ i, ∑ j, Q i j = 0) (b : Nat) (k : Fin K) (s : Fin S) :
    ∑ j, edgeMats (edgeP Q π rates) blens b k s j = 1 :=
  rowsum_expP _ rates (fun i => normalised_row_sum Q π i (hQ i)) (blens b) k s

/-- every builder that goes through `fromR` (GeneralSymmetric, GeneralNonSymmetric, Empirical/LG/WAG, MG94) -/
theorem rows_one_fromR (Rm : Mat S ℝ) (π : Fin S → ℝ) (rates : Fin K → ℝ) (blens : Nat → ℝ)
    (hd : ∀ i, Rm i i = 0) (b : Nat) (k : Fin K) (s : Fin S) :
    ∑ j, edgeMats (edgeP (fromR Rm π) π rates) blens b k s j = 1 :=
  rows_one_of_rows_zero _ π rates blens (fromR_row_sum Rm π hd) b k s

theorem rows_one_generalSym (mapping : Nat → Nat) (r : Nat → ℝ) (π : Fin S → ℝ) (rates : Fin K → ℝ)
    (blens : Nat → ℝ) (b : Nat) (k : Fin K) (s : Fin S) :
    ∑ j, edgeMats (edgeP (generalSymQ mapping r π) π rates) blens b k s j = 1 :=
  rows_one_fromR _ π rates blens (symR_diag _) b k s

/-- the NON-reversible builder: `exp_rows_one` alone -/
theorem rows_one_generalNonSym (dim : Nat) (mapping : Nat → Nat) (r : Nat → ℝ) (π : Fin S → ℝ)
    (rates : Fin K → ℝ) (blens : Nat → ℝ) (b : Nat) (k : Fin K) (s : Fin S) :
    ∑ j, edgeMats (edgeP (generalNonSymQ dim mapping r π) π rates) blens b k s j = 1 :=
  rows_one_fromR _ π rates blens (nonSymR_diag _ _) b k s

theorem rows_one_empirical (r : Nat → ℝ) (π : Fin S → ℝ) (rates : Fin K → ℝ)
    (blens : Nat → ℝ) (b : Nat) (k : Fin K) (s : Fin S) :
    ∑ j, edgeMats (edgeP (empiricalQ r π) π rates) blens b k s j = 1 :=
  rows_one_fromR _ π rates blens (symR_diag _) b k s

theorem rows_one_mg94 (mask : Nat → Bool × Bool × Bool) (a c κ : ℝ) (π : Fin S → ℝ) (rates : Fin K → ℝ)
    (blens : Nat → ℝ) (b : Nat) (k : Fin K) (s : Fin S) :
    ∑ j, edgeMats (edgeP (mg94Q mask a c κ π) π rates) blens b k s j = 1 :=
  rows_one_fromR _ π rates blens (symR_diag _) b k s

theorem rows_one_hky (κ : ℝ) (π : Fin 4 → ℝ) (rates : Fin K → ℝ) (blens : Nat → ℝ) (b : Nat) (k : Fin K)
    (s : Fin 4) : ∑ j, edgeMats (edgeP (hkyQ κ π) π rates) blens b k s j = 1 := by
  rw [hkyQ_eq_generalSym]; exact rows_one_generalSym _ _ π rates blens b k s

theorem rows_one_gtr (r : Fin 6 → ℝ) (π : Fin 4 → ℝ) (rates : Fin K → ℝ) (blens : Nat → ℝ) (b : Nat)
    (k : Fin K) (s : Fin 4) : ∑ j, edgeMats (edgeP (gtrQ r π) π rates) blens b k s j = 1 := by
  rw [gtrQ_eq_generalSym]; exact rows_one_generalSym _ _ π rates blens b k s

/-- closed forms `GeneralJC69.p_t` / `JC69.p_t` -/
theorem rows_one_generalJC69 (n : Nat) (hn : 1 ≤ n) (rates : Fin K → ℝ) (blens : Nat → ℝ) (b : Nat)
    (k : Fin K) (s : Fin n) : ∑ j, edgeMats (jcP n rates) blens b k s j = 1 :=
  generalJC69P_row_sum n (by exact_mod_cast Nat.pos_iff_ne_zero.mp hn) _ s

theorem rows_one_jc69 (rates : Fin K → ℝ) (blens : Nat → ℝ) (b : Nat) (k : Fin K) (s : Fin 4) :
    ∑ j, edgeMats (jc69EdgeP rates) blens b k s j = 1 := by
  simp only [edgeMats, jc69EdgeP, jc69P_eq]
  exact generalJC69P_row_sum 4 (by norm_num) _ s

/-- the eigen reconstruction coded in `p_t`, under the `eigh`/`inverse` contract -/
theorem rows_one_recon (Q : Mat S ℝ) (π e : Fin S → ℝ) (V Vinv : Mat S ℝ) (rates : Fin K → ℝ)
    (blens : Nat → ℝ) (hQ : ∀ i, ∑ j, Q i j = 0) (hπ : ∀ i, 0 < π i) (hV : toM V * toM Vinv = 1)
    (hS : toM (symmetrised (normalised Q π) π) = toM V * diagonal e * toM Vinv)
    (b : Nat) (k : Fin K) (s : Fin S) : ∑ j, edgeMats (reconP π e V Vinv rates) blens b k s j = 1 := by
  rw [reconP_eq_expP π e V Vinv (normalised Q π) rates hπ hV hS]
  exact rows_one_of_rows_zero Q π rates blens hQ b k s

/-- **every row is a probability vector** for admissible parameters of the symmetric family and the
non-symmetric builder alike: `R ≥ 0` with zero diagonal, `π ≥ 0`, `norm ≥ 0`, branch lengths and
category rates `≥ 0` -/
theorem rows_probability_fromR (Rm : Mat S ℝ) (π : Fin S → ℝ) (rates : Fin K → ℝ) (blens : Nat → ℝ)
    (hd : ∀ i, Rm i i = 0) (hR : ∀ i j, 0 ≤ Rm i j) (hπ : ∀ i, 0 ≤ π i) (hn : 0 ≤ norm (fromR Rm π) π)
    (hr : ∀ k, 0 ≤ rates k) (hb : ∀ b, 0 ≤ blens b) (b : Nat) (k : Fin K) (s : Fin S) :
    (∑ j, edgeMats (edgeP (fromR Rm π) π rates) blens b k s j = 1) ∧
    ∀ j, 0 ≤ edgeMats (edgeP (fromR Rm π) π rates) blens b k s j :=
  ⟨rows_one_fromR Rm π rates blens hd b k s,
   fun j => nonneg_expP _ rates (famQ_offdiag Rm π hR hπ hn) (blens b) (hb b) k (hr k) s j⟩

/-! ## the C01 theorem with its hypothesis discharged -/

/-- **tip states = tip partials** for every model whose `q()` has zero row sums — no hypothesis on
the edge matrices is left -/
theorem tipStates_eq_tipPartials_of_rows_zero (Q : Mat S ℝ) (π : Fin S → ℝ) (rates props : Fin K → ℝ)
    (blens : Nat → ℝ) (hQ : ∀ i, ∑ j, Q i j = 0) (tipState : Nat → Nat) (n : Nat) (l r : BTree)
    (hleaves : ∀ i ∈ (BTree.node l r).leaves, i < n) (hn : (BTree.node l r).leaves.length = n) :
    siteLikTS π props (edgeMats (edgeP Q π rates) blens) (postorder (setupIndexes n (.node l r))) tipState
      = siteLik π props (edgeMats (edgeP Q π rates) blens) (postorder (setupIndexes n (.node l r))) n
          (fun i => stateVec (tipState i)) :=
  TT.C01.tipStates_eq_tipPartials π props _ tipState n l r hleaves hn
    (rows_one_of_rows_zero Q π rates blens hQ)

theorem tipStates_eq_tipPartials_hky (κ : ℝ) (π : Fin 4 → ℝ) (rates props : Fin K → ℝ) (blens : Nat → ℝ)
    (tipState : Nat → Nat) (n : Nat) (l r : BTree)
    (hleaves : ∀ i ∈ (BTree.node l r).leaves, i < n) (hn : (BTree.node l r).leaves.length = n) :
    siteLikTS π props (edgeMats (edgeP (hkyQ κ π) π rates) blens) (postorder (setupIndexes n (.node l r))) tipState
      = siteLik π props (edgeMats (edgeP (hkyQ κ π) π rates) blens) (postorder (setupIndexes n (.node l r))) n
          (fun i => stateVec (tipState i)) :=
  TT.C01.tipStates_eq_tipPartials π props _ tipState n l r hleaves hn (rows_one_hky κ π rates blens)

theorem tipStates_eq_tipPartials_gtr (r6 : Fin 6 → ℝ) (π : Fin 4 → ℝ) (rates props : Fin K → ℝ)
    (blens : Nat → ℝ) (tipState : Nat → Nat) (n : Nat) (l r : BTree)
    (hleaves : ∀ i ∈ (BTree.node l r).leaves, i < n) (hn : (BTree.node l r).leaves.length = n) :
    siteLikTS π props (edgeMats (edgeP (gtrQ r6 π) π rates) blens) (postorder (setupIndexes n (.node l r))) tipState
      = siteLik π props (edgeMats (edgeP (gtrQ r6 π) π rates) blens) (postorder (setupIndexes n (.node l r))) n
          (fun i => stateVec (tipState i)) :=
  TT.C01.tipStates_eq_tipPartials π props _ tipState n l r hleaves hn (rows_one_gtr r6 π rates blens)

/-- every `fromR` builder: GeneralSymmetric, GeneralNonSymmetric, Empirical (LG, WAG), MG94 -/
theorem tipStates_eq_tipPartials_fromR (Rm : Mat S ℝ) (hd : ∀ i, Rm i i = 0) (π : Fin S → ℝ)
    (rates props : Fin K → ℝ) (blens : Nat → ℝ) (tipState : Nat → Nat) (n : Nat) (l r : BTree)
    (hleaves : ∀ i ∈ (BTree.node l r).leaves, i < n) (hn : (BTree.node l r).leaves.length = n) :
    siteLikTS π props (edgeMats (edgeP (fromR Rm π) π rates) blens) (postorder (setupIndexes n (.node l r))) tipState
      = siteLik π props (edgeMats (edgeP (fromR Rm π) π rates) blens) (postorder (setupIndexes n (.node l r))) n
          (fun i => stateVec (tipState i)) :=
  TT.C01.tipStates_eq_tipPartials π props _ tipState n l r hleaves hn (rows_one_fromR Rm π rates blens hd)

theorem tipStates_eq_tipPartials_jc69 (rates props : Fin K → ℝ) (blens : Nat → ℝ) (tipState : Nat → Nat)
    (n : Nat) (l r : BTree) (hleaves : ∀ i ∈ (BTree.node l r).leaves, i < n)
    (hn : (BTree.node l r).leaves.length = n) :
    siteLikTS jc69Freq props (edgeMats (jc69EdgeP rates) blens) (postorder (setupIndexes n (.node l r))) tipState
      = siteLik jc69Freq props (edgeMats (jc69EdgeP rates) blens) (postorder (setupIndexes n (.node l r))) n
          (fun i => stateVec (tipState i)) :=
  TT.C01.tipStates_eq_tipPartials _ props _ tipState n l r hleaves hn (rows_one_jc69 rates blens)

/-- what `p_t` computes (eigen reconstruction), under the `eigh`/`inverse` contract -/
theorem tipStates_eq_tipPartials_recon (Q : Mat S ℝ) (π e : Fin S → ℝ) (V Vinv : Mat S ℝ)
    (rates props : Fin K → ℝ) (blens : Nat → ℝ) (hQ : ∀ i, ∑ j, Q i j = 0) (hπ : ∀ i, 0 < π i)
    (hV : toM V * toM Vinv = 1)
    (hS : toM (symmetrised (normalised Q π) π) = toM V * diagonal e * toM Vinv)
    (tipState : Nat → Nat) (n : Nat) (l r : BTree)
    (hleaves : ∀ i ∈ (BTree.node l r).leaves, i < n) (hn : (BTree.node l r).leaves.length = n) :
    siteLikTS π props (edgeMats (reconP π e V Vinv rates) blens) (postorder (setupIndexes n (.node l r))) tipState
      = siteLik π props (edgeMats (reconP π e V Vinv rates) blens) (postorder (setupIndexes n (.node l r))) n
          (fun i => stateVec (tipState i)) :=
  TT.C01.tipStates_eq_tipPartials π props _ tipState n l r hleaves hn
    (rows_one_recon Q π e V Vinv rates blens hQ hπ hV hS)

/-! ## non-vacuity -/

/-- concrete instance: GTR with rates (1,2,3,4,5,6), π = (0.1,0.2,0.3,0.4), two categories, the
three-taxon tree ((2,0),1) with three leaves below index 3 -/
example (blens : Nat → ℝ) (tipState : Nat → Nat) :
    let π : Fin 4 → ℝ := fun i => ((i.val : ℝ) + 1) / 10
    let r6 : Fin 6 → ℝ := fun i => (i.val : ℝ) + 1
    let rates : Fin 2 → ℝ := fun k => if k = 0 then 1 / 2 else 3 / 2
    siteLikTS π (fun _ => 1 / 2) (edgeMats (edgeP (gtrQ r6 π) π rates) blens)
        (postorder (setupIndexes 3 (.node (.node (.leaf 2) (.leaf 0)) (.leaf 1)))) tipState
      = siteLik π (fun _ => 1 / 2) (edgeMats (edgeP (gtrQ r6 π) π rates) blens)
        (postorder (setupIndexes 3 (.node (.node (.leaf 2) (.leaf 0)) (.leaf 1)))) 3
        (fun i => stateVec (tipState i)) := by
  intro π r6 rates
  exact tipStates_eq_tipPartials_gtr r6 π rates _ blens tipState 3 _ _ (by decide) (by decide)

end TTProps.C01_Compose
