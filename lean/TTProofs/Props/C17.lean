/-! C17 property theorems — stub (not built yet). -/
namespace TTProps.C17
end TTProps.C17
