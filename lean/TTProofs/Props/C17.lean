import TTModel.C17_Codec
import TTModel.C17_Resume
import TTGen.C17_StateKeys
import TTProofs.Lemmas.C17_Codec
import TTModel.C17_Reinject
import TTProofs.Lemmas.C17_Reinject
/-!
# C17 — a checkpoint restores the whole run state; resuming continues the same run

* `codec_roundtrip` and the lemmas beside it: what `json.dump(cls=ParameterEncoder)` followed by
  `json.load(cls=TensorDecoder)` does to ANY state value (unbounded nesting) — the identity except
  for the coercions listed, each with the operation that undoes it.
* `keys_read_subset_written` (+ `load_after_state_dict`, `restore_through_checkpoint`): about the
  table `TTGen.C17_StateKeys.classes` REGENERATED from the source on every run.
* `optimizer_state_*`: torch's optimiser state is keyed by integers; what a checkpoint does to it.
* `resume_same_run` (+ `_iff`, `all_loops_resume`): about `TTGen.C17_StateKeys.loops`.
-/
namespace TTProps.C17
open TT.C17 TTGen.C17_StateKeys

/-- every state_dict / load_state_dict / checkpointing loop had a recognised shape -/
theorem translator_recognised : translatorOk = true := by decide

/-! ## the codec -/

/-- **codec_roundtrip**: reading back what was written yields the canonical image of the value,
for every value of the universe (any nesting depth, any mixture of containers, tensors and
parameters); `none` = reading back raises. -/
theorem codec_roundtrip (dflt : DType) (v : Val) : decode dflt (encode v) = canon dflt v :=
  decode_encode dflt v

/-- the canonical image is the value itself when it contains no tuple, no `Parameter` object, only
string keys without repetition and no dictionary posing as an encoded tensor: on such values a
checkpoint is lossless — dtypes, `nn.Parameter` flags and data included. -/
theorem codec_lossless_on_plain (dflt : DType) (v : Val) (h : Plain v = true) :
    decode dflt (encode v) = some v := by
  rw [codec_roundtrip, canon_plain dflt v h]

example : Plain (.dict (.cons (.str "step_size") (.float 4576918229304087675)
    (.cons (.str "mean") (.tensor .float32 true (.list (.cons (.float 0) (.cons (.float 1) .nil)))) .nil))) = true := by
  decide

/-- a tensor keeps its dtype and its `nn.Parameter` flag (data canonicalised); the one exception is
an `nn.Parameter` of a non floating point dtype, which `TensorDecoder` cannot rebuild -/
theorem tensor_roundtrip (dflt dt : DType) (nn : Bool) (data : Val) (h : nn = true → dt.isFloat = true) :
    decode dflt (encode (.tensor dt nn data)) = (canon dflt data).map (.tensor dt nn) := by
  rw [codec_roundtrip]
  have h1 : (nn && !dt.isFloat) = false := by
    cases nn <;> simp_all
  simp [canon, h1]

/-- listed coercion 1: a tuple comes back as a list (`Val.toTuple` undoes it) -/
theorem coercion_tuple (dflt : DType) (xs : Vals) : canon dflt (.tuple xs) = canon dflt (.list xs) := rfl

theorem nat_repr_ne_type (n : Nat) : n.repr ≠ "type" := by
  intro h
  have h1 : n.repr.toList = "type".toList := by rw [h]
  rw [Nat.toList_repr] at h1
  have : 't' ∈ Nat.toDigits 10 n := by rw [h1]; simp
  have := Nat.isDigit_of_mem_toDigits (by omega) (by omega) this
  revert this; decide

theorem int_repr_ne_type (n : Int) : n.repr ≠ "type" := by
  rw [Int.repr_eq_if]
  split
  · exact nat_repr_ne_type _
  · intro h
    have h1 := congrArg String.toList h
    simp at h1

/-- listed coercion 2: an integer key comes back as the string that spells it -/
theorem coercion_int_key (dflt : DType) (n : Int) (v : Val) :
    canon dflt (.dict (.cons (.int n) v .nil)) =
      (canon dflt v).map fun v' => .dict (.cons (.str n.repr) v' .nil) := by
  simp only [canon, canonKVs]
  cases canon dflt v with
  | none => rfl
  | some v' =>
      simp [KVs.upsert, objectHook, KVs.lookup, isTensorTag, int_repr_ne_type]

/-- listed coercion 3: a `Parameter` comes back as its JSON dictionary, and `Parameter.from_json`
(as called by `HMCOperator._load_state_dict`) rebuilds it with dtype and `nn` flag -/
theorem coercion_parameter (dflt : DType) (id : String) (dt : DType) (nn : Bool) (data : Val) :
    (canon dflt (.param id dt nn data)).bind paramOfDict = (canon dflt data).map (.param id dt nn) := by
  simp only [canon]
  cases canon dflt data with
  | none => rfl
  | some d => simp [paramOfDict, KVs.lookup, parse_name]

/-! ## state_dict / load_state_dict tables (generated) -/

/-- **keys_read_subset_written**: for every class with a state_dict/load_state_dict pair in
`torchtree/optim` and `torchtree/inference`: every key `load_state_dict` reads is written by the
matching `state_dict` from the same attribute and under a condition that implies the read;
every written key that carries run state (all but `id`) is read back into that attribute. -/
theorem keys_read_subset_written : ∀ c ∈ classes, c.ok = true := by decide

theorem distinctStr_filter_map {α : Type} (f : α → String) (p : α → Bool) :
    ∀ l : List α, distinctStr (l.map f) = true → distinctStr ((l.filter p).map f) = true := by
  intro l
  induction l with
  | nil => intro _; rfl
  | cons a r ih =>
      intro h
      simp only [List.map, distinctStr, Bool.and_eq_true, Bool.not_eq_true', List.contains_eq_mem,
        decide_eq_false_iff_not] at h
      by_cases hp : p a = true
      · simp only [List.filter, hp, List.map, distinctStr, Bool.and_eq_true, Bool.not_eq_true',
          List.contains_eq_mem, decide_eq_false_iff_not]
        refine ⟨fun hm => h.1 ?_, ih h.2⟩
        obtain ⟨b, hb, hfb⟩ := List.mem_map.mp hm
        exact List.mem_map.mpr ⟨b, (List.mem_filter.mp hb).1, hfb⟩
      · simp [List.filter, hp, ih h.2]

/-- what a consistent table means (lifts the finite check to every object state): calling
`load_state_dict(obj.state_dict())` on a freshly built object never raises, gives every attribute
named by an executed read the value the saved object had there, and touches nothing else.
`en` interprets the conditions (`hasattr`, `is not None`, non-empty) on the object. -/
theorem load_after_state_dict (c : ClassKeys) (hc : c.ok = true) (hd : c.delegateW = none)
    (en : String → Bool) (hen : en "" = true) (st st0 : Attrs) :
    ∃ st', load c en (stateDict c en st) st0 = some st' ∧
      (∀ r ∈ c.read, en r.cond = true → st' r.attr = st r.attr) ∧
      (∀ a, (∀ r ∈ c.read, en r.cond = true → r.attr ≠ a) → st' a = st0 a) := by
  unfold ClassKeys.ok at hc
  rw [hd] at hc
  cases hR : c.delegateR with
  | some b => simp [hR] at hc
  | none =>
    simp only [hR, Bool.and_eq_true] at hc
    obtain ⟨⟨⟨⟨hread, _⟩, _⟩, hdistR⟩, _⟩ := hc
    have hpresent : ∀ e ∈ c.read.filter (fun e => en e.cond),
        (stateDict c en st).lookup e.key = some (st e.attr) := by
      intro e he
      obtain ⟨hm, hen_e⟩ := List.mem_filter.mp he
      have := List.all_eq_true.mp hread e hm
      cases hf : findKey e.key c.written with
      | none => simp [hf] at this
      | some w =>
          simp only [hf, Bool.and_eq_true, beq_iff_eq] at this
          obtain ⟨hattr, hcond⟩ := this
          have hw : en w.cond = true := by
            simp only [condOk, Bool.or_eq_true, beq_iff_eq, Bool.and_eq_true] at hcond
            rcases hcond with h | h
            · rw [← h]; exact hen_e
            · rw [h.1]; exact hen
          rw [← hattr]
          exact lookup_kvsOf st e.key (fun e => en e.cond) c.written w hf hw
    obtain ⟨st', hl, hin, hout⟩ := loadEntries_spec (stateDict c en st)
      (c.read.filter fun e => en e.cond) st0
      (fun e he => ⟨_, hpresent e he⟩)
      (distinctStr_filter_map (·.attr) _ c.read hdistR)
    refine ⟨st', hl, ?_, ?_⟩
    · intro r hr hen_r
      have hm : r ∈ c.read.filter (fun e => en e.cond) := List.mem_filter.mpr ⟨hr, hen_r⟩
      have := hin r hm
      rw [hpresent r hm] at this
      exact Option.some.inj this
    · intro a ha
      apply hout
      intro e he
      obtain ⟨hm, hen_e⟩ := List.mem_filter.mp he
      exact ha e hm hen_e

/-- every generated class (delegating ones excepted: their dictionary is torch's own) has the
restoring behaviour above -/
theorem every_class_restores (c : ClassKeys) (hc : c ∈ classes) (hd : c.delegateW = none)
    (en : String → Bool) (hen : en "" = true) (st st0 : Attrs) :
    ∃ st', load c en (stateDict c en st) st0 = some st' ∧
      (∀ r ∈ c.read, en r.cond = true → st' r.attr = st r.attr) :=
  let ⟨st', h1, h2, _⟩ := load_after_state_dict c (keys_read_subset_written c hc) hd en hen st st0
  ⟨st', h1, h2⟩

/-- non-vacuity: the MCMC table is in the generated list, does not delegate, and with concrete
attribute values the load really returns them -/
example : ∃ c ∈ classes, c.name = "MCMC" ∧ c.delegateW = none ∧
    ((load c (fun _ => true) (stateDict c (fun _ => true) (fun a => .str a)) (fun _ => .none)).map
      fun st' => (encode (st' "self._epoch")).ctorIdx) = some (encode (.str "x")).ctorIdx := by
  decide

theorem mapM_kvsOf (dflt : DType) (st cv : Attrs) : ∀ l : List KeyE,
    (∀ e ∈ l, canon dflt (st e.attr) = some (cv e.attr)) →
    (kvsOf st l).mapM (canon dflt) = some (kvsOf cv l) := by
  intro l
  induction l with
  | nil => intro _; rfl
  | cons e r ih =>
      intro h
      simp [kvsOf, KVs.mapM, h e List.mem_cons_self, ih (fun e' he' => h e' (List.mem_cons_of_mem _ he'))]

theorem distinctFrom_kvsOf (st : Attrs) : ∀ (l : List KeyE) (seen : List String),
    distinctStr (l.map (·.key)) = true → (∀ e ∈ l, e.key ∉ seen) →
    (kvsOf st l).distinctFrom seen = true := by
  intro l
  induction l with
  | nil => intro _ _ _; rfl
  | cons e r ih =>
      intro seen hd hs
      simp only [List.map, distinctStr, Bool.and_eq_true, Bool.not_eq_true', List.contains_eq_mem,
        decide_eq_false_iff_not] at hd
      simp only [kvsOf, KVs.distinctFrom, Key.toStr_str, Bool.and_eq_true, Bool.not_eq_true',
        List.contains_eq_mem, decide_eq_false_iff_not]
      refine ⟨hs e List.mem_cons_self, ih (e.key :: seen) hd.2 ?_⟩
      intro e' he' hm
      rcases List.mem_cons.mp hm with h | h
      · exact hd.1 (List.mem_map.mpr ⟨e', he', h⟩)
      · exact hs e' (List.mem_cons_of_mem _ he') h

theorem keys_kvsOf (st : Attrs) : ∀ l : List KeyE, (kvsOf st l).keys = l.map (·.key) := by
  intro l
  induction l with
  | nil => rfl
  | cons e r ih => simp [kvsOf, KVs.keys, ih]

/-- the dictionary of a consistent class goes through the file value by value -/
theorem canon_state_dict (dflt : DType) (st cv : Attrs) (l : List KeyE)
    (hdist : distinctStr (l.map (·.key)) = true) (htype : (l.map (·.key)).contains "type" = false)
    (hv : ∀ e ∈ l, canon dflt (st e.attr) = some (cv e.attr)) :
    canon dflt (.dict (kvsOf st l)) = some (.dict (kvsOf cv l)) := by
  simp only [canon]
  rw [canonKVs_distinct dflt (kvsOf st l) .nil [] (distinctFrom_kvsOf st l [] hdist (by simp))
    (by simp [KVs.keys]), mapM_kvsOf dflt st cv l hv]
  have : (kvsOf cv l).lookup "type" = none := by
    apply KVs.lookup_none_of_not_mem
    rw [keys_kvsOf]
    simpa using htype
  simp [KVs.nil_append, objectHook, this, isTensorTag]

/-- **restore_through_checkpoint**: state_dict → file → `load_state_dict` on a freshly built object,
for every generated class: never raises, and every attribute named by an executed read holds the
canonical image (`cv`) of what the saved object had there — so the restart is lossless exactly
when each attribute's loader undoes the listed coercions of its value
(`deque(list)`, `torch.tensor(list)`, `Parameter.from_json`, integer keys). -/
theorem restore_through_checkpoint (dflt : DType) (c : ClassKeys) (hc : c ∈ classes)
    (hd : c.delegateW = none) (en : String → Bool) (hen : en "" = true) (st cv st0 : Attrs)
    (hv : ∀ w ∈ c.written, canon dflt (st w.attr) = some (cv w.attr)) :
    ∃ d st', decode dflt (encode (.dict (stateDict c en st))) = some (.dict d) ∧
      load c en d st0 = some st' ∧
      (∀ r ∈ c.read, en r.cond = true → st' r.attr = cv r.attr) := by
  have hok := keys_read_subset_written c hc
  have hok' := hok
  unfold ClassKeys.ok at hok'
  rw [hd] at hok'
  cases hR : c.delegateR with
  | some b => simp [hR] at hok'
  | none =>
    simp only [hR, Bool.and_eq_true, Bool.not_eq_true'] at hok'
    obtain ⟨⟨⟨_, hdistW⟩, _⟩, htype⟩ := hok'
    have hdist' := distinctStr_filter_map (·.key) (fun e => en e.cond) c.written hdistW
    have htype' : ((c.written.filter fun e => en e.cond).map (·.key)).contains "type" = false := by
      simp only [List.contains_eq_mem, decide_eq_false_iff_not] at htype ⊢
      intro hm
      obtain ⟨b, hb, hfb⟩ := List.mem_map.mp hm
      exact htype (List.mem_map.mpr ⟨b, (List.mem_filter.mp hb).1, hfb⟩)
    have hcanon := canon_state_dict dflt st cv (c.written.filter fun e => en e.cond) hdist' htype'
      (fun e he => hv e (List.mem_filter.mp he).1)
    obtain ⟨st', h1, h2, _⟩ := load_after_state_dict c hok hd en hen cv st0
    exact ⟨_, st', by rw [codec_roundtrip]; exact hcanon, h1, h2⟩

/-! ## re-injection of the saved tensors into the specification (`main` → `update_parameters`) -/

/-- **reinject_restores**: a `Parameter` entry of the specification whose id is in the checkpoint is rebuilt by
`Parameter.from_json` from the checkpoint's `tensor` (whatever constructor the entry used before: `full`, `zeros`,
`ones_like`, … are deleted, so the `tensor` branch is taken), with the id of the entry, the dtype the
SPECIFICATION names — or the one torch infers under the default dtype when it names none — and the
`nn` flag of the specification.  Hence the restart gives back the saved parameter exactly when that dtype and flag
are those of the saved tensor. -/
theorem reinject_restores (dflt : DType) (ck : String → Option JKVs) (kvs saved : JKVs) (i : String) (d : Json)
    (data : Val) (hspec : isParamSpec kvs = true) (hid : kvs.lookup "id" = some (.str i))
    (hck : ck i = some saved) (hten : saved.lookup "tensor" = some d) (hdec : decode dflt d = some data) :
    paramFromSpec dflt (updateParams ck (.obj kvs)) =
      match kvs.lookup "dtype" with
      | none => some (.param i (inferDType dflt data) (match kvs.lookup "nn" with | some (.bool true) => true | _ => false) data)
      | some (.str s) => (DType.parseFull s).map fun dt =>
          .param i dt (match kvs.lookup "nn" with | some (.bool true) => true | _ => false) data
      | some _ => none := by
  simp only [updateParams, hspec, hid, hck, hten, ↓reduceIte, paramFromSpec]
  have hgen : generatorKeys.any (fun k => (((kvs.keepOnly keptKeys).snoc "tensor" d).lookup k).isSome) = false := by
    have hnone : ∀ k, keptKeys.contains k = false → k ≠ "tensor" →
        ((kvs.keepOnly keptKeys).snoc "tensor" d).lookup k = none := by
      intro k h1 h2; rw [lookup_reinjected, h1]; simp [h2]
    simp only [generatorKeys, List.any_cons, List.any_nil,
      hnone "full_like" (by decide) (by decide), hnone "full" (by decide) (by decide),
      hnone "zeros_like" (by decide) (by decide), hnone "zeros" (by decide) (by decide),
      hnone "ones_like" (by decide) (by decide), hnone "ones" (by decide) (by decide),
      hnone "eye" (by decide) (by decide), hnone "eye_like" (by decide) (by decide),
      hnone "arange" (by decide) (by decide), Option.isSome_none, Bool.or_self]
  rw [hgen]
  simp only [Bool.false_eq_true, ↓reduceIte, lookup_reinjected]
  have h1 : keptKeys.contains "id" = true := by decide
  have h2 : keptKeys.contains "tensor" = false := by decide
  have h3 : keptKeys.contains "nn" = true := by decide
  have h4 : keptKeys.contains "dtype" = true := by decide
  simp only [h1, h2, h3, h4, ↓reduceIte, hid, hdec, Bool.false_eq_true]
  rcases kvs.lookup "dtype" with _ | j
  · rfl
  · cases j <;> rfl

/-- … in particular for a checkpoint entry written by `ParameterEncoder` for the parameter
`param i dt nn data0`: the data come back as their canonical image -/
theorem reinject_saved_parameter (dflt : DType) (ck : String → Option JKVs) (kvs : JKVs) (i : String) (dt : DType)
    (nn : Bool) (data0 data : Val) (hspec : isParamSpec kvs = true) (hid : kvs.lookup "id" = some (.str i))
    (hck : ck i = some (match encode (.param i dt nn data0) with | .obj s => s | _ => .nil))
    (hcanon : canon dflt data0 = some data) (hdt : kvs.lookup "dtype" = some (.str dt.name))
    (hnn : kvs.lookup "nn" = some (.bool nn)) :
    paramFromSpec dflt (updateParams ck (.obj kvs)) = some (.param i dt nn data) := by
  have hten : (match encode (.param i dt nn data0) with | .obj s => s | _ => .nil).lookup "tensor" = some (encode data0) := by
    simp [encode, JKVs.lookup]
  have hdec : decode dflt (encode data0) = some data := by rw [codec_roundtrip]; exact hcanon
  rw [reinject_restores dflt ck kvs _ i _ data hspec hid hck hten hdec, hdt, hnn]
  cases dt <;> cases nn <;> simp [DType.parseFull, DType.name]

/-- **reinject_keeps_declared_placement**: what the specification says about where and how the parameter lives — `dtype`,
`nn`, `device`, `requires_grad` — survives the re-injection (the checkpoint entry records no device). -/
theorem reinject_keeps_declared_placement (ck : String → Option JKVs) (kvs saved : JKVs) (i : String) (d : Json)
    (hspec : isParamSpec kvs = true) (hid : kvs.lookup "id" = some (.str i))
    (hck : ck i = some saved) (hten : saved.lookup "tensor" = some d) :
    ∃ out, updateParams ck (.obj kvs) = .obj out ∧
      out.lookup "device" = kvs.lookup "device" ∧ out.lookup "requires_grad" = kvs.lookup "requires_grad" ∧
      out.lookup "dtype" = kvs.lookup "dtype" ∧ out.lookup "nn" = kvs.lookup "nn" := by
  refine ⟨(kvs.keepOnly keptKeys).snoc "tensor" d, ?_, ?_, ?_, ?_, ?_⟩
  · simp only [updateParams, hspec, hid, hck, hten, ↓reduceIte]
  all_goals
    rw [lookup_reinjected]
    simp only [show keptKeys.contains "device" = true by decide, show keptKeys.contains "requires_grad" = true by decide,
      show keptKeys.contains "dtype" = true by decide, show keptKeys.contains "nn" = true by decide, ↓reduceIte]

/-- **reinject_descends_into_unsaved_parameter**: a `Parameter` entry that is NOT in the checkpoint is searched like any
other object, so a parameter it defines inline (`full_like`, `zeros_like`, `ones_like`, `eye_like`) is still reached. -/
theorem reinject_descends_into_unsaved_parameter (ck : String → Option JKVs) (kvs : JKVs) (i : String)
    (hspec : isParamSpec kvs = true) (hid : kvs.lookup "id" = some (.str i)) (hck : ck i = none) :
    updateParams ck (.obj kvs) = .obj (updateParamsKVs ck kvs) := by
  simp only [updateParams, hspec, hid, hck, ↓reduceIte]

/-- … e.g. `{"id": "q", "type": "Parameter", "zeros_like": {"id": "y", "type": "Parameter", "tensor": [0]}}` with `y` saved -/
example :
    let ck : String → Option JKVs := fun i => if i = "y" then some (.cons "tensor" (.arr (.cons (.int 5) .nil)) .nil) else none
    let y : JKVs := .cons "id" (.str "y") (.cons "type" (.str "Parameter") (.cons "tensor" (.arr (.cons (.int 0) .nil)) .nil))
    updateParams ck (.obj (.cons "id" (.str "q") (.cons "type" (.str "Parameter") (.cons "zeros_like" (.obj y) .nil)))) =
      .obj (.cons "id" (.str "q") (.cons "type" (.str "Parameter") (.cons "zeros_like"
        (.obj (.cons "id" (.str "y") (.cons "type" (.str "Parameter") (.cons "tensor" (.arr (.cons (.int 5) .nil)) .nil)))) .nil))) := by
  intro ck y
  simp [ck, y, updateParams, updateParamsKVs, isParamSpec, JKVs.lookup, paramTypeNames, JKVs.keepOnly, JKVs.snoc, keptKeys]

/-! ## torch optimiser state: keyed by parameter index -/

theorem lookup_type_allInt : ∀ d : KVs, d.allInt = true → d.strKeys.lookup "type" = none
  | .nil, _ => rfl
  | .cons (.int n) v r, h => by
      simp only [KVs.allInt] at h
      simp [KVs.strKeys, KVs.lookup, int_repr_ne_type, lookup_type_allInt r h]
  | .cons (.str _) _ _, h => by simp [KVs.allInt] at h

/-- how the `"state"` dictionary of a torch optimiser (integer keys, one per parameter) comes back -/
theorem optimizer_state_through_codec (dflt : DType) (state : KVs) (hint : state.allInt = true)
    (hdist : state.distinctFrom [] = true) (d : KVs)
    (h : decode dflt (encode (.dict state)) = some (.dict d)) :
    ∃ d0 : KVs, d = d0.strKeys ∧ d0.allInt = true ∧
      ∀ i, attached d0 i = (attached state i).bind (canon dflt) := by
  rw [codec_roundtrip] at h
  simp only [canon] at h
  rw [canonKVs_distinct dflt state .nil [] hdist (by simp [KVs.keys])] at h
  cases hm : state.mapM (canon dflt) with
  | none => simp [hm] at h
  | some d1 =>
      obtain ⟨d0, hd0, hall, hnone, hsome⟩ := KVs.mapM_strKeys (canon dflt) state d1 hm
      rw [hint] at hall
      simp only [hm, Option.map_some, KVs.nil_append, Option.bind_some] at h
      rw [hd0] at h
      simp only [objectHook, lookup_type_allInt d0 hall, isTensorTag] at h
      simp only [Bool.false_eq_true, ↓reduceIte, Option.some.injEq, Val.dict.injEq] at h
      refine ⟨d0, h.symm, hall, ?_⟩
      intro i
      unfold attached
      cases hl : state.lookupKey (.int i) with
      | none => simp [(hnone _).mpr hl]
      | some v =>
          obtain ⟨v', hv', hd'⟩ := hsome _ _ hl
          simp [hv', hd']

/-- the code gives the integer keys back where torch state keyed by integers is reloaded
(`Optimizer.load_state_dict` for `"optimizer"`, `Scheduler.load_state_dict`) -/
theorem optimizer_int_keys_restored : intKeysRestored classes = true := by decide

/-- **unrepaired path** (`optimizer.load_state_dict(saved["optimizer"])` as read from the file):
no parameter finds its moments / step count — torch files them under the string keys and every
parameter continues from empty state. -/
theorem optimizer_state_detached_by_json (dflt : DType) (state : KVs) (hint : state.allInt = true)
    (hdist : state.distinctFrom [] = true) (d : KVs)
    (h : decode dflt (encode (.dict state)) = some (.dict d)) (i : Int) :
    attached d i = none := by
  obtain ⟨d0, hd0, _, _⟩ := optimizer_state_through_codec dflt state hint hdist d h
  rw [hd0]
  exact KVs.lookupKey_int_strKeys i d0

/-- **repaired path** (integer keys given back before torch's `load_state_dict`): every parameter
index finds exactly the canonical image of the state it had -/
theorem optimizer_state_attached_after_intKeys (dflt : DType) (state : KVs) (hint : state.allInt = true)
    (hdist : state.distinctFrom [] = true) (d : KVs)
    (h : decode dflt (encode (.dict state)) = some (.dict d)) (i : Int) :
    attached d.intKeys i = (attached state i).bind (canon dflt) := by
  obtain ⟨d0, hd0, hall, hatt⟩ := optimizer_state_through_codec dflt state hint hdist d h
  rw [hd0, KVs.intKeys_strKeys d0 hall]
  exact hatt i

/-- non-vacuity: a two-parameter Adam-like state satisfies the hypotheses -/
example : (KVs.cons (.int 0) (.dict (.cons (.str "step") (.tensor .float32 false (.float 0)) .nil))
    (.cons (.int 1) (.dict .nil) .nil)).allInt = true := by decide
example : (KVs.cons (.int 0) (.dict .nil) (.cons (.int 1) (.dict .nil) .nil)).distinctFrom [] = true := by
  simp [KVs.distinctFrom]

/-! ## the iteration counter -/

/-- **resume_same_run**: if the loop stores the NEXT iteration (counter round-trips through the file, is advanced before
the checkpoint statement, and every state-changing statement precedes it), then for every deterministic step
function, every number of iterations, every interruption point `k ≤ iterations` and every initial state: the
states visited up to the checkpoint followed by the states visited by the run restarted from it (with the state
restored to what it was: `hs`) are exactly the (iteration, state) sequence of the uninterrupted run. -/
theorem resume_same_run {S : Type} (step : Nat → S → S) (l : LoopSpec) (hl : l.storesNext = true)
    (iterations k : Nat) (hk : k ≤ iterations) (s0 restored : S)
    (hs : restored = stateAfter step 1 k s0) :
    fullRun step iterations s0 =
      runFrom step 1 k s0 ++ resumedRun step iterations (savedCounter l k) restored := by
  unfold LoopSpec.storesNext at hl
  simp only [Bool.and_eq_true] at hl
  unfold fullRun resumedRun savedCounter
  rw [hl.1.1, hl.1.2, hs]
  have h1 : iterations = k + (iterations - k) := by omega
  have h2 : iterations + 1 - (k + 1) = iterations - k := by omega
  simp only [↓reduceIte]
  rw [h2, Nat.add_comm k 1]
  conv => lhs; rw [h1]
  exact runFrom_append step k (iterations - k) 1 s0

/-- … and only then, as far as the counter goes: a loop whose counter does not come back (restart from 1) or is
stored before being advanced makes the restarted run longer than the remainder of the uninterrupted one,
whatever the step function (`1 ≤ k`: at least one iteration was completed). -/
theorem resume_same_run_iff {S : Type} (step : Nat → S → S) (l : LoopSpec)
    (iterations k : Nat) (hk1 : 1 ≤ k) (hk : k ≤ iterations) (s0 : S) :
    fullRun step iterations s0 =
      runFrom step 1 k s0 ++ resumedRun step iterations (savedCounter l k) (stateAfter step 1 k s0)
    ↔ (l.counterRoundTrips = true ∧ l.incBeforeSave = true) := by
  constructor
  · intro h
    have hlen := congrArg List.length h
    simp only [fullRun, resumedRun, savedCounter, List.length_append, length_runFrom] at hlen
    cases h1 : l.counterRoundTrips <;> cases h2 : l.incBeforeSave <;> simp [h1, h2] at hlen ⊢ <;> omega
  · intro hl
    unfold fullRun resumedRun savedCounter
    rw [hl.1, hl.2]
    have h1 : iterations = k + (iterations - k) := by omega
    have h2 : iterations + 1 - (k + 1) = iterations - k := by omega
    simp only [↓reduceIte]
    rw [h2, Nat.add_comm k 1]
    conv => lhs; rw [h1]
    exact runFrom_append step k (iterations - k) 1 s0

/-- every loop row the translator read from the source is present (each loop is its own row) -/
theorem loops_listed : loops.map (·.name) = ["HMC.run", "MCMC.run", "Optimizer._run", "Optimizer._run_closure"] := by
  decide

/-
FULL STATEMENT (false for the row `HMC.run`, known finding `resume-differs:HMC.run:labels`):
  theorem loops_store_next_iteration : ∀ l ∈ loops, l.storesNext = true
`HMC.run` iterates `for epoch in range(1, iterations + 1)` over a local, writes `save_parameters(checkpoint,
parameters)` (parameters only, no counter, no integrator step size, no mass matrix) before the warm-up adaptor
learns, and `HMC` has no `state_dict`/`load_state_dict`/`id`: `main` restores the parameter tensors and nothing else.
-/
/-- **loops_store_next_iteration_partial**: every checkpointing loop found in the source, `HMC.run` excepted, stores
the next iteration: its counter is an attribute written by `state_dict` and read back by `load_state_dict`, the
checkpoint carries that state, the counter is advanced before the checkpoint statement and the step, accept/reject,
tune and scheduler statements all precede it.  Decided row by row on the generated table. -/
theorem loops_store_next_iteration_partial : ∀ l ∈ loops, l.name ≠ "HMC.run" → l.storesNext = true := by decide

/-- what `HMC.run` does instead (decided on its row): nothing but the parameters comes back, so a restarted run
begins at iteration 1 again whatever the checkpoint it was started from -/
theorem hmc_run_restarts_at_one : ∀ l ∈ loops, l.name = "HMC.run" →
    l.counterRoundTrips = false ∧ ∀ k, savedCounter l k = 1 := by
  intro l hl hn
  have : l.counterRoundTrips = false := by
    revert l; decide
  exact ⟨this, fun k => by simp [savedCounter, this]⟩

/-- **all_loops_resume**: `Optimizer._run`, `Optimizer._run_closure`, `MCMC.run` (every row but `HMC.run`) continue
the same run after a restart -/
theorem all_loops_resume {S : Type} (l : LoopSpec) (hmem : l ∈ loops) (hn : l.name ≠ "HMC.run") (step : Nat → S → S)
    (iterations k : Nat) (hk : k ≤ iterations) (s0 : S) :
    fullRun step iterations s0 =
      runFrom step 1 k s0 ++ resumedRun step iterations (savedCounter l k) (stateAfter step 1 k s0) :=
  resume_same_run step l (loops_store_next_iteration_partial l hmem hn) iterations k hk s0 _ rfl

/-- non-vacuity: a step function that depends on the iteration label and on the state;
6 iterations interrupted after the 4th -/
example : fullRun (fun e s => e * s + 1) 6 1 =
    runFrom (fun e s => e * s + 1) 1 4 1 ++
      resumedRun (fun e s => e * s + 1) 6 (savedCounter ⟨"x", [.step, .increment, .save], true, true, true⟩ 4) (stateAfter (fun e s => e * s + 1) 1 4 1) := by
  decide

end TTProps.C17
