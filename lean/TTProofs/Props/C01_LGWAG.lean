import TTProofs.Props.C01_Compose
import TTProofs.Lemmas.C04_Tables
import TTProofs.Lemmas.C04_Builders
import TTGen.C04Tables
import Mathlib.Data.Rat.Cast.Order
/-!
# C01 ∘ C04 ∘ generated tables — LG and WAG

`TTProps.C01_Compose.tipStates_eq_tipPartials_fromR` holds for every exchangeability vector and every frequency
vector.  Here it is INSTANTIATED with the literal LG and WAG tables of `amino_acid.py` as regenerated into
`TTGen/C04Tables.lean` (exact rational value of every source literal, cast to `ℝ`), so that the corollaries are about
the shipped models themselves and are re-opened whenever a table entry changes.  For these tables every edge
matrix row is moreover a probability vector for non-negative branch lengths and category rates.
-/
namespace TTProps.C01_LGWAG
open TT TT.C01 TT.C04 TTProps.C01_Compose

/-- the exchangeabilities / frequencies of `LG.__init__`, `WAG.__init__` as real numbers -/
noncomputable def lgRates : Nat → ℝ := fun k => ((ratOf (TTGen.C04Tables.lgRatesQ.getD k (0, 1)) : ℚ) : ℝ)
noncomputable def lgFreq : Fin 20 → ℝ := fun i => ((ratOf (TTGen.C04Tables.lgFreqQ.getD i.val (0, 1)) : ℚ) : ℝ)
noncomputable def wagRates : Nat → ℝ := fun k => ((ratOf (TTGen.C04Tables.wagRatesQ.getD k (0, 1)) : ℚ) : ℝ)
noncomputable def wagFreq : Fin 20 → ℝ := fun i => ((ratOf (TTGen.C04Tables.wagFreqQ.getD i.val (0, 1)) : ℚ) : ℝ)

/-- the generated tables have the right sizes and only strictly positive entries -/
theorem tables_ok :
    TTGen.C04Tables.translatorOk = true ∧
    TTGen.C04Tables.lgFreqQ.size = 20 ∧ TTGen.C04Tables.lgRatesQ.size = 190 ∧
    TTGen.C04Tables.wagFreqQ.size = 20 ∧ TTGen.C04Tables.wagRatesQ.size = 190 ∧
    tablePositive TTGen.C04Tables.lgFreqQ = true ∧ tablePositive TTGen.C04Tables.lgRatesQ = true ∧
    tablePositive TTGen.C04Tables.wagFreqQ = true ∧ tablePositive TTGen.C04Tables.wagRatesQ = true := by
  decide +kernel

variable {K : Nat}

/-- **LG: tip states = tip partials**, no hypothesis on the edge matrices left -/
theorem tipStates_eq_tipPartials_lg (rates props : Fin K → ℝ) (blens : Nat → ℝ) (tipState : Nat → Nat)
    (n : Nat) (l r : BTree) (hleaves : ∀ i ∈ (BTree.node l r).leaves, i < n)
    (hn : (BTree.node l r).leaves.length = n) :
    siteLikTS lgFreq props (edgeMats (edgeP (empiricalQ lgRates lgFreq) lgFreq rates) blens)
        (postorder (setupIndexes n (.node l r))) tipState
      = siteLik lgFreq props (edgeMats (edgeP (empiricalQ lgRates lgFreq) lgFreq rates) blens)
        (postorder (setupIndexes n (.node l r))) n (fun i => stateVec (tipState i)) :=
  TT.C01.tipStates_eq_tipPartials lgFreq props _ tipState n l r hleaves hn
    (rows_one_empirical lgRates lgFreq rates blens)

/-- **WAG: tip states = tip partials** -/
theorem tipStates_eq_tipPartials_wag (rates props : Fin K → ℝ) (blens : Nat → ℝ) (tipState : Nat → Nat)
    (n : Nat) (l r : BTree) (hleaves : ∀ i ∈ (BTree.node l r).leaves, i < n)
    (hn : (BTree.node l r).leaves.length = n) :
    siteLikTS wagFreq props (edgeMats (edgeP (empiricalQ wagRates wagFreq) wagFreq rates) blens)
        (postorder (setupIndexes n (.node l r))) tipState
      = siteLik wagFreq props (edgeMats (edgeP (empiricalQ wagRates wagFreq) wagFreq rates) blens)
        (postorder (setupIndexes n (.node l r))) n (fun i => stateVec (tipState i)) :=
  TT.C01.tipStates_eq_tipPartials wagFreq props _ tipState n l r hleaves hn
    (rows_one_empirical wagRates wagFreq rates blens)

theorem cast_nonneg_table (a : Array (Int × Nat)) (h : tablePositive a = true) (k : Nat) :
    (0 : ℝ) ≤ ((ratOf (a.getD k (0, 1)) : ℚ) : ℝ) := by
  exact_mod_cast getD_nonneg_of_tablePositive a h k

theorem cast_pos_table (a : Array (Int × Nat)) (h : tablePositive a = true) (k : Nat) (hk : k < a.size) :
    (0 : ℝ) < ((ratOf (a.getD k (0, 1)) : ℚ) : ℝ) := by
  exact_mod_cast getD_pos_of_tablePositive a h k hk

/-- **LG: every row of every edge matrix is a probability vector** (branch lengths, category rates ≥ 0) -/
theorem rows_probability_lg (rates : Fin K → ℝ) (blens : Nat → ℝ) (hr : ∀ k, 0 ≤ rates k) (hb : ∀ b, 0 ≤ blens b)
    (b : Nat) (k : Fin K) (s : Fin 20) :
    (∑ j, edgeMats (edgeP (empiricalQ lgRates lgFreq) lgFreq rates) blens b k s j = 1) ∧
    ∀ j, 0 ≤ edgeMats (edgeP (empiricalQ lgRates lgFreq) lgFreq rates) blens b k s j := by
  obtain ⟨-, hs1, hs2, -, -, hf, hrt, -, -⟩ := tables_ok
  have hrn : ∀ m, 0 ≤ lgRates m := fun m => cast_nonneg_table _ hrt m
  have hfp : ∀ i, 0 < lgFreq i := fun i => cast_pos_table _ hf i.val (by rw [hs1]; exact i.isLt)
  have hnorm : 0 < norm (fromR (symR lgRates) lgFreq) lgFreq :=
    norm_fromR_pos _ _ (symR_nonneg _ hrn) hfp 0 1
      (by rw [symR_zero_one (n := 18)]; exact cast_pos_table _ hrt 0 (by rw [hs2]; norm_num))
  exact rows_probability_fromR (symR lgRates) lgFreq rates blens (symR_diag _) (symR_nonneg _ hrn)
    (fun i => (hfp i).le) hnorm.le hr hb b k s

/-- **WAG: every row of every edge matrix is a probability vector** -/
theorem rows_probability_wag (rates : Fin K → ℝ) (blens : Nat → ℝ) (hr : ∀ k, 0 ≤ rates k) (hb : ∀ b, 0 ≤ blens b)
    (b : Nat) (k : Fin K) (s : Fin 20) :
    (∑ j, edgeMats (edgeP (empiricalQ wagRates wagFreq) wagFreq rates) blens b k s j = 1) ∧
    ∀ j, 0 ≤ edgeMats (edgeP (empiricalQ wagRates wagFreq) wagFreq rates) blens b k s j := by
  obtain ⟨-, -, -, hs1, hs2, -, -, hf, hrt⟩ := tables_ok
  have hrn : ∀ m, 0 ≤ wagRates m := fun m => cast_nonneg_table _ hrt m
  have hfp : ∀ i, 0 < wagFreq i := fun i => cast_pos_table _ hf i.val (by rw [hs1]; exact i.isLt)
  have hnorm : 0 < norm (fromR (symR wagRates) wagFreq) wagFreq :=
    norm_fromR_pos _ _ (symR_nonneg _ hrn) hfp 0 1
      (by rw [symR_zero_one (n := 18)]; exact cast_pos_table _ hrt 0 (by rw [hs2]; norm_num))
  exact rows_probability_fromR (symR wagRates) wagFreq rates blens (symR_diag _) (symR_nonneg _ hrn)
    (fun i => (hfp i).le) hnorm.le hr hb b k s

/-- the instantiation is about the literal values: the first LG frequency is `0.079066` -/
example : lgFreq 0 = 79066 / 1000000 := by
  simp only [lgFreq, ratOf]
  have : TTGen.C04Tables.lgFreqQ.getD (0 : Fin 20).val (0, 1) = (39533, 500000) := by decide +kernel
  rw [this]; norm_num

end TTProps.C01_LGWAG
