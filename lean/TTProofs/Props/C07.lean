import TTProofs.Lemmas.C07_Calc
/-!
# C07 — every change of variables reports its true log-Jacobian and inverse

Theorems about the executable model `TTModel/C07_Transforms.lean` (the formulas of
`transforms.py`, `rate_transform.py`, `tree_height_transform.py`, `parameter.py` as coded, after
the repairs F02/F03). "True" log-Jacobian = `Real.log |det (jac f x)|` where `jac f x` is the
matrix of partial derivatives of the forward map (`TTProofs/Lemmas/C07_Jac.lean`); the generic
lemma is `tri_logdet_lower/upper`. For element-wise transforms torch's convention is followed: the
log-Jacobian is reported per element and equals `log |f'(xᵢ)|`.
-/
namespace TTProps.C07
open TT.C07

variable {n : ℕ}

/-! ## generic -/

/-- **tri_logdet**: if output `i` depends only on inputs `j ≤ i` and `∂fᵢ/∂xᵢ = dᵢ ≠ 0`, then
`log|det J| = Σ log|dᵢ|` -/
theorem tri_logdet (f : (Fin n → ℝ) → Fin n → ℝ) (h : LowerDep f) (x : Fin n → ℝ)
    (d : Fin n → ℝ) (hd : ∀ i, HasDerivAt (fun t => f (Function.update x i t) i) (d i) (x i))
    (hne : ∀ i, d i ≠ 0) :
    Real.log |(jac f x).det| = ∑ i, Real.log |d i| :=
  tri_logdet_lower f h x d hd hne

/-! ## CumSumTransform -/

theorem cumsum_dep (X : Nat → ℝ) (i j : Nat) (h : i < j) (t : ℝ) :
    cumsumFwd (Function.update X j t) i = cumsumFwd X i := csum_update_lt X h t

/-- **cumsum_reported_eq_true**: the reported `0` is the true `log|det J|` -/
theorem cumsum_reported_eq_true (x : Fin n → ℝ) :
    cumsumLd n (ext x) (cumsumFwd (ext x)) = Real.log |(jac (lift cumsumFwd) x).det| := by
  rw [lift_logdet_lower cumsumFwd (fun _ _ => 1) cumsum_dep
    (fun X i => hasDerivAt_csum_diag X i) x (fun _ => one_ne_zero)]
  simp [cumsumLd]

/-- **cumsum_inv_fwd** -/
theorem cumsum_inv_fwd (x : Nat → ℝ) (i : Nat) : cumsumInv (cumsumFwd x) i = x i :=
  diffs_csum x i

/-! ## CumSumExpTransform -/

theorem cumsumexp_diag (X : Nat → ℝ) (i : Nat) :
    HasDerivAt (fun t => cumsumexpFwd (Function.update X i t) i) (cumsumexpFwd X i) (X i) := by
  have h := (hasDerivAt_csum_diag X i).exp
  simp only [csum_update_self_at, mul_one] at h
  exact h

/-- **cumsumexp_reported_eq_true**: `x.cumsum(-1).sum(-1)` is the true `log|det J|` (the Jacobian is
triangular with diagonal `yᵢ = exp(Σ_{j≤i} xⱼ)`) -/
theorem cumsumexp_reported_eq_true (x : Fin n → ℝ) :
    cumsumexpLd n (ext x) (cumsumexpFwd (ext x)) = Real.log |(jac (lift cumsumexpFwd) x).det| := by
  rw [lift_logdet_lower cumsumexpFwd (fun X i => cumsumexpFwd X i)
    (fun X i j h t => by simp only [cumsumexpFwd, csum_update_lt X h t])
    cumsumexp_diag x (fun i => ne_of_gt (Real.exp_pos _))]
  unfold cumsumexpLd
  rw [sumTo_eq]
  refine Finset.sum_congr rfl fun i _ => ?_
  simp only [cumsumexpFwd, TT.trans_exp_real, abs_of_pos (Real.exp_pos _), Real.log_exp]

/-- **cumsumexp_inv_fwd** -/
theorem cumsumexp_inv_fwd (x : Nat → ℝ) (i : Nat) : cumsumexpInv (cumsumexpFwd x) i = x i := by
  unfold cumsumexpInv cumsumexpFwd
  simp only [TT.trans_exp_real, TT.trans_log_real, Real.log_exp]
  exact diffs_csum x i

/-! ## SoftPlusTransform (element-wise) -/

/-- **softplus_reported_eq_true**: element `i` of the reported log-Jacobian, `-softplus(-xᵢ)`, is
`log |d softplus/dx (xᵢ)|` -/
theorem softplus_reported_eq_true (x : Nat → ℝ) (i : Nat) :
    softplusLd x (softplusFwd x) i = Real.log |deriv (fun t => softplus t) (x i)| := by
  rw [(hasDerivAt_softplus (x i)).deriv, abs_of_pos (sigm_pos _), log_sigm]
  rfl

/-- the forward map is element-wise: output `i` depends on input `i` only -/
theorem softplus_elementwise (X : Nat → ℝ) (i j : Nat) (h : i ≠ j) (t : ℝ) :
    softplusFwd (Function.update X j t) i = softplusFwd X i := by
  simp [softplusFwd, Function.update_of_ne h]

/-- **softplus_inv_fwd** -/
theorem softplus_inv_fwd (x : Nat → ℝ) (i : Nat) : softplusInv (softplusFwd x) i = x i :=
  softplus_inv (x i)

/-! ## CumSumSoftPlusTransform (as repaired, F02) -/

theorem cumsumsoftplus_eq (X : Nat → ℝ) (i : Nat) :
    cumsumsoftplusFwd X i = softplus (csum X i) := by
  simp only [cumsumsoftplusFwd, softplus_real, TT.trans_exp_real, TT.trans_log_real, add_comm]

theorem cumsumsoftplus_diag (X : Nat → ℝ) (i : Nat) :
    HasDerivAt (fun t => cumsumsoftplusFwd (Function.update X i t) i) (sigm (csum X i)) (X i) := by
  have h1 := hasDerivAt_csum_diag X i
  have h2 := hasDerivAt_softplus (csum (Function.update X i (X i)) i)
  have := h2.comp (X i) h1
  simp only [csum_update_self_at, mul_one] at this
  refine this.congr_of_eventuallyEq (Filter.Eventually.of_forall fun t => ?_)
  simp [cumsumsoftplus_eq, Function.comp]

/-- **cumsumsoftplus_reported_eq_true**: `-softplus(-x.cumsum(-1)).sum(-1)` is the true `log|det J|`
(triangular Jacobian with diagonal `σ(Σ_{j≤i} xⱼ)`) -/
theorem cumsumsoftplus_reported_eq_true (x : Fin n → ℝ) :
    cumsumsoftplusLd n (ext x) (cumsumsoftplusFwd (ext x))
      = Real.log |(jac (lift cumsumsoftplusFwd) x).det| := by
  rw [lift_logdet_lower cumsumsoftplusFwd (fun X i => sigm (csum X i))
    (fun X i j h t => by simp only [cumsumsoftplus_eq, csum_update_lt X h t])
    cumsumsoftplus_diag x (fun i => ne_of_gt (sigm_pos _))]
  unfold cumsumsoftplusLd
  rw [sumTo_eq]
  refine Finset.sum_congr rfl fun i _ => ?_
  rw [abs_of_pos (sigm_pos _), log_sigm]

/-- **cumsumsoftplus_inv_fwd** -/
theorem cumsumsoftplus_inv_fwd (x : Nat → ℝ) (i : Nat) :
    cumsumsoftplusInv (cumsumsoftplusFwd x) i = x i := by
  unfold cumsumsoftplusInv
  have : (fun i => TT.Trans.log (TT.Trans.exp (cumsumsoftplusFwd x i) - 1)) = csum x := by
    funext k
    rw [cumsumsoftplus_eq]
    exact softplus_inv (csum x k)
  rw [this]
  exact diffs_csum x i

/-- the unrepaired formulas are refuted at a concrete point (`n = 1`, `x = 0`): the reported `0`
is not the log-Jacobian, and the old inverse does not return the input -/
theorem cumsumsoftplus_old_refuted :
    (cumsumsoftplusLdOld 1 (ext (fun _ : Fin 1 => (0 : ℝ)))
        (cumsumsoftplusFwd (ext (fun _ : Fin 1 => (0 : ℝ))))
      ≠ Real.log |(jac (lift (n := 1) cumsumsoftplusFwd) (fun _ => 0)).det|) ∧
    cumsumsoftplusInvOld (cumsumsoftplusFwd (fun _ => (0 : ℝ))) 0 ≠ 0 := by
  constructor
  · rw [← cumsumsoftplus_reported_eq_true]
    simp only [cumsumsoftplusLdOld, cumsumsoftplusLd, sumTo_eq, Finset.univ_unique,
      Finset.sum_singleton]
    have h : csum (ext fun _ : Fin 1 => (0 : ℝ)) (default : Fin 1).val = 0 := by
      simp [csum, ext]
    rw [h, softplus_real]
    simp only [neg_zero, Real.exp_zero]
    have : (0 : ℝ) < Real.log (1 + 1) := Real.log_pos (by norm_num)
    linarith
  · simp only [cumsumsoftplusInvOld, diffs, if_true, cumsumsoftplus_eq, csum, softplus_real,
      Real.exp_zero, TT.trans_log_real]
    have h2 : Real.log (1 + 1) ≠ 0 := ne_of_gt (Real.log_pos (by norm_num))
    have h1 : Real.log (1 + 1) ≠ 1 := by
      have h := Real.add_one_lt_exp (x := (1 : ℝ)) one_ne_zero
      have := Real.log_lt_log (by norm_num : (0 : ℝ) < 1 + 1) h
      rw [Real.log_exp] at this
      exact ne_of_lt this
    have h3 : Real.log (1 + 1) ≠ -1 := by
      have : (0 : ℝ) < Real.log (1 + 1) := Real.log_pos (by norm_num)
      linarith
    intro h
    rcases Real.log_eq_zero.mp h with h | h | h
    · exact h2 h
    · exact h1 h
    · exact h3 h

/-! ## LogTransform (element-wise) -/

/-- **log_reported_eq_true**: element `i` of the reported `-y` is `log |d log/dx (xᵢ)|` -/
theorem log_reported_eq_true (x : Nat → ℝ) (i : Nat) (hx : 0 < x i) :
    logLd x (logFwd x) i = Real.log |deriv Real.log (x i)| := by
  rw [Real.deriv_log, abs_of_pos (inv_pos.mpr hx), Real.log_inv]
  rfl

/-- **log_inv_fwd** -/
theorem log_inv_fwd (x : Nat → ℝ) (i : Nat) (hx : 0 < x i) : logInv (logFwd x) i = x i :=
  Real.exp_log hx

/-! ## TransformedParameter -/

/-- **tp_call_current**: whatever sequence of updates of the wrapped parameter happened (each
notifying the transformed parameter), a call returns the log-Jacobian for the CURRENT value:
`ld x (f x)` with `x` the last value set -/
theorem tp_call_current {α β : Type} (f : α → α) (ld : α → α → β) (x0 : α) (xs : List α) :
    let tp := xs.foldl TP.setX (TP.init f x0)
    (TP.call f ld tp).1 = ld (xs.getLastD x0) (f (xs.getLastD x0)) := by
  have inv : ∀ (tp : TP α), (tp.needUpdate = true ∨ tp.cached = f tp.x) →
      (TP.call f ld tp).1 = ld tp.x (f tp.x) := by
    intro tp h
    unfold TP.call TP.refresh
    by_cases hu : tp.needUpdate = true
    · simp [hu]
    · rcases h with h | h
      · exact absurd h hu
      · simp [hu, h]
  have hx : ∀ (xs : List α) (tp : TP α), (tp.needUpdate = true ∨ tp.cached = f tp.x) →
      ((xs.foldl TP.setX tp).needUpdate = true ∨ (xs.foldl TP.setX tp).cached = f (xs.foldl TP.setX tp).x) ∧
      (xs.foldl TP.setX tp).x = xs.getLastD tp.x := by
    intro xs
    induction xs with
    | nil => intro tp h; exact ⟨h, rfl⟩
    | cons a xs ih =>
      intro tp _
      have := ih (TP.setX tp a) (Or.inl rfl)
      simp only [List.foldl_cons]
      refine ⟨this.1, ?_⟩
      rw [this.2]
      cases xs <;> simp [TP.setX, List.getLastD]
  intro tp
  have h := hx xs (TP.init f x0) (Or.inr rfl)
  rw [inv tp h.1, h.2]
  rfl

/-- calls and reads in between change nothing: the state after a call still satisfies the
invariant, so the next call is again current -/
theorem tp_call_twice {α β : Type} (f : α → α) (ld : α → α → β) (tp : TP α)
    (h : tp.needUpdate = true ∨ tp.cached = f tp.x) :
    (TP.call f ld (TP.call f ld tp).2).1 = ld tp.x (f tp.x) := by
  unfold TP.call TP.refresh
  by_cases hu : tp.needUpdate = true
  · simp [hu]
  · rcases h with h | h
    · exact absurd h hu
    · simp [hu, h]

example : (TP.call (fun x : Nat => x + 1) (fun x y => x * y)
    ([5, 7].foldl TP.setX (TP.init (fun x => x + 1) 1))).1 = 7 * 8 := by decide

end TTProps.C07
