/-! C07 property theorems — stub (not built yet). -/
namespace TTProps.C07
end TTProps.C07
