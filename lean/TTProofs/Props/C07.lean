import TTProofs.Lemmas.C07_Trees
import TTProofs.Lemmas.C07_LogRate
import TTProofs.Lemmas.C07_Scaling
import TTProofs.Lemmas.C07_Tril
import TTProofs.Props.C06
/-!
# C07 — every change of variables reports its true log-Jacobian and inverse

Theorems about the executable model `TTModel/C07_Transforms.lean` (the formulas of
`transforms.py`, `rate_transform.py`, `tree_height_transform.py`, `parameter.py` as coded, after
the repairs F02/F03). "True" log-Jacobian = `Real.log |det (jac f x)|` where `jac f x` is the
matrix of partial derivatives of the forward map (`TTProofs/Lemmas/C07_Jac.lean`); the generic
lemma is `tri_logdet_lower/upper`. For element-wise transforms torch's convention is followed: the
log-Jacobian is reported per element and equals `log |f'(xᵢ)|`.
-/
namespace TTProps.C07
open TT.C07

variable {n : ℕ}

/-! ## generic -/

/-- **tri_logdet**: if output `i` depends only on inputs `j ≤ i` and `∂fᵢ/∂xᵢ = dᵢ ≠ 0`, then
`log|det J| = Σ log|dᵢ|` -/
theorem tri_logdet (f : (Fin n → ℝ) → Fin n → ℝ) (h : LowerDep f) (x : Fin n → ℝ)
    (d : Fin n → ℝ) (hd : ∀ i, HasDerivAt (fun t => f (Function.update x i t) i) (d i) (x i))
    (hne : ∀ i, d i ≠ 0) :
    Real.log |(jac f x).det| = ∑ i, Real.log |d i| :=
  tri_logdet_lower f h x d hd hne

/-! ## CumSumTransform -/

theorem cumsum_dep (X : Nat → ℝ) (i j : Nat) (h : i < j) (t : ℝ) :
    cumsumFwd (Function.update X j t) i = cumsumFwd X i := csum_update_lt X h t

/-- **cumsum_reported_eq_true**: the reported `0` is the true `log|det J|` -/
theorem cumsum_reported_eq_true (x : Fin n → ℝ) :
    cumsumLd n (ext x) (cumsumFwd (ext x)) = Real.log |(jac (lift cumsumFwd) x).det| := by
  rw [lift_logdet_lower cumsumFwd (fun _ _ => 1) (fun X i j h _ t => cumsum_dep X i j h t)
    (fun X i _ => hasDerivAt_csum_diag X i) x (fun _ => one_ne_zero)]
  simp [cumsumLd]

/-- **cumsum_inv_fwd** -/
theorem cumsum_inv_fwd (x : Nat → ℝ) (i : Nat) : cumsumInv (cumsumFwd x) i = x i :=
  diffs_csum x i

/-! ## CumSumExpTransform -/

theorem cumsumexp_diag (X : Nat → ℝ) (i : Nat) :
    HasDerivAt (fun t => cumsumexpFwd (Function.update X i t) i) (cumsumexpFwd X i) (X i) := by
  have h := (hasDerivAt_csum_diag X i).exp
  simp only [csum_update_self_at, mul_one] at h
  exact h

/-- **cumsumexp_reported_eq_true**: `x.cumsum(-1).sum(-1)` is the true `log|det J|` (the Jacobian is
triangular with diagonal `yᵢ = exp(Σ_{j≤i} xⱼ)`) -/
theorem cumsumexp_reported_eq_true (x : Fin n → ℝ) :
    cumsumexpLd n (ext x) (cumsumexpFwd (ext x)) = Real.log |(jac (lift cumsumexpFwd) x).det| := by
  rw [lift_logdet_lower cumsumexpFwd (fun X i => cumsumexpFwd X i)
    (fun X i j h _ t => by simp only [cumsumexpFwd, csum_update_lt X h t])
    (fun X i _ => cumsumexp_diag X i) x (fun i => ne_of_gt (Real.exp_pos _))]
  unfold cumsumexpLd
  rw [sumTo_eq]
  refine Finset.sum_congr rfl fun i _ => ?_
  simp only [cumsumexpFwd, TT.trans_exp_real, abs_of_pos (Real.exp_pos _), Real.log_exp]

/-- **cumsumexp_inv_fwd** -/
theorem cumsumexp_inv_fwd (x : Nat → ℝ) (i : Nat) : cumsumexpInv (cumsumexpFwd x) i = x i := by
  unfold cumsumexpInv cumsumexpFwd
  simp only [TT.trans_exp_real, TT.trans_log_real, Real.log_exp]
  exact diffs_csum x i

/-! ## SoftPlusTransform (element-wise) -/

/-- **softplus_reported_eq_true**: element `i` of the reported log-Jacobian, `-softplus(-xᵢ)`, is
`log |d softplus/dx (xᵢ)|` -/
theorem softplus_reported_eq_true (x : Nat → ℝ) (i : Nat) :
    softplusLd x (softplusFwd x) i = Real.log |deriv (fun t => softplus t) (x i)| := by
  rw [(hasDerivAt_softplus (x i)).deriv, abs_of_pos (sigm_pos _), log_sigm]
  rfl

/-- the forward map is element-wise: output `i` depends on input `i` only -/
theorem softplus_elementwise (X : Nat → ℝ) (i j : Nat) (h : i ≠ j) (t : ℝ) :
    softplusFwd (Function.update X j t) i = softplusFwd X i := by
  simp [softplusFwd, Function.update_of_ne h]

/-- **softplus_inv_fwd** -/
theorem softplus_inv_fwd (x : Nat → ℝ) (i : Nat) : softplusInv (softplusFwd x) i = x i :=
  softplus_inv (x i)

/-! ## CumSumSoftPlusTransform (as repaired, F02) -/

theorem cumsumsoftplus_eq (X : Nat → ℝ) (i : Nat) :
    cumsumsoftplusFwd X i = softplus (csum X i) := by
  simp only [cumsumsoftplusFwd, softplus_real, TT.trans_exp_real, TT.trans_log_real, add_comm]

theorem cumsumsoftplus_diag (X : Nat → ℝ) (i : Nat) :
    HasDerivAt (fun t => cumsumsoftplusFwd (Function.update X i t) i) (sigm (csum X i)) (X i) := by
  have h1 := hasDerivAt_csum_diag X i
  have h2 := hasDerivAt_softplus (csum (Function.update X i (X i)) i)
  have := h2.comp (X i) h1
  simp only [csum_update_self_at, mul_one] at this
  refine this.congr_of_eventuallyEq (Filter.Eventually.of_forall fun t => ?_)
  simp [cumsumsoftplus_eq, Function.comp]

/-- **cumsumsoftplus_reported_eq_true**: `-softplus(-x.cumsum(-1)).sum(-1)` is the true `log|det J|`
(triangular Jacobian with diagonal `σ(Σ_{j≤i} xⱼ)`) -/
theorem cumsumsoftplus_reported_eq_true (x : Fin n → ℝ) :
    cumsumsoftplusLd n (ext x) (cumsumsoftplusFwd (ext x))
      = Real.log |(jac (lift cumsumsoftplusFwd) x).det| := by
  rw [lift_logdet_lower cumsumsoftplusFwd (fun X i => sigm (csum X i))
    (fun X i j h _ t => by simp only [cumsumsoftplus_eq, csum_update_lt X h t])
    (fun X i _ => cumsumsoftplus_diag X i) x (fun i => ne_of_gt (sigm_pos _))]
  unfold cumsumsoftplusLd
  rw [sumTo_eq]
  refine Finset.sum_congr rfl fun i _ => ?_
  rw [abs_of_pos (sigm_pos _), log_sigm]

/-- **cumsumsoftplus_inv_fwd** -/
theorem cumsumsoftplus_inv_fwd (x : Nat → ℝ) (i : Nat) :
    cumsumsoftplusInv (cumsumsoftplusFwd x) i = x i := by
  unfold cumsumsoftplusInv
  have : (fun i => TT.Trans.log (TT.Trans.exp (cumsumsoftplusFwd x i) - 1)) = csum x := by
    funext k
    rw [cumsumsoftplus_eq]
    exact softplus_inv (csum x k)
  rw [this]
  exact diffs_csum x i

/-- the unrepaired formulas are refuted at a concrete point (`n = 1`, `x = 0`): the reported `0`
is not the log-Jacobian, and the old inverse does not return the input -/
theorem cumsumsoftplus_old_refuted :
    (cumsumsoftplusLdOld 1 (ext (fun _ : Fin 1 => (0 : ℝ)))
        (cumsumsoftplusFwd (ext (fun _ : Fin 1 => (0 : ℝ))))
      ≠ Real.log |(jac (lift (n := 1) cumsumsoftplusFwd) (fun _ => 0)).det|) ∧
    cumsumsoftplusInvOld (cumsumsoftplusFwd (fun _ => (0 : ℝ))) 0 ≠ 0 := by
  constructor
  · rw [← cumsumsoftplus_reported_eq_true]
    simp only [cumsumsoftplusLdOld, cumsumsoftplusLd, sumTo_eq, Finset.univ_unique,
      Finset.sum_singleton]
    have h : csum (ext fun _ : Fin 1 => (0 : ℝ)) (default : Fin 1).val = 0 := by
      simp [csum, ext]
    rw [h, softplus_real]
    simp only [neg_zero, Real.exp_zero]
    have : (0 : ℝ) < Real.log (1 + 1) := Real.log_pos (by norm_num)
    linarith
  · simp only [cumsumsoftplusInvOld, diffs, if_true, cumsumsoftplus_eq, csum, softplus_real,
      Real.exp_zero, TT.trans_log_real]
    have h2 : Real.log (1 + 1) ≠ 0 := ne_of_gt (Real.log_pos (by norm_num))
    have h1 : Real.log (1 + 1) ≠ 1 := by
      have h := Real.add_one_lt_exp (x := (1 : ℝ)) one_ne_zero
      have := Real.log_lt_log (by norm_num : (0 : ℝ) < 1 + 1) h
      rw [Real.log_exp] at this
      exact ne_of_lt this
    have h3 : Real.log (1 + 1) ≠ -1 := by
      have : (0 : ℝ) < Real.log (1 + 1) := Real.log_pos (by norm_num)
      linarith
    intro h
    rcases Real.log_eq_zero.mp h with h | h | h
    · exact h2 h
    · exact h1 h
    · exact h3 h

/-! ## LogTransform (element-wise) -/

/-- **log_reported_eq_true**: element `i` of the reported `-y` is `log |d log/dx (xᵢ)|` -/
theorem log_reported_eq_true (x : Nat → ℝ) (i : Nat) (hx : 0 < x i) :
    logLd x (logFwd x) i = Real.log |deriv Real.log (x i)| := by
  rw [Real.deriv_log, abs_of_pos (inv_pos.mpr hx), Real.log_inv]
  rfl

/-- **log_inv_fwd** -/
theorem log_inv_fwd (x : Nat → ℝ) (i : Nat) (hx : 0 < x i) : logInv (logFwd x) i = x i :=
  Real.exp_log hx


/-! ## node-height transforms (model of C06) as maps `ℝ^{n-1} → ℝ^{n-1}` -/
section heights
open TT.C06 TTProps.C06
variable {T : BTree}

/-- **ratio_reported_eq_true**: on every tree and for every parameter vector of the open domain,
`log(y[_det_indices] − _bounds[n:-1]).sum(-1)` is the true `log|det J|` of the ratio transform.
(The Jacobian is upper triangular in the post-order numbering, with diagonal
`h_parent(i) − bound(i)` and `1` for the root.) -/
theorem ratio_reported_eq_true (hT : WF n T) (hn : 2 ≤ n) (s : Nat → ℝ) (x : Fin (n - 1) → ℝ)
    (hx : RatioDomOpen n (bounds n s (postorder n T)) (ext x)) :
    ratioLd (ratioDetTerms n (bounds n s (postorder n T)) (detIndices n T)
        (ratioFwd n (bounds n s (postorder n T)) (forwardIndices n T) (ext x)))
      = Real.log |(jac (lift (ratioFwd n (bounds n s (postorder n T)) (forwardIndices n T))) x).det| := by
  set B := bounds n s (postorder n T) with hB
  have hpos : ∀ j, j < n - 2 →
      0 < ratioFwd n B (forwardIndices n T) (ext x) (par n T j) - B (n + j) := by
    intro j hj
    have hm := par_mem hT hj
    have h1 := fwd_bound_mono hT s _ hm
    have hlt := (fwd_child_lt hT _ hm).2
    have h2 := (ratio_valid_strict s (ext x) hT hn hx).1 (n + par n T j) (by omega) (by omega)
    simp only [Nat.add_sub_cancel_left] at h2
    have h1' : B (n + j) ≤ B (n + par n T j) := h1
    linarith
  have hdiag_ne : ∀ i : Fin (n - 1), ratioDiag n T B (ext x) i.val ≠ 0 := by
    intro i
    unfold ratioDiag
    split
    · exact ne_of_gt (hpos _ ‹_›)
    · exact one_ne_zero
  rw [lift_logdet_upper (n := n - 1) (ratioFwd n B (forwardIndices n T)) (ratioDiag n T B)
    (fun X i j hji hi t => ratio_dep B hT hn X i j hji hi t)
    (fun X i hi => ratio_diag B hT hn X i hi) x hdiag_ne]
  rw [ratioLd_eq B hT, Fin.sum_univ_eq_sum_range (fun i => Real.log |ratioDiag n T B (ext x) i|) (n - 1)]
  have hr : Finset.range (n - 1) = Finset.range ((n - 2) + 1) := by congr 1; omega
  have hlast : Real.log |ratioDiag n T B (ext x) (n - 2)| = 0 := by
    simp [ratioDiag]
  rw [hr, Finset.sum_range_succ, hlast, add_zero]
  refine Finset.sum_congr rfl fun j hj => ?_
  have hj' : j < n - 2 := Finset.mem_range.mp hj
  simp only [ratioDiag, if_pos hj']
  rw [abs_of_pos (hpos j hj')]


/-- **ratio_logdet_scaling**: the same tree expressed in a time unit `c` times smaller (sampling times and
root height multiplied by `c > 0`, ratios unchanged) has every Jacobian factor multiplied by `c`: the
reported log-Jacobian grows by exactly `(n−2)·log c`, on every tree and at every point of the open domain.
(Oracle of the scale sweep: an epsilon or a floor inside the logarithm breaks this law.) -/
theorem ratio_logdet_scaling (hT : WF n T) (hn : 2 ≤ n) (s x : Nat → ℝ) {c : ℝ} (hc : 0 < c)
    (hx : RatioDomOpen n (bounds n s (postorder n T)) x) :
    ratioLd (ratioDetTerms n (bounds n (fun k => c * s k) (postorder n T)) (detIndices n T)
        (ratioFwd n (bounds n (fun k => c * s k) (postorder n T)) (forwardIndices n T) (scaleRoot n c x)))
      = ratioLd (ratioDetTerms n (bounds n s (postorder n T)) (detIndices n T)
          (ratioFwd n (bounds n s (postorder n T)) (forwardIndices n T) x))
        + ((n - 2 : Nat) : ℝ) * Real.log c := by
  apply ratio_logdet_scaling_lemma hT hn s x hc
  intro j hj
  have hm := par_mem hT hj
  have h1 := fwd_bound_mono hT s _ hm
  have hlt := (fwd_child_lt hT _ hm).2
  have h2 := (ratio_valid_strict s x hT hn hx).1 (n + par n T j) (by omega) (by omega)
  simp only [Nat.add_sub_cancel_left] at h2
  have h1' : bounds n s (T.post n) (n + j) ≤ bounds n s (T.post n) (n + par n T j) := h1
  have h2' : bounds n s (T.post n) (n + par n T j)
      < ratioFwd n (bounds n s (T.post n)) (forwardIndices n T) x (par n T j) := h2
  linarith

/-- the same law for `LogTransform`: scaling the input by `c > 0` lowers every reported entry by `log c` -/
theorem log_reported_scaling (x : Nat → ℝ) (i : Nat) {c : ℝ} (hc : 0 < c) (hx : 0 < x i) :
    logLd (fun k => c * x k) (logFwd fun k => c * x k) i = logLd x (logFwd x) i - Real.log c := by
  simp only [logLd, logFwd, TT.trans_log_real]
  rw [Real.log_mul (ne_of_gt hc) (ne_of_gt hx)]
  ring

/-- **diff_reported_eq_true**: the difference transform (with `torch.max` or the smooth maximum — any
`mx`) reports `0`, which is its true `log|det J|` at every point: the Jacobian is lower triangular
with unit diagonal -/
theorem diff_reported_eq_true (hT : WF n T) (mx : ℝ → ℝ → ℝ) (s : Nat → ℝ) (x : Fin (n - 1) → ℝ) :
    (diffLd : ℝ) = Real.log |(jac (lift (diffFwd n mx s (postorder n T))) x).det| := by
  rw [lift_logdet_lower (n := n - 1) (diffFwd n mx s (postorder n T)) (fun _ _ => 1)
    (fun X i j hij _ t => diff_dep mx s hT X i j hij t)
    (fun X i hi => diff_diag mx s hT X i hi) x (fun _ => one_ne_zero)]
  simp [diffLd]

/-- inverses of the node-height transforms: `TTProps.C06.ratio_inv_fwd_open`, `ratio_fwd_inv`,
`diff_inv_fwd`, `diff_fwd_inv` (restated here for the record) -/
theorem ratio_inv_fwd (hT : WF n T) (hn : 2 ≤ n) (s x : Nat → ℝ)
    (hx : RatioDomOpen n (bounds n s (postorder n T)) x) :
    ∀ j, j < n - 1 →
      ratioInv n (bounds n s (postorder n T)) (indicesSorted n T)
        (ratioFwd n (bounds n s (postorder n T)) (forwardIndices n T) x) j = x j :=
  ratio_inv_fwd_open hT hn s x hx

theorem diff_inv_fwd_any (hT : WF n T) (mx : ℝ → ℝ → ℝ) (s x : Nat → ℝ) :
    ∀ j, j < n - 1 →
      diffInv n mx s (postorder n T) (diffFwd n mx s (postorder n T) x) j = x j :=
  TTProps.C06.diff_inv_fwd mx s x hT

end heights


/-! ## LogDifferenceRateTransform (as repaired, F03) -/
section lograte
open TT.C06
variable {T : BTree}

/-- **lograte_reported_eq_true**: on every tree and at all positive rates, `-x.log().sum(-1)` is the
true `log|det J|` of `y_j = log r_{c_j} − log r_{p_j}` (pre-order pairs; root rate 1): with the
columns ordered by the pre-order the Jacobian is triangular with diagonal `1/r` -/
theorem lograte_reported_eq_true (hT : WF n T) (x : Fin (2 * n - 2) → ℝ) (hx : ∀ i, 0 < x i) :
    lograteLd (2 * n - 2) (ext x) (lograteFwd (2 * n - 2) (preorder n T) (ext x))
      = Real.log |(jac (lift (lograteFwd (2 * n - 2) (preorder n T))) x).det| := by
  rw [show preorder n T = T.pre n from rfl, lograte_true_logdet hT x hx]
  unfold lograteLd
  rw [sumTo_eq]
  simp only [ext_apply, TT.trans_log_real]

/-- the unrepaired formula `-y.sum(-1)` is refuted on the 3-taxon tree `((T0,T1),T2)` at rates
`(1, 1, 1, e)` (node 3 = the cherry): it returns `1`, the true value is `-1` -/
theorem lograte_old_refuted :
    let T3 : BTree := .node (.node (.leaf 0) (.leaf 1)) (.leaf 2)
    let x : Fin 4 → ℝ := fun i => if i.val = 3 then Real.exp 1 else 1
    lograteLdOld 4 (ext x) (lograteFwd 4 (preorder 3 T3) (ext x))
      ≠ Real.log |(jac (lift (lograteFwd 4 (preorder 3 T3))) x).det| := by
  intro T3 x
  have hT : WF 3 T3 := by unfold WF; decide
  have hx : ∀ i, 0 < x i := by
    intro i; simp only [x]; split
    · exact Real.exp_pos 1
    · exact one_pos
  have htrue := lograte_true_logdet (n := 3) hT x hx
  have e : preorder 3 T3 = [(4, 3), (3, 0), (3, 1), (4, 2)] := by decide
  rw [show preorder 3 T3 = T3.pre 3 from rfl] at e
  rw [show preorder 3 T3 = T3.pre 3 from rfl, htrue]
  have hsum : ∑ i : Fin 4, Real.log (x i) = 1 := by
    simp [Fin.sum_univ_four, x]
  rw [hsum]
  have hold : lograteLdOld 4 (ext x) (lograteFwd 4 (T3.pre 3) (ext x)) = 1 := by
    unfold lograteLdOld
    rw [sumTo_eq, Fin.sum_univ_four]
    simp only [lograteFwd, e, TT.trans_log_real]
    simp [ext, x]
  rw [hold]
  norm_num

end lograte

/-! ## TrilExpDiagonalTransform -/

/-- **tril_inv_fwd**: every entry `(r, c)`, `c ≤ r`, of the lower triangle is recovered by the
inverse (`log` of the diagonal, the rest copied), at its `torch.tril_indices` position -/
theorem tril_inv_fwd (x : Nat → ℝ) {r c : Nat} (hc : c ≤ r) :
    trilInv (trilFwd x) (trilPos r c) = x (trilPos r c) :=
  TT.C07.tril_inv_fwd x hc

/-! ## TransformedParameter -/

/-- **tp_call_current**: whatever sequence of updates of the wrapped parameter happened (each
notifying the transformed parameter), a call returns the log-Jacobian for the CURRENT value:
`ld x (f x)` with `x` the last value set -/
theorem tp_call_current {α β : Type} (f : α → α) (ld : α → α → β) (x0 : α) (xs : List α) :
    let tp := xs.foldl TP.setX (TP.init f x0)
    (TP.call f ld tp).1 = ld (xs.getLastD x0) (f (xs.getLastD x0)) := by
  have inv : ∀ (tp : TP α), (tp.needUpdate = true ∨ tp.cached = f tp.x) →
      (TP.call f ld tp).1 = ld tp.x (f tp.x) := by
    intro tp h
    unfold TP.call TP.refresh
    by_cases hu : tp.needUpdate = true
    · simp [hu]
    · rcases h with h | h
      · exact absurd h hu
      · simp [hu, h]
  have hx : ∀ (xs : List α) (tp : TP α), (tp.needUpdate = true ∨ tp.cached = f tp.x) →
      ((xs.foldl TP.setX tp).needUpdate = true ∨ (xs.foldl TP.setX tp).cached = f (xs.foldl TP.setX tp).x) ∧
      (xs.foldl TP.setX tp).x = xs.getLastD tp.x := by
    intro xs
    induction xs with
    | nil => intro tp h; exact ⟨h, rfl⟩
    | cons a xs ih =>
      intro tp _
      have := ih (TP.setX tp a) (Or.inl rfl)
      simp only [List.foldl_cons]
      refine ⟨this.1, ?_⟩
      rw [this.2]
      cases xs <;> simp [TP.setX, List.getLastD]
  intro tp
  have h := hx xs (TP.init f x0) (Or.inr rfl)
  rw [inv tp h.1, h.2]
  rfl

/-- calls and reads in between change nothing: the state after a call still satisfies the
invariant, so the next call is again current -/
theorem tp_call_twice {α β : Type} (f : α → α) (ld : α → α → β) (tp : TP α)
    (h : tp.needUpdate = true ∨ tp.cached = f tp.x) :
    (TP.call f ld (TP.call f ld tp).2).1 = ld tp.x (f tp.x) := by
  unfold TP.call TP.refresh
  by_cases hu : tp.needUpdate = true
  · simp [hu]
  · rcases h with h | h
    · exact absurd h hu
    · simp [hu, h]

example : (TP.call (fun x : Nat => x + 1) (fun x y => x * y)
    ([5, 7].foldl TP.setX (TP.init (fun x => x + 1) 1))).1 = 7 * 8 := by decide


/-! ## non-vacuity -/
section examples
open TT.C06 TTProps.C06

/-- the open ratio domain is inhabited on a heterochronous 4-taxon tree: ratios 1/2, 1/2, root 5 -/
example : ∃ x : Fin 3 → ℝ, RatioDomOpen 4 (bounds 4 s4 (postorder 4 T4)) (ext x) := by
  refine ⟨fun i => x4 i.val, ?_⟩
  have hext : ∀ j, j < 3 → ext (n := 3) (fun i => x4 i.val) j = x4 j := by
    intro j hj; simp [ext, hj]
  refine ⟨fun j hj => ?_, ?_⟩
  · rw [hext j (by omega)]; exact dom4.ratios j hj
  · rw [hext (4 - 2) (by norm_num)]; exact dom4.root

/-- positive rates exist on every tree -/
example (hT : WF 4 T4) :
    lograteLd 6 (ext (n := 6) fun _ => 2) (lograteFwd 6 (preorder 4 T4) (ext (n := 6) fun _ => 2))
      = Real.log |(jac (lift (lograteFwd 6 (preorder 4 T4))) (fun _ : Fin 6 => (2 : ℝ))).det| :=
  lograte_reported_eq_true (n := 4) hT (fun _ => 2) (fun _ => by norm_num)

example : cumsumexpLd 2 (ext (n := 2) ![1, 2]) (cumsumexpFwd (ext (n := 2) ![1, 2]))
    = Real.log |(jac (lift cumsumexpFwd) (![1, 2] : Fin 2 → ℝ)).det| :=
  cumsumexp_reported_eq_true _

end examples

end TTProps.C07
