import TTModel.C07_Transforms
/-! C07 property theorems (in progress) -/
namespace TTProps.C07
open TT.C07

/-- `TransformedParameter`: whatever sets of the wrapped parameter happened, a call returns the
log-Jacobian for the CURRENT value -/
theorem tp_call_current {α β : Type} (f : α → α) (ld : α → α → β) (x0 : α) (xs : List α) :
    let tp := xs.foldl TP.setX (TP.init f x0)
    (TP.call f ld tp).1 = ld (xs.getLastD x0) (f (xs.getLastD x0)) := by
  have inv : ∀ (tp : TP α), (tp.needUpdate = true ∨ tp.cached = f tp.x) →
      (TP.call f ld tp).1 = ld tp.x (f tp.x) := by
    intro tp h
    unfold TP.call TP.refresh
    by_cases hu : tp.needUpdate = true
    · simp [hu]
    · rcases h with h | h
      · exact absurd h hu
      · simp [hu, h]
  have hx : ∀ (xs : List α) (tp : TP α), (tp.needUpdate = true ∨ tp.cached = f tp.x) →
      ((xs.foldl TP.setX tp).needUpdate = true ∨ (xs.foldl TP.setX tp).cached = f (xs.foldl TP.setX tp).x) ∧
      (xs.foldl TP.setX tp).x = xs.getLastD tp.x := by
    intro xs
    induction xs with
    | nil => intro tp h; exact ⟨h, rfl⟩
    | cons a xs ih =>
      intro tp _
      have := ih (TP.setX tp a) (Or.inl rfl)
      simp only [List.foldl_cons]
      refine ⟨this.1, ?_⟩
      rw [this.2]
      cases xs <;> simp [TP.setX, List.getLastD]
  intro tp
  have h := hx xs (TP.init f x0) (Or.inr rfl)
  rw [inv tp h.1, h.2]
  rfl

end TTProps.C07
