import TTGen.C01_Options
/-!
# C01 — option plumbing of `TreeLikelihoodModel` (GENERATED table, `decide`)

`TTGen/C01_Options.lean` is regenerated from the AST of `TreeLikelihoodModel.__init__` / `from_json` on every run.
The theorem below states that every JSON option reaches the constructor parameter OF THE SAME NAME with the documented
default, that the positional `cls(...)` call follows the constructor's parameter order, and that the constructor's
branch tests the option it is named after — so a swapped key, a swapped positional argument or a changed default
re-opens the proof instead of waiting for an input that happens to distinguish them.
-/
namespace TTProps.C01_Options
open TTGen.C01_Options

/-- positional arguments are matched with the parameters by position, keywords by name; each must pass the local
    variable that carries the parameter's own name -/
def callMatches : List (String × String) → List (String × String) → Bool
  | [], _ => true
  | (kw, v) :: rest, params =>
    if kw == "" then
      match params with
      | (p, _) :: ps => v == p && callMatches rest ps
      | [] => false
    else kw == v && params.any (fun q => q.1 == kw) && callMatches rest params

/-- an optional boolean flag: read with `data.get('<name>', <default>)` into the variable `<name>`, the default being the
    constructor's default of the parameter `<name>` -/
def flagOK (name : String) : Bool :=
  jsonReads.any (fun r => r.1 == name && r.2.1 == name && r.2.2.1 == "get" &&
    ctorParams.any (fun p => p.1 == name && p.2 == r.2.2.2)) &&
  (jsonReads.filter (fun r => r.1 == name)).length == 1

/-- a sub-model read through its class tag -/
def tagOK (var owner how : String) : Bool :=
  jsonReads.any (fun r => r.1 == var && r.2.1 == owner && r.2.2.1 == how)

theorem options_select_named :
    recognised = true ∧
    ctorParams.map (·.1) = ["id_", "site_pattern", "tree_model", "subst_model", "site_model", "clock_model",
                            "use_ambiguities", "use_tip_states"] ∧
    callMatches ctorCall ctorParams = true ∧ ctorCall.length = ctorParams.length ∧
    flagOK "use_ambiguities" = true ∧ flagOK "use_tip_states" = true ∧
    ctorParams.any (fun p => p.1 == "use_ambiguities" && p.2 == "False") = true ∧
    ctorParams.any (fun p => p.1 == "use_tip_states" && p.2 == "False") = true ∧
    ctorParams.any (fun p => p.1 == "clock_model" && p.2 == "None") = true ∧
    tagOK "tree_model" "TreeModel" "tag" = true ∧ tagOK "site_model" "SiteModel" "tag" = true ∧
    tagOK "subst_model" "SubstitutionModel" "tag" = true ∧ tagOK "site_pattern" "SitePattern" "tag" = true ∧
    tagOK "clock_model" "BranchModel" "guarded-tag" = true ∧
    ctorBranchTest = "use_tip_states" ∧ ctorPartialsArg = "use_ambiguities" ∧
    ctorStores.any (fun s => s.1 == "use_tip_states" && s.2 == "use_tip_states") = true := by
  decide

example : callMatches [("", "a"), ("", "b")] [("a", "x"), ("b", "y")] = true ∧
    callMatches [("", "b"), ("", "a")] [("a", "x"), ("b", "y")] = false := by decide

end TTProps.C01_Options
