import TTProofs.Lemmas.C08_SoftLemmas
/-!
# C08 — the relaxed skygrid (`SoftPiecewiseConstantCoalescentGrid` with a temperature): exact facts

The relaxed model is NOT a Kingman density (it is a smooth surrogate whose limit `τ → 0` is the skygrid); what can be
stated exactly, for every temperature `τ`, every input, every length:

* every row of the relaxed permutation and every vector of piece weights sums to one (`soft_weights_sum_one`);
* the population size used at any time is a convex combination of the `θ_k` (`soft_theta_is_convex_combination`);
* with all `θ_k = θ₀` the value is `-(Σ lchoose2·durations of the relaxed events)/θ₀ - (n-1) log θ₀`, whatever the
  grid (`soft_all_equal`): the relaxation of the constant model, independent of the grid.
Model `TTModel/C08_Soft.lean`; correspondence with torchtree at 1e-9 in `harness/c08.py`.
-/
namespace TTProps.C08
open TT TT.C08

/-- **soft_weights_sum_one** — piece weights at any time, and every row of `soft_sort`, are weights summing to one
(each entry non-negative). -/
theorem soft_weights_sum_one (τ : ℝ) (grid heights : List ℝ) (t : ℝ) (h : heights ≠ []) :
    (pieceWeights τ grid t).sum = 1 ∧ (∀ w ∈ pieceWeights τ grid t, 0 ≤ w) ∧
      ∀ row ∈ softSortRows τ heights, row.sum = 1 :=
  ⟨pieceWeights_sum_one τ grid t, pieceWeights_nonneg τ grid t, softSortRows_sum_one τ heights h⟩

example : (pieceWeights ((1 : ℝ) / 2) [1, 3] 2).sum = 1 := (soft_weights_sum_one (1 / 2) [1, 3] [0, 0, 1] 2 (by simp)).1

/-- **soft_theta_is_convex_combination** — the relaxed population size at any time lies between the smallest and the
largest `θ_k`. -/
theorem soft_theta_is_convex_combination (τ : ℝ) (θ grid : List ℝ) (t lo hi : ℝ)
    (hθ : θ.length = grid.length + 1) (hb : ∀ b ∈ θ, lo ≤ b ∧ b ≤ hi) :
    lo ≤ softTheta τ θ grid t ∧ softTheta τ θ grid t ≤ hi :=
  softTheta_between τ θ grid t lo hi hθ hb

example : (1 : ℝ) ≤ softTheta ((1 : ℝ) / 2) [1, 2, 4] [1, 3] 2 ∧ softTheta ((1 : ℝ) / 2) [1, 2, 4] [1, 3] 2 ≤ 4 :=
  soft_theta_is_convex_combination (1 / 2) [1, 2, 4] [1, 3] 2 1 4 rfl (by simp; norm_num)

/-- **soft_all_equal** — all pieces equal to `θ₀`: for every temperature and every grid the relaxed skygrid is
`-(relaxed Σ lchoose2·durations)/θ₀ - (number of internal nodes)·log θ₀`. -/
theorem soft_all_equal (τ θ₀ : ℝ) (grid heights : List ℝ) :
    softLogProb τ (List.replicate (grid.length + 1) θ₀) grid heights
      = -(softStat τ grid heights / θ₀)
        - ((heights.drop (taxaCount heights)).length : ℝ) * Real.log θ₀ := by
  unfold softLogProb softIntegral softLogs softStat
  simp only [softTheta_all_equal, trans_log_real]
  congr 1
  · congr 1
    have hrep : ((softSorted τ heights grid).1.tail.map fun _ => θ₀)
        = List.replicate (softSorted τ heights grid).1.tail.length θ₀ := by
      rw [List.map_const']
    rw [hrep, zipWith3_replicate_third _ θ₀ _ _ _ (by rw [length_diffs', List.length_tail])]
    generalize (cumsum (softSorted τ heights grid).2).dropLast = ls
    generalize diffs (softSorted τ heights grid).1 = ds
    induction ls generalizing ds with
    | nil => simp
    | cons l ls ih =>
      cases ds with
      | nil => simp
      | cons d ds =>
        simp only [List.zipWith_cons_cons, List.sum_cons, ih ds]
        ring
  · rw [List.map_const', List.sum_replicate, nsmul_eq_mul]

example : softLogProb ((1 : ℝ) / 2) (List.replicate 3 7) [1, 3] [0, 0, 1, 2, 3]
    = -(softStat ((1 : ℝ) / 2) [1, 3] [0, 0, 1, 2, 3] / 7)
      - ((([0, 0, 1, 2, 3] : List ℝ).drop (taxaCount ([0, 0, 1, 2, 3] : List ℝ))).length : ℝ) * Real.log 7 :=
  soft_all_equal (1 / 2) 7 [1, 3] [0, 0, 1, 2, 3]

/-- consequence: with all pieces equal the relaxed value does not depend on where the grid points are -/
theorem soft_all_equal_grid_free (τ θ₀ : ℝ) (grid grid' heights : List ℝ)
    (hstat : softStat τ grid heights = softStat τ grid' heights) :
    softLogProb τ (List.replicate (grid.length + 1) θ₀) grid heights
      = softLogProb τ (List.replicate (grid'.length + 1) θ₀) grid' heights := by
  rw [soft_all_equal, soft_all_equal, hstat]

end TTProps.C08
