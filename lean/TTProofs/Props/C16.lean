/-! C16 property theorems — stub (not built yet). -/
namespace TTProps.C16
end TTProps.C16
