import TTModel.C16_Leapfrog
import TTProofs.Lemmas.C16_Shears
import TTProofs.Lemmas.C16_Volume
import TTProofs.Lemmas.C16_Energy
import Mathlib.Algebra.BigOperators.Ring.Finset
import Mathlib.Tactic.Ring
import Mathlib.Tactic.NormNum
import Mathlib.Tactic.FieldSimp
/-!
# C16 — the leapfrog integrator is reversible and volume preserving; Hastings term = ΔK

All theorems are about `TT.C16.leapfrogWith` / `leapfrog` / `hmcStep`
(`TTModel/C16_Leapfrog.lean`), the definitions the driver `drv_c16` executes at `Rat` and `Float`
against the real `LeapfrogIntegrator.__call__` / `HMCOperator._step`.
The gradient `g` is an ARBITRARY function in every statement.
-/
namespace TTProps.C16
open TT TT.C16 MeasureTheory

/-! ## composition of shears -/

/-- **leapfrog_is_shears**: for any gradient function, half step `h`, step `ε`, inverse mass
matrix (diagonal or dense, not assumed symmetric or positive) and any number of steps, the
integrator is `kick(−h) ∘ (kick ε ∘ drift ε)^steps ∘ kick h`, and each of the two kinds of shear
is a bijection of phase space. -/
theorem leapfrog_is_shears {R : Type} [CommRing R] {n : Nat} (g : Vec R n → Vec R n) (h eps : R)
    (im : IMass R n) (steps : Nat) :
    (∀ q p, leapfrogWith g h eps im steps q p
        = kick g (-h) ((fun z => kick g eps (drift eps im z))^[steps] (kick g h (q, p))))
    ∧ (∀ a, Function.Bijective (kick g a)) ∧ Function.Bijective (drift eps im) :=
  ⟨fun q p => leapfrogWith_eq g h eps im steps q p, fun a => kick_bijective g a,
    drift_bijective eps im⟩

/-! ## reversibility -/

/-- **leapfrog_reversible**: over any commutative ring, for ANY gradient function, any inverse
mass matrix and any number of steps: integrate from `(q,p)`, negate the momentum, integrate
again, negate the momentum — you are back at `(q,p)` exactly.  The only hypothesis is that the
two half steps add up to the step size (`h + h = ε`; the code uses `h = ε/2`). -/
theorem leapfrog_reversible {R : Type} [CommRing R] {n : Nat} (g : Vec R n → Vec R n) (h eps : R)
    (hh : h + h = eps) (im : IMass R n) (steps : Nat) (q p : Vec R n) :
    let z' := leapfrogWith g h eps im steps q p
    leapfrogWith g h eps im steps z'.1 (fun i => -(z'.2 i)) = (q, fun i => -(p i)) := by
  intro z'
  have key := shear_reversible g h eps hh im steps (q, p)
  simp only at key
  have e1 : z' = kick g (-h) ((loopMap g eps im)^[steps] (kick g h (q, p))) :=
    leapfrogWith_eq g h eps im steps q p
  have e2 := leapfrogWith_eq g h eps im steps z'.1 (fun i => -(z'.2 i))
  rw [e2]
  have : (z'.1, fun i => -(z'.2 i)) = TT.C16.flip z' := rfl
  rw [this, e1]
  have := congrArg TT.C16.flip key
  rw [TT.C16.flip_flip] at this
  exact this

/-- the same for `leapfrog` itself (`h = step_size / 2`) over any field where `2 ≠ 0` -/
theorem leapfrog_reversible_field {K : Type} [Field K] (h2 : (2 : K) ≠ 0) {n : Nat}
    (g : Vec K n → Vec K n) (eps : K) (im : IMass K n) (steps : Nat) (q p : Vec K n) :
    let z' := leapfrog g eps im steps q p
    leapfrog g eps im steps z'.1 (fun i => -(z'.2 i)) = (q, fun i => -(p i)) := by
  have hh : eps / 2 + eps / 2 = eps := by field_simp; ring
  exact leapfrog_reversible g (eps / 2) eps hh im steps q p

/-- non-vacuity: a concrete 2-parameter run with a dense non-symmetric inverse mass matrix and a
non-conservative "gradient" really moves, and comes back -/
example :
    let g : Vec ℚ 2 → Vec ℚ 2 := fun q i => if i = 0 then q 1 * q 1 - 3 * q 0 else q 0 + 1
    let im : IMass ℚ 2 := .dense fun i j => if i = j then 2 else if i = 0 then 1 else 0
    let z' := leapfrog g (1/2) im 3 (fun i => if i = 0 then 1 else -1) (fun _ => 1/2)
    z'.1 0 ≠ 1 ∧ leapfrog g (1/2) im 3 z'.1 (fun i => -(z'.2 i))
      = ((fun i => if i = 0 then 1 else -1), fun _ => -(1/2 : ℚ)) := by
  refine ⟨by decide +kernel, ?_⟩
  exact leapfrog_reversible_field (by norm_num) _ _ _ _ _ _

/-! ## volume preservation -/

/-- **leapfrog_volume**: over `ℝⁿ × ℝⁿ`, for any measurable gradient function (no smoothness),
the integrator map preserves Lebesgue measure — the measure-theoretic form of "Jacobian
determinant one". Any `h`, any `ε`, any inverse mass matrix, any number of steps. -/
theorem leapfrog_volume {n : ℕ} (g : Vec ℝ n → Vec ℝ n) (hg : Measurable g) (h eps : ℝ)
    (im : IMass ℝ n) (steps : ℕ) :
    MeasurePreserving (fun z : Vec ℝ n × Vec ℝ n => leapfrogWith g h eps im steps z.1 z.2)
      (volume.prod volume) (volume.prod volume) := by
  have e : (fun z : Vec ℝ n × Vec ℝ n => leapfrogWith g h eps im steps z.1 z.2)
      = (kick g (-h)) ∘ ((loopMap g eps im)^[steps]) ∘ (kick g h) := by
    funext z
    exact leapfrogWith_eq g h eps im steps z.1 z.2
  rw [e]
  exact (kick_preserving g hg (-h)).comp
    (((loopMap_preserving g hg eps im).iterate steps).comp (kick_preserving g hg h))

/-- the statement for `leapfrog` (`h = ε/2`) -/
theorem leapfrog_volume_half {n : ℕ} (g : Vec ℝ n → Vec ℝ n) (hg : Measurable g) (eps : ℝ)
    (im : IMass ℝ n) (steps : ℕ) :
    MeasurePreserving (fun z : Vec ℝ n × Vec ℝ n => leapfrog g eps im steps z.1 z.2)
      (volume.prod volume) (volume.prod volume) :=
  leapfrog_volume g hg (eps / 2) eps im steps

/-- non-vacuity: a continuous (non-smooth) gradient is measurable -/
example : Measurable (fun q : Vec ℝ 2 => fun i => |q i|) := by
  refine measurable_pi_lambda _ fun i => ?_
  have hi : Measurable fun q : Fin 2 → ℝ => q i := measurable_pi_apply i
  exact continuous_abs.measurable.comp hi

/-! ## the Hastings term -/

/-- **hastings_is_kinetic**: whenever a trial of `HMCOperator._step` does not raise, the value
it returns is `K(p₀) − K(p_L)`, `p₀` the momentum drawn in that trial and `p_L` the momentum the
integrator returned, and the positions left in the parameters are the integrator's. -/
theorem hastings_is_kinetic {α : Type} [Add α] [Sub α] [Mul α] [Neg α] [Zero α] {n : Nat}
    (bad : Vec α n → Bool) (g : Vec α n → Vec α n) (h eps half : α) (im : IMass α n)
    (steps : Nat) (q p0 : Vec α n) (ps : List (Vec α n)) (t : Nat)
    (hok : trialRaises bad g h eps im steps q p0 = false) :
    hmcStep bad g h eps half im steps q (t + 1) (p0 :: ps)
      = .ok (leapfrogWith g h eps im steps q p0).1
          (kinetic half im p0 - kinetic half im (leapfrogWith g h eps im steps q p0).2) := by
  simp [hmcStep, hok, hastingsOf]

/-- failed trials consume their momentum draw and change nothing else -/
theorem hmc_retry {α : Type} [Add α] [Sub α] [Mul α] [Neg α] [Zero α] {n : Nat}
    (bad : Vec α n → Bool) (g : Vec α n → Vec α n) (h eps half : α) (im : IMass α n)
    (steps : Nat) (q p0 : Vec α n) (ps : List (Vec α n)) (t : Nat)
    (hbad : trialRaises bad g h eps im steps q p0 = true) :
    hmcStep bad g h eps half im steps q (t + 1) (p0 :: ps)
      = hmcStep bad g h eps half im steps q t ps := by
  simp [hmcStep, hbad]

/-- when every trial raises, `_step` answers `inf` with the positions restored (the caller
`MCMC.run` then rejects: C15 `degenerate_rejects`) -/
theorem hmc_all_fail_restores {α : Type} [Add α] [Sub α] [Mul α] [Neg α] [Zero α] {n : Nat}
    (bad : Vec α n → Bool) (g : Vec α n → Vec α n) (h eps half : α) (im : IMass α n)
    (steps : Nat) (q : Vec α n) :
    ∀ (t : Nat) (ps : List (Vec α n)),
      (∀ p ∈ ps, trialRaises bad g h eps im steps q p = true) →
      hmcStep bad g h eps half im steps q t ps = .inf q
  | 0, _, _ => rfl
  | _ + 1, [], _ => rfl
  | t + 1, p :: ps, hall => by
    rw [hmc_retry bad g h eps half im steps q p ps t (hall p (List.mem_cons_self ..))]
    exact hmc_all_fail_restores bad g h eps half im steps q t ps
      fun p' hp' => hall p' (List.mem_cons_of_mem _ hp')

/-- **acceptance is decided on the full Hamiltonian difference**: with potential
`U = −log π`, `(log π(q') − log π(q)) + (K₀ − K₁) = −(H(q',p') − H(q,p))`. -/
theorem hastings_gives_minus_deltaH {R : Type} [CommRing R] (logpi0 logpi1 K0 K1 : R) :
    (logpi1 - logpi0) + (K0 - K1) = -((-logpi1 + K1) - (-logpi0 + K0)) := by
  ring

/-- kinetic energy is the quadratic form `½ pᵀ M⁻¹ p` -/
theorem kinetic_eq {R : Type} [CommRing R] {n : Nat} (half : R) (m : Fin n → Fin n → R)
    (p : Vec R n) :
    kinetic half (.dense m) p = (∑ i, ∑ j, p i * m i j * p j) * half := by
  simp only [kinetic, IMass.apply, sumFin_eq_sum, Finset.mul_sum, mul_assoc]

/-- non-vacuity of `hastings_is_kinetic`: an exact run never raises (`bad = false`), and the
returned term is not trivially zero -/
example :
    let g : Vec ℚ 1 → Vec ℚ 1 := fun q _ => -(3 * q 0)
    let im : IMass ℚ 1 := .diag fun _ => 2
    let one : Vec ℚ 1 := fun _ => 1
    hmcStep (fun _ => false) g (1/4) (1/2) (1/2) im 2 one 10 [one]
      = .ok (leapfrogWith g (1/4) (1/2) im 2 one one).1
          (kinetic (1/2) im one - kinetic (1/2) im (leapfrogWith g (1/4) (1/2) im 2 one one).2)
    ∧ kinetic (1/2) im one - kinetic (1/2) im (leapfrogWith g (1/4) (1/2) im 2 one one).2 ≠ 0 := by
  refine ⟨hastings_is_kinetic _ _ _ _ _ _ _ _ _ _ _ (by decide +kernel), by decide +kernel⟩

/-! ## energy error (stretch; partial)

Full clause of the property: "the energy error shrinks quadratically with the step size" for
every smooth target.  That needs differentiability and a Taylor bound and is NOT claimed here.
Proved: for every quadratic potential `U(q) = a q²/2 + b q` in one dimension, any inverse mass
`m`, one step of `leapfrog` changes the energy by exactly `ε³ · P(a,b,m,ε,q,p)` with `P` the
explicit polynomial below (local error `O(ε³)`, hence `O(ε²)` over a fixed integration time).
For general targets the clause is explored on the implementation by step halving (`c16.py`). -/
theorem energy_quadratic_partial (a b m eps q p : ℝ) :
    let g : Vec ℝ 1 → Vec ℝ 1 := fun x _ => -(a * x 0 + b)
    let H : ℝ → ℝ → ℝ := fun q p => (a * q * q / 2 + b * q) + m * p * p / 2
    let z := leapfrog g eps (.diag fun _ => m) 1 (fun _ => q) (fun _ => p)
    H (z.1 0) (z.2 0) - H q p
      = eps ^ 3 * (a * m ^ 2 * (2 * p - eps * (a * q + b))
          * (4 * (a * q + b) + 2 * a * eps * m * p - a * eps ^ 2 * m * (a * q + b)) / 32) := by
  intro g H z
  have hz : z = leapfrogWith g (eps / 2) eps (.diag fun _ => m) 1 (fun _ => q) (fun _ => p) := rfl
  simp only [hz, leapfrogWith, loop, loopBody, force_eq, negGrad, driftQ, g, H]
  ring

/-- n dimensions, diagonal curvature and diagonal inverse mass matrix (the simultaneously diagonalised
case: `A` and `M⁻¹` commute): the one-step energy error is the sum of the 1-D errors, `ε³·Σᵢ Pᵢ`. -/
theorem energy_quadratic_diag_partial {n : ℕ} (a b m q p : Vec ℝ n) (eps : ℝ) :
    let g : Vec ℝ n → Vec ℝ n := fun x i => -(a i * x i + b i)
    let H : Vec ℝ n → Vec ℝ n → ℝ := fun q p =>
      ∑ i, ((a i * q i * q i / 2 + b i * q i) + m i * p i * p i / 2)
    let z := leapfrog g eps (.diag m) 1 q p
    H z.1 z.2 - H q p
      = eps ^ 3 * ∑ i, (a i * m i ^ 2 * (2 * p i - eps * (a i * q i + b i))
          * (4 * (a i * q i + b i) + 2 * a i * eps * m i * p i
              - a i * eps ^ 2 * m i * (a i * q i + b i)) / 32) := by
  intro g H z
  have hz : z = leapfrogWith g (eps / 2) eps (.diag m) 1 q p := rfl
  simp only [H]
  rw [← Finset.sum_sub_distrib, Finset.mul_sum]
  refine Finset.sum_congr rfl fun i _ => ?_
  simp only [hz, leapfrogWith, loop, loopBody, force_eq, negGrad, driftQ, g]
  ring

open Matrix in
/-- n dimensions, ANY symmetric curvature matrix `A` and ANY symmetric (dense) inverse mass matrix `K`
(no commutation, no positivity needed): for `U(x) = ½ x·Ax + b·x`, `H = U + ½ p·Kp`, one step of
`leapfrog` changes the energy by exactly

    ε³ · ( ¼ r·K A K p₁  +  (ε/8) p₁·K A K A K p₁ ),   r = A q + b,  p₁ = p − (ε/2) r,

an explicit polynomial in `ε` with leading order `ε³` (local error `O(ε³)`, so `O(ε²)` over a fixed
integration time once the trajectory stays bounded).
STILL MISSING from the property's clause "the energy error shrinks quadratically with the step size":
(1) the summation of the one-step errors over `T/ε` steps into a global `O(ε²)` bound (needs a bound on
the trajectory, e.g. from the conserved shadow energy when `ε²‖K A‖ < 4`); (2) non-quadratic targets
(Taylor remainder).  Both are explored on the implementation by step halving (`c16.py`). -/
theorem energy_quadratic_dense_partial {n : ℕ} (A K : Matrix (Fin n) (Fin n) ℝ) (hA : A.IsSymm)
    (hK : K.IsSymm) (b q p : Fin n → ℝ) (eps : ℝ) :
    let g : Vec ℝ n → Vec ℝ n := fun x i => -((A *ᵥ x) i + b i)
    let H : Vec ℝ n → Vec ℝ n → ℝ := fun q p =>
      (1 / 2 * (q ⬝ᵥ (A *ᵥ q)) + b ⬝ᵥ q) + 1 / 2 * (p ⬝ᵥ (K *ᵥ p))
    let z := leapfrog g eps (.dense fun i j => K i j) 1 q p
    let r := A *ᵥ q + b
    let p1 := p - (eps / 2) • r
    H z.1 z.2 - H q p
      = eps ^ 3 * (1 / 4 * (r ⬝ᵥ (K *ᵥ (A *ᵥ (K *ᵥ p1))))
          + eps / 8 * (p1 ⬝ᵥ (K *ᵥ (A *ᵥ (K *ᵥ (A *ᵥ (K *ᵥ p1))))))) := by
  intro g H z r p1
  have hz := leapfrog_one_step_quadratic A K b q p eps
  simp only at hz
  have := energy_step_vec A K hA hK b q p eps
  simp only at this
  simp only [z, g, hz, H]
  exact this

/-- non-vacuity: a 2-D case with non-commuting `A` and `K`, non-zero error -/
example :
    let A : Matrix (Fin 2) (Fin 2) ℝ := !![2, 1; 1, 3]
    let K : Matrix (Fin 2) (Fin 2) ℝ := !![1, 0; 0, 2]
    A.IsSymm ∧ K.IsSymm ∧ A * K ≠ K * A := by
  refine ⟨by ext i j; fin_cases i <;> fin_cases j <;> rfl,
    by ext i j; fin_cases i <;> fin_cases j <;> rfl, ?_⟩
  intro h
  have := congrFun (congrFun h 0) 1
  simp [Matrix.mul_apply, Fin.sum_univ_two] at this

open Matrix in
/-- **kinetic_mass_spelling**: the energy model accepts the metric as `inverse_mass_matrix=` or as `mass_matrix=`; with the
mass matrix `M` the velocity is the solution `v` of `M v = p` (however it is obtained: inverse, linear solve, Cholesky solve
with the FACTOR of `M`), and the kinetic energy `½ p·v` is the one the inverse spelling gives, `kinetic ½ (dense M⁻¹) p`. -/
theorem kinetic_mass_spelling {n : ℕ} (M Minv : Matrix (Fin n) (Fin n) ℝ) (hinv : Minv * M = 1)
    (p v : Fin n → ℝ) (hv : M *ᵥ v = p) :
    kinetic (1 / 2) (.dense fun i j => Minv i j) p = (p ⬝ᵥ v) * (1 / 2) := by
  have hvel : Minv *ᵥ p = v := by rw [← hv, mulVec_mulVec, hinv, one_mulVec]
  have : (sumFin fun i => p i * (IMass.dense fun i j => Minv i j).apply p i) = p ⬝ᵥ (Minv *ᵥ p) := by
    simp [IMass.apply, sumFin_eq_sum, dotProduct, mulVec]
  rw [kinetic, this, hvel]

/-- diagonal spelling: `mass_matrix` a vector `m` — `½ Σ pᵢ²/mᵢ` -/
theorem kinetic_mass_spelling_diag {n : ℕ} (m p : Vec ℝ n) :
    kinetic (1 / 2) (.diag fun i => 1 / m i) p = (∑ i, p i * (p i / m i)) * (1 / 2) := by
  simp only [kinetic, IMass.apply, sumFin_eq_sum]
  congr 1
  refine Finset.sum_congr rfl fun i _ => ?_
  ring

end TTProps.C16
