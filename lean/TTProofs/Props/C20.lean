/-! C20 property theorems — stub (not built yet). -/
namespace TTProps.C20
end TTProps.C20
