import TTProofs.Lemmas.C20_Quad
import TTProofs.Lemmas.C20_Gamma
import TTProofs.Lemmas.C20_Suff
import TTProofs.Lemmas.C08_Examples
/-!
# C20 — smoothing / integrated priors and sufficient statistics match their densities

Model: `TTModel/C20_GMRF.lean` (`scaledDiffSq`, `offDiag`, `precisionMatrix`, `quadForm`, `gmrfLogProb`,
`gammaIntegratedLogProb`, `splitAtMarks`, `skygridSuffStats`, `skyrideSuffStats`, `reproduce`) on top of the
C08 model.  `precisionMatrix` is the matrix `GMRF.precision_matrix()` publishes after repair F19 (weights
and time-aware scaling honoured); `published_matrix_ignored_weights_before_fix` records the defect.
-/
namespace TTProps.C20
open TT TT.C08 TT.C20 MeasureTheory

/-! ## quadratic forms (any commutative ring, any length) -/

/-- **gmrf_weighted_form** — for precisions `off_k` of the first differences (`τ / w_k`), the matrix the model
publishes satisfies `xᵀ Q x = Σ_k off_k (x_k − x_{k+1})²`, for every field length. -/
theorem gmrf_weighted_form {R : Type} [CommRing R] (off x : List R) (hx : x.length = off.length + 1) :
    quadForm (precisionMatrix off) x = (List.zipWith (fun a d => a * d) off (diffSq x)).sum :=
  quadForm_precisionMatrix off x hx

example : quadForm (precisionMatrix ([3, 5] : List ℤ)) [1, 4, 2] = 3 * (1 - 4) ^ 2 + 5 * (4 - 2) ^ 2 := by
  rw [gmrf_weighted_form _ _ rfl]; decide

/-- **gmrf_quadratic_form** — plain GMRF: `Σ_i (x_{i+1} − x_i)² · τ = xᵀ Q x` for the tridiagonal
`τ, 2τ, …, 2τ, τ / −τ` matrix, any commutative ring, any length `n = m + 1 ≥ 1`. -/
theorem gmrf_quadratic_form {R : Type} [CommRing R] (τ : R) (m : ℕ) (x : List R) (hx : x.length = m + 1) :
    quadForm (precisionMatrix (List.replicate m τ)) x = τ * (diffSq x).sum := by
  rw [gmrf_weighted_form _ _ (by simpa using hx)]
  have : ∀ (m : ℕ) (ds : List R), (List.zipWith (fun a d => a * d) (List.replicate m τ) ds).sum
      = τ * (ds.take m).sum := by
    intro m
    induction m with
    | zero => intro ds; simp
    | succ m ih =>
      intro ds
      cases ds with
      | nil => simp
      | cons d ds => simp [List.replicate_succ, ih, mul_add]
  rw [this]
  have hlen : (diffSq x).length = m := by
    have : ∀ (x : List R), (diffSq x).length = x.length - 1 := by
      intro x
      induction x with
      | nil => rfl
      | cons a l ih =>
        cases l with
        | nil => rfl
        | cons b l => simp only [diffSq, List.length_cons] at ih ⊢; omega
    rw [this, hx]; rfl
  rw [List.take_of_length_le (by omega)]

example : quadForm (precisionMatrix (List.replicate 2 (7 : ℤ))) [1, 4, 2] = 7 * ((1 - 4) ^ 2 + (4 - 2) ^ 2) := by
  rw [gmrf_quadratic_form 7 2 _ rfl]; decide

/-- the published plain matrix really is `τ, 2τ, …, 2τ, τ` on the diagonal and `−τ` next to it -/
theorem plain_matrix_entries {R : Type} [CommRing R] (τ : R) :
    precisionMatrix (List.replicate 3 τ) =
      [[τ, -τ, 0, 0], [-τ, τ + τ, -τ, 0], [0, -τ, τ + τ, -τ], [0, 0, -τ, 0 + τ]] := by
  simp [precisionMatrix, precEntry, List.range_succ, List.replicate]

/-- **published_matrix_ignored_weights_before_fix** (F19) — the matrix published before the repair (the
plain one, whatever the weights) is NOT the precision of the weighted density: field `(0, 1)`, weight `2`,
`τ = 1` gives `xᵀQx = 1` but `τ Σ (Δx)²/w = 1/2`. -/
theorem published_matrix_ignored_weights_before_fix :
    quadForm (precisionMatrix (offDiag (1 : ℚ) none 2)) [0, 1]
      ≠ (scaledDiffSq (some [2]) ([0, 1] : List ℚ)).sum * 1 := by
  norm_num [quadForm, precisionMatrix, offDiag, precEntry, scaledDiffSq, diffSq, List.range_succ]

/-- **gmrf_density_is_gaussian_form** — the log density `GMRF._call` returns (plain, weighted or time-aware:
`w` is whatever divisor the variant uses) equals the Gaussian form `d/2 log τ − ½ xᵀQx − d/2 log 2π` of the
matrix published for the same `w`. -/
theorem gmrf_density_is_gaussian_form (log2pi τ : ℝ) (field : List ℝ) (w : Option (List ℝ))
    (hw : ∀ ws, w = some ws → ws.length + 1 = field.length) (hn : 1 ≤ field.length) :
    gmrfLogProb log2pi τ (scaledDiffSq w field) field.length
      = Real.log τ * (((field.length - 1 : ℕ) : ℤ) : ℝ) / 2
        - quadForm (precisionMatrix (offDiag τ w field.length)) field / 2
        - (((field.length - 1 : ℕ) : ℤ) : ℝ) / 2 * log2pi := by
  have key : (scaledDiffSq w field).sum * τ
      = quadForm (precisionMatrix (offDiag τ w field.length)) field := by
    cases w with
    | none =>
      simp only [scaledDiffSq, offDiag]
      rw [gmrf_quadratic_form τ (field.length - 1) field (by omega)]
      ring
    | some ws =>
      have hl := hw ws rfl
      simp only [scaledDiffSq, offDiag]
      rw [gmrf_weighted_form _ _ (by simp; omega)]
      have htake : ws.take (field.length - 1) = ws := List.take_of_length_le (by omega)
      rw [htake]
      clear htake hl hw hn
      generalize diffSq field = ds
      induction ds generalizing ws with
      | nil => simp
      | cons d ds ih =>
        cases ws with
        | nil => simp
        | cons a ws =>
          simp only [List.zipWith_cons_cons, List.sum_cons, List.map_cons, add_mul, ih ws]
          ring
  unfold gmrfLogProb
  simp only [trans_log_real]
  rw [← key]

example : gmrfLogProb (Real.log (2 * Real.pi)) 2 (scaledDiffSq (some [4, 8]) [1, 3, 0]) 3
    = Real.log 2 * (((3 - 1 : ℕ) : ℤ) : ℝ) / 2
      - quadForm (precisionMatrix (offDiag 2 (some [4, 8]) 3)) [1, 3, 0] / 2
      - (((3 - 1 : ℕ) : ℤ) : ℝ) / 2 * Real.log (2 * Real.pi) :=
  gmrf_density_is_gaussian_form _ 2 [1, 3, 0] (some [4, 8]) (by intro ws h; cases h; rfl) (by simp)

/-- length of the time-aware divisor: one per first difference of the field -/
theorem length_timeAwareWeights (rescale : Bool) (internal : List ℝ) (h : 1 ≤ internal.length) :
    (timeAwareWeights rescale internal).length + 1 = internal.length := by
  have hs : (sortedHeights internal).length = internal.length + 1 := by
    unfold sortedHeights times
    rw [List.length_map, (sortEvents_perm _).length_eq]
    simp
  have hd : (diffs (sortedHeights internal)).length = internal.length := by
    rw [length_diffs, hs]; rfl
  unfold timeAwareWeights
  cases rescale <;>
    simp only [Bool.false_eq_true, if_false, if_true, List.length_map, List.length_zipWith, List.length_tail, hd] <;>
    omega

/-- **gmrf_timeaware_gaussian_form** — the time-aware GMRF (with or without rescaling by the root height): the
divisor of each squared difference is the mean of the two adjacent inter-coalescent durations of the SORTED
`[0] ++ internal heights` (sorted by the C08 event sort, any input order, ties allowed), and the log density is the
Gaussian form of the matrix `precision_matrix` publishes for those weights (F19 as repaired). -/
theorem gmrf_timeaware_gaussian_form (log2pi τ : ℝ) (field internal : List ℝ) (rescale : Bool)
    (hlen : internal.length = field.length) (hn : 1 ≤ field.length) :
    gmrfLogProb log2pi τ (scaledDiffSq (some (timeAwareWeights rescale internal)) field) field.length
      = Real.log τ * (((field.length - 1 : ℕ) : ℤ) : ℝ) / 2
        - quadForm (precisionMatrix (offDiag τ (some (timeAwareWeights rescale internal)) field.length)) field / 2
        - (((field.length - 1 : ℕ) : ℤ) : ℝ) / 2 * log2pi :=
  gmrf_density_is_gaussian_form log2pi τ field _
    (by intro ws h; cases h; rw [length_timeAwareWeights rescale internal (by omega), hlen]) hn

example : gmrfLogProb 0 2 (scaledDiffSq (some (timeAwareWeights true [3, 1, 2])) [1, 4, 2]) 3
    = Real.log 2 * (((3 - 1 : ℕ) : ℤ) : ℝ) / 2
      - quadForm (precisionMatrix (offDiag 2 (some (timeAwareWeights true [3, 1, 2])) 3)) [1, 4, 2] / 2
      - (((3 - 1 : ℕ) : ℤ) : ℝ) / 2 * 0 :=
  gmrf_timeaware_gaussian_form 0 2 [1, 4, 2] [3, 1, 2] true rfl (by simp)

/-! ## the precision integrated out -/

/-- **gamma_integrated** — `∫_0^∞ Gamma(τ; a, b) · GMRF(x | τ) dτ` is the closed form `GMRFGammaIntegrated`
returns (both as densities: `exp` of the model's log values), for any squared-difference statistic
`qs` with non-negative sum, any field length, any `a, b > 0`. -/
theorem gamma_integrated (a b : ℝ) (ha : 0 < a) (hb : 0 < b) (qs : List ℝ) (hS : 0 ≤ qs.sum) (n : ℕ)
    (log2pi lgA lgAd : ℝ)
    (hAd : lgAd = Real.log (Real.Gamma (a + (((n - 1 : ℕ) : ℤ) : ℝ) / 2))) :
    ∫ τ in Set.Ioi (0 : ℝ), Real.exp (gammaLogPdf a b lgA τ) * Real.exp (gmrfLogProb log2pi τ qs n)
      = Real.exp (gammaIntegratedLogProb log2pi a b lgA lgAd qs n) := by
  have hd : (0 : ℝ) ≤ (((n - 1 : ℕ) : ℤ) : ℝ) := by exact_mod_cast Nat.zero_le _
  set d : ℝ := (((n - 1 : ℕ) : ℤ) : ℝ) with hd_def
  have hs : 0 < a + d / 2 := by positivity
  have hr : 0 < b + qs.sum / 2 := by positivity
  have hk := integral_exp_gamma_kernel (a * Real.log b - lgA - d / 2 * log2pi) (a + d / 2) (b + qs.sum / 2) hs hr
  have hcongr : ∀ τ ∈ Set.Ioi (0 : ℝ),
      Real.exp (gammaLogPdf a b lgA τ) * Real.exp (gmrfLogProb log2pi τ qs n)
        = Real.exp ((a * Real.log b - lgA - d / 2 * log2pi) + ((a + d / 2) - 1) * Real.log τ
            - (b + qs.sum / 2) * τ) := by
    intro τ _
    rw [← Real.exp_add]
    unfold gammaLogPdf gmrfLogProb
    simp only [trans_log_real, ← hd_def]
    congr 1; ring
  rw [setIntegral_congr_fun measurableSet_Ioi hcongr, hk]
  unfold gammaIntegratedLogProb
  simp only [trans_log_real, ← hd_def]
  rw [hAd]
  congr 1
  rw [show qs.sum / 2 + b = b + qs.sum / 2 by ring]
  ring

example : ∫ τ in Set.Ioi (0 : ℝ), Real.exp (gammaLogPdf 2 3 (Real.log (Real.Gamma 2)) τ)
      * Real.exp (gmrfLogProb (Real.log (2 * Real.pi)) τ [4, 9] 3)
    = Real.exp (gammaIntegratedLogProb (Real.log (2 * Real.pi)) 2 3 (Real.log (Real.Gamma 2))
        (Real.log (Real.Gamma (2 + (((3 - 1 : ℕ) : ℤ) : ℝ) / 2))) [4, 9] 3) :=
  gamma_integrated 2 3 (by norm_num) (by norm_num) [4, 9] (by norm_num) 3 _ _ _ rfl

/-- **invgamma_integrated** — `∫_0^∞ InvGamma(θ; α, β) · ConstantCoalescent(T | θ) dθ` is the closed form
`ConstantCoalescentIntegrated.log_prob` returns (substitution `u = 1/θ`), for any height vector whose statistic
`Σ C(k,2)·Δt` is non-negative, `α, β > 0`. -/
theorem invgamma_integrated (α β : ℝ) (hα : 0 < α) (hβ : 0 < β) (heights : List ℝ)
    (hstat : 0 ≤ constantStat heights) (lgA lgAm : ℝ)
    (hAm : lgAm = Real.log (Real.Gamma (α + (((taxaCount heights - 1 : ℕ) : ℤ) : ℝ)))) :
    ∫ θ in Set.Ioi (0 : ℝ), Real.exp (invGammaLogPdf α β lgA θ) * Real.exp (constantLogProb θ heights)
      = Real.exp (constantIntegratedLogProb α β lgA lgAm (constantStat heights) (taxaCount heights - 1)) := by
  set m : ℝ := (((taxaCount heights - 1 : ℕ) : ℤ) : ℝ) with hm_def
  have hm0 : (0 : ℝ) ≤ m := by rw [hm_def]; exact_mod_cast Nat.zero_le _
  have hs : 0 < α + m := by positivity
  have hr : 0 < β + constantStat heights := by positivity
  have hk := integral_exp_invgamma_kernel (α * Real.log β - lgA) (α + m) (β + constantStat heights) hs hr
  have hcongr : ∀ θ ∈ Set.Ioi (0 : ℝ),
      Real.exp (invGammaLogPdf α β lgA θ) * Real.exp (constantLogProb θ heights)
        = Real.exp ((α * Real.log β - lgA) - ((α + m) + 1) * Real.log θ - (β + constantStat heights) / θ) := by
    intro θ _
    rw [← Real.exp_add]
    unfold invGammaLogPdf constantLogProb constantIntegral constantStat
    simp only [trans_log_real, ← hm_def]
    rw [sum_zipWith_neg_div]
    congr 1; ring
  rw [setIntegral_congr_fun measurableSet_Ioi hcongr, hk]
  unfold constantIntegratedLogProb
  simp only [trans_log_real, ← hm_def]
  rw [hAm]

example : ∫ θ in Set.Ioi (0 : ℝ), Real.exp (invGammaLogPdf 2 3 0 θ) * Real.exp (constantLogProb θ [0, 0, 1])
    = Real.exp (constantIntegratedLogProb 2 3 0 (Real.log (Real.Gamma (2 + (((taxaCount ([0, 0, 1] : List ℝ) - 1 : ℕ) : ℤ) : ℝ))))
        (constantStat [0, 0, 1]) (taxaCount ([0, 0, 1] : List ℝ) - 1)) :=
  invgamma_integrated 2 3 (by norm_num) (by norm_num) [0, 0, 1]
    (by simp [constantStat, sortEvents, insertEv, mkEvents, taxaCount, nodeMask, lineages, cumsum, cumsumFrom,
          marks, times, diffs, choose2]) 0 _ rfl

/-! ## sufficient statistics -/

/-- **suffstats_reproduce_skygrid** — for every order of the node heights and every tie pattern, the per-section
statistics and coalescent counts published by `PiecewiseConstantCoalescentGrid.sufficient_statistics`
satisfy `Σ_g ss_g / θ_g + Σ_g c_g log θ_g = −log_prob`. -/
theorem suffstats_reproduce_skygrid (θ grid : List ℝ) {samp coal samp' coal' : List ℝ}
    (hs : samp'.Perm samp) (hc : coal'.Perm coal) (hlen : samp.length = coal.length + 1)
    (hyoung : ∀ c ∈ coal, ∃ s ∈ samp, s < c) :
    reproduce θ (skygridSuffStats grid (samp' ++ coal')).1 (skygridSuffStats grid (samp' ++ coal')).2
      = -(skygridLogProb θ grid (samp' ++ coal')) := by
  obtain ⟨e1, l, hS, hperm, hsorted⟩ := sorted_events grid hs hc hlen
  exact reproduce_of_head θ grid _ e1 l hS (head_not_coal hperm hsorted hyoung)

example : reproduce [1, 2, 4] (skygridSuffStats [1 / 2, 5] (([1, 0, 0] : List ℝ) ++ [3, 2])).1
      (skygridSuffStats [1 / 2, 5] (([1, 0, 0] : List ℝ) ++ [3, 2])).2
    = -(skygridLogProb [1, 2, 4] [1 / 2, 5] (([1, 0, 0] : List ℝ) ++ [3, 2])) :=
  suffstats_reproduce_skygrid [1, 2, 4] [1 / 2, 5] Ex.p3 Ex.p2 rfl Ex.young

/-- **suffstats_reproduce_skyride** — `PiecewiseConstantCoalescent.sufficient_statistics` (sections between coalescent
marks, `groups[:-1]`, counts all one) reproduce `−log_prob`, for every order of node heights and every tie
pattern, when there is one population size per coalescent event. -/
theorem suffstats_reproduce_skyride (θ : List ℝ) {samp coal samp' coal' : List ℝ}
    (hs : samp'.Perm samp) (hc : coal'.Perm coal) (hlen : samp.length = coal.length + 1)
    (hθ : θ.length = coal.length) :
    reproduce θ (skyrideSuffStats (samp' ++ coal')).1 (skyrideSuffStats (samp' ++ coal')).2
      = -(skyrideLogProb θ (samp' ++ coal')) := by
  obtain ⟨e1, l, hS, hperm, _⟩ := sorted_events [] hs hc hlen
  have hn : taxaCount (samp' ++ coal') - 1 = coal.length := by
    unfold taxaCount; rw [List.length_append, hs.length_eq, hc.length_eq]; omega
  unfold reproduce skyrideSuffStats skyrideLogProb skyrideIntegral
  simp only [trans_log_real, show (Trans.log : ℝ → ℝ) = Real.log from rfl]
  rw [hS, hn]
  generalize hev : e1 :: l = ev at hperm
  have hpos : 1 ≤ ev.length := by rw [← hev]; simp
  have hlenT : (intervalTerms ev).length + 1 ≤ (marks ev).length := by
    unfold intervalTerms lineages cumsum
    rw [List.length_zipWith, List.length_dropLast, length_cumsumFrom, length_diffs]
    simp only [times, marks, List.length_map]
    omega
  have hgroups : (splitAtMarks (-1) (marks ev) (intervalTerms ev)).length = θ.length + 1 := by
    rw [length_splitAtMarks, count_coal_marks hperm, hθ]
  have h1 : (List.zipWith (fun s t => s / t)
        (((splitAtMarks (-1) (marks ev) (intervalTerms ev)).dropLast).map List.sum) θ).sum
      = (zipWith3 (fun k d i => (choose2 k : ℝ) * d / θ.getD i 0) (lineages ev) (diffs (times ev))
          (skyrideIdx ev)).sum := by
    rw [List.map_dropLast, zipWith_dropLast_left _ _ _ (by rw [List.length_map, hgroups])]
    have hb := idxSum_eq_zipWith (fun s t => s / t) (fun s => by simp)
      ((splitAtMarks (-1) (marks ev) (intervalTerms ev)).map List.sum) θ 0
    rw [List.drop_zero] at hb
    rw [← hb]
    have hr := regroup (fun g => (θ.getD g 0)⁻¹) (-1) (marks ev) (intervalTerms ev) 0 (by omega)
    simp only [div_eq_mul_inv] at hr ⊢
    rw [← hr]
    have hz := zipWith3_eq_zipWith (fun k d => (choose2 k : ℝ) * d) (fun i => (θ.getD i 0)⁻¹)
      (lineages ev) (diffs (times ev)) (skyrideIdx ev)
    rw [hz]
    unfold skyrideIdx cumsum intervalTerms
    rw [zipWith_dropLast]
    rw [length_cumsumFrom]
    simp only [isMark, List.length_map]
    exact hlenT
  have h2 : (List.zipWith (fun (c : ℕ) t => ((c : ℤ) : ℝ) * Real.log t) (List.replicate coal.length 1) θ).sum
      = (θ.map Real.log).sum := by
    rw [zipWith_replicate_left _ _ _ _ (le_of_eq hθ)]
    simp
  rw [h1, h2]
  ring

example : reproduce [1, 2] (skyrideSuffStats (([1, 0, 0] : List ℝ) ++ [3, 2])).1
      (skyrideSuffStats (([1, 0, 0] : List ℝ) ++ [3, 2])).2
    = -(skyrideLogProb [1, 2] (([1, 0, 0] : List ℝ) ++ [3, 2])) :=
  suffstats_reproduce_skyride [1, 2] Ex.p3 Ex.p2 rfl rfl

end TTProps.C20
