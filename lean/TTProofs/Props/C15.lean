/-! C15 property theorems — stub (not built yet). -/
namespace TTProps.C15
end TTProps.C15
