import TTModel.C15_MCMC
import TTGen.C15_Tuning
import TTGen.C15_RunOrder
import TTProofs.Lemmas.C15_Real
import TTProofs.Lemmas.C15_Frame
import TTProofs.Lemmas.C15_Block
import Mathlib.Analysis.SpecialFunctions.Log.Basic
import Mathlib.Analysis.SpecialFunctions.Sqrt
import Mathlib.Analysis.Calculus.Deriv.Mul
import Mathlib.Tactic.Positivity
import Mathlib.Tactic.Linarith
import Mathlib.Tactic.FieldSimp
/-!
# C15 — every MCMC transition is a Metropolis–Hastings step; tuning direction

Theorems about `TT.C15.mcmcStep` / `run` (`TTModel/C15_MCMC.lean`, the machine the driver
`drv_c15` executes against the real `MCMC.run`) and about the tuning expressions the translator
`tr_tuning.py` regenerates from the operators' source on every run (`TTGen/C15_Tuning.lean`).
-/
namespace TTProps.C15
open TT TT.C15 TTGen.C15_Tuning

/-- the translator recognised every getter / setter / `tune` -/
theorem translator_recognised : translatorOk = true := by decide

/-! ## the run loop

The theorems of this section are about `mcmcStep`.  That `mcmcStep` is `MCMC.run`'s loop body is tied
(besides the tape correspondence) by a table REGENERATED from the AST of `MCMC.run` on every run
(`TTGen/C15_RunOrder.lean`): the order of select / propose / decide / accept-or-restore / log / tune /
counter / checkpoint, which iteration number the loggers and `tune` receive, and the exact statement
shape of the decision block and of the accept/restore block.  A reordering in the source (logging before
the restore, tuning before the decision, a different sample number, …) changes the table and the
theorems below stop building. -/

/-- the order translator recognised every statement of the loop body -/
theorem run_order_recognised : TTGen.C15_RunOrder.translatorOk = true := by decide

/-- **run_order_generated**: the phases of `MCMC.run` in source order are the phases `mcmcStep`
implements, in the same order, with the same iteration number handed to loggers and to `tune` -/
theorem run_order_generated :
    TTGen.C15_RunOrder.order = stepOrder ∧ TTGen.C15_RunOrder.initial = initialOrder := by decide

/-- the decision block and the accept/restore block have the statement shape the model mirrors -/
theorem run_blocks_generated :
    TTGen.C15_RunOrder.decideBlockOk = true ∧ TTGen.C15_RunOrder.acceptBlockOk = true := by decide

/-- **failure_sentinels_rejected**: every constant an operator class returns to say "no proposal" (read from the
`_step` methods' AST: `+inf` from the HMC retry loop and from both Cholesky failures of the block update) is a
value the run loop's first test sends to the rejecting branch (read from `MCMC.run`'s AST) — so the model's
`HR.inf`, about which `degenerate_rejects` speaks, is exactly "the operator reported failure".  If the operators
and the run loop stop agreeing on the sentinel, this stops building. -/
theorem failure_sentinels_rejected :
    ∀ c ∈ TTGen.C15_RunOrder.operatorFailureReturns, ∀ s ∈ c.2, s ∈ TTGen.C15_RunOrder.loopFailureTests := by
  have h : (TTGen.C15_RunOrder.operatorFailureReturns.all fun c =>
      c.2.all fun s => decide (s ∈ TTGen.C15_RunOrder.loopFailureTests)) = true := by decide
  intro c hc s hs
  have h1 := (List.all_eq_true.mp h) c hc
  have h2 := (List.all_eq_true.mp h1) s hs
  exact of_decide_eq_true h2

/-- (fixed code, F53) a `nan` Hastings ratio is a failure value too: the run loop's first test rejects it.
Before the fix `min(zeros, nan)` kept `zeros` and a `nan` ratio was ACCEPTED with probability 1. -/
theorem nan_hastings_rejected : Sentinel.nan ∈ TTGen.C15_RunOrder.loopFailureTests := by decide

/-- (fixed code, F71) **json_defaults_match_constructor**: for every operator / adaptor / integrator option that has a
literal default both in the JSON layer (`data.get(key, d)` in `from_json` / `_parse_json`) and in the constructor, the
two defaults are the same literal: an object built from a dictionary that does not name the option is the object the
constructor builds when the option is not named.  (Before the fix `_parse_json` defaulted
`acceptance_window_length` to `False`, i.e. a window of length 0, against the constructor's 100.) -/
theorem json_defaults_match_constructor :
    ∀ r ∈ TTGen.C15_RunOrder.optionDefaults, r.2.2.1 = r.2.2.2 := by
  have h : (TTGen.C15_RunOrder.optionDefaults.all fun r => decide (r.2.2.1 = r.2.2.2)) = true := by decide
  intro r hr
  exact of_decide_eq_true ((List.all_eq_true.mp h) r hr)

/-- no operator / adaptor / integrator constructor mutates a mutable default argument (a shared list such as
`HMCOperator(adaptors=[])` is harmless only as long as nobody appends to it) -/
theorem mutable_defaults_not_mutated :
    ∀ r ∈ TTGen.C15_RunOrder.mutableDefaults, r.2.2.2 = false := by
  have h : (TTGen.C15_RunOrder.mutableDefaults.all fun r => !r.2.2.2) = true := by decide
  intro r hr
  have := (List.all_eq_true.mp h) r hr
  simpa using this

/-- `tune` (and everything else in an iteration) changes only the selected operator object: every other
operator's scale, counters, window and adaptors are what they were -/
theorem step_touches_only_selected_operator {α : Type} [Add α] [Sub α] [Mul α] [Div α] [Neg α] [Zero α]
    [One α] [FromNat α] [Trans α] [LT α] [DecidableLT α] (env : Env α) (half : α) (m m' : Machine α)
    (tape tape' : Tape α) (r : Rec α) (h : mcmcStep env half m tape = some (m', tape', r))
    (j : Nat) (hj : j ≠ r.opIdx) : m'.ops[j]? = m.ops[j]? := by
  unfold mcmcStep at h
  split at h
  · exact absurd h (by simp)
  · split at h
    · exact absurd h (by simp)
    · simp only [Option.some.injEq, Prod.mk.injEq] at h
      obtain ⟨hm, _, hr⟩ := h
      subst hm; subst hr
      simp only at hj ⊢
      exact List.getElem?_set_ne (Ne.symm hj)

/-- the iteration number the model hands to `logger.log` and to `operator.tune` is the counter before it
advances (what `run_order_generated` reads off the source) -/
theorem samples_are_epoch_before {α : Type} [Add α] [Sub α] [Mul α] [Div α] [Neg α] [Zero α] [One α]
    [FromNat α] [Trans α] [LT α] [DecidableLT α] (env : Env α) (half : α) (m m' : Machine α)
    (tape tape' : Tape α) (r : Rec α) (h : mcmcStep env half m tape = some (m', tape', r)) :
    r.logSample = m.epoch ∧ r.tuneSample = m.epoch ∧ m'.epoch = m.epoch + 1 := by
  unfold mcmcStep at h
  split at h
  · exact absurd h (by simp)
  · split at h
    · exact absurd h (by simp)
    · simp only [Option.some.injEq, Prod.mk.injEq] at h
      obtain ⟨hm, _, hr⟩ := h
      subst hm; subst hr
      exact ⟨rfl, rfl, rfl⟩

/-- every operator's parameter indices point into the state -/
def WF {α : Type} (m : Machine α) : Prop :=
  ∀ op ∈ m.ops, ∀ k ∈ op.pidx, k < m.state.length

section loop
set_option linter.unusedSectionVars false
variable {α : Type} [Add α] [Sub α] [Mul α] [Div α] [Neg α] [Zero α] [One α] [FromNat α]
  [Trans α] [LT α] [DecidableLT α]

/-- unfolding of one iteration (all the theorems below go through this) -/
theorem mcmcStep_eq (env : Env α) (half : α) (m : Machine α) (tape : Tape α) (oi : Nat)
    (is : List Nat) (op : Op α) (ht : tape.ints = oi :: is) (hop : m.ops[oi]? = some op) :
    let tape1 : Tape α := { tape with ints := is }
    let saved := savedOf m.state op.pidx
    let pr := propose env half op m.state tape1
    let d := decideMove env m.logJoint pr.1 pr.2.1 pr.2.2
    let stateAfter := if d.accepted then pr.1 else setMany pr.1 op.pidx saved
    let logJointAfter := if d.accepted then d.lpValue else m.logJoint
    let op2 := tune env (if d.accepted then op.onAccept else op.onReject) d.accProb d.accepted
    mcmcStep env half m tape = some
      ({ state := stateAfter, logJoint := logJointAfter, ops := m.ops.set oi op2,
         epoch := m.epoch + 1,
         acceptTotal := if d.accepted then m.acceptTotal + 1 else m.acceptTotal },
       d.tape,
       { opIdx := oi, proposed := pr.1, hr := pr.2.1, lpProposed := d.lpProposed,
         accProb := d.accProb, accepted := d.accepted, uUsed := d.uUsed,
         stateAfter := stateAfter, logJointAfter := logJointAfter,
         logged := env.target stateAfter, logSample := m.epoch, tuneSample := m.epoch,
         scaleAfter := op2.scale }) := by
  simp only [mcmcStep, ht, hop]

/-- **reject_restores**: after a rejected move every parameter of the run has exactly the value
it had before the proposal — for every operator kind (scaler, sliding window, Dirichlet, HMC,
block update with its two parameters), every tape, every target. -/
theorem reject_restores (env : Env α) (half : α) (m : Machine α) (tape : Tape α)
    (hwf : WF m) (m' : Machine α) (tape' : Tape α) (r : Rec α)
    (h : mcmcStep env half m tape = some (m', tape', r)) (hrej : r.accepted = false) :
    m'.state = m.state ∧ m'.logJoint = m.logJoint := by
  unfold mcmcStep at h
  split at h
  · exact absurd h (by simp)
  · rename_i oi is ht
    split at h
    · exact absurd h (by simp)
    · rename_i op hop
      simp only [Option.some.injEq, Prod.mk.injEq] at h
      obtain ⟨hm, _, hr⟩ := h
      subst hm; subst hr
      simp only at hrej
      simp only [hrej, Bool.false_eq_true, ↓reduceIte, and_true]
      have hf := propose_frame env half op m.state { tape with ints := is }
      exact restore_of_frame op.pidx m.state _ hf.1 hf.2
        (hwf op (List.mem_of_getElem? hop))

/-- degenerate branches (`isinf(hastings_ratio)`, or `log_joint_proposed` nan/inf) reject with
acceptance probability 0 and draw no uniform -/
theorem degenerate_rejects (env : Env α) (logJoint : α) (prop : Params α) (hr : HR α)
    (tape : Tape α) (h : hr = .inf ∨ env.target prop = .bad) :
    (decideMove env logJoint prop hr tape).accepted = false
    ∧ (decideMove env logJoint prop hr tape).uUsed = none
    ∧ (decideMove env logJoint prop hr tape).tape = tape := by
  unfold decideMove
  cases hr with
  | inf => simp
  | fin x =>
    cases h with
    | inl h => cases h
    | inr h => simp [h]

/-- the invariant the run carries -/
def Inv (env : Env α) (m : Machine α) : Prop :=
  env.target m.state = .fin m.logJoint ∧ WF m

theorem tune_pidx (env : Env α) (op : Op α) (a : α) (b : Bool) :
    (tune env op a b).pidx = op.pidx := by
  unfold tune; split
  · split <;> rfl
  · rfl

theorem inv_step (env : Env α) (half : α) (m : Machine α) (tape : Tape α) (hinv : Inv env m)
    (m' : Machine α) (tape' : Tape α) (r : Rec α)
    (h : mcmcStep env half m tape = some (m', tape', r)) :
    Inv env m' ∧ r.logged = .fin r.logJointAfter ∧ r.stateAfter = m'.state
      ∧ r.logJointAfter = m'.logJoint := by
  obtain ⟨hcar, hwf⟩ := hinv
  unfold mcmcStep at h
  split at h
  · exact absurd h (by simp)
  · rename_i oi is ht
    split at h
    · exact absurd h (by simp)
    · rename_i op hop
      simp only [Option.some.injEq, Prod.mk.injEq] at h
      obtain ⟨hm, _, hr⟩ := h
      subst hm; subst hr
      have hmem : op ∈ m.ops := List.mem_of_getElem? hop
      have hf := propose_frame env half op m.state { tape with ints := is }
      -- the state after the move and the carried value
      have key : env.target
          (if (decideMove env m.logJoint (propose env half op m.state { tape with ints := is }).1
                (propose env half op m.state { tape with ints := is }).2.1
                (propose env half op m.state { tape with ints := is }).2.2).accepted
           then (propose env half op m.state { tape with ints := is }).1
           else setMany (propose env half op m.state { tape with ints := is }).1 op.pidx
                  (savedOf m.state op.pidx))
          = .fin (if (decideMove env m.logJoint (propose env half op m.state { tape with ints := is }).1
                (propose env half op m.state { tape with ints := is }).2.1
                (propose env half op m.state { tape with ints := is }).2.2).accepted
              then (decideMove env m.logJoint (propose env half op m.state { tape with ints := is }).1
                (propose env half op m.state { tape with ints := is }).2.1
                (propose env half op m.state { tape with ints := is }).2.2).lpValue
              else m.logJoint) := by
        generalize (propose env half op m.state { tape with ints := is }) = pr at hf ⊢
        obtain ⟨prop, hrr, tp⟩ := pr
        simp only at hf ⊢
        by_cases hacc : (decideMove env m.logJoint prop hrr tp).accepted = true
        · simp only [hacc, ↓reduceIte]
          -- accepted: only in the non-degenerate branch, where lpValue is the target at prop
          unfold decideMove at hacc ⊢
          cases hrr with
          | inf => simp at hacc
          | fin x =>
            simp only at hacc ⊢
            cases htg : env.target prop with
            | bad => simp [htg] at hacc
            | fin lp =>
              simp only [htg] at hacc ⊢
              cases hu : tp.rands with
              | nil => simp [hu] at hacc
              | cons u rs => simp
        · simp only [hacc, Bool.false_eq_true, ↓reduceIte]
          rw [restore_of_frame op.pidx m.state prop hf.1 hf.2 (hwf op hmem)]
          exact hcar
      refine ⟨⟨key, ?_⟩, key, rfl, rfl⟩
      -- well-formedness is preserved: lengths and index lists do not change
      intro op' hop' k hk
      have hlen : (if (decideMove env m.logJoint (propose env half op m.state { tape with ints := is }).1
                (propose env half op m.state { tape with ints := is }).2.1
                (propose env half op m.state { tape with ints := is }).2.2).accepted
           then (propose env half op m.state { tape with ints := is }).1
           else setMany (propose env half op m.state { tape with ints := is }).1 op.pidx
                  (savedOf m.state op.pidx)).length = m.state.length := by
        split
        · exact hf.1
        · rw [setMany_length]; exact hf.1
      simp only at hop' ⊢
      rw [hlen]
      rcases List.mem_or_eq_of_mem_set hop' with h1 | h1
      · exact hwf op' h1 k hk
      · subst h1
        rw [tune_pidx] at hk
        have : (if (decideMove env m.logJoint (propose env half op m.state { tape with ints := is }).1
                (propose env half op m.state { tape with ints := is }).2.1
                (propose env half op m.state { tape with ints := is }).2.2).accepted = true
            then op.onAccept else op.onReject).pidx = op.pidx := by split <;> rfl
        rw [this] at hk
        exact hwf op hmem k hk

/-- **carried_density_invariant**: in every run, of any length, with any operator schedule and
accept/reject sequence (any tape), after every iteration the carried `log_joint` equals the
target evaluated at the current state, and every logged row is self-consistent: the density a
logger writes is the carried value, which is the target at the logged parameter values.
Hypothesis: the initial `log_joint` is the (finite) target at the initial state, and evaluation
is a function of the state ("fresh", C11). -/
theorem carried_density_invariant (env : Env α) (half : α) :
    ∀ (n : Nat) (m : Machine α) (tape : Tape α), Inv env m →
      Inv env (run env half n m tape).1
      ∧ ∀ r ∈ (run env half n m tape).2,
          r.logged = .fin r.logJointAfter ∧ env.target r.stateAfter = .fin r.logJointAfter := by
  intro n
  induction n with
  | zero => intro m tape h; exact ⟨h, fun r hr => by simp [run] at hr⟩
  | succ n ih =>
    intro m tape h
    unfold run
    cases hs : mcmcStep env half m tape with
    | none => exact ⟨h, fun r hr => by simp at hr⟩
    | some res =>
      obtain ⟨m', tape', r⟩ := res
      have hstep := inv_step env half m tape h m' tape' r hs
      have := ih m' tape' hstep.1
      simp only
      refine ⟨this.1, fun r' hr' => ?_⟩
      rcases List.mem_cons.mp hr' with e | e
      · subst e
        refine ⟨hstep.2.1, ?_⟩
        rw [hstep.2.2.1, hstep.2.2.2]
        exact hstep.1.1
      · exact this.2 r' e

end loop

/-! ## the accept rule (over ℝ) -/

section accept

/-- **accept_rule**: in the non-degenerate branch the move is accepted exactly when the uniform
draw is below `min(1, exp(Δ + hr))`, `Δ` = target at the proposal minus the carried value. -/
theorem accept_rule (env : Env ℝ) (logJoint : ℝ) (prop : Params ℝ) (h lp u : ℝ) (rs : List ℝ)
    (tape : Tape ℝ) (htg : env.target prop = .fin lp) (hu : tape.rands = u :: rs) :
    (decideMove env logJoint prop (.fin h) tape).accepted = true
      ↔ u < min 1 (Real.exp ((lp - logJoint) + h)) := by
  have hmin : Real.exp (if (lp - logJoint) + h < 0 then (lp - logJoint) + h else 0)
      = min 1 (Real.exp ((lp - logJoint) + h)) := by
    split
    · rename_i hneg
      rw [min_eq_right]
      exact le_of_lt (by rw [← Real.exp_zero]; exact Real.exp_lt_exp.mpr hneg)
    · rename_i hnn
      rw [Real.exp_zero, min_eq_left]
      rw [← Real.exp_zero]; exact Real.exp_le_exp.mpr (not_lt.mp hnn)
  simp only [decideMove, htg, hu, decide_eq_true_eq, trans_exp_real, hmin]

/-- the acceptance probability handed to `tune` is that same `min(1, exp(Δ + hr))` -/
theorem accept_prob (env : Env ℝ) (logJoint : ℝ) (prop : Params ℝ) (h lp u : ℝ) (rs : List ℝ)
    (tape : Tape ℝ) (htg : env.target prop = .fin lp) (hu : tape.rands = u :: rs) :
    (decideMove env logJoint prop (.fin h) tape).accProb
      = min 1 (Real.exp ((lp - logJoint) + h)) := by
  simp only [decideMove, htg, hu, trans_exp_real]
  split
  · rename_i hneg
    rw [min_eq_right]
    exact le_of_lt (by rw [← Real.exp_zero]; exact Real.exp_lt_exp.mpr hneg)
  · rename_i hnn
    rw [Real.exp_zero, min_eq_left]
    rw [← Real.exp_zero]; exact Real.exp_le_exp.mpr (not_lt.mp hnn)

end accept

/-! ## Hastings ratios (over ℝ) -/

section hastings

/-- density at `x'` of the scaler kernel from `x`: `x' = x·s`, `s ~ U[a, 1/a]` -/
noncomputable def scalerDensity (a x x' : ℝ) : ℝ :=
  if a ≤ x' / x ∧ x' / x ≤ 1 / a then 1 / ((1 / a - a) * |x|) else 0

/-- where that density comes from: for `x > 0` the distribution function of `x·s` is
`t ↦ (t/x − a)/(1/a − a)` on the support, and its derivative is `scalerDensity a x t` -/
theorem scaler_density_is_kernel (a x t : ℝ) (hx : 0 < x) (ha : 0 < a) (ha1 : a < 1)
    (hs : a ≤ t / x ∧ t / x ≤ 1 / a) :
    HasDerivAt (fun t => (t / x - a) / (1 / a - a)) (scalerDensity a x t) t := by
  have hd : 1 / a - a ≠ 0 := by
    have : 1 < 1 / a := by rw [lt_div_iff₀ ha]; linarith
    linarith
  have h1 : HasDerivAt (fun t : ℝ => t / x - a) (1 / x) t :=
    ((hasDerivAt_id' t).div_const x).sub_const a
  have h2 := h1.div_const (1 / a - a)
  have hx' : x ≠ 0 := hx.ne'
  have key : scalerDensity a x t = 1 / x / (1 / a - a) := by
    unfold scalerDensity
    rw [if_pos hs, abs_of_pos hx]
    generalize 1 / a - a = D at hd
    field_simp
  rw [key]
  exact h2

/-- **scaler_hr**: for the uniform-multiplier kernel as coded (ONE coordinate `x` of one
parameter multiplied by `s ∈ [a, 1/a]`; the uniformly chosen index is the same in both
directions), `log q(x|x′)/q(x′|x) = −log s`: the value `ScalerOperator._step` returns. -/
theorem scaler_hr (a x s : ℝ) (ha : 0 < a) (ha1 : a < 1) (hx : x ≠ 0) (hs : a ≤ s ∧ s ≤ 1 / a) :
    Real.log (scalerDensity a (x * s) x / scalerDensity a x (x * s)) = -Real.log s := by
  have hs0 : 0 < s := lt_of_lt_of_le ha hs.1
  have hd : 0 < 1 / a - a := by
    have : 1 < 1 / a := by rw [lt_div_iff₀ ha]; linarith
    linarith
  have e1 : x * s / x = s := by field_simp
  have e2 : x / (x * s) = 1 / s := by field_simp
  have hfwd : a ≤ x * s / x ∧ x * s / x ≤ 1 / a := by rw [e1]; exact hs
  have hbwd : a ≤ x / (x * s) ∧ x / (x * s) ≤ 1 / a := by
    rw [e2]
    constructor
    · rw [le_div_iff₀ hs0]
      have := hs.2
      rw [le_div_iff₀ ha] at this
      linarith [mul_comm s a]
    · exact one_div_le_one_div_of_le ha hs.1
  simp only [scalerDensity, hfwd, hbwd, and_self, ↓reduceIte]
  have hxa : 0 < |x| := abs_pos.mpr hx
  rw [abs_mul, abs_of_pos hs0]
  have h1 := hd.ne'
  have h2 := hxa.ne'
  have h3 := hs0.ne'
  generalize 1 / a - a = D at h1
  generalize |x| = X at h2
  have : 1 / (D * (X * s)) / (1 / (D * X)) = s⁻¹ := by
    field_simp
  rw [this, Real.log_inv]

/-- the model's scaler proposal returns `−log s` for the `s` it multiplies with, and
`s = a + r(1/a − a) ∈ [a, 1/a]` for `r ∈ [0,1]` -/
theorem proposeScaler_returns (op : Op ℝ) (st : Params ℝ) (tape : Tape ℝ) (r : ℝ) (rs : List ℝ)
    (i1 i2 k : ℕ) (is : List ℕ) (hr : tape.rands = r :: rs) (hi : tape.ints = i1 :: i2 :: is)
    (hk : op.pidx[i1]? = some k) :
    let s := op.scale + r * (1 / op.scale - op.scale)
    proposeScaler op st tape
      = (st.set k ((st.getD k []).modify i2 (· * s)), .fin (-Real.log s),
          { tape with rands := rs, ints := is }) := by
  simp [proposeScaler, hr, hi, hk]

theorem scaler_multiplier_range (a r : ℝ) (ha : 0 < a) (ha1 : a < 1) (hr0 : 0 ≤ r) (hr1 : r ≤ 1) :
    a ≤ a + r * (1 / a - a) ∧ a + r * (1 / a - a) ≤ 1 / a := by
  have hd : 0 < 1 / a - a := by
    have : 1 < 1 / a := by rw [lt_div_iff₀ ha]; linarith
    linarith
  constructor
  · nlinarith
  · nlinarith

/-- density of the sliding-window kernel: `x' = x + w(r − 1/2)`, `r ~ U[0,1]` -/
noncomputable def windowDensity (w x x' : ℝ) : ℝ := if |x' - x| ≤ w / 2 then 1 / w else 0

/-- **window_hr**: the kernel is symmetric, so the log ratio is the `0` the code returns -/
theorem window_hr (w x x' : ℝ) (hw : 0 < w) (hin : |x' - x| ≤ w / 2) :
    Real.log (windowDensity w x' x / windowDensity w x x') = 0 := by
  have h2 : |x - x'| ≤ w / 2 := by rw [abs_sub_comm]; exact hin
  simp only [windowDensity, hin, h2, ↓reduceIte]
  rw [div_self (by positivity), Real.log_one]

theorem proposeWindow_returns (op : Op ℝ) (st : Params ℝ) (tape : Tape ℝ) (half r : ℝ)
    (rs : List ℝ) (i1 i2 k : ℕ) (is : List ℕ) (hr : tape.rands = r :: rs)
    (hi : tape.ints = i1 :: i2 :: is) (hk : op.pidx[i1]? = some k) :
    proposeWindow half op st tape
      = (st.set k ((st.getD k []).modify i2 (· + op.scale * (r - half))), .fin 0,
          { tape with rands := rs, ints := is }) := by
  simp [proposeWindow, hr, hi, hk]

/-- **dirichlet_hr**: the returned value is `log q(x|x′) − log q(x′|x)` for the kernel
`q(·|x) = Dirichlet(scaler·x)` the new value was drawn from (`Env.dirLogProb` is the Dirichlet
log-density, any function here) -/
theorem dirichlet_hr (env : Env ℝ) (op : Op ℝ) (st : Params ℝ) (tape : Tape ℝ) (newv : List ℝ)
    (ds : List (List ℝ)) (k : ℕ) (ks : List ℕ) (hd : tape.dirs = newv :: ds)
    (hp : op.pidx = k :: ks) :
    let old := st.getD k []
    let q := fun (cur nxt : List ℝ) => env.dirLogProb (cur.map (· * op.scale)) nxt
    proposeDirichlet env op st tape
      = (st.set k newv, .fin (q newv old - q old newv), { tape with dirs := ds }) := by
  simp [proposeDirichlet, hd, hp]

end hastings

/-! ## tuning direction -/

section tuning

/-- the generated Robbins–Monro step is `adaptable + (acc − target)/(2 + count)` -/
theorem rm_formula (x acc tgt : ℝ) (count : ℕ) :
    genRm x acc tgt (count : ℝ) = x + (acc - tgt) / (2 + count) := by
  simp [genRm, rmExpr, Expr.eval, envTune, litVal]

/-- acceptance at or above target moves the adaptable parameter up (or not at all) -/
theorem rm_nonneg (x acc tgt : ℝ) (count : ℕ) (h : tgt ≤ acc) :
    x ≤ genRm x acc tgt (count : ℝ) := by
  rw [rm_formula]
  have : 0 ≤ (acc - tgt) / (2 + count) := div_nonneg (by linarith) (by positivity)
  linarith

theorem scaler_eval (a δ : ℝ) :
    genSet .scaler (genGet .scaler a + δ) = 1 / (Real.exp (Real.log (1 / a - 1) + δ) + 1) := by
  simp [genSet, genGet, specOf, TuningSpec.set, TuningSpec.get, scaler, Expr.eval, envField,
    envValue, litVal]

theorem window_eval (w δ : ℝ) :
    genSet .window (genGet .window w + δ) = Real.exp (Real.log w + δ) := by
  simp [genSet, genGet, specOf, TuningSpec.set, TuningSpec.get, window, Expr.eval, envField,
    envValue]

theorem hmc_eval (w δ : ℝ) : genSet .hmc (genGet .hmc w + δ) = Real.exp (Real.log w + δ) := by
  simp [genSet, genGet, specOf, TuningSpec.set, TuningSpec.get, hmc, Expr.eval, envField,
    envValue]

theorem block_eval (s δ : ℝ) :
    genSet .block (genGet .block s + δ)
      = 1 + (Real.sqrt (s - 1) + δ) * (Real.sqrt (s - 1) + δ) := by
  simp [genSet, genGet, specOf, TuningSpec.set, TuningSpec.get, block, Expr.eval, envField,
    envValue, litVal]

/-- (fixed code, F11) `adaptable = −log scaler`, `scaler = exp(−adaptable)` -/
theorem dirichlet_eval (c δ : ℝ) :
    genSet .dirichlet (genGet .dirichlet c + δ) = Real.exp (-(-Real.log c + δ)) := by
  simp [genSet, genGet, specOf, TuningSpec.set, TuningSpec.get, dirichlet, Expr.eval, envField,
    envValue]

/-- admissible proposal scales per operator kind -/
def ValidScale : Kind → ℝ → Prop
  | .scaler, a => 0 < a ∧ a < 1
  | .window, w => 0 < w
  | .dirichlet, c => 0 < c
  | .hmc, e => 0 < e
  | .block, s => 1 ≤ s

/-- `Bolder k new old`: proposals with scale `new` are at least as bold as with `old`.
* scaler: multiplier interval `[a, 1/a]` — wider for smaller `a` (`scaler_interval_widens`);
* sliding window: width; HMC: leapfrog step size (trajectory length `steps·ε`);
* Dirichlet: proposal `Dir(c·x)` has coordinate variance `xᵢ(1−xᵢ)/(c+1)` — larger for smaller
  concentration scale `c` (`dirichlet_variance_grows`);
* block update: precision multiplier range `[1/s, s]` — wider for larger `s`. -/
def Bolder : Kind → ℝ → ℝ → Prop
  | .scaler, a', a => a' ≤ a
  | .window, w', w => w ≤ w'
  | .dirichlet, c', c => c' ≤ c
  | .hmc, e', e => e ≤ e'
  | .block, s', s => s ≤ s'

theorem scaler_interval_widens (a a' : ℝ) (ha' : 0 < a') (h : a' ≤ a) :
    a' ≤ a ∧ 1 / a ≤ 1 / a' := ⟨h, one_div_le_one_div_of_le ha' h⟩

theorem dirichlet_variance_grows (c c' x : ℝ) (hc' : 0 < c') (h : c' ≤ c) (hx0 : 0 ≤ x)
    (hx1 : x ≤ 1) : x * (1 - x) / (c + 1) ≤ x * (1 - x) / (c' + 1) := by
  apply div_le_div_of_nonneg_left (mul_nonneg hx0 (by linarith)) (by linarith) (by linarith)

/-- **rm_direction**: for EVERY operator kind, with the getter/setter expressions regenerated
from the source, moving the adaptable parameter up by any `δ ≥ 0` never makes the proposal more
timid, and keeps the scale admissible. -/
theorem rm_direction (k : Kind) (x δ : ℝ) (hv : ValidScale k x) (hδ : 0 ≤ δ) :
    Bolder k (genSet k (genGet k x + δ)) x ∧ ValidScale k (genSet k (genGet k x + δ)) := by
  have hd : 1 ≤ Real.exp δ := Real.one_le_exp hδ
  cases k with
  | scaler =>
    obtain ⟨ha, ha1⟩ := hv
    simp only [Bolder, ValidScale]
    rw [scaler_eval]
    have h1 : 0 < 1 / x - 1 := by
      have : 1 < 1 / x := by rw [lt_div_iff₀ ha]; linarith
      linarith
    have he : Real.exp (Real.log (1 / x - 1) + δ) = (1 / x - 1) * Real.exp δ := by
      rw [Real.exp_add, Real.exp_log h1]
    have hden : 1 / x ≤ Real.exp (Real.log (1 / x - 1) + δ) + 1 := by rw [he]; nlinarith
    have hpos : 0 < Real.exp (Real.log (1 / x - 1) + δ) + 1 := by positivity
    have hxx : x * (1 / x) = 1 := by field_simp
    have hle : 1 / (Real.exp (Real.log (1 / x - 1) + δ) + 1) ≤ x := by
      rw [div_le_iff₀ hpos]; nlinarith
    refine ⟨hle, by positivity, lt_of_le_of_lt hle ha1⟩
  | window =>
    simp only [Bolder, ValidScale] at hv ⊢
    rw [window_eval, Real.exp_add, Real.exp_log hv]
    exact ⟨by nlinarith, by positivity⟩
  | hmc =>
    simp only [Bolder, ValidScale] at hv ⊢
    rw [hmc_eval, Real.exp_add, Real.exp_log hv]
    exact ⟨by nlinarith, by positivity⟩
  | block =>
    simp only [Bolder, ValidScale] at hv ⊢
    rw [block_eval]
    have h0 : 0 ≤ x - 1 := by linarith
    have hsq := Real.mul_self_sqrt h0
    have hnn := Real.sqrt_nonneg (x - 1)
    exact ⟨by nlinarith, by nlinarith⟩
  | dirichlet =>
    simp only [Bolder, ValidScale] at hv ⊢
    rw [dirichlet_eval]
    have : Real.exp (-(-Real.log x + δ)) = x * Real.exp (-δ) := by
      rw [neg_add, neg_neg, Real.exp_add, Real.exp_log hv]
    rw [this]
    have hle : Real.exp (-δ) ≤ 1 := by
      rw [← Real.exp_zero]; exact Real.exp_le_exp.mpr (by linarith)
    have hpos : 0 < Real.exp (-δ) := Real.exp_pos _
    exact ⟨by nlinarith, by positivity⟩

/-- the environment `MCMCOperator.tune` runs in: generated getters, setters, Robbins–Monro step -/
noncomputable def genEnv (env : Env ℝ) : Env ℝ :=
  { env with get := genGet, set := genSet, rm := genRm, asNew := genAsNew, daStep := genDaStep,
             daSet := genDaSet }

/-- **tune_never_more_timid**: one call of `tune` with an acceptance probability at or above
the operator's target never makes its next proposals more timid — every operator kind, every
admissible scale, every adaptation count; with adaptation disabled the scale does not move. -/
theorem tune_never_more_timid (env : Env ℝ) (op : Op ℝ) (acc : ℝ) (accepted : Bool)
    (hna : op.adaptors = []) (hv : ValidScale op.kind op.scale) (h : op.target ≤ acc) :
    Bolder op.kind (tune (genEnv env) op acc accepted).scale op.scale
      ∧ ValidScale op.kind (tune (genEnv env) op acc accepted).scale := by
  unfold tune
  rw [hna]
  simp only [List.isEmpty_nil, ↓reduceIte]
  split
  · refine ⟨?_, hv⟩
    cases op.kind <;> simp [Bolder]
  · simp only [genEnv]
    have hδ : 0 ≤ (acc - op.target) / (2 + (op.adaptCount : ℝ)) :=
      div_nonneg (by linarith) (by positivity)
    have := rm_direction op.kind op.scale _ hv hδ
    rw [show (FromNat.ofNat op.adaptCount : ℝ) = (op.adaptCount : ℝ) from rfl, rm_formula]
    exact this

/-! ### HMC step-size adaptors (`hmc/adaptation.py`) -/

/-- the generated update of `AdaptiveStepSize.learn` -/
theorem adaptive_eval (step prob tgt count : ℝ) :
    genAsNew step prob tgt count = Real.exp (Real.log step + (prob - tgt) / (2 + count)) := by
  simp [genAsNew, adaptiveSet, adaptiveUpd, Expr.eval, envValue, litVal]

/-- **adaptive_step_direction**: one call of `AdaptiveStepSize.learn`, every configuration
(`use_acceptance_rate` on/off, any `start`/`end` window, any target, any counters): outside its
window (or before the 10th call in rate mode) the step size does not move; inside, with the
statistic the configuration uses (running acceptance rate `accepted/calls` including this call,
or the acceptance probability of this call) at or above target the step size never decreases,
at or below target it never increases. -/
theorem adaptive_step_direction (env : Env ℝ) (target step accProb : ℝ) (start : ℕ)
    (stop : Option ℕ) (useRate : Bool) (calls acc : ℕ) (accepted : Bool) (hs : 0 < step) :
    let r := (Adaptor.adaptive target start stop useRate calls acc).learn (genEnv env) step accProb
      accepted
    let calls' := calls + 1
    let acc' := acc + (if accepted then 1 else 0)
    let active := inWindow start stop calls' && (!useRate || decide (10 ≤ calls'))
    let stat : ℝ := if useRate then (acc' : ℝ) / (calls' : ℝ) else accProb
    (active = false → r.2 = step) ∧ (active = true → target ≤ stat → step ≤ r.2)
      ∧ (active = true → stat ≤ target → r.2 ≤ step) ∧ 0 < r.2 := by
  intro r calls' acc' active stat
  have hr : r.2 = if active then genAsNew step stat target (calls' : ℝ) else step := by
    simp only [r, Adaptor.learn, genEnv, active, stat, calls', acc']
    split <;> simp_all
  have hpos : (0 : ℝ) < 2 + (calls' : ℝ) := by positivity
  have key : ∀ d : ℝ, Real.exp (Real.log step + d) = step * Real.exp d := fun d => by
    rw [Real.exp_add, Real.exp_log hs]
  refine ⟨fun h => by rw [hr, h]; simp, fun h ht => ?_, fun h ht => ?_, ?_⟩
  · rw [hr, h]; simp only [↓reduceIte]
    rw [adaptive_eval, key]
    have : 1 ≤ Real.exp ((stat - target) / (2 + (calls' : ℝ))) :=
      Real.one_le_exp (div_nonneg (by linarith) hpos.le)
    nlinarith
  · rw [hr, h]; simp only [↓reduceIte]
    rw [adaptive_eval, key]
    have : Real.exp ((stat - target) / (2 + (calls' : ℝ))) ≤ 1 := by
      rw [← Real.exp_zero]
      exact Real.exp_le_exp.mpr (div_nonpos_of_nonpos_of_nonneg (by linarith) hpos.le)
    nlinarith
  · rw [hr]; split
    · rw [adaptive_eval]; exact Real.exp_pos _
    · exact hs

/-- the generated `DualAveraging.step`: the new iterate `x` -/
theorem dual_x_eval (mu gamma kappa t0 counter sbar xbar stat : ℝ) :
    (genDaStep mu gamma kappa t0 counter sbar xbar stat).2.1
      = mu - ((1 - 1 / (counter + t0)) * sbar + 1 / (counter + t0) * stat) * Real.sqrt counter / gamma := by
  simp [genDaStep, dualAssigns, evalAssigns, Expr.eval, litVal]

/-- **dual_avg_monotone**: `DualAveragingStepSize.learn` is monotone in the acceptance statistic
of the call: from the same adaptor state, a larger acceptance probability never gives a smaller
step size (inside the window through the averaged statistic; outside it the result does not
depend on the call's acceptance at all).  As DESIGN 6.C15 says, only this monotonicity is
claimed for dual averaging: the averaged statistic, not the last acceptance, drives the step. -/
theorem dual_avg_monotone (env : Env ℝ) (mu gamma kappa t0 delta step a1 a2 : ℝ) (start : ℕ)
    (stop : Option ℕ) (calls counter : ℕ) (x xbar sbar : ℝ) (b1 b2 : Bool)
    (hg : 0 < gamma) (ht : 0 < ((counter + 1 : ℕ) : ℝ) + t0) (h : a1 ≤ a2) :
    ((Adaptor.dual mu gamma kappa t0 delta start stop calls counter x xbar sbar).learn
        (genEnv env) step a1 b1).2
      ≤ ((Adaptor.dual mu gamma kappa t0 delta start stop calls counter x xbar sbar).learn
        (genEnv env) step a2 b2).2 := by
  simp only [Adaptor.learn, genEnv]
  split
  · simp only [genDaSet, trans_exp_real, fromNat_real]
    apply Real.exp_le_exp.mpr
    rw [dual_x_eval, dual_x_eval]
    have heta : 0 < 1 / (((counter + 1 : ℕ) : ℝ) + t0) := by positivity
    have hsq : 0 ≤ Real.sqrt ((counter + 1 : ℕ) : ℝ) := Real.sqrt_nonneg _
    have hstat : delta - a2 ≤ delta - a1 := by linarith
    have h1 : (1 / (((counter + 1 : ℕ) : ℝ) + t0) * (delta - a2)) * Real.sqrt ((counter + 1 : ℕ) : ℝ)
        ≤ (1 / (((counter + 1 : ℕ) : ℝ) + t0) * (delta - a1)) * Real.sqrt ((counter + 1 : ℕ) : ℝ) :=
      mul_le_mul_of_nonneg_right (mul_le_mul_of_nonneg_left hstat heta.le) hsq
    have h2 : ((1 - 1 / (((counter + 1 : ℕ) : ℝ) + t0)) * sbar + 1 / (((counter + 1 : ℕ) : ℝ) + t0) * (delta - a2))
          * Real.sqrt ((counter + 1 : ℕ) : ℝ) / gamma
        ≤ ((1 - 1 / (((counter + 1 : ℕ) : ℝ) + t0)) * sbar + 1 / (((counter + 1 : ℕ) : ℝ) + t0) * (delta - a1))
          * Real.sqrt ((counter + 1 : ℕ) : ℝ) / gamma := by
      apply div_le_div_of_nonneg_right _ hg.le
      nlinarith
    linarith
  · split
    · split <;> exact le_refl _
    · exact le_refl _

/-- non-vacuity: a rate-driven adaptor at its 12th call inside its window -/
example : (inWindow 5 (some 40) 12 && (!true || decide (10 ≤ 12))) = true := by decide

/-- non-vacuity: a Dirichlet operator at scale 2 told its acceptance was 1 (target 0.24) -/
example : ValidScale .dirichlet 2 ∧ ((24 : ℝ) / 100 ≤ 1) := by
  constructor
  · show (0 : ℝ) < 2
    norm_num
  · norm_num

end tuning

/-! ## GMRF block update: precision multiplier and the Gaussian terms (`block_hr`) -/

section block

/-- density of the multiplier `f` under the two-component mixture of `propose_precision` -/
noncomputable def multiplierDensity (s f : ℝ) : ℝ :=
  let length := s - 1 / s
  let w := length / (length + 2 * Real.log s)
  w * (1 / length) + (1 - w) * (1 / (2 * f * Real.log s))

/-- the mixture (uniform on `[1/s, s]` with weight `length/(length + 2 log s)`, log-uniform on
the same interval otherwise) has density `(1 + 1/f)/(length + 2 log s)` -/
theorem multiplier_density_eq (s f : ℝ) (hs : 1 < s) (hf : 0 < f) :
    multiplierDensity s f = (1 + 1 / f) / (s - 1 / s + 2 * Real.log s) := by
  have hlog : 0 < Real.log s := Real.log_pos hs
  have hlen : 0 < s - 1 / s := by
    have : 1 / s < 1 := by rw [div_lt_one (by linarith)]; exact hs
    linarith
  unfold multiplierDensity
  simp only
  have h1 := hlog.ne'
  have h2 := hlen.ne'
  have h3 : s - 1 / s + 2 * Real.log s ≠ 0 := by positivity
  generalize Real.log s = L at *
  generalize s - 1 / s = D at *
  field_simp
  ring

/-- **precision_multiplier_symmetric**: `g(1/f) = f·g(f)`, i.e. for `τ′ = fτ` the proposal
densities satisfy `q(τ|τ′) = q(τ′|τ)`: the precision move needs no Hastings correction, which is
why `_step` returns only the Gaussian terms. -/
theorem precision_multiplier_symmetric (s f : ℝ) (hs : 1 < s) (hf : 0 < f) :
    multiplierDensity s (1 / f) = f * multiplierDensity s f := by
  rw [multiplier_density_eq s f hs hf, multiplier_density_eq s (1 / f) hs (by positivity)]
  have hlog : 0 < Real.log s := Real.log_pos hs
  have hlen : 0 < s - 1 / s := by
    have : 1 / s < 1 := by rw [div_lt_one (by linarith)]; exact hs
    linarith
  have h3 : s - 1 / s + 2 * Real.log s ≠ 0 := by positivity
  generalize s - 1 / s + 2 * Real.log s = Z at *
  field_simp
  ring

/-- the multiplier the model draws lies in `[1/s, s]` in the uniform branch -/
theorem precision_multiplier_range (s u : ℝ) (hs : 1 < s) (hu0 : 0 ≤ u) (hu1 : u ≤ 1) :
    1 / s ≤ 1 / s + (s - 1 / s) * u ∧ 1 / s + (s - 1 / s) * u ≤ s := by
  have hlen : 0 < s - 1 / s := by
    have : 1 / s < 1 := by rw [div_lt_one (by linarith)]; exact hs
    linarith
  constructor <;> nlinarith

open Matrix in
/-- **block_hr**: the value `GMRFPiecewiseCoalescentBlockUpdatingOperator._step` returns is
`log N(γ; μ_b, P_b⁻¹) − log N(γ′; μ_f, P_f⁻¹)`: log-density of the current field under the backward Gaussian
kernel minus log-density of the proposed field under the forward one — for ANY mode-finder outputs (they
only enter through `P_f, μ_f, P_b, μ_b`, which are arbitrary here), any precision matrices.
Contracts of the linear algebra the code calls, as hypotheses: `cholesky` returns an upper triangular `U`
with `P = UᵀU` and diagonal above the code's `1e-7` threshold (`thr`); `u = solve(U, z)` satisfies
`U u = z` with `γ′ = μ_f + u`. The `(2π)^{-n/2}` factors, which the code omits, cancel. -/
theorem block_hr {n : ℕ} (thr : ℝ) (hthr : 0 ≤ thr) (Uf Ub Pf Pb : Matrix (Fin n) (Fin n) ℝ)
    (z γ γ' μf μb : Fin n → ℝ)
    (hUf : Uf.BlockTriangular id) (hPf : Pf = Ufᵀ * Uf) (hdf : ∀ i, thr < Uf i i)
    (hz : Uf *ᵥ (γ' - μf) = z)
    (hUb : Ub.BlockTriangular id) (hPb : Pb = Ubᵀ * Ub) (hdb : ∀ i, thr < Ub i i) :
    blockHastings (1 / 2) thr (fun i j => Uf i j) z (fun i j => Ub i j) (fun i j => Pb i j)
        (fun i => γ i - μb i)
      = gaussLog γ μb Pb - gaussLog γ' μf Pf := by
  have hf := logDiagSum_eq thr hthr Uf hUf hdf
  have hb := logDiagSum_eq thr hthr Ub hUb hdb
  have hq := quad_of_chol Uf (γ' - μf)
  rw [hz, ← hPf] at hq
  have hzz : (sumFin fun i => z i * z i) = z ⬝ᵥ z := by simp [sumFin_eq_sum, dotProduct]
  have hdd : (sumFin fun i => (γ i - μb i) * sumFin fun j => Pb i j * (γ j - μb j))
      = (γ - μb) ⬝ᵥ (Pb *ᵥ (γ - μb)) := by
    simp [sumFin_eq_sum, dotProduct, mulVec]
  unfold blockHastings logQBackward logQForward gaussLog
  rw [hf, hb, hzz, hdd, hq, ← hPf, ← hPb]
  ring

/-- with the precision move: the full proposal density of the block update is
`q((γ′,τ′)|(γ,τ)) = g(f)/τ · N(γ′; μ_f, P_f⁻¹)`, `τ′ = fτ`, and since `g(1/f) = f g(f)`
(`precision_multiplier_symmetric`) the precision factors cancel in the ratio: the returned Gaussian
difference IS the log Hastings ratio of the whole move. -/
theorem block_hr_full (s f τ gb gf : ℝ) (hs : 1 < s) (hf : 0 < f) (hτ : 0 < τ) :
    (Real.log (multiplierDensity s (1 / f) / (f * τ)) + gb)
      - (Real.log (multiplierDensity s f / τ) + gf) = gb - gf := by
  rw [precision_multiplier_symmetric s f hs hf]
  have hg : 0 < multiplierDensity s f := by
    rw [multiplier_density_eq s f hs hf]
    have hlog : 0 < Real.log s := Real.log_pos hs
    have hlen : 0 < s - 1 / s := by
      have : 1 / s < 1 := by rw [div_lt_one (by linarith)]; exact hs
      linarith
    positivity
  have : f * multiplierDensity s f / (f * τ) = multiplierDensity s f / τ := by
    field_simp
  rw [this]; ring

end block

end TTProps.C15
