import TTModel.C07_Torch
/-! C07 — torch transforms: theorems (in progress) -/
namespace TTProps.C07Torch
end TTProps.C07Torch
