import TTProofs.Lemmas.C07_TorchCalc
import TTProofs.Lemmas.C07_Stick
/-!
# C07 — the torch transforms reachable from generated configurations

Theorems about `TTModel/C07_Torch.lean` (forward / inverse / `log_abs_det_jacobian` as
`torch/distributions/transforms.py` writes them; the Float run of the same definitions is compared
with torch itself by `harness/c07_torch.py`). Element-wise transforms report the log-Jacobian per
entry: `reported = Real.log |deriv forward x|`. Domains are stated explicitly: the clipping of the
sigmoid must be inactive (`lo < σ(x) < hi`, true for |x| < 36 with torch's constants) and
`F.softplus`'s linear shortcut must not be taken (`x < 20`, resp. `|x| ≤ 20`).
-/
namespace TTProps.C07Torch
open TT TT.C07 TT.C07.Torch

/-! ## ExpTransform -/

theorem exp_reported_eq_true (x : ℝ) :
    expLd x (expFwd x) = Real.log |deriv (fun t => expFwd t) x| := by
  have : deriv (fun t : ℝ => expFwd t) x = Real.exp x := (Real.hasDerivAt_exp x).deriv
  rw [this, abs_of_pos (Real.exp_pos x), Real.log_exp]; rfl

theorem exp_inv_fwd (x : ℝ) : expInv (expFwd x) = x := Real.log_exp x

/-- `ExpTransform().inv` (the log transform): reported `-y`, true `log|1/x|` -/
theorem exp_inv_reported_eq_true (x : ℝ) (hx : 0 < x) :
    invLd expLd x (expInv x) = Real.log |deriv (fun t => expInv t) x| := by
  have : deriv (fun t : ℝ => expInv t) x = x⁻¹ := (Real.hasDerivAt_log (ne_of_gt hx)).deriv
  rw [this, abs_of_pos (inv_pos.mpr hx), Real.log_inv]; rfl

/-! ## SigmoidTransform -/

theorem sigmoidFwd_eventually {lo hi x : ℝ} (h1 : lo < sigm x) (h2 : sigm x < hi) :
    ∀ᶠ t in nhds x, sigmoidFwd lo hi t = sigm t := by
  have hopen : IsOpen {t : ℝ | lo < sigm t ∧ sigm t < hi} :=
    (isOpen_lt continuous_const continuous_sigm).inter (isOpen_lt continuous_sigm continuous_const)
  filter_upwards [hopen.mem_nhds (show x ∈ {t : ℝ | lo < sigm t ∧ sigm t < hi} from ⟨h1, h2⟩)] with t ht
  unfold sigmoidFwd
  rw [sigmoid_eq_sigm, clamp_of_mem (le_of_lt ht.1) (le_of_lt ht.2)]

/-- **sigmoid_reported_eq_true**: `-softplus(-x) - softplus(x) = log |σ'(x)|` wherever the clipping is
inactive and `|x| ≤ 20` -/
theorem sigmoid_reported_eq_true {lo hi x : ℝ} (h1 : lo < sigm x) (h2 : sigm x < hi) (hx : |x| ≤ 20) :
    sigmoidLd x (sigmoidFwd lo hi x) = Real.log |deriv (fun t => sigmoidFwd lo hi t) x| := by
  have hd : HasDerivAt (fun t => sigmoidFwd lo hi t) (sigm x * (1 - sigm x)) x :=
    (hasDerivAt_sigm x).congr_of_eventuallyEq (sigmoidFwd_eventually h1 h2)
  have hpos : 0 < sigm x * (1 - sigm x) := mul_pos (sigm_pos x) (by linarith [sigm_lt_one x])
  rw [hd.deriv, abs_of_pos hpos, Real.log_mul (ne_of_gt (sigm_pos x)) (by linarith [sigm_lt_one x]),
    log_sigm, log_one_sub_sigm]
  obtain ⟨ha, hb⟩ := abs_le.mp hx
  unfold sigmoidLd
  rw [softplusT_of_le (by linarith : -x ≤ 20), softplusT_of_le hb]
  ring

theorem sigmoid_inv_fwd {lo hi x : ℝ} (h1 : lo ≤ sigm x) (h2 : sigm x ≤ hi) :
    sigmoidInv lo hi (sigmoidFwd lo hi x) = x := by
  unfold sigmoidInv sigmoidFwd
  rw [sigmoid_eq_sigm, clamp_of_mem h1 h2, clamp_of_mem h1 h2]
  simp only [trans_log_real]
  rw [← sub_eq_add_neg]
  exact logit_sigm x

/-! ## AffineTransform (event_dim 0) -/

theorem affine_reported_eq_true (loc scale x : ℝ) :
    affineLd scale x (affineFwd loc scale x) = Real.log |deriv (fun t => affineFwd loc scale t) x| := by
  have : deriv (fun t : ℝ => affineFwd loc scale t) x = scale := by
    have h := ((hasDerivAt_id x).const_mul scale).const_add loc
    simpa [affineFwd] using h.deriv
  rw [this]
  simp [affineLd, absS_real]

theorem affine_inv_fwd (loc scale x : ℝ) (hs : scale ≠ 0) :
    affineInv loc scale (affineFwd loc scale x) = x := by
  unfold affineInv affineFwd
  field_simp
  ring

/-- `AffineTransform(loc, scale).inv`: reported `-log|scale|`, true `log|1/scale|` -/
theorem affine_inv_reported_eq_true (loc scale y : ℝ) (hs : scale ≠ 0) :
    invLd (affineLd scale) y (affineInv loc scale y)
      = Real.log |deriv (fun t => affineInv loc scale t) y| := by
  have : deriv (fun t : ℝ => affineInv loc scale t) y = scale⁻¹ := by
    have h := ((hasDerivAt_id y).sub_const loc).div_const scale
    simpa [affineInv] using h.deriv
  rw [this, abs_inv, Real.log_inv]
  simp [invLd, affineLd, absS_real]

/-! ## SoftplusTransform -/

/-- **softplus_reported_eq_true** below the threshold of `F.softplus` -/
theorem softplus_reported_eq_true {x : ℝ} (h1 : x < 20) (h2 : -20 ≤ x) :
    softplusLdT x (softplusFwdT x) = Real.log |deriv (fun t => softplusFwdT t) x| := by
  have hev : ∀ᶠ t in nhds x, softplusFwdT t = softplus t := by
    filter_upwards [(isOpen_Iio (a := (20 : ℝ))).mem_nhds h1] with t ht
    exact softplusT_of_le (le_of_lt ht)
  have hd : HasDerivAt (fun t => softplusFwdT t) (sigm x) x :=
    (hasDerivAt_softplus x).congr_of_eventuallyEq hev
  rw [hd.deriv, abs_of_pos (sigm_pos x), log_sigm]
  unfold softplusLdT
  rw [softplusT_of_le (by linarith : -x ≤ 20)]

theorem softplus_inv_fwd {x : ℝ} (h1 : x ≤ 20) : softplusInvT (softplusFwdT x) = x := by
  unfold softplusInvT softplusFwdT
  rw [softplusT_of_le h1]
  simp only [trans_exp_real, trans_log_real]
  have hs : -(Real.exp (-softplus x) - 1) = sigm x := by
    rw [softplus_real, Real.exp_neg, Real.exp_log (one_add_exp_pos x)]
    unfold sigm
    have hne : 1 + Real.exp x ≠ 0 := ne_of_gt (one_add_exp_pos x)
    field_simp
    ring
  rw [hs]
  have := logit_sigm x
  rw [log_one_sub_sigm] at this
  linarith

/-! ## PowerTransform -/

theorem power_reported_eq_true {e x : ℝ} (hx : 0 < x) :
    powerLd e x (powerFwd e x) = Real.log |deriv (fun t => powerFwd e t) x| := by
  have hd : HasDerivAt (fun t : ℝ => powerFwd e t) (e * x ^ (e - 1)) x :=
    Real.hasDerivAt_rpow_const (Or.inl (ne_of_gt hx))
  rw [hd.deriv]
  unfold powerLd powerFwd
  simp only [trans_pow_real, trans_log_real, absS_real]
  rw [Real.rpow_sub_one (ne_of_gt hx), mul_div_assoc]

theorem power_inv_fwd {e x : ℝ} (hx : 0 < x) (he : e ≠ 0) : powerInv e (powerFwd e x) = x := by
  unfold powerInv powerFwd
  simp only [trans_pow_real, one_div]
  exact Real.rpow_rpow_inv (le_of_lt hx) he

/-! ## `_InverseTransform` (generic) -/

/-- **inv_wrapper_reported_eq_true**: for any element-wise transform `f` with reported log-Jacobian `ld`
that is correct at the pre-image `g y`, the wrapper `t.inv` reports `-ld(g y, y)`, which is the
log-derivative of the inverse map `g` at `y`. -/
theorem inv_wrapper_reported_eq_true (f g : ℝ → ℝ) (ld : ℝ → ℝ → ℝ) (y d : ℝ)
    (hf : HasDerivAt f d (g y)) (hd : d ≠ 0) (hrep : ld (g y) (f (g y)) = Real.log |d|)
    (hfg_at : f (g y) = y) (hg : ContinuousAt g y) (hfg : ∀ᶠ z in nhds y, f (g z) = z) :
    invLd ld y (g y) = Real.log |deriv g y| := by
  have h := inv_logderiv (f := f) (g := g) (x := g y) hf hd (by rw [hfg_at]; exact hg)
    (by rw [hfg_at]) (by rw [hfg_at]; exact hfg)
  rw [hfg_at] at h
  rw [h]
  unfold invLd
  rw [← hrep, hfg_at]

/-- the hypotheses are met, e.g., by `ExpTransform().inv` at every `y > 0` -/
example (y : ℝ) (hy : 0 < y) : invLd expLd y (Real.log y) = Real.log |deriv Real.log y| :=
  inv_wrapper_reported_eq_true Real.exp Real.log expLd y (Real.exp (Real.log y))
    (Real.hasDerivAt_exp _) (ne_of_gt (Real.exp_pos _))
    (by rw [abs_of_pos (Real.exp_pos _), Real.log_exp]; rfl)
    (Real.exp_log hy) (Real.continuousAt_log (ne_of_gt hy))
    (by filter_upwards [(isOpen_Ioi (a := (0 : ℝ))).mem_nhds hy] with z hz; exact Real.exp_log hz)

/-! ## ComposeTransform (element-wise parts) -/

/-- along the chain every part is differentiable with non-zero derivative and reports its true
log-derivative at the point it is evaluated at -/
def ChainOK : List (Torch.Part ℝ) → ℝ → Prop
  | [], _ => True
  | p :: ps, x =>
      (∃ d, HasDerivAt p.fwd d x ∧ d ≠ 0 ∧ p.ld x (p.fwd x) = Real.log |d|) ∧ ChainOK ps (p.fwd x)

theorem composeFwd_cons (p : Torch.Part ℝ) (ps : List (Torch.Part ℝ)) :
    composeFwd (p :: ps) = composeFwd ps ∘ p.fwd := by
  funext x; simp [composeFwd]

/-- **compose_reported_eq_true**: the sum of the parts' reported terms along the chain is the
log-derivative of the composed map -/
theorem compose_reported_eq_true (ps : List (Torch.Part ℝ)) (x : ℝ) (h : ChainOK ps x) :
    (∃ D, HasDerivAt (composeFwd ps) D x ∧ D ≠ 0 ∧ composeLd ps x = Real.log |D|) := by
  induction ps generalizing x with
  | nil =>
    refine ⟨1, ?_, one_ne_zero, by simp [composeLd]⟩
    have : composeFwd ([] : List (Torch.Part ℝ)) = id := by funext x; simp [composeFwd]
    rw [this]; exact hasDerivAt_id x
  | cons p ps ih =>
    obtain ⟨⟨d, hd, hne, hrep⟩, hrest⟩ := h
    obtain ⟨D, hD, hDne, hDrep⟩ := ih (p.fwd x) hrest
    refine ⟨D * d, ?_, mul_ne_zero hDne hne, ?_⟩
    · rw [composeFwd_cons]; exact hD.comp x hd
    · simp only [composeLd]
      rw [hrep, hDrep, abs_mul, Real.log_mul (abs_ne_zero.mpr hDne) (abs_ne_zero.mpr hne)]
      ring

theorem compose_reported_eq_deriv (ps : List (Torch.Part ℝ)) (x : ℝ) (h : ChainOK ps x) :
    composeLd ps x = Real.log |deriv (composeFwd ps) x| := by
  obtain ⟨D, hD, _, hrep⟩ := compose_reported_eq_true ps x h
  rw [hD.deriv, hrep]

/-- the chain the CLI builds for a lower bound `loc ≠ 0`: `AffineTransform(loc, 1.0)` after
`ExpTransform` satisfies `ChainOK` at every point -/
theorem cli_lower_bound_chain_ok (loc x : ℝ) :
    ChainOK [⟨expFwd, expLd⟩, ⟨affineFwd loc 1, affineLd 1⟩] x := by
  refine ⟨⟨Real.exp x, Real.hasDerivAt_exp x, ne_of_gt (Real.exp_pos x), ?_⟩,
    ⟨1, ?_, one_ne_zero, ?_⟩, trivial⟩
  · rw [abs_of_pos (Real.exp_pos x), Real.log_exp]; rfl
  · have h := ((hasDerivAt_id (expFwd x)).const_mul (1 : ℝ)).const_add loc
    have e : (fun t : ℝ => loc + 1 * id t) = affineFwd loc 1 := by funext t; simp [affineFwd]
    rw [e] at h
    simpa using h
  · simp [affineLd, absS_real]


/-! ## StickBreakingTransform -/
section stick
variable {lo hi : ℝ} {n : ℕ}

/-- the first `n` coordinates of the image (the free coordinates of the simplex) as a map `ℝⁿ → ℝⁿ` -/
noncomputable def stickMap (lo hi : ℝ) (n : ℕ) : (Fin n → ℝ) → Fin n → ℝ := lift (sbFwd lo hi n)

/-- **stick_reported_eq_true**: `(-u + logsigmoid(u) + log y[:-1]).sum(-1)`, `u = x − log(offset)`, is the
true `log|det J|` of the stick-breaking map wherever the sigmoid's clipping is inactive. The Jacobian is
lower triangular (`y_i` depends on `x_j`, `j ≤ i`) with diagonal `z_i (1 − z_i) Π_{j<i} (1 − z_j)`. -/
theorem stick_reported_eq_true (x : Fin n → ℝ) (h : Unclipped lo hi n (ext x)) :
    sbLd n (ext x) (sbFwd lo hi n (ext x)) = Real.log |(jac (stickMap lo hi n) x).det| := by
  have hlow : LowerDep (stickMap lo hi n) := by
    intro i j hij y t
    simp only [stickMap, lift, ext_update]
    exact sbFwd_dep (ext y) hij j.isLt t
  have hd : ∀ i : Fin n, HasDerivAt (fun t => stickMap lo hi n (Function.update x i t) i)
      (sigm (sbU n (ext x) i) * (1 - sigm (sbU n (ext x) i)) * sbC lo hi n (ext x) i) (x i) := by
    intro i
    have := sbFwd_diag h i.isLt
    simp only [stickMap, lift, ext_update]
    simpa using this
  have hz : ∀ i : Fin n, 0 < sigm (sbU n (ext x) i) ∧ 0 < 1 - sigm (sbU n (ext x) i) :=
    fun i => ⟨sigm_pos _, by linarith [sigm_lt_one (sbU n (ext x) i)]⟩
  have hpos : ∀ i : Fin n,
      0 < sigm (sbU n (ext x) i) * (1 - sigm (sbU n (ext x) i)) * sbC lo hi n (ext x) i :=
    fun i => mul_pos (mul_pos (hz i).1 (hz i).2) (sbC_pos h i.isLt)
  rw [tri_logdet_lower (stickMap lo hi n) hlow x _ hd (fun i => ne_of_gt (hpos i))]
  unfold sbLd
  rw [sumTo_eq]
  refine Finset.sum_congr rfl fun i _ => ?_
  have hC := sbC_pos h i.isLt
  rw [abs_of_pos (hpos i), Real.log_mul (ne_of_gt (mul_pos (hz i).1 (hz i).2)) (ne_of_gt hC),
    Real.log_mul (ne_of_gt (hz i).1) (ne_of_gt (hz i).2), log_one_sub_sigm']
  simp only [trans_log_real]
  rw [sbFwd_eq _ i.isLt, sbZ_unclipped h i.isLt, Real.log_mul (ne_of_gt (hz i).1) (ne_of_gt hC),
    logsigmoid_real]
  show -(sbU n (ext x) i) + Real.log (sigm (sbU n (ext x) i)) + _ = _
  ring

/-- **stick_inv_fwd**: torch's inverse (`log y − log clamp(1 − cumsum y) + log offset`) undoes the forward
map, coordinate by coordinate, wherever neither clipping is active -/
theorem stick_inv_fwd {tiny : ℝ} (X : Nat → ℝ) (h : Unclipped lo hi n X) {i : Nat} (hi' : i < n)
    (htiny : tiny ≤ cumprod1m (sbZ lo hi n X) i) :
    sbInv tiny n (sbFwd lo hi n X) i = X i := by
  unfold sbInv
  simp only [trans_log_real]
  rw [csum_sbFwd X i hi', sub_sub_cancel, clampMin_of_le htiny, cumprod1m_eq_sbC, sbFwd_eq X hi',
    sbZ_unclipped h hi']
  have hC := sbC_pos h hi'
  have hz1 := sigm_pos (sbU n X i)
  have hz2 : 0 < 1 - sigm (sbU n X i) := by linarith [sigm_lt_one (sbU n X i)]
  rw [Real.log_mul (ne_of_gt hz1) (ne_of_gt hC), Real.log_mul (ne_of_gt hC) (ne_of_gt hz2)]
  have := logit_sigm (sbU n X i)
  have hu : sbU n X i = X i - Real.log (nat (n - i) : ℝ) := rfl
  linarith

/-- the image is a point of the simplex: the `n+1` coordinates sum to one -/
theorem stick_sums_to_one (X : Nat → ℝ) (hn : 0 < n) :
    csum (sbFwd lo hi n X) (n - 1) + sbFwd lo hi n X n = 1 := by
  rw [csum_sbFwd X (n - 1) (by omega)]
  have : sbFwd lo hi n X n = cumprod1m (sbZ lo hi n X) (n - 1) := by
    unfold sbFwd
    rw [if_neg (lt_irrefl n), if_neg (by omega), one_mul]
  rw [this]; ring

/-- non-vacuity: with clipping bounds outside `[0,1]` every point is unclipped -/
example (X : Nat → ℝ) : Unclipped (-1) 2 3 X :=
  fun m _ => ⟨by linarith [sigm_pos (sbU 3 X m)], by linarith [sigm_lt_one (sbU 3 X m)]⟩

end stick

end TTProps.C07Torch
