/-! C09 property theorems — stub (not built yet). -/
namespace TTProps.C09
end TTProps.C09
