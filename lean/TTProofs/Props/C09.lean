import TTModel.C09_Options
import TTModel.C09_BDSK
import TTGen.C09_Options
import TTProofs.Lemmas.C09_Analytic
import TTProofs.Lemmas.C09_Semigroup
import TTProofs.Lemmas.C09_Discrete
import TTProofs.Lemmas.C09_Single
import TTProofs.Lemmas.C09_Refine
import TTProofs.Lemmas.C09_Unit
import TTProofs.Lemmas.C09_Const
import TTProofs.Lemmas.C09_SingleRem
/-!
# C09 — birth–death skyline density agrees across epochs and with the constant model; JSON options select
the behaviour they name

* `options_select_named` is about the table REGENERATED from the AST of `BDSKModel` / `BirthDeathModel`.
* the analytic theorems are about `TT.C09.logProb` and its parts (`TTModel/C09_BDSK.lean`), the model of
  `PiecewiseConstantBirthDeath.log_prob` tied to the code by the Float correspondence of `harness/c09.py`.
* NOT proved: agreement with numerical integration of the master equations (an ODE statement; explored with RK4 in
  the harness only).
-/
namespace TTProps.C09
open TT TT.C09 TTGen.C09_Options

theorem translator_recognised : translatorOk = true := by decide

/-- **options_select_named**: every constructor argument `from_json` fills is read from the JSON key of its own
name (guarded, if at all, by that same key), in the form the constructor expects; every attribute `_call`
reads is one the class defines; no change handler is overridden by `pass`. -/
theorem options_select_named : ∀ c ∈ classes, c.ok = true := by decide

/-! ## single epoch = constant-rate birth–death-sampling density -/

/-- density of the oriented sampled tree given the age `T` of the origin, in the symbols of Stadler (2010,
J. Theor. Biol. 267, Thm 3.5: `c1`, `c2`, `q`, `p0`, backward time): internal node ages `ints`, ages of the tips
sampled through time `serial` (each contributes `psi q(y)`: sampled lineages are removed), `N` tips sampled at
the present with probability `rho`; optionally conditioned on sampling at least one individual. Written
independently of `bdsk.py`. -/
noncomputable def constDensity (lam mu psi rho T : ℝ) (ints serial : List ℝ) (N : ℕ) (surv : Bool) : ℝ :=
  lam ^ ints.length * psi ^ serial.length * (4 * rho) ^ N
    * ((T :: ints).map fun x => 1 / q10 (c1 lam mu psi) (c2 lam mu psi rho) x).prod
    * (serial.map (q10 (c1 lam mu psi) (c2 lam mu psi rho))).prod
    / (if surv then 1 - p10 lam mu psi (c1 lam mu psi) (c2 lam mu psi rho) T else 1)

/-- **single_epoch_eq_constant**: with one epoch `[0, T)` the skyline log density of ANY tree (any number of tips,
ages `tips` in `[0, T)`, internal ages `ints` in `(0, T)`, serial and/or contemporaneous, `rho ≥ 0`, with or
without survival conditioning) is the logarithm of the constant-rate density; a tip of age 0 counts as
`rho`-sampled exactly when `rho > 0`. -/
theorem single_epoch_eq_constant (r : Rates ℝ) (t : Nat → ℝ) (T : ℝ) (h0 : t 0 = 0) (h1 : t 1 = T)
    (surv : Bool) (tips ints : List ℝ) (hT : 0 < T)
    (hints : ∀ h ∈ ints, 0 < h ∧ h < T) (htips : ∀ h ∈ tips, 0 ≤ h ∧ h < T)
    (hlam : 0 < r.lam 0) (hpsi : 0 < r.psi 0) (hrho : 0 ≤ r.rho 0)
    (hn : ints.length + 1 = tips.length)
    (hZ : surv = true → p10 (r.lam 0) (r.mu 0) (r.psi 0) (c1 (r.lam 0) (r.mu 0) (r.psi 0))
      (c2 (r.lam 0) (r.mu 0) (r.psi 0) (r.rho 0)) T < 1) :
    logProb r none t 1 surv tips ints =
      Real.log (constDensity (r.lam 0) (r.mu 0) (r.psi 0) (r.rho 0) T ints
        (tips.filter fun h => ¬ (h = 0 ∧ 0 < r.rho 0))
        (tips.filter fun h => h = 0 ∧ 0 < r.rho 0).length surv) := by
  rw [logProb_single r t T h0 h1 surv tips ints hT hints htips]
  unfold constDensity
  rw [← Acoef_eq_c1, ← Bcoef_eq_c2] at hZ ⊢
  set A := Acoef r 0 with hAdef
  set B := Bcoef r 0 1 with hBdef
  set serial := tips.filter fun h => ¬ (h = 0 ∧ 0 < r.rho 0) with hserial
  set N := (tips.filter fun h => h = 0 ∧ 0 < r.rho 0).length with hN
  have hA : 0 < A := Acoef_pos r 0 (mul_pos hlam hpsi)
  have hB : -1 ≤ B := Bcoef_ge_neg_one r 0 1 (mul_pos hlam hpsi) hlam.le zero_le_one le_rfl hrho
  have hD : ∀ a : ℝ, 0 ≤ a → Real.exp (A * a) * (1 + B) + (1 - B) ≠ 0 := by
    intro a ha
    have := denom_ge_two A B a hB (mul_nonneg hA.le ha)
    linarith
  have hq : ∀ a : ℝ, 0 ≤ a → 0 < q10 A B a := fun a ha => q10_pos A B a (hD a ha)
  have hlq : ∀ a : ℝ, 0 ≤ a → Real.log (qv A B a) = Real.log 4 - Real.log (q10 A B a) := by
    intro a ha
    rw [qv_eq_four_div_q10, Real.log_div (by norm_num) (hq a ha).ne']
  have hp : pStep r 0 T 1 = p10 (r.lam 0) (r.mu 0) (r.psi 0) A B T := by
    rw [pStep_eq_pClosed, pClosed_eq_p10 _ _ _ _ _ _ (hD T hT.le)]
  have hserial_mem : ∀ h ∈ serial, 0 ≤ h := fun h hm => (htips h (List.mem_of_mem_filter hm)).1
  -- the model side, term by term
  have e1 : (ints.map fun h => Real.log (r.lam 0) + Real.log (qv A B h)).sum
      = ints.length * (Real.log (r.lam 0) + Real.log 4) - (ints.map fun h => Real.log (q10 A B h)).sum := by
    have : (ints.map fun h => Real.log (r.lam 0) + Real.log (qv A B h))
        = ints.map fun h => (Real.log (r.lam 0) + Real.log 4) - Real.log (q10 A B h) := by
      apply List.map_congr_left
      intro h hm
      rw [hlq h (hints h hm).1.le]; ring
    rw [this, sum_map_const_sub]
  have e2 : (tips.map fun h => if h = 0 ∧ 0 < r.rho 0 then 0 else Real.log (r.psi 0) - Real.log (qv A B h)).sum
      = serial.length * (Real.log (r.psi 0) - Real.log 4) + (serial.map fun h => Real.log (q10 A B h)).sum := by
    rw [sum_ite_filter tips (fun h => h = 0 ∧ 0 < r.rho 0)]
    have : (serial.map fun h => Real.log (r.psi 0) - Real.log (qv A B h))
        = serial.map fun h => (Real.log (r.psi 0) - Real.log 4) + Real.log (q10 A B h) := by
      apply List.map_congr_left
      intro h hm
      rw [hlq h (hserial_mem h hm)]; ring
    rw [← hserial, this, sum_map_const_add]
  have hcount : (serial.length : ℝ) + N = ints.length + 1 := by
    have := length_filter_split tips (fun h => h = 0 ∧ 0 < r.rho 0)
    rw [← hserial, ← hN] at this
    have h2 : serial.length + N = ints.length + 1 := by omega
    exact_mod_cast h2
  -- the spec side
  have hl1 : ∀ x ∈ (T :: ints), (fun x => 1 / q10 A B x) x ≠ 0 := by
    intro x hx
    have hx0 : 0 ≤ x := by
      rcases List.mem_cons.mp hx with e | e
      · rw [e]; exact hT.le
      · exact (hints x e).1.le
    exact one_div_ne_zero (hq x hx0).ne'
  have hl2 : ∀ y ∈ serial, q10 A B y ≠ 0 := fun y hy => (hq y (hserial_mem y hy)).ne'
  have hP1 : Real.log ((T :: ints).map fun x => 1 / q10 A B x).prod
      = -Real.log (q10 A B T) - (ints.map fun h => Real.log (q10 A B h)).sum := by
    rw [log_prod_map _ _ hl1]
    simp only [List.map_cons, List.sum_cons, one_div, Real.log_inv]
    have : (ints.map fun a => -Real.log (q10 A B a)).sum = -(ints.map fun a => Real.log (q10 A B a)).sum := by
      have := sum_map_const_sub ints 0 (fun a => Real.log (q10 A B a))
      simpa using this
    rw [this]; ring
  have hP2 : Real.log (serial.map (q10 A B)).prod = (serial.map fun h => Real.log (q10 A B h)).sum :=
    log_prod_map _ _ hl2
  have hP1ne : ((T :: ints).map fun x => 1 / q10 A B x).prod ≠ 0 := by
    apply List.prod_ne_zero
    simp only [List.mem_map, not_exists, not_and]
    intro x hx e; exact hl1 x hx e
  have hP2ne : (serial.map (q10 A B)).prod ≠ 0 := by
    apply List.prod_ne_zero
    simp only [List.mem_map, not_exists, not_and]
    intro x hx e; exact hl2 x hx e
  have hlamk : (r.lam 0) ^ ints.length ≠ 0 := pow_ne_zero _ hlam.ne'
  have hpsiS : (r.psi 0) ^ serial.length ≠ 0 := pow_ne_zero _ hpsi.ne'
  -- rho-dependent part
  have hrhoPart : ((4 * r.rho 0) ^ N ≠ 0) ∧
      Real.log ((4 * r.rho 0) ^ N) + 0 = N * Real.log 4 +
        ((tips.filter (· = 0)).length : ℝ)
          * Real.log (if 0 < (tips.filter (· = 0)).length ∧ 0 < r.rho 0 then r.rho 0 else 1) := by
    by_cases hr : 0 < r.rho 0
    · have hNeq : N = (tips.filter (· = 0)).length := by
        rw [hN]; congr 1; apply List.filter_congr; intro h _; simp [hr]
      refine ⟨pow_ne_zero _ (mul_ne_zero (by norm_num) hr.ne'), ?_⟩
      rw [Real.log_pow, Real.log_mul (by norm_num) hr.ne', ← hNeq]
      by_cases hN0 : 0 < N
      · simp [hN0, hr]; ring
      · have : N = 0 := by omega
        simp [this]
    · have hN0 : N = 0 := by
        rw [hN]; simp [hr]
      refine ⟨by rw [hN0]; simp, ?_⟩
      simp [hN0, hr]
  obtain ⟨hrhone, hrholog⟩ := hrhoPart
  have hnum : (r.lam 0) ^ ints.length * (r.psi 0) ^ serial.length * (4 * r.rho 0) ^ N
      * ((T :: ints).map fun x => 1 / q10 A B x).prod * (serial.map (q10 A B)).prod ≠ 0 :=
    mul_ne_zero (mul_ne_zero (mul_ne_zero (mul_ne_zero hlamk hpsiS) hrhone) hP1ne) hP2ne
  have hlognum : Real.log ((r.lam 0) ^ ints.length * (r.psi 0) ^ serial.length * (4 * r.rho 0) ^ N
      * ((T :: ints).map fun x => 1 / q10 A B x).prod * (serial.map (q10 A B)).prod)
      = ints.length * Real.log (r.lam 0) + serial.length * Real.log (r.psi 0) + Real.log ((4 * r.rho 0) ^ N)
        + (-Real.log (q10 A B T) - (ints.map fun h => Real.log (q10 A B h)).sum)
        + (serial.map fun h => Real.log (q10 A B h)).sum := by
    rw [Real.log_mul (mul_ne_zero (mul_ne_zero (mul_ne_zero hlamk hpsiS) hrhone) hP1ne) hP2ne,
      Real.log_mul (mul_ne_zero (mul_ne_zero hlamk hpsiS) hrhone) hP1ne,
      Real.log_mul (mul_ne_zero hlamk hpsiS) hrhone, Real.log_mul hlamk hpsiS, Real.log_pow, Real.log_pow, hP1, hP2]
  have h4 : (serial.length : ℝ) * Real.log 4 + N * Real.log 4 = ints.length * Real.log 4 + Real.log 4 := by
    rw [← add_mul, hcount]; ring
  rw [hp, hlq T hT.le, e1, e2]
  cases surv with
  | false =>
      simp only [Bool.false_eq_true, ↓reduceIte, div_one, sub_zero]
      rw [hlognum]
      linarith [hrholog, h4]
  | true =>
      have hZ' := hZ rfl
      have hZne : (1 - p10 (r.lam 0) (r.mu 0) (r.psi 0) A B T) ≠ 0 := by linarith
      simp only [↓reduceIte]
      rw [Real.log_div hnum hZne, hlognum]
      linarith [hrholog, h4]

/-- the same density when a sampled individual is removed only with probability `r` (otherwise it stays and must leave
no further sampled descendant: factor `r + (1 - r) p0(y)` per `psi`-sampled tip; at the present `p0 = 1`), for the
LABELLED tree (`2^(n-1)` orientations), as `PiecewiseConstantBirthDeath` returns it with a removal probability -/
noncomputable def constDensityRemoval (lam mu psi rho r T : ℝ) (ints serial : List ℝ) (N : ℕ) (surv : Bool) : ℝ :=
  2 ^ ints.length * (lam ^ ints.length * psi ^ serial.length * (4 * rho) ^ N
    * ((T :: ints).map fun x => 1 / q10 (c1 lam mu psi) (c2 lam mu psi rho) x).prod
    * (serial.map fun y => (r + (1 - r) * p10 lam mu psi (c1 lam mu psi) (c2 lam mu psi rho) y)
        * q10 (c1 lam mu psi) (c2 lam mu psi rho) y).prod)
    / (if surv then 1 - p10 lam mu psi (c1 lam mu psi) (c2 lam mu psi rho) T else 1)

/-- **single_epoch_eq_constant_removal**: the single-epoch skyline with a removal probability `r` (any value, `r ≠ 1`
included) is the logarithm of that density; `hstay`: the factor of every `psi`-sampled tip is positive (true as soon as
`r > 0` or `p0 > 0`) -/
theorem single_epoch_eq_constant_removal (r : Rates ℝ) (rr : Nat → ℝ) (t : Nat → ℝ) (T : ℝ) (h0 : t 0 = 0) (h1 : t 1 = T)
    (surv : Bool) (tips ints : List ℝ) (hT : 0 < T)
    (hints : ∀ h ∈ ints, 0 < h ∧ h < T) (htips : ∀ h ∈ tips, 0 ≤ h ∧ h < T)
    (hlam : 0 < r.lam 0) (hpsi : 0 < r.psi 0) (hrho : 0 ≤ r.rho 0)
    (hn : ints.length + 1 = tips.length)
    (hZ : surv = true → p10 (r.lam 0) (r.mu 0) (r.psi 0) (c1 (r.lam 0) (r.mu 0) (r.psi 0))
      (c2 (r.lam 0) (r.mu 0) (r.psi 0) (r.rho 0)) T < 1)
    (hstay : ∀ y ∈ tips.filter (fun h => ¬ (h = 0 ∧ 0 < r.rho 0)),
      0 < rr 0 + (1 - rr 0) * p10 (r.lam 0) (r.mu 0) (r.psi 0) (c1 (r.lam 0) (r.mu 0) (r.psi 0))
        (c2 (r.lam 0) (r.mu 0) (r.psi 0) (r.rho 0)) y) :
    logProb r (some rr) t 1 surv tips ints =
      Real.log (constDensityRemoval (r.lam 0) (r.mu 0) (r.psi 0) (r.rho 0) (rr 0) T ints
        (tips.filter fun h => ¬ (h = 0 ∧ 0 < r.rho 0))
        (tips.filter fun h => h = 0 ∧ 0 < r.rho 0).length surv) := by
  rw [logProb_single_rem r rr t T h0 h1 surv tips ints hT hints htips]
  unfold constDensityRemoval
  rw [← Acoef_eq_c1, ← Bcoef_eq_c2] at hZ hstay ⊢
  set A := Acoef r 0 with hAdef
  set B := Bcoef r 0 1 with hBdef
  set serial := tips.filter fun h => ¬ (h = 0 ∧ 0 < r.rho 0) with hserial
  set N := (tips.filter fun h => h = 0 ∧ 0 < r.rho 0).length with hN
  have hA : 0 < A := Acoef_pos r 0 (mul_pos hlam hpsi)
  have hB : -1 ≤ B := Bcoef_ge_neg_one r 0 1 (mul_pos hlam hpsi) hlam.le zero_le_one le_rfl hrho
  have hD : ∀ a : ℝ, 0 ≤ a → Real.exp (A * a) * (1 + B) + (1 - B) ≠ 0 := by
    intro a ha
    have := denom_ge_two A B a hB (mul_nonneg hA.le ha)
    linarith
  have hq : ∀ a : ℝ, 0 ≤ a → 0 < q10 A B a := fun a ha => q10_pos A B a (hD a ha)
  have hlq : ∀ a : ℝ, 0 ≤ a → Real.log (qv A B a) = Real.log 4 - Real.log (q10 A B a) := by
    intro a ha
    rw [qv_eq_four_div_q10, Real.log_div (by norm_num) (hq a ha).ne']
  have hp : pStep r 0 T 1 = p10 (r.lam 0) (r.mu 0) (r.psi 0) A B T := by
    rw [pStep_eq_pClosed, pClosed_eq_p10 _ _ _ _ _ _ (hD T hT.le)]
  have hserial_mem : ∀ h ∈ serial, 0 ≤ h := fun h hm => (htips h (List.mem_of_mem_filter hm)).1
  -- the model side, term by term
  have e1 : (ints.map fun h => Real.log (r.lam 0) + Real.log (qv A B h)).sum
      = ints.length * (Real.log (r.lam 0) + Real.log 4) - (ints.map fun h => Real.log (q10 A B h)).sum := by
    have : (ints.map fun h => Real.log (r.lam 0) + Real.log (qv A B h))
        = ints.map fun h => (Real.log (r.lam 0) + Real.log 4) - Real.log (q10 A B h) := by
      apply List.map_congr_left
      intro h hm
      rw [hlq h (hints h hm).1.le]; ring
    rw [this, sum_map_const_sub]
  have e2 : (tips.map fun h => if h = 0 ∧ 0 < r.rho 0 then 0
        else Real.log (r.psi 0 * (rr 0 + (1 - rr 0) * pClosed (r.lam 0) (r.mu 0) (r.psi 0) A B h)) - Real.log (qv A B h)).sum
      = serial.length * (Real.log (r.psi 0) - Real.log 4)
        + (serial.map fun h => Real.log ((rr 0 + (1 - rr 0) * p10 (r.lam 0) (r.mu 0) (r.psi 0) A B h) * q10 A B h)).sum := by
    rw [sum_ite_filter tips (fun h => h = 0 ∧ 0 < r.rho 0)]
    have : (serial.map fun h => Real.log (r.psi 0 * (rr 0 + (1 - rr 0) * pClosed (r.lam 0) (r.mu 0) (r.psi 0) A B h))
          - Real.log (qv A B h))
        = serial.map fun h => (Real.log (r.psi 0) - Real.log 4)
          + Real.log ((rr 0 + (1 - rr 0) * p10 (r.lam 0) (r.mu 0) (r.psi 0) A B h) * q10 A B h) := by
      apply List.map_congr_left
      intro h hm
      have hh := hserial_mem h hm
      rw [hlq h hh, pClosed_eq_p10 _ _ _ _ _ _ (hD h hh), Real.log_mul hpsi.ne' (hstay h hm).ne',
        Real.log_mul (hstay h hm).ne' (hq h hh).ne']
      ring
    rw [← hserial, this, sum_map_const_add]
  have hcount : (serial.length : ℝ) + N = ints.length + 1 := by
    have := length_filter_split tips (fun h => h = 0 ∧ 0 < r.rho 0)
    rw [← hserial, ← hN] at this
    have h2 : serial.length + N = ints.length + 1 := by omega
    exact_mod_cast h2
  -- the spec side
  have hl1 : ∀ x ∈ (T :: ints), (fun x => 1 / q10 A B x) x ≠ 0 := by
    intro x hx
    have hx0 : 0 ≤ x := by
      rcases List.mem_cons.mp hx with e | e
      · rw [e]; exact hT.le
      · exact (hints x e).1.le
    exact one_div_ne_zero (hq x hx0).ne'
  have hl2 : ∀ y ∈ serial, (fun y => (rr 0 + (1 - rr 0) * p10 (r.lam 0) (r.mu 0) (r.psi 0) A B y) * q10 A B y) y ≠ 0 :=
    fun y hy => mul_ne_zero (hstay y hy).ne' (hq y (hserial_mem y hy)).ne'
  have hP1 : Real.log ((T :: ints).map fun x => 1 / q10 A B x).prod
      = -Real.log (q10 A B T) - (ints.map fun h => Real.log (q10 A B h)).sum := by
    rw [log_prod_map _ _ hl1]
    simp only [List.map_cons, List.sum_cons, one_div, Real.log_inv]
    have : (ints.map fun a => -Real.log (q10 A B a)).sum = -(ints.map fun a => Real.log (q10 A B a)).sum := by
      have := sum_map_const_sub ints 0 (fun a => Real.log (q10 A B a))
      simpa using this
    rw [this]; ring
  have hP2 : Real.log (serial.map fun y => (rr 0 + (1 - rr 0) * p10 (r.lam 0) (r.mu 0) (r.psi 0) A B y) * q10 A B y).prod
      = (serial.map fun h => Real.log ((rr 0 + (1 - rr 0) * p10 (r.lam 0) (r.mu 0) (r.psi 0) A B h) * q10 A B h)).sum :=
    log_prod_map _ _ hl2
  have hP1ne : ((T :: ints).map fun x => 1 / q10 A B x).prod ≠ 0 := by
    apply List.prod_ne_zero
    simp only [List.mem_map, not_exists, not_and]
    intro x hx e; exact hl1 x hx e
  have hP2ne : (serial.map fun y => (rr 0 + (1 - rr 0) * p10 (r.lam 0) (r.mu 0) (r.psi 0) A B y) * q10 A B y).prod ≠ 0 := by
    apply List.prod_ne_zero
    simp only [List.mem_map, not_exists, not_and]
    intro x hx e; exact hl2 x hx e
  have hlamk : (r.lam 0) ^ ints.length ≠ 0 := pow_ne_zero _ hlam.ne'
  have hpsiS : (r.psi 0) ^ serial.length ≠ 0 := pow_ne_zero _ hpsi.ne'
  -- rho-dependent part
  have hrhoPart : ((4 * r.rho 0) ^ N ≠ 0) ∧
      Real.log ((4 * r.rho 0) ^ N) + 0 = N * Real.log 4 +
        ((tips.filter (· = 0)).length : ℝ)
          * Real.log (if 0 < (tips.filter (· = 0)).length ∧ 0 < r.rho 0 then r.rho 0 else 1) := by
    by_cases hr : 0 < r.rho 0
    · have hNeq : N = (tips.filter (· = 0)).length := by
        rw [hN]; congr 1; apply List.filter_congr; intro h _; simp [hr]
      refine ⟨pow_ne_zero _ (mul_ne_zero (by norm_num) hr.ne'), ?_⟩
      rw [Real.log_pow, Real.log_mul (by norm_num) hr.ne', ← hNeq]
      by_cases hN0 : 0 < N
      · simp [hN0, hr]; ring
      · have : N = 0 := by omega
        simp [this]
    · have hN0 : N = 0 := by
        rw [hN]; simp [hr]
      refine ⟨by rw [hN0]; simp, ?_⟩
      simp [hN0, hr]
  obtain ⟨hrhone, hrholog⟩ := hrhoPart
  have h2k : (2:ℝ) ^ ints.length ≠ 0 := pow_ne_zero _ (by norm_num)
  have hnum0 : (r.lam 0) ^ ints.length * (r.psi 0) ^ serial.length * (4 * r.rho 0) ^ N
      * ((T :: ints).map fun x => 1 / q10 A B x).prod * (serial.map fun y => (rr 0 + (1 - rr 0) * p10 (r.lam 0) (r.mu 0) (r.psi 0) A B y) * q10 A B y).prod ≠ 0 :=
    mul_ne_zero (mul_ne_zero (mul_ne_zero (mul_ne_zero hlamk hpsiS) hrhone) hP1ne) hP2ne
  have hnum : (2:ℝ) ^ ints.length * ((r.lam 0) ^ ints.length * (r.psi 0) ^ serial.length * (4 * r.rho 0) ^ N
      * ((T :: ints).map fun x => 1 / q10 A B x).prod * (serial.map fun y => (rr 0 + (1 - rr 0) * p10 (r.lam 0) (r.mu 0) (r.psi 0) A B y) * q10 A B y).prod) ≠ 0 := mul_ne_zero h2k hnum0
  have hlognum : Real.log ((2:ℝ) ^ ints.length * ((r.lam 0) ^ ints.length * (r.psi 0) ^ serial.length * (4 * r.rho 0) ^ N
      * ((T :: ints).map fun x => 1 / q10 A B x).prod * (serial.map fun y => (rr 0 + (1 - rr 0) * p10 (r.lam 0) (r.mu 0) (r.psi 0) A B y) * q10 A B y).prod))
      = ints.length * Real.log 2 + (ints.length * Real.log (r.lam 0) + serial.length * Real.log (r.psi 0) + Real.log ((4 * r.rho 0) ^ N)
        + (-Real.log (q10 A B T) - (ints.map fun h => Real.log (q10 A B h)).sum)
        + (serial.map fun h => Real.log ((rr 0 + (1 - rr 0) * p10 (r.lam 0) (r.mu 0) (r.psi 0) A B h) * q10 A B h)).sum) := by
    rw [Real.log_mul h2k hnum0, Real.log_pow, Real.log_mul (mul_ne_zero (mul_ne_zero (mul_ne_zero hlamk hpsiS) hrhone) hP1ne) hP2ne,
      Real.log_mul (mul_ne_zero (mul_ne_zero hlamk hpsiS) hrhone) hP1ne,
      Real.log_mul (mul_ne_zero hlamk hpsiS) hrhone, Real.log_mul hlamk hpsiS, Real.log_pow, Real.log_pow, hP1, hP2]
  have h4 : (serial.length : ℝ) * Real.log 4 + N * Real.log 4 = ints.length * Real.log 4 + Real.log 4 := by
    rw [← add_mul, hcount]; ring
  have hlen : ((tips.length - 1 : ℕ) : ℝ) = ints.length := by
    have : tips.length - 1 = ints.length := by omega
    rw [this]
  rw [hp, hlq T hT.le, e1, e2, hlen]
  cases surv with
  | false =>
      simp only [Bool.false_eq_true, ↓reduceIte, div_one, sub_zero]
      rw [hlognum]
      linarith [hrholog, h4]
  | true =>
      have hZ' := hZ rfl
      have hZne : (1 - p10 (r.lam 0) (r.mu 0) (r.psi 0) A B T) ≠ 0 := by linarith
      simp only [↓reduceIte]
      rw [Real.log_div hnum hZne, hlognum]
      linarith [hrholog, h4]

/-- non-vacuity (survival off): two tips, one at the present, one of age 1/2, root age 1, origin 2 -/
example : ∃ (r : Rates ℝ) (t : Nat → ℝ), t 0 = 0 ∧ t 1 = 2 ∧ (∀ h ∈ [(1:ℝ)], 0 < h ∧ h < 2) ∧
    (∀ h ∈ [(0:ℝ), 1/2], 0 ≤ h ∧ h < 2) ∧ 0 < r.lam 0 ∧ 0 < r.psi 0 ∧ 0 ≤ r.rho 0 ∧
    [(1:ℝ)].length + 1 = [(0:ℝ), 1/2].length := by
  refine ⟨⟨fun _ => 2, fun _ => 1, fun _ => 1/2, fun _ => 1/4⟩, fun k => if k = 0 then 0 else 2, ?_, ?_, ?_, ?_,
    ?_, ?_, ?_, rfl⟩ <;> norm_num

/-! ## the constant-rate class `BirthDeath` -/

/-- **constant_model_eq_single_epoch**: `BirthDeath.log_prob` (model `logProbConst`; as repaired, a tip at the present is
`rho`-sampled iff `rho > 0`) equals the single-epoch skyline `PiecewiseConstantBirthDeath.log_prob` for every input of the
domain: any tips in `[0, T)`, internal ages in `(0, T)`, any rates, survival on/off — no positivity needed, the two
expressions coincide term by term. -/
theorem constant_model_eq_single_epoch (r : Rates ℝ) (t : Nat → ℝ) (T : ℝ) (h0 : t 0 = 0) (h1 : t 1 = T)
    (surv : Bool) (tips ints : List ℝ) (hT : 0 < T)
    (hints : ∀ h ∈ ints, 0 < h ∧ h < T) (htips : ∀ h ∈ tips, 0 ≤ h ∧ h < T) :
    logProbConst (r.lam 0) (r.mu 0) (r.psi 0) (r.rho 0) T surv tips ints = logProb r none t 1 surv tips ints :=
  logProbConst_eq_single r t T h0 h1 surv tips ints hT hints htips

/-- … hence the constant model is the logarithm of the independently written constant-rate density -/
theorem constant_model_eq_constDensity (lam mu psi rho T : ℝ) (surv : Bool) (tips ints : List ℝ) (hT : 0 < T)
    (hints : ∀ h ∈ ints, 0 < h ∧ h < T) (htips : ∀ h ∈ tips, 0 ≤ h ∧ h < T)
    (hlam : 0 < lam) (hpsi : 0 < psi) (hrho : 0 ≤ rho) (hn : ints.length + 1 = tips.length)
    (hZ : surv = true → p10 lam mu psi (c1 lam mu psi) (c2 lam mu psi rho) T < 1) :
    logProbConst lam mu psi rho T surv tips ints =
      Real.log (constDensity lam mu psi rho T ints (tips.filter fun h => ¬ (h = 0 ∧ 0 < rho))
        (tips.filter fun h => h = 0 ∧ 0 < rho).length surv) := by
  have h := constant_model_eq_single_epoch ⟨fun _ => lam, fun _ => mu, fun _ => psi, fun _ => rho⟩
    (fun k => if k = 0 then 0 else T) T (by simp) (by simp) surv tips ints hT hints htips
  rw [h]
  exact single_epoch_eq_constant ⟨fun _ => lam, fun _ => mu, fun _ => psi, fun _ => rho⟩
    (fun k => if k = 0 then 0 else T) T (by simp) (by simp) surv tips ints hT hints htips hlam hpsi hrho hn hZ

/-! ## identical rates across a boundary without sampling: `p` continues, `q` composes -/

/-- **p_semigroup**: if epochs `i` and `i+1` carry the same rates and there is no sampling event at the boundary
between them (`rho i = 0`), two steps of the backward recursion (lengths `d2` then `d1`) give what one step over the
merged epoch of length `d1 + d2` gives. -/
theorem p_semigroup (r : Rates ℝ) (i : Nat) (d1 d2 pn : ℝ)
    (hl : r.lam i = r.lam (i + 1)) (hm : r.mu i = r.mu (i + 1)) (hp : r.psi i = r.psi (i + 1))
    (hrho : r.rho i = 0) (hlam : 0 < r.lam (i + 1)) (hpsi : 0 < r.psi (i + 1))
    (hpn0 : 0 ≤ pn) (hpn1 : pn ≤ 1) (hrho1 : 0 ≤ r.rho (i + 1)) (hd1 : 0 ≤ d1) (hd2 : 0 ≤ d2) :
    pStep r i d1 (pStep r (i + 1) d2 pn) = pStep r (i + 1) (d1 + d2) pn :=
  p_semigroup_model r i d1 d2 pn hl hm hp hrho hlam hpsi hpn0 hpn1 hrho1 hd1 hd2

/-- **q_semigroup**: under the same hypotheses the branch factor over the merged epoch is the product of the
factor in the older sub-epoch (from `x` to the cut `tmid`) and the factor of a lineage crossing the cut
(`tmid` to `tend`) — the term `n_i log q_{i+1}(t_i)` of the code. -/
theorem q_semigroup (r : Rates ℝ) (i : Nat) (x tmid tend pn : ℝ)
    (hl : r.lam i = r.lam (i + 1)) (hm : r.mu i = r.mu (i + 1)) (hp : r.psi i = r.psi (i + 1))
    (hrho : r.rho i = 0) (hlam : 0 < r.lam (i + 1)) (hpsi : 0 < r.psi (i + 1))
    (hpn0 : 0 ≤ pn) (hpn1 : pn ≤ 1) (hrho1 : 0 ≤ r.rho (i + 1)) (hx : x ≤ tmid) (hmid : tmid ≤ tend) :
    logq (Acoef r i) (Bcoef r i (pStep r (i + 1) (tend - tmid) pn)) x tmid
      + logq (Acoef r (i + 1)) (Bcoef r (i + 1) pn) tmid tend
      = logq (Acoef r (i + 1)) (Bcoef r (i + 1) pn) x tend :=
  q_semigroup_model r i x tmid tend pn hl hm hp hrho hlam hpsi hpn0 hpn1 hrho1 hx hmid

/-! ## refining the epoch grid: indices and boundary counts -/

/-- **epoch_index_refines**: inserting a boundary `s` anywhere into the list of epoch times raises the
`searchsorted(right=True)` count of a node time `x` by one exactly when `s ≤ x`, and the `right=False` count of a
tip time `y` exactly when `s < y`: an event keeps its epoch if it lies before the cut, moves to the next index
if it lies after it, and every later epoch index shifts by one. -/
theorem epoch_index_refines (L1 L2 : List ℝ) (s x : ℝ) :
    countLE (ofList (L1 ++ s :: L2)) (L1 ++ s :: L2).length x
      = countLE (ofList (L1 ++ L2)) (L1 ++ L2).length x + (if s ≤ x then 1 else 0)
    ∧ countLT (ofList (L1 ++ s :: L2)) (L1 ++ s :: L2).length x
      = countLT (ofList (L1 ++ L2)) (L1 ++ L2).length x + (if s < x then 1 else 0) := by
  rw [countLE_ofList, countLE_ofList, countLT_ofList, countLT_ofList]
  simp only [List.filter_append, List.filter_cons, List.length_append]
  constructor
  · by_cases h : s ≤ x <;> simp [h] <;> omega
  · by_cases h : s < x <;> simp [h] <;> omega

example : countLE (ofList ([0, 1] ++ (3/2 : ℝ) :: [2])) 4 (7/4) = countLE (ofList ([0, 1] ++ [2])) 3 (7/4) + 1 := by
  have := (epoch_index_refines [0, 1] [2] (3/2) (7/4)).1
  rw [if_pos (by norm_num)] at this
  simpa using this

/-- **boundary_count**: for every binary tree whose node times increase from the origin (time `p`) to the tips,
and every boundary `τ` after the origin, the number `n = #{internal < τ} - #{tips ≤ τ} + 1` used by the code is the
number of branches that are alive at `τ` and not sampled at `τ`. -/
theorem boundary_count (T : TTree ℝ) (p τ : ℝ) (hinc : Increasing p T) (hp : p < τ) (t : Nat → ℝ) (i : Nat)
    (hτ : t i = τ) :
    nCross t i T.internalTimes T.tipTimes = (crossing τ p T : Int) := by
  have := crossing_count τ T p hinc hp
  unfold nCross
  rw [hτ]
  omega

example : Increasing 0 (.node 1 (.tip 2) (.node (3/2) (.tip 3) (.tip (7/4)))) := by
  simp [Increasing]; norm_num

/-! ## refinement invariance of the whole density -/

/-- every `p_k` is a probability (positive rates, `mu ≥ 0`, `0 ≤ rho ≤ 1`, increasing epoch times) -/
theorem p_is_probability (r : Rates ℝ) (t : Nat → ℝ) (m : Nat) (g : Grid t m)
    (hr : ∀ k, k < m → 0 < r.lam k ∧ 0 ≤ r.mu k ∧ 0 < r.psi k ∧ 0 ≤ r.rho k ∧ r.rho k ≤ 1) (k : Nat) :
    0 ≤ pAt r t m k ∧ pAt r t m k ≤ 1 :=
  pAt_mem_unit r t m g hr (m - k) k rfl

/-- **split_invariance**: the whole `PiecewiseConstantBirthDeath` log density (model `logProb`, no removal probability) is
unchanged when epoch `i` is cut at ANY point `s` strictly inside it into two sub-epochs carrying its rates, with no
sampling event at the cut (`cutRates`: `rho = 0` there) — for any multiset of birth ages `ints` (in `(0, T]`) and sampling
ages `tips` (in `[0, T)`), whether or not `s` coincides with a sampling or birth time, with or without survival
conditioning; the counts `n_i` are integers, so the lists need not come from a tree.  Proof: the density is a sum of
per-epoch contributions (`logProb_eq_sum_epochs`); epochs away from the cut are unchanged (`p_semigroup` through the
recursion, index characterisation on increasing grids); at the cut `q_semigroup` factorises every branch factor and the
number of lineages crossing the cut is the number entering the epoch plus births minus samplings before it. -/
theorem split_invariance (r : Rates ℝ) (t : Nat → ℝ) (m i : Nat) (s : ℝ) (hi : i < m) (g : Grid t m) (t0 : t 0 = 0)
    (hs1 : t i < s) (hs2 : s < t (i + 1))
    (hr : ∀ k, k < m → 0 < r.lam k ∧ 0 ≤ r.mu k ∧ 0 < r.psi k ∧ 0 ≤ r.rho k ∧ r.rho k ≤ 1)
    (surv : Bool) (tips ints : List ℝ)
    (hints : ∀ a ∈ ints, 0 < a ∧ a ≤ t m) (htips : ∀ a ∈ tips, 0 ≤ a ∧ a < t m) :
    logProb (cutRates r i) none (cutTimes t i s) (m + 1) surv tips ints = logProb r none t m surv tips ints := by
  obtain ⟨a, _, c, d, _⟩ := hr i hi
  exact logProb_split (splitAt_cut r t m i s hi g t0 hs1 hs2 a c d (p_is_probability r t m g hr (i + 1)))
    surv tips ints hints htips

/-- the same for a refined grid given by its properties (`SplitAt`) rather than by `cutTimes`/`cutRates` -/
theorem split_invariance_of_splitAt {r r' : Rates ℝ} {t t' : Nat → ℝ} {m i : Nat} {s : ℝ} (h : SplitAt r r' t t' m i s)
    (surv : Bool) (tips ints : List ℝ)
    (hints : ∀ a ∈ ints, 0 < a ∧ a ≤ t m) (htips : ∀ a ∈ tips, 0 ≤ a ∧ a < t m) :
    logProb r' none t' (m + 1) surv tips ints = logProb r none t m surv tips ints :=
  logProb_split h surv tips ints hints htips

/-- **refinement_invariance**: by induction, any refinement obtained by a chain of such cuts (any number of new
boundaries, in any order, in any epochs) leaves the log density unchanged. -/
theorem refinement_invariance {r r'' : Rates ℝ} {t t'' : Nat → ℝ} {m m'' : Nat} (h : Refines r t m r'' t'' m'')
    (surv : Bool) (tips ints : List ℝ)
    (hints : ∀ a ∈ ints, 0 < a ∧ a ≤ t m) (htips : ∀ a ∈ tips, 0 ≤ a ∧ a < t m) :
    logProb r'' none t'' m'' surv tips ints = logProb r none t m surv tips ints :=
  logProb_refines h surv tips ints hints htips

/-- non-vacuity: one epoch `[0, 2)` with rates (2, 1, 1/2), `rho = 1/4`, cut at `s = 3/2` — which is the sampling time of
the tip of age `1/2` (boundary exactly on a sampling time); the hypotheses of `split_invariance` hold -/
example : ∃ (r : Rates ℝ) (t : Nat → ℝ), Grid t 1 ∧ t 0 = 0 ∧ t 0 < 3/2 ∧ (3/2 : ℝ) < t 1 ∧
    (∀ k, k < 1 → 0 < r.lam k ∧ 0 ≤ r.mu k ∧ 0 < r.psi k ∧ 0 ≤ r.rho k ∧ r.rho k ≤ 1) ∧
    (∀ a ∈ [(1:ℝ)], 0 < a ∧ a ≤ t 1) ∧ (∀ a ∈ [(0:ℝ), 1/2], 0 ≤ a ∧ a < t 1) ∧ t 1 - 1/2 = 3/2 := by
  refine ⟨⟨fun _ => 2, fun _ => 1, fun _ => 1/2, fun _ => 1/4⟩, fun k => if k = 0 then 0 else 2, ?_, ?_, ?_, ?_, ?_, ?_, ?_, ?_⟩
  · intro a b hab hb
    have : a = 0 ∧ b = 1 := by omega
    rw [this.1, this.2]; norm_num
  all_goals norm_num

end TTProps.C09
