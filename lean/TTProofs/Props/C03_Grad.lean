import TTProofs.Props.C03
import TTProofs.Lemmas.C03_Grad
import Mathlib.Analysis.Calculus.Deriv.Basic
import Mathlib.Analysis.Calculus.Deriv.Mul
import Mathlib.Analysis.SpecialFunctions.Log.Deriv
/-!
# C03, gradients: the rescaled and safe passes have the derivative of the plain pass

`rescaled_eq_plain` / `safe_eq_plain` say that the three passes return the same real number whenever
every scaler and the site likelihood are positive.  With the scalers the code chooses (`max` over
category × state of the node's unscaled partial) that condition follows from positivity of the PLAIN
partials (`logLik_rescaled_eq_plain_of_plain_pos`), which is an open condition in any parameter `τ`
the transition matrices depend on continuously.  So near such a point the passes are the same
FUNCTION of `τ` and have the same derivative (`Filter.EventuallyEq.hasDerivAt_iff`) — in every
branch length, rate, frequency… (`τ` is any real parameter of the matrices; for a branch length `e`
take `M τ = Function.update mats e (P τ)`).  C12's `hasDerivAt_siteLik_branch` gives the derivative
of the plain pass.

The scaler is a function of `τ` too.  Treating it as a constant in ONE of its two uses (what
`scalers.append(scaler.detach())` makes autograd differentiate) is a different function with the
same value at `τ₀`: `detached_witness` exhibits a 2-tip tree where its derivative is 0 while the
derivative of the plain / rescaled pass is 2.
-/
open TT TT.C03 Filter Topology

namespace TTProps.C03

variable {N K S : Nat}

/-- value theorem with hypotheses on the plain pass only: with the code's `max` scalers the rescaled
  pass returns the plain log-likelihood as soon as every node's plain partial has a positive entry
  at every site and the site likelihoods are positive -/
theorem logLik_rescaled_eq_plain_of_plain_pos (T tipCount : Nat) (hT : tipCount ≤ T)
    (tipc : Nat → Fin N → Fin K → Fin S → ℝ) (M : Mats ℝ K S) (freqs : Fin S → ℝ) (props : Fin K → ℝ)
    (w : Fin N → ℝ) (st : Store ℝ N K S) (ts : List Triple) (hwf : wf T ts = true)
    (hpl : ∀ t ∈ ts, ∀ n, ∃ k s, 0 < ((peel tipCount tipc M st ts).get t.1).get n k s)
    (hlik : ∀ n, 0 < siteLik freqs props ((peel tipCount tipc M st ts).get (rootOf ts)) n) :
    logLikScaled freqs props w ((peelRescaled tipCount tipc M st ts).st.get (rootOf ts))
        (peelRescaled tipCount tipc M st ts).scalers
      = logLikPlain freqs props w ((peel tipCount tipc M st ts).get (rootOf ts)) :=
  logLik_rescaled_eq_plain T tipCount hT _ tipc M freqs props w st ts hwf
    (peelRescaled_scalers_pos (T := T) tipCount tipc M st ts hwf hpl) hlik

/-- the same for the safe pass run after a plain pass (any threshold) -/
theorem logLik_safe_eq_plain_of_plain_pos (T : Nat) (thr : ℝ) (M : Mats ℝ K S) (freqs : Fin S → ℝ)
    (props : Fin K → ℝ) (w : Fin N → ℝ) (st : Store ℝ N K S) (ts : List Triple)
    (hwf : wf T ts = true)
    (hpl : ∀ t ∈ ts, ∀ n, ∃ k s, 0 < ((peel 0 noTips M st ts).get t.1).get n k s)
    (hlik : ∀ n, 0 < siteLik freqs props ((peel 0 noTips M st ts).get (rootOf ts)) n) :
    logLikScaled freqs props w ((peelSafe thr M (peel 0 noTips M st ts) ts).st.get (rootOf ts))
        (peelSafe thr M (peel 0 noTips M st ts) ts).scalers
      = logLikPlain freqs props w ((peel 0 noTips M st ts).get (rootOf ts)) :=
  logLik_safe_eq_plain T thr M freqs props w st ts hwf
    (peelSafe_scalers_pos (T := T) thr M st ts hwf hpl) hlik

/-- positivity of the plain pass at `τ₀` persists on a neighbourhood -/
theorem eventually_plain_pos (tipCount : Nat) (τ₀ : ℝ) (tipc : ℝ → Nat → Fin N → Fin K → Fin S → ℝ)
    (M : ℝ → Mats ℝ K S) (freqs : Fin S → ℝ) (props : Fin K → ℝ) (st : Store ℝ N K S)
    (ts : List Triple)
    (htip : ∀ c n k s, ContinuousAt (fun τ => tipc τ c n k s) τ₀)
    (hM : ∀ b k i j, ContinuousAt (fun τ => M τ b k i j) τ₀)
    (hpl : ∀ t ∈ ts, ∀ n, ∃ k s, 0 < ((peel tipCount (tipc τ₀) (M τ₀) st ts).get t.1).get n k s)
    (hlik : ∀ n, 0 < siteLik freqs props ((peel tipCount (tipc τ₀) (M τ₀) st ts).get (rootOf ts)) n) :
    ∀ᶠ τ in 𝓝 τ₀,
      (∀ t ∈ ts, ∀ n, ∃ k s, 0 < ((peel tipCount (tipc τ) (M τ) st ts).get t.1).get n k s) ∧
      (∀ n, 0 < siteLik freqs props ((peel tipCount (tipc τ) (M τ) st ts).get (rootOf ts)) n) := by
  have hcont := peel_continuousAt tipCount τ₀ tipc M htip hM ts (fun _ => st)
    (fun _ _ _ _ => continuousAt_const)
  refine Filter.Eventually.and ?_ ?_
  · refine eventually_forall_mem_list _ ts fun t ht => ?_
    refine Filter.eventually_all.mpr fun n => ?_
    obtain ⟨k, s, h⟩ := hpl t ht n
    filter_upwards [(hcont t.1 n k s).eventually_const_lt h] with τ hτ
    exact ⟨k, s, hτ⟩
  · refine Filter.eventually_all.mpr fun n => ?_
    exact (siteLik_continuousAt τ₀ freqs props _ (fun n k s => hcont (rootOf ts) n k s) n).eventually_const_lt
      (hlik n)

/-- **same derivative, rescaled pass**: for any parameter `τ` of the transition matrices (continuous
  at `τ₀`), at a point where the plain partials are positive, the rescaled pass (code's `max`
  scalers; tip partials `tipCount = 0` or tip states `tipCount = T`) has derivative `d` iff the plain
  pass has -/
theorem hasDerivAt_rescaled_iff_plain (T tipCount : Nat) (hT : tipCount ≤ T) (τ₀ : ℝ)
    (tipc : ℝ → Nat → Fin N → Fin K → Fin S → ℝ) (M : ℝ → Mats ℝ K S) (freqs : Fin S → ℝ)
    (props : Fin K → ℝ) (w : Fin N → ℝ) (st : Store ℝ N K S) (ts : List Triple) (hwf : wf T ts = true)
    (htip : ∀ c n k s, ContinuousAt (fun τ => tipc τ c n k s) τ₀)
    (hM : ∀ b k i j, ContinuousAt (fun τ => M τ b k i j) τ₀)
    (hpl : ∀ t ∈ ts, ∀ n, ∃ k s, 0 < ((peel tipCount (tipc τ₀) (M τ₀) st ts).get t.1).get n k s)
    (hlik : ∀ n, 0 < siteLik freqs props ((peel tipCount (tipc τ₀) (M τ₀) st ts).get (rootOf ts)) n)
    (d : ℝ) :
    HasDerivAt (fun τ => logLikScaled freqs props w
        ((peelRescaled tipCount (tipc τ) (M τ) st ts).st.get (rootOf ts))
        (peelRescaled tipCount (tipc τ) (M τ) st ts).scalers) d τ₀ ↔
    HasDerivAt (fun τ => logLikPlain freqs props w
        ((peel tipCount (tipc τ) (M τ) st ts).get (rootOf ts))) d τ₀ := by
  apply Filter.EventuallyEq.hasDerivAt_iff
  filter_upwards [eventually_plain_pos tipCount τ₀ tipc M freqs props st ts htip hM hpl hlik] with τ hτ
  exact logLik_rescaled_eq_plain_of_plain_pos T tipCount hT (tipc τ) (M τ) freqs props w st ts hwf hτ.1 hτ.2

/-- **same derivative, safe pass** (plain pass, then `peelSafe thr` on what it left, as
  `calculate_with_tip_partials` does when the switch fires) -/
theorem hasDerivAt_safe_iff_plain (T : Nat) (thr : ℝ) (τ₀ : ℝ) (M : ℝ → Mats ℝ K S)
    (freqs : Fin S → ℝ) (props : Fin K → ℝ) (w : Fin N → ℝ) (st : Store ℝ N K S) (ts : List Triple)
    (hwf : wf T ts = true)
    (hM : ∀ b k i j, ContinuousAt (fun τ => M τ b k i j) τ₀)
    (hpl : ∀ t ∈ ts, ∀ n, ∃ k s, 0 < ((peel 0 noTips (M τ₀) st ts).get t.1).get n k s)
    (hlik : ∀ n, 0 < siteLik freqs props ((peel 0 noTips (M τ₀) st ts).get (rootOf ts)) n)
    (d : ℝ) :
    HasDerivAt (fun τ => logLikScaled freqs props w
        ((peelSafe thr (M τ) (peel 0 noTips (M τ) st ts) ts).st.get (rootOf ts))
        (peelSafe thr (M τ) (peel 0 noTips (M τ) st ts) ts).scalers) d τ₀ ↔
    HasDerivAt (fun τ => logLikPlain freqs props w ((peel 0 noTips (M τ) st ts).get (rootOf ts))) d τ₀ := by
  apply Filter.EventuallyEq.hasDerivAt_iff
  filter_upwards [eventually_plain_pos 0 τ₀ (fun _ => noTips) M freqs props st ts
    (fun _ _ _ _ => continuousAt_const) hM hpl hlik] with τ hτ
  exact logLik_safe_eq_plain_of_plain_pos T thr (M τ) freqs props w st ts hwf hτ.1 hτ.2

/-- **one evaluation of the model object**: whichever branch `calculate_with_tip_partials` takes
  (the flag and the switch test may even change with `τ`), the returned value has the derivative of
  the plain pass -/
theorem hasDerivAt_evalPartials_iff_plain (T : Nat) (switch : ℝ → ℝ → Part ℝ N K S → Bool) (thr : ℝ)
    (τ₀ : ℝ) (M : ℝ → Mats ℝ K S) (freqs : Fin S → ℝ) (props : Fin K → ℝ) (w : Fin N → ℝ)
    (flag : ℝ → Bool) (st : Store ℝ N K S) (ts : List Triple) (hwf : wf T ts = true)
    (hM : ∀ b k i j, ContinuousAt (fun τ => M τ b k i j) τ₀)
    (hpl : ∀ t ∈ ts, ∀ n, ∃ k s, 0 < ((peel 0 noTips (M τ₀) st ts).get t.1).get n k s)
    (hlik : ∀ n, 0 < siteLik freqs props ((peel 0 noTips (M τ₀) st ts).get (rootOf ts)) n)
    (d : ℝ) :
    HasDerivAt (fun τ => (evalPartials (switch τ) thr w ts ⟨flag τ, st⟩ ⟨M τ, freqs, props⟩).1) d τ₀ ↔
    HasDerivAt (fun τ => logLikPlain freqs props w ((peel 0 noTips (M τ) st ts).get (rootOf ts))) d τ₀ := by
  apply Filter.EventuallyEq.hasDerivAt_iff
  filter_upwards [eventually_plain_pos 0 τ₀ (fun _ => noTips) M freqs props st ts
    (fun _ _ _ _ => continuousAt_const) hM hpl hlik] with τ hτ
  exact evalPartials_value T (switch τ) thr w ts ⟨flag τ, st⟩ ⟨M τ, freqs, props⟩ hwf
    (peelRescaled_scalers_pos (T := T) 0 noTips (M τ) st ts hwf hτ.1)
    (peelSafe_scalers_pos (T := T) thr (M τ) st ts hwf hτ.1) hτ.2


/-! ### a detached scaler is a different function

Instance `G`: two tips (partial 1), one state, one category, one site; the only matrix entry of every
branch is the parameter `τ`; post-order `[(2,0,1)]`.  Plain root partial `τ·τ`, scaler `τ·τ`,
scaled root `1` (definitions and evaluations in `Lemmas/C03_Grad.lean`, `TT.C03.G`). -/

/-- what autograd differentiates after `scalers.append(scaler.detach())`: the division still uses
  the live scaler, the log-scaler sum is frozen at its value at `τ₀` -/
noncomputable def detachedLogLik {N K S : Nat} (freqs : Fin S → ℝ) (props : Fin K → ℝ) (w : Fin N → ℝ)
    (M : ℝ → Mats ℝ K S) (st : Store ℝ N K S) (ts : List Triple) (τ₀ τ : ℝ) : ℝ :=
  logLikScaled freqs props w ((peelRescaled 0 noTips (M τ) st ts).st.get (rootOf ts))
    (peelRescaled 0 noTips (M τ₀) st ts).scalers

/-- the hypotheses of `hasDerivAt_rescaled_iff_plain` hold on `G` at `τ₀ = 1`, where the plain pass
  `τ ↦ log(τ·τ)` has derivative 2 — hence so has the rescaled pass -/
theorem rescaled_deriv_G :
    HasDerivAt (fun τ => logLikScaled G.one1 G.one1 G.one1
        ((peelRescaled 0 noTips (G.M τ) G.tips G.ts).st.get (rootOf G.ts))
        (peelRescaled 0 noTips (G.M τ) G.tips G.ts).scalers) 2 1 := by
  refine (hasDerivAt_rescaled_iff_plain 2 0 (by omega) 1 (fun _ => noTips) G.M G.one1 G.one1 G.one1
    G.tips G.ts G.wf_ts (fun _ _ _ _ => continuousAt_const) (fun _ _ _ _ => continuousAt_id) ?_ ?_ 2).mpr ?_
  · intro t ht n
    simp only [G.ts, List.mem_singleton] at ht
    subst ht
    exact ⟨0, 0, by rw [G.plain_get]; norm_num⟩
  · intro n
    have : rootOf G.ts = 2 := rfl
    simp [siteLik, sumFin_eq_sum, this, G.plain_get, G.one1]
  · simp only [G.plain_val]
    have h := ((hasDerivAt_id (1 : ℝ)).mul (hasDerivAt_id (1 : ℝ))).log (by norm_num)
    simpa using h.congr_deriv (by norm_num)

/-- **witness**: same value at `τ₀ = 1`, derivative 0 instead of 2 — a detached scaler does not
  give the gradient of the likelihood -/
theorem detached_witness :
    detachedLogLik G.one1 G.one1 G.one1 G.M G.tips G.ts 1 1 =
      logLikPlain G.one1 G.one1 G.one1 ((peel 0 noTips (G.M 1) G.tips G.ts).get (rootOf G.ts)) ∧
    HasDerivAt (fun τ => detachedLogLik G.one1 G.one1 G.one1 G.M G.tips G.ts 1 τ) 0 1 ∧
    ¬ HasDerivAt (fun τ => detachedLogLik G.one1 G.one1 G.one1 G.M G.tips G.ts 1 τ) 2 1 := by
  have hroot : rootOf G.ts = 2 := rfl
  have hval : ∀ τ, detachedLogLik G.one1 G.one1 G.one1 G.M G.tips G.ts 1 τ = 0 := by
    intro τ
    unfold detachedLogLik
    simp only [logLikScaled, logScalers, G.scaler_val, siteLik, sumFin_eq_sum, hroot, G.scaled_root]
    by_cases h : τ * τ = 0
    · simp [h, G.one1]
    · simp [div_self h, G.one1]
  refine ⟨?_, ?_, ?_⟩
  · rw [hval, G.plain_val]; simp
  · simp only [hval]; exact hasDerivAt_const _ _
  · intro h
    have h0 : HasDerivAt (fun τ => detachedLogLik G.one1 G.one1 G.one1 G.M G.tips G.ts 1 τ) 0 1 := by
      simp only [hval]; exact hasDerivAt_const _ _
    have := h.unique h0
    norm_num at this

end TTProps.C03
