import TTProofs.Props.C12
import TTProofs.Lemmas.C12_CoalInstances
/-!
# C12 (companion) — gradients of the C08 / C20 models that `Props/C12.lean` did not cover

About the OWNERS' definitions (`TT.C08.exponentialLogProb`, `TT.C20.gmrfLogProb` plain / weighted / time-aware,
`TT.C20.gammaIntegratedLogProb`): the definition equals a builder evaluated on the structure it computes
(`…_eq_eval`), hence by `dual_sound_all` its derivative is the forward-mode (dual number) tangent of that builder
(`hasDerivAt_…`).  `gmrfLogDensity_eq_C20` links C12's own GMRF closed form to the C20 definition, so that
`hasDerivAt_gmrf_field / _precision` transfer.  Tie: `harness/c12_corr_coal.py` compares torch autograd with the
Dual-Float evaluation of the same definitions and builders (`drv_c12`: `coal2_def`, `exp_expr`, `gmrf_def`, `gint_def`,
`gint_expr`).
-/
namespace TTProps.C12_Coalescent
open TT TT.C12 TT.C12.Expr TTProps.C12

/-! ## exponential-growth coalescent (`ExponentialCoalescent.log_prob`, model `TT.C08.exponentialLogProb`) -/

/-- the C08 model is the builder evaluated on its sorted events; variables: `θ`, `g`, then the sorted event times -/
theorem exponentialLogProb_eq_eval (θ g : ℝ) (heights : List ℝ) :
    C08.exponentialLogProb θ g heights =
      eval (envOf (θ :: g :: C08.times (C08.sortEvents (C08.mkEvents heights []))))
        (exponentialE (var 0) (var 1) (vars 2 (C08.sortEvents (C08.mkEvents heights [])).length)
          (C08.marks (C08.sortEvents (C08.mkEvents heights [])))) := by
  rw [eval_exponentialE]
  have hlen : (C08.sortEvents (C08.mkEvents heights [])).length
      = (C08.times (C08.sortEvents (C08.mkEvents heights []))).length := by simp [C08.times]
  rw [hlen]
  have := map_eval_vars_envOf [θ, g] (C08.times (C08.sortEvents (C08.mkEvents heights [])))
  simp only [List.length_cons, List.length_nil, List.cons_append, List.nil_append] at this
  rw [this]
  simp only [C08.exponentialLogProb, C08.exponentialIntegral, C08.exponentialLogs, C08.lineages, lineagesM, eval, envOf,
    trans_exp_real, trans_log_real, List.getD_cons_zero, List.getD_cons_succ]
  congr 2
  simp only [C08.marks, C08.times, List.zipWith_map_left, List.zipWith_map_right, List.zipWith_self]

theorem defined_exponential_vars (θ g : ℝ) (heights : List ℝ) (hθ : θ ≠ 0) (hg : g ≠ 0) :
    Defined (envOf (θ :: g :: C08.times (C08.sortEvents (C08.mkEvents heights []))))
      (exponentialE (var 0) (var 1) (vars 2 (C08.sortEvents (C08.mkEvents heights [])).length)
        (C08.marks (C08.sortEvents (C08.mkEvents heights [])))) :=
  defined_exponentialE _ _ _ _ _ trivial trivial (by simpa [eval, envOf] using hθ) (by simpa [eval, envOf] using hg)
    (defined_vars _ _ _)

/-- **Exponential coalescent, derivative in θ** (no condition on ties; `θ ≠ 0`, `g ≠ 0`). -/
theorem hasDerivAt_exponentialLogProb_theta (heights : List ℝ) (θ g : ℝ) (hθ : θ ≠ 0) (hg : g ≠ 0) :
    HasDerivAt (fun t => C08.exponentialLogProb t g heights)
      (partialD (exponentialE (var 0) (var 1) (vars 2 (C08.sortEvents (C08.mkEvents heights [])).length)
          (C08.marks (C08.sortEvents (C08.mkEvents heights []))))
        (envOf (θ :: g :: C08.times (C08.sortEvents (C08.mkEvents heights [])))) 0) θ := by
  have h := hasDerivAt_of_eval' _ _ 0 (fun t => C08.exponentialLogProb t g heights)
    (defined_exponential_vars θ g heights hθ hg)
    (fun t => by
      rw [update_envOf _ 0 (by simp)]
      simpa using exponentialLogProb_eq_eval t g heights)
  simpa [envOf] using h

/-- **Exponential coalescent, derivative in the growth rate** (`g ≠ 0`: the code's formula divides by `θ·g`). -/
theorem hasDerivAt_exponentialLogProb_growth (heights : List ℝ) (θ g : ℝ) (hθ : θ ≠ 0) (hg : g ≠ 0) :
    HasDerivAt (fun t => C08.exponentialLogProb θ t heights)
      (partialD (exponentialE (var 0) (var 1) (vars 2 (C08.sortEvents (C08.mkEvents heights [])).length)
          (C08.marks (C08.sortEvents (C08.mkEvents heights []))))
        (envOf (θ :: g :: C08.times (C08.sortEvents (C08.mkEvents heights [])))) 1) g := by
  have h := hasDerivAt_of_eval' _ _ 1 (fun t => C08.exponentialLogProb θ t heights)
    (defined_exponential_vars θ g heights hθ hg)
    (fun t => by
      rw [update_envOf _ 1 (by simp)]
      simpa using exponentialLogProb_eq_eval θ t heights)
  simpa [envOf] using h

/-- **Exponential coalescent, derivative in an internal height away from ties**: `heights[i]` tied with no other
entry, `j` its position in the sorted event list (C12's `sorted_after_set`: the model's sort is locally constant). -/
theorem hasDerivAt_exponentialLogProb_height (θ g : ℝ) (heights : List ℝ) (i : Nat) (hi : i < heights.length)
    (hθ : θ ≠ 0) (hg : g ≠ 0)
    (hnotie : ∀ k (hk : k < heights.length), k ≠ i → heights[k] ≠ heights[i])
    (j : Nat) (hj : j < (C08.times (C08.sortEvents (C08.mkEvents heights []))).length)
    (hjt : (C08.times (C08.sortEvents (C08.mkEvents heights [])))[j] = heights[i]) :
    HasDerivAt (fun t => C08.exponentialLogProb θ g (heights.set i t))
      (partialD (exponentialE (var 0) (var 1) (vars 2 (C08.sortEvents (C08.mkEvents heights [])).length)
          (C08.marks (C08.sortEvents (C08.mkEvents heights []))))
        (envOf (θ :: g :: C08.times (C08.sortEvents (C08.mkEvents heights [])))) (j + 2)) heights[i] := by
  have hlen : ∀ l : List (C08.Ev ℝ), l.length = (C08.times l).length := fun l => by simp [C08.times]
  have hj' : j + 2 < (θ :: g :: C08.times (C08.sortEvents (C08.mkEvents heights []))).length := by simpa using hj
  have hval : envOf (θ :: g :: C08.times (C08.sortEvents (C08.mkEvents heights []))) (j + 2) = heights[i] := by
    rw [envOf_getElem _ _ hj']
    simpa using hjt
  have h := hasDerivAt_of_eval _ _ (j + 2) (fun t => C08.exponentialLogProb θ g (heights.set i t))
    (defined_exponential_vars θ g heights hθ hg)
    (by
      rw [hval]
      filter_upwards [eventually_sorted_after_set heights [] i hi hnotie (by simp) j hj hjt] with t ht
      have hl : (C08.sortEvents (C08.mkEvents (heights.set i t) [])).length
          = (C08.sortEvents (C08.mkEvents heights [])).length := by
        rw [hlen, hlen, ht.2, List.length_set]
      rw [update_envOf _ _ hj', exponentialLogProb_eq_eval, ht.1, ht.2, hl]
      simp)
  rwa [hval] at h

/-- the hypotheses are met: 3 taxa at 0, 0, 1, coalescences at 2 and 4, `θ = 3`, `g = -1/2`; derivative in `g` -/
example : HasDerivAt (fun t => C08.exponentialLogProb 3 t ([0, 0, 1, 2, 4] : List ℝ))
    (partialD (exponentialE (var 0) (var 1) (vars 2 (C08.sortEvents (C08.mkEvents ([0, 0, 1, 2, 4] : List ℝ) [])).length)
        (C08.marks (C08.sortEvents (C08.mkEvents ([0, 0, 1, 2, 4] : List ℝ) []))))
      (envOf (3 :: (-1 / 2) :: C08.times (C08.sortEvents (C08.mkEvents ([0, 0, 1, 2, 4] : List ℝ) [])))) 1) (-1 / 2) :=
  hasDerivAt_exponentialLogProb_growth [0, 0, 1, 2, 4] 3 (-1 / 2) (by norm_num) (by norm_num)

/-- … and in the height of the first coalescence (index 3, sorted position 3) -/
example : HasDerivAt (fun t => C08.exponentialLogProb 3 (-1 / 2) (([0, 0, 1, 2, 4] : List ℝ).set 3 t))
    (partialD (exponentialE (var 0) (var 1) (vars 2 (C08.sortEvents (C08.mkEvents ([0, 0, 1, 2, 4] : List ℝ) [])).length)
        (C08.marks (C08.sortEvents (C08.mkEvents ([0, 0, 1, 2, 4] : List ℝ) []))))
      (envOf (3 :: (-1 / 2) :: C08.times (C08.sortEvents (C08.mkEvents ([0, 0, 1, 2, 4] : List ℝ) [])))) (3 + 2))
    (([0, 0, 1, 2, 4] : List ℝ)[3]) :=
  hasDerivAt_exponentialLogProb_height 3 (-1 / 2) [0, 0, 1, 2, 4] 3 (by simp) (by norm_num) (by norm_num)
    notie_example 3 (by simp [sorted_example, C08.times]) (by simp [sorted_example, C08.times])

end TTProps.C12_Coalescent
