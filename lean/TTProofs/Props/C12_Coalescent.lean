import TTProofs.Props.C12
import TTProofs.Lemmas.C12_CoalInstances
import TTProofs.Lemmas.C12_SoftDeriv
import TTProofs.Lemmas.C12_LinDeriv
/-!
# C12 (companion) — gradients of the C08 / C20 models that `Props/C12.lean` did not cover

About the OWNERS' definitions (`TT.C08.exponentialLogProb`, `TT.C20.gmrfLogProb` plain / weighted / time-aware,
`TT.C20.gammaIntegratedLogProb`): the definition equals a builder evaluated on the structure it computes
(`…_eq_eval`), hence by `dual_sound_all` its derivative is the forward-mode (dual number) tangent of that builder
(`hasDerivAt_…`).  `gmrfLogDensity_eq_C20` links C12's own GMRF closed form to the C20 definition, so that
`hasDerivAt_gmrf_field / _precision` transfer.  Tie: `harness/c12_corr_coal.py` compares torch autograd with the
Dual-Float evaluation of the same definitions and builders (`drv_c12`: `coal2_def`, `exp_expr`, `gmrf_def`, `gint_def`,
`gint_expr`).
-/
namespace TTProps.C12_Coalescent
open TT TT.C12 TT.C12.Expr TTProps.C12

/-! ## exponential-growth coalescent (`ExponentialCoalescent.log_prob`, model `TT.C08.exponentialLogProb`) -/

/-- the C08 model is the builder evaluated on its sorted events; variables: `θ`, `g`, then the sorted event times -/
theorem exponentialLogProb_eq_eval (θ g : ℝ) (heights : List ℝ) :
    C08.exponentialLogProb θ g heights =
      eval (envOf (θ :: g :: C08.times (C08.sortEvents (C08.mkEvents heights []))))
        (exponentialE (var 0) (var 1) (vars 2 (C08.sortEvents (C08.mkEvents heights [])).length)
          (C08.marks (C08.sortEvents (C08.mkEvents heights [])))) := by
  rw [eval_exponentialE]
  have hlen : (C08.sortEvents (C08.mkEvents heights [])).length
      = (C08.times (C08.sortEvents (C08.mkEvents heights []))).length := by simp [C08.times]
  rw [hlen]
  have := map_eval_vars_envOf [θ, g] (C08.times (C08.sortEvents (C08.mkEvents heights [])))
  simp only [List.length_cons, List.length_nil, List.cons_append, List.nil_append] at this
  rw [this]
  simp only [C08.exponentialLogProb, C08.exponentialIntegral, C08.exponentialLogs, C08.lineages, lineagesM, eval, envOf,
    trans_exp_real, trans_log_real, List.getD_cons_zero, List.getD_cons_succ]
  congr 2
  simp only [C08.marks, C08.times, List.zipWith_map_left, List.zipWith_map_right, List.zipWith_self]

theorem defined_exponential_vars (θ g : ℝ) (heights : List ℝ) (hθ : θ ≠ 0) (hg : g ≠ 0) :
    Defined (envOf (θ :: g :: C08.times (C08.sortEvents (C08.mkEvents heights []))))
      (exponentialE (var 0) (var 1) (vars 2 (C08.sortEvents (C08.mkEvents heights [])).length)
        (C08.marks (C08.sortEvents (C08.mkEvents heights [])))) :=
  defined_exponentialE _ _ _ _ _ trivial trivial (by simpa [eval, envOf] using hθ) (by simpa [eval, envOf] using hg)
    (defined_vars _ _ _)

/-- **Exponential coalescent, derivative in θ** (no condition on ties; `θ ≠ 0`, `g ≠ 0`). -/
theorem hasDerivAt_exponentialLogProb_theta (heights : List ℝ) (θ g : ℝ) (hθ : θ ≠ 0) (hg : g ≠ 0) :
    HasDerivAt (fun t => C08.exponentialLogProb t g heights)
      (partialD (exponentialE (var 0) (var 1) (vars 2 (C08.sortEvents (C08.mkEvents heights [])).length)
          (C08.marks (C08.sortEvents (C08.mkEvents heights []))))
        (envOf (θ :: g :: C08.times (C08.sortEvents (C08.mkEvents heights [])))) 0) θ := by
  have h := hasDerivAt_of_eval' _ _ 0 (fun t => C08.exponentialLogProb t g heights)
    (defined_exponential_vars θ g heights hθ hg)
    (fun t => by
      rw [update_envOf _ 0 (by simp)]
      simpa using exponentialLogProb_eq_eval t g heights)
  simpa [envOf] using h

/-- **Exponential coalescent, derivative in the growth rate** (`g ≠ 0`: the code's formula divides by `θ·g`). -/
theorem hasDerivAt_exponentialLogProb_growth (heights : List ℝ) (θ g : ℝ) (hθ : θ ≠ 0) (hg : g ≠ 0) :
    HasDerivAt (fun t => C08.exponentialLogProb θ t heights)
      (partialD (exponentialE (var 0) (var 1) (vars 2 (C08.sortEvents (C08.mkEvents heights [])).length)
          (C08.marks (C08.sortEvents (C08.mkEvents heights []))))
        (envOf (θ :: g :: C08.times (C08.sortEvents (C08.mkEvents heights [])))) 1) g := by
  have h := hasDerivAt_of_eval' _ _ 1 (fun t => C08.exponentialLogProb θ t heights)
    (defined_exponential_vars θ g heights hθ hg)
    (fun t => by
      rw [update_envOf _ 1 (by simp)]
      simpa using exponentialLogProb_eq_eval θ t heights)
  simpa [envOf] using h

/-- **Exponential coalescent, derivative in an internal height away from ties**: `heights[i]` tied with no other
entry, `j` its position in the sorted event list (C12's `sorted_after_set`: the model's sort is locally constant). -/
theorem hasDerivAt_exponentialLogProb_height (θ g : ℝ) (heights : List ℝ) (i : Nat) (hi : i < heights.length)
    (hθ : θ ≠ 0) (hg : g ≠ 0)
    (hnotie : ∀ k (hk : k < heights.length), k ≠ i → heights[k] ≠ heights[i])
    (j : Nat) (hj : j < (C08.times (C08.sortEvents (C08.mkEvents heights []))).length)
    (hjt : (C08.times (C08.sortEvents (C08.mkEvents heights [])))[j] = heights[i]) :
    HasDerivAt (fun t => C08.exponentialLogProb θ g (heights.set i t))
      (partialD (exponentialE (var 0) (var 1) (vars 2 (C08.sortEvents (C08.mkEvents heights [])).length)
          (C08.marks (C08.sortEvents (C08.mkEvents heights []))))
        (envOf (θ :: g :: C08.times (C08.sortEvents (C08.mkEvents heights [])))) (j + 2)) heights[i] := by
  have hlen : ∀ l : List (C08.Ev ℝ), l.length = (C08.times l).length := fun l => by simp [C08.times]
  have hj' : j + 2 < (θ :: g :: C08.times (C08.sortEvents (C08.mkEvents heights []))).length := by simpa using hj
  have hval : envOf (θ :: g :: C08.times (C08.sortEvents (C08.mkEvents heights []))) (j + 2) = heights[i] := by
    rw [envOf_getElem _ _ hj']
    simpa using hjt
  have h := hasDerivAt_of_eval _ _ (j + 2) (fun t => C08.exponentialLogProb θ g (heights.set i t))
    (defined_exponential_vars θ g heights hθ hg)
    (by
      rw [hval]
      filter_upwards [eventually_sorted_after_set heights [] i hi hnotie (by simp) j hj hjt] with t ht
      have hl : (C08.sortEvents (C08.mkEvents (heights.set i t) [])).length
          = (C08.sortEvents (C08.mkEvents heights [])).length := by
        rw [hlen, hlen, ht.2, List.length_set]
      rw [update_envOf _ _ hj', exponentialLogProb_eq_eval, ht.1, ht.2, hl]
      simp)
  rwa [hval] at h

/-- the hypotheses are met: 3 taxa at 0, 0, 1, coalescences at 2 and 4, `θ = 3`, `g = -1/2`; derivative in `g` -/
example : HasDerivAt (fun t => C08.exponentialLogProb 3 t ([0, 0, 1, 2, 4] : List ℝ))
    (partialD (exponentialE (var 0) (var 1) (vars 2 (C08.sortEvents (C08.mkEvents ([0, 0, 1, 2, 4] : List ℝ) [])).length)
        (C08.marks (C08.sortEvents (C08.mkEvents ([0, 0, 1, 2, 4] : List ℝ) []))))
      (envOf (3 :: (-1 / 2) :: C08.times (C08.sortEvents (C08.mkEvents ([0, 0, 1, 2, 4] : List ℝ) [])))) 1) (-1 / 2) :=
  hasDerivAt_exponentialLogProb_growth [0, 0, 1, 2, 4] 3 (-1 / 2) (by norm_num) (by norm_num)

/-- … and in the height of the first coalescence (index 3, sorted position 3) -/
example : HasDerivAt (fun t => C08.exponentialLogProb 3 (-1 / 2) (([0, 0, 1, 2, 4] : List ℝ).set 3 t))
    (partialD (exponentialE (var 0) (var 1) (vars 2 (C08.sortEvents (C08.mkEvents ([0, 0, 1, 2, 4] : List ℝ) [])).length)
        (C08.marks (C08.sortEvents (C08.mkEvents ([0, 0, 1, 2, 4] : List ℝ) []))))
      (envOf (3 :: (-1 / 2) :: C08.times (C08.sortEvents (C08.mkEvents ([0, 0, 1, 2, 4] : List ℝ) [])))) (3 + 2))
    (([0, 0, 1, 2, 4] : List ℝ)[3]) :=
  hasDerivAt_exponentialLogProb_height 3 (-1 / 2) [0, 0, 1, 2, 4] 3 (by simp) (by norm_num) (by norm_num)
    notie_example 3 (by simp [sorted_example, C08.times]) (by simp [sorted_example, C08.times])

/-! ## GMRF: C12's closed form IS the C20 definition (plain, weighted, time-aware) -/

theorem diffSq_eq_diffsRev : ∀ x : List ℝ, C20.diffSq x = (diffsRev x).map fun d => d * d
  | [] => rfl
  | [_] => rfl
  | a :: b :: rest => by
    have ih := diffSq_eq_diffsRev (b :: rest)
    simp only [C20.diffSq, diffsRev, List.map_cons] at ih ⊢
    rw [ih]

/-- **gmrfLogDensity_eq_C20** — the closed form the C12 theorems `hasDerivAt_gmrf_field / _precision` are stated about
equals `TT.C20.gmrfLogProb` on `TT.C20.scaledDiffSq` (the model compared with `GMRF._call` by C20), for every
divisor list `w` — in particular the time-aware weights. -/
theorem gmrfLogDensity_eq_C20 (x : List ℝ) (τ c : ℝ) (w : Option (List ℝ)) :
    gmrfLogDensity x τ w c = C20.gmrfLogProb c τ (C20.scaledDiffSq w x) x.length := by
  unfold gmrfLogDensity C20.gmrfLogProb C20.scaledDiffSq
  simp only [trans_log_real, Int.cast_natCast]
  cases w with
  | none => simp only [diffSq_eq_diffsRev]
  | some w => simp only [diffSq_eq_diffsRev]

/-- **GMRF (C20 definition), derivative in each field entry** — plain (`w = none`), weighted, or time-aware
(`w = some (C20.timeAwareWeights rescale internal)`); every divisor non-zero, `τ ≠ 0`. -/
theorem hasDerivAt_gmrfLogProb_field (x : List ℝ) (τ c : ℝ) (w : Option (List ℝ)) (k : Nat) (hk : k < x.length)
    (hτ : τ ≠ 0) (hw : ∀ l, w = some l → ∀ v ∈ l, v ≠ 0) :
    HasDerivAt (fun t => C20.gmrfLogProb c τ (C20.scaledDiffSq w (x.set k t)) x.length)
      (partialD (gmrfE (vars 0 x.length) (var x.length) (w.map fun l => vars (x.length + 2) l.length)
          (var (x.length + 1)))
        (envOf (x ++ ([τ, c] ++ (w.getD [])))) k) x[k] := by
  have h := hasDerivAt_gmrf_field x τ c w k hk hτ hw
  have hf : (fun t => gmrfLogDensity (x.set k t) τ w c)
      = fun t => C20.gmrfLogProb c τ (C20.scaledDiffSq w (x.set k t)) x.length := by
    funext t; rw [gmrfLogDensity_eq_C20, List.length_set]
  rwa [hf] at h

/-- **GMRF (C20 definition), derivative in the precision.** -/
theorem hasDerivAt_gmrfLogProb_precision (x : List ℝ) (τ c : ℝ) (w : Option (List ℝ))
    (hτ : τ ≠ 0) (hw : ∀ l, w = some l → ∀ v ∈ l, v ≠ 0) :
    HasDerivAt (fun t => C20.gmrfLogProb c t (C20.scaledDiffSq w x) x.length)
      (partialD (gmrfE (vars 0 x.length) (var x.length) (w.map fun l => vars (x.length + 2) l.length)
          (var (x.length + 1)))
        (envOf (x ++ ([τ, c] ++ (w.getD [])))) x.length) τ := by
  have h := hasDerivAt_gmrf_precision x τ c w hτ hw
  have hf : (fun t => gmrfLogDensity x t w c) = fun t => C20.gmrfLogProb c t (C20.scaledDiffSq w x) x.length := by
    funext t; rw [gmrfLogDensity_eq_C20]
  rwa [hf] at h

/-- **time-aware GMRF** (F19-repaired weights: mean of adjacent durations of the sorted `[0] ++ internal heights`,
`/ root` when `rescale`): derivative in each field entry and in the precision, wherever no weight vanishes (no two
consecutive zero-length inter-coalescent intervals). -/
theorem hasDerivAt_gmrf_timeaware (x internal : List ℝ) (rescale : Bool) (τ c : ℝ) (k : Nat) (hk : k < x.length)
    (hτ : τ ≠ 0) (hw : ∀ v ∈ C20.timeAwareWeights rescale internal, v ≠ 0) :
    HasDerivAt (fun t => C20.gmrfLogProb c τ (C20.scaledDiffSq (some (C20.timeAwareWeights rescale internal))
        (x.set k t)) x.length)
      (partialD (gmrfE (vars 0 x.length) (var x.length)
          (some (vars (x.length + 2) (C20.timeAwareWeights rescale internal).length)) (var (x.length + 1)))
        (envOf (x ++ ([τ, c] ++ C20.timeAwareWeights rescale internal))) k) x[k] ∧
    HasDerivAt (fun t => C20.gmrfLogProb c t (C20.scaledDiffSq (some (C20.timeAwareWeights rescale internal)) x)
        x.length)
      (partialD (gmrfE (vars 0 x.length) (var x.length)
          (some (vars (x.length + 2) (C20.timeAwareWeights rescale internal).length)) (var (x.length + 1)))
        (envOf (x ++ ([τ, c] ++ C20.timeAwareWeights rescale internal))) x.length) τ := by
  have hw' : ∀ l, some (C20.timeAwareWeights rescale internal) = some l → ∀ v ∈ l, v ≠ 0 := by
    intro l hl v hv; cases hl; exact hw v hv
  exact ⟨by simpa using hasDerivAt_gmrfLogProb_field x τ c _ k hk hτ hw',
    by simpa using hasDerivAt_gmrfLogProb_precision x τ c _ hτ hw'⟩

/-- the hypotheses are met: field `(1, -2, 3)`, precision 2, weights `(1/2, 4)` -/
example : HasDerivAt (fun t => C20.gmrfLogProb 5 2 (C20.scaledDiffSq (some [1 / 2, 4]) (([1, -2, 3] : List ℝ).set 1 t)) 3)
    (partialD (gmrfE (vars 0 3) (var 3) (some (vars 5 2)) (var 4)) (envOf ([1, -2, 3, 2, 5, 1 / 2, 4] : List ℝ)) 1)
    (-2) := by
  have h := hasDerivAt_gmrfLogProb_field [1, -2, 3] 2 5 (some [1 / 2, 4]) 1 (by simp) (by norm_num)
    (by intro l hl v hv; simp at hl; subst hl; simp at hv; rcases hv with rfl | rfl <;> norm_num)
  simpa using h

/-! ## GMRFGammaIntegrated (`TT.C20.gammaIntegratedLogProb`) -/

/-- the C20 definition is the builder's closed form -/
theorem gintClosed_eq_C20 (x : List ℝ) (w : Option (List ℝ)) (c a b lgA lgAd : ℝ) :
    gintClosed x w c a b lgA lgAd = C20.gammaIntegratedLogProb c a b lgA lgAd (C20.scaledDiffSq w x) x.length := by
  unfold gintClosed C20.gammaIntegratedLogProb C20.scaledDiffSq
  simp only [trans_log_real, Int.cast_natCast]
  cases w with
  | none => simp only [diffSq_eq_diffsRev]
  | some w => simp only [diffSq_eq_diffsRev]

/-- the builder on the variable layout `field ++ [c, shape, rate, lgA, lgAd] ++ weights` -/
theorem gint_eval_env (y : List ℝ) (w : Option (List ℝ)) (c a b lgA lgAd : ℝ) :
    eval (envOf (y ++ ([c, a, b, lgA, lgAd] ++ (w.getD []))))
      (gintE (vars 0 y.length) (w.map fun l => vars (y.length + 5) l.length) (var y.length) (var (y.length + 1))
        (var (y.length + 2)) (var (y.length + 3)) (var (y.length + 4)))
      = gintClosed y w c a b lgA lgAd := by
  rw [eval_gintE, map_eval_vars_envOf_prefix]
  have hv : ∀ (j : Nat) (v : ℝ), ([c, a, b, lgA, lgAd] ++ (w.getD []))[j]? = some v →
      eval (envOf (y ++ ([c, a, b, lgA, lgAd] ++ (w.getD [])))) (var (y.length + j)) = v := by
    intro j v hjv
    simp only [eval, envOf, List.getD_eq_getElem?_getD]
    rw [List.getElem?_append_right (by omega), Nat.add_sub_cancel_left, hjv]
    rfl
  rw [show var y.length = var (y.length + 0) from rfl, hv 0 c (by simp), hv 1 a (by simp), hv 2 b (by simp),
    hv 3 lgA (by simp), hv 4 lgAd (by simp)]
  cases w with
  | none => rfl
  | some l =>
    have h3 : (vars (y.length + 5) l.length).map (eval (envOf (y ++ ([c, a, b, lgA, lgAd] ++ l)))) = l := by
      have := map_eval_vars_envOf (y ++ [c, a, b, lgA, lgAd]) l
      simpa [List.append_assoc] using this
    simp only [Option.map_some, Option.getD_some, h3]

theorem sq_sum_nonneg (x : List ℝ) (w : Option (List ℝ)) (hw : ∀ l, w = some l → ∀ v ∈ l, 0 < v) :
    0 ≤ (match w with
      | none => (diffsRev x).map fun d => d * d
      | some w => List.zipWith (fun a b => a / b) ((diffsRev x).map fun d => d * d) w).sum := by
  cases w with
  | none =>
    apply List.sum_nonneg
    intro v hv
    obtain ⟨d, _, rfl⟩ := List.mem_map.mp hv
    exact mul_self_nonneg d
  | some l =>
    apply List.sum_nonneg
    have : ∀ v ∈ List.zipWith (fun a b => a / b) ((diffsRev x).map fun d => d * d) l, 0 ≤ v := by
      refine mem_zipWith fun a ha b hb => ?_
      obtain ⟨d, _, rfl⟩ := List.mem_map.mp ha
      exact div_nonneg (mul_self_nonneg d) (hw l rfl b hb).le
    exact this

theorem gint_defined_env (y : List ℝ) (w : Option (List ℝ)) (c a b lgA lgAd : ℝ) (hb : 0 < b)
    (hw : ∀ l, w = some l → ∀ v ∈ l, 0 < v) :
    Defined (envOf (y ++ ([c, a, b, lgA, lgAd] ++ (w.getD []))))
      (gintE (vars 0 y.length) (w.map fun l => vars (y.length + 5) l.length) (var y.length) (var (y.length + 1))
        (var (y.length + 2)) (var (y.length + 3)) (var (y.length + 4))) := by
  have hbv : eval (envOf (y ++ ([c, a, b, lgA, lgAd] ++ (w.getD [])))) (var (y.length + 2)) = b := by
    simp [eval, envOf, List.getD_eq_getElem?_getD]
  have hwl : ∀ l, w = some l →
      (vars (y.length + 5) l.length).map (eval (envOf (y ++ ([c, a, b, lgA, lgAd] ++ l)))) = l := by
    intro l _
    have := map_eval_vars_envOf (y ++ [c, a, b, lgA, lgAd]) l
    simpa [List.append_assoc] using this
  refine defined_gintE _ _ _ _ _ _ _ _ (defined_vars _ _ _) trivial trivial trivial (by rw [hbv]; exact hb.ne')
    trivial trivial ?_ ?_
  · intro l' hl' e he
    cases w with
    | none => simp at hl'
    | some l =>
      simp only [Option.map_some, Option.some.injEq] at hl'
      subst hl'
      refine ⟨defined_vars _ _ _ e he, ?_⟩
      have hmem : eval (envOf (y ++ ([c, a, b, lgA, lgAd] ++ l))) e ∈
          (vars (y.length + 5) l.length).map (eval (envOf (y ++ ([c, a, b, lgA, lgAd] ++ l)))) :=
        List.mem_map_of_mem he
      rw [hwl l rfl] at hmem
      exact (hw l rfl _ hmem).ne'
  · -- the argument of the logarithm is `Σ sq / 2 + rate > 0`
    have hval := sq_sum_nonneg y w hw
    rw [eval_gint_arg, hbv, map_eval_vars_envOf_prefix]
    have harg : (w.map fun l => vars (y.length + 5) l.length).map
          (fun l' => l'.map (eval (envOf (y ++ ([c, a, b, lgA, lgAd] ++ (w.getD []))))))
        = w := by
      cases w with
      | none => rfl
      | some l => simp only [Option.map_some, Option.getD_some, hwl l rfl]
    rw [harg]
    exact (add_pos_of_nonneg_of_pos (div_nonneg hval (by norm_num)) hb).ne'

/-- **GMRFGammaIntegrated, derivative in each field entry** (plain / weighted / time-aware divisors `> 0`,
`rate > 0`). -/
theorem hasDerivAt_gammaIntegrated_field (x : List ℝ) (w : Option (List ℝ)) (c a b lgA lgAd : ℝ) (k : Nat)
    (hk : k < x.length) (hb : 0 < b) (hw : ∀ l, w = some l → ∀ v ∈ l, 0 < v) :
    HasDerivAt (fun t => C20.gammaIntegratedLogProb c a b lgA lgAd (C20.scaledDiffSq w (x.set k t)) x.length)
      (partialD (gintE (vars 0 x.length) (w.map fun l => vars (x.length + 5) l.length) (var x.length)
          (var (x.length + 1)) (var (x.length + 2)) (var (x.length + 3)) (var (x.length + 4)))
        (envOf (x ++ ([c, a, b, lgA, lgAd] ++ (w.getD [])))) k) x[k] := by
  have hk' : k < (x ++ ([c, a, b, lgA, lgAd] ++ (w.getD []))).length := by simp; omega
  have h := hasDerivAt_of_eval' _ _ k
    (fun t => C20.gammaIntegratedLogProb c a b lgA lgAd (C20.scaledDiffSq w (x.set k t)) x.length)
    (gint_defined_env x w c a b lgA lgAd hb hw)
    (fun t => by
      rw [update_envOf _ _ hk', List.set_append_left _ _ hk]
      have := gint_eval_env (x.set k t) w c a b lgA lgAd
      simp only [List.length_set] at this
      rw [this, gintClosed_eq_C20, List.length_set])
  rw [envOf_getElem _ _ hk'] at h
  simpa [List.getElem_append_left hk] using h

/-- **GMRFGammaIntegrated, derivative in the rate hyper-parameter.** -/
theorem hasDerivAt_gammaIntegrated_rate (x : List ℝ) (w : Option (List ℝ)) (c a b lgA lgAd : ℝ)
    (hb : 0 < b) (hw : ∀ l, w = some l → ∀ v ∈ l, 0 < v) :
    HasDerivAt (fun t => C20.gammaIntegratedLogProb c a t lgA lgAd (C20.scaledDiffSq w x) x.length)
      (partialD (gintE (vars 0 x.length) (w.map fun l => vars (x.length + 5) l.length) (var x.length)
          (var (x.length + 1)) (var (x.length + 2)) (var (x.length + 3)) (var (x.length + 4)))
        (envOf (x ++ ([c, a, b, lgA, lgAd] ++ (w.getD [])))) (x.length + 2)) b := by
  have hk' : x.length + 2 < (x ++ ([c, a, b, lgA, lgAd] ++ (w.getD []))).length := by simp
  have h := hasDerivAt_of_eval' _ _ (x.length + 2)
    (fun t => C20.gammaIntegratedLogProb c a t lgA lgAd (C20.scaledDiffSq w x) x.length)
    (gint_defined_env x w c a b lgA lgAd hb hw)
    (fun t => by
      rw [update_envOf _ _ hk', List.set_append_right _ _ (by omega)]
      have := gint_eval_env x w c a t lgA lgAd
      simp only [Nat.add_sub_cancel_left, List.cons_append, List.set_cons_succ, List.set_cons_zero] at this ⊢
      rw [this, gintClosed_eq_C20])
  rw [envOf_getElem _ _ hk'] at h
  simpa using h

/-- the hypotheses are met: field `(1, -2, 3)`, weights `(1/2, 4)`, shape 2, rate 3 -/
example : HasDerivAt
    (fun t => C20.gammaIntegratedLogProb 5 2 3 0 0 (C20.scaledDiffSq (some [1 / 2, 4]) (([1, -2, 3] : List ℝ).set 1 t)) 3)
    (partialD (gintE (vars 0 3) (some (vars 8 2)) (var 3) (var 4) (var 5) (var 6) (var 7))
      (envOf ([1, -2, 3, 5, 2, 3, 0, 0, 1 / 2, 4] : List ℝ)) 1) (-2) := by
  have h := hasDerivAt_gammaIntegrated_field [1, -2, 3] (some [1 / 2, 4]) 5 2 3 0 0 1 (by simp) (by norm_num)
    (by intro l hl v hv; simp at hl; subst hl; simp at hv; rcases hv with rfl | rfl <;> norm_num)
  simpa using h

/-! ## relaxed skygrid (`SoftPiecewiseConstantCoalescentGrid` with a temperature, model `TT.C08.softLogProb`) in `θ` -/

/-- closed form of `∂/∂θ_k`: the relaxed events, their soft lineage counts and the piece weights do not depend on `θ`;
`θ̃(t) = Σ_j w_j(t) θ_j`, so `∂(−A/θ̃)/∂θ_k = A w_k/θ̃²` and `∂(−log θ̃)/∂θ_k = −w_k/θ̃` -/
noncomputable def softGradTheta (τ : ℝ) (θ grid heights : List ℝ) (k : ℕ) : ℝ :=
  ((C08.zip3 (C08.cumsum (C08.softSorted τ heights grid).2).dropLast (C08.diffs (C08.softSorted τ heights grid).1)
      (C08.softSorted τ heights grid).1.tail).map fun p =>
        (p.1 * (p.1 - 1) / 2 * p.2.1) * (C08.pieceWeights τ grid p.2.2).getD k 0 / (C08.softTheta τ θ grid p.2.2) ^ 2).sum
    - ((heights.drop (C08.taxaCount heights)).map fun c =>
        (C08.pieceWeights τ grid c).getD k 0 / C08.softTheta τ θ grid c).sum

theorem list_sum_map_neg {ι : Type} (f : ι → ℝ) : ∀ l : List ι, (l.map fun i => -(f i)).sum = -(l.map f).sum
  | [] => by simp
  | i :: l => by simp only [List.map_cons, List.sum_cons, list_sum_map_neg f l]; ring

/-- **Relaxed skygrid, derivative in each `θ_k`** — every temperature, every input (ties included: nothing is sorted
by `θ`), `θ_j > 0`, one `θ` per piece. -/
theorem hasDerivAt_softLogProb_theta (τ : ℝ) (θ grid heights : List ℝ) (k : ℕ) (hk : k < θ.length)
    (hθ : θ.length = grid.length + 1) (hpos : ∀ b ∈ θ, 0 < b) :
    HasDerivAt (fun t => C08.softLogProb τ (θ.set k t) grid heights) (softGradTheta τ θ grid heights k) θ[k] := by
  have hset : θ.set k θ[k] = θ := List.set_getElem_self hk
  have hth : ∀ s, HasDerivAt (fun t => C08.softTheta τ (θ.set k t) grid s) ((C08.pieceWeights τ grid s).getD k 0) θ[k] :=
    fun s => C08.hasDerivAt_dot_set (C08.pieceWeights τ grid s) θ k θ[k] hk
  have hne : ∀ s, C08.softTheta τ (θ.set k θ[k]) grid s ≠ 0 := by
    intro s; rw [hset]; exact (C08.softTheta_pos τ θ grid s hθ hpos).ne'
  -- the interval part
  have hI : HasDerivAt (fun t => -(C08.softIntegral τ (θ.set k t) grid heights))
      ((C08.zip3 (C08.cumsum (C08.softSorted τ heights grid).2).dropLast (C08.diffs (C08.softSorted τ heights grid).1)
          (C08.softSorted τ heights grid).1.tail).map fun p =>
            (p.1 * (p.1 - 1) / 2 * p.2.1) * (C08.pieceWeights τ grid p.2.2).getD k 0
              / (C08.softTheta τ θ grid p.2.2) ^ 2).sum θ[k] := by
    have hterm : ∀ p ∈ C08.zip3 (C08.cumsum (C08.softSorted τ heights grid).2).dropLast
          (C08.diffs (C08.softSorted τ heights grid).1) (C08.softSorted τ heights grid).1.tail,
        HasDerivAt (fun t => -((p.1 * (p.1 - 1) / 2 * p.2.1) / C08.softTheta τ (θ.set k t) grid p.2.2))
          ((p.1 * (p.1 - 1) / 2 * p.2.1) * (C08.pieceWeights τ grid p.2.2).getD k 0
            / (C08.softTheta τ θ grid p.2.2) ^ 2) θ[k] := by
      intro p _
      have h := ((hasDerivAt_const θ[k] (p.1 * (p.1 - 1) / 2 * p.2.1)).div (hth p.2.2) (hne p.2.2)).neg
      rw [hset] at h
      have heq : -((0 * C08.softTheta τ θ grid p.2.2
            - p.1 * (p.1 - 1) / 2 * p.2.1 * (C08.pieceWeights τ grid p.2.2).getD k 0) / C08.softTheta τ θ grid p.2.2 ^ 2)
          = (p.1 * (p.1 - 1) / 2 * p.2.1) * (C08.pieceWeights τ grid p.2.2).getD k 0
            / (C08.softTheta τ θ grid p.2.2) ^ 2 := by ring
      rw [heq] at h
      exact h
    have hs := C08.hasDerivAt_list_sum _ _ θ[k] _ hterm
    have hfun : (fun t => -(C08.softIntegral τ (θ.set k t) grid heights))
        = fun t => ((C08.zip3 (C08.cumsum (C08.softSorted τ heights grid).2).dropLast
            (C08.diffs (C08.softSorted τ heights grid).1) (C08.softSorted τ heights grid).1.tail).map fun p =>
              -((p.1 * (p.1 - 1) / 2 * p.2.1) / C08.softTheta τ (θ.set k t) grid p.2.2)).sum := by
      funext t
      unfold C08.softIntegral
      simp only
      rw [C08.zipWith3_map_third, C08.zipWith3_eq_map_zip3, list_sum_map_neg]
    rw [hfun]
    exact hs
  -- the log terms
  have hL : HasDerivAt (fun t => C08.softLogs τ (θ.set k t) grid heights)
      ((heights.drop (C08.taxaCount heights)).map fun c =>
        (C08.pieceWeights τ grid c).getD k 0 / C08.softTheta τ θ grid c).sum θ[k] := by
    unfold C08.softLogs
    simp only [trans_log_real]
    apply C08.hasDerivAt_list_sum (fun c t => Real.log (C08.softTheta τ (θ.set k t) grid c))
    intro c _
    have h := (hth c).log (hne c)
    rw [hset] at h
    exact h
  have h := hI.sub hL
  unfold softGradTheta
  exact h

/-- the hypotheses are met: `τ = 1/2`, `θ = (1, 2, 4)`, grid `(1, 3)`, samples 0, 0, 1, coalescences 2, 3; `∂/∂θ₁` -/
example : HasDerivAt (fun t => C08.softLogProb ((1 : ℝ) / 2) (([1, 2, 4] : List ℝ).set 1 t) [1, 3] [0, 0, 1, 2, 3])
    (softGradTheta ((1 : ℝ) / 2) [1, 2, 4] [1, 3] [0, 0, 1, 2, 3] 1) (([1, 2, 4] : List ℝ)[1]) :=
  hasDerivAt_softLogProb_theta ((1 : ℝ) / 2) [1, 2, 4] [1, 3] [0, 0, 1, 2, 3] 1 (by simp) rfl
    (by intro b hb; simp at hb; rcases hb with rfl | rfl | rfl <;> norm_num)

/-! ## piecewise-linear coalescent (`PiecewiseLinearCoalescentGrid`, model `TT.C08.linearLogProb`) in `θ` -/

/-- closed form of `∂/∂θ_k`: the sizes attached to the sorted positions are linear in `θ`, so their `θ_k`-derivatives are
the same sizes computed from the unit vector `e_k`; each interval contributes `C08.dPiece`, each coalescent mark
`p'/p` -/
noncomputable def linGradTheta (θ grid heights : List ℝ) (k : ℕ) : ℝ :=
  -(List.zipWith (fun k q => (C08.choose2 k : ℝ) * q) (C08.lineages (C08.linearSorted heights grid)).tail
      (C08.dPieces (C08.times (C08.linearSorted heights grid)).tail
        (C08.popSizes θ grid (C08.linearSorted heights grid)).tail
        (C08.popSizes (C08.unitVec θ.length k) grid (C08.linearSorted heights grid)).tail)).sum
    - (((C08.linearSorted heights grid).zip
          (C08.cumsum (C08.isMark 0 (C08.marks (C08.linearSorted heights grid))))).map fun z =>
        if z.1.mark = -1 then C08.popEntry (C08.unitVec θ.length k) grid z / C08.popEntry θ grid z else 0).sum

/-- **Piecewise-linear coalescent, derivative in each `θ_k`** — every input order and tie pattern of the heights
(nothing is sorted by `θ`); all sizes at the sorted positions positive (true whenever every `θ_j > 0`:
`C08.popSizes_eq_linN`, `C08.lin_pos`); every two consecutive sizes either differ at the point or coincide identically
in `θ_k` (tied events, events beyond the last knot) — an accidental equality `θ_i = θ_{i+1}` is the excluded set, where
the code switches formula. -/
theorem hasDerivAt_linearLogProb_theta (θ grid heights : List ℝ) (k : ℕ) (hk : k < θ.length)
    (hposP : ∀ p ∈ C08.popSizes θ grid (C08.linearSorted heights grid), 0 < p)
    (hH : C08.FlatOrDistinct θ[k]
      ((((C08.linearSorted heights grid).zip
          (C08.cumsum (C08.isMark 0 (C08.marks (C08.linearSorted heights grid))))).map
        fun z => fun t => C08.popEntry (θ.set k t) grid z).tail)) :
    HasDerivAt (fun t => C08.linearLogProb (θ.set k t) grid heights) (linGradTheta θ grid heights k) θ[k] := by
  set S := C08.linearSorted heights grid with hS
  set Z := S.zip (C08.cumsum (C08.isMark 0 (C08.marks S))) with hZ
  have hset : θ.set k θ[k] = θ := List.set_getElem_self hk
  have hpop : ∀ θ' : List ℝ, C08.popSizes θ' grid S = Z.map (C08.popEntry θ' grid) := fun θ' =>
    C08.popSizes_eq_map θ' grid S
  have hZfst : Z.map Prod.fst = S := by
    rw [hZ]
    apply List.map_fst_zip
    unfold C08.cumsum
    rw [C08.length_cumsumFrom']
    simp [C08.isMark, C08.marks]
  -- interval part
  have hI : HasDerivAt (fun t => C08.linearIntegral (θ.set k t) grid S)
      (List.zipWith (fun k q => (C08.choose2 k : ℝ) * q) (C08.lineages S).tail
        (C08.dPieces (C08.times S).tail (C08.popSizes θ grid S).tail
          (C08.popSizes (C08.unitVec θ.length k) grid S).tail)).sum θ[k] := by
    have h := C08.hasDerivAt_pieces_sum θ[k] (C08.lineages S).tail (C08.times S).tail
      ((Z.map fun z => fun t => C08.popEntry (θ.set k t) grid z).tail)
      ((Z.map (C08.popEntry (C08.unitVec θ.length k) grid)).tail)
      (by simp)
      (fun j hj hj' => by
        simp only [← List.map_tail, List.getElem_map]
        exact C08.hasDerivAt_popEntry_set θ grid _ k θ[k] hk)
      (fun p hp => by
        have hp' := List.mem_of_mem_tail hp
        obtain ⟨z, hz, rfl⟩ := List.mem_map.mp hp'
        show 0 < C08.popEntry (θ.set k θ[k]) grid z
        rw [hset]
        exact hposP _ (by rw [hpop]; exact List.mem_map_of_mem hz))
      hH
    have hfun : (fun t => C08.linearIntegral (θ.set k t) grid S)
        = fun t => (List.zipWith (fun k q => (C08.choose2 k : ℝ) * q) (C08.lineages S).tail
            (C08.pieces (C08.times S).tail
              (((Z.map fun z => fun t => C08.popEntry (θ.set k t) grid z).tail).map fun p => p t))).sum := by
      funext t
      unfold C08.linearIntegral
      rw [hpop, ← List.map_tail, ← List.map_tail, List.map_map]
      rfl
    rw [hfun]
    have hval : ((Z.map fun z => fun t => C08.popEntry (θ.set k t) grid z).tail).map (fun p => p θ[k])
        = (C08.popSizes θ grid S).tail := by
      rw [hpop, ← List.map_tail, ← List.map_tail, List.map_map]
      apply List.map_congr_left
      intro z _
      show C08.popEntry (θ.set k θ[k]) grid z = _
      rw [hset]
    rw [hval, ← hpop] at h
    exact h
  -- log terms
  have hL : HasDerivAt (fun t => C08.linearLogs (θ.set k t) grid S)
      (Z.map fun z => if z.1.mark = -1 then C08.popEntry (C08.unitVec θ.length k) grid z / C08.popEntry θ grid z
        else 0).sum θ[k] := by
    have hfun : (fun t => C08.linearLogs (θ.set k t) grid S)
        = fun t => (Z.map fun z => if z.1.mark = -1 then Real.log (C08.popEntry (θ.set k t) grid z) else 0).sum := by
      funext t
      unfold C08.linearLogs
      simp only [trans_log_real]
      rw [hpop]
      conv_lhs => rw [← hZfst]
      rw [List.zipWith_map_left, List.zipWith_map_right, List.zipWith_self]
    rw [hfun]
    apply C08.hasDerivAt_list_sum
      (fun z t => if z.1.mark = -1 then Real.log (C08.popEntry (θ.set k t) grid z) else 0)
    intro z hz
    by_cases hm : z.1.mark = -1
    · simp only [hm, if_true]
      have hp : 0 < C08.popEntry (θ.set k θ[k]) grid z := by
        rw [hset]; exact hposP _ (by rw [hpop]; exact List.mem_map_of_mem hz)
      have h := (C08.hasDerivAt_popEntry_set θ grid z k θ[k] hk).log hp.ne'
      rw [hset] at h
      exact h
    · simp only [hm, if_false]
      exact hasDerivAt_const _ _
  have h := hI.neg.sub hL
  unfold linGradTheta C08.linearLogProb
  exact h

/-- the sorted events of the instance below: samples 0, 0 (one unique time, multiplicity 2), coalescence at 1, one grid
point at 2 (beyond the root); the sentinel sits at 0 -/
theorem linear_sorted_example :
    C08.linearSorted ([0, 0, 1] : List ℝ) [2] = [⟨0, 0⟩, ⟨0, 2⟩, ⟨1, -1⟩, ⟨2, 0⟩] := by
  simp [C08.linearSorted, C08.linearEvents, C08.zeroHead, C08.sortEvents, C08.uniqueCounts, C08.insertCount,
    C08.taxaCount]
  norm_num [C08.insertEv]

/-- the hypotheses are met: `θ = (1, 3)`, sizes at the sorted positions `1, 1, 2, 3` (consecutive ones after the sentinel
distinct), derivative in `θ₀` -/
example : HasDerivAt (fun t => C08.linearLogProb (([1, 3] : List ℝ).set 0 t) [2] [0, 0, 1])
    (linGradTheta [1, 3] [2] [0, 0, 1] 0) (([1, 3] : List ℝ)[0]) := by
  apply hasDerivAt_linearLogProb_theta [1, 3] [2] [0, 0, 1] 0 (by simp)
  · rw [linear_sorted_example]
    intro p hp
    simp [C08.popSizes, C08.cumsum, C08.cumsumFrom, C08.isMark, C08.marks, C08.interp, C08.bucket] at hp
    rcases hp with rfl | rfl | rfl | rfl <;> norm_num
  · rw [linear_sorted_example]
    simp [C08.FlatOrDistinct, C08.cumsum, C08.cumsumFrom, C08.isMark, C08.marks, C08.popEntry, C08.interp, C08.bucket]
    norm_num

end TTProps.C12_Coalescent
