import TTModel.C02_Names
import TTModel.C01_Patterns
import TTProofs.Lemmas.C02_Names
import TTProofs.Lemmas.C02_Swap
import TTProofs.Lemmas.C02_Reroot
import TTProofs.Lemmas.C02_Data
import TTProofs.Lemmas.C01_Patterns
import TTProofs.Lemmas.C01_Main
import TTProofs.Lemmas.C01_Tables
import TTProofs.Lemmas.C01_Tree
/-!
# C02 — the likelihood is invariant to how the same tree and data are written down

Everything is stated about the C01 model (`likIdx` *is* `TT.C01.siteLik` on the post-order of
`setupIndexes`, with matrices addressed by node index and tip vectors by taxon position — the
computation of the implementation) and about `TT.C01.compress`/`sortSeqs`.
-/
namespace TTProps.C02
open TT TT.C01 TT.C02

section names
variable {β : Type} {R : Type} [CommSemiring R] {K S : Nat}

/-- **The value is a function of the name-indexed tree and data.**  The implementation's
    computation — leaf index = position of the name in `taxa`, internal indices in post-order,
    `mats[b] = P(blens[b])` with `blens` addressed by node index, tip `i` = data of `taxa[i]`, the
    index-addressed pruning loop — is defined and equals the structural recursion `likN`, which
    mentions neither an order nor an index.  (Leaf names pairwise distinct and listed in `taxa`.) -/
theorem lik_by_name (π : Fin S → R) (props : Fin K → R) (P : β → Fin K → Fin S → Fin S → R) (d : β)
    (taxa : List String) (l r : LTree β) (b : β) (data : String → Fin S → R)
    (hsub : ∀ nm ∈ (LTree.node l r b).names, nm ∈ taxa) (hnd : (LTree.node l r b).names.Nodup) :
    likIdx π props P d taxa (.node l r b) data = some (likN π props P data (.node l r b)) :=
  likIdx_eq_likN π props P d taxa l r b data hsub hnd

/-- reordering (or extending) the `Taxa` list leaves the value unchanged -/
theorem lik_perm_taxa (π : Fin S → R) (props : Fin K → R) (P : β → Fin K → Fin S → Fin S → R) (d : β)
    (taxa taxa' : List String) (l r : LTree β) (b : β) (data : String → Fin S → R)
    (hsub : ∀ nm ∈ (LTree.node l r b).names, nm ∈ taxa) (hperm : taxa.Perm taxa')
    (hnd : (LTree.node l r b).names.Nodup) :
    likIdx π props P d taxa (.node l r b) data = likIdx π props P d taxa' (.node l r b) data := by
  rw [lik_by_name π props P d taxa l r b data hsub hnd,
    lik_by_name π props P d taxa' l r b data (fun nm h => hperm.subset (hsub nm h)) hnd]

example : ["A", "B", "C"].Perm ["C", "A", "B"] := by decide

/-- swapping the children of any set of nodes leaves the value unchanged -/
theorem lik_swap_children (π : Fin S → R) (props : Fin K → R) (P : β → Fin K → Fin S → Fin S → R) (d : β)
    (taxa : List String) (T T' : LTree β) (data : String → Fin S → R) (hsw : SwapEq T T')
    (hnode : T.isNode) (hsub : ∀ nm ∈ T.names, nm ∈ taxa) (hnd : T.names.Nodup) :
    likIdx π props P d taxa T data = likIdx π props P d taxa T' data := by
  obtain ⟨l, r, b, rfl⟩ := (isNode_iff T).mp hnode
  obtain ⟨l', r', b', rfl⟩ := (isNode_iff T').mp (hsw.isNode.mp hnode)
  have hp := hsw.names_perm
  rw [lik_by_name π props P d taxa l r b data hsub hnd,
    lik_by_name π props P d taxa l' r' b' data (fun nm h => hsub nm (hp.symm.subset h))
      (hp.nodup_iff.mp hnd)]
  unfold likN
  rw [hsw.partialN P data]

example : SwapEq (LTree.node (.node (.leaf "A" 1) (.leaf "B" 2) 3) (.leaf "C" 4) 0)
    (LTree.node (.leaf "C" 4) (.node (.leaf "B" 2) (.leaf "A" 1) 3) 0) :=
  .trans (.swap _ _ _) (.congr _ (.refl _) (.swap _ _ _))

end names

/-! ## sequences, columns -/

/-- reordering the sequence list leaves the sorted alignment — hence the patterns, weights and every tip
    vector — literally unchanged (sequence names pairwise distinct and listed in `taxa`) -/
theorem lik_perm_sequences (size : Nat) (taxa : List String) (seqs seqs' : List (String × List Char))
    (hp : seqs.Perm seqs') (hnd : (seqs.map (·.1)).Nodup) (hsub : ∀ s ∈ seqs, s.1 ∈ taxa) :
    sortSeqs taxa seqs = sortSeqs taxa seqs' ∧ patterns size taxa seqs = patterns size taxa seqs' ∧
    ∀ nm p, symbolOf taxa seqs nm p = symbolOf taxa seqs' nm p := by
  have h := sortSeqs_perm taxa seqs seqs' hp hnd hsub
  refine ⟨h, ?_, ?_⟩
  · unfold patterns; rw [h]
  · intro nm p; unfold symbolOf; rw [h]

example : ([("B", ['A']), ("A", ['C'])] : List (String × List Char)).Perm [("A", ['C']), ("B", ['A'])] := by
  decide

/-- reordering the alignment columns leaves every pattern-weighted sum (in particular the reported
    `Σ_p w_p log L_p`) unchanged -/
theorem lik_perm_columns {C : Type} [DecidableEq C] [LT C] [DecidableLT C] {M : Type} [AddCommMonoid M]
    (f : C → M) (cols cols' : List C) (hp : cols.Perm cols') :
    ((compress cols).map fun pw => pw.2 • f pw.1).sum = ((compress cols').map fun pw => pw.2 • f pw.1).sum := by
  rw [TT.C01.compress_sum, TT.C01.compress_sum]
  exact (hp.map f).sum_eq

/-- merging identical columns into weighted patterns: a column repeated `m c` times contributes
    `m c • f c`; in particular duplicating the whole alignment doubles the value -/
theorem lik_merge_columns {C : Type} [DecidableEq C] [LT C] [DecidableLT C] {M : Type} [AddCommMonoid M]
    (f : C → M) (cols : List C) (m : C → Nat) :
    ((compress (cols.flatMap fun c => List.replicate (m c) c)).map fun pw => pw.2 • f pw.1).sum
      = (cols.map fun c => m c • f c).sum := by
  rw [TT.C01.compress_sum]
  induction cols with
  | nil => simp
  | cons c cs ih =>
    simp only [List.flatMap_cons, List.map_append, List.sum_append, List.map_cons, List.sum_cons, ih]
    simp [List.sum_replicate]

theorem lik_double_columns {C : Type} [DecidableEq C] [LT C] [DecidableLT C] {M : Type} [AddCommMonoid M]
    (f : C → M) (cols : List C) :
    ((compress (cols ++ cols)).map fun pw => pw.2 • f pw.1).sum
      = 2 • ((compress cols).map fun pw => pw.2 • f pw.1).sum := by
  rw [TT.C01.compress_sum, TT.C01.compress_sum, List.map_append, List.sum_append, two_nsmul]

/-! ## end to end: taxa order and sequence order together -/

/-- **The reported log-likelihood is a function of name-indexed data only.**  `reported` composes the model's
    functions exactly as `TreeLikelihoodModel` does (alignment sorted into `Taxa` order, `compress`, tip `i` = vector
    of the symbol `patterns[taxa[i]]`, indices from `Taxa` order, matrices by node index, the pruning loop,
    `Σ_p w_p log L_p`).  It equals `Σ_{sites j} log likN(name ↦ vec(j-th symbol of the sequence named so))`,
    an expression in which neither the order of `taxa` nor the order of `seqs` occurs. -/
theorem reported_by_name {β : Type} {K S : Nat} (π : Fin S → ℝ) (props : Fin K → ℝ)
    (P : β → Fin K → Fin S → Fin S → ℝ) (d : β) (vec : Sym → Fin S → ℝ) (size : Nat) (taxa : List String)
    (seqs : List (String × List Char)) (l r : LTree β) (b : β) (m : Nat)
    (hseq_nd : (seqs.map (·.1)).Nodup) (hseq_ne : seqs ≠ [])
    (hlen : ∀ s ∈ seqs, (splitSyms size s.2).length = m)
    (hsub : ∀ nm ∈ (LTree.node l r b).names, nm ∈ taxa) (hnd : (LTree.node l r b).names.Nodup)
    (hhas : ∀ nm ∈ (LTree.node l r b).names, nm ∈ seqs.map (·.1)) :
    reported π props P d vec size taxa seqs (.node l r b)
      = ((List.range m).map fun j => Real.log (likN π props P
          (fun nm => vec ((splitSyms size (seqOf seqs nm)).getD j [])) (.node l r b))).sum :=
  TT.C02.reported_by_name π props P d vec size taxa seqs l r b m hseq_nd hseq_ne hlen hsub hnd hhas

/-- reordering the `Taxa` list AND the sequence list leaves the reported log-likelihood unchanged -/
theorem reported_perm {β : Type} {K S : Nat} (π : Fin S → ℝ) (props : Fin K → ℝ)
    (P : β → Fin K → Fin S → Fin S → ℝ) (d : β) (vec : Sym → Fin S → ℝ) (size : Nat)
    (taxa taxa' : List String) (seqs seqs' : List (String × List Char)) (l r : LTree β) (b : β) (m : Nat)
    (htaxa : taxa.Perm taxa') (hseqs : seqs.Perm seqs')
    (hseq_nd : (seqs.map (·.1)).Nodup) (hseq_ne : seqs ≠ [])
    (hlen : ∀ s ∈ seqs, (splitSyms size s.2).length = m)
    (hsub : ∀ nm ∈ (LTree.node l r b).names, nm ∈ taxa) (hnd : (LTree.node l r b).names.Nodup)
    (hhas : ∀ nm ∈ (LTree.node l r b).names, nm ∈ seqs.map (·.1)) :
    reported π props P d vec size taxa seqs (.node l r b)
      = reported π props P d vec size taxa' seqs' (.node l r b) := by
  rw [reported_by_name π props P d vec size taxa seqs l r b m hseq_nd hseq_ne hlen hsub hnd hhas,
    reported_by_name π props P d vec size taxa' seqs' l r b m
      ((hseqs.map _).nodup_iff.mp hseq_nd)
      (fun e => hseq_ne (by rw [e] at hseqs; exact hseqs.eq_nil))
      (fun s hs => hlen s (hseqs.symm.subset hs))
      (fun nm h => htaxa.subset (hsub nm h)) hnd
      (fun nm h => (hseqs.map _).subset (hhas nm h))]
  congr 1
  refine List.map_congr_left fun j _ => ?_
  simp only [seqOf_perm seqs seqs' hseqs hseq_nd]

/-! ## tip states vs tip partials -/

/-- With unknown / ambiguous symbols treated as missing (`use_ambiguities = False`), the tip-state
    representation (`compress_alignment_states` + `calculate_treelikelihood_tip_states_discrete`) and the
    tip-partial representation give the same value for nucleotide data, provided the rows of every
    transition matrix sum to one.  `code i` is the character (code point `< 128`) of taxon `i`. -/
theorem tipStates_vs_partials {R : Type} [CommSemiring R] {K : Nat}
    (π : Fin 4 → R) (props : Fin K → R) (mats : Mats R K 4) (code : Nat → Nat) (hcode : ∀ i, code i < 128)
    (n : Nat) (l r : BTree) (hleaves : ∀ i ∈ (BTree.node l r).leaves, i < n)
    (hn : (BTree.node l r).leaves.length = n) (hrow : ∀ b k s, ∑ j, mats b k s j = 1) :
    siteLikTS π props mats (postorder (setupIndexes n (.node l r)))
        (fun i => (nucTipStateCode (code i)).getD 0)
      = siteLik π props mats (postorder (setupIndexes n (.node l r))) n
        (fun i j => (((nucPartialCode false (code i)).getD []).getD j.val 0 : Nat)) := by
  rw [TT.C01.tipStates_eq_tipPartials π props mats _ n l r hleaves hn hrow]
  congr 1
  funext i j
  rw [TT.C01.tipstate_table (code i) (hcode i), TT.C01.noamb_table (code i) (hcode i)]
  simp only [Option.getD_some, stateVec]
  have : (List.ofFn (stateVec (α := Nat) (S := 4) (TT.C01.plainState (code i)))).getD j.val 0
      = stateVec (α := Nat) (S := 4) (TT.C01.plainState (code i)) j := by
    rw [List.getD_eq_getElem?_getD, List.getElem?_ofFn]
    simp
  rw [this]
  simp only [stateVec]
  split <;> [split <;> simp; simp]

/-! ## moving the root: the pulley principle -/

section reroot
variable {L : Type} [AddCommMonoid L] {R : Type} [CommSemiring R] {K S : Nat}
  {π : Fin S → R} {P : L → Fin K → Fin S → Fin S → R}

/-- the branch `UnRootedTreeModel` drops (`blens[:-1]`, index `2n−3`) and `_call` re-creates with length zero is one
    of the two ROOT branches: the root's right child when that is internal, otherwise its left child; the root
    itself is numbered `2n−2`.  Together with `reroot_edge` this is why the `2n−3` stored lengths plus one zero
    represent the unrooted tree. -/
theorem unrooted_zero_branch_is_root_branch (n : Nat) (l r : BTree)
    (hn : (BTree.node l r).leaves.length = n) :
    ∃ il ir, setupIndexes n (.node l r) = .node (2 * n - 2) il ir ∧
      ((∃ a b, r = .node a b) → ir.idx = 2 * n - 3) ∧
      ((∃ t, r = .leaf t) → (∃ a b, l = .node a b) → il.idx = 2 * n - 3) :=
  root_child_last n l r hn

example : setupIndexes 3 (.node (.node (.leaf 2) (.leaf 0)) (.leaf 1)) = .node 4 (.node 3 (.leaf 2) (.leaf 0)) (.leaf 1) := by
  decide

/-- only the SUM of the two root branch lengths matters (this is why `UnRootedTreeModel` may store
    `a+b` on one root child and `0` on the other, whichever child that is) -/
theorem reroot_edge (h : Pulley π P) (props : Fin K → R) (data : String → Fin S → R)
    (l r : LTree L) (b0 a' b' : L) (hsum : a' + b' = l.branch + r.branch) :
    likN π props P data (slideRoot a' b' (.node l r b0)) = likN π props P data (.node l r b0) :=
  likN_slideRoot h props data l r b0 a' b' hsum

/-- moving the root across one internal node (summing the two root branch lengths) -/
theorem reroot_step (h : Pulley π P) (props : Fin K → R) (data : String → Fin S → R) (T : LTree L) :
    likN π props P data (stepLeft T) = likN π props P data T ∧
    likN π props P data (stepRight T) = likN π props P data T :=
  ⟨likN_stepLeft h props data T, likN_stepRight h props data T⟩

/-- any sequence of root moves, and every one of the rootings enumerated by `allRootings`
    (the given one, every branch inside the left child, every branch inside the right child) -/
theorem reroot_any (h : Pulley π P) (props : Fin K → R) (data : String → Fin S → R) (T : LTree L) :
    (∀ ms : List Move, likN π props P data (reroot ms T) = likN π props P data T) ∧
    (∀ T' ∈ allRootings T, likN π props P data T' = likN π props P data T) :=
  ⟨fun ms => likN_reroot h props data ms T, fun T' hm => likN_allRootings h props data T T' hm⟩

/-- `allRootings` lists `2n − 3` rooted trees — one per branch of the unrooted tree with `n` leaves (that they sit
    on pairwise different branches is checked by the correspondence run, exactly, on every generated tree) -/
theorem allRootings_count {L : Type} [Add L] [Zero L] (l r : LTree L) (b : L) :
    (allRootings (.node l r b)).length = 2 * (LTree.node l r b).names.length - 3 :=
  allRootings_length l r b

/-- the hypotheses are satisfiable non-trivially: the two-state symmetric chain on `ℚ`-valued lengths
    `P(t) = ½(1+2^{-t}) / ½(1−2^{-t})` is too transcendental for a one-line example; the degenerate
    but non-vacuous instance `P ≡ I` (any `π`) satisfies all three clauses -/
example : Pulley (L := Nat) (K := 1) (S := 2) (fun _ => (1 : ℚ)) (fun _ _ s j => if s = j then 1 else 0) where
  rev := by intro a k s j; by_cases h : s = j <;> simp [h, eq_comm]
  zero := by intro k s j; rfl
  semigroup := by
    intro a b k s j
    simp

example : (allRootings (LTree.node (.node (.leaf "A" (1 : Nat)) (.leaf "B" 2) 3)
    (.node (.leaf "C" 4) (.leaf "D" 5) 6) 0)).length = 5 := by decide

end reroot

end TTProps.C02
