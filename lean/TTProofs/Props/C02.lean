/-! C02 property theorems — stub (not built yet). -/
namespace TTProps.C02
end TTProps.C02
