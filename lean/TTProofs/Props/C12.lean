import TTProofs.Lemmas.C12_Builders
import TTProofs.Lemmas.C12_Sort
/-!
# C12 — gradients are the derivatives of the reported densities (property theorems)

What is a theorem here: the forward-mode (dual number) evaluation of the MODEL of each density is
the true partial derivative of the model's value (`dual_sound`, every expression, unbounded size),
instantiated for the coalescent densities, the GMRF, the discretised Weibull rates, the
ratio→height transform with its log-Jacobian, the JC69 transition probabilities, and the pruning
recursion (multi-affine in the edge matrices).  What ties it to torchtree: the harness compares
the implementation's value and autograd gradient with the model's value and tangent evaluated at
`Dual Float` on the same inputs (`drv_c12`), and evaluates the property's own oracle (finite
differences of the implementation's value) on the real code.
-/
namespace TTProps.C12
open TT TT.C12 TT.C12.Expr

/-! ## the generic theorem -/

/-- **Forward-mode evaluation is differentiation**, for every expression over
`+ − × ÷ neg exp log sqrt pow`, literals and variables (any size), at every point where the
expression is defined, in every coordinate. -/
theorem dual_sound_all (e : Expr) (x : Nat → ℝ) (i : Nat) (h : Defined x e) :
    HasDerivAt (fun t => eval (Function.update x i t) e) (eval (seed x i) e).d (x i) :=
  dual_sound e x i h

/-- the value part of the dual evaluation is the value -/
theorem dual_value_all (e : Expr) (x : Nat → ℝ) (i : Nat) : (eval (seed x i) e).v = eval x e :=
  dual_value e x i

/-- a non-trivial instance: `log(x₀ · exp(x₁)) / x₀` at `(2, 3)` in the coordinate `0` -/
example : HasDerivAt
    (fun t : ℝ => eval (Function.update (envOf ([2, 3] : List ℝ)) 0 t) (div (log (mul (var 0) (exp (var 1)))) (var 0)))
    (partialD (div (log (mul (var 0) (exp (var 1)))) (var 0)) (envOf ([2, 3] : List ℝ)) 0) 2 := by
  have h : Defined (envOf ([2, 3] : List ℝ)) (div (log (mul (var 0) (exp (var 1)))) (var 0)) := by
    refine ⟨⟨⟨trivial, trivial⟩, ?_⟩, trivial, ?_⟩ <;> simp [eval, envOf, Real.exp_ne_zero]
  have := dual_sound_all _ (envOf ([2, 3] : List ℝ)) 0 h
  simpa [envOf, partialD] using this

/-- derivative of a finite sum of expressions = sum of the forward-mode tangents (sums of any length) -/
theorem partialD_sum (x : Nat → ℝ) (i : Nat) (l : List Expr) :
    partialD (sumL l) x i = (l.map fun e => partialD e x i).sum :=
  partialD_sumL x i l

/-! ## constant-size coalescent (`ConstantCoalescent.log_prob`, model `TT.C08.constantLogProb`) -/

/-- value of the builder: `Σ -C(k,2)·Δt/θ − m·log θ` over the sorted events -/
theorem eval_constantE (ρ : Nat → ℝ) (θ : Expr) (ts : List Expr) (marks : List Int) (m : Nat) :
    eval ρ (constantE θ ts marks m) =
      (List.zipWith (fun k d => -(C08.choose2 k : ℝ) * d / eval ρ θ) (lineagesM marks)
        (C08.diffs (ts.map (eval ρ)))).sum - (m : ℝ) * Real.log (eval ρ θ) := by
  simp only [constantE, eval, eval_sumL_real, List.map_zipWith, eval_choose2E, trans_log_real]
  rw [← map_eval_diffsE, List.zipWith_map_right]

theorem defined_constantE (ρ : Nat → ℝ) (θ : Expr) (ts : List Expr) (marks : List Int) (m : Nat)
    (hθ : Defined ρ θ) (h0 : eval ρ θ ≠ 0) (hts : ∀ e ∈ ts, Defined ρ e) :
    Defined ρ (constantE θ ts marks m) := by
  refine ⟨(defined_sumL _ _).2 (mem_zipWith fun k _ d hd => ?_), trivial, hθ, h0⟩
  exact ⟨⟨defined_choose2E ρ k, defined_diffsE ρ ts hts d hd⟩, hθ, h0⟩

/-- the C08 model of the constant coalescent IS the builder evaluated on its sorted events -/
theorem constantLogProb_eq_eval (θ : ℝ) (heights : List ℝ) :
    C08.constantLogProb θ heights =
      eval (envOf (θ :: C08.times (C08.sortEvents (C08.mkEvents heights []))))
        (constantE (var 0) (vars 1 (C08.sortEvents (C08.mkEvents heights [])).length)
          (C08.marks (C08.sortEvents (C08.mkEvents heights []))) (C08.taxaCount heights - 1)) := by
  rw [eval_constantE]
  have hlen : (C08.sortEvents (C08.mkEvents heights [])).length
      = (C08.times (C08.sortEvents (C08.mkEvents heights []))).length := by simp [C08.times]
  rw [hlen]
  have := map_eval_vars_envOf [θ] (C08.times (C08.sortEvents (C08.mkEvents heights [])))
  simp only [List.length_singleton, List.singleton_append] at this
  rw [this]
  simp [C08.constantLogProb, C08.constantIntegral, C08.lineages, lineagesM, eval, envOf]

/-- **Constant coalescent, derivative in θ** (no condition on ties: the sort does not involve θ):
the forward-mode tangent of the builder is the derivative of the C08 model's log-density. -/
theorem hasDerivAt_constantLogProb_theta (heights : List ℝ) (θ : ℝ) (hθ : θ ≠ 0) :
    HasDerivAt (fun t => C08.constantLogProb t heights)
      (partialD (constantE (var 0) (vars 1 (C08.sortEvents (C08.mkEvents heights [])).length)
          (C08.marks (C08.sortEvents (C08.mkEvents heights []))) (C08.taxaCount heights - 1))
        (envOf (θ :: C08.times (C08.sortEvents (C08.mkEvents heights [])))) 0) θ := by
  have h := hasDerivAt_of_eval'
    (constantE (var 0) (vars 1 (C08.sortEvents (C08.mkEvents heights [])).length)
          (C08.marks (C08.sortEvents (C08.mkEvents heights []))) (C08.taxaCount heights - 1))
    (envOf (θ :: C08.times (C08.sortEvents (C08.mkEvents heights [])))) 0
    (fun t => C08.constantLogProb t heights)
    (defined_constantE _ _ _ _ _ trivial (by simpa [eval, envOf] using hθ) (defined_vars _ _ _))
    (fun t => by
      rw [update_envOf _ 0 (by simp)]
      simpa using constantLogProb_eq_eval t heights)
  simpa [envOf] using h


/-- **Constant coalescent, derivative in an internal height away from ties.**  If `heights[i]` is
tied with no other entry of the height vector, and `j` is the position of `heights[i]` in the sorted
event list, the forward-mode tangent of the builder in the variable of that sorted time is the
derivative of the C08 model's log-density with respect to `heights[i]`. -/
theorem hasDerivAt_constantLogProb_height (θ : ℝ) (heights : List ℝ) (i : Nat) (hi : i < heights.length)
    (hθ : θ ≠ 0)
    (hnotie : ∀ k (hk : k < heights.length), k ≠ i → heights[k] ≠ heights[i])
    (j : Nat) (hj : j < (C08.times (C08.sortEvents (C08.mkEvents heights []))).length)
    (hjt : (C08.times (C08.sortEvents (C08.mkEvents heights [])))[j] = heights[i]) :
    HasDerivAt (fun t => C08.constantLogProb θ (heights.set i t))
      (partialD (constantE (var 0) (vars 1 (C08.sortEvents (C08.mkEvents heights [])).length)
          (C08.marks (C08.sortEvents (C08.mkEvents heights []))) (C08.taxaCount heights - 1))
        (envOf (θ :: C08.times (C08.sortEvents (C08.mkEvents heights [])))) (j + 1)) heights[i] := by
  have hlen : ∀ l : List (C08.Ev ℝ), l.length = (C08.times l).length := fun l => by simp [C08.times]
  have hj' : j + 1 < (θ :: C08.times (C08.sortEvents (C08.mkEvents heights []))).length := by simpa using hj
  have h := hasDerivAt_of_eval
    (constantE (var 0) (vars 1 (C08.sortEvents (C08.mkEvents heights [])).length)
          (C08.marks (C08.sortEvents (C08.mkEvents heights []))) (C08.taxaCount heights - 1))
    (envOf (θ :: C08.times (C08.sortEvents (C08.mkEvents heights [])))) (j + 1)
    (fun t => C08.constantLogProb θ (heights.set i t))
    (defined_constantE _ _ _ _ _ trivial (by simpa [eval, envOf] using hθ) (defined_vars _ _ _))
    (by
      rw [envOf_getElem _ _ hj']
      simp only [List.getElem_cons_succ, hjt]
      filter_upwards [eventually_sorted_after_set heights [] i hi hnotie (by simp) j hj hjt] with t ht
      have hl : (C08.sortEvents (C08.mkEvents (heights.set i t) [])).length
          = (C08.sortEvents (C08.mkEvents heights [])).length := by
        rw [hlen, hlen, ht.2, List.length_set]
      rw [update_envOf _ _ hj', constantLogProb_eq_eval, ht.1, ht.2, hl]
      simp [C08.taxaCount])
  rw [envOf_getElem _ _ hj'] at h
  simpa [hjt] using h

/-! ## skyride (`PiecewiseConstantCoalescent.log_prob`, model `TT.C08.skyrideLogProb`) -/

theorem eval_skyrideE (ρ : Nat → ℝ) (θs ts : List Expr) (marks : List Int) :
    eval ρ (skyrideE θs ts marks) =
      -(C08.zipWith3 (fun k d i => (C08.choose2 k : ℝ) * d / (θs.map (eval ρ)).getD i 0) (lineagesM marks)
          (C08.diffs (ts.map (eval ρ))) (skyrideIdxM marks)).sum
        - ((θs.map (eval ρ)).map Real.log).sum := by
  simp only [skyrideE, eval, eval_sumL_real, map_zipWith3, eval_choose2E, eval_getD, List.map_map]
  rw [← map_eval_diffsE, zipWith3_map_mid]
  rfl

theorem defined_skyrideE (ρ : Nat → ℝ) (θs ts : List Expr) (marks : List Int)
    (hθ : ∀ e ∈ θs, Defined ρ e ∧ eval ρ e ≠ 0) (hts : ∀ e ∈ ts, Defined ρ e)
    (hidx : ∀ i ∈ skyrideIdxM marks, i < θs.length) :
    Defined ρ (skyrideE θs ts marks) := by
  refine ⟨(defined_sumL _ _).2 (mem_zipWith3 fun k _ d hd i hi => ?_), (defined_sumL _ _).2 ?_⟩
  · have hmem : θs.getD i (nat 0) ∈ θs := by
      rw [List.getD_eq_getElem?_getD, List.getElem?_eq_getElem (hidx i hi)]; simp
    exact ⟨⟨defined_choose2E ρ k, defined_diffsE ρ ts hts d hd⟩, (hθ _ hmem).1, (hθ _ hmem).2⟩
  · intro e he
    obtain ⟨a, ha, rfl⟩ := List.mem_map.mp he
    exact hθ a ha

/-- the C08 skyride model is the builder evaluated on its sorted events; variables: `θ` first, then
the sorted event times -/
theorem skyrideLogProb_eq_eval (θ heights : List ℝ) :
    C08.skyrideLogProb θ heights =
      eval (envOf (θ ++ C08.times (C08.sortEvents (C08.mkEvents heights []))))
        (skyrideE (vars 0 θ.length) (vars θ.length (C08.sortEvents (C08.mkEvents heights [])).length)
          (C08.marks (C08.sortEvents (C08.mkEvents heights [])))) := by
  rw [eval_skyrideE]
  have hlen : (C08.sortEvents (C08.mkEvents heights [])).length
      = (C08.times (C08.sortEvents (C08.mkEvents heights []))).length := by simp [C08.times]
  rw [hlen, map_eval_vars_envOf, map_eval_vars_envOf_prefix]
  simp only [C08.skyrideLogProb, C08.skyrideIntegral, C08.lineages, lineagesM, C08.skyrideIdx, skyrideIdxM]
  rfl

/-- **Skyride, derivative in each θ_k** (no condition on ties). -/
theorem hasDerivAt_skyrideLogProb_theta (θ heights : List ℝ) (k : Nat) (hk : k < θ.length)
    (hθ : ∀ x ∈ θ, x ≠ 0)
    (hidx : ∀ i ∈ skyrideIdxM (C08.marks (C08.sortEvents (C08.mkEvents heights []))), i < θ.length) :
    HasDerivAt (fun t => C08.skyrideLogProb (θ.set k t) heights)
      (partialD (skyrideE (vars 0 θ.length) (vars θ.length (C08.sortEvents (C08.mkEvents heights [])).length)
          (C08.marks (C08.sortEvents (C08.mkEvents heights []))))
        (envOf (θ ++ C08.times (C08.sortEvents (C08.mkEvents heights [])))) k) θ[k] := by
  have hk' : k < (θ ++ C08.times (C08.sortEvents (C08.mkEvents heights []))).length := by
    simp; omega
  have hdef : Defined (envOf (θ ++ C08.times (C08.sortEvents (C08.mkEvents heights []))))
      (skyrideE (vars 0 θ.length) (vars θ.length (C08.sortEvents (C08.mkEvents heights [])).length)
          (C08.marks (C08.sortEvents (C08.mkEvents heights [])))) := by
    refine defined_skyrideE _ _ _ _ ?_ (defined_vars _ _ _) (by simpa [vars_length] using hidx)
    intro e he
    refine ⟨defined_vars _ _ _ e he, ?_⟩
    have : eval (envOf (θ ++ C08.times (C08.sortEvents (C08.mkEvents heights [])))) e ∈
        (vars 0 θ.length).map (eval (envOf (θ ++ C08.times (C08.sortEvents (C08.mkEvents heights []))))) :=
      List.mem_map_of_mem he
    rw [map_eval_vars_envOf_prefix] at this
    exact hθ _ this
  have h := hasDerivAt_of_eval' _ _ k (fun t => C08.skyrideLogProb (θ.set k t) heights) hdef
    (fun t => by
      rw [update_envOf _ _ hk', List.set_append_left _ _ hk]
      simpa using skyrideLogProb_eq_eval (θ.set k t) heights)
  rw [envOf_getElem _ _ hk'] at h
  simpa [List.getElem_append_left hk] using h

/-- **Skyride, derivative in an internal height away from ties.** -/
theorem hasDerivAt_skyrideLogProb_height (θ heights : List ℝ) (i : Nat) (hi : i < heights.length)
    (hθ : ∀ x ∈ θ, x ≠ 0)
    (hidx : ∀ i ∈ skyrideIdxM (C08.marks (C08.sortEvents (C08.mkEvents heights []))), i < θ.length)
    (hnotie : ∀ k (hk : k < heights.length), k ≠ i → heights[k] ≠ heights[i])
    (j : Nat) (hj : j < (C08.times (C08.sortEvents (C08.mkEvents heights []))).length)
    (hjt : (C08.times (C08.sortEvents (C08.mkEvents heights [])))[j] = heights[i]) :
    HasDerivAt (fun t => C08.skyrideLogProb θ (heights.set i t))
      (partialD (skyrideE (vars 0 θ.length) (vars θ.length (C08.sortEvents (C08.mkEvents heights [])).length)
          (C08.marks (C08.sortEvents (C08.mkEvents heights []))))
        (envOf (θ ++ C08.times (C08.sortEvents (C08.mkEvents heights [])))) (θ.length + j)) heights[i] := by
  have hlen : ∀ l : List (C08.Ev ℝ), l.length = (C08.times l).length := fun l => by simp [C08.times]
  have hj' : θ.length + j < (θ ++ C08.times (C08.sortEvents (C08.mkEvents heights []))).length := by
    simp; omega
  have hdef : Defined (envOf (θ ++ C08.times (C08.sortEvents (C08.mkEvents heights []))))
      (skyrideE (vars 0 θ.length) (vars θ.length (C08.sortEvents (C08.mkEvents heights [])).length)
          (C08.marks (C08.sortEvents (C08.mkEvents heights [])))) := by
    refine defined_skyrideE _ _ _ _ ?_ (defined_vars _ _ _) (by simpa [vars_length] using hidx)
    intro e he
    refine ⟨defined_vars _ _ _ e he, ?_⟩
    have : eval (envOf (θ ++ C08.times (C08.sortEvents (C08.mkEvents heights [])))) e ∈
        (vars 0 θ.length).map (eval (envOf (θ ++ C08.times (C08.sortEvents (C08.mkEvents heights []))))) :=
      List.mem_map_of_mem he
    rw [map_eval_vars_envOf_prefix] at this
    exact hθ _ this
  have hval : envOf (θ ++ C08.times (C08.sortEvents (C08.mkEvents heights []))) (θ.length + j) = heights[i] := by
    rw [envOf_getElem _ _ hj', List.getElem_append_right (by omega)]
    simpa using hjt
  have h := hasDerivAt_of_eval _ _ (θ.length + j) (fun t => C08.skyrideLogProb θ (heights.set i t)) hdef
    (by
      rw [hval]
      filter_upwards [eventually_sorted_after_set heights [] i hi hnotie (by simp) j hj hjt] with t ht
      have hl : (C08.sortEvents (C08.mkEvents (heights.set i t) [])).length
          = (C08.sortEvents (C08.mkEvents heights [])).length := by
        rw [hlen, hlen, ht.2, List.length_set]
      rw [update_envOf _ _ hj', skyrideLogProb_eq_eval, ht.1, ht.2, hl]
      rw [List.set_append_right _ _ (by omega)]
      simp)
  rwa [hval] at h


/-! ## skygrid (`PiecewiseConstantCoalescentGrid.log_prob`, model `TT.C08.skygridLogProb`) -/

theorem sum_zipWith3_neg {α β γ : Type} (g : α → β → γ → ℝ) :
    ∀ (l₁ : List α) (l₂ : List β) (l₃ : List γ),
      (C08.zipWith3 (fun a b c => -(g a b c)) l₁ l₂ l₃).sum = -(C08.zipWith3 g l₁ l₂ l₃).sum
  | [], _, _ => by simp [C08.zipWith3]
  | _ :: _, [], _ => by simp [C08.zipWith3]
  | _ :: _, _ :: _, [] => by simp [C08.zipWith3]
  | a :: l₁, b :: l₂, c :: l₃ => by
    simp only [C08.zipWith3, List.sum_cons, sum_zipWith3_neg g l₁ l₂ l₃]; ring

theorem eval_skygridE (ρ : Nat → ℝ) (θs ts : List Expr) (marks : List Int) (hL : marks.length = ts.length) :
    eval ρ (skygridE θs ts marks) =
      -(C08.zipWith3 (fun k d i => (C08.choose2 k : ℝ) * d / (θs.map (eval ρ)).getD i 0) (lineagesM marks)
          (C08.diffs (ts.map (eval ρ))) (skygridIdxM marks).dropLast).sum
        - ((List.zipWith (fun m i => if m = -1 then Real.log ((θs.map (eval ρ)).getD i 0) else (0 : ℝ)) marks
            (skygridIdxM marks)).tail).sum := by
  simp only [skygridE, eval_sumL_real, List.map_zipWith, eval]
  have h1 : ∀ (l₁ l₂ : List Expr), List.zipWith (fun a b => eval ρ a - eval ρ b) l₁ l₂
      = List.zipWith (fun a b => a - b) (l₁.map (eval ρ)) (l₂.map (eval ρ)) := by
    intro l₁ l₂; rw [List.zipWith_map]
  rw [h1, sum_zipWith_sub]
  · congr 1
    · rw [map_zipWith3]
      simp only [eval, eval_choose2E, eval_getD]
      rw [← sum_zipWith3_neg, ← map_eval_diffsE, zipWith3_map_mid]
      have hf : (fun (a : Int) (b : Expr) (c : Nat) => -C08.choose2 a * eval ρ b / (List.map (eval ρ) θs).getD c 0)
          = fun a b c => -((C08.choose2 a : ℝ) * eval ρ b / (List.map (eval ρ) θs).getD c 0) := by
        funext k d i; ring
      rw [hf]
    · rw [List.map_tail, List.map_zipWith]
      have hf : (fun (x : Int) (y : Nat) => eval ρ (if x = -1 then (θs.getD y (nat 0)).log else nat 0))
          = fun m i => if m = -1 then Real.log ((List.map (eval ρ) θs).getD i 0) else (0 : ℝ) := by
        funext m i
        split
        · simp only [eval, trans_log_real, eval_getD]
        · simp [eval]
      rw [hf]
  · simp only [List.length_map, List.length_tail, List.length_zipWith, length_zipWith3, lineagesM, skygridIdxM,
      List.length_dropLast, length_cumsum, C08.isMark]
    have : (diffsE ts).length = ts.length - 1 := by
      have := congrArg List.length (map_eval_diffsE ρ ts)
      simpa [length_diffs] using this
    rw [this]
    omega

theorem defined_skygridE (ρ : Nat → ℝ) (θs ts : List Expr) (marks : List Int)
    (hθ : ∀ e ∈ θs, Defined ρ e ∧ eval ρ e ≠ 0) (hts : ∀ e ∈ ts, Defined ρ e)
    (hidx : ∀ i ∈ skygridIdxM marks, i < θs.length) :
    Defined ρ (skygridE θs ts marks) := by
  have hget : ∀ i, i < θs.length → θs.getD i (nat 0) ∈ θs := fun i hi => by
    rw [List.getD_eq_getElem?_getD, List.getElem?_eq_getElem hi]; simp
  refine (defined_sumL _ _).2 (mem_zipWith fun a ha b hb => ⟨?_, ?_⟩)
  · revert a
    refine mem_zipWith3 fun k _ d hd i hi => ?_
    have hi' := hidx i (List.mem_of_mem_dropLast hi)
    exact ⟨⟨defined_choose2E ρ k, defined_diffsE ρ ts hts d hd⟩, (hθ _ (hget i hi')).1, (hθ _ (hget i hi')).2⟩
  · have hall : ∀ b ∈ List.zipWith (fun (m : Int) (i : Nat) => if m = -1 then (θs.getD i (nat 0)).log else nat 0)
        marks (skygridIdxM marks), Defined ρ b := by
      refine mem_zipWith fun m _ i hi => ?_
      split
      · exact ⟨(hθ _ (hget i (hidx i hi))).1, (hθ _ (hget i (hidx i hi))).2⟩
      · trivial
    exact hall b (List.mem_of_mem_tail hb)

theorem skygridLogProb_eq_eval (θ grid heights : List ℝ) :
    C08.skygridLogProb θ grid heights =
      eval (envOf (θ ++ C08.times (C08.sortEvents (C08.mkEvents heights grid))))
        (skygridE (vars 0 θ.length) (vars θ.length (C08.sortEvents (C08.mkEvents heights grid)).length)
          (C08.marks (C08.sortEvents (C08.mkEvents heights grid)))) := by
  rw [eval_skygridE _ _ _ _ (by simp [C08.marks, vars_length])]
  have hlen : (C08.sortEvents (C08.mkEvents heights grid)).length
      = (C08.times (C08.sortEvents (C08.mkEvents heights grid))).length := by simp [C08.times]
  rw [hlen, map_eval_vars_envOf, map_eval_vars_envOf_prefix]
  simp only [C08.skygridLogProb, C08.skygridIntegral, C08.skygridLogs, C08.lineages, lineagesM, C08.skygridIdx,
    skygridIdxM]
  rfl


theorem defined_skygrid_vars (θ grid heights : List ℝ) (hθ : ∀ x ∈ θ, x ≠ 0)
    (hidx : ∀ i ∈ skygridIdxM (C08.marks (C08.sortEvents (C08.mkEvents heights grid))), i < θ.length) :
    Defined (envOf (θ ++ C08.times (C08.sortEvents (C08.mkEvents heights grid))))
      (skygridE (vars 0 θ.length) (vars θ.length (C08.sortEvents (C08.mkEvents heights grid)).length)
          (C08.marks (C08.sortEvents (C08.mkEvents heights grid)))) := by
  refine defined_skygridE _ _ _ _ ?_ (defined_vars _ _ _) (by simpa [vars_length] using hidx)
  intro e he
  refine ⟨defined_vars _ _ _ e he, ?_⟩
  have : eval (envOf (θ ++ C08.times (C08.sortEvents (C08.mkEvents heights grid)))) e ∈
      (vars 0 θ.length).map (eval (envOf (θ ++ C08.times (C08.sortEvents (C08.mkEvents heights grid))))) :=
    List.mem_map_of_mem he
  rw [map_eval_vars_envOf_prefix] at this
  exact hθ _ this

/-- **Skygrid, derivative in each θ_k** (no condition on ties). -/
theorem hasDerivAt_skygridLogProb_theta (θ grid heights : List ℝ) (k : Nat) (hk : k < θ.length)
    (hθ : ∀ x ∈ θ, x ≠ 0)
    (hidx : ∀ i ∈ skygridIdxM (C08.marks (C08.sortEvents (C08.mkEvents heights grid))), i < θ.length) :
    HasDerivAt (fun t => C08.skygridLogProb (θ.set k t) grid heights)
      (partialD (skygridE (vars 0 θ.length) (vars θ.length (C08.sortEvents (C08.mkEvents heights grid)).length)
          (C08.marks (C08.sortEvents (C08.mkEvents heights grid))))
        (envOf (θ ++ C08.times (C08.sortEvents (C08.mkEvents heights grid)))) k) θ[k] := by
  have hk' : k < (θ ++ C08.times (C08.sortEvents (C08.mkEvents heights grid))).length := by
    simp; omega
  have h := hasDerivAt_of_eval' _ _ k (fun t => C08.skygridLogProb (θ.set k t) grid heights)
    (defined_skygrid_vars θ grid heights hθ hidx)
    (fun t => by
      rw [update_envOf _ _ hk', List.set_append_left _ _ hk]
      simpa using skygridLogProb_eq_eval (θ.set k t) grid heights)
  rw [envOf_getElem _ _ hk'] at h
  simpa [List.getElem_append_left hk] using h

/-- **Skygrid, derivative in an internal height away from ties** (ties with other heights AND with
grid points excluded). -/
theorem hasDerivAt_skygridLogProb_height (θ grid heights : List ℝ) (i : Nat) (hi : i < heights.length)
    (hθ : ∀ x ∈ θ, x ≠ 0)
    (hidx : ∀ i ∈ skygridIdxM (C08.marks (C08.sortEvents (C08.mkEvents heights grid))), i < θ.length)
    (hnotie : ∀ k (hk : k < heights.length), k ≠ i → heights[k] ≠ heights[i])
    (hgrid : ∀ g ∈ grid, g ≠ heights[i])
    (j : Nat) (hj : j < (C08.times (C08.sortEvents (C08.mkEvents heights grid))).length)
    (hjt : (C08.times (C08.sortEvents (C08.mkEvents heights grid)))[j] = heights[i]) :
    HasDerivAt (fun t => C08.skygridLogProb θ grid (heights.set i t))
      (partialD (skygridE (vars 0 θ.length) (vars θ.length (C08.sortEvents (C08.mkEvents heights grid)).length)
          (C08.marks (C08.sortEvents (C08.mkEvents heights grid))))
        (envOf (θ ++ C08.times (C08.sortEvents (C08.mkEvents heights grid)))) (θ.length + j)) heights[i] := by
  have hlen : ∀ l : List (C08.Ev ℝ), l.length = (C08.times l).length := fun l => by simp [C08.times]
  have hj' : θ.length + j < (θ ++ C08.times (C08.sortEvents (C08.mkEvents heights grid))).length := by
    simp; omega
  have hval : envOf (θ ++ C08.times (C08.sortEvents (C08.mkEvents heights grid))) (θ.length + j) = heights[i] := by
    rw [envOf_getElem _ _ hj', List.getElem_append_right (by omega)]
    simpa using hjt
  have h := hasDerivAt_of_eval _ _ (θ.length + j) (fun t => C08.skygridLogProb θ grid (heights.set i t))
    (defined_skygrid_vars θ grid heights hθ hidx)
    (by
      rw [hval]
      filter_upwards [eventually_sorted_after_set heights grid i hi hnotie hgrid j hj hjt] with t ht
      have hl : (C08.sortEvents (C08.mkEvents (heights.set i t) grid)).length
          = (C08.sortEvents (C08.mkEvents heights grid)).length := by
        rw [hlen, hlen, ht.2, List.length_set]
      rw [update_envOf _ _ hj', skygridLogProb_eq_eval, ht.1, ht.2, hl]
      rw [List.set_append_right _ _ (by omega)]
      simp)
  rwa [hval] at h

/-- the hypotheses are met by a concrete genealogy: 3 taxa sampled at 0, 0, 1, coalescences at 2 and 4,
one grid point at 3, `θ = (2, 3)`; height index 3 (the coalescence at 2) sits at sorted position 3 -/
example : HasDerivAt (fun t => C08.skygridLogProb [2, 3] [3] (([0, 0, 1, 2, 4] : List ℝ).set 3 t))
    (partialD (skygridE (vars 0 2) (vars 2 6) [1, 1, 1, -1, 0, -1]) (envOf ([2, 3, 0, 0, 1, 2, 3, 4] : List ℝ)) 5)
    2 := by
  have hs : C08.sortEvents (C08.mkEvents ([0, 0, 1, 2, 4] : List ℝ) [3])
      = [⟨0, 1⟩, ⟨0, 1⟩, ⟨1, 1⟩, ⟨2, -1⟩, ⟨3, 0⟩, ⟨4, -1⟩] := by
    have hm : C08.mkEvents ([0, 0, 1, 2, 4] : List ℝ) [3]
        = [⟨0, 1⟩, ⟨0, 1⟩, ⟨1, 1⟩, ⟨2, -1⟩, ⟨4, -1⟩, ⟨3, 0⟩] := by
      simp [C08.mkEvents, C08.taxaCount, C08.nodeMask, List.replicate]
    rw [hm]
    norm_num [C08.sortEvents, C08.insertEv]
  have h := hasDerivAt_skygridLogProb_height [2, 3] [3] ([0, 0, 1, 2, 4] : List ℝ) 3 (by simp)
    (by intro x hx; simp at hx; rcases hx with rfl | rfl <;> norm_num)
    (by rw [hs]; decide)
    (by
      intro k hk hne
      have : k < 5 := by simpa using hk
      rcases k with _ | _ | _ | _ | _ | k
      · norm_num
      · norm_num
      · norm_num
      · exact absurd rfl hne
      · norm_num
      · omega)
    (by intro g hg; simp at hg; subst hg; norm_num)
    3 (by simp [hs, C08.times]) (by simp [hs, C08.times])
  simpa [hs, C08.times, C08.marks] using h

end TTProps.C12
