import TTProofs.Lemmas.C12_Instances
import TTProofs.Lemmas.C12_Sort
import TTProofs.Lemmas.C12_Pruning
import TTProofs.Lemmas.C01_Pruning
/-!
# C12 — gradients are the derivatives of the reported densities (property theorems)

What is a theorem here: the forward-mode (dual number) evaluation of the MODEL of each density is
the true partial derivative of the model's value (`dual_sound`, every expression, unbounded size),
instantiated for the coalescent densities, the GMRF, the discretised Weibull rates, the
ratio→height transform with its log-Jacobian, the JC69 transition probabilities, and the pruning
recursion (multi-affine in the edge matrices).  What ties it to torchtree: the harness compares
the implementation's value and autograd gradient with the model's value and tangent evaluated at
`Dual Float` on the same inputs (`drv_c12`), and evaluates the property's own oracle (finite
differences of the implementation's value) on the real code.
-/
namespace TTProps.C12
open TT TT.C12 TT.C12.Expr

/-! ## the generic theorem -/

/-- **Forward-mode evaluation is differentiation**, for every expression over
`+ − × ÷ neg exp log sqrt pow`, literals and variables (any size), at every point where the
expression is defined, in every coordinate. -/
theorem dual_sound_all (e : Expr) (x : Nat → ℝ) (i : Nat) (h : Defined x e) :
    HasDerivAt (fun t => eval (Function.update x i t) e) (eval (seed x i) e).d (x i) :=
  dual_sound e x i h

/-- the value part of the dual evaluation is the value -/
theorem dual_value_all (e : Expr) (x : Nat → ℝ) (i : Nat) : (eval (seed x i) e).v = eval x e :=
  dual_value e x i

/-- a non-trivial instance: `log(x₀ · exp(x₁)) / x₀` at `(2, 3)` in the coordinate `0` -/
example : HasDerivAt
    (fun t : ℝ => eval (Function.update (envOf ([2, 3] : List ℝ)) 0 t) (div (log (mul (var 0) (exp (var 1)))) (var 0)))
    (partialD (div (log (mul (var 0) (exp (var 1)))) (var 0)) (envOf ([2, 3] : List ℝ)) 0) 2 := by
  have h : Defined (envOf ([2, 3] : List ℝ)) (div (log (mul (var 0) (exp (var 1)))) (var 0)) := by
    refine ⟨⟨⟨trivial, trivial⟩, ?_⟩, trivial, ?_⟩ <;> simp [eval, envOf, Real.exp_ne_zero]
  have := dual_sound_all _ (envOf ([2, 3] : List ℝ)) 0 h
  simpa [envOf, partialD] using this

/-- derivative of a finite sum of expressions = sum of the forward-mode tangents (sums of any length) -/
theorem partialD_sum (x : Nat → ℝ) (i : Nat) (l : List Expr) :
    partialD (sumL l) x i = (l.map fun e => partialD e x i).sum :=
  partialD_sumL x i l

/-! ## constant-size coalescent (`ConstantCoalescent.log_prob`, model `TT.C08.constantLogProb`) -/

/-- the C08 model of the constant coalescent IS the builder evaluated on its sorted events -/
theorem constantLogProb_eq_eval (θ : ℝ) (heights : List ℝ) :
    C08.constantLogProb θ heights =
      eval (envOf (θ :: C08.times (C08.sortEvents (C08.mkEvents heights []))))
        (constantE (var 0) (vars 1 (C08.sortEvents (C08.mkEvents heights [])).length)
          (C08.marks (C08.sortEvents (C08.mkEvents heights []))) (C08.taxaCount heights - 1)) := by
  rw [eval_constantE]
  have hlen : (C08.sortEvents (C08.mkEvents heights [])).length
      = (C08.times (C08.sortEvents (C08.mkEvents heights []))).length := by simp [C08.times]
  rw [hlen]
  have := map_eval_vars_envOf [θ] (C08.times (C08.sortEvents (C08.mkEvents heights [])))
  simp only [List.length_singleton, List.singleton_append] at this
  rw [this]
  simp [C08.constantLogProb, C08.constantIntegral, C08.lineages, lineagesM, eval, envOf]

/-- **Constant coalescent, derivative in θ** (no condition on ties: the sort does not involve θ):
the forward-mode tangent of the builder is the derivative of the C08 model's log-density. -/
theorem hasDerivAt_constantLogProb_theta (heights : List ℝ) (θ : ℝ) (hθ : θ ≠ 0) :
    HasDerivAt (fun t => C08.constantLogProb t heights)
      (partialD (constantE (var 0) (vars 1 (C08.sortEvents (C08.mkEvents heights [])).length)
          (C08.marks (C08.sortEvents (C08.mkEvents heights []))) (C08.taxaCount heights - 1))
        (envOf (θ :: C08.times (C08.sortEvents (C08.mkEvents heights [])))) 0) θ := by
  have h := hasDerivAt_of_eval'
    (constantE (var 0) (vars 1 (C08.sortEvents (C08.mkEvents heights [])).length)
          (C08.marks (C08.sortEvents (C08.mkEvents heights []))) (C08.taxaCount heights - 1))
    (envOf (θ :: C08.times (C08.sortEvents (C08.mkEvents heights [])))) 0
    (fun t => C08.constantLogProb t heights)
    (defined_constantE _ _ _ _ _ trivial (by simpa [eval, envOf] using hθ) (defined_vars _ _ _))
    (fun t => by
      rw [update_envOf _ 0 (by simp)]
      simpa using constantLogProb_eq_eval t heights)
  simpa [envOf] using h


/-- **Constant coalescent, derivative in an internal height away from ties.**  If `heights[i]` is
tied with no other entry of the height vector, and `j` is the position of `heights[i]` in the sorted
event list, the forward-mode tangent of the builder in the variable of that sorted time is the
derivative of the C08 model's log-density with respect to `heights[i]`. -/
theorem hasDerivAt_constantLogProb_height (θ : ℝ) (heights : List ℝ) (i : Nat) (hi : i < heights.length)
    (hθ : θ ≠ 0)
    (hnotie : ∀ k (hk : k < heights.length), k ≠ i → heights[k] ≠ heights[i])
    (j : Nat) (hj : j < (C08.times (C08.sortEvents (C08.mkEvents heights []))).length)
    (hjt : (C08.times (C08.sortEvents (C08.mkEvents heights [])))[j] = heights[i]) :
    HasDerivAt (fun t => C08.constantLogProb θ (heights.set i t))
      (partialD (constantE (var 0) (vars 1 (C08.sortEvents (C08.mkEvents heights [])).length)
          (C08.marks (C08.sortEvents (C08.mkEvents heights []))) (C08.taxaCount heights - 1))
        (envOf (θ :: C08.times (C08.sortEvents (C08.mkEvents heights [])))) (j + 1)) heights[i] := by
  have hlen : ∀ l : List (C08.Ev ℝ), l.length = (C08.times l).length := fun l => by simp [C08.times]
  have hj' : j + 1 < (θ :: C08.times (C08.sortEvents (C08.mkEvents heights []))).length := by simpa using hj
  have h := hasDerivAt_of_eval
    (constantE (var 0) (vars 1 (C08.sortEvents (C08.mkEvents heights [])).length)
          (C08.marks (C08.sortEvents (C08.mkEvents heights []))) (C08.taxaCount heights - 1))
    (envOf (θ :: C08.times (C08.sortEvents (C08.mkEvents heights [])))) (j + 1)
    (fun t => C08.constantLogProb θ (heights.set i t))
    (defined_constantE _ _ _ _ _ trivial (by simpa [eval, envOf] using hθ) (defined_vars _ _ _))
    (by
      rw [envOf_getElem _ _ hj']
      simp only [List.getElem_cons_succ, hjt]
      filter_upwards [eventually_sorted_after_set heights [] i hi hnotie (by simp) j hj hjt] with t ht
      have hl : (C08.sortEvents (C08.mkEvents (heights.set i t) [])).length
          = (C08.sortEvents (C08.mkEvents heights [])).length := by
        rw [hlen, hlen, ht.2, List.length_set]
      rw [update_envOf _ _ hj', constantLogProb_eq_eval, ht.1, ht.2, hl]
      simp [C08.taxaCount])
  rw [envOf_getElem _ _ hj'] at h
  simpa [hjt] using h

/-! ## skyride (`PiecewiseConstantCoalescent.log_prob`, model `TT.C08.skyrideLogProb`) -/

/-- the C08 skyride model is the builder evaluated on its sorted events; variables: `θ` first, then
the sorted event times -/
theorem skyrideLogProb_eq_eval (θ heights : List ℝ) :
    C08.skyrideLogProb θ heights =
      eval (envOf (θ ++ C08.times (C08.sortEvents (C08.mkEvents heights []))))
        (skyrideE (vars 0 θ.length) (vars θ.length (C08.sortEvents (C08.mkEvents heights [])).length)
          (C08.marks (C08.sortEvents (C08.mkEvents heights [])))) := by
  rw [eval_skyrideE]
  have hlen : (C08.sortEvents (C08.mkEvents heights [])).length
      = (C08.times (C08.sortEvents (C08.mkEvents heights []))).length := by simp [C08.times]
  rw [hlen, map_eval_vars_envOf, map_eval_vars_envOf_prefix]
  simp only [C08.skyrideLogProb, C08.skyrideIntegral, C08.lineages, lineagesM, C08.skyrideIdx, skyrideIdxM]
  rfl

/-- **Skyride, derivative in each θ_k** (no condition on ties). -/
theorem hasDerivAt_skyrideLogProb_theta (θ heights : List ℝ) (k : Nat) (hk : k < θ.length)
    (hθ : ∀ x ∈ θ, x ≠ 0)
    (hidx : ∀ i ∈ skyrideIdxM (C08.marks (C08.sortEvents (C08.mkEvents heights []))), i < θ.length) :
    HasDerivAt (fun t => C08.skyrideLogProb (θ.set k t) heights)
      (partialD (skyrideE (vars 0 θ.length) (vars θ.length (C08.sortEvents (C08.mkEvents heights [])).length)
          (C08.marks (C08.sortEvents (C08.mkEvents heights []))))
        (envOf (θ ++ C08.times (C08.sortEvents (C08.mkEvents heights [])))) k) θ[k] := by
  have hk' : k < (θ ++ C08.times (C08.sortEvents (C08.mkEvents heights []))).length := by
    simp; omega
  have hdef : Defined (envOf (θ ++ C08.times (C08.sortEvents (C08.mkEvents heights []))))
      (skyrideE (vars 0 θ.length) (vars θ.length (C08.sortEvents (C08.mkEvents heights [])).length)
          (C08.marks (C08.sortEvents (C08.mkEvents heights [])))) := by
    refine defined_skyrideE _ _ _ _ ?_ (defined_vars _ _ _) (by simpa [vars_length] using hidx)
    intro e he
    refine ⟨defined_vars _ _ _ e he, ?_⟩
    have : eval (envOf (θ ++ C08.times (C08.sortEvents (C08.mkEvents heights [])))) e ∈
        (vars 0 θ.length).map (eval (envOf (θ ++ C08.times (C08.sortEvents (C08.mkEvents heights []))))) :=
      List.mem_map_of_mem he
    rw [map_eval_vars_envOf_prefix] at this
    exact hθ _ this
  have h := hasDerivAt_of_eval' _ _ k (fun t => C08.skyrideLogProb (θ.set k t) heights) hdef
    (fun t => by
      rw [update_envOf _ _ hk', List.set_append_left _ _ hk]
      simpa using skyrideLogProb_eq_eval (θ.set k t) heights)
  rw [envOf_getElem _ _ hk'] at h
  simpa [List.getElem_append_left hk] using h

/-- **Skyride, derivative in an internal height away from ties.** -/
theorem hasDerivAt_skyrideLogProb_height (θ heights : List ℝ) (i : Nat) (hi : i < heights.length)
    (hθ : ∀ x ∈ θ, x ≠ 0)
    (hidx : ∀ i ∈ skyrideIdxM (C08.marks (C08.sortEvents (C08.mkEvents heights []))), i < θ.length)
    (hnotie : ∀ k (hk : k < heights.length), k ≠ i → heights[k] ≠ heights[i])
    (j : Nat) (hj : j < (C08.times (C08.sortEvents (C08.mkEvents heights []))).length)
    (hjt : (C08.times (C08.sortEvents (C08.mkEvents heights [])))[j] = heights[i]) :
    HasDerivAt (fun t => C08.skyrideLogProb θ (heights.set i t))
      (partialD (skyrideE (vars 0 θ.length) (vars θ.length (C08.sortEvents (C08.mkEvents heights [])).length)
          (C08.marks (C08.sortEvents (C08.mkEvents heights []))))
        (envOf (θ ++ C08.times (C08.sortEvents (C08.mkEvents heights [])))) (θ.length + j)) heights[i] := by
  have hlen : ∀ l : List (C08.Ev ℝ), l.length = (C08.times l).length := fun l => by simp [C08.times]
  have hj' : θ.length + j < (θ ++ C08.times (C08.sortEvents (C08.mkEvents heights []))).length := by
    simp; omega
  have hdef : Defined (envOf (θ ++ C08.times (C08.sortEvents (C08.mkEvents heights []))))
      (skyrideE (vars 0 θ.length) (vars θ.length (C08.sortEvents (C08.mkEvents heights [])).length)
          (C08.marks (C08.sortEvents (C08.mkEvents heights [])))) := by
    refine defined_skyrideE _ _ _ _ ?_ (defined_vars _ _ _) (by simpa [vars_length] using hidx)
    intro e he
    refine ⟨defined_vars _ _ _ e he, ?_⟩
    have : eval (envOf (θ ++ C08.times (C08.sortEvents (C08.mkEvents heights [])))) e ∈
        (vars 0 θ.length).map (eval (envOf (θ ++ C08.times (C08.sortEvents (C08.mkEvents heights []))))) :=
      List.mem_map_of_mem he
    rw [map_eval_vars_envOf_prefix] at this
    exact hθ _ this
  have hval : envOf (θ ++ C08.times (C08.sortEvents (C08.mkEvents heights []))) (θ.length + j) = heights[i] := by
    rw [envOf_getElem _ _ hj', List.getElem_append_right (by omega)]
    simpa using hjt
  have h := hasDerivAt_of_eval _ _ (θ.length + j) (fun t => C08.skyrideLogProb θ (heights.set i t)) hdef
    (by
      rw [hval]
      filter_upwards [eventually_sorted_after_set heights [] i hi hnotie (by simp) j hj hjt] with t ht
      have hl : (C08.sortEvents (C08.mkEvents (heights.set i t) [])).length
          = (C08.sortEvents (C08.mkEvents heights [])).length := by
        rw [hlen, hlen, ht.2, List.length_set]
      rw [update_envOf _ _ hj', skyrideLogProb_eq_eval, ht.1, ht.2, hl]
      rw [List.set_append_right _ _ (by omega)]
      simp)
  rwa [hval] at h


/-! ## skygrid (`PiecewiseConstantCoalescentGrid.log_prob`, model `TT.C08.skygridLogProb`) -/

theorem skygridLogProb_eq_eval (θ grid heights : List ℝ) :
    C08.skygridLogProb θ grid heights =
      eval (envOf (θ ++ C08.times (C08.sortEvents (C08.mkEvents heights grid))))
        (skygridE (vars 0 θ.length) (vars θ.length (C08.sortEvents (C08.mkEvents heights grid)).length)
          (C08.marks (C08.sortEvents (C08.mkEvents heights grid)))) := by
  rw [eval_skygridE _ _ _ _ (by simp [C08.marks, vars_length])]
  have hlen : (C08.sortEvents (C08.mkEvents heights grid)).length
      = (C08.times (C08.sortEvents (C08.mkEvents heights grid))).length := by simp [C08.times]
  rw [hlen, map_eval_vars_envOf, map_eval_vars_envOf_prefix]
  simp only [C08.skygridLogProb, C08.skygridIntegral, C08.skygridLogs, C08.lineages, lineagesM, C08.skygridIdx,
    skygridIdxM]
  rfl


theorem defined_skygrid_vars (θ grid heights : List ℝ) (hθ : ∀ x ∈ θ, x ≠ 0)
    (hidx : ∀ i ∈ skygridIdxM (C08.marks (C08.sortEvents (C08.mkEvents heights grid))), i < θ.length) :
    Defined (envOf (θ ++ C08.times (C08.sortEvents (C08.mkEvents heights grid))))
      (skygridE (vars 0 θ.length) (vars θ.length (C08.sortEvents (C08.mkEvents heights grid)).length)
          (C08.marks (C08.sortEvents (C08.mkEvents heights grid)))) := by
  refine defined_skygridE _ _ _ _ ?_ (defined_vars _ _ _) (by simpa [vars_length] using hidx)
  intro e he
  refine ⟨defined_vars _ _ _ e he, ?_⟩
  have : eval (envOf (θ ++ C08.times (C08.sortEvents (C08.mkEvents heights grid)))) e ∈
      (vars 0 θ.length).map (eval (envOf (θ ++ C08.times (C08.sortEvents (C08.mkEvents heights grid))))) :=
    List.mem_map_of_mem he
  rw [map_eval_vars_envOf_prefix] at this
  exact hθ _ this

/-- **Skygrid, derivative in each θ_k** (no condition on ties). -/
theorem hasDerivAt_skygridLogProb_theta (θ grid heights : List ℝ) (k : Nat) (hk : k < θ.length)
    (hθ : ∀ x ∈ θ, x ≠ 0)
    (hidx : ∀ i ∈ skygridIdxM (C08.marks (C08.sortEvents (C08.mkEvents heights grid))), i < θ.length) :
    HasDerivAt (fun t => C08.skygridLogProb (θ.set k t) grid heights)
      (partialD (skygridE (vars 0 θ.length) (vars θ.length (C08.sortEvents (C08.mkEvents heights grid)).length)
          (C08.marks (C08.sortEvents (C08.mkEvents heights grid))))
        (envOf (θ ++ C08.times (C08.sortEvents (C08.mkEvents heights grid)))) k) θ[k] := by
  have hk' : k < (θ ++ C08.times (C08.sortEvents (C08.mkEvents heights grid))).length := by
    simp; omega
  have h := hasDerivAt_of_eval' _ _ k (fun t => C08.skygridLogProb (θ.set k t) grid heights)
    (defined_skygrid_vars θ grid heights hθ hidx)
    (fun t => by
      rw [update_envOf _ _ hk', List.set_append_left _ _ hk]
      simpa using skygridLogProb_eq_eval (θ.set k t) grid heights)
  rw [envOf_getElem _ _ hk'] at h
  simpa [List.getElem_append_left hk] using h

/-- **Skygrid, derivative in an internal height away from ties** (ties with other heights AND with
grid points excluded). -/
theorem hasDerivAt_skygridLogProb_height (θ grid heights : List ℝ) (i : Nat) (hi : i < heights.length)
    (hθ : ∀ x ∈ θ, x ≠ 0)
    (hidx : ∀ i ∈ skygridIdxM (C08.marks (C08.sortEvents (C08.mkEvents heights grid))), i < θ.length)
    (hnotie : ∀ k (hk : k < heights.length), k ≠ i → heights[k] ≠ heights[i])
    (hgrid : ∀ g ∈ grid, g ≠ heights[i])
    (j : Nat) (hj : j < (C08.times (C08.sortEvents (C08.mkEvents heights grid))).length)
    (hjt : (C08.times (C08.sortEvents (C08.mkEvents heights grid)))[j] = heights[i]) :
    HasDerivAt (fun t => C08.skygridLogProb θ grid (heights.set i t))
      (partialD (skygridE (vars 0 θ.length) (vars θ.length (C08.sortEvents (C08.mkEvents heights grid)).length)
          (C08.marks (C08.sortEvents (C08.mkEvents heights grid))))
        (envOf (θ ++ C08.times (C08.sortEvents (C08.mkEvents heights grid)))) (θ.length + j)) heights[i] := by
  have hlen : ∀ l : List (C08.Ev ℝ), l.length = (C08.times l).length := fun l => by simp [C08.times]
  have hj' : θ.length + j < (θ ++ C08.times (C08.sortEvents (C08.mkEvents heights grid))).length := by
    simp; omega
  have hval : envOf (θ ++ C08.times (C08.sortEvents (C08.mkEvents heights grid))) (θ.length + j) = heights[i] := by
    rw [envOf_getElem _ _ hj', List.getElem_append_right (by omega)]
    simpa using hjt
  have h := hasDerivAt_of_eval _ _ (θ.length + j) (fun t => C08.skygridLogProb θ grid (heights.set i t))
    (defined_skygrid_vars θ grid heights hθ hidx)
    (by
      rw [hval]
      filter_upwards [eventually_sorted_after_set heights grid i hi hnotie hgrid j hj hjt] with t ht
      have hl : (C08.sortEvents (C08.mkEvents (heights.set i t) grid)).length
          = (C08.sortEvents (C08.mkEvents heights grid)).length := by
        rw [hlen, hlen, ht.2, List.length_set]
      rw [update_envOf _ _ hj', skygridLogProb_eq_eval, ht.1, ht.2, hl]
      rw [List.set_append_right _ _ (by omega)]
      simp)
  rwa [hval] at h

/-- the hypotheses are met by a concrete genealogy: 3 taxa sampled at 0, 0, 1, coalescences at 2 and 4,
one grid point at 3, `θ = (2, 3)`; height index 3 (the coalescence at 2) sits at sorted position 3 -/
example : HasDerivAt (fun t => C08.skygridLogProb [2, 3] [3] (([0, 0, 1, 2, 4] : List ℝ).set 3 t))
    (partialD (skygridE (vars 0 2) (vars 2 6) [1, 1, 1, -1, 0, -1]) (envOf ([2, 3, 0, 0, 1, 2, 3, 4] : List ℝ)) 5)
    2 := by
  have hs : C08.sortEvents (C08.mkEvents ([0, 0, 1, 2, 4] : List ℝ) [3])
      = [⟨0, 1⟩, ⟨0, 1⟩, ⟨1, 1⟩, ⟨2, -1⟩, ⟨3, 0⟩, ⟨4, -1⟩] := by
    have hm : C08.mkEvents ([0, 0, 1, 2, 4] : List ℝ) [3]
        = [⟨0, 1⟩, ⟨0, 1⟩, ⟨1, 1⟩, ⟨2, -1⟩, ⟨4, -1⟩, ⟨3, 0⟩] := by
      simp [C08.mkEvents, C08.taxaCount, C08.nodeMask, List.replicate]
    rw [hm]
    norm_num [C08.sortEvents, C08.insertEv]
  have h := hasDerivAt_skygridLogProb_height [2, 3] [3] ([0, 0, 1, 2, 4] : List ℝ) 3 (by simp)
    (by intro x hx; simp at hx; rcases hx with rfl | rfl <;> norm_num)
    (by rw [hs]; decide)
    (by
      intro k hk hne
      have : k < 5 := by simpa using hk
      rcases k with _ | _ | _ | _ | _ | k
      · norm_num
      · norm_num
      · norm_num
      · exact absurd rfl hne
      · norm_num
      · omega)
    (by intro g hg; simp at hg; subst hg; norm_num)
    3 (by simp [hs, C08.times]) (by simp [hs, C08.times])
  simpa [hs, C08.times, C08.marks] using h


/-! ## GMRF (`GMRF._call` without tree; own closed form — no other property models it yet) -/

/-- **GMRF, derivative in each field entry** (variables: field, then `τ`, then `c`, then weights). -/
theorem hasDerivAt_gmrf_field (x : List ℝ) (τ c : ℝ) (w : Option (List ℝ)) (k : Nat) (hk : k < x.length)
    (hτ : τ ≠ 0) (hw : ∀ l, w = some l → ∀ v ∈ l, v ≠ 0) :
    HasDerivAt (fun t => gmrfLogDensity (x.set k t) τ w c)
      (partialD (gmrfE (vars 0 x.length) (var x.length) (w.map fun l => vars (x.length + 2) l.length)
          (var (x.length + 1)))
        (envOf (x ++ ([τ, c] ++ (w.getD [])))) k) x[k] := by
  have hk' : k < (x ++ ([τ, c] ++ (w.getD []))).length := by simp; omega
  have h := hasDerivAt_of_eval' _ _ k (fun t => gmrfLogDensity (x.set k t) τ w c)
    (gmrf_defined_env x τ c w hτ hw)
    (fun t => by
      rw [update_envOf _ _ hk', List.set_append_left _ _ hk]
      have := gmrf_eval_env (x.set k t) τ c w
      simp only [List.length_set] at this
      exact this.symm)
  rw [envOf_getElem _ _ hk'] at h
  simpa [List.getElem_append_left hk] using h

/-- **GMRF, derivative in the precision.** -/
theorem hasDerivAt_gmrf_precision (x : List ℝ) (τ c : ℝ) (w : Option (List ℝ))
    (hτ : τ ≠ 0) (hw : ∀ l, w = some l → ∀ v ∈ l, v ≠ 0) :
    HasDerivAt (fun t => gmrfLogDensity x t w c)
      (partialD (gmrfE (vars 0 x.length) (var x.length) (w.map fun l => vars (x.length + 2) l.length)
          (var (x.length + 1)))
        (envOf (x ++ ([τ, c] ++ (w.getD [])))) x.length) τ := by
  have hk' : x.length < (x ++ ([τ, c] ++ (w.getD []))).length := by simp
  have h := hasDerivAt_of_eval' _ _ x.length (fun t => gmrfLogDensity x t w c)
    (gmrf_defined_env x τ c w hτ hw)
    (fun t => by
      rw [update_envOf _ _ hk', List.set_append_right _ _ (le_refl _)]
      have := gmrf_eval_env x t c w
      simpa using this.symm)
  rw [envOf_getElem _ _ hk'] at h
  simpa using h

/-- the hypotheses are met: field `(1, -2, 3)`, precision `2`, weights `(1/2, 4)` -/
example : HasDerivAt (fun t => gmrfLogDensity [1, t, 3] 2 (some [1 / 2, 4]) 5)
    (partialD (gmrfE (vars 0 3) (var 3) (some (vars 5 2)) (var 4)) (envOf ([1, -2, 3, 2, 5, 1 / 2, 4] : List ℝ)) 1)
    (-2) := by
  have h := hasDerivAt_gmrf_field [1, -2, 3] 2 5 (some [1 / 2, 4]) 1 (by simp) (by norm_num)
    (by intro l hl v hv; simp at hl; subst hl; simp at hv; rcases hv with rfl | rfl <;> norm_num)
  simpa using h


/-! ## JC69 transition probabilities (`JC69.p_t`, model `TT.C04.jc69P`) -/

theorem jc69P_eq_eval (t : ℝ) (i j : Fin 4) :
    C04.jc69P t i j = eval (envOf [t]) (if i = j then jcDiagE (var 0) else jcOffE (var 0)) := by
  by_cases h : i = j <;> simp [h, C04.jc69P, jcDiagE, jcOffE, ratio, eval, envOf]

/-- **JC69: every entry of `P(t)` in `t`.** -/
theorem hasDerivAt_jc69P (t : ℝ) (i j : Fin 4) :
    HasDerivAt (fun s => C04.jc69P s i j)
      (partialD (if i = j then jcDiagE (var 0) else jcOffE (var 0)) (envOf [t]) 0) t := by
  have h := hasDerivAt_of_eval' _ (envOf [t]) 0 (fun s => C04.jc69P s i j) (defined_jc _ i j)
    (fun s => by
      rw [update_envOf _ 0 (by simp)]
      simpa using jc69P_eq_eval s i j)
  simpa [envOf] using h

/-- the tangent is the familiar `−exp(−4t/3)` on the diagonal -/
example (t : ℝ) : partialD (jcDiagE (var 0)) (envOf [t]) 0 = -Real.exp (-4 / 3 * t) := by
  simp only [partialD, jcDiagE, ratio, eval, seed, envOf, Dual.add_d, Dual.mul_d, Dual.div_d, Dual.div_v,
    Dual.exp_d, Dual.exp_v, Dual.mul_v, Dual.neg_v, Dual.neg_d, Dual.natCast_v, Dual.natCast_d, trans_exp_real,
    List.getD_cons_zero, if_true]
  norm_num
  ring_nf

/-! ## discretised Weibull site rates (`WeibullSiteModel.rates`, model `TT.C05.weibull`) -/

/-- **value link**: category `i` of the builder is the rate `i` of the C05 Weibull site model -/
theorem weibull_rate_eq_eval (K : Nat) (shape : ℝ) (mu : Option ℝ) (i : Fin K) :
    (C05.weibull K shape none mu).rates i =
      eval (envOf (shape :: mu.toList))
        ((weibullRatesE K (var 0) none (mu.map fun _ => var 1)).getD i.val (nat 0)) := by
  have hlen : i.val < ((List.range K).map (weibullIcdfE (var 0) K)).length := by simp
  cases mu with
  | none =>
    simp only [weibullRatesE, Option.map_none, List.getD_eq_getElem?_getD, List.getElem?_map,
      List.getElem?_range i.isLt, Option.map_some, Option.getD_some, eval, eval_weibull_norm,
      eval_weibullIcdfE _ _ K i.val i.isLt]
    simp [C05.weibull, C05.discretized, C05.normalise, C05.applyMu, C05.weibullRaw, envOf]
  | some m =>
    simp only [weibullRatesE, Option.map_some, List.getD_eq_getElem?_getD, List.getElem?_map,
      List.getElem?_range i.isLt, Option.getD_some, eval, eval_weibull_norm,
      eval_weibullIcdfE _ _ K i.val i.isLt]
    simp [C05.weibull, C05.discretized, C05.normalise, C05.applyMu, C05.weibullRaw, envOf]


/-- **Weibull site rates, derivative of every category rate in the shape** (and `mu` kept fixed). -/
theorem hasDerivAt_weibull_rate_shape (K : Nat) (shape : ℝ) (mu : Option ℝ) (i : Fin K) (hs : shape ≠ 0) :
    HasDerivAt (fun a => (C05.weibull K a none mu).rates i)
      (partialD ((weibullRatesE K (var 0) none (mu.map fun _ => var 1)).getD i.val (nat 0))
        (envOf (shape :: mu.toList)) 0) shape := by
  have hK : 0 < K := Nat.lt_of_le_of_lt (Nat.zero_le _) i.isLt
  have hdef : Defined (envOf (shape :: mu.toList))
      ((weibullRatesE K (var 0) none (mu.map fun _ => var 1)).getD i.val (nat 0)) := by
    have hs0 : eval (envOf (shape :: mu.toList)) (var 0) ≠ 0 := by simpa [eval, envOf] using hs
    have hn : Defined (envOf (shape :: mu.toList)) (sumL (List.zipWith mul ((List.range K).map (weibullIcdfE (var 0) K))
        ((List.range K).map fun _ => div (nat 1) (nat K)))) := by
      refine (defined_sumL _ _).2 (mem_zipWith fun a ha b hb => ⟨?_, ?_⟩)
      · obtain ⟨j, hj, rfl⟩ := List.mem_map.mp ha
        exact defined_weibullIcdfE _ _ K j (List.mem_range.mp hj) trivial hs0
      · obtain ⟨j, _, rfl⟩ := List.mem_map.mp hb
        refine ⟨trivial, trivial, ?_⟩
        have : ((K : ℕ) : ℝ) ≠ 0 := by exact_mod_cast hK.ne'
        simpa [eval] using this
    have hn0 : eval (envOf (shape :: mu.toList)) (sumL (List.zipWith mul ((List.range K).map (weibullIcdfE (var 0) K))
        ((List.range K).map fun _ => div (nat 1) (nat K)))) ≠ 0 := by
      rw [eval_weibull_norm]
      exact (weibull_normaliser_pos K hK _).ne'
    have hr := defined_weibullIcdfE (envOf (shape :: mu.toList)) (var 0) K i.val i.isLt trivial hs0
    cases mu with
    | none =>
      simp only [weibullRatesE, Option.map_none, List.getD_eq_getElem?_getD, List.getElem?_map,
        List.getElem?_range i.isLt, Option.map_some, Option.getD_some]
      exact ⟨hr, hn, hn0⟩
    | some m =>
      simp only [weibullRatesE, Option.map_some, List.getD_eq_getElem?_getD, List.getElem?_map,
        List.getElem?_range i.isLt, Option.getD_some]
      exact ⟨⟨hr, hn, hn0⟩, trivial⟩
  have h := hasDerivAt_of_eval' _ _ 0 (fun a => (C05.weibull K a none mu).rates i) hdef
    (fun a => by
      rw [update_envOf _ 0 (by simp)]
      simpa using weibull_rate_eq_eval K a mu i)
  simpa [envOf] using h

/-- the hypotheses are met: 4 categories, shape 1/2, rate of category 2 -/
example : HasDerivAt (fun a => (C05.weibull 4 a none none).rates (2 : Fin 4))
    (partialD ((weibullRatesE 4 (var 0) none none).getD 2 (nat 0)) (envOf [(1 / 2 : ℝ)]) 0) (1 / 2) := by
  simpa using hasDerivAt_weibull_rate_shape 4 (1 / 2) none (2 : Fin 4) (by norm_num)


/-! ## ratio → height transform and its log-Jacobian (`GeneralNodeHeightTransform`, model `TT.C06`) -/

theorem ratioFwd_eq_eval (n : Nat) (b x : Nat → ℝ) (fwd : List (Nat × Nat)) (k : Nat) :
    C06.ratioFwd n b fwd x k =
      eval (ratioEnv n b x) (heightsE fwd bV xV k) := by
  unfold C06.ratioFwd heightsE
  exact (eval_heights_fold (ratioEnv n b x) n b x bV xV (fun j => by simp [bV, eval, ratioEnv_b])
    (fun j => by simp [xV, eval, ratioEnv_x]) fwd xV ⟨x⟩ (fun j => by simp [xV, eval, ratioEnv_x]) k).symm

/-- **Ratio transform: every node height in every ratio / in the root height** — unconditional
(the transform uses only `+ − ×`). -/
theorem hasDerivAt_ratioFwd (n : Nat) (b x : Nat → ℝ) (fwd : List (Nat × Nat)) (k i : Nat) :
    HasDerivAt (fun t => C06.ratioFwd n b fwd (C06.upd x i t) k)
      (partialD (heightsE fwd bV xV k) (ratioEnv n b x) (2 * i))
      (x i) := by
  have h := hasDerivAt_of_eval' (heightsE fwd bV xV k) (ratioEnv n b x) (2 * i)
    (fun t => C06.ratioFwd n b fwd (C06.upd x i t) k) (defined_heightsE _ fwd k)
    (fun t => by rw [ratioEnv_update, ratioFwd_eq_eval])
  simpa [ratioEnv_x] using h

/-- `log|det J|` of the ratio transform as the C06 model lists its terms -/
noncomputable def ratioLogDet (n : Nat) (b : Nat → ℝ) (fwd : List (Nat × Nat)) (det : List Nat) (x : Nat → ℝ) : ℝ :=
  ((C06.ratioDetTerms n b det (C06.ratioFwd n b fwd x)).map Real.log).sum

theorem ratioLogDet_eq_eval (n : Nat) (b x : Nat → ℝ) (fwd : List (Nat × Nat)) (det : List Nat) :
    ratioLogDet n b fwd det x =
      eval (ratioEnv n b x)
        (logJacE det bV (heightsE fwd bV xV)) := by
  unfold ratioLogDet logJacE C06.ratioDetTerms
  rw [eval_sumL_real, List.map_map, List.map_map]
  congr 1
  apply List.map_congr_left
  intro a _
  simp [bV, eval, ← ratioFwd_eq_eval, ratioEnv_b]

/-- **Log-Jacobian of the ratio transform in every ratio / in the root height**, wherever every term
`height(parent) − bound` is non-zero (always the case for ratios in (0,1) above the bounds). -/
theorem hasDerivAt_ratioLogDet (n : Nat) (b x : Nat → ℝ) (fwd : List (Nat × Nat)) (det : List Nat) (i : Nat)
    (hpos : ∀ v ∈ C06.ratioDetTerms n b det (C06.ratioFwd n b fwd x), v ≠ 0) :
    HasDerivAt (fun t => ratioLogDet n b fwd det (C06.upd x i t))
      (partialD (logJacE det bV
          (heightsE fwd bV xV)) (ratioEnv n b x) (2 * i))
      (x i) := by
  have hdef : Defined (ratioEnv n b x) (logJacE det bV
      (heightsE fwd bV xV)) := by
    refine (defined_sumL _ _).2 ?_
    intro e he
    obtain ⟨a, ha, rfl⟩ := List.mem_map.mp he
    refine ⟨⟨defined_heightsE _ fwd _, trivial⟩, ?_⟩
    have : eval (ratioEnv n b x) (sub (heightsE fwd bV xV a.1)
        (bV a.2)) ∈ C06.ratioDetTerms n b det (C06.ratioFwd n b fwd x) := by
      simp only [C06.ratioDetTerms, List.mem_map]
      exact ⟨a, ha, by simp [bV, eval, ← ratioFwd_eq_eval, ratioEnv_b]⟩
    exact hpos _ this
  have h := hasDerivAt_of_eval' (logJacE det bV (heightsE fwd bV xV)) (ratioEnv n b x) (2 * i)
    (fun t => ratioLogDet n b fwd det (C06.upd x i t)) hdef
    (fun t => by rw [ratioEnv_update, ratioLogDet_eq_eval])
  simpa [ratioEnv_x] using h


/-! ## pruning recursion: multi-affine in the edge matrices -/

/-- **pruning_multiaffine**: on a tree with pairwise distinct branches the site likelihood computed by
the pruning recursion is affine in each single edge matrix, over any commutative semiring. -/
theorem pruning_multiaffine {R : Type} [CommSemiring R] {S : Nat} (π : Fin S → R) (tip : Nat → Fin S → R)
    (mat : Nat → Fin S → Fin S → R) (e : Nat) (A B : Fin S → Fin S → R) (a b : R) (hab : a + b = 1)
    (t : C01.ITree) (hnd : (edges t).Nodup) :
    siteLikT π tip (Function.update mat e (fun i j => a * A i j + b * B i j)) t =
      a * siteLikT π tip (Function.update mat e A) t + b * siteLikT π tip (Function.update mat e B) t :=
  siteLikT_affine π tip mat e A B a b hab t hnd

/-- **Derivative of the site likelihood in a branch length**: the pruning value with that branch's
matrix replaced by `dP/dt`, every other matrix unchanged. -/
theorem hasDerivAt_pruning_branch {S : Nat} (π : Fin S → ℝ) (tip : Nat → Fin S → ℝ)
    (mat : Nat → Fin S → Fin S → ℝ) (e : Nat) (P : ℝ → Fin S → Fin S → ℝ) (P' : Fin S → Fin S → ℝ) (τ₀ : ℝ)
    (hP : ∀ i j, HasDerivAt (fun τ => P τ i j) (P' i j) τ₀) (t : C01.ITree) (hnd : (edges t).Nodup)
    (he : e ∈ edges t) :
    HasDerivAt (fun τ => siteLikT π tip (Function.update mat e (P τ)) t)
      (siteLikT π tip (Function.update mat e P') t) τ₀ :=
  hasDerivAt_siteLikT_branch π tip mat e P P' τ₀ hP t hnd he

/-- JC69 on the branch above tip 0 of the tree `((0,1)3,2)4`: the derivative of the site likelihood in
that branch length is the pruning value with `P` replaced by the forward-mode tangent matrix of JC69 -/
example (π : Fin 4 → ℝ) (tip : Nat → Fin 4 → ℝ) (mat : Nat → Fin 4 → Fin 4 → ℝ) (τ₀ : ℝ) :
    HasDerivAt
      (fun τ => siteLikT π tip (Function.update mat 0 (C04.jc69P τ))
        (.node 4 (.node 3 (.leaf 0) (.leaf 1)) (.leaf 2)))
      (siteLikT π tip (Function.update mat 0 fun i j =>
          partialD (if i = j then jcDiagE (var 0) else jcOffE (var 0)) (envOf [τ₀]) 0)
        (.node 4 (.node 3 (.leaf 0) (.leaf 1)) (.leaf 2))) τ₀ :=
  hasDerivAt_pruning_branch π tip mat 0 C04.jc69P _ τ₀ (fun i j => hasDerivAt_jc69P τ₀ i j) _
    (by decide) (by decide)

/-- the tree-recursive form used above is the recursive form of the C01 development -/
theorem partialT_eq_partialRec1 {R : Type} [Add R] [Mul R] [Zero R] {S : Nat} (tip : Nat → Fin S → R)
    (mat : Nat → Fin S → Fin S → R) : ∀ t : C01.ITree, partialT tip mat t = C01.partialRec1 tip mat t
  | .leaf _ => rfl
  | .node _ l r => by
    funext s
    simp only [partialT, C01.partialRec1, partialT_eq_partialRec1 tip mat l, partialT_eq_partialRec1 tip mat r]

/-- **Derivative of the pruning LOOP (`TT.C01.siteLik`, the model of `calculate_treelikelihood_discrete`)
in a branch length**, all rate categories: on a well-indexed tree with pairwise distinct branches, if the
matrices of branch `e` depend on `τ` with entrywise derivatives `P' k`, the site likelihood returned by the loop
has as derivative the value the loop returns with the matrices of that branch replaced by `P'`. -/
theorem hasDerivAt_siteLik_branch {K S : Nat} (π : Fin S → ℝ) (props : Fin K → ℝ) (mats : C01.Mats ℝ K S)
    (tip : Nat → Fin S → ℝ) (n i : Nat) (l r : C01.ITree) (hwf : C01.WF n (.node i l r))
    (hnd : (edges (.node i l r)).Nodup) (e : Nat) (he : e ∈ edges (.node i l r))
    (P : ℝ → Fin K → Fin S → Fin S → ℝ) (P' : Fin K → Fin S → Fin S → ℝ) (τ₀ : ℝ)
    (hP : ∀ k a b, HasDerivAt (fun τ => P τ k a b) (P' k a b) τ₀) :
    HasDerivAt
      (fun τ => (C01.siteLik π props (Function.update mats e (P τ)) (C01.postorder (.node i l r)) n tip).getD 0)
      ((C01.siteLik π props (Function.update mats e P') (C01.postorder (.node i l r)) n tip).getD 0) τ₀ := by
  have hupd : ∀ (M : Fin K → Fin S → Fin S → ℝ) (k : Fin K),
      (fun b => (Function.update mats e M) b k) = Function.update (fun b => mats b k) e (M k) := by
    intro M k
    funext b
    by_cases hb : b = e
    · subst hb; simp
    · simp [Function.update_of_ne hb]
  have hval : ∀ M : Fin K → Fin S → Fin S → ℝ,
      (C01.siteLik π props (Function.update mats e M) (C01.postorder (.node i l r)) n tip).getD 0
        = ∑ s, π s * ∑ k, props k * partialT tip (Function.update (fun b => mats b k) e (M k)) (.node i l r) s := by
    intro M
    simp only [C01.siteLik, C01.rootPartial_postorder _ tip n i l r hwf, Option.map_some, Option.getD_some,
      C01.rootSum, TT.sumFin_eq_sum, C01.partialRec, hupd, partialT_eq_partialRec1]
  simp only [hval]
  refine HasDerivAt.fun_sum fun s _ => HasDerivAt.const_mul (π s) (HasDerivAt.fun_sum fun k _ => ?_)
  exact (hasDerivAt_partialT_branch tip (fun b => mats b k) e (fun τ => P τ k) (P' k) τ₀ (fun a b => hP k a b)
    (.node i l r) hnd he s).const_mul (props k)

/-- instance: JC69 with two rate categories on the branch above tip 1 of `((0,1)3,2)4` -/
example (π : Fin 4 → ℝ) (props : Fin 2 → ℝ) (rate : Fin 2 → ℝ) (mats : C01.Mats ℝ 2 4) (tip : Nat → Fin 4 → ℝ)
    (τ₀ : ℝ) :
    HasDerivAt
      (fun τ => (C01.siteLik π props (Function.update mats 1 (fun k => C04.jc69P (rate k * τ)))
        (C01.postorder (.node 4 (.node 3 (.leaf 0) (.leaf 1)) (.leaf 2))) 3 tip).getD 0)
      ((C01.siteLik π props (Function.update mats 1 (fun k a b => rate k *
          partialD (if a = b then jcDiagE (var 0) else jcOffE (var 0)) (envOf [rate k * τ₀]) 0))
        (C01.postorder (.node 4 (.node 3 (.leaf 0) (.leaf 1)) (.leaf 2))) 3 tip).getD 0) τ₀ := by
  refine hasDerivAt_siteLik_branch π props mats tip 3 4 (.node 3 (.leaf 0) (.leaf 1)) (.leaf 2)
    ⟨by decide, by decide, by decide⟩ (by decide) 1 (by decide) _ _ τ₀ (fun k a b => ?_)
  have h := (hasDerivAt_jc69P (rate k * τ₀) a b).comp τ₀ ((hasDerivAt_id τ₀).const_mul (rate k))
  simpa [Function.comp_def, mul_comm] using h

/-! ## further instances of the hypotheses -/

/-- constant coalescent in θ: 3 taxa (0, 0, 1), coalescences at 2 and 4, θ = 3 -/
example : HasDerivAt (fun t => C08.constantLogProb t ([0, 0, 1, 2, 4] : List ℝ))
    (partialD (constantE (var 0) (vars 1 (C08.sortEvents (C08.mkEvents ([0, 0, 1, 2, 4] : List ℝ) [])).length)
        (C08.marks (C08.sortEvents (C08.mkEvents ([0, 0, 1, 2, 4] : List ℝ) []))) (C08.taxaCount ([0, 0, 1, 2, 4] : List ℝ) - 1))
      (envOf (3 :: C08.times (C08.sortEvents (C08.mkEvents ([0, 0, 1, 2, 4] : List ℝ) [])))) 0) 3 :=
  hasDerivAt_constantLogProb_theta _ 3 (by norm_num)

/-- ratio transform on the 3-taxon caterpillar: internal positions 0 (child) and 1 (root),
`fwd = [(1, 0)]`, any bounds and ratios -/
example (b x : Nat → ℝ) : HasDerivAt (fun t => C06.ratioFwd 3 b [(1, 0)] (C06.upd x 0 t) 0)
    (partialD (heightsE [(1, 0)] bV xV 0) (ratioEnv 3 b x) 0) (x 0) := by
  simpa using hasDerivAt_ratioFwd 3 b x [(1, 0)] 0 0


/-- the sorted events of the genealogy used in the instances below: 3 taxa at 0, 0, 1; coalescences at 2, 4 -/
theorem sorted_example : C08.sortEvents (C08.mkEvents ([0, 0, 1, 2, 4] : List ℝ) [])
    = [⟨0, 1⟩, ⟨0, 1⟩, ⟨1, 1⟩, ⟨2, -1⟩, ⟨4, -1⟩] := by
  have hm : C08.mkEvents ([0, 0, 1, 2, 4] : List ℝ) []
      = [⟨0, 1⟩, ⟨0, 1⟩, ⟨1, 1⟩, ⟨2, -1⟩, ⟨4, -1⟩] := by
    simp [C08.mkEvents, C08.taxaCount, C08.nodeMask, List.replicate]
  rw [hm]
  norm_num [C08.sortEvents, C08.insertEv]

theorem notie_example : ∀ k (hk : k < ([0, 0, 1, 2, 4] : List ℝ).length), k ≠ 3 →
    ([0, 0, 1, 2, 4] : List ℝ)[k] ≠ ([0, 0, 1, 2, 4] : List ℝ)[3] := by
  intro k hk hne
  have : k < 5 := by simpa using hk
  rcases k with _ | _ | _ | _ | _ | k
  · norm_num
  · norm_num
  · norm_num
  · exact absurd rfl hne
  · norm_num
  · omega

/-- constant coalescent in the height of the first coalescence (index 3, sorted position 3) -/
example : HasDerivAt (fun t => C08.constantLogProb 3 (([0, 0, 1, 2, 4] : List ℝ).set 3 t))
    (partialD (constantE (var 0) (vars 1 5) [1, 1, 1, -1, -1] 2) (envOf ([3, 0, 0, 1, 2, 4] : List ℝ)) 4) 2 := by
  have h := hasDerivAt_constantLogProb_height 3 ([0, 0, 1, 2, 4] : List ℝ) 3 (by simp) (by norm_num)
    notie_example 3 (by simp [sorted_example, C08.times]) (by simp [sorted_example, C08.times])
  simpa [sorted_example, C08.times, C08.marks, C08.taxaCount] using h

/-- skyride in θ₁ and in the height of the first coalescence, `θ = (2, 3)` -/
example : HasDerivAt (fun t => C08.skyrideLogProb (([2, 3] : List ℝ).set 1 t) ([0, 0, 1, 2, 4] : List ℝ))
    (partialD (skyrideE (vars 0 2) (vars 2 5) [1, 1, 1, -1, -1]) (envOf ([2, 3, 0, 0, 1, 2, 4] : List ℝ)) 1) 3 := by
  have h := hasDerivAt_skyrideLogProb_theta ([2, 3] : List ℝ) ([0, 0, 1, 2, 4] : List ℝ) 1 (by simp)
    (by intro x hx; simp at hx; rcases hx with rfl | rfl <;> norm_num)
    (by rw [sorted_example]; decide)
  simpa [sorted_example, C08.times, C08.marks] using h

example : HasDerivAt (fun t => C08.skyrideLogProb [2, 3] (([0, 0, 1, 2, 4] : List ℝ).set 3 t))
    (partialD (skyrideE (vars 0 2) (vars 2 5) [1, 1, 1, -1, -1]) (envOf ([2, 3, 0, 0, 1, 2, 4] : List ℝ)) 5) 2 := by
  have h := hasDerivAt_skyrideLogProb_height ([2, 3] : List ℝ) ([0, 0, 1, 2, 4] : List ℝ) 3 (by simp)
    (by intro x hx; simp at hx; rcases hx with rfl | rfl <;> norm_num)
    (by rw [sorted_example]; decide)
    notie_example 3 (by simp [sorted_example, C08.times]) (by simp [sorted_example, C08.times])
  simpa [sorted_example, C08.times, C08.marks] using h

/-- GMRF in the precision: field `(1, -2, 3)`, precision `2`, no weights -/
example : HasDerivAt (fun t => gmrfLogDensity [1, -2, 3] t none 5)
    (partialD (gmrfE (vars 0 3) (var 3) none (var 4)) (envOf ([1, -2, 3, 2, 5] : List ℝ)) 3) 2 := by
  have h := hasDerivAt_gmrf_precision [1, -2, 3] 2 5 none (by norm_num) (by intro l hl; simp at hl)
  simpa using h

/-- log-Jacobian of the ratio transform on the 3-taxon caterpillar, bounds 0, ratio 1/2, root height 2 -/
example : HasDerivAt
    (fun t => ratioLogDet 3 (fun _ => 0) [(1, 0)] [1] (C06.upd (fun j => if j = 0 then 1 / 2 else 2) 0 t))
    (partialD (logJacE [1] bV (heightsE [(1, 0)] bV xV)) (ratioEnv 3 (fun _ => 0) (fun j => if j = 0 then 1 / 2 else 2)) 0)
    (1 / 2) := by
  have h := hasDerivAt_ratioLogDet 3 (fun _ => 0) (fun j => if j = 0 then 1 / 2 else 2) [(1, 0)] [1] 0
    (by
      intro v hv
      simp [C06.ratioDetTerms, C06.ratioFwd, C06.upd] at hv
      subst hv
      norm_num)
  simpa using h

/-- the pruning recursion on `((0,1)3,2)4` is affine in the matrix of every branch -/
example (π : Fin 4 → ℚ) (tip : Nat → Fin 4 → ℚ) (mat : Nat → Fin 4 → Fin 4 → ℚ) (A B : Fin 4 → Fin 4 → ℚ) :
    siteLikT π tip (Function.update mat 3 (fun i j => (1 / 3) * A i j + (2 / 3) * B i j))
        (.node 4 (.node 3 (.leaf 0) (.leaf 1)) (.leaf 2)) =
      (1 / 3) * siteLikT π tip (Function.update mat 3 A) (.node 4 (.node 3 (.leaf 0) (.leaf 1)) (.leaf 2))
        + (2 / 3) * siteLikT π tip (Function.update mat 3 B) (.node 4 (.node 3 (.leaf 0) (.leaf 1)) (.leaf 2)) :=
  pruning_multiaffine π tip mat 3 A B (1 / 3) (2 / 3) (by norm_num) _ (by decide)

end TTProps.C12
