/-! C12 property theorems — stub (not built yet). -/
namespace TTProps.C12
end TTProps.C12
