import TTProofs.Props.C03
import TTProofs.Lemmas.C03_LinkC01
/-!
# C03 for every tree: no well-formedness hypothesis left

`TT.C01.setupIndexes` / `TT.C01.postorder` model `setup_indexes` / `update_traversals`
(C01; tied to torchtree by C01's exact correspondence of the post-order triples).  By
`TT.C03.wf_postorder_setupIndexes` the triples of ANY binary tree with at least one internal node
whose leaves are numbered below `n` satisfy `wf n`, so the C03 theorems hold for
`postorder (setupIndexes n T)` with the hypothesis `wf` discharged.
-/
open TT TT.C03

namespace TTProps.C03

variable {N K S : Nat}

/-- `rescaled_eq_plain` for the post-order of any tree -/
theorem rescaled_eq_plain_tree (n : Nat) (l r : TT.C01.BTree)
    (hleaves : ∀ i ∈ (TT.C01.BTree.node l r).leaves, i < n) (tipCount : Nat) (hT : tipCount ≤ n)
    (scaler : Nat → Fin N → Part ℝ N K S → ℝ) (tipc : Nat → Fin N → Fin K → Fin S → ℝ)
    (M : Mats ℝ K S) (freqs : Fin S → ℝ) (props : Fin K → ℝ) (st : Store ℝ N K S)
    (hpos : ∀ sc ∈ (peelRescaledWith scaler tipCount tipc M st
        (TT.C01.postorder (TT.C01.setupIndexes n (.node l r)))).scalers, ∀ m : Fin N, 0 < sc[m])
    (m : Fin N)
    (hlik : 0 < siteLik freqs props ((peel tipCount tipc M st
        (TT.C01.postorder (TT.C01.setupIndexes n (.node l r)))).get
          (rootOf (TT.C01.postorder (TT.C01.setupIndexes n (.node l r))))) m) :
    Trans.log (siteLik freqs props
        ((peelRescaledWith scaler tipCount tipc M st
          (TT.C01.postorder (TT.C01.setupIndexes n (.node l r)))).st.get
            (rootOf (TT.C01.postorder (TT.C01.setupIndexes n (.node l r))))) m)
      + logScalers (peelRescaledWith scaler tipCount tipc M st
          (TT.C01.postorder (TT.C01.setupIndexes n (.node l r)))).scalers m
    = Trans.log (siteLik freqs props ((peel tipCount tipc M st
        (TT.C01.postorder (TT.C01.setupIndexes n (.node l r)))).get
          (rootOf (TT.C01.postorder (TT.C01.setupIndexes n (.node l r))))) m) :=
  rescaled_eq_plain n tipCount hT scaler tipc M freqs props st _
    (wf_postorder_setupIndexes n l r hleaves) hpos m hlik

/-- `logLik_rescaled_eq_plain` for the post-order of any tree -/
theorem logLik_rescaled_eq_plain_tree (n : Nat) (l r : TT.C01.BTree)
    (hleaves : ∀ i ∈ (TT.C01.BTree.node l r).leaves, i < n) (tipCount : Nat) (hT : tipCount ≤ n)
    (scaler : Nat → Fin N → Part ℝ N K S → ℝ) (tipc : Nat → Fin N → Fin K → Fin S → ℝ)
    (M : Mats ℝ K S) (freqs : Fin S → ℝ) (props : Fin K → ℝ) (w : Fin N → ℝ) (st : Store ℝ N K S)
    (hpos : ∀ sc ∈ (peelRescaledWith scaler tipCount tipc M st
        (TT.C01.postorder (TT.C01.setupIndexes n (.node l r)))).scalers, ∀ m : Fin N, 0 < sc[m])
    (hlik : ∀ m, 0 < siteLik freqs props ((peel tipCount tipc M st
        (TT.C01.postorder (TT.C01.setupIndexes n (.node l r)))).get
          (rootOf (TT.C01.postorder (TT.C01.setupIndexes n (.node l r))))) m) :
    logLikScaled freqs props w
        ((peelRescaledWith scaler tipCount tipc M st
          (TT.C01.postorder (TT.C01.setupIndexes n (.node l r)))).st.get
            (rootOf (TT.C01.postorder (TT.C01.setupIndexes n (.node l r)))))
        (peelRescaledWith scaler tipCount tipc M st
          (TT.C01.postorder (TT.C01.setupIndexes n (.node l r)))).scalers
      = logLikPlain freqs props w ((peel tipCount tipc M st
          (TT.C01.postorder (TT.C01.setupIndexes n (.node l r)))).get
            (rootOf (TT.C01.postorder (TT.C01.setupIndexes n (.node l r))))) :=
  logLik_rescaled_eq_plain n tipCount hT scaler tipc M freqs props w st _
    (wf_postorder_setupIndexes n l r hleaves) hpos hlik

/-- `logLik_safe_eq_plain` for the post-order of any tree -/
theorem logLik_safe_eq_plain_tree (n : Nat) (l r : TT.C01.BTree)
    (hleaves : ∀ i ∈ (TT.C01.BTree.node l r).leaves, i < n) (thr : ℝ)
    (M : Mats ℝ K S) (freqs : Fin S → ℝ) (props : Fin K → ℝ) (w : Fin N → ℝ) (st : Store ℝ N K S)
    (hpos : ∀ sc ∈ (peelSafe thr M (peel 0 noTips M st
        (TT.C01.postorder (TT.C01.setupIndexes n (.node l r))))
        (TT.C01.postorder (TT.C01.setupIndexes n (.node l r)))).scalers, ∀ m : Fin N, 0 < sc[m])
    (hlik : ∀ m, 0 < siteLik freqs props ((peel 0 noTips M st
        (TT.C01.postorder (TT.C01.setupIndexes n (.node l r)))).get
          (rootOf (TT.C01.postorder (TT.C01.setupIndexes n (.node l r))))) m) :
    logLikScaled freqs props w
        ((peelSafe thr M (peel 0 noTips M st (TT.C01.postorder (TT.C01.setupIndexes n (.node l r))))
          (TT.C01.postorder (TT.C01.setupIndexes n (.node l r)))).st.get
            (rootOf (TT.C01.postorder (TT.C01.setupIndexes n (.node l r)))))
        (peelSafe thr M (peel 0 noTips M st (TT.C01.postorder (TT.C01.setupIndexes n (.node l r))))
          (TT.C01.postorder (TT.C01.setupIndexes n (.node l r)))).scalers
      = logLikPlain freqs props w ((peel 0 noTips M st
          (TT.C01.postorder (TT.C01.setupIndexes n (.node l r)))).get
            (rootOf (TT.C01.postorder (TT.C01.setupIndexes n (.node l r))))) :=
  logLik_safe_eq_plain n thr M freqs props w st _ (wf_postorder_setupIndexes n l r hleaves) hpos hlik

/-- history consistency for the post-order of any tree (tip-partials path) -/
theorem history_consistent_tree (n : Nat) (l r : TT.C01.BTree)
    (hleaves : ∀ i ∈ (TT.C01.BTree.node l r).leaves, i < n) (thr : ℝ) (w : Fin N → ℝ)
    (st0 : Store ℝ N K S)
    (hist : List (Inputs ℝ K S × (ℝ → Part ℝ N K S → Bool))) (ms : MState ℝ N K S)
    (hag : TipsAgree n ms.st st0)
    (hR : ∀ e ∈ hist, ∀ st', TipsAgree n st' st0 →
      ∀ sc ∈ (peelRescaled 0 noTips e.1.mats st'
        (TT.C01.postorder (TT.C01.setupIndexes n (.node l r)))).scalers, ∀ m : Fin N, 0 < sc[m])
    (hS : ∀ e ∈ hist, ∀ st', TipsAgree n st' st0 →
      ∀ sc ∈ (peelSafe thr e.1.mats (peel 0 noTips e.1.mats st'
        (TT.C01.postorder (TT.C01.setupIndexes n (.node l r))))
        (TT.C01.postorder (TT.C01.setupIndexes n (.node l r)))).scalers, ∀ m : Fin N, 0 < sc[m])
    (hL : ∀ e ∈ hist, ∀ m, 0 < siteLik e.1.freqs e.1.props
      ((peel 0 noTips e.1.mats st0 (TT.C01.postorder (TT.C01.setupIndexes n (.node l r)))).get
        (rootOf (TT.C01.postorder (TT.C01.setupIndexes n (.node l r))))) m) :
    (runPartials thr w (TT.C01.postorder (TT.C01.setupIndexes n (.node l r))) ms hist).map (·.1) =
      hist.map fun e => logLikPlain e.1.freqs e.1.props w
        ((peel 0 noTips e.1.mats st0 (TT.C01.postorder (TT.C01.setupIndexes n (.node l r)))).get
          (rootOf (TT.C01.postorder (TT.C01.setupIndexes n (.node l r))))) :=
  history_consistent n thr w _ st0 (wf_postorder_setupIndexes n l r hleaves) hist ms hag hR hS hL

/-- **C03's plain pass is C01's loop**: whenever C01's one-site `Option` model of
  `calculate_treelikelihood_discrete` succeeds, its value is the C03 plain site value.  So C01's
  `peel_eq_marginal` (= sum over all labelings) and C12's `hasDerivAt_siteLik_branch` (derivative in a
  branch length) speak about `siteLik … (peel …)`, and by `rescaled_eq_plain`, `safe_eq_plain`,
  `hasDerivAt_rescaled_iff_plain`, `hasDerivAt_safe_iff_plain` about the rescaled and safe passes. -/
theorem plain_siteLik_eq_C01 (π : Fin S → ℝ) (props : Fin K → ℝ) (mats : Mats ℝ K S) (ts : List Triple)
    (nT : Nat) (tips : Nat → Fin N → Fin S → ℝ) (m : Fin N) (x : ℝ)
    (h : TT.C01.siteLik π props mats ts nT (fun i s => tips i m s) = some x) :
    siteLik π props ((peel 0 noTips mats (tipStore tips) ts).get (rootOf ts)) m = x :=
  (siteLik_eq_C01 π props mats ts nT tips m x h).symm

example : siteLik Ex.inp.freqs Ex.inp.props ((peel 0 noTips Ex.M (tipStore fun i _ s =>
      if (i = 1 ∧ s = 1) ∨ (i ≠ 1 ∧ s = 0) then (1 : ℝ) else 0) Ex.ts).get (rootOf Ex.ts)) (0 : Fin 1) =
    (TT.C01.siteLik Ex.inp.freqs Ex.inp.props Ex.M Ex.ts 3
      (fun i s => if (i = 1 ∧ s = 1) ∨ (i ≠ 1 ∧ s = 0) then (1 : ℝ) else 0)).getD 0 := by
  cases h : TT.C01.siteLik Ex.inp.freqs Ex.inp.props Ex.M Ex.ts 3
      (fun i s => if (i = 1 ∧ s = 1) ∨ (i ≠ 1 ∧ s = 0) then (1 : ℝ) else 0) with
  | none =>
    exfalso
    simp [TT.C01.siteLik, TT.C01.rootPartial, TT.C01.peelLoop, TT.C01.peelStep, TT.C01.tipStore, Ex.ts,
      TT.C01.Store.set] at h
  | some x =>
    simpa using plain_siteLik_eq_C01 (N := 1) Ex.inp.freqs Ex.inp.props Ex.M Ex.ts 3
      (fun i _ s => if (i = 1 ∧ s = 1) ∨ (i ≠ 1 ∧ s = 0) then (1 : ℝ) else 0) 0 x h

/-- the instance `Ex` IS such a post-order: the caterpillar ((0,1),2) with 3 taxa -/
example : TT.C01.postorder (TT.C01.setupIndexes 3 (.node (.node (.leaf 0) (.leaf 1)) (.leaf 2))) = Ex.ts := by
  decide

example (w : Fin 1 → ℝ) :
    logLikScaled Ex.inp.freqs Ex.inp.props w
        ((peelRescaled 0 noTips Ex.M Ex.tips
          (TT.C01.postorder (TT.C01.setupIndexes 3 (.node (.node (.leaf 0) (.leaf 1)) (.leaf 2))))).st.get
            (rootOf (TT.C01.postorder (TT.C01.setupIndexes 3 (.node (.node (.leaf 0) (.leaf 1)) (.leaf 2))))))
        (peelRescaled 0 noTips Ex.M Ex.tips
          (TT.C01.postorder (TT.C01.setupIndexes 3 (.node (.node (.leaf 0) (.leaf 1)) (.leaf 2))))).scalers
      = logLikPlain Ex.inp.freqs Ex.inp.props w ((peel 0 noTips Ex.M Ex.tips
          (TT.C01.postorder (TT.C01.setupIndexes 3 (.node (.node (.leaf 0) (.leaf 1)) (.leaf 2))))).get
            (rootOf (TT.C01.postorder (TT.C01.setupIndexes 3 (.node (.node (.leaf 0) (.leaf 1)) (.leaf 2)))))) := by
  have e : TT.C01.postorder (TT.C01.setupIndexes 3 (.node (.node (.leaf 0) (.leaf 1)) (.leaf 2))) = Ex.ts := by
    decide
  refine logLik_rescaled_eq_plain_tree 3 _ _ (by decide) 0 (by omega) _ noTips Ex.M _ _ w Ex.tips ?_ ?_
  · rw [e]; exact Ex.resc_pos Ex.tips (fun _ _ => rfl)
  · rw [e]; exact Ex.plain_lik Ex.tips (fun _ _ => rfl)

end TTProps.C03
