import TTModel.C03_Rescale
import TTGen.C03_Underflow
import TTProofs.Lemmas.C03_Rescale
import TTProofs.Lemmas.C03_Example
import TTProofs.Lemmas.Sums
import Mathlib.Data.Real.Basic
import Mathlib.Algebra.Order.BigOperators.Group.Finset
/-!
# C03 — the switch test decides on the WORST site pattern

`TreeLikelihoodModel._underflow` decides whether the unrescaled result is kept.  The theorems above hold
for any switch test (every branch denotes the same real number); what the test must guarantee for the
float64 run is that the unrescaled result is only kept when EVERY site pattern is far from the
underflow range.  That is a statement about `min over patterns` of a per-pattern statistic; a mean or a
sum over patterns says nothing about the worst one (seeded change C03_h: early exit on the weighted
mean site log-likelihood).

* `underflow_source_shape`: the switch test, found by ROLE (the test that gates `self.rescale = True`;
  method name, named intermediates, `x.any()` vs `torch.any(x)`, one level of private helpers do not
  matter) and re-read on every run by `harness/translators/tr_c03_underflow.py`, has the structure of
  `TT.C03.underflowCoded`: exactly two disjuncts, `any(isinf(log_p))` and `any` over sites of
  `amax(root partial, dim=(-3,-2)) < self.threshold`, and no `return False`.
* `underflow_fires_on_worst_site`: one site pattern whose root partials are all below the threshold is
  enough, whatever the other patterns, their weights, the mean or the total look like.
* `kept_plain_all_sites_bounded`: if the test does not fire, EVERY site likelihood is at least
  `π_s · p_k · threshold` for some state `s` and category `k`.
-/
open TT TT.C03

namespace TTProps.C03

variable {N K S : Nat}

/-- the code read from the source has the structure the model assumes -/
theorem underflow_source_shape :
    TTGen.C03_Underflow.recognised = true ∧ TTGen.C03_Underflow.disjuncts = 2 ∧
    TTGen.C03_Underflow.isinfGuard = true ∧ TTGen.C03_Underflow.earlyFalseExits = 0 ∧
    TTGen.C03_Underflow.siteQuantifier = "any" ∧ TTGen.C03_Underflow.statistic = "amax" ∧
    TTGen.C03_Underflow.statDims = [-3, -2] ∧ TTGen.C03_Underflow.comparison = "<" ∧
    TTGen.C03_Underflow.thresholdAttr = "threshold" ∧ TTGen.C03_Underflow.rootIsRootPartial = true := by decide

/-- **one bad pattern is enough**: the test fires as soon as some site has all root partials below
  the threshold — independently of every other pattern and of any average over patterns -/
theorem underflow_fires_on_worst_site (isInf : ℝ → Bool) (thr v : ℝ) (root : Part ℝ N K S) (n : Fin N)
    (h : maxKS root n < thr) : underflowCoded isInf thr v root = true := by
  unfold underflowCoded
  simp only [Bool.or_eq_true, List.any_eq_true, decide_eq_true_eq]
  exact Or.inr ⟨n, List.mem_finRange n, h⟩

/-- not firing means: no infinite value and EVERY site's max is at least the threshold -/
theorem underflow_false_iff (isInf : ℝ → Bool) (thr v : ℝ) (root : Part ℝ N K S) :
    underflowCoded isInf thr v root = false ↔ isInf v = false ∧ ∀ n, thr ≤ maxKS root n := by
  unfold underflowCoded
  simp only [Bool.or_eq_false_iff, List.any_eq_false, decide_eq_true_eq, not_lt, List.mem_finRange,
    true_implies]

/-- a positive max over (category, state) is attained -/
theorem exists_eq_maxKS (root : Part ℝ N K S) (n : Fin N) (h : 0 < maxKS root n) :
    ∃ k s, root.get n k s = maxKS root n := by
  unfold maxKS at h ⊢
  have key : ∀ l : List ℝ, 0 < maxList l → maxList l ∈ l := by
    intro l
    cases l with
    | nil => intro h0; simp [maxList] at h0
    | cons a l =>
      intro _
      show List.foldl max a l ∈ a :: l
      have : ∀ (l : List ℝ) (acc : ℝ), l.foldl max acc = acc ∨ l.foldl max acc ∈ l := by
        intro l
        induction l with
        | nil => intro acc; exact Or.inl rfl
        | cons b l ih =>
          intro acc
          simp only [List.foldl_cons]
          rcases ih (max acc b) with h1 | h1
          · rcases max_choice acc b with h2 | h2
            · exact Or.inl (by rw [h1, h2])
            · exact Or.inr (by rw [h1, h2]; exact List.mem_cons_self)
          · exact Or.inr (List.mem_cons_of_mem _ h1)
      rcases this l a with h1 | h1
      · rw [h1]; exact List.mem_cons_self
      · exact List.mem_cons_of_mem _ h1
  have hm := key _ h
  simp only [List.mem_flatMap, List.mem_map, List.mem_finRange, true_and] at hm
  obtain ⟨k, s, hks⟩ := hm
  exact ⟨k, s, hks⟩

/-- **the unrescaled result is kept only when every pattern is bounded away from underflow**:
  nonnegative partials, frequencies and proportions; the test does not fire (threshold positive)
  ⇒ for EVERY site there are a state and a category with `siteLik ≥ π_s · p_k · threshold` -/
theorem kept_plain_all_sites_bounded (isInf : ℝ → Bool) (thr v : ℝ) (hthr : 0 < thr)
    (freqs : Fin S → ℝ) (props : Fin K → ℝ) (root : Part ℝ N K S)
    (hf : ∀ s, 0 ≤ freqs s) (hp : ∀ k, 0 ≤ props k) (hr : ∀ n k s, 0 ≤ root.get n k s)
    (h : underflowCoded isInf thr v root = false) (n : Fin N) :
    ∃ k s, freqs s * props k * thr ≤ siteLik freqs props root n := by
  have hge := ((underflow_false_iff isInf thr v root).mp h).2 n
  obtain ⟨k, s, hks⟩ := exists_eq_maxKS root n (lt_of_lt_of_le hthr hge)
  refine ⟨k, s, ?_⟩
  unfold siteLik
  simp only [sumFin_eq_sum]
  have h1 : props k * root.get n k s ≤ ∑ k', props k' * root.get n k' s :=
    Finset.single_le_sum (f := fun k' => props k' * root.get n k' s)
      (fun k' _ => mul_nonneg (hp k') (hr n k' s)) (Finset.mem_univ k)
  have h2 : freqs s * ∑ k', props k' * root.get n k' s ≤ ∑ s', freqs s' * ∑ k', props k' * root.get n k' s' :=
    Finset.single_le_sum (f := fun s' => freqs s' * ∑ k', props k' * root.get n k' s')
      (fun s' _ => mul_nonneg (hf s') (Finset.sum_nonneg fun k' _ => mul_nonneg (hp k') (hr n k' s')))
      (Finset.mem_univ s)
  calc freqs s * props k * thr ≤ freqs s * props k * root.get n k s := by
        rw [hks]; exact mul_le_mul_of_nonneg_left hge (mul_nonneg (hf s) (hp k))
    _ = freqs s * (props k * root.get n k s) := by ring
    _ ≤ freqs s * ∑ k', props k' * root.get n k' s := mul_le_mul_of_nonneg_left h1 (hf s)
    _ ≤ _ := h2

/-- instance: on `Ex` the plain root partial (9/64, 3/64) is far above 1e-40 — the test does not fire
  and the bound holds; with a threshold of 1/4 (above the root max) it fires -/
example : underflowCoded (fun _ => false) (1 / 4 : ℝ) 0 ((peel 0 noTips Ex.M Ex.tips Ex.ts).get 4) = true :=
  underflow_fires_on_worst_site _ _ _ _ 0 (by
    have h0 := Ex.plain_root Ex.tips (fun _ _ => rfl) 0
    have h1 := Ex.plain_root Ex.tips (fun _ _ => rfl) 1
    simp only [maxKS, maxList, List.finRange_succ, List.finRange_zero, List.flatMap_cons, List.flatMap_nil,
      List.map_cons, List.map_nil, List.append_nil, List.foldl_cons, List.foldl_nil] 
    simp [h0, h1]
    norm_num)

end TTProps.C03
