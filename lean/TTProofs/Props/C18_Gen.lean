import TTModel.FS
import TTModel.FSTag
import TTGen.C18_SavePlan
import TTProofs.Props.C18
/-!
# C18 (companion) — *which* checkpoint survives

`TTProps.C18` shows that some complete checkpoint always survives. Here files carry the identity
of their payload (`TT.FSTag`) and the statement is the property's "either the previous or the new
one, never a mixture": the checkpoint a restart would use (`best`: the file under the name if
complete, else `.old`) is, after a write interrupted anywhere, the one it was before or the one
being written — never an older leftover — and every complete file holds a payload that was
complete before or the new payload. Lifted to any number of consecutive interrupted writes with
arbitrary payloads (generation numbers in particular).

Method: the operations never inspect a payload, so execution commutes with relabelling
(`map_trunProg`) and with forgetting payloads (`erase_trunProg`, the tie to `TT.FS`); the finite
core is a `decide` over the 27 directory shapes with positional labels.
-/
namespace TTProps.C18
open TT.FS TT.FSTag TTGen.C18_SavePlan

variable {α β : Type}

/-! ### forgetting payloads: the tagged model refines `TT.FS` -/

@[simp] theorem erase_get (s : TSt α) (p : Path) : (s.get p).erase = s.erase.get p := by
  cases p <;> rfl

@[simp] theorem erase_set (s : TSt α) (p : Path) (c : TContent α) :
    (s.set p c).erase = s.erase.set p c.erase := by
  cases p <;> rfl

@[simp] theorem erase_absent : (TContent.absent : TContent α).erase = .absent := rfl
@[simp] theorem erase_trunc : (TContent.trunc : TContent α).erase = .trunc := rfl
@[simp] theorem erase_complete (a : α) : (TContent.complete a).erase = .complete := rfl

theorem erase_tstep (a : α) (s : TSt α) (o : Op) :
    (tstep a s o).map TSt.erase = step s.erase o := by
  cases o <;> simp only [tstep, step, erase_get] <;> (try split) <;>
    simp [erase_set, erase_get]

/-- **erase_trunProg**: forgetting the payloads after a tagged execution is the execution of
`TT.FS` (the model the correspondence check ties to the code) -/
theorem erase_trunProg (f : Flags) (a : α) (p : Prog) :
    ∀ (s : TSt α) (k : Nat), (trunProg f a s p k).erase = runProg f s.erase p k := by
  induction p with
  | done => intro s k; simp [trunProg, runProg]
  | seq o rest ih =>
    intro s k
    cases k with
    | zero => simp [trunProg, runProg]
    | succ k =>
      simp only [trunProg, runProg]
      have h := erase_tstep a s o
      cases hs : tstep a s o with
      | none => rw [hs] at h; simp at h; rw [← h]
      | some s' => rw [hs] at h; simp at h; rw [← h]; exact ih s' k
  | ite c t e iht ihe =>
    intro s k
    simp only [trunProg, runProg]
    split
    · exact iht s k
    · exact ihe s k

/-! ### relabelling payloads -/

@[simp] theorem erase_map (h : α → β) (c : TContent α) : (c.map h).erase = c.erase := by
  cases c <;> rfl

@[simp] theorem erase_mapSt (h : α → β) (s : TSt α) : (s.map h).erase = s.erase := by
  simp [TSt.map, TSt.erase]

@[simp] theorem map_get (h : α → β) (s : TSt α) (p : Path) : (s.map h).get p = (s.get p).map h := by
  cases p <;> rfl

@[simp] theorem map_set (h : α → β) (s : TSt α) (p : Path) (c : TContent α) :
    (s.set p c).map h = (s.map h).set p (c.map h) := by
  cases p <;> rfl

theorem map_tstep (h : α → β) (a : α) (s : TSt α) (o : Op) :
    (tstep a s o).map (TSt.map h) = tstep (h a) (s.map h) o := by
  cases o <;> simp only [tstep, map_get, erase_map] <;> (try split) <;>
    simp [map_set, TContent.map]

/-- **map_trunProg**: the write protocol never inspects a payload — execution commutes with any
relabelling of the payloads -/
theorem map_trunProg (h : α → β) (f : Flags) (a : α) (p : Prog) :
    ∀ (s : TSt α) (k : Nat), (trunProg f a s p k).map h = trunProg f (h a) (s.map h) p k := by
  induction p with
  | done => intro s k; simp [trunProg]
  | seq o rest ih =>
    intro s k
    cases k with
    | zero => simp [trunProg]
    | succ k =>
      simp only [trunProg]
      have hm := map_tstep h a s o
      cases hs : tstep a s o with
      | none => rw [hs] at hm; simp at hm; rw [← hm]
      | some s' => rw [hs] at hm; simp at hm; rw [← hm]; exact ih s' k
  | ite c t e iht ihe =>
    intro s k
    simp only [trunProg, erase_mapSt]
    split
    · exact iht s k
    · exact ihe s k

/-- every state is its own shape, labelled by position, read back through its payloads -/
theorem pos_interp (a : α) (s : TSt α) : (pos s.erase).map (interp a s) = s := by
  rcases s with ⟨n, w, o⟩
  cases n <;> cases w <;> cases o <;> rfl

theorem best_map (h : α → β) (s : TSt α) : best (s.map h) = (best s).map h := by
  rcases s with ⟨n, w, o⟩
  cases n <;> cases o <;> rfl

/-! ### the finite core -/

/-- from each of the 27 directory shapes satisfying the invariant, with files labelled by
position, a write of `fresh` interrupted after any `k` operations leaves as restart checkpoint
the one it was or `fresh`, and only payloads that existed or `fresh` -/
theorem best_step_table :
    ∀ s ∈ allStates, CkInv s → ∀ k ≤ prog.depth,
      let s' := trunProg defaultFlags Lbl.fresh (pos s) prog k
      (best s' = best (pos s) ∨ best s' = some Lbl.fresh) ∧
      (∀ p ∈ [Path.name, Path.new, Path.old], ∀ x ∈ [Lbl.n0, Lbl.w0, Lbl.o0],
        s'.get p = .complete x → ∃ q ∈ [Path.name, Path.new, Path.old], (pos s).get q = .complete x) := by
  decide

theorem trunProg_depth (f : Flags) (a : α) (p : Prog) : ∀ (s : TSt α) (k : Nat), p.depth ≤ k →
    trunProg f a s p k = trunProg f a s p p.depth := by
  induction p with
  | done => intro s k _; simp [trunProg]
  | seq o rest ih =>
    intro s k hk
    cases k with
    | zero => simp [Prog.depth] at hk
    | succ k =>
      simp only [Prog.depth, trunProg]
      cases tstep a s o with
      | none => rfl
      | some s' =>
        have : rest.depth ≤ k := by simp [Prog.depth] at hk; omega
        simpa using ih s' k this
  | ite c t e iht ihe =>
    intro s k hk
    have ht : t.depth ≤ k := Nat.le_trans (Nat.le_max_left _ _) hk
    have he : e.depth ≤ k := Nat.le_trans (Nat.le_max_right _ _) hk
    simp only [trunProg, Prog.depth]
    split
    · rw [iht s k ht, iht s (max t.depth e.depth) (Nat.le_max_left _ _)]
    · rw [ihe s k he, ihe s (max t.depth e.depth) (Nat.le_max_right _ _)]

theorem label_step (s : St) (h : CkInv s) (k : Nat) :
    let s' := trunProg defaultFlags Lbl.fresh (pos s) prog k
    (best s' = best (pos s) ∨ best s' = some Lbl.fresh) ∧
    (∀ p ∈ [Path.name, Path.new, Path.old], ∀ x ∈ [Lbl.n0, Lbl.w0, Lbl.o0],
      s'.get p = .complete x → ∃ q ∈ [Path.name, Path.new, Path.old], (pos s).get q = .complete x) := by
  by_cases hk : k ≤ prog.depth
  · exact best_step_table s (allStates_complete s) h k hk
  · rw [trunProg_depth _ _ _ _ _ (Nat.le_of_lt (Nat.lt_of_not_le hk))]
    exact best_step_table s (allStates_complete s) h _ (Nat.le_refl _)

/-! ### the property, for arbitrary payloads -/

/-- **previous_or_new**: one checkpoint write of payload `a`, interrupted at ANY crash point, from
any directory satisfying the invariant: the checkpoint a restart would use afterwards is the one it
would have used before, or the new one — never an older leftover. -/
theorem previous_or_new (a : α) (s : TSt α) (h : CkInv s.erase) (k : Nat) :
    best (trunProg defaultFlags a s prog k) = best s ∨
    best (trunProg defaultFlags a s prog k) = some a := by
  have hl := (label_step s.erase h k).1
  have hs : trunProg defaultFlags a s prog k =
      (trunProg defaultFlags Lbl.fresh (pos s.erase) prog k).map (interp a s) := by
    rw [map_trunProg, pos_interp]; rfl
  have hb : best s = (best (pos s.erase)).map (interp a s) := by
    rw [← best_map, pos_interp]
  rw [hs, best_map, hb]
  rcases hl with hl | hl
  · left; rw [hl]
  · right; rw [hl]; rfl

/-- **never_a_mixture**: after the interrupted write every complete file holds a payload that some
file held completely before, or the payload being written. -/
theorem never_a_mixture (a : α) (s : TSt α) (h : CkInv s.erase) (k : Nat) :
    NoMixture a s (trunProg defaultFlags a s prog k) := by
  intro p x hx
  have hl := (label_step s.erase h k).2
  have hs : trunProg defaultFlags a s prog k =
      (trunProg defaultFlags Lbl.fresh (pos s.erase) prog k).map (interp a s) := by
    rw [map_trunProg, pos_interp]; rfl
  rw [hs, map_get] at hx
  generalize hc : (trunProg defaultFlags Lbl.fresh (pos s.erase) prog k).get p = c at hx
  cases c with
  | absent => simp [TContent.map] at hx
  | trunc => simp [TContent.map] at hx
  | complete l =>
    simp only [TContent.map, TContent.complete.injEq] at hx
    cases l with
    | fresh => left; rw [← hx]; rfl
    | n0 =>
      right
      obtain ⟨q, _, hq⟩ := hl p (by cases p <;> simp) .n0 (by simp) hc
      refine ⟨q, ?_⟩
      have := congrArg (TContent.map (interp a s)) hq
      rw [← map_get, pos_interp] at this
      rw [this, ← hx]; rfl
    | w0 =>
      right
      obtain ⟨q, _, hq⟩ := hl p (by cases p <;> simp) .w0 (by simp) hc
      refine ⟨q, ?_⟩
      have := congrArg (TContent.map (interp a s)) hq
      rw [← map_get, pos_interp] at this
      rw [this, ← hx]; rfl
    | o0 =>
      right
      obtain ⟨q, _, hq⟩ := hl p (by cases p <;> simp) .o0 (by simp) hc
      refine ⟨q, ?_⟩
      have := congrArg (TContent.map (interp a s)) hq
      rw [← map_get, pos_interp] at this
      rw [this, ← hx]; rfl

/-- the invariant of `TTProps.C18` is kept by the tagged execution (through `erase_trunProg`) -/
theorem tagged_inv_step (a : α) (s : TSt α) (h : CkInv s.erase) (k : Nat) :
    CkInv (trunProg defaultFlags a s prog k).erase := by
  rw [erase_trunProg]; exact crash_safe_step s.erase h k

/-- a history of writes: the i-th one writes payload `w.1` and is interrupted after `w.2`
operations (a large number = completed) -/
def thistory (s : TSt α) (ws : List (α × Nat)) : TSt α :=
  ws.foldl (fun s w => trunProg defaultFlags w.1 s prog w.2) s

/-- **restart_checkpoint_forever**: after any number of consecutive interrupted or completed writes
the checkpoint a restart would use is the original one or the payload of one of the writes — and
it exists. -/
theorem restart_checkpoint_forever (s : TSt α) (h : CkInv s.erase) (ws : List (α × Nat)) :
    CkInv (thistory s ws).erase ∧
    (best (thistory s ws) = best s ∨ ∃ w ∈ ws, best (thistory s ws) = some w.1) := by
  induction ws generalizing s with
  | nil => exact ⟨h, Or.inl rfl⟩
  | cons w ws ih =>
    have h1 := tagged_inv_step w.1 s h w.2
    obtain ⟨hi, hb⟩ := ih (trunProg defaultFlags w.1 s prog w.2) h1
    refine ⟨hi, ?_⟩
    simp only [thistory, List.foldl_cons] at hb ⊢
    rcases hb with hb | ⟨w', hw', hb⟩
    · rcases previous_or_new w.1 s h w.2 with hp | hp
      · left; rw [hb, hp]
      · right; exact ⟨w, by simp, by rw [hb, hp]⟩
    · right; exact ⟨w', by simp [hw'], hb⟩

/-- under the invariant a restart checkpoint exists -/
theorem best_isSome (s : TSt α) (h : CkInv s.erase) : (best s).isSome = true := by
  rcases s with ⟨n, w, o⟩
  unfold CkInv at h
  cases n <;> cases o <;> simp_all [TSt.erase, TContent.erase, best]

/-- **generations_never_go_back**: with generation numbers as payloads, every write newer than
everything on disk: the generation a restart would use never decreases, whatever the crash points. -/
theorem generations_never_go_back (s : TSt Nat) (h : CkInv s.erase) (g : Nat) (k : Nat)
    (b : Nat) (hb : best s = some b) (hg : b ≤ g) :
    ∃ b', best (trunProg defaultFlags g s prog k) = some b' ∧ b ≤ b' ∧ (b' = b ∨ b' = g) := by
  rcases previous_or_new g s h k with hp | hp
  · exact ⟨b, by rw [hp, hb], Nat.le_refl _, Or.inl rfl⟩
  · exact ⟨g, hp, hg, Or.inr rfl⟩

/-- a completed write installs the new payload as the restart checkpoint -/
theorem completed_write_is_best_table :
    ∀ s ∈ allStates, CkInv s →
      best (trunProg defaultFlags Lbl.fresh (pos s) prog prog.depth) = some Lbl.fresh := by
  decide

theorem completed_write_is_best (a : α) (s : TSt α) (h : CkInv s.erase) (k : Nat) (hk : prog.depth ≤ k) :
    best (trunProg defaultFlags a s prog k) = some a := by
  have hs : trunProg defaultFlags a s prog k =
      (trunProg defaultFlags Lbl.fresh (pos s.erase) prog prog.depth).map (interp a s) := by
    rw [trunProg_depth _ _ _ _ _ hk, map_trunProg, pos_interp]; rfl
  rw [hs, best_map, completed_write_is_best_table s.erase (allStates_complete _) h]; rfl

/-- non-vacuity: generation 7 under the name with a stale generation 3 in `.old`; a write of
generation 8 killed between the two renames leaves generation 7 (in `.old`) as the restart
checkpoint, and the stale 3 is gone, not resurrected. -/
example :
    let s : TSt Nat := ⟨.complete 7, .absent, .complete 3⟩
    CkInv s.erase ∧ trunProg defaultFlags 8 s prog 4 = ⟨.absent, .complete 8, .complete 7⟩ ∧
      best (trunProg defaultFlags 8 s prog 4) = some 7 := by
  decide

end TTProps.C18
