import TTModel.C01_Patterns
import TTModel.C01_Pruning
/-! C01 table facts reused by C02 (`decide` over the GENERATED alphabet table) -/
namespace TT.C01

/-- ASCII upper-casing of a code point -/
def upperCode (o : Nat) : Nat := if 97 ≤ o ∧ o ≤ 122 then o - 32 else o

/-- the state a plain base stands for (A0 C1 G2 T3 U3, either case), 4 = missing for anything else -/
def plainState (o : Nat) : Nat :=
  match upperCode o with
  | 65 => 0 | 67 => 1 | 71 => 2 | 84 => 3 | 85 => 3 | _ => 4

/-- tip states (`compress_alignment_states`): plain bases get their state, everything else the
    missing state `4` -/
theorem tipstate_table : ∀ o, o < 128 → nucTipStateCode o = some (plainState o) := by decide

/-- with `use_ambiguities = False` the tip vector is the indicator of the plain base, and all ones for
    every other symbol — i.e. exactly the vector `stateVec` of the tip state (this is what makes the
    tip-state and tip-partial representations agree, C02) -/
theorem noamb_table : ∀ o, o < 128 →
    nucPartialCode false o = some (List.ofFn (stateVec (α := Nat) (S := 4) (plainState o))) := by decide

end TT.C01
