import TTProofs.Lemmas.C07_Jac
import Mathlib.Tactic.Ring
import Mathlib.Tactic.FieldSimp
import Mathlib.Tactic.Positivity
import Mathlib.Tactic.Linarith
/-! calculus facts behind the C07 transforms: cumulative sums, softplus -/
namespace TT.C07

/-! ### cumulative sum -/

theorem csum_update_lt (X : Nat → ℝ) {i j : Nat} (h : i < j) (t : ℝ) :
    csum (Function.update X j t) i = csum X i := by
  induction i with
  | zero => simp [csum, Function.update_of_ne (Nat.ne_of_lt h)]
  | succ i ih =>
    simp only [csum]
    rw [ih (by omega), Function.update_of_ne (Nat.ne_of_lt h)]

theorem csum_update_self (X : Nat → ℝ) (i : Nat) (t : ℝ) :
    csum (Function.update X i t) i = csum X i - X i + t := by
  cases i with
  | zero => simp [csum]
  | succ i =>
    simp only [csum, Function.update_self]
    rw [csum_update_lt X (Nat.lt_succ_self i)]
    ring

theorem hasDerivAt_csum_diag (X : Nat → ℝ) (i : Nat) :
    HasDerivAt (fun t => csum (Function.update X i t) i) 1 (X i) := by
  have : (fun t => csum (Function.update X i t) i) = fun t => (csum X i - X i) + t := by
    funext t; exact csum_update_self X i t
  rw [this]
  simpa using (hasDerivAt_id (X i)).const_add (csum X i - X i)

theorem csum_update_self_at (X : Nat → ℝ) (i : Nat) :
    csum (Function.update X i (X i)) i = csum X i := by
  rw [Function.update_eq_self]

theorem diffs_csum (x : Nat → ℝ) (i : Nat) : diffs (csum x) i = x i := by
  unfold diffs
  cases i with
  | zero => simp [csum]
  | succ i => simp [csum]

/-! ### softplus and the logistic function -/

theorem softplus_real (x : ℝ) : softplus x = Real.log (1 + Real.exp x) := rfl

theorem one_add_exp_pos (x : ℝ) : 0 < 1 + Real.exp x := by positivity

/-- derivative of softplus: the logistic function -/
noncomputable def sigm (x : ℝ) : ℝ := Real.exp x / (1 + Real.exp x)

theorem sigm_pos (x : ℝ) : 0 < sigm x := div_pos (Real.exp_pos x) (one_add_exp_pos x)

theorem hasDerivAt_softplus (x : ℝ) : HasDerivAt (fun t => softplus t) (sigm x) x := by
  have h1 : HasDerivAt (fun t => 1 + Real.exp t) (Real.exp x) x := by
    simpa using (Real.hasDerivAt_exp x).const_add 1
  have := h1.log (ne_of_gt (one_add_exp_pos x))
  simpa [softplus_real, sigm] using this

/-- `log σ(x) = -softplus(-x)` -/
theorem log_sigm (x : ℝ) : Real.log (sigm x) = -softplus (-x) := by
  unfold sigm
  rw [softplus_real, Real.log_div (ne_of_gt (Real.exp_pos x)) (ne_of_gt (one_add_exp_pos x)),
    Real.log_exp, Real.exp_neg]
  have hx : Real.exp x ≠ 0 := ne_of_gt (Real.exp_pos x)
  have : 1 + (Real.exp x)⁻¹ = (1 + Real.exp x) / Real.exp x := by field_simp; ring
  rw [this, Real.log_div (ne_of_gt (one_add_exp_pos x)) hx, Real.log_exp]
  ring

/-- `log(expm1(softplus x)) = x` -/
theorem softplus_inv (x : ℝ) : Real.log (Real.exp (softplus x) - 1) = x := by
  rw [softplus_real, Real.exp_log (one_add_exp_pos x)]
  simp

end TT.C07
