import TTProofs.Lemmas.C09_SplitCutTerm
/-! C09: one split of an epoch leaves the whole log density unchanged. -/
open TT TT.C09
namespace TT.C09

theorem sum_split_index (f f' : ℕ → ℝ) (i : ℕ) (h1 : ∀ k, k < i → f' k = f k) (h2 : f' i + f' (i + 1) = f i) :
    ∀ m, i + 1 ≤ m → (∀ k, i < k → k < m → f' (k + 1) = f k) →
      ∑ k ∈ Finset.range (m + 1), f' k = ∑ k ∈ Finset.range m, f k := by
  intro m hm
  induction m, hm using Nat.le_induction with
  | base =>
      intro _
      rw [Finset.sum_range_succ, Finset.sum_range_succ, Finset.sum_range_succ, ← h2]
      rw [Finset.sum_congr rfl (fun k hk => h1 k (Finset.mem_range.mp hk))]
      ring
  | succ m hm ih =>
      intro h3
      rw [Finset.sum_range_succ, ih (fun k a b => h3 k a (by omega)), Finset.sum_range_succ (fun k => f k) m,
        h3 m (by omega) (by omega)]

/-- events given as ages (heights): births `0 < h ≤ T`, samplings `0 ≤ h < T` -/
theorem events_of_heights (t : Nat → ℝ) (m : Nat) (h0 : t 0 = 0) (tips ints : List ℝ)
    (hints : ∀ h ∈ ints, 0 < h ∧ h ≤ t m) (htips : ∀ h ∈ tips, 0 ≤ h ∧ h < t m) :
    Events t m (ints.map fun h => t m - h) (tips.map fun h => t m - h) := by
  constructor
  · intro x hx
    obtain ⟨h, hh, rfl⟩ := List.mem_map.mp hx
    have := hints h hh
    rw [h0]; constructor <;> linarith
  · intro y hy
    obtain ⟨h, hh, rfl⟩ := List.mem_map.mp hy
    have := htips h hh
    rw [h0]; constructor <;> linarith

/-- **one split**: the whole log density is unchanged -/
theorem logProb_split {r r' : Rates ℝ} {t t' : Nat → ℝ} {m i : Nat} {s : ℝ} (h : SplitAt r r' t t' m i s)
    (surv : Bool) (tips ints : List ℝ)
    (hints : ∀ a ∈ ints, 0 < a ∧ a ≤ t m) (htips : ∀ a ∈ tips, 0 ≤ a ∧ a < t m) :
    logProb r' none t' (m + 1) surv tips ints = logProb r none t m surv tips ints := by
  have hi := h.hi
  obtain ⟨m', rfl⟩ : ∃ m', m = m' + 1 := ⟨m - 1, by omega⟩
  have hev := events_of_heights t (m' + 1) h.t0 tips ints hints htips
  have hev' := h.events' hev
  have t0' : t' 0 = 0 := by rw [h.t'_zero, h.t0]
  have hxidx : ∀ a ∈ ints, idxX t (m' + 1) (t (m' + 1) - a) < m' + 1 := by
    intro a ha
    have d := hev.1 _ (List.mem_map_of_mem ha)
    obtain ⟨k, hk, k1, k2⟩ := exists_epoch_X (t := t) (m := m' + 1) _ d.1 d.2
    rw [idxX_of_mem h.grid k hk _ k1 k2]; exact hk
  have hxidx' : ∀ a ∈ ints, idxX t' (m' + 1 + 1) (t' (m' + 1 + 1) - a) < m' + 1 + 1 := by
    intro a ha
    rw [h.t'_last]
    have d := hev'.1 _ (List.mem_map_of_mem ha)
    obtain ⟨k, hk, k1, k2⟩ := exists_epoch_X (t := t') (m := m' + 1 + 1) _ d.1 (by rw [h.t'_last]; exact (hev.1 _ (List.mem_map_of_mem ha)).2)
    rw [idxX_of_mem h.grid' k hk _ k1 k2]; exact hk
  rw [logProb_eq_sum_epochs r' t' (m' + 1) surv tips ints t0' hxidx',
    logProb_eq_sum_epochs r t m' surv tips ints h.t0 hxidx, h.t'_last, h.pAt_lo (i - 0) 0 rfl (Nat.zero_le i)]
  congr 1
  exact sum_split_index _ _ i (fun k hk => h.epochTerm_lo hev k hk) (h.epochTerm_cut hev) (m' + 1) (by omega)
    (fun k a b => h.epochTerm_hi hev k a b)

end TT.C09
