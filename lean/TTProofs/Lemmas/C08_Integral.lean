import TTProofs.Lemmas.C08_Lists
import Mathlib.MeasureTheory.Integral.IntervalIntegral.Basic
/-!
# C08 — the walk over a time-sorted event list is an integral of a step-state function

`walk_integral`: if `c k j a b = ∫_a^b φ k j`, then the walk equals
`∫ φ (k(x)) (j(x)) x dx` from the first to the last event, where `k(x)`, `j(x)` are the *declarative*
counters `kAt`, `jAt` (events strictly before `x`).  Zero-length intervals (ties, in whatever order the
sort left them) contribute nothing on either side.
-/
namespace TT.C08
open MeasureTheory intervalIntegral

theorem integrable_congr_Ioc {f g : ℝ → ℝ} {a b : ℝ} (hab : a ≤ b)
    (hg : IntervalIntegrable g volume a b) (h : ∀ x ∈ Set.Ioc a b, f x = g x) :
    IntervalIntegrable f volume a b := by
  refine hg.congr ?_
  rw [Set.uIoc_of_le hab]
  intro x hx
  exact (h x hx).symm

theorem integral_congr_Ioc {f g : ℝ → ℝ} {a b : ℝ} (hab : a ≤ b)
    (h : ∀ x ∈ Set.Ioc a b, f x = g x) : ∫ x in a..b, f x = ∫ x in a..b, g x := by
  apply intervalIntegral.integral_congr_ae
  refine Filter.Eventually.of_forall fun x hx => ?_
  rw [Set.uIoc_of_le hab] at hx
  exact h x hx

/-- the state function of the spec: `φ` at the declarative counters -/
noncomputable def stateFn (φ : ℤ → ℕ → ℝ → ℝ) (v : Int) (k : ℤ) (j : ℕ) (l : List (Ev ℝ)) : ℝ → ℝ :=
  fun x => φ (k + kAt l x) (j + jAt v l x) x

theorem walk_integral (φ : ℤ → ℕ → ℝ → ℝ) (c : ℤ → ℕ → ℝ → ℝ → ℝ) (v : Int)
    (hφ : ∀ k j a b, a ≤ b → IntervalIntegrable (φ k j) volume a b ∧ ∫ x in a..b, φ k j x = c k j a b) :
    ∀ (l : List (Ev ℝ)) (e1 : Ev ℝ) (k : ℤ) (j : ℕ), TimeSorted (e1 :: l) →
      IntervalIntegrable (stateFn φ v k j (e1 :: l)) volume e1.t (lastTime e1 l) ∧
      ∫ x in e1.t..lastTime e1 l, stateFn φ v k j (e1 :: l) x = walk c v k j (e1 :: l)
  | [], e1, k, j, _ => by
      simp [lastTime, walk]
  | e2 :: rest, e1, k, j, hs => by
      have hp := List.pairwise_cons.mp hs
      have h12 : e1.t ≤ e2.t := hp.1 e2 (List.mem_cons_self)
      have h2l : e2.t ≤ lastTime e2 rest := le_lastTime rest e2 hp.2 e2 (List.mem_cons_self)
      have hp2 := List.pairwise_cons.mp hp.2
      obtain ⟨ihI, ihV⟩ := walk_integral φ c v hφ rest e2 (k + e1.mark) (j + if e1.mark = v then 1 else 0) hp.2
      obtain ⟨hI1, hV1⟩ := hφ (k + e1.mark) (j + if e1.mark = v then 1 else 0) e1.t e2.t h12
      -- on (e1.t, e2.t] only e1 lies strictly before x
      have hA : ∀ x ∈ Set.Ioc e1.t e2.t, stateFn φ v k j (e1 :: e2 :: rest) x
          = φ (k + e1.mark) (j + if e1.mark = v then 1 else 0) x := by
        intro x hx
        have hz : ∀ e ∈ e2 :: rest, x ≤ e.t := by
          intro e he
          rcases List.mem_cons.mp he with rfl | he
          · exact hx.2
          · exact le_trans hx.2 (hp2.1 e he)
        unfold stateFn
        rw [kAt_cons, jAt_cons, kAt_eq_zero hz, jAt_eq_zero v hz]
        simp only [hx.1, if_true, and_true, add_zero]
      -- on (e2.t, last] the head e1 is always counted
      have hB : ∀ x ∈ Set.Ioc e2.t (lastTime e2 rest), stateFn φ v k j (e1 :: e2 :: rest) x
          = stateFn φ v (k + e1.mark) (j + if e1.mark = v then 1 else 0) (e2 :: rest) x := by
        intro x hx
        have hlt : e1.t < x := lt_of_le_of_lt h12 hx.1
        unfold stateFn
        rw [kAt_cons (e1) (e2 :: rest), jAt_cons v e1 (e2 :: rest)]
        simp only [hlt, if_true, and_true, add_assoc]
      have hIA := integrable_congr_Ioc h12 hI1 hA
      have hIB := integrable_congr_Ioc h2l ihI hB
      refine ⟨hIA.trans hIB, ?_⟩
      show ∫ x in e1.t..lastTime e2 rest, stateFn φ v k j (e1 :: e2 :: rest) x = _
      rw [← intervalIntegral.integral_add_adjacent_intervals hIA hIB, integral_congr_Ioc h12 hA,
        integral_congr_Ioc h2l hB, hV1, ihV]
      rfl

/-- extension to any window `[a, b]` containing all events, when `φ` vanishes at the counter values
taken before the first event (`k = k₀`) and after the last one (`k = k₀ + total`) -/
theorem walk_integral_window (φ : ℤ → ℕ → ℝ → ℝ) (c : ℤ → ℕ → ℝ → ℝ → ℝ) (v : Int)
    (hφ : ∀ k j a b, a ≤ b → IntervalIntegrable (φ k j) volume a b ∧ ∫ x in a..b, φ k j x = c k j a b)
    (l : List (Ev ℝ)) (e1 : Ev ℝ) (k : ℤ) (j : ℕ) (hs : TimeSorted (e1 :: l)) (a b : ℝ)
    (ha : ∀ e ∈ e1 :: l, a ≤ e.t) (hb : ∀ e ∈ e1 :: l, e.t ≤ b)
    (h0 : ∀ j x, φ k j x = 0) (h1 : ∀ j x, φ (k + ((e1 :: l).map (·.mark)).sum) j x = 0) :
    ∫ x in a..b, stateFn φ v k j (e1 :: l) x = walk c v k j (e1 :: l) := by
  obtain ⟨hI, hV⟩ := walk_integral φ c v hφ l e1 k j hs
  have hp := List.pairwise_cons.mp hs
  have ha1 : a ≤ e1.t := ha e1 (List.mem_cons_self)
  have hlast : ∀ e ∈ e1 :: l, e.t ≤ lastTime e1 l := le_lastTime l e1 hs
  have hlb : lastTime e1 l ≤ b := by
    -- the last time is the time of some event
    have : ∀ (l : List (Ev ℝ)) (e : Ev ℝ), ∃ x ∈ e :: l, lastTime e l = x.t := by
      intro l
      induction l with
      | nil => intro e; exact ⟨e, List.mem_cons_self, rfl⟩
      | cons y ys ih =>
        intro e
        obtain ⟨x, hx, hxe⟩ := ih y
        exact ⟨x, List.mem_cons_of_mem _ hx, hxe⟩
    obtain ⟨x, hx, hxe⟩ := this l e1
    rw [hxe]; exact hb x hx
  -- before the first event
  have hL : ∀ x ∈ Set.Ioc a e1.t, stateFn φ v k j (e1 :: l) x = (fun _ => (0 : ℝ)) x := by
    intro x hx
    have hz : ∀ e ∈ e1 :: l, x ≤ e.t := by
      intro e he
      rcases List.mem_cons.mp he with rfl | he
      · exact hx.2
      · exact le_trans hx.2 (hp.1 e he)
    unfold stateFn
    rw [kAt_eq_zero hz, add_zero]
    exact h0 _ _
  -- after the last event
  have hR : ∀ x ∈ Set.Ioc (lastTime e1 l) b, stateFn φ v k j (e1 :: l) x = (fun _ => (0 : ℝ)) x := by
    intro x hx
    have hz : ∀ e ∈ e1 :: l, e.t < x := fun e he => lt_of_le_of_lt (hlast e he) hx.1
    unfold stateFn
    rw [kAt_eq_total hz]
    exact h1 _ _
  have h1l : e1.t ≤ lastTime e1 l := hlast e1 (List.mem_cons_self)
  have hzero : ∀ p q : ℝ, IntervalIntegrable (fun _ : ℝ => (0 : ℝ)) volume p q := fun p q =>
    intervalIntegrable_const
  have hIL := integrable_congr_Ioc ha1 (hzero a e1.t) hL
  have hIR := integrable_congr_Ioc hlb (hzero (lastTime e1 l) b) hR
  rw [← intervalIntegral.integral_add_adjacent_intervals (hIL.trans hI) hIR,
    ← intervalIntegral.integral_add_adjacent_intervals hIL hI, integral_congr_Ioc ha1 hL,
    integral_congr_Ioc hlb hR, hV]
  simp

end TT.C08
