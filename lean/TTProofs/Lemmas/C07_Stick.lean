import TTProofs.Lemmas.C07_TorchCalc
/-!
StickBreakingTransform as torch writes it: the first `n` coordinates of the image as a map
`ℝⁿ → ℝⁿ` are lower triangular in `x` with diagonal `z_i (1 − z_i) Π_{j<i} (1 − z_j)`.
-/
namespace TT.C07.Torch
open TT TT.C07

variable {lo hi : ℝ} {n : Nat}

/-- `u_i = x_i − log(offset_i)` -/
noncomputable def sbU (n : Nat) (X : Nat → ℝ) (i : Nat) : ℝ := X i - Real.log (nat (n - i) : ℝ)

/-- the clipping of the sigmoid is inactive at every coordinate -/
def Unclipped (lo hi : ℝ) (n : Nat) (X : Nat → ℝ) : Prop :=
  ∀ m, m < n → lo < sigm (sbU n X m) ∧ sigm (sbU n X m) < hi

theorem sbZ_eq (X : Nat → ℝ) (i : Nat) : sbZ lo hi n X i = clamp lo hi (sigm (sbU n X i)) := by
  unfold sbZ sbU
  rw [sigmoid_eq_sigm]; rfl

theorem sbZ_unclipped {X : Nat → ℝ} (h : Unclipped lo hi n X) {i : Nat} (hi' : i < n) :
    sbZ lo hi n X i = sigm (sbU n X i) := by
  rw [sbZ_eq, clamp_of_mem (le_of_lt (h i hi').1) (le_of_lt (h i hi').2)]

theorem sbZ_update_ne (X : Nat → ℝ) {i j : Nat} (h : i ≠ j) (t : ℝ) :
    sbZ lo hi n (Function.update X j t) i = sbZ lo hi n X i := by
  unfold sbZ
  rw [Function.update_of_ne h]

theorem cumprod1m_congr {z z' : Nat → ℝ} : ∀ k, (∀ m, m ≤ k → z m = z' m) →
    cumprod1m z k = cumprod1m z' k
  | 0, h => by simp [cumprod1m, h 0 (le_refl 0)]
  | k + 1, h => by
    simp only [cumprod1m]
    rw [cumprod1m_congr k (fun m hm => h m (by omega)), h (k + 1) (le_refl _)]

theorem cumprod1m_pos {z : Nat → ℝ} : ∀ k, (∀ m, m ≤ k → z m < 1) → 0 < cumprod1m z k
  | 0, h => by simp only [cumprod1m]; linarith [h 0 (le_refl 0)]
  | k + 1, h => by
    simp only [cumprod1m]
    exact mul_pos (cumprod1m_pos k (fun m hm => h m (by omega))) (by linarith [h (k + 1) (le_refl _)])

/-- the factor `Π_{j<i} (1 − z_j)` of coordinate `i` -/
noncomputable def sbC (lo hi : ℝ) (n : Nat) (X : Nat → ℝ) (i : Nat) : ℝ :=
  if i = 0 then 1 else cumprod1m (sbZ lo hi n X) (i - 1)

theorem sbFwd_eq (X : Nat → ℝ) {i : Nat} (hi' : i < n) :
    sbFwd lo hi n X i = sbZ lo hi n X i * sbC lo hi n X i := by
  unfold sbFwd sbC
  rw [if_pos hi']

theorem sbC_update (X : Nat → ℝ) {i j : Nat} (h : i ≤ j) (t : ℝ) :
    sbC lo hi n (Function.update X j t) i = sbC lo hi n X i := by
  unfold sbC
  split
  · rfl
  · exact cumprod1m_congr _ (fun m hm => sbZ_update_ne X (by omega) t)

theorem sbC_pos {X : Nat → ℝ} (h : Unclipped lo hi n X) {i : Nat} (hi' : i < n) :
    0 < sbC lo hi n X i := by
  unfold sbC
  split
  · exact one_pos
  · apply cumprod1m_pos
    intro m hm
    rw [sbZ_unclipped h (by omega)]
    exact sigm_lt_one _

/-- lower-triangular dependence -/
theorem sbFwd_dep (X : Nat → ℝ) {i j : Nat} (hij : i < j) (hj : j < n) (t : ℝ) :
    sbFwd lo hi n (Function.update X j t) i = sbFwd lo hi n X i := by
  rw [sbFwd_eq _ (by omega), sbFwd_eq _ (by omega), sbZ_update_ne X (by omega) t,
    sbC_update X (le_of_lt hij) t]

/-- diagonal partial derivative -/
theorem sbFwd_diag {X : Nat → ℝ} (h : Unclipped lo hi n X) {i : Nat} (hi' : i < n) :
    HasDerivAt (fun t => sbFwd lo hi n (Function.update X i t) i)
      (sigm (sbU n X i) * (1 - sigm (sbU n X i)) * sbC lo hi n X i) (X i) := by
  set c := Real.log (nat (n - i) : ℝ) with hc
  have hfun : (fun t => sbFwd lo hi n (Function.update X i t) i)
      = fun t => clamp lo hi (sigm (t - c)) * sbC lo hi n X i := by
    funext t
    rw [sbFwd_eq _ hi', sbC_update X (le_refl i) t, sbZ_eq]
    simp [sbU, Function.update_self, hc]
  rw [hfun]
  have hs : HasDerivAt (fun t => sigm (t - c)) (sigm (X i - c) * (1 - sigm (X i - c))) (X i) := by
    have h1 : HasDerivAt (fun t : ℝ => t - c) 1 (X i) := (hasDerivAt_id (X i)).sub_const c
    have := (hasDerivAt_sigm (X i - c)).comp (X i) h1
    rw [mul_one] at this
    exact this
  have hopen : IsOpen {t : ℝ | lo < sigm (t - c) ∧ sigm (t - c) < hi} := by
    have hcont : Continuous fun t : ℝ => sigm (t - c) := continuous_sigm.comp (continuous_id.sub continuous_const)
    exact (isOpen_lt continuous_const hcont).inter (isOpen_lt hcont continuous_const)
  have hmem : X i ∈ {t : ℝ | lo < sigm (t - c) ∧ sigm (t - c) < hi} := h i hi'
  have hev : ∀ᶠ t in nhds (X i), clamp lo hi (sigm (t - c)) = sigm (t - c) := by
    filter_upwards [hopen.mem_nhds hmem] with t ht
    exact clamp_of_mem (le_of_lt ht.1) (le_of_lt ht.2)
  have hcl : HasDerivAt (fun t => clamp lo hi (sigm (t - c))) (sigm (X i - c) * (1 - sigm (X i - c))) (X i) :=
    hs.congr_of_eventuallyEq hev
  exact hcl.mul_const _

/-- telescoping: `Σ_{j≤i} y_j = 1 − Π_{j≤i} (1 − z_j)` -/
theorem csum_sbFwd (X : Nat → ℝ) : ∀ i, i < n →
    csum (sbFwd lo hi n X) i = 1 - cumprod1m (sbZ lo hi n X) i
  | 0, h0 => by
    simp only [csum, cumprod1m, sbFwd_eq X h0, sbC]
    simp
  | i + 1, h1 => by
    simp only [csum, cumprod1m]
    rw [csum_sbFwd X i (by omega), sbFwd_eq X h1]
    simp only [sbC, Nat.add_one_ne_zero, if_false, Nat.add_sub_cancel]
    ring

theorem cumprod1m_eq_sbC (X : Nat → ℝ) (i : Nat) :
    cumprod1m (sbZ lo hi n X) i = sbC lo hi n X i * (1 - sbZ lo hi n X i) := by
  cases i with
  | zero => simp [cumprod1m, sbC]
  | succ i => simp [cumprod1m, sbC]

/-- `log(1 − σ(u)) = −u + log σ(u)` (the identity `1 − σ(u) = e^{−u} σ(u)` torch uses) -/
theorem log_one_sub_sigm' (u : ℝ) : Real.log (1 - sigm u) = -u + Real.log (sigm u) := by
  have := logit_sigm u
  linarith

theorem logsigmoid_real (u : ℝ) : logsigmoid u = Real.log (sigm u) := by
  rw [log_sigm]; rfl

end TT.C07.Torch
