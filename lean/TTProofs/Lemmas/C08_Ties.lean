import TTProofs.Lemmas.C08_Main
/-!
# C08 — what happens exactly at ties

`sortEvents` is a *stable* insertion sort and `mkEvents` lists sampling marks, then coalescent marks, then
grid marks.  Hence, among events sharing a time, a coalescent mark never follows a grid mark and a sampling mark
never follows a coalescent mark.  With that order the model's skygrid reads `θ` on the LEFT of a grid point that
coincides with a coalescent time.
-/
namespace TT.C08

/-- the tie order left by the stable sort of `[+1 … | -1 … | 0 …]` -/
def TieRel (a b : Ev ℝ) : Prop :=
  a.t ≤ b.t ∧ (a.t = b.t → ¬(a.mark = 0 ∧ b.mark = -1) ∧ ¬(a.mark = -1 ∧ b.mark = 1))

/-- admissible input order: no grid mark before a coalescent mark, no coalescent mark before a sampling mark -/
def InputOrder (a b : Ev ℝ) : Prop := ¬(a.mark = 0 ∧ b.mark = -1) ∧ ¬(a.mark = -1 ∧ b.mark = 1)

theorem insertEv_tie (e : Ev ℝ) : ∀ l : List (Ev ℝ), l.Pairwise TieRel → (∀ x ∈ l, InputOrder e x) →
    (insertEv e l).Pairwise TieRel
  | [], _, _ => by simp [insertEv]
  | x :: xs, h, hin => by
      unfold insertEv
      have hx := List.pairwise_cons.mp h
      split
      · rename_i hle
        refine List.pairwise_cons.mpr ⟨?_, h⟩
        intro b hb
        have hxb : x.t ≤ b.t := by
          rcases List.mem_cons.mp hb with rfl | hb
          · exact le_refl _
          · exact (hx.1 b hb).1
        exact ⟨le_trans hle hxb, fun _ => hin b hb⟩
      · rename_i hle
        have hlt : x.t < e.t := not_le.mp hle
        refine List.pairwise_cons.mpr ⟨?_, insertEv_tie e xs hx.2 (fun y hy => hin y (List.mem_cons_of_mem _ hy))⟩
        intro b hb
        rcases List.mem_cons.mp ((insertEv_perm e xs).mem_iff.mp hb) with rfl | hb
        · exact ⟨hlt.le, fun h => absurd h hlt.ne⟩
        · exact hx.1 b hb

theorem sortEvents_tie : ∀ l : List (Ev ℝ), l.Pairwise InputOrder → (sortEvents l).Pairwise TieRel
  | [], _ => by simp [sortEvents]
  | e :: es, h => by
      have hp := List.pairwise_cons.mp h
      unfold sortEvents
      exact insertEv_tie e _ (sortEvents_tie es hp.2)
        (fun x hx => hp.1 x ((sortEvents_perm es).mem_iff.mp hx))

theorem evs_inputOrder (samp coal grid : List ℝ) : (evs samp coal grid).Pairwise InputOrder := by
  unfold evs
  rw [List.pairwise_append, List.pairwise_append]
  refine ⟨⟨?_, ?_, ?_⟩, ?_, ?_⟩
  · exact List.pairwise_map.mpr (List.pairwise_of_forall (fun _ _ => ⟨by simp, by simp⟩))
  · exact List.pairwise_map.mpr (List.pairwise_of_forall (fun _ _ => ⟨by simp, by simp⟩))
  · intro a ha b hb
    obtain ⟨s, _, rfl⟩ := List.mem_map.mp ha
    obtain ⟨c, _, rfl⟩ := List.mem_map.mp hb
    exact ⟨by simp, by simp⟩
  · exact List.pairwise_map.mpr (List.pairwise_of_forall (fun _ _ => ⟨by simp, by simp⟩))
  · intro a ha b hb
    obtain ⟨g, _, rfl⟩ := List.mem_map.mp hb
    exact ⟨by simp, by simp⟩

/-- `pts_eq_sum` with the hypothesis on ORDERED pairs only: a `v`-marked event sorted before a coalescent event
is strictly earlier -/
theorem pts_eq_sum_ordered (ψ : ℕ → ℝ) (v : Int) (hv : v ≠ -1) :
    ∀ (l : List (Ev ℝ)) (j : ℕ), TimeSorted l →
      l.Pairwise (fun e e' => e.mark = v → e'.mark = -1 → e.t ≠ e'.t) →
      pts ψ v j l = ((l.filter (fun e => decide (e.mark = -1))).map (fun e => ψ (j + jAt v l e.t))).sum
  | [], _, _, _ => by simp [pts]
  | e :: rest, j, hs, hne => by
      have hp := List.pairwise_cons.mp hs
      have hn := List.pairwise_cons.mp hne
      have ih := pts_eq_sum_ordered ψ v hv rest (j + if e.mark = v then 1 else 0) hp.2 hn.2
      have htail : ((rest.filter (fun e => decide (e.mark = -1))).map
            (fun e' => ψ (j + jAt v (e :: rest) e'.t))).sum
          = ((rest.filter (fun e => decide (e.mark = -1))).map
            (fun e' => ψ ((j + if e.mark = v then 1 else 0) + jAt v rest e'.t))).sum := by
        congr 1
        apply List.map_congr_left
        intro e' he'
        have hmem := (List.mem_filter.mp he')
        have hm : e'.mark = -1 := by simpa using hmem.2
        rw [jAt_cons]
        by_cases hev : e.mark = v
        · have hlt : e.t < e'.t := lt_of_le_of_ne (hp.1 e' hmem.1) (hn.1 e' hmem.1 hev hm)
          simp [hev, hlt, add_assoc]
        · simp [hev]
      unfold pts
      rw [ih, List.filter_cons]
      by_cases hm : e.mark = -1
      · have hev : ¬ e.mark = v := by rw [hm]; exact fun h => hv h.symm
        have h0 : jAt v (e :: rest) e.t = 0 := by
          apply jAt_eq_zero
          intro a ha
          rcases List.mem_cons.mp ha with rfl | ha
          · exact le_refl _
          · exact hp.1 a ha
        have hd : decide (e.mark = -1) = true := by simp [hm]
        rw [if_pos hm, if_pos hd, List.map_cons, List.sum_cons, h0, htail, if_neg hev]
      · have hd : ¬ decide (e.mark = -1) = true := by simp [hm]
        rw [if_neg hm, if_neg hd, htail, zero_add]

/-- the sorted events of the model, with the tie order the stable sort leaves -/
theorem sorted_events_tie {samp coal samp' coal' : List ℝ} (grid : List ℝ)
    (hs : samp'.Perm samp) (hc : coal'.Perm coal) (hlen : samp.length = coal.length + 1) :
    ∃ e1 l, sortEvents (mkEvents (samp' ++ coal') grid) = e1 :: l ∧
      (e1 :: l).Perm (evs samp coal grid) ∧ TimeSorted (e1 :: l) ∧ (e1 :: l).Pairwise TieRel := by
  obtain ⟨e1, l, hS, hperm, hsorted⟩ := sorted_events grid hs hc hlen
  have hlen' : samp'.length = coal'.length + 1 := by rw [hs.length_eq, hc.length_eq]; exact hlen
  refine ⟨e1, l, hS, hperm, hsorted, ?_⟩
  rw [← hS, mkEvents_eq samp' coal' grid hlen']
  exact sortEvents_tie _ (evs_inputOrder samp' coal' grid)

/-- head of the stably sorted events is not a coalescent event as soon as every coalescent time has a sampling
time at or below it -/
theorem head_not_coal_tie {samp coal grid : List ℝ} {e1 : Ev ℝ} {l : List (Ev ℝ)}
    (hperm : (e1 :: l).Perm (evs samp coal grid)) (htie : (e1 :: l).Pairwise TieRel)
    (hyoung : ∀ c ∈ coal, ∃ s ∈ samp, s ≤ c) : e1.mark ≠ -1 := by
  intro hm
  have he1 : e1 ∈ evs samp coal grid := hperm.mem_iff.mp (List.mem_cons_self)
  rcases mem_evs.mp he1 with ⟨h, _⟩ | ⟨_, hc⟩ | ⟨h, _⟩
  · rw [hm] at h; exact absurd h (by decide)
  · obtain ⟨s, hs', hle⟩ := hyoung _ hc
    have hmem : (⟨s, 1⟩ : Ev ℝ) ∈ e1 :: l := hperm.mem_iff.mpr (mem_evs.mpr (Or.inl ⟨rfl, hs'⟩))
    have hp := List.pairwise_cons.mp htie
    rcases List.mem_cons.mp hmem with h | h
    · rw [← h] at hm; simp at hm
    · obtain ⟨h1, h2⟩ := hp.1 _ h
      have heq : e1.t = s := le_antisymm h1 hle
      exact (h2 heq).2 ⟨hm, rfl⟩
  · rw [hm] at h; exact absurd h (by decide)

/-- the skygrid's log terms with ties allowed: always the LEFT-continuous `θ[#{g < c}]` -/
theorem grid_logs_tie (ψ : ℕ → ℝ) {samp coal samp' coal' : List ℝ} (grid : List ℝ)
    (hs : samp'.Perm samp) (hc : coal'.Perm coal) (hlen : samp.length = coal.length + 1)
    (hyoung : ∀ c ∈ coal, ∃ s ∈ samp, s ≤ c) :
    ((List.zipWith (fun m i => if m = -1 then ψ i else (0 : ℝ))
        (marks (sortEvents (mkEvents (samp' ++ coal') grid)))
        (skygridIdx (sortEvents (mkEvents (samp' ++ coal') grid)))).tail).sum
      = (coal.map (fun c => ψ (grid.countP (fun g => decide (g < c))))).sum := by
  obtain ⟨e1, l, hS, hperm, hsorted, htie⟩ := sorted_events_tie grid hs hc hlen
  rw [hS]
  have hhead := head_not_coal_tie hperm htie hyoung
  have h1 : ((List.zipWith (fun m i => if m = -1 then ψ i else (0 : ℝ)) (marks (e1 :: l))
        (skygridIdx (e1 :: l))).tail).sum = pts ψ 0 0 (e1 :: l) := by
    unfold skygridIdx cumsum
    simp only [marks, isMark, List.map_cons, cumsumFrom, List.zipWith_cons_cons, List.tail_cons, pts,
      if_neg hhead, zero_add]
    exact zipWith_eq_pts ψ 0 l _
  rw [h1]
  have hne' : (e1 :: l).Pairwise (fun e e' => e.mark = 0 → e'.mark = -1 → e.t ≠ e'.t) :=
    htie.imp (fun {a b} hab hm hm' heq => (hab.2 heq).1 ⟨hm, hm'⟩)
  rw [pts_eq_sum_ordered ψ 0 (by decide) (e1 :: l) 0 hsorted hne']
  have hfun : (fun e : Ev ℝ => ψ (0 + jAt 0 (e1 :: l) e.t))
      = (fun e : Ev ℝ => ψ (grid.countP (fun g => decide (g < e.t)))) := by
    funext e; rw [zero_add, jAt_perm 0 hperm, jAt_zero_evs]
  rw [hfun, ((hperm.filter _).map _).sum_eq, filter_coal_evs, List.map_map]
  rfl

end TT.C08
