import TTProofs.Lemmas.C09_TreeCount
/-! C09: rho-sampled tips per epoch. -/
open TT TT.C09 Set
namespace TT.C09

/-- the `ρ`-sampled tips of epoch `k` are the tips at its end, when `ρ_k > 0` -/
theorem rho_tips_epoch {r : Rates ℝ} {t : Nat → ℝ} {m : Nat} (g : Grid t m) (ys : List ℝ)
    (hy : ∀ y ∈ ys, t 0 < y ∧ y ≤ t m) (k : Nat) (hk : k < m) :
    ((ys.filter fun y => idxY t m y = k ∧ isRhoTip r t m y = true).length : ℝ) * Real.log (r.rho k)
      = (nAt t k ys : ℝ) * Real.log (if 0 < nAt t k ys ∧ 0 < r.rho k then r.rho k else 1) := by
  by_cases hρ : 0 < r.rho k
  · have hf : (ys.filter fun y => idxY t m y = k ∧ isRhoTip r t m y = true) = ys.filter fun y => y == t (k + 1) := by
      apply List.filter_congr
      intro y hyy
      have d := hy y hyy
      have hiff : (idxY t m y = k ∧ isRhoTip r t m y = true) ↔ y = t (k + 1) := by
        constructor
        · rintro ⟨hi, hr⟩
          obtain ⟨k', hk', e, _⟩ := (isRhoTip_iff g y d.1 d.2).mp hr
          have : idxY t m y = k' := idxY_of_mem g k' hk' y (by rw [e]; exact g k' (k' + 1) (by omega) (by omega)) (le_of_eq e)
          rw [this] at hi; subst hi; exact e
        · intro e
          have hi : idxY t m y = k := idxY_of_mem g k hk y (by rw [e]; exact g k (k + 1) (by omega) (by omega)) (le_of_eq e)
          exact ⟨hi, (isRhoTip_iff g y d.1 d.2).mpr ⟨k, hk, e, hρ⟩⟩
      by_cases hc : y = t (k + 1)
      · have h1 : decide (idxY t m y = k ∧ isRhoTip r t m y = true) = true := decide_eq_true (hiff.mpr hc)
        have h2 : (y == t (k + 1)) = true := by simp [hc]
        rw [h1, h2]
      · have h1 : decide (idxY t m y = k ∧ isRhoTip r t m y = true) = false := decide_eq_false fun h => hc (hiff.mp h)
        have h2 : (y == t (k + 1)) = false := by simp [hc]
        rw [h1, h2]
    rw [hf]
    unfold nAt
    by_cases hN : 0 < (ys.filter fun y => y == t (k + 1)).length
    · simp [hN, hρ]
    · have : (ys.filter fun y => y == t (k + 1)).length = 0 := by omega
      simp [this]
  · have hf : (ys.filter fun y => idxY t m y = k ∧ isRhoTip r t m y = true) = [] := by
      apply List.filter_eq_nil_iff.mpr
      intro y hyy
      have d := hy y hyy
      simp only [decide_eq_true_eq, not_and]
      intro hi hr
      obtain ⟨k', hk', e, hr'⟩ := (isRhoTip_iff g y d.1 d.2).mp hr
      have : idxY t m y = k' := idxY_of_mem g k' hk' y (by rw [e]; exact g k' (k' + 1) (by omega) (by omega)) (le_of_eq e)
      rw [this] at hi; subst hi; exact hρ hr'
    rw [hf]
    simp [hρ]

/-- regrouping by epoch, read from right to left -/
theorem sum_epochs_eq_sum_events (l : List ℝ) (idx : ℝ → ℕ) (m : ℕ) (f : ℕ → ℝ → ℝ) (h : ∀ x ∈ l, idx x < m) :
    ∑ k ∈ Finset.range m, ((l.filter fun x => idx x = k).map (f k)).sum = (l.map fun x => f (idx x) x).sum :=
  (sum_by_epoch l idx m f h).symm

end TT.C09
