import TTProofs.Lemmas.C06_Real
import TTProofs.Lemmas.C07_Calc
import Mathlib.Algebra.BigOperators.Fin
import Mathlib.Algebra.BigOperators.Intervals
/-!
Dependency structure and diagonal derivatives of the two node-height transforms (model of C06)
viewed as maps `ℝ^{n-1} → ℝ^{n-1}`: the ratio transform is upper triangular in the post-order
numbering (a node depends on its own ratio and on its ancestors', which have larger indices), the
difference transform lower triangular (a node depends on its own increment and its descendants').
-/
namespace TT.C07
open TT.C06 BTree

variable {n : Nat} {T : BTree}

/-- every internal position is the root or the child of a forward pair -/
theorem fwd_nodes (hT : WF n T) {i : Nat} (hi : i < n - 1) :
    i = n - 2 ∨ ∃ a ∈ forwardIndices n T, a.2 = i := by
  by_cases h : i = n - 2
  · exact Or.inl h
  · right
    have : n + i ∈ (T.pre n).map Prod.snd :=
      (pre_children_perm hT).mem_iff.mpr (List.mem_range.mpr (by omega))
    obtain ⟨b, hb, hbi⟩ := List.mem_map.mp this
    exact ⟨(b.1 - n, b.2 - n), fwd_mem.mpr ⟨b, hb, by omega, rfl⟩, by simp only; omega⟩

theorem fwd_child_lt_parent (hT : WF n T) : ∀ a ∈ forwardIndices n T, a.2 < a.1 := by
  intro a ha
  obtain ⟨b, hb, hn, rfl⟩ := fwd_mem.mp ha
  have := pre_mem hT.tipsOK b hb
  simp only; omega

/-- internal position of the parent of internal node `i` (this is `_det_indices[i]`) -/
def par (n : Nat) (T : BTree) (i : Nat) : Nat := ((indicesSorted n T).getD (n + i) (0, 0)).1 - n

theorem par_mem (hT : WF n T) {i : Nat} (hi : i < n - 2) : (par n T i, i) ∈ forwardIndices n T := by
  obtain ⟨hm, he⟩ := sorted_get hT (i := n + i) (by omega)
  refine fwd_mem.mpr ⟨_, hm, by omega, ?_⟩
  unfold par
  rw [he, Nat.add_sub_cancel_left]

section ratio
variable (B : Nat → ℝ)

/-- **upper-triangular dependence**: the height of node `i` does not depend on the parameters of
nodes with a smaller index (its descendants and unrelated nodes) -/
theorem ratio_dep (hT : WF n T) (hn : 2 ≤ n) (X : Nat → ℝ) (i j : Nat) (hji : j < i)
    (hi : i < n - 1) (t : ℝ) :
    ratioFwd n B (forwardIndices n T) (Function.update X j t) i
      = ratioFwd n B (forwardIndices n T) X i := by
  obtain ⟨spec', root'⟩ := ratio_spec (Function.update X j t) hT B
  obtain ⟨spec, root⟩ := ratio_spec X hT B
  have hP := Reach.ind
    (P := fun c => j < c → ratioFwd n B (forwardIndices n T) (Function.update X j t) c
      = ratioFwd n B (forwardIndices n T) X c) (fwd_reach hT hn)
    (fun c hc hjc => by
      subst hc
      rw [root', root, Function.update_of_ne (by omega)])
    (fun a ha hp hjc => by
      have hlt := fwd_child_lt_parent hT a ha
      rw [spec' a ha, spec a ha, hp (by omega), Function.update_of_ne (by omega)])
  rcases fwd_nodes hT hi with rfl | ⟨a, ha, rfl⟩
  · rw [root', root, Function.update_of_ne (by omega)]
  · exact (hP a ha).2 hji

/-- diagonal: `∂hᵢ/∂xᵢ = h_parent(i) − bound(i)` for a non-root node, `1` for the root -/
noncomputable def ratioDiag (n : Nat) (T : BTree) (B X : Nat → ℝ) (i : Nat) : ℝ :=
  if i < n - 2 then ratioFwd n B (forwardIndices n T) X (par n T i) - B (n + i) else 1

theorem ratio_diag (hT : WF n T) (hn : 2 ≤ n) (X : Nat → ℝ) (i : Nat) (hi : i < n - 1) :
    HasDerivAt (fun t => ratioFwd n B (forwardIndices n T) (Function.update X i t) i)
      (ratioDiag n T B X i) (X i) := by
  unfold ratioDiag
  by_cases h : i < n - 2
  · rw [if_pos h]
    have hm := par_mem hT h
    have hlt := fwd_child_lt_parent hT _ hm
    have : (fun t => ratioFwd n B (forwardIndices n T) (Function.update X i t) i)
        = fun t => B (n + i) + t * (ratioFwd n B (forwardIndices n T) X (par n T i) - B (n + i)) := by
      funext t
      have sp := (ratio_spec (Function.update X i t) hT B).1 _ hm
      simp only at sp
      rw [sp, Function.update_self,
        ratio_dep B hT hn X (par n T i) i hlt (fwd_child_lt hT _ hm).2 t]
    rw [this]
    have := ((hasDerivAt_id (X i)).mul_const
      (ratioFwd n B (forwardIndices n T) X (par n T i) - B (n + i))).const_add (B (n + i))
    simpa using this
  · rw [if_neg h]
    have hi' : i = n - 2 := by omega
    have : (fun t => ratioFwd n B (forwardIndices n T) (Function.update X i t) i) = fun t => t := by
      funext t
      rw [hi', (ratio_spec (Function.update X (n - 2) t) hT B).2, Function.update_self]
    rw [this]
    exact hasDerivAt_id (X i)

/-! the reported value: `log(y[_det_indices] − _bounds[n:-1]).sum(-1)` -/

theorem detIndices_eq (hT : WF n T) :
    detIndices n T = (List.range (n - 2)).map (par n T) := by
  have hlen := sorted_length hT
  apply List.ext_getElem
  · simp [detIndices, hlen]; omega
  · intro j h1 h2
    simp only [detIndices, List.getElem_map, List.getElem_drop, List.getElem_range, par]
    have h2' : j < n - 2 := by simpa using h2
    rw [List.getD_eq_getElem?_getD, List.getElem?_eq_getElem (by omega), Option.getD_some]

theorem ratioDetTerms_eq (hT : WF n T) (y : Nat → ℝ) :
    ratioDetTerms n B (detIndices n T) y
      = (List.range (n - 2)).map (fun j => y (par n T j) - B (n + j)) := by
  rw [detIndices_eq hT]
  apply List.ext_getElem
  · simp [ratioDetTerms]
  · intro j h1 h2
    simp [ratioDetTerms]

theorem sum_map_range (g : Nat → ℝ) (k : Nat) :
    ((List.range k).map g).sum = ∑ j ∈ Finset.range k, g j := by
  induction k with
  | zero => simp
  | succ k ih => rw [List.range_succ, List.map_append, List.sum_append, ih, Finset.sum_range_succ]; simp

theorem ratioLd_eq (hT : WF n T) (y : Nat → ℝ) :
    ratioLd (ratioDetTerms n B (detIndices n T) y)
      = ∑ j ∈ Finset.range (n - 2), Real.log (y (par n T j) - B (n + j)) := by
  rw [ratioDetTerms_eq B hT]
  unfold ratioLd
  rw [← List.sum_eq_foldl, List.map_map, sum_map_range]
  rfl

end ratio

section diff
variable (mx : ℝ → ℝ → ℝ) (s : Nat → ℝ)

/-- the post-order array below position `n + j` does not see the increment of node `j` -/
theorem diffAll_dep (hT : WF n T) (X : Nat → ℝ) (j : Nat) (t : ℝ) :
    ∀ v, v < n + j →
      diffFwdAll n mx s (T.post n) (Function.update X j t) v = diffFwdAll n mx s (T.post n) X v := by
  have hi := hT.ints
  have spec' := diff_spec mx s (Function.update X j t) hT
  have spec := diff_spec mx s X hT
  have key : ∀ m v, v < m → v < n + j →
      diffFwdAll n mx s (T.post n) (Function.update X j t) v = diffFwdAll n mx s (T.post n) X v := by
    intro m
    induction m with
    | zero => intro v hv; omega
    | succ m ih =>
      intro v hv hvj
      by_cases hvn : v < n
      · rw [spec'.2 v hvn, spec.2 v hvn]
      · by_cases hv2 : v < 2 * n - 1
        · obtain ⟨a, ha, hav⟩ := post_has hT (j := v - n) (by omega)
          have hav' : a.1 = v := by omega
          obtain ⟨_, _, c1, c2⟩ := post_mem hT.tipsOK a ha
          have e' := spec'.1 a ha
          have e := spec.1 a ha
          rw [hav'] at e e' c1 c2
          rw [e', e, ih a.2.1 (by omega) (by omega), ih a.2.2 (by omega) (by omega),
            Function.update_of_ne (by omega)]
        · -- beyond the tree: never written
          have hframe : ∀ Y : Nat → ℝ, diffFwdAll n mx s (T.post n) Y v = 0 := by
            intro Y
            rw [diffFwdAll_eq, fold3_frame]
            · simp [hvn]
            · intro a ha
              have := post_mem hT.tipsOK a ha
              omega
          rw [hframe, hframe]
  intro v hv
  exact key (v + 1) v (by omega) hv

/-- **lower-triangular dependence** of the difference transform -/
theorem diff_dep (hT : WF n T) (X : Nat → ℝ) (i j : Nat) (hij : i < j) (t : ℝ) :
    diffFwd n mx s (T.post n) (Function.update X j t) i = diffFwd n mx s (T.post n) X i := by
  unfold diffFwd
  exact diffAll_dep mx s hT X j t (n + i) (by omega)

/-- diagonal of the difference transform: `∂hᵢ/∂xᵢ = 1` -/
theorem diff_diag (hT : WF n T) (X : Nat → ℝ) (i : Nat) (hi : i < n - 1) :
    HasDerivAt (fun t => diffFwd n mx s (T.post n) (Function.update X i t) i) 1 (X i) := by
  obtain ⟨a, ha, hai⟩ := post_has hT hi
  obtain ⟨_, _, c1, c2⟩ := post_mem hT.tipsOK a ha
  have : (fun t => diffFwd n mx s (T.post n) (Function.update X i t) i)
      = fun t => mx (diffFwdAll n mx s (T.post n) X a.2.1) (diffFwdAll n mx s (T.post n) X a.2.2) + t := by
    funext t
    unfold diffFwd
    have e := (diff_spec mx s (Function.update X i t) hT).1 a ha
    rw [hai] at e c1 c2
    rw [e, diffAll_dep mx s hT X i t _ c1, diffAll_dep mx s hT X i t _ c2,
      Nat.add_sub_cancel_left, Function.update_self]
  rw [this]
  simpa using (hasDerivAt_id (X i)).const_add
    (mx (diffFwdAll n mx s (T.post n) X a.2.1) (diffFwdAll n mx s (T.post n) X a.2.2))

end diff

end TT.C07
