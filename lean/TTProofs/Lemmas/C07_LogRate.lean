import TTProofs.Lemmas.C07_Trees
import Mathlib.LinearAlgebra.Matrix.Determinant.Basic
import Mathlib.Data.Fintype.EquivFin
/-!
LogDifferenceRateTransform: `y_j = log r_{c_j} − log r_{p_j}` over the pre-order pairs
`(p_j, c_j)`. With the COLUMNS of the Jacobian reordered by `j ↦ c_j` (a permutation of the
non-root nodes) the matrix is lower triangular — a parent precedes its children in pre-order —
with diagonal `1/r_{c_j}`; a column permutation changes the determinant by a sign only.
-/
namespace TT.C07
open TT.C06 BTree Matrix

variable {n : Nat} {T : BTree}

theorem pre_length (hT : WF n T) : (T.pre n).length = 2 * n - 2 := by
  have := (pre_children_perm hT).length_eq
  simpa using this

/-- `j`-th pre-order pair -/
def prePair (n : Nat) (T : BTree) (j : Nat) : Nat × Nat := (T.pre n).getD j (0, 0)

theorem prePair_mem (hT : WF n T) {j : Nat} (hj : j < 2 * n - 2) : prePair n T j ∈ T.pre n := by
  unfold prePair
  rw [List.getD_eq_getElem?_getD, List.getElem?_eq_getElem (by rw [pre_length hT]; exact hj),
    Option.getD_some]
  exact List.getElem_mem _

theorem prePair_child_lt (hT : WF n T) {j : Nat} (hj : j < 2 * n - 2) :
    (prePair n T j).2 < 2 * n - 2 := by
  have hm := prePair_mem hT hj
  have : (prePair n T j).2 ∈ (T.pre n).map Prod.snd := List.mem_map.mpr ⟨_, hm, rfl⟩
  exact List.mem_range.mp ((pre_children_perm hT).mem_iff.mp this)

theorem prePair_child_inj (hT : WF n T) {i j : Nat} (hi : i < 2 * n - 2) (hj : j < 2 * n - 2)
    (h : (prePair n T i).2 = (prePair n T j).2) : i = j := by
  have hnd : ((T.pre n).map Prod.snd).Nodup := by
    have := idx_nodup hT.tipsOK
    rw [idx_eq, List.nodup_cons] at this
    exact this.2
  have hl := pre_length hT
  have hi' : i < ((T.pre n).map Prod.snd).length := by simp [hl, hi]
  have hj' : j < ((T.pre n).map Prod.snd).length := by simp [hl, hj]
  apply (hnd.getElem_inj_iff (hi := hi') (hj := hj')).mp
  simp only [List.getElem_map]
  unfold prePair at h
  rw [List.getD_eq_getElem?_getD, List.getElem?_eq_getElem (by omega), Option.getD_some,
    List.getD_eq_getElem?_getD, List.getElem?_eq_getElem (by omega), Option.getD_some] at h
  exact h

/-- a pair's parent is never the child of a LATER pair, nor its own child -/
theorem prePair_parent_ne (hT : WF n T) {i j : Nat} (hij : i ≤ j) (hj : j < 2 * n - 2) :
    (prePair n T i).1 ≠ (prePair n T j).2 := by
  have hp := pre_pairsOK hT.tipsOK
  have hl := pre_length hT
  rcases Nat.eq_or_lt_of_le hij with rfl | hlt
  · exact hp.2 _ (prePair_mem hT hj)
  · have := (List.pairwise_iff_getElem.mp hp.1) i j (by omega) (by omega) hlt
    unfold prePair
    rw [List.getD_eq_getElem?_getD, List.getElem?_eq_getElem (by omega), Option.getD_some,
      List.getD_eq_getElem?_getD, List.getElem?_eq_getElem (by omega), Option.getD_some]
    exact this.2

/-- the forward map in terms of `prePair` -/
theorem lograteFwd_eq (m : Nat) (X : Nat → ℝ) (j : Nat) :
    lograteFwd m (T.pre n) X j
      = Real.log (if (prePair n T j).2 < m then X (prePair n T j).2 else 1)
        - Real.log (if (prePair n T j).1 < m then X (prePair n T j).1 else 1) := rfl

/-- output `j` does not depend on the rate of a node that is neither its child nor its parent -/
theorem lograte_indep (m : Nat) (X : Nat → ℝ) (j k : Nat) (t : ℝ)
    (h1 : k ≠ (prePair n T j).2) (h2 : k ≠ (prePair n T j).1) :
    lograteFwd m (T.pre n) (Function.update X k t) j = lograteFwd m (T.pre n) X j := by
  rw [lograteFwd_eq, lograteFwd_eq, Function.update_of_ne h1.symm, Function.update_of_ne h2.symm]

/-- `∂y_j/∂r_{c_j} = 1/r_{c_j}` -/
theorem lograte_diag (hT : WF n T) (X : Nat → ℝ) {j : Nat} (hj : j < 2 * n - 2)
    (hx : X (prePair n T j).2 ≠ 0) :
    HasDerivAt (fun t => lograteFwd (2 * n - 2) (T.pre n) (Function.update X (prePair n T j).2 t) j)
      (X (prePair n T j).2)⁻¹ (X (prePair n T j).2) := by
  have hc := prePair_child_lt hT hj
  have hne := prePair_parent_ne hT (Nat.le_refl j) hj
  have : (fun t => lograteFwd (2 * n - 2) (T.pre n) (Function.update X (prePair n T j).2 t) j)
      = fun t => Real.log t
        - Real.log (if (prePair n T j).1 < 2 * n - 2 then X (prePair n T j).1 else 1) := by
    funext t
    rw [lograteFwd_eq, if_pos hc, Function.update_self, Function.update_of_ne hne]
  rw [this]
  exact (Real.hasDerivAt_log hx).sub_const _

/-- the child map of the pre-order as a permutation of the `2n-2` non-root nodes -/
noncomputable def childPerm (hT : WF n T) : Equiv.Perm (Fin (2 * n - 2)) :=
  Equiv.ofBijective (fun j => ⟨(prePair n T j.val).2, prePair_child_lt hT j.isLt⟩)
    (Finite.injective_iff_bijective.mp (fun i j h => by
      have := congrArg Fin.val h
      exact Fin.ext (prePair_child_inj hT i.isLt j.isLt this)))

@[simp] theorem childPerm_val (hT : WF n T) (j : Fin (2 * n - 2)) :
    (childPerm hT j).val = (prePair n T j.val).2 := rfl

/-- **the true log|det J|** of LogDifferenceRateTransform on every tree, at positive rates -/
theorem lograte_true_logdet (hT : WF n T) (x : Fin (2 * n - 2) → ℝ) (hx : ∀ i, 0 < x i) :
    Real.log |(jac (lift (lograteFwd (2 * n - 2) (T.pre n))) x).det|
      = -∑ i, Real.log (x i) := by
  set M := jac (lift (lograteFwd (2 * n - 2) (T.pre n))) x with hM
  set σ := childPerm hT with hσ
  have hxσ : ∀ j : Fin (2 * n - 2), ext x (prePair n T j.val).2 = x (σ j) := by
    intro j
    have : (prePair n T j.val).2 = (σ j).val := rfl
    rw [this, ext_apply]
  -- the column-permuted Jacobian is lower triangular
  have htri : (M.submatrix id σ).BlockTriangular OrderDual.toDual := by
    intro j j' hjj'
    have hlt : j.val < j'.val := hjj'
    show M j (σ j') = 0
    apply jac_zero_of_indep
    intro t
    simp only [lift, ext_update]
    apply lograte_indep
    · intro e
      have := prePair_child_inj hT j'.isLt j.isLt e
      omega
    · exact (prePair_parent_ne hT (Nat.le_of_lt hlt) j'.isLt).symm
  -- its diagonal
  have hdiag : ∀ j, (M.submatrix id σ) j j = (x (σ j))⁻¹ := by
    intro j
    show M j (σ j) = _
    have h := lograte_diag hT (ext x) j.isLt (by rw [hxσ]; exact ne_of_gt (hx _))
    rw [hxσ] at h
    rw [hM]
    unfold jac
    have e : (fun t => lift (lograteFwd (2 * n - 2) (T.pre n)) (Function.update x (σ j) t) j)
        = fun t => lograteFwd (2 * n - 2) (T.pre n) (Function.update (ext x) (prePair n T j.val).2 t) j.val := by
      funext t
      simp only [lift, ext_update]
      rfl
    rw [e]
    exact h.deriv
  have hdet : (M.submatrix id σ).det = ∏ j, (x (σ j))⁻¹ := by
    rw [Matrix.det_of_isLowerTriangular _ htri]
    exact Finset.prod_congr rfl fun j _ => hdiag j
  have habs : |M.det| = |(M.submatrix id σ).det| := by
    rw [Matrix.det_permute', abs_mul]
    rcases Int.units_eq_one_or (Equiv.Perm.sign σ) with h | h <;> simp [h]
  rw [habs, hdet, Finset.abs_prod, Real.log_prod]
  · rw [← Finset.sum_neg_distrib]
    rw [← Equiv.sum_comp σ (fun i => -Real.log (x i))]
    refine Finset.sum_congr rfl fun j _ => ?_
    rw [abs_of_pos (inv_pos.mpr (hx _)), Real.log_inv]
  · intro j _
    exact abs_ne_zero.mpr (ne_of_gt (inv_pos.mpr (hx _)))

end TT.C07
