import Mathlib.Algebra.Order.Field.Rat
import Mathlib.Data.Rat.Cast.Order
import Mathlib.Tactic.NormNum
/-! helper lemmas for C04: generated tables of `(numerator, denominator)` pairs as rationals -/
namespace TT.C04

/-- a table entry `(numerator, denominator)` as a rational number -/
def ratOf (p : Int × Nat) : ℚ := (p.1 : ℚ) / (p.2 : ℚ)

def tablePositive (a : Array (Int × Nat)) : Bool := a.all fun p => decide (0 < p.1) && decide (0 < p.2)

theorem ratOf_pos {p : Int × Nat} (h1 : 0 < p.1) (h2 : 0 < p.2) : 0 < ratOf p := by
  unfold ratOf
  exact div_pos (by exact_mod_cast h1) (by exact_mod_cast h2)

theorem getD_pos_of_tablePositive (a : Array (Int × Nat)) (h : tablePositive a = true) (k : Nat)
    (hk : k < a.size) : 0 < ratOf (a.getD k (0, 1)) := by
  unfold tablePositive at h
  rw [Array.all_eq_true] at h
  have := h k hk
  simp only [Bool.and_eq_true, decide_eq_true_eq] at this
  have e : a.getD k (0, 1) = a[k] := by simp [Array.getD, hk]
  rw [e]
  exact ratOf_pos this.1 this.2

theorem getD_nonneg_of_tablePositive (a : Array (Int × Nat)) (h : tablePositive a = true) (k : Nat) :
    0 ≤ ratOf (a.getD k (0, 1)) := by
  by_cases hk : k < a.size
  · exact (getD_pos_of_tablePositive a h k hk).le
  · have e : a.getD k (0, 1) = (0, 1) := by simp [Array.getD, hk]
    rw [e]; simp [ratOf]

end TT.C04
