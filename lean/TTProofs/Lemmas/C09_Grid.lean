import TTProofs.Lemmas.C09_Analytic
import TTProofs.Lemmas.C09_Discrete
import TTProofs.Lemmas.C09_Single
import Mathlib.Algebra.BigOperators.Group.Finset.Basic
import Mathlib.Algebra.BigOperators.Intervals
/-! C09: backward recursion unfolded; epoch of an event on a strictly increasing grid. -/
open TT TT.C09
namespace TT.C09

/-! ## the backward recursion unfolded -/
theorem pAt_end (r : Rates ℝ) (t : Nat → ℝ) (m k : Nat) (hk : m ≤ k) : pAt r t m k = 1 := by
  unfold pAt
  have : m - k = 0 := by omega
  rw [this]; rfl

theorem pAt_step (r : Rates ℝ) (t : Nat → ℝ) (m k : Nat) (hk : k < m) :
    pAt r t m k = pStep r k (t (k + 1) - t k) (pAt r t m (k + 1)) := by
  unfold pAt
  have h1 : m - k = (m - (k + 1)) + 1 := by omega
  rw [h1]
  simp only [pBack]
  have h2 : m - (m - (k + 1) + 1) = k := by omega
  rw [h2]

/-- `pStep` only looks at the rates of its epoch -/
theorem pStep_congr (r r' : Rates ℝ) (a b : Nat) (d p : ℝ) (hl : r'.lam a = r.lam b) (hm : r'.mu a = r.mu b)
    (hp : r'.psi a = r.psi b) (hr : r'.rho a = r.rho b) : pStep r' a d p = pStep r b d p := by
  unfold pStep Bcoef Acoef
  rw [hl, hm, hp, hr]

theorem Acoef_congr (r r' : Rates ℝ) (a b : Nat) (hl : r'.lam a = r.lam b) (hm : r'.mu a = r.mu b)
    (hp : r'.psi a = r.psi b) : Acoef r' a = Acoef r b := by
  unfold Acoef; rw [hl, hm, hp]

theorem Bcoef_congr (r r' : Rates ℝ) (a b : Nat) (p : ℝ) (hl : r'.lam a = r.lam b) (hm : r'.mu a = r.mu b)
    (hp : r'.psi a = r.psi b) (hr : r'.rho a = r.rho b) : Bcoef r' a p = Bcoef r b p := by
  unfold Bcoef Acoef; rw [hl, hm, hp, hr]

/-! ## epoch of an event on a strictly increasing grid -/

theorem length_filter_range_le (n k0 : Nat) (h : k0 < n) :
    ((List.range n).filter fun k => decide (k ≤ k0)).length = k0 + 1 := by
  induction n with
  | zero => omega
  | succ n ih =>
      rw [List.range_succ, List.filter_append, List.length_append]
      by_cases hk : k0 < n
      · rw [ih hk]; simp; omega
      · have : k0 = n := by omega
        subst this
        have : (List.range k0).filter (fun k => decide (k ≤ k0)) = List.range k0 := by
          apply List.filter_eq_self.mpr
          intro a ha; simp at ha ⊢; omega
        rw [this]; simp

theorem length_filter_range_lt (n k0 : Nat) (h : k0 ≤ n) :
    ((List.range n).filter fun k => decide (k < k0)).length = k0 := by
  induction n with
  | zero => simp; omega
  | succ n ih =>
      rw [List.range_succ, List.filter_append, List.length_append]
      by_cases hk : k0 ≤ n
      · rw [ih hk]; simp; omega
      · have : k0 = n + 1 := by omega
        subst this
        have : (List.range n).filter (fun k => decide (k < n + 1)) = List.range n := by
          apply List.filter_eq_self.mpr
          intro a ha; simp at ha ⊢; omega
        rw [this]; simp

/-- strictly increasing on `0..m` -/
def Grid (t : Nat → ℝ) (m : Nat) : Prop := ∀ a b, a < b → b ≤ m → t a < t b

theorem Grid.le {t : Nat → ℝ} {m : Nat} (g : Grid t m) {a b : Nat} (hab : a ≤ b) (hb : b ≤ m) : t a ≤ t b := by
  rcases Nat.eq_or_lt_of_le hab with h | h
  · rw [h]
  · exact (g a b h hb).le

/-- node at `x ∈ [t_k, t_{k+1})` is in epoch `k` -/
theorem idxX_of_mem {t : Nat → ℝ} {m : Nat} (g : Grid t m) (k : Nat) (hk : k < m) (x : ℝ)
    (h1 : t k ≤ x) (h2 : x < t (k + 1)) : idxX t m x = k := by
  unfold idxX countLE
  have : (List.range (m + 1)).filter (fun j => decide (t j ≤ x)) = (List.range (m + 1)).filter (fun j => decide (j ≤ k)) := by
    apply List.filter_congr
    intro j hj
    simp only [List.mem_range] at hj
    simp only [decide_eq_decide]
    constructor
    · intro hle
      by_contra hcon
      have hjk : k + 1 ≤ j := by omega
      have := g.le hjk (by omega)
      linarith
    · intro hjk
      exact le_trans (g.le hjk (by omega)) h1
  rw [this, length_filter_range_le (m + 1) k (by omega)]
  omega

/-- tip at `y ∈ (t_k, t_{k+1}]` is in epoch `k` -/
theorem idxY_of_mem {t : Nat → ℝ} {m : Nat} (g : Grid t m) (k : Nat) (hk : k < m) (y : ℝ)
    (h1 : t k < y) (h2 : y ≤ t (k + 1)) : idxY t m y = k := by
  unfold idxY countLT
  have : (List.range (m + 1)).filter (fun j => decide (t j < y)) = (List.range (m + 1)).filter (fun j => decide (j < k + 1)) := by
    apply List.filter_congr
    intro j hj
    simp only [List.mem_range] at hj
    simp only [decide_eq_decide]
    constructor
    · intro hlt
      by_contra hcon
      have hjk : k + 1 ≤ j := by omega
      have := g.le hjk (by omega)
      linarith
    · intro hjk
      have : j ≤ k := by omega
      exact lt_of_le_of_lt (g.le this (by omega)) h1
  rw [this, length_filter_range_lt (m + 1) (k + 1) (by omega)]
  omega

/-- every `x ∈ [t_0, t_m)` lies in exactly one epoch -/
theorem exists_epoch_X {t : Nat → ℝ} {m : Nat} (x : ℝ) (h0 : t 0 ≤ x) (hm : x < t m) :
    ∃ k, k < m ∧ t k ≤ x ∧ x < t (k + 1) := by
  induction m with
  | zero => linarith
  | succ n ih =>
      by_cases h : x < t n
      · obtain ⟨k, hk, h1, h2⟩ := ih h
        exact ⟨k, by omega, h1, h2⟩
      · exact ⟨n, by omega, not_lt.mp h, hm⟩

theorem exists_epoch_Y {t : Nat → ℝ} {m : Nat} (y : ℝ) (h0 : t 0 < y) (hm : y ≤ t m) :
    ∃ k, k < m ∧ t k < y ∧ y ≤ t (k + 1) := by
  induction m with
  | zero => linarith
  | succ n ih =>
      by_cases h : y ≤ t n
      · obtain ⟨k, hk, h1, h2⟩ := ih h
        exact ⟨k, by omega, h1, h2⟩
      · exact ⟨n, by omega, not_le.mp h, hm⟩

theorem idxX_iff {t : Nat → ℝ} {m : Nat} (g : Grid t m) (x : ℝ) (h0 : t 0 ≤ x) (hm : x < t m) (k : Nat) (hk : k < m) :
    idxX t m x = k ↔ (t k ≤ x ∧ x < t (k + 1)) := by
  constructor
  · intro h
    obtain ⟨k', hk', h1, h2⟩ := exists_epoch_X (t := t) (m := m) x h0 hm
    have := idxX_of_mem g k' hk' x h1 h2
    rw [this] at h; subst h; exact ⟨h1, h2⟩
  · intro h; exact idxX_of_mem g k hk x h.1 h.2

theorem idxY_iff {t : Nat → ℝ} {m : Nat} (g : Grid t m) (y : ℝ) (h0 : t 0 < y) (hm : y ≤ t m) (k : Nat) (hk : k < m) :
    idxY t m y = k ↔ (t k < y ∧ y ≤ t (k + 1)) := by
  constructor
  · intro h
    obtain ⟨k', hk', h1, h2⟩ := exists_epoch_Y (t := t) (m := m) y h0 hm
    have := idxY_of_mem g k' hk' y h1 h2
    rw [this] at h; subst h; exact ⟨h1, h2⟩
  · intro h; exact idxY_of_mem g k hk y h.1 h.2

end TT.C09
