import TTProofs.Lemmas.C09_SplitCut
/-! C09: the two halves of the cut epoch contribute what the whole epoch did. -/
open TT TT.C09
namespace TT.C09
namespace SplitAt
variable {r r' : Rates ℝ} {t t' : Nat → ℝ} {m i : Nat} {s : ℝ}

theorem sum_map_add_const (l : List ℝ) (c : ℝ) (f : ℝ → ℝ) :
    (l.map fun h => f h + c).sum = (l.map f).sum + l.length * c := by
  induction l with
  | nil => simp
  | cons a l ih => simp only [List.map_cons, List.sum_cons, ih, List.length_cons, Nat.cast_add, Nat.cast_one]; ring

/-- the two halves of the cut epoch contribute together what the whole epoch did -/
theorem epochTerm_cut (h : SplitAt r r' t t' m i s) {xs ys : List ℝ} (hev : Events t m xs ys) :
    epochTerm r' t' (m + 1) xs ys i + epochTerm r' t' (m + 1) xs ys (i + 1) = epochTerm r t m xs ys i := by
  have hi := h.hi
  have hsg := h.s_gt
  have hsl := h.s_lt
  set A := Acoef r i with hA
  set B := BAt r t m i with hB
  set B1 := BAt r' t' (m + 1) i with hB1
  set L := logq A B s (t (i + 1)) with hL
  have key : ∀ z, z ≤ s → logq A B1 z s = logq A B z (t (i + 1)) - L := by
    intro z hz; have := h.logq_cut z hz; linarith
  -- the filters of the refined grid
  have fx1 : (xs.filter fun x => idxX t' (m + 1) x = i) = xs.filter fun x => idxX t m x = i ∧ x < s :=
    filter_congr_mem xs _ _ fun x hx => h.fx_cut1 x (hev.1 x hx).1 (hev.1 x hx).2
  have fx2 : (xs.filter fun x => idxX t' (m + 1) x = i + 1) = xs.filter fun x => idxX t m x = i ∧ ¬ x < s :=
    filter_congr_mem xs _ _ fun x hx => h.fx_cut2 x (hev.1 x hx).1 (hev.1 x hx).2
  have fy1 : (ys.filter fun y => idxY t' (m + 1) y = i ∧ isRhoTip r' t' (m + 1) y = false)
      = ys.filter fun y => idxY t m y = i ∧ y ≤ s :=
    filter_congr_mem ys _ _ fun y hy => by
      have d := hev.2 y hy
      rw [h.fy_cut1 y d.1 d.2, h.rho_same y d.1 d.2]
      constructor
      · rintro ⟨a, _⟩; exact a
      · intro a
        refine ⟨a, ?_⟩
        have hin := (idxY_iff h.grid y d.1 d.2 i hi).mp a.1
        exact not_rho_inside h.grid i hi y hin.1 (by linarith [a.2]) d.1 d.2
  have fy1' : (ys.filter fun y => (idxY t m y = i ∧ isRhoTip r t m y = false) ∧ y ≤ s)
      = ys.filter fun y => idxY t m y = i ∧ y ≤ s :=
    filter_congr_mem ys _ _ fun y hy => by
      have d := hev.2 y hy
      constructor
      · rintro ⟨⟨a, _⟩, c⟩; exact ⟨a, c⟩
      · intro a
        have hin := (idxY_iff h.grid y d.1 d.2 i hi).mp a.1
        exact ⟨⟨a.1, not_rho_inside h.grid i hi y hin.1 (by linarith [a.2]) d.1 d.2⟩, a.2⟩
  have fy2 : (ys.filter fun y => idxY t' (m + 1) y = i + 1 ∧ isRhoTip r' t' (m + 1) y = false)
      = ys.filter fun y => (idxY t m y = i ∧ isRhoTip r t m y = false) ∧ ¬ y ≤ s :=
    filter_congr_mem ys _ _ fun y hy => by
      have d := hev.2 y hy
      rw [h.fy_cut2 y d.1 d.2, h.rho_same y d.1 d.2]
      constructor
      · rintro ⟨⟨a, b⟩, c⟩; exact ⟨⟨a, c⟩, b⟩
      · rintro ⟨⟨a, c⟩, b⟩; exact ⟨⟨a, b⟩, c⟩
  -- the sums of the older half, rewritten with `key`
  have sx1 : ((xs.filter fun x => idxX t m x = i ∧ x < s).map fun x => Real.log (r.lam i) + logq A B1 x s).sum
      = ((xs.filter fun x => idxX t m x = i ∧ x < s).map fun x => Real.log (r.lam i) + logq A B x (t (i + 1))).sum
        + ((xs.filter fun x => idxX t m x = i ∧ x < s).length : ℝ) * (-L) := by
    rw [← sum_map_add_const]
    congr 1
    apply List.map_congr_left
    intro x hx
    have : x < s := by simpa using (List.mem_filter.mp hx).2 |> fun z => (of_decide_eq_true z).2
    rw [key x this.le]; ring
  have sy1 : ((ys.filter fun y => idxY t m y = i ∧ y ≤ s).map fun y => Real.log (r.psi i) - logq A B1 y s).sum
      = ((ys.filter fun y => idxY t m y = i ∧ y ≤ s).map fun y => Real.log (r.psi i) - logq A B y (t (i + 1))).sum
        + ((ys.filter fun y => idxY t m y = i ∧ y ≤ s).length : ℝ) * L := by
    rw [← sum_map_add_const]
    congr 1
    apply List.map_congr_left
    intro y hy
    have : y ≤ s := (of_decide_eq_true (List.mem_filter.mp hy).2).2
    rw [key y this]; ring
  -- the coarse sums split at the cut
  have sxc := sum_filter_split xs (fun x => idxX t m x = i) (fun x => x < s)
    (fun x => Real.log (r.lam i) + logq A B x (t (i + 1)))
  have syc := sum_filter_split ys (fun y => idxY t m y = i ∧ isRhoTip r t m y = false) (fun y => y ≤ s)
    (fun y => Real.log (r.psi i) - logq A B y (t (i + 1)))
  rw [fy1'] at syc
  have hcount := h.cross_cut hev
  -- assemble
  unfold epochTerm
  rw [fx1, fx2, fy1, fy2]
  rw [h.A_lo i le_rfl, h.A_hi i le_rfl, h.B_hi i le_rfl, h.t_lo i le_rfl, h.t_mid, h.t_hi (i + 1) le_rfl,
    h.lam_lo i le_rfl, h.lam_hi i le_rfl, h.psi_lo i le_rfl, h.psi_hi i le_rfl, h.rho_mid, h.rho_hi i le_rfl,
    nCross_congr t t' i i xs ys (h.t_lo i le_rfl), nCross_congr t t' (i + 1 + 1) (i + 1) xs ys (h.t_hi (i + 1) le_rfl),
    nAt_congr t t' (i + 1) i ys (h.t_hi (i + 1) le_rfl)]
  rw [← hA, ← hB, ← hB1, sx1, sy1, sxc, syc, key (t i) hsg.le, hcount]
  have c1 : i + 1 < m + 1 := by omega
  have c2 : ¬ i + 1 = 0 := by omega
  have c3 : (i + 1 + 1 < m + 1) ↔ (i + 1 < m) := by omega
  simp only [c1, c2, c3, ↓reduceIte, sub_zero, Real.log_one, mul_zero, lt_self_iff_false, and_false, add_zero]
  rw [← hL]
  ring

end SplitAt
end TT.C09
