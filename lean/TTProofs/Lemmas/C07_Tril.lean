import TTModel.C07_Transforms
import TTProofs.Lemmas.ScalarReal
import Mathlib.Analysis.SpecialFunctions.Log.Basic
/-! unranking of `torch.tril_indices` positions: `trilRow (trilPos r c) = r` for `c ≤ r` -/
namespace TT.C07

/-- triangular number `r(r+1)/2` -/
def tri (r : Nat) : Nat := r * (r + 1) / 2

theorem tri_succ (r : Nat) : tri (r + 1) = tri r + r + 1 := by
  unfold tri
  have : (r + 1) * (r + 1 + 1) = r * (r + 1) + 2 * (r + 1) := by ring
  rw [this, Nat.add_mul_div_left _ _ (by norm_num : 0 < 2)]
  omega

theorem tri_ge (r : Nat) : r ≤ tri r := by
  induction r with
  | zero => simp [tri]
  | succ r ih => rw [tri_succ]; omega

theorem tri_mono {a b : Nat} (h : a ≤ b) : tri a ≤ tri b := by
  induction b with
  | zero => simp_all
  | succ b ih =>
    rcases Nat.eq_or_lt_of_le h with rfl | hlt
    · exact le_refl _
    · have := ih (by omega); rw [tri_succ]; omega

theorem trilRowAux_spec (k : Nat) : ∀ (fuel r : Nat), tri r ≤ k → k + 1 ≤ r + fuel →
    tri (trilRowAux k fuel r) ≤ k ∧ k < tri (trilRowAux k fuel r + 1)
  | 0, r, h1, h2 => by
    exfalso
    have := tri_ge r
    omega
  | fuel + 1, r, h1, h2 => by
    unfold trilRowAux
    have e : (r + 1) * (r + 2) / 2 = tri (r + 1) := rfl
    rw [e]
    split
    · exact trilRowAux_spec k fuel (r + 1) ‹_› (by omega)
    · exact ⟨h1, by omega⟩

theorem trilRow_pos {r c : Nat} (hc : c ≤ r) : trilRow (trilPos r c) = r := by
  have hk : trilPos r c = tri r + c := rfl
  have hspec : tri (trilRow (trilPos r c)) ≤ trilPos r c ∧ trilPos r c < tri (trilRow (trilPos r c) + 1) :=
    trilRowAux_spec (trilPos r c) (trilPos r c + 1) 0 (by simp [tri]) (by omega)
  obtain ⟨h1, h2⟩ := hspec
  set R := trilRow (trilPos r c) with hR
  rw [hk] at h1 h2
  by_contra hne
  rcases Nat.lt_or_gt_of_ne hne with hlt | hgt
  · have := tri_mono (show R + 1 ≤ r by omega)
    omega
  · have := tri_mono (show r + 1 ≤ R by omega)
    rw [tri_succ] at this
    omega

/-- **inverse ∘ forward** for TrilExpDiagonalTransform, position by position -/
theorem tril_inv_fwd (x : Nat → ℝ) {r c : Nat} (hc : c ≤ r) :
    trilInv (trilFwd x) (trilPos r c) = x (trilPos r c) := by
  unfold trilInv
  simp only [trilRow_pos hc]
  have e : trilPos r c - r * (r + 1) / 2 = c := by unfold trilPos; omega
  rw [e]
  unfold trilFwd
  by_cases h : c = r
  · subst h
    simp only [if_true, lt_irrefl, if_false]
    simp
  · have hlt : c < r := by omega
    simp [h, hlt]

end TT.C07
