import TTModel.C01_Tree
import TTProofs.Lemmas.C01_Pruning
import Mathlib.Data.List.Range
/-! helper lemmas for C01: `setup_indexes` numbers the internal nodes `n, n+1, …` in post-order, hence
    the post-order triple list is a valid schedule for the index-addressed loop -/
namespace TT.C01

theorem BTree.leaves_length (T : BTree) : T.leaves.length = T.internalCount + 1 := by
  induction T with
  | leaf _ => simp [BTree.leaves, BTree.internalCount]
  | node l r hl hr => simp [BTree.leaves, BTree.internalCount, hl, hr]; omega

/-- counter, internal indices (in post-order) and leaves produced by the `setup_indexes` walk -/
theorem setupIdx_spec : ∀ (T : BTree) (k : Nat),
    (setupIdx T k).2 = k + T.internalCount ∧
    (setupIdx T k).1.internals = List.range' k T.internalCount ∧
    (setupIdx T k).1.leaves = T.leaves
  | .leaf t, k => by simp [setupIdx, BTree.internalCount, ITree.internals, ITree.leaves, BTree.leaves]
  | .node l r, k => by
    obtain ⟨a2, ai, al⟩ := setupIdx_spec l k
    obtain ⟨b2, bi, bl⟩ := setupIdx_spec r (setupIdx l k).2
    simp only [setupIdx, BTree.internalCount, ITree.internals, ITree.leaves, BTree.leaves]
    refine ⟨by rw [b2, a2]; omega, ?_, by rw [al, bl]⟩
    rw [ai, bi, b2, a2]
    have h1 : [k + l.internalCount + r.internalCount] = List.range' (k + l.internalCount + r.internalCount) 1 := by
      simp [List.range']
    rw [h1, List.range'_append_1]
    have h3 : k + l.internalCount + r.internalCount = k + (l.internalCount + r.internalCount) := by omega
    rw [h3, List.range'_append_1]

theorem setupIndexes_internals (n : Nat) (T : BTree) :
    (setupIndexes n T).internals = List.range' n T.internalCount := (setupIdx_spec T n).2.1

theorem setupIndexes_leaves (n : Nat) (T : BTree) : (setupIndexes n T).leaves = T.leaves :=
  (setupIdx_spec T n).2.2

theorem setupIndexes_WF (n : Nat) (T : BTree) (h : ∀ i ∈ T.leaves, i < n) : WF n (setupIndexes n T) := by
  refine ⟨?_, ?_, ?_⟩
  · rw [setupIndexes_leaves]; exact h
  · intro i hi
    rw [setupIndexes_internals] at hi
    exact (List.mem_range'_1.mp hi).1
  · rw [setupIndexes_internals]; exact List.nodup_range' (step := 1) (by omega)

theorem setupIndexes_node (n : Nat) (l r : BTree) :
    ∃ i il ir, setupIndexes n (.node l r) = .node i il ir := ⟨_, _, _, rfl⟩

theorem postorder_fst : ∀ t : ITree, (postorder t).map (·.1) = t.internals
  | .leaf _ => rfl
  | .node i l r => by simp [postorder, ITree.internals, postorder_fst l, postorder_fst r]

theorem postorder_length (t : ITree) : (postorder t).length = t.internals.length := by
  rw [← postorder_fst, List.length_map]

/-- `Sched n done post`: running the loop over `post` with the slots `< n` (tips) and `done` already
    filled, every triple reads only filled slots -/
def Sched (n : Nat) : List Nat → List (Nat × Nat × Nat) → Prop
  | _, [] => True
  | done, t :: rest => (t.2.1 < n ∨ t.2.1 ∈ done) ∧ (t.2.2 < n ∨ t.2.2 ∈ done) ∧ Sched n (t.1 :: done) rest

theorem Sched.mono {n : Nat} : ∀ (p : List (Nat × Nat × Nat)) (d1 d2 : List Nat),
    (∀ x ∈ d1, x ∈ d2) → Sched n d1 p → Sched n d2 p
  | [], _, _, _, _ => trivial
  | t :: rest, d1, d2, hsub, ⟨h1, h2, h3⟩ => by
    refine ⟨h1.imp id (hsub _), h2.imp id (hsub _), Sched.mono rest _ _ ?_ h3⟩
    intro x hx
    rcases List.mem_cons.mp hx with rfl | hx
    · simp
    · exact List.mem_cons_of_mem _ (hsub x hx)

theorem Sched.append {n : Nat} : ∀ (p q : List (Nat × Nat × Nat)) (d : List Nat),
    Sched n d p → Sched n (p.map (·.1) ++ d) q → Sched n d (p ++ q)
  | [], q, d, _, hq => by simpa using hq
  | t :: rest, q, d, ⟨h1, h2, h3⟩, hq => by
    refine ⟨h1, h2, Sched.append rest q (t.1 :: d) h3 (Sched.mono q _ _ ?_ hq)⟩
    intro x hx
    simp only [List.map_cons, List.cons_append, List.mem_cons, List.mem_append, List.mem_map] at hx ⊢
    rcases hx with h | h | h
    · exact Or.inr (Or.inl h)
    · exact Or.inl h
    · exact Or.inr (Or.inr h)

theorem sched_postorder (n : Nat) : ∀ (t : ITree), WF n t → ∀ d, Sched n d (postorder t)
  | .leaf _, _, _ => trivial
  | .node i l r, h, d => by
    simp only [postorder]
    refine Sched.append _ _ _ (Sched.append _ _ _ (sched_postorder n l h.left d)
      (sched_postorder n r h.right _)) ?_
    refine ⟨?_, ?_, trivial⟩
    · rcases idx_mem_or_lt h.left with hm | hlt
      · right; simp [postorder_fst, hm]
      · left; exact hlt
    · rcases idx_mem_or_lt h.right with hm | hlt
      · right; simp [postorder_fst, hm]
      · left; exact hlt

end TT.C01

namespace TT.C01

/-- an internal node is numbered last within its subtree: its index is the advanced counter minus one -/
theorem setupIdx_node_idx (l r : BTree) (k : Nat) :
    (setupIdx (.node l r) k).1.idx + 1 = (setupIdx (.node l r) k).2 := rfl

/-- **the dropped branch of `UnRootedTreeModel` is a root branch.**  In a tree with `n` leaves the root
    gets index `2n−2`; the node with index `2n−3` — the entry `blens[:-1]` drops and `_call` replaces by a
    zero length — is the right child of the root when that is internal, otherwise the left child. -/
theorem root_child_last (n : Nat) (l r : BTree) (hn : (BTree.node l r).leaves.length = n) :
    ∃ il ir, setupIndexes n (.node l r) = .node (2 * n - 2) il ir ∧
      ((∃ a b, r = .node a b) → ir.idx = 2 * n - 3) ∧
      ((∃ t, r = .leaf t) → (∃ a b, l = .node a b) → il.idx = 2 * n - 3) := by
  have hlen := BTree.leaves_length (.node l r)
  simp only [BTree.internalCount] at hlen
  obtain ⟨a2, _, _⟩ := setupIdx_spec l n
  obtain ⟨b2, _, _⟩ := setupIdx_spec r (setupIdx l n).2
  refine ⟨(setupIdx l n).1, (setupIdx r (setupIdx l n).2).1, ?_, ?_, ?_⟩
  · show ITree.node (setupIdx r (setupIdx l n).2).2 _ _ = _
    rw [b2, a2]
    congr 1
    omega
  · rintro ⟨a, b, rfl⟩
    have h3 := setupIdx_node_idx a b (setupIdx l n).2
    rw [hn] at hlen
    omega
  · rintro ⟨t, rfl⟩ ⟨a, b, rfl⟩
    have h3 := setupIdx_node_idx a b n
    rw [hn] at hlen
    simp only [BTree.internalCount] at hlen a2
    omega

end TT.C01
