import TTProofs.Lemmas.C06_Tree
import Mathlib.Data.List.GetD
import Mathlib.Data.List.Nodup
import Mathlib.Data.Real.Basic
import Mathlib.Tactic.Linarith
import Mathlib.Tactic.Ring
import Mathlib.Tactic.FieldSimp
/-!
What the loops of the C06 model compute on a well-formed tree, over `ℝ`: the equations that the
final arrays satisfy at every node (bounds, ratio heights, difference heights), from which the
property theorems in `Props/C06.lean` follow.
-/
namespace TT.C06
open BTree

variable {n : Nat} {T : BTree}

/-! ### bounds -/

theorem boundsInternal_eq (s : Nat → ℝ) (L : List (Nat × Nat × Nat)) :
    boundsInternal n s L = fold3 n s (fun _ a b => if b < a then a else b) L (fun _ => 0) :=
  foldl_vec (fun ih (tr : Nat × Nat × Nat) => upd ih (tr.1 - n) ((fun _ a b => if b < a then a else b) tr
    (rd n s ih tr.2.1) (rd n s ih tr.2.2))) L (fun _ => 0)

theorem bounds_eq_rd (s : Nat → ℝ) (L : List (Nat × Nat × Nat)) (i : Nat) :
    bounds n s L i = rd n s (boundsInternal n s L) i := rfl

theorem bounds_tip (s : Nat → ℝ) (L : List (Nat × Nat × Nat)) {i : Nat} (hi : i < n) :
    bounds n s L i = s i := by simp [bounds, hi]

theorem ite_lt_eq_max (a b : ℝ) : (if b < a then a else b) = max a b := by
  split
  · rw [max_eq_left (le_of_lt ‹_›)]
  · rw [max_eq_right (not_lt.mp ‹_›)]

/-- at every internal node the bound is the larger of its children's bounds -/
theorem bounds_triple (hT : WF n T) (s : Nat → ℝ) :
    ∀ a ∈ T.post n, bounds n s (T.post n) a.1
      = max (bounds n s (T.post n) a.2.1) (bounds n s (T.post n) a.2.2) := by
  intro a ha
  have hok := post_triplesOK (n := n) (Nat.le_refl n) hT.tipsOK
  have hn := (hok.2 a ha).1
  have := fold3_spec n s (fun _ a b => if b < a then a else b) (T.post n) hok (fun _ => 0) a ha
  rw [← boundsInternal_eq] at this
  simp only [bounds_eq_rd]
  rw [show rd n s (boundsInternal n s (T.post n)) a.1 = boundsInternal n s (T.post n) (a.1 - n) by
    unfold rd; rw [if_neg (by omega)]]
  rw [this, ite_lt_eq_max]

theorem bounds_mono (hT : WF n T) (s : Nat → ℝ) :
    ∀ a ∈ T.pre n, bounds n s (T.post n) a.2 ≤ bounds n s (T.post n) a.1 := by
  intro a ha
  obtain ⟨b, hb, h1, h2⟩ := pre_to_post n T a ha
  have := bounds_triple hT s b hb
  rw [← h1, this]
  rcases h2 with h2 | h2 <;> rw [← h2]
  · exact le_max_left _ _
  · exact le_max_right _ _

/-! ### forward indices of the ratio transform -/

theorem fwd_mem {a : Nat × Nat} :
    a ∈ forwardIndices n T ↔ ∃ b ∈ T.pre n, n ≤ b.2 ∧ a = (b.1 - n, b.2 - n) := by
  unfold forwardIndices preorder
  simp only [List.mem_map, List.mem_filter, decide_eq_true_eq]
  constructor
  · rintro ⟨b, ⟨hb, hn⟩, rfl⟩; exact ⟨b, hb, hn, rfl⟩
  · rintro ⟨b, hb, hn, rfl⟩; exact ⟨b, ⟨hb, hn⟩, rfl⟩

theorem fwd_pairsOK (hT : WF n T) : PairsOK (forwardIndices n T) := by
  have hp := pre_pairsOK hT.tipsOK
  have hm := pre_mem hT.tipsOK
  constructor
  · unfold forwardIndices preorder
    rw [List.pairwise_map]
    refine (hp.1.filter _).imp_of_mem ?_
    intro a b ha hb hab
    simp only [List.mem_filter, decide_eq_true_eq] at ha hb
    have := (hm a ha.1).1
    have := (hm b hb.1).1
    exact ⟨by simp only; omega, by simp only; omega⟩
  · intro a ha
    obtain ⟨b, hb, hn, rfl⟩ := fwd_mem.mp ha
    have := hm b hb
    simp only; omega

theorem reach_shift (n : Nat) : ∀ (L : List (Nat × Nat)) (K : Nat → Prop), Reach K L →
    (∀ a ∈ L, n ≤ a.1) →
    Reach (fun j => K (j + n)) ((L.filter (fun a => n ≤ a.2)).map (fun a => (a.1 - n, a.2 - n)))
  | [], _, _, _ => trivial
  | a :: L, K, hr, hp => by
    have ih := reach_shift n L _ hr.2 (fun b hb => hp b (List.mem_cons_of_mem _ hb))
    have ha := hp a List.mem_cons_self
    by_cases hc : n ≤ a.2
    · rw [List.filter_cons_of_pos (by simpa using hc), List.map_cons]
      refine ⟨by simpa [Nat.sub_add_cancel ha] using hr.1, ih.mono ?_⟩
      intro j hj
      rcases hj with hj | hj
      · left; simp only; omega
      · right; exact hj
    · rw [List.filter_cons_of_neg (by simpa using hc)]
      refine ih.mono ?_
      intro j hj
      rcases hj with hj | hj
      · omega
      · exact hj

theorem fwd_reach (hT : WF n T) (hn : 2 ≤ n) :
    Reach (fun j => j = n - 2) (forwardIndices n T) := by
  have h1 := pre_reach n T (fun x => x = T.rootIdx n) rfl
  have h2 := reach_shift n _ _ h1 (fun a ha => (pre_mem hT.tipsOK a ha).1)
  refine h2.mono ?_
  intro j hj
  have hi := hT.ints
  have := rootIdx_succ (k := n) (t := T) (by omega)
  have hj' : j + n = T.rootIdx n := hj
  omega

/-- the root is not a child: its slot keeps the root-height parameter -/
theorem fwd_child_lt (hT : WF n T) : ∀ a ∈ forwardIndices n T, a.2 < n - 2 ∧ a.1 < n - 1 := by
  intro a ha
  obtain ⟨b, hb, hn, rfl⟩ := fwd_mem.mp ha
  have := pre_mem hT.tipsOK b hb
  have := hT.ints
  simp only; omega

section ratio
variable (s x : Nat → ℝ)

theorem ratioFwd_eq (b : Nat → ℝ) (L : List (Nat × Nat)) :
    ratioFwd n b L x
      = L.foldl (fun h a => upd h a.2 ((fun a v => b (n + a.2) + x a.2 * (v - b (n + a.2))) a (h a.1))) x :=
  foldl_vec (fun h (a : Nat × Nat) => upd h a.2 (b (n + a.2) + x a.2 * (h a.1 - b (n + a.2)))) L x

/-- every non-root internal node sits at `bound + ratio · (parent height − bound)` of the FINAL
heights, and the root keeps the root-height parameter -/
theorem ratio_spec (hT : WF n T) (b : Nat → ℝ) :
    (∀ a ∈ forwardIndices n T,
      ratioFwd n b (forwardIndices n T) x a.2
        = b (n + a.2) + x a.2 * (ratioFwd n b (forwardIndices n T) x a.1 - b (n + a.2))) ∧
    ratioFwd n b (forwardIndices n T) x (n - 2) = x (n - 2) := by
  constructor
  · intro a ha
    rw [ratioFwd_eq]
    exact fold2_spec (fun a v => b (n + a.2) + x a.2 * (v - b (n + a.2))) _ (fwd_pairsOK hT) x a ha
  · rw [ratioFwd_eq]
    exact fold2_frame (fun a v => b (n + a.2) + x a.2 * (v - b (n + a.2))) _ x (n - 2)
      (fun a ha => by have := (fwd_child_lt hT a ha).1; omega)

end ratio

/-! ### difference transform -/

section diff
variable (mx : ℝ → ℝ → ℝ) (s x : Nat → ℝ)

theorem diffFwdAll_eq (L : List (Nat × Nat × Nat)) :
    diffFwdAll n mx s L x
      = fold3 0 s (fun tr a b => mx a b + x (tr.1 - n)) L (fun i => if i < n then s i else 0) := by
  unfold diffFwdAll fold3
  rw [foldl_vec (fun H (tr : Nat × Nat × Nat) => upd H tr.1 (mx (H tr.2.1) (H tr.2.2) + x (tr.1 - n)))]
  apply List.foldl_ext
  intro H tr _
  simp [rd]

/-- every internal node sits at `mx(children) + increment`, tips at their sampling times -/
theorem diff_spec (hT : WF n T) :
    (∀ a ∈ T.post n, diffFwdAll n mx s (T.post n) x a.1
      = mx (diffFwdAll n mx s (T.post n) x a.2.1) (diffFwdAll n mx s (T.post n) x a.2.2)
        + x (a.1 - n)) ∧
    ∀ i < n, diffFwdAll n mx s (T.post n) x i = s i := by
  have hok := post_triplesOK (n := 0) (Nat.zero_le n) hT.tipsOK
  constructor
  · intro a ha
    have := fold3_spec 0 s (fun tr a b => mx a b + x (tr.1 - n)) (T.post n) hok
      (fun i => if i < n then s i else 0) a ha
    rw [← diffFwdAll_eq] at this
    simpa [rd] using this
  · intro i hi
    rw [diffFwdAll_eq, fold3_frame]
    · simp [hi]
    · intro a ha
      have := (post_mem hT.tipsOK a ha).1
      omega

/-- every internal index `n + j`, `j < n-1`, is written by exactly one post-order triple -/
theorem post_has (hT : WF n T) {j : Nat} (hj : j < n - 1) : ∃ a ∈ T.post n, a.1 = n + j := by
  have : n + j ∈ (T.post n).map (·.1) := by
    rw [post_fst, List.mem_range'_1]
    have := hT.ints; omega
  obtain ⟨a, ha, h⟩ := List.mem_map.mp this
  exact ⟨a, ha, h⟩

theorem diffInv_spec (hT : WF n T) (y : Nat → ℝ) :
    ∀ a ∈ T.post n, diffInv n mx s (T.post n) y (a.1 - n)
      = nodeHeights n s y a.1 - mx (nodeHeights n s y a.2.1) (nodeHeights n s y a.2.2) := by
  have hok := post_triplesOK (n := n) (Nat.le_refl n) hT.tipsOK
  have hkeys : (T.post n).Pairwise (fun a b => a.1 - n ≠ b.1 - n) := by
    refine hok.1.imp_of_mem ?_
    intro a b ha hb hab
    have := (hok.2 a ha).1
    have := (hok.2 b hb).1
    omega
  unfold diffInv
  rw [foldl_vec (fun X (tr : Nat × Nat × Nat) => upd X (tr.1 - n)
    (nodeHeights n s y tr.1 - mx (nodeHeights n s y tr.2.1) (nodeHeights n s y tr.2.2)))]
  exact foldKey_spec (fun a : Nat × Nat × Nat => a.1 - n)
    (fun a => nodeHeights n s y a.1 - mx (nodeHeights n s y a.2.1) (nodeHeights n s y a.2.2))
    (T.post n) hkeys (fun _ => 0)

end diff

/-! ### sub-trees and the declarative meaning of the bounds -/

/-- `SubAt T k0 t k`: `t` is a subtree of `T` and its internal numbering starts at `k` when that
of `T` starts at `k0` -/
inductive SubAt (T : BTree) (k0 : Nat) : BTree → Nat → Prop
  | refl : SubAt T k0 T k0
  | left {l r k} : SubAt T k0 (.node l r) k → SubAt T k0 l k
  | right {l r k} : SubAt T k0 (.node l r) k → SubAt T k0 r (k + l.ints)

theorem SubAt.post_subset {T k0 t k} (h : SubAt T k0 t k) : ∀ a ∈ t.post k, a ∈ T.post k0 := by
  induction h with
  | refl => exact fun a ha => ha
  | left _ ih => exact fun a ha => ih a (by simp [BTree.post, ha])
  | right _ ih => exact fun a ha => ih a (by simp [BTree.post, ha])

theorem SubAt.tips_subset {T k0 t k} (h : SubAt T k0 t k) : ∀ x ∈ t.tips, x ∈ T.tips := by
  induction h with
  | refl => exact fun a ha => ha
  | left _ ih => exact fun a ha => ih a (by simp [BTree.tips, ha])
  | right _ ih => exact fun a ha => ih a (by simp [BTree.tips, ha])

/-- `b` is the largest sampling time among the tips `tips` -/
def IsMaxOver (s : Nat → ℝ) (tips : List Nat) (b : ℝ) : Prop :=
  (∀ x ∈ tips, s x ≤ b) ∧ ∃ x ∈ tips, s x = b

theorem bounds_sub (hT : WF n T) (s : Nat → ℝ) : ∀ (t : BTree) (k : Nat),
    (∀ a ∈ t.post k, a ∈ T.post n) → (∀ x ∈ t.tips, x < n) →
    IsMaxOver s t.tips (bounds n s (T.post n) (t.rootIdx k))
  | .leaf x, k, _, ht => by
    have hx : x < n := ht x (by simp [BTree.tips])
    simp only [BTree.rootIdx, BTree.tips, bounds_tip s _ hx]
    exact ⟨by simp, x, by simp, rfl⟩
  | .node l r, k, hsub, ht => by
    have hl := bounds_sub hT s l k (fun a ha => hsub a (by simp [BTree.post, ha]))
      (fun x hx => ht x (by simp [BTree.tips, hx]))
    have hr := bounds_sub hT s r (k + l.ints) (fun a ha => hsub a (by simp [BTree.post, ha]))
      (fun x hx => ht x (by simp [BTree.tips, hx]))
    have htr := bounds_triple hT s _ (hsub (k + l.ints + r.ints, l.rootIdx k, r.rootIdx (k + l.ints))
      (by simp [BTree.post]))
    simp only at htr
    show IsMaxOver s (l.tips ++ r.tips) (bounds n s (T.post n) (k + l.ints + r.ints))
    rw [htr]
    refine ⟨fun x hx => ?_, ?_⟩
    · rcases List.mem_append.mp hx with hx | hx
      · exact le_trans (hl.1 x hx) (le_max_left _ _)
      · exact le_trans (hr.1 x hx) (le_max_right _ _)
    · rcases le_total (bounds n s (T.post n) (l.rootIdx k)) (bounds n s (T.post n) (r.rootIdx (k + l.ints))) with h | h
      · obtain ⟨x, hx, e⟩ := hr.2
        exact ⟨x, by simp [hx], by rw [e, max_eq_right h]⟩
      · obtain ⟨x, hx, e⟩ := hl.2
        exact ⟨x, by simp [hx], by rw [e, max_eq_left h]⟩

theorem fwd_bound_mono (hT : WF n T) (s : Nat → ℝ) :
    ∀ a ∈ forwardIndices n T,
      bounds n s (postorder n T) (n + a.2) ≤ bounds n s (postorder n T) (n + a.1) := by
  intro a ha
  obtain ⟨b, hb, hn, rfl⟩ := fwd_mem.mp ha
  have h1 := (pre_mem hT.tipsOK b hb).1
  have := bounds_mono hT s b hb
  simpa [postorder, Nat.add_sub_cancel' h1, Nat.add_sub_cancel' hn] using this


theorem foldl_max_ge (L : List ℝ) (m : ℝ) :
    m ≤ L.foldl (fun m x => if m < x then x else m) m ∧
    ∀ d ∈ L, d ≤ L.foldl (fun m x => if m < x then x else m) m := by
  induction L generalizing m with
  | nil => simp
  | cons a L ih =>
    simp only [List.foldl_cons, List.mem_cons]
    obtain ⟨h1, h2⟩ := ih (if m < a then a else m)
    have hm : m ≤ (if m < a then a else m) ∧ a ≤ (if m < a then a else m) := by
      split
      · exact ⟨le_of_lt ‹_›, le_refl _⟩
      · exact ⟨le_refl _, not_lt.mp ‹_›⟩
    refine ⟨le_trans hm.1 h1, ?_⟩
    rintro d (rfl | hd)
    · exact le_trans hm.2 h1
    · exact h2 d hd


end TT.C06
