import TTModel.C17_Reinject
/-! Lemmas for the re-injection model (lookups after `keepOnly` / `snoc`). -/
namespace TT.C17

theorem JKVs.lookup_keepOnly (keep : List String) (k : String) : ∀ kvs : JKVs,
    (kvs.keepOnly keep).lookup k = if keep.contains k then kvs.lookup k else none
  | .nil => by simp [JKVs.keepOnly, JKVs.lookup]
  | .cons k' j r => by
      have ih := JKVs.lookup_keepOnly keep k r
      simp only [List.contains_eq_mem, decide_eq_true_eq] at ih ⊢
      by_cases hk : k' ∈ keep
      · by_cases he : k' = k
        · subst he; simp [JKVs.keepOnly, JKVs.lookup, hk]
        · simp [JKVs.keepOnly, JKVs.lookup, hk, he, ih]
      · by_cases he : k' = k
        · subst he; simp [JKVs.keepOnly, JKVs.lookup, hk, ih]
        · simp [JKVs.keepOnly, JKVs.lookup, hk, he, ih]

theorem JKVs.lookup_snoc (t : String) (d : Json) (k : String) : ∀ l : JKVs,
    (l.snoc t d).lookup k = (l.lookup k).or (if t = k then some d else none)
  | .nil => by simp [JKVs.snoc, JKVs.lookup]
  | .cons k' j r => by
      by_cases he : k' = k <;> simp [JKVs.snoc, JKVs.lookup, he, JKVs.lookup_snoc t d k r]

/-- lookups in the specification entry after re-injection -/
theorem lookup_reinjected (kvs : JKVs) (d : Json) (k : String) :
    ((kvs.keepOnly keptKeys).snoc "tensor" d).lookup k =
      if keptKeys.contains k then kvs.lookup k else if k = "tensor" then some d else none := by
  rw [JKVs.lookup_snoc, JKVs.lookup_keepOnly]
  simp only [List.contains_eq_mem, decide_eq_true_eq]
  by_cases hk : k ∈ keptKeys
  · have : ¬ "tensor" = k := by
      intro e; subst e; revert hk; decide
    cases h : kvs.lookup k <;> simp [hk, this]
  · by_cases he : k = "tensor"
    · subst he; simp [hk]
    · have : ¬ "tensor" = k := fun e => he e.symm
      simp [hk, he, this]

end TT.C17
