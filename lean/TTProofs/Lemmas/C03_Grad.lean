import TTProofs.Lemmas.C03_Rescale
import TTProofs.Lemmas.C03_Example
import TTProofs.Lemmas.ScalarReal
import Mathlib.Topology.Algebra.Order.Field
import Mathlib.Topology.Algebra.Monoid
import Mathlib.Topology.Order.Basic
/-!
# C03 gradient helpers

* the plain pass is continuous in any parameter the matrices depend on continuously;
* with the code's `max` scalers, every appended scaler is positive as soon as every node's PLAIN
  partial has a positive entry at every site (an open condition);
so near such a point the hypotheses of `rescaled_eq_plain` / `safe_eq_plain` hold on a neighbourhood.
-/
open Filter Topology

namespace TT.C03

variable {N K S : Nat}

/-- entries of the plain pass depend continuously on the parameter -/
theorem peel_continuousAt (Tc : Nat) (τ0 : ℝ) (tipc : ℝ → Nat → Fin N → Fin K → Fin S → ℝ)
    (M : ℝ → Mats ℝ K S)
    (htip : ∀ c n k s, ContinuousAt (fun τ => tipc τ c n k s) τ0)
    (hM : ∀ b k i j, ContinuousAt (fun τ => M τ b k i j) τ0) :
    ∀ (ts : List Triple) (st : ℝ → Store ℝ N K S),
      (∀ i n k s, ContinuousAt (fun τ => ((st τ).get i).get n k s) τ0) →
      ∀ i n k s, ContinuousAt (fun τ => ((peel Tc (tipc τ) (M τ) (st τ) ts).get i).get n k s) τ0
  | [], _, h => h
  | t :: ts, st, h => by
      have hstep : ∀ i n k s, ContinuousAt
          (fun τ => ((peelStep Tc (tipc τ) (M τ) (st τ) t).get i).get n k s) τ0 := by
        intro i n k s
        have hcontrib : ∀ c, ContinuousAt
            (fun τ => contrib Tc (tipc τ) (M τ) c ((st τ).get c) n k s) τ0 := by
          intro c
          unfold contrib
          by_cases hc : c < Tc
          · simp only [hc, if_true]; exact htip c n k s
          · simp only [hc, if_false, sumFin_eq_sum]
            exact tendsto_finsetSum _ fun j _ => (hM c k s j).mul (h c n k j)
        by_cases hi : i = t.1
        · simp only [peelStep, Store.get_set, hi, if_true, combine_get]
          exact (hcontrib t.2.1).mul (hcontrib t.2.2)
        · simp only [peelStep, Store.get_set, hi, if_false]
          exact h i n k s
      exact peel_continuousAt Tc τ0 tipc M htip hM ts
        (fun τ => peelStep Tc (tipc τ) (M τ) (st τ) t) hstep

/-- the plain site value depends continuously on the parameter -/
theorem siteLik_continuousAt (τ0 : ℝ) (freqs : Fin S → ℝ) (props : Fin K → ℝ)
    (p : ℝ → Part ℝ N K S) (hp : ∀ n k s, ContinuousAt (fun τ => (p τ).get n k s) τ0) (n : Fin N) :
    ContinuousAt (fun τ => siteLik freqs props (p τ) n) τ0 := by
  unfold siteLik
  simp only [sumFin_eq_sum]
  exact tendsto_finsetSum _ fun s _ => tendsto_const_nhds.mul
    (tendsto_finsetSum _ fun k _ => tendsto_const_nhds.mul (hp n k s))

theorem eventually_forall_mem_list {α β : Type} {f : Filter α} (p : β → α → Prop) :
    ∀ (l : List β), (∀ b ∈ l, ∀ᶠ x in f, p b x) → ∀ᶠ x in f, ∀ b ∈ l, p b x
  | [], _ => Filter.Eventually.of_forall fun _ _ h => by simp at h
  | a :: l, h => by
      have h1 := h a (List.mem_cons_self)
      have h2 := eventually_forall_mem_list p l fun b hb => h b (List.mem_cons_of_mem _ hb)
      filter_upwards [h1, h2] with x hx1 hx2 b hb
      rcases List.mem_cons.mp hb with rfl | hb
      · exact hx1
      · exact hx2 b hb

/-- with the code's `max` scalers: if every node's plain partial has a positive entry at every
  site, every appended scaler of the rescaled pass is positive (induction form) -/
theorem resc_scalers_pos_aux {T : Nat} (Tc : Nat) (tipc : Nat → Fin N → Fin K → Fin S → ℝ)
    (M : Mats ℝ K S) :
    ∀ (ts : List Triple) (P : Store ℝ N K S) (rs : RState ℝ N K S) (c : Nat → Fin N → ℝ)
      (live done lf : List Nat),
      InvA P rs.st c → (∀ i n, 0 < c i n) → wfAux T ts live done = some lf →
      (∀ t ∈ ts, ∀ n, ∃ k s, 0 < ((peel Tc tipc M P ts).get t.1).get n k s) →
      (∀ sc ∈ rs.scalers, ∀ n : Fin N, 0 < sc[n]) →
      ∀ sc ∈ (ts.foldl (rescStep (fun _ n p => maxKS p n) Tc tipc M) rs).scalers, ∀ n : Fin N, 0 < sc[n]
  | [], _, _, _, _, _, _, _, _, _, _, hs => hs
  | t :: ts, P, rs, c, live, done, lf, hA, hc, hwf, hpl, hs => by
      obtain ⟨hT, hnd, _, _, hwf'⟩ := wfAux_cons hwf
      have hce : ∀ i n, 0 < cEff Tc c i n := by
        intro i n; unfold cEff; split
        · exact one_pos
        · exact hc i n
      -- the scaler of this step is positive
      have hsc : ∀ n, 0 < stepScaler (fun _ n p => maxKS p n) Tc tipc M rs.st t n := by
        intro n
        obtain ⟨k, s, hks⟩ := hpl t (List.mem_cons_self) n
        have hkeep : (peel Tc tipc M P (t :: ts)).get t.1 = (peelStep Tc tipc M P t).get t.1 :=
          peel_get_keep (T := T) Tc tipc M ts (peelStep Tc tipc M P t) _ _ lf hwf' t.1
            (Or.inr (List.mem_cons_self))
        rw [hkeep] at hks
        simp only [peelStep, Store.get_set, if_true, combine_get] at hks
        have hl := contrib_scale Tc tipc M t.2.1 (P.get t.2.1) (rs.st.get t.2.1) (cEff Tc c t.2.1 n) n k s
          (fun h => by simp [cEff, h]) (fun h j => by
            have : ¬ t.2.1 < Tc := Nat.not_lt.mpr h
            simp only [cEff, this, if_false]; exact hA _ _ _ _)
        have hr := contrib_scale Tc tipc M t.2.2 (P.get t.2.2) (rs.st.get t.2.2) (cEff Tc c t.2.2 n) n k s
          (fun h => by simp [cEff, h]) (fun h j => by
            have : ¬ t.2.2 < Tc := Nat.not_lt.mpr h
            simp only [cEff, this, if_false]; exact hA _ _ _ _)
        rw [hl, hr] at hks
        have hraw : 0 < (combine Tc tipc M rs.st t.2.1 t.2.2).get n k s := by
          rw [combine_get]
          have e : cEff Tc c t.2.1 n * contrib Tc tipc M t.2.1 (rs.st.get t.2.1) n k s *
              (cEff Tc c t.2.2 n * contrib Tc tipc M t.2.2 (rs.st.get t.2.2) n k s)
              = (cEff Tc c t.2.1 n * cEff Tc c t.2.2 n) *
                (contrib Tc tipc M t.2.1 (rs.st.get t.2.1) n k s *
                  contrib Tc tipc M t.2.2 (rs.st.get t.2.2) n k s) := by ring
          rw [e] at hks
          exact (mul_pos_iff_of_pos_left (mul_pos (hce _ n) (hce _ n))).mp hks
        exact lt_of_lt_of_le hraw (Ex.le_maxKS _ n k s)
      have hA' := invA_step (fun _ n p => maxKS p n) Tc tipc M P rs c t hA (fun n => (hsc n).ne')
      have hc' : ∀ i n, 0 < cUpd Tc c t (stepScaler (fun _ n p => maxKS p n) Tc tipc M rs.st t) i n := by
        intro i n
        unfold cUpd
        split
        · exact mul_pos (mul_pos (hce _ n) (hce _ n)) (hsc n)
        · exact hc i n
      have hs' : ∀ sc ∈ (rescStep (fun _ n p => maxKS p n) Tc tipc M rs t).scalers,
          ∀ n : Fin N, 0 < sc[n] := by
        intro sc hm n
        rw [rescStep_scalers] at hm
        rcases List.mem_append.mp hm with h | h
        · exact hs sc h n
        · simp only [List.mem_singleton] at h
          subst h
          rw [ofFn_getFin]; exact hsc n
      simp only [List.foldl_cons]
      exact resc_scalers_pos_aux Tc tipc M ts (peelStep Tc tipc M P t) _ _ _ _ lf hA' hc' hwf'
        (fun t' ht' => hpl t' (List.mem_cons_of_mem _ ht')) hs'

/-- positivity of all `max` scalers from positivity of the plain partials -/
theorem peelRescaled_scalers_pos {T : Nat} (Tc : Nat) (tipc : Nat → Fin N → Fin K → Fin S → ℝ)
    (M : Mats ℝ K S) (st : Store ℝ N K S) (ts : List Triple) (hwf : wf T ts = true)
    (hpl : ∀ t ∈ ts, ∀ n, ∃ k s, 0 < ((peel Tc tipc M st ts).get t.1).get n k s) :
    ∀ sc ∈ (peelRescaled Tc tipc M st ts).scalers, ∀ n : Fin N, 0 < sc[n] :=
  resc_scalers_pos_aux (T := T) Tc tipc M ts st ⟨st, []⟩ (fun _ _ => 1) [] [] _ (invA_refl st)
    (fun _ _ => one_pos) (wf_unpack hwf) hpl (fun _ h => by simp at h)


/-- the same for the safe pass run on a consistent stale list `Pf` (any threshold test): every
  appended scaler is positive when every node's plain partial has a positive entry at every site -/
theorem safe_scalers_pos_aux (below : Part ℝ N K S → Bool) (M : Mats ℝ K S) (Pf : Store ℝ N K S) :
    ∀ (ts : List Triple) (ss : SState ℝ N K S) (c : Nat → Fin N → ℝ),
      Consistent Pf M ts → InvA Pf ss.st c → (∀ i n, 0 < c i n) →
      (∀ t ∈ ts, ∀ n, ∃ k s, 0 < (Pf.get t.1).get n k s) →
      (∀ sc ∈ ss.scalers, ∀ n : Fin N, 0 < sc[n]) →
      ∀ sc ∈ (ts.foldl (safeStep below (fun _ n p => maxKS p n) M) ss).scalers, ∀ n : Fin N, 0 < sc[n]
  | [], _, _, _, _, _, _, hs => hs
  | t :: ts, ss, c, hcons, hA, hc, hpl, hs => by
      have hcons' : Consistent Pf M ts := fun t' ht' => hcons t' (List.mem_cons_of_mem _ ht')
      have hpl' : ∀ t' ∈ ts, ∀ n, ∃ k s, 0 < (Pf.get t'.1).get n k s :=
        fun t' ht' => hpl t' (List.mem_cons_of_mem _ ht')
      simp only [List.foldl_cons]
      by_cases hcnd : (ss.flags t.2.1 || ss.flags t.2.2 || below (ss.st.get t.1)) = true
      · have hstep := safeStep_true below (fun _ n p => maxKS p n) M ss t hcnd
        have hsc : ∀ n, 0 < stepScaler (fun _ n p => maxKS p n) 0 noTips M ss.st t n := by
          intro n
          obtain ⟨k, s, hks⟩ := hpl t (List.mem_cons_self) n
          rw [hcons t (List.mem_cons_self) n k s, combine_get] at hks
          have hl := contrib_scale 0 noTips M t.2.1 (Pf.get t.2.1) (ss.st.get t.2.1) (c t.2.1 n) n k s
            (fun h => absurd h (Nat.not_lt_zero _)) (fun _ j => hA _ _ _ _)
          have hr := contrib_scale 0 noTips M t.2.2 (Pf.get t.2.2) (ss.st.get t.2.2) (c t.2.2 n) n k s
            (fun h => absurd h (Nat.not_lt_zero _)) (fun _ j => hA _ _ _ _)
          rw [hl, hr] at hks
          have hraw : 0 < (combine 0 noTips M ss.st t.2.1 t.2.2).get n k s := by
            rw [combine_get]
            have e : c t.2.1 n * contrib 0 noTips M t.2.1 (ss.st.get t.2.1) n k s *
                (c t.2.2 n * contrib 0 noTips M t.2.2 (ss.st.get t.2.2) n k s)
                = (c t.2.1 n * c t.2.2 n) *
                  (contrib 0 noTips M t.2.1 (ss.st.get t.2.1) n k s *
                    contrib 0 noTips M t.2.2 (ss.st.get t.2.2) n k s) := by ring
            rw [e] at hks
            exact (mul_pos_iff_of_pos_left (mul_pos (hc _ n) (hc _ n))).mp hks
          exact lt_of_lt_of_le hraw (Ex.le_maxKS _ n k s)
        have hA0 := invA_step (fun _ n p => maxKS p n) 0 noTips M Pf ⟨ss.st, ss.scalers⟩ c t hA
          (fun n => (hsc n).ne')
        have hA' : InvA Pf (safeStep below (fun _ n p => maxKS p n) M ss t).st
            (cUpd 0 c t (stepScaler (fun _ n p => maxKS p n) 0 noTips M ss.st t)) := by
          rw [hstep]
          intro i n k s
          rw [← hA0 i n k s]
          unfold peelStep
          simp only [Store.get_set]
          by_cases hi : i = t.1
          · simp only [hi, if_true]
            exact hcons t (List.mem_cons_self) n k s
          · simp only [hi, if_false]
        have hc' : ∀ i n, 0 < cUpd 0 c t (stepScaler (fun _ n p => maxKS p n) 0 noTips M ss.st t) i n := by
          intro i n
          unfold cUpd cEff
          split
          · simp only [Nat.not_lt_zero, if_false]
            exact mul_pos (mul_pos (hc _ n) (hc _ n)) (hsc n)
          · exact hc i n
        have hs' : ∀ sc ∈ (safeStep below (fun _ n p => maxKS p n) M ss t).scalers,
            ∀ n : Fin N, 0 < sc[n] := by
          intro sc hm n
          rw [hstep] at hm
          simp only [rescStep_scalers] at hm
          rcases List.mem_append.mp hm with h | h
          · exact hs sc h n
          · simp only [List.mem_singleton] at h
            subst h
            rw [ofFn_getFin]; exact hsc n
        exact safe_scalers_pos_aux below M Pf ts _ _ hcons' hA' hc' hpl' hs'
      · rw [safeStep_false below (fun _ n p => maxKS p n) M ss t hcnd]
        exact safe_scalers_pos_aux below M Pf ts ss c hcons' hA hc hpl' hs

/-- positivity of all scalers of `peelSafe` run after a plain pass -/
theorem peelSafe_scalers_pos {T : Nat} (thr : ℝ) (M : Mats ℝ K S) (st : Store ℝ N K S)
    (ts : List Triple) (hwf : wf T ts = true)
    (hpl : ∀ t ∈ ts, ∀ n, ∃ k s, 0 < ((peel 0 noTips M st ts).get t.1).get n k s) :
    ∀ sc ∈ (peelSafe thr M (peel 0 noTips M st ts) ts).scalers, ∀ n : Fin N, 0 < sc[n] :=
  safe_scalers_pos_aux (belowThr thr) M (peel 0 noTips M st ts) ts ⟨_, fun _ => false, []⟩ (fun _ _ => 1)
    (peel_consistent (T := T) M ts st [] [] _ (fun _ h => by simp at h) (wf_unpack hwf))
    (invA_refl _) (fun _ _ => one_pos) hpl (fun _ h => by simp at h)


/-! instance for the detached-scaler witness (see `Props/C03_Grad.lean`) -/
namespace G
noncomputable def M (τ : ℝ) : Mats ℝ 1 1 := fun _ _ _ _ => τ
noncomputable def tips : Store ℝ 1 1 1 := tipStore fun _ _ _ => 1
def ts : List Triple := [(2, 0, 1)]
def one1 : Fin 1 → ℝ := fun _ => 1

theorem wf_ts : wf 2 ts = true := by decide

theorem plain_get (τ : ℝ) (n k s) : ((peel 0 noTips (M τ) tips ts).get 2).get n k s = τ * τ := by
  simp [peel, ts, peelStep, combine, contrib, sumFin_eq_sum, M, tips, tipStore]

theorem plain_val (τ : ℝ) :
    logLikPlain one1 one1 one1 ((peel 0 noTips (M τ) tips ts).get (rootOf ts)) = Real.log (τ * τ) := by
  have : rootOf ts = 2 := rfl
  simp [logLikPlain, siteLik, sumFin_eq_sum, this, plain_get, one1]

theorem scaler_val (τ : ℝ) :
    (peelRescaled 0 noTips (M τ) tips ts).scalers = [Vector.ofFn fun _ => τ * τ] := by
  simp only [peelRescaled, peelRescaledWith, ts, List.foldl_cons, List.foldl_nil, rescStep, List.nil_append]
  congr 1
  congr 1
  funext n
  simp [maxKS, maxList, List.finRange_succ, combine, contrib, sumFin_eq_sum, M, tips, tipStore]

theorem scaled_root (τ : ℝ) (n k s) :
    ((peelRescaled 0 noTips (M τ) tips ts).st.get 2).get n k s = τ * τ / (τ * τ) := by
  simp [peelRescaled, peelRescaledWith, ts, rescStep, divide, maxKS, maxList, List.finRange_succ,
    combine, contrib, sumFin_eq_sum, M, tips, tipStore]
end G

end TT.C03
