import TTProofs.Lemmas.C09_Grid
/-! C09: the log density regrouped as a sum of per-epoch contributions. -/
open TT TT.C09
namespace TT.C09

theorem ofInt_real (n : Int) : (ofInt n : ℝ) = n := by
  cases n with
  | ofNat n => simp [ofInt, ofNat_real]
  | negSucc n => simp [ofInt, ofNat_real, Int.negSucc_eq]

/-- contribution of epoch `k = [t_k, t_{k+1})`: lineages entering it (1 at the origin), births and `psi`-samplings
inside it (tips at `t_{k+1}` included), lineages leaving it unsampled, `rho`-sampled tips at its end -/
noncomputable def epochTerm (r : Rates ℝ) (t : Nat → ℝ) (m : Nat) (xs ys : List ℝ) (k : Nat) : ℝ :=
  (if k = 0 then 1 else (nCross t k xs ys : ℝ)) * logq (Acoef r k) (BAt r t m k) (t k) (t (k + 1))
  + ((xs.filter fun x => idxX t m x = k).map fun x =>
      Real.log (r.lam k) + logq (Acoef r k) (BAt r t m k) x (t (k + 1))).sum
  + ((ys.filter fun y => idxY t m y = k ∧ isRhoTip r t m y = false).map fun y =>
      Real.log (r.psi k) - logq (Acoef r k) (BAt r t m k) y (t (k + 1))).sum
  + (if k + 1 < m then (nCross t (k + 1) xs ys : ℝ) * Real.log (1 - r.rho k) else 0)
  + (nAt t k ys : ℝ) * Real.log (if 0 < nAt t k ys ∧ 0 < r.rho k then r.rho k else 1)

/-- regrouping a sum over events by the epoch they fall in -/
theorem sum_by_epoch (l : List ℝ) (idx : ℝ → ℕ) (m : ℕ) (g : ℕ → ℝ → ℝ) (h : ∀ x ∈ l, idx x < m) :
    (l.map fun x => g (idx x) x).sum = ∑ k ∈ Finset.range m, ((l.filter fun x => idx x = k).map (g k)).sum := by
  induction l with
  | nil => simp
  | cons a l ih =>
      have ha : idx a < m := h a List.mem_cons_self
      rw [List.map_cons, List.sum_cons, ih (fun x hx => h x (List.mem_cons_of_mem _ hx))]
      have : ∀ k, (((a :: l).filter fun x => idx x = k).map (g k)).sum
          = (if idx a = k then g k a else 0) + ((l.filter fun x => idx x = k).map (g k)).sum := by
        intro k
        by_cases hk : idx a = k <;> simp [List.filter_cons, hk]
      simp only [this, Finset.sum_add_distrib]
      rw [Finset.sum_ite_eq (Finset.range m) (idx a) (fun k => g k a)]
      simp [ha]

theorem sum_range_map (n : ℕ) (f : ℕ → ℝ) : ((List.range n).map f).sum = ∑ k ∈ Finset.range n, f k := by
  induction n with
  | zero => simp
  | succ n ih => rw [List.range_succ, List.map_append, List.sum_append, ih, Finset.sum_range_succ]; simp

/-- `if any non-rho then Σ (if rho then 0 else h) else 0` is that sum in both cases -/
theorem ite_any_sum (ys : List ℝ) (P : ℝ → Bool) (h : ℝ → ℝ) :
    (if (ys.any fun y => !P y) = true then (ys.map fun y => if P y = true then 0 else h y).sum else 0)
      = ((ys.filter fun y => P y = false).map h).sum := by
  have hsum : (ys.map fun y => if P y = true then 0 else h y).sum = ((ys.filter fun y => P y = false).map h).sum := by
    induction ys with
    | nil => simp
    | cons a l ih => cases hp : P a <;> simp [List.filter_cons, hp, ih]
  split
  · exact hsum
  · rename_i hc
    rw [← hsum]
    symm
    apply sum_zero_of_all
    intro y hy
    simp only [Bool.not_eq_true, List.any_eq_false, Bool.not_eq_eq_eq_not] at hc
    have hP : P y = true := by
      have := hc y hy
      cases hv : P y <;> simp_all
    simp [hP]

theorem logProb_eq_sum_epochs (r : Rates ℝ) (t : Nat → ℝ) (m' : Nat) (surv : Bool) (tips ints : List ℝ)
    (h0 : t 0 = 0) (hx : ∀ h ∈ ints, idxX t (m' + 1) (t (m' + 1) - h) < m' + 1) :
    logProb r none t (m' + 1) surv tips ints =
      (if surv then -Real.log (1 - pAt r t (m' + 1) 0) else 0)
      + ∑ k ∈ Finset.range (m' + 1),
          epochTerm r t (m' + 1) (ints.map fun h => t (m' + 1) - h) (tips.map fun h => t (m' + 1) - h) k := by
  set m := m' + 1 with hm
  set xs := ints.map fun h => t m - h with hxs
  set ys := tips.map fun h => t m - h with hys
  have hxs' : ∀ x ∈ xs, idxX t m x < m := by
    intro x hx'
    obtain ⟨h, hh, rfl⟩ := List.mem_map.mp hx'
    exact hx h hh
  have hys' : ∀ y ∈ ys.filter (fun y => isRhoTip r t m y = false), idxY t m y < m := by
    intro y _
    unfold idxY
    have : min (countLT t (m + 1) y - 1) (m - 1) ≤ m - 1 := Nat.min_le_right _ _
    omega
  unfold logProb
  simp only [sumList_eq_sum, trans_log_real, add_zero]
  rw [← hxs, ← hys]
  -- births
  have hb := sum_by_epoch xs (idxX t m) m
    (fun k x => Real.log (r.lam k) + logq (Acoef r k) (BAt r t m k) x (t (k + 1))) hxs'
  -- psi-sampled tips
  have hs1 := ite_any_sum ys (isRhoTip r t m)
    (fun y => Real.log (r.psi (idxY t m y)) - logq (Acoef r (idxY t m y)) (BAt r t m (idxY t m y)) y (t (idxY t m y + 1)))
  have hs2 := sum_by_epoch (ys.filter fun y => isRhoTip r t m y = false) (idxY t m) m
    (fun k y => Real.log (r.psi k) - logq (Acoef r k) (BAt r t m k) y (t (k + 1))) hys'
  simp only [List.filter_filter] at hs2
  have hfil : ∀ k, (ys.filter fun a => decide (idxY t m a = k) && decide (isRhoTip r t m a = false))
      = ys.filter fun y => decide (idxY t m y = k ∧ isRhoTip r t m y = false) := by
    intro k; apply List.filter_congr; intro y _; simp
  simp only [hfil] at hs2
  rw [hb, hs1, hs2]
  -- crossing and rho terms as Finset sums
  rw [sum_range_map, sum_range_map]
  unfold epochTerm
  simp only [Finset.sum_add_distrib]
  -- entering lineages: k = 0 apart
  have hent : ∑ k ∈ Finset.range m, (if k = 0 then 1 else (nCross t k xs ys : ℝ))
        * logq (Acoef r k) (BAt r t m k) (t k) (t (k + 1))
      = logq (Acoef r 0) (BAt r t m 0) 0 (t 1)
        + ∑ k ∈ Finset.range m', (nCross t (k + 1) xs ys : ℝ)
            * logq (Acoef r (k + 1)) (BAt r t m (k + 1)) (t (k + 1)) (t (k + 1 + 1)) := by
    rw [hm, Finset.sum_range_succ']
    simp [h0, add_comm]
  have hleave : ∑ k ∈ Finset.range m, (if k + 1 < m then (nCross t (k + 1) xs ys : ℝ) * Real.log (1 - r.rho k) else 0)
      = ∑ k ∈ Finset.range m', (nCross t (k + 1) xs ys : ℝ) * Real.log (1 - r.rho k) := by
    rw [hm, Finset.sum_range_succ]
    simp only [Nat.lt_irrefl, ↓reduceIte, add_zero]
    apply Finset.sum_congr rfl
    intro k hk
    have : k + 1 < m' + 1 := by simp at hk; omega
    simp [this]
  rw [hent, hleave]
  have hm1 : m - 1 = m' := by omega
  rw [hm1]
  simp only [ofInt_real, ofNat_real, mul_add, Finset.sum_add_distrib]
  cases surv <;> simp <;> ring

end TT.C09
