import TTProofs.Lemmas.C08_Spec
import Mathlib.Data.List.GetD
/-!
# C08 — scaling law of the Kingman density (spec level)

Scaling all times and the population-size function by `c > 0` shifts the log density by
`-(number of coalescent events) · log c`.
-/
namespace TT.C08
open MeasureTheory intervalIntegral

theorem countP_scale (c : ℝ) (hc : 0 < c) (l : List ℝ) (x : ℝ) :
    (l.map (c * ·)).countP (fun s => decide (s < c * x)) = l.countP (fun s => decide (s < x)) := by
  rw [List.countP_map]
  congr 1
  funext s
  simp [Function.comp, mul_lt_mul_iff_right₀ hc]

theorem lineagesAt_scale (c : ℝ) (hc : 0 < c) (samp coal : List ℝ) (x : ℝ) :
    lineagesAt (samp.map (c * ·)) (coal.map (c * ·)) (c * x) = lineagesAt samp coal x := by
  unfold lineagesAt
  rw [countP_scale c hc, countP_scale c hc]

/-- **scaling law, spec level**: if `N'(c x) = c N(x)` then the Kingman density of the scaled genealogy
under `N'` is that of the original under `N`, minus `#coal · log c`. -/
theorem kingman_scaling (samp coal : List ℝ) (N N' : ℝ → ℝ) (c : ℝ) (hc : 0 < c)
    (hN' : ∀ x, N' (c * x) = c * N x) (hpos : ∀ t ∈ coal, N t ≠ 0) (a b : ℝ) :
    kingman (samp.map (c * ·)) (coal.map (c * ·)) N' (c * a) (c * b)
      = kingman samp coal N a b - (coal.length : ℝ) * Real.log c := by
  unfold kingman
  have hI : ∫ t in c * a..c * b,
      (choose2 (lineagesAt (samp.map (c * ·)) (coal.map (c * ·)) t) : ℝ) / N' t
      = ∫ t in a..b, (choose2 (lineagesAt samp coal t) : ℝ) / N t := by
    rw [← intervalIntegral.smul_integral_comp_mul_left (f := fun t =>
      (choose2 (lineagesAt (samp.map (c * ·)) (coal.map (c * ·)) t) : ℝ) / N' t) c]
    have : (fun x => (choose2 (lineagesAt (samp.map (c * ·)) (coal.map (c * ·)) (c * x)) : ℝ) / N' (c * x))
        = fun x => c⁻¹ * ((choose2 (lineagesAt samp coal x) : ℝ) / N x) := by
      funext x
      rw [lineagesAt_scale c hc, hN', div_eq_mul_inv, mul_inv, div_eq_mul_inv]
      ring
    rw [this, intervalIntegral.integral_const_mul, smul_eq_mul, ← mul_assoc, mul_inv_cancel₀ hc.ne', one_mul]
  have hL : ((coal.map (c * ·)).map (fun t => Real.log (N' t))).sum
      = (coal.map (fun t => Real.log (N t))).sum + (coal.length : ℝ) * Real.log c := by
    rw [List.map_map]
    clear hI
    induction coal with
    | nil => simp
    | cons x l ih =>
      have hx : N x ≠ 0 := hpos x (List.mem_cons_self)
      simp only [List.map_cons, List.sum_cons, List.length_cons, Function.comp]
      rw [ih (fun t ht => hpos t (List.mem_cons_of_mem _ ht)), hN', Real.log_mul hc.ne' hx]
      push_cast
      ring
  rw [hI, hL]
  ring

theorem stepN_scale (c : ℝ) (hc : 0 < c) (θ breaks : List ℝ) (x : ℝ) :
    stepN (θ.map (c * ·)) (breaks.map (c * ·)) (c * x) = c * stepN θ breaks x := by
  unfold stepN
  rw [countP_scale c hc]
  have := List.getD_map (l := θ) (d := (0 : ℝ)) (n := breaks.countP (fun g => decide (g < x))) (c * ·)
  simpa using this

end TT.C08
