import TTProofs.Lemmas.C09_SplitEvents
/-! C09: epoch indices and rho-tips of the events on the refined grid. -/
open TT TT.C09
namespace TT.C09
namespace SplitAt
variable {r r' : Rates ℝ} {t t' : Nat → ℝ} {m i : Nat} {s : ℝ}

theorem t'_zero (h : SplitAt r r' t t' m i s) : t' 0 = t 0 := h.t_lo 0 (Nat.zero_le i)
theorem t'_last (h : SplitAt r r' t t' m i s) : t' (m + 1) = t m := h.t_hi m (by have := h.hi; omega)

theorem events' (h : SplitAt r r' t t' m i s) {xs ys : List ℝ} (hev : Events t m xs ys) : Events t' (m + 1) xs ys := by
  unfold Events
  rw [h.t'_zero, h.t'_last]; exact hev

section X
variable (h : SplitAt r r' t t' m i s) (x : ℝ) (hx0 : t 0 ≤ x) (hxm : x < t m)
include h hx0 hxm

theorem fx_lo (k : Nat) (hk : k < i) : idxX t' (m + 1) x = k ↔ idxX t m x = k := by
  have hi := h.hi
  rw [idxX_iff h.grid' x (by rw [h.t'_zero]; exact hx0) (by rw [h.t'_last]; exact hxm) k (by omega),
    idxX_iff h.grid x hx0 hxm k (by omega), h.t_lo k (by omega), h.t_lo (k + 1) (by omega)]

theorem fx_hi (k : Nat) (hk : i < k) (hkm : k < m) : idxX t' (m + 1) x = k + 1 ↔ idxX t m x = k := by
  rw [idxX_iff h.grid' x (by rw [h.t'_zero]; exact hx0) (by rw [h.t'_last]; exact hxm) (k + 1) (by omega),
    idxX_iff h.grid x hx0 hxm k hkm, h.t_hi k (by omega), h.t_hi (k + 1) (by omega)]

theorem fx_cut1 : idxX t' (m + 1) x = i ↔ (idxX t m x = i ∧ x < s) := by
  have hi := h.hi
  rw [idxX_iff h.grid' x (by rw [h.t'_zero]; exact hx0) (by rw [h.t'_last]; exact hxm) i (by omega),
    idxX_iff h.grid x hx0 hxm i hi, h.t_lo i le_rfl, h.t_mid]
  have := h.s_lt
  constructor
  · rintro ⟨a, b⟩; exact ⟨⟨a, by linarith⟩, b⟩
  · rintro ⟨⟨a, _⟩, c⟩; exact ⟨a, c⟩

theorem fx_cut2 : idxX t' (m + 1) x = i + 1 ↔ (idxX t m x = i ∧ ¬ x < s) := by
  have hi := h.hi
  rw [idxX_iff h.grid' x (by rw [h.t'_zero]; exact hx0) (by rw [h.t'_last]; exact hxm) (i + 1) (by omega),
    idxX_iff h.grid x hx0 hxm i hi, h.t_mid, h.t_hi (i + 1) le_rfl]
  have := h.s_gt
  constructor
  · rintro ⟨a, b⟩; exact ⟨⟨by linarith, b⟩, not_lt.mpr a⟩
  · rintro ⟨⟨_, b⟩, c⟩; exact ⟨not_lt.mp c, b⟩

end X

section Y
variable (h : SplitAt r r' t t' m i s) (y : ℝ) (hy0 : t 0 < y) (hym : y ≤ t m)
include h hy0 hym

theorem fy_lo (k : Nat) (hk : k < i) : idxY t' (m + 1) y = k ↔ idxY t m y = k := by
  have hi := h.hi
  rw [idxY_iff h.grid' y (by rw [h.t'_zero]; exact hy0) (by rw [h.t'_last]; exact hym) k (by omega),
    idxY_iff h.grid y hy0 hym k (by omega), h.t_lo k (by omega), h.t_lo (k + 1) (by omega)]

theorem fy_hi (k : Nat) (hk : i < k) (hkm : k < m) : idxY t' (m + 1) y = k + 1 ↔ idxY t m y = k := by
  rw [idxY_iff h.grid' y (by rw [h.t'_zero]; exact hy0) (by rw [h.t'_last]; exact hym) (k + 1) (by omega),
    idxY_iff h.grid y hy0 hym k hkm, h.t_hi k (by omega), h.t_hi (k + 1) (by omega)]

theorem fy_cut1 : idxY t' (m + 1) y = i ↔ (idxY t m y = i ∧ y ≤ s) := by
  have hi := h.hi
  rw [idxY_iff h.grid' y (by rw [h.t'_zero]; exact hy0) (by rw [h.t'_last]; exact hym) i (by omega),
    idxY_iff h.grid y hy0 hym i hi, h.t_lo i le_rfl, h.t_mid]
  have := h.s_lt
  constructor
  · rintro ⟨a, b⟩; exact ⟨⟨a, by linarith⟩, b⟩
  · rintro ⟨⟨a, _⟩, c⟩; exact ⟨a, c⟩

theorem fy_cut2 : idxY t' (m + 1) y = i + 1 ↔ (idxY t m y = i ∧ ¬ y ≤ s) := by
  have hi := h.hi
  rw [idxY_iff h.grid' y (by rw [h.t'_zero]; exact hy0) (by rw [h.t'_last]; exact hym) (i + 1) (by omega),
    idxY_iff h.grid y hy0 hym i hi, h.t_mid, h.t_hi (i + 1) le_rfl]
  have := h.s_gt
  constructor
  · rintro ⟨a, b⟩; exact ⟨⟨by linarith, b⟩, not_le.mpr a⟩
  · rintro ⟨⟨_, b⟩, c⟩; exact ⟨not_le.mp c, b⟩

/-- a tip is `rho`-sampled on the refined grid iff it is on the coarse one (the cut carries `rho = 0`) -/
theorem rho_same : isRhoTip r' t' (m + 1) y = isRhoTip r t m y := by
  have hi := h.hi
  have h1 := isRhoTip_iff (r := r') h.grid' y (by rw [h.t'_zero]; exact hy0) (by rw [h.t'_last]; exact hym)
  have h2 := isRhoTip_iff (r := r) h.grid y hy0 hym
  have : (∃ k, k < m + 1 ∧ y = t' (k + 1) ∧ 0 < r'.rho k) ↔ (∃ k, k < m ∧ y = t (k + 1) ∧ 0 < r.rho k) := by
    constructor
    · rintro ⟨k, hk, e, hr⟩
      rcases Nat.lt_trichotomy k i with hki | hki | hki
      · exact ⟨k, by omega, by rw [e, h.t_lo (k + 1) (by omega)], by rw [← h.rho_lo k hki]; exact hr⟩
      · subst hki; rw [h.rho_mid] at hr; exact absurd hr (lt_irrefl 0)
      · obtain ⟨k0, rfl⟩ : ∃ k0, k = k0 + 1 := ⟨k - 1, by omega⟩
        exact ⟨k0, by omega, by rw [e, h.t_hi (k0 + 1) (by omega)], by rw [← h.rho_hi k0 (by omega)]; exact hr⟩
    · rintro ⟨k, hk, e, hr⟩
      by_cases hki : k < i
      · exact ⟨k, by omega, by rw [e, h.t_lo (k + 1) (by omega)], by rw [h.rho_lo k hki]; exact hr⟩
      · exact ⟨k + 1, by omega, by rw [e, h.t_hi (k + 1) (by omega)], by rw [h.rho_hi k (by omega)]; exact hr⟩
  have hiff : isRhoTip r' t' (m + 1) y = true ↔ isRhoTip r t m y = true := h1.trans (this.trans h2.symm)
  cases ha : isRhoTip r' t' (m + 1) y <;> cases hb : isRhoTip r t m y
  · rfl
  · exact absurd (hiff.mpr hb) (by simp [ha])
  · exact absurd (hiff.mp ha) (by simp [hb])
  · rfl

end Y
end SplitAt
end TT.C09
