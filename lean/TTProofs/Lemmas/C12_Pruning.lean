import TTModel.C12_Pruning
import TTProofs.Lemmas.Sums
import Mathlib.Analysis.Calculus.Deriv.Mul
import Mathlib.Analysis.Calculus.Deriv.Add
import Mathlib.Data.Real.Basic
import Mathlib.Tactic.Ring
/-!
# C12 — the pruning recursion is affine in each single edge matrix

For a tree whose branches are pairwise distinct (`(edges t).Nodup`):
* the partial likelihoods do not depend on the matrix of a branch that is not below the node;
* they are affine in the matrix of any single branch (`a + b = 1`);
* consequently the derivative with respect to a branch length is the pruning value with that
  branch's matrix replaced by `dP/dt`.
-/
namespace TT.C12
open TT.C01

section algebra
variable {R : Type} [CommSemiring R] {S : Nat}

theorem matVec_eq_sum (m : Fin S → Fin S → R) (v : Fin S → R) (s : Fin S) :
    matVec m v s = ∑ j, m s j * v j := by
  unfold matVec; rw [TT.sumFin_eq_sum]

theorem partialT_indep (tip : Nat → Fin S → R) (mat : Nat → Fin S → Fin S → R) (e : Nat)
    (A : Fin S → Fin S → R) : ∀ t : ITree, e ∉ edges t →
      partialT tip (Function.update mat e A) t = partialT tip mat t
  | .leaf _, _ => rfl
  | .node _ l r, he => by
    simp only [edges, List.mem_cons, List.mem_append, not_or] at he
    obtain ⟨hl, hr, hel, her⟩ := he
    funext s
    simp only [partialT, partialT_indep tip mat e A l hel, partialT_indep tip mat e A r her,
      Function.update_of_ne (Ne.symm hl), Function.update_of_ne (Ne.symm hr)]

theorem matVec_affine_mat (A B : Fin S → Fin S → R) (a b : R) (v : Fin S → R) (s : Fin S) :
    matVec (fun i j => a * A i j + b * B i j) v s = a * matVec A v s + b * matVec B v s := by
  simp only [matVec_eq_sum, Finset.mul_sum, ← Finset.sum_add_distrib]
  refine Finset.sum_congr rfl fun j _ => ?_
  ring

theorem matVec_affine_vec (M : Fin S → Fin S → R) (a b : R) (u v : Fin S → R) (s : Fin S) :
    matVec M (fun j => a * u j + b * v j) s = a * matVec M u s + b * matVec M v s := by
  simp only [matVec_eq_sum, Finset.mul_sum, ← Finset.sum_add_distrib]
  refine Finset.sum_congr rfl fun j _ => ?_
  ring

/-- **The partial likelihoods are affine in each single edge matrix.** -/
theorem partialT_affine (tip : Nat → Fin S → R) (mat : Nat → Fin S → Fin S → R) (e : Nat)
    (A B : Fin S → Fin S → R) (a b : R) (hab : a + b = 1) :
    ∀ t : ITree, (edges t).Nodup → ∀ s,
      partialT tip (Function.update mat e (fun i j => a * A i j + b * B i j)) t s =
        a * partialT tip (Function.update mat e A) t s + b * partialT tip (Function.update mat e B) t s
  | .leaf i, _, s => by
    simp only [partialT]
    rw [← add_mul, hab, one_mul]
  | .node _ l r, hnd, s => by
    simp only [edges, List.nodup_cons, List.mem_cons, List.mem_append, not_or, List.nodup_append] at hnd
    obtain ⟨⟨hlr, hll, hlr'⟩, ⟨hrl, hrr⟩, hndl, hndr, hdisj⟩ := hnd
    have ihl := partialT_affine tip mat e A B a b hab l hndl
    have ihr := partialT_affine tip mat e A B a b hab r hndr
    simp only [partialT]
    by_cases h1 : e = l.idx
    · -- the branch above the left child
      have her : e ≠ r.idx := h1 ▸ hlr
      have hel : e ∉ edges l := h1 ▸ hll
      have her' : e ∉ edges r := h1 ▸ hlr'
      simp only [partialT_indep tip mat e _ l hel, partialT_indep tip mat e _ r her',
        Function.update_of_ne (Ne.symm her)]
      rw [← h1]
      simp only [Function.update_self]
      rw [matVec_affine_mat]
      ring
    · by_cases h2 : e = r.idx
      · have hel : e ∉ edges l := h2 ▸ hrl
        have her' : e ∉ edges r := h2 ▸ hrr
        simp only [partialT_indep tip mat e _ l hel, partialT_indep tip mat e _ r her',
          Function.update_of_ne (Ne.symm h1)]
        rw [← h2]
        simp only [Function.update_self]
        rw [matVec_affine_mat]
        ring
      · simp only [Function.update_of_ne (Ne.symm h1), Function.update_of_ne (Ne.symm h2)]
        by_cases h3 : e ∈ edges l
        · have her' : e ∉ edges r := fun h => hdisj e h3 e h rfl
          simp only [partialT_indep tip mat e _ r her']
          have : partialT tip (Function.update mat e fun i j => a * A i j + b * B i j) l
              = fun j => a * partialT tip (Function.update mat e A) l j + b * partialT tip (Function.update mat e B) l j :=
            funext ihl
          rw [this, matVec_affine_vec]
          ring
        · simp only [partialT_indep tip mat e _ l h3]
          by_cases h4 : e ∈ edges r
          · have : partialT tip (Function.update mat e fun i j => a * A i j + b * B i j) r
                = fun j => a * partialT tip (Function.update mat e A) r j + b * partialT tip (Function.update mat e B) r j :=
              funext ihr
            rw [this, matVec_affine_vec]
            ring
          · simp only [partialT_indep tip mat e _ r h4]
            rw [← add_mul, hab, one_mul]

/-- **The site likelihood is affine in each single edge matrix** (multi-affine in the edge matrices). -/
theorem siteLikT_affine (π : Fin S → R) (tip : Nat → Fin S → R) (mat : Nat → Fin S → Fin S → R) (e : Nat)
    (A B : Fin S → Fin S → R) (a b : R) (hab : a + b = 1) (t : ITree) (hnd : (edges t).Nodup) :
    siteLikT π tip (Function.update mat e (fun i j => a * A i j + b * B i j)) t =
      a * siteLikT π tip (Function.update mat e A) t + b * siteLikT π tip (Function.update mat e B) t := by
  simp only [siteLikT, TT.sumFin_eq_sum, Finset.mul_sum, ← Finset.sum_add_distrib]
  refine Finset.sum_congr rfl fun s _ => ?_
  rw [partialT_affine tip mat e A B a b hab t hnd s]
  ring

end algebra

section deriv
variable {S : Nat}

theorem hasDerivAt_matVec_mat (P : ℝ → Fin S → Fin S → ℝ) (P' : Fin S → Fin S → ℝ) (τ₀ : ℝ)
    (hP : ∀ i j, HasDerivAt (fun τ => P τ i j) (P' i j) τ₀) (v : Fin S → ℝ) (s : Fin S) :
    HasDerivAt (fun τ => matVec (P τ) v s) (matVec P' v s) τ₀ := by
  simp only [matVec_eq_sum]
  exact HasDerivAt.fun_sum fun j _ => (hP s j).mul_const (v j)

theorem hasDerivAt_matVec_vec (M : Fin S → Fin S → ℝ) (p : ℝ → Fin S → ℝ) (p' : Fin S → ℝ) (τ₀ : ℝ)
    (hp : ∀ j, HasDerivAt (fun τ => p τ j) (p' j) τ₀) (s : Fin S) :
    HasDerivAt (fun τ => matVec M (p τ) s) (matVec M p' s) τ₀ := by
  simp only [matVec_eq_sum]
  exact HasDerivAt.fun_sum fun j _ => (hp j).const_mul (M s j)

/-- **Derivative of the partial likelihoods with respect to a branch length**: if the matrix of the
branch `e` depends on `τ` with entrywise derivative `P'`, the derivative of the pruning recursion is
the pruning recursion with that branch's matrix REPLACED by `P'` (all other matrices fixed). -/
theorem hasDerivAt_partialT_branch (tip : Nat → Fin S → ℝ) (mat : Nat → Fin S → Fin S → ℝ) (e : Nat)
    (P : ℝ → Fin S → Fin S → ℝ) (P' : Fin S → Fin S → ℝ) (τ₀ : ℝ)
    (hP : ∀ i j, HasDerivAt (fun τ => P τ i j) (P' i j) τ₀) :
    ∀ t : ITree, (edges t).Nodup → e ∈ edges t → ∀ s,
      HasDerivAt (fun τ => partialT tip (Function.update mat e (P τ)) t s)
        (partialT tip (Function.update mat e P') t s) τ₀
  | .leaf _, _, he, _ => by simp [edges] at he
  | .node _ l r, hnd, he, s => by
    simp only [edges, List.nodup_cons, List.mem_cons, List.mem_append, not_or, List.nodup_append] at hnd
    obtain ⟨⟨hlr, hll, hlr'⟩, ⟨hrl, hrr⟩, hndl, hndr, hdisj⟩ := hnd
    simp only [partialT]
    by_cases h1 : e = l.idx
    · have her : e ≠ r.idx := h1 ▸ hlr
      have hel : e ∉ edges l := h1 ▸ hll
      have her' : e ∉ edges r := h1 ▸ hlr'
      simp only [partialT_indep tip mat e _ l hel, partialT_indep tip mat e _ r her',
        Function.update_of_ne (Ne.symm her)]
      rw [← h1]
      simp only [Function.update_self]
      exact (hasDerivAt_matVec_mat P P' τ₀ hP _ s).mul_const _
    · by_cases h2 : e = r.idx
      · have hel : e ∉ edges l := h2 ▸ hrl
        have her' : e ∉ edges r := h2 ▸ hrr
        simp only [partialT_indep tip mat e _ l hel, partialT_indep tip mat e _ r her',
          Function.update_of_ne (Ne.symm h1)]
        rw [← h2]
        simp only [Function.update_self]
        exact (hasDerivAt_matVec_mat P P' τ₀ hP _ s).const_mul _
      · simp only [Function.update_of_ne (Ne.symm h1), Function.update_of_ne (Ne.symm h2)]
        simp only [edges, List.mem_cons, List.mem_append] at he
        rcases he with he | he | he | he
        · exact absurd he h1
        · exact absurd he h2
        · have her' : e ∉ edges r := fun h => hdisj e he e h rfl
          simp only [partialT_indep tip mat e _ r her']
          have ih := hasDerivAt_partialT_branch tip mat e P P' τ₀ hP l hndl he
          exact (hasDerivAt_matVec_vec _ _ _ τ₀ ih s).mul_const _
        · have hel : e ∉ edges l := fun h => hdisj e h e he rfl
          simp only [partialT_indep tip mat e _ l hel]
          have ih := hasDerivAt_partialT_branch tip mat e P P' τ₀ hP r hndr he
          exact (hasDerivAt_matVec_vec _ _ _ τ₀ ih s).const_mul _

theorem hasDerivAt_siteLikT_branch (π : Fin S → ℝ) (tip : Nat → Fin S → ℝ) (mat : Nat → Fin S → Fin S → ℝ)
    (e : Nat) (P : ℝ → Fin S → Fin S → ℝ) (P' : Fin S → Fin S → ℝ) (τ₀ : ℝ)
    (hP : ∀ i j, HasDerivAt (fun τ => P τ i j) (P' i j) τ₀) (t : ITree) (hnd : (edges t).Nodup)
    (he : e ∈ edges t) :
    HasDerivAt (fun τ => siteLikT π tip (Function.update mat e (P τ)) t)
      (siteLikT π tip (Function.update mat e P') t) τ₀ := by
  simp only [siteLikT, TT.sumFin_eq_sum]
  exact HasDerivAt.fun_sum fun s _ =>
    (hasDerivAt_partialT_branch tip mat e P P' τ₀ hP t hnd he s).const_mul (π s)

end deriv

end TT.C12
