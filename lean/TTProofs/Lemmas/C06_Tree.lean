import TTProofs.Lemmas.C06_Folds
import Mathlib.Data.List.Perm.Subperm
/-!
Structural facts about the traversals of the C06 model (`BTree.pre`, `BTree.post`, post-order
numbering of the internal nodes), for every tree: the side conditions of the loop lemmas in
`C06_Folds.lean`, and the position of every node in the child-sorted pre-order.
-/
namespace TT.C06
open BTree

/-- the taxa at the tips are distinct and smaller than the first internal number -/
def TipsOK (k : Nat) (t : BTree) : Prop := t.tips.Nodup ∧ ∀ x ∈ t.tips, x < k

theorem tips_length (t : BTree) : t.tips.length = t.ints + 1 := by
  induction t with
  | leaf _ => rfl
  | node l r ihl ihr => simp only [BTree.tips, BTree.ints, List.length_append, ihl, ihr]; omega

theorem TipsOK.left {k l r} (h : TipsOK k (.node l r)) : TipsOK k l :=
  ⟨(List.nodup_append.mp h.1).1, fun x hx => h.2 x (by simp [BTree.tips, hx])⟩
theorem TipsOK.right {k l r} (h : TipsOK k (.node l r)) : TipsOK (k + l.ints) r :=
  ⟨(List.nodup_append.mp h.1).2.1, fun x hx => by
    have := h.2 x (by simp [BTree.tips, hx]); omega⟩
theorem TipsOK.disj {k l r} (h : TipsOK k (.node l r)) : ∀ x ∈ l.tips, ∀ y ∈ r.tips, x ≠ y :=
  (List.nodup_append.mp h.1).2.2
theorem TipsOK.mono {k k' t} (h : TipsOK k t) (hk : k ≤ k') : TipsOK k' t :=
  ⟨h.1, fun x hx => Nat.lt_of_lt_of_le (h.2 x hx) hk⟩

/-- `x` is the index of a node of the subtree `t` whose internal numbering starts at `k` -/
def IsNodeOf (k : Nat) (t : BTree) (x : Nat) : Prop := x ∈ t.tips ∨ (k ≤ x ∧ x < k + t.ints)

theorem rootIdx_isNode (k : Nat) (t : BTree) : IsNodeOf k t (t.rootIdx k) := by
  cases t with
  | leaf x => left; simp [BTree.rootIdx, BTree.tips]
  | node l r => right; simp only [BTree.rootIdx, BTree.ints]; omega

theorem IsNodeOf.inl {k l r x} (h : IsNodeOf k l x) : IsNodeOf k (.node l r) x := by
  rcases h with h | h
  · left; simp [BTree.tips, h]
  · right; simp only [BTree.ints]; omega
theorem IsNodeOf.inr {k l r x} (h : IsNodeOf (k + l.ints) r x) : IsNodeOf k (.node l r) x := by
  rcases h with h | h
  · left; simp [BTree.tips, h]
  · right; simp only [BTree.ints]; omega
theorem IsNodeOf.lt {k t x} (ht : TipsOK k t) (h : IsNodeOf k t x) : x < k + t.ints := by
  rcases h with h | h
  · have := ht.2 x h; omega
  · exact h.2
theorem cross_ne {k l r x y} (h : TipsOK k (.node l r)) (hx : IsNodeOf k l x)
    (hy : IsNodeOf (k + l.ints) r y) : x ≠ y := by
  rcases hx with hx | hx <;> rcases hy with hy | hy
  · exact h.disj x hx y hy
  · have := h.left.2 x hx; omega
  · have := h.right.2 y hy; have := h.2 y (by simp [BTree.tips, hy]); omega
  · omega

theorem rootIdx_succ {k : Nat} {t : BTree} (h : 0 < t.ints) : t.rootIdx k + 1 = k + t.ints := by
  cases t with
  | leaf x => simp [BTree.ints] at h
  | node l r => simp only [BTree.rootIdx, BTree.ints]; omega

/-! ### pre-order pairs -/

theorem pre_mem {k : Nat} {t : BTree} (h : TipsOK k t) :
    ∀ a ∈ t.pre k, k ≤ a.1 ∧ a.1 < k + t.ints ∧ IsNodeOf k t a.2 ∧ a.2 < a.1 := by
  induction t generalizing k with
  | leaf x => intro a ha; simp [BTree.pre] at ha
  | node l r ihl ihr =>
    intro a ha
    simp only [BTree.pre, List.cons_append, List.mem_cons, List.mem_append] at ha
    have hl := IsNodeOf.lt h.left (rootIdx_isNode k l)
    have hr := IsNodeOf.lt h.right (rootIdx_isNode (k + l.ints) r)
    rcases ha with rfl | ha | rfl | ha
    · refine ⟨by omega, by simp only [BTree.ints]; omega, (rootIdx_isNode k l).inl, by simp only; omega⟩
    · obtain ⟨h1, h2, h3, h4⟩ := ihl h.left a ha
      exact ⟨h1, by simp only [BTree.ints]; omega, h3.inl, h4⟩
    · refine ⟨by omega, by simp only [BTree.ints]; omega, (rootIdx_isNode _ r).inr, by simp only; omega⟩
    · obtain ⟨h1, h2, h3, h4⟩ := ihr h.right a ha
      exact ⟨by omega, by simp only [BTree.ints]; omega, h3.inr, h4⟩

theorem pre_pairsOK {k : Nat} {t : BTree} (h : TipsOK k t) : PairsOK (t.pre k) := by
  refine ⟨?_, fun a ha => by have := (pre_mem h a ha).2.2.2; omega⟩
  induction t generalizing k with
  | leaf x => simp [BTree.pre]
  | node l r ihl ihr =>
    have hl := IsNodeOf.lt h.left (rootIdx_isNode k l)
    have hr := IsNodeOf.lt h.right (rootIdx_isNode (k + l.ints) r)
    have ml := pre_mem h.left
    have mr := pre_mem h.right
    simp only [BTree.pre, List.cons_append]
    rw [List.pairwise_cons, List.pairwise_append, List.pairwise_cons]
    refine ⟨?_, ihl h.left, ⟨?_, ihr h.right⟩, ?_⟩
    · -- head (me, root l) against everything later
      intro b hb
      simp only [List.mem_append, List.mem_cons] at hb
      rcases hb with hb | rfl | hb
      · obtain ⟨h1, h2, _, h4⟩ := ml b hb
        have : 0 < l.ints := by omega
        have := rootIdx_succ (k := k) this
        exact ⟨by simp only; omega, by simp only; omega⟩
      · exact ⟨cross_ne h (rootIdx_isNode k l) (rootIdx_isNode _ r), by simp only; omega⟩
      · obtain ⟨h1, h2, h3, h4⟩ := mr b hb
        exact ⟨cross_ne h (rootIdx_isNode k l) h3, by simp only; omega⟩
    · -- (me, root r) against the pairs of r
      intro b hb
      obtain ⟨h1, h2, _, h4⟩ := mr b hb
      have : 0 < r.ints := by omega
      have := rootIdx_succ (k := k + l.ints) this
      exact ⟨by simp only; omega, by simp only; omega⟩
    · -- pairs of l against (me, root r) and the pairs of r
      intro a ha b hb
      obtain ⟨a1, a2, a3, a4⟩ := ml a ha
      have ha1 : IsNodeOf k l a.1 := Or.inr ⟨a1, a2⟩
      simp only [List.mem_cons] at hb
      rcases hb with rfl | hb
      · exact ⟨cross_ne h a3 (rootIdx_isNode _ r), cross_ne h ha1 (rootIdx_isNode _ r)⟩
      · obtain ⟨_, _, b3, _⟩ := mr b hb
        exact ⟨cross_ne h a3 b3, cross_ne h ha1 b3⟩

theorem pre_reach (k : Nat) (t : BTree) (K : Nat → Prop) (hK : K (t.rootIdx k)) :
    Reach K (t.pre k) := by
  induction t generalizing k K with
  | leaf x => trivial
  | node l r ihl ihr =>
    simp only [BTree.pre, List.cons_append]
    refine ⟨hK, Reach.append (ihl k _ (Or.inl rfl)) ⟨Or.inr hK, ihr _ _ (Or.inl rfl)⟩⟩

/-! ### post-order triples -/

theorem post_fst (k : Nat) (t : BTree) : (t.post k).map (·.1) = List.range' k t.ints := by
  induction t generalizing k with
  | leaf x => rfl
  | node l r ihl ihr =>
    simp only [BTree.post, List.map_append, ihl, ihr, List.map_cons, List.map_nil, BTree.ints]
    rw [List.range'_append_1, ← List.range'_append_1 (s := k) (m := l.ints + r.ints) (n := 1)]
    simp [Nat.add_assoc]

theorem post_mem {k : Nat} {t : BTree} (h : TipsOK k t) :
    ∀ a ∈ t.post k, k ≤ a.1 ∧ a.1 < k + t.ints ∧ a.2.1 < a.1 ∧ a.2.2 < a.1 := by
  induction t generalizing k with
  | leaf x => intro a ha; simp [BTree.post] at ha
  | node l r ihl ihr =>
    intro a ha
    simp only [BTree.post, List.mem_append, List.mem_singleton] at ha
    have hl := IsNodeOf.lt h.left (rootIdx_isNode k l)
    have hr := IsNodeOf.lt h.right (rootIdx_isNode (k + l.ints) r)
    rcases ha with (ha | ha) | rfl
    · obtain ⟨h1, h2, h3⟩ := ihl h.left a ha
      exact ⟨h1, by simp only [BTree.ints]; omega, h3⟩
    · obtain ⟨h1, h2, h3⟩ := ihr h.right a ha
      exact ⟨by omega, by simp only [BTree.ints]; omega, h3⟩
    · exact ⟨by simp only; omega, by simp only [BTree.ints]; omega, by simp only; omega, by simp only; omega⟩

theorem post_triplesOK {n k : Nat} {t : BTree} (hn : n ≤ k) (h : TipsOK k t) :
    TriplesOK n (t.post k) := by
  refine ⟨?_, fun a ha => ?_⟩
  · have := List.pairwise_lt_range' (s := k) (n := t.ints)
    rw [← post_fst, List.pairwise_map] at this
    exact this
  · obtain ⟨h1, _, h3, h4⟩ := post_mem h a ha
    exact ⟨by omega, h3, h4⟩

/-- every `(parent, child)` of the pre-order is a `(node, left, right)` of the post-order -/
theorem pre_to_post (k : Nat) (t : BTree) :
    ∀ a ∈ t.pre k, ∃ b ∈ t.post k, b.1 = a.1 ∧ (b.2.1 = a.2 ∨ b.2.2 = a.2) := by
  induction t generalizing k with
  | leaf x => intro a ha; simp [BTree.pre] at ha
  | node l r ihl ihr =>
    intro a ha
    simp only [BTree.pre, List.cons_append, List.mem_cons, List.mem_append] at ha
    simp only [BTree.post, List.mem_append, List.mem_singleton]
    rcases ha with rfl | ha | rfl | ha
    · exact ⟨_, Or.inr rfl, rfl, Or.inl rfl⟩
    · obtain ⟨b, hb, h⟩ := ihl k a ha
      exact ⟨b, Or.inl (Or.inl hb), h⟩
    · exact ⟨_, Or.inr rfl, rfl, Or.inr rfl⟩
    · obtain ⟨b, hb, h⟩ := ihr _ a ha
      exact ⟨b, Or.inl (Or.inr hb), h⟩

/-- and conversely both children of every post-order triple appear in the pre-order -/
theorem post_to_pre (k : Nat) (t : BTree) :
    ∀ b ∈ t.post k, (b.1, b.2.1) ∈ t.pre k ∧ (b.1, b.2.2) ∈ t.pre k := by
  induction t generalizing k with
  | leaf x => intro a ha; simp [BTree.post] at ha
  | node l r ihl ihr =>
    intro b hb
    simp only [BTree.post, List.mem_append, List.mem_singleton] at hb
    simp only [BTree.pre, List.cons_append, List.mem_cons, List.mem_append]
    rcases hb with (hb | hb) | rfl
    · exact ⟨Or.inr (Or.inl (ihl k b hb).1), Or.inr (Or.inl (ihl k b hb).2)⟩
    · exact ⟨Or.inr (Or.inr (Or.inr (ihr _ b hb).1)), Or.inr (Or.inr (Or.inr (ihr _ b hb).2))⟩
    · exact ⟨Or.inl rfl, Or.inr (Or.inr (Or.inl rfl))⟩

/-! ### all node indices; the child-sorted pre-order -/

/-- indices of all nodes of a subtree, root first -/
def idx (k : Nat) : BTree → List Nat
  | .leaf x => [x]
  | .node l r => (k + l.ints + r.ints) :: (idx k l ++ idx (k + l.ints) r)

theorem idx_eq (k : Nat) (t : BTree) : idx k t = t.rootIdx k :: (t.pre k).map Prod.snd := by
  induction t generalizing k with
  | leaf x => rfl
  | node l r ihl ihr =>
    simp only [idx, BTree.pre, BTree.rootIdx, List.map_cons, List.map_append, ihl, ihr,
      List.cons_append]

theorem idx_length (k : Nat) (t : BTree) : (idx k t).length = 2 * t.ints + 1 := by
  induction t generalizing k with
  | leaf x => rfl
  | node l r ihl ihr => simp only [idx, List.length_cons, List.length_append, ihl, ihr, BTree.ints]; omega

theorem idx_isNode (k : Nat) (t : BTree) : ∀ x ∈ idx k t, IsNodeOf k t x := by
  induction t generalizing k with
  | leaf x => intro y hy; simp [idx] at hy; left; simp [BTree.tips, hy]
  | node l r ihl ihr =>
    intro y hy
    simp only [idx, List.mem_cons, List.mem_append] at hy
    rcases hy with rfl | hy | hy
    · right; simp only [BTree.ints]; omega
    · exact (ihl k y hy).inl
    · exact (ihr _ y hy).inr

theorem idx_nodup {k : Nat} {t : BTree} (h : TipsOK k t) : (idx k t).Nodup := by
  induction t generalizing k with
  | leaf x => simp [idx]
  | node l r ihl ihr =>
    simp only [idx, List.nodup_cons, List.mem_append, List.nodup_append]
    refine ⟨?_, ihl h.left, ihr h.right, fun x hx y hy => cross_ne h (idx_isNode _ _ x hx) (idx_isNode _ _ y hy)⟩
    rintro (hm | hm)
    · have := IsNodeOf.lt h.left (idx_isNode _ _ _ hm); omega
    · have := IsNodeOf.lt h.right (idx_isNode _ _ _ hm); omega

/-- a tree on `n` taxa: the tips are the taxa `0 … n-1`, each once -/
def WF (n : Nat) (T : BTree) : Prop := T.tips.Nodup ∧ (∀ x ∈ T.tips, x < n) ∧ T.tips.length = n

theorem WF.tipsOK {n T} (h : WF n T) : TipsOK n T := ⟨h.1, h.2.1⟩
theorem WF.ints {n T} (h : WF n T) : T.ints + 1 = n := by rw [← tips_length]; exact h.2.2

/-- the children listed by the pre-order are exactly the non-root nodes `0 … 2n-3` -/
theorem pre_children_perm {n T} (h : WF n T) :
    ((T.pre n).map Prod.snd).Perm (List.range (2 * n - 2)) := by
  have hnd := idx_nodup h.tipsOK
  rw [idx_eq, List.nodup_cons] at hnd
  have hlen : ((T.pre n).map Prod.snd).length = 2 * n - 2 := by
    have := idx_length n T
    rw [idx_eq, List.length_cons] at this
    have := h.ints; omega
  apply (hnd.2.subperm ?_).perm_of_length_le
  · simp [hlen]
  · intro x hx
    have hnode : x ∈ idx n T := by rw [idx_eq]; exact List.mem_cons_of_mem _ hx
    have hlt := IsNodeOf.lt h.tipsOK (idx_isNode _ _ _ hnode)
    have hne : x ≠ T.rootIdx n := fun e => hnd.1 (e ▸ hx)
    have hroot : T.rootIdx n + 1 = n + T.ints ∨ T.ints = 0 := by
      rcases Nat.eq_zero_or_pos T.ints with h0 | h0
      · exact Or.inr h0
      · exact Or.inl (rootIdx_succ h0)
    have := h.ints
    rcases hroot with hr | hr
    · exact List.mem_range.mpr (by omega)
    · -- a single tip: no pre-order pairs
      cases T with
      | leaf y => simp [BTree.pre] at hx
      | node l r => simp [BTree.ints] at hr

theorem sorted_children {n T} (h : WF n T) :
    (indicesSorted n T).map Prod.snd = List.range (2 * n - 2) := by
  have hperm : ((indicesSorted n T).map Prod.snd).Perm (List.range (2 * n - 2)) :=
    ((List.mergeSort_perm _ _).map _).trans (pre_children_perm h)
  have hs : ((indicesSorted n T).map Prod.snd).Pairwise (· ≤ ·) := by
    rw [List.pairwise_map]
    have := List.pairwise_mergeSort (le := fun a b : Nat × Nat => decide (a.2 ≤ b.2))
      (fun a b c hab hbc => by simp only [decide_eq_true_eq] at *; omega)
      (fun a b => by simp only [Bool.or_eq_true, decide_eq_true_eq]; omega) (preorder n T)
    exact this.imp (fun hab => by simpa using hab)
  have hr : (List.range (2 * n - 2)).Pairwise (· ≤ ·) :=
    (List.pairwise_lt_range).imp (fun h => Nat.le_of_lt h)
  exact List.Perm.eq_of_pairwise (fun a b _ _ h1 h2 => Nat.le_antisymm h1 h2) hs hr hperm

theorem sorted_mem {n T} (a : Nat × Nat) : a ∈ indicesSorted n T ↔ a ∈ T.pre n :=
  (List.mergeSort_perm _ _).mem_iff

theorem sorted_length {n T} (h : WF n T) : (indicesSorted n T).length = 2 * n - 2 := by
  have := congrArg List.length (sorted_children h)
  simpa using this

/-- position `i` of the child-sorted pre-order holds the pair whose child is `i` -/
theorem sorted_get {n T} (h : WF n T) {i : Nat} (hi : i < 2 * n - 2) :
    (indicesSorted n T).getD i (0, 0) ∈ T.pre n ∧ ((indicesSorted n T).getD i (0, 0)).2 = i := by
  have hlen := sorted_length h
  have hi' : i < (indicesSorted n T).length := by omega
  rw [List.getD_eq_getElem?_getD, List.getElem?_eq_getElem hi', Option.getD_some]
  refine ⟨(sorted_mem _).mp (List.getElem_mem hi'), ?_⟩
  have := sorted_children h
  have e : ((indicesSorted n T).map Prod.snd)[i]'(by simpa using hi') = (List.range (2 * n - 2))[i]'(by simpa using hi) := by
    simp only [this]
  simpa using e

end TT.C06
