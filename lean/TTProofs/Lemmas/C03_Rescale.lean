import TTModel.C03_Rescale
import TTProofs.Lemmas.Sums
import Mathlib.Algebra.BigOperators.Group.List.Basic
import Mathlib.Algebra.Field.Basic
import Mathlib.Tactic.FieldSimp
import Mathlib.Tactic.Ring
/-!
# C03 helper lemmas: the rescaled / safe passes carry the plain partials up to a per-site factor

`c i n` = product of all scalers applied inside the subtree hanging at slot `i`, at site `n`
(ghost state; the code only keeps the list of scalers).  Invariant `InvA`:
`plain slot i = c i n · scaled slot i` (holds for ANY list of triples);  under `wf` the factor of
the root equals the product of all appended scalers (`InvB`).
-/
namespace TT.C03

variable {F : Type} [Field F] {N K S : Nat}

/-- effective factor of a child: slots below `tipCount` are not read (tip states are) -/
def cEff (Tc : Nat) (c : Nat → Fin N → F) (i : Nat) (n : Fin N) : F := if i < Tc then 1 else c i n

/-- plain slot = factor · scaled slot, at every slot -/
def InvA (P Q : Store F N K S) (c : Nat → Fin N → F) : Prop :=
  ∀ i n k s, (P.get i).get n k s = c i n * (Q.get i).get n k s

theorem contrib_scale (Tc : Nat) (tipc : Nat → Fin N → Fin K → Fin S → F) (M : Mats F K S)
    (ch : Nat) (p q : Part F N K S) (a : F) (n : Fin N) (k : Fin K) (s : Fin S)
    (ha : ch < Tc → a = 1) (h : Tc ≤ ch → ∀ j, p.get n k j = a * q.get n k j) :
    contrib Tc tipc M ch p n k s = a * contrib Tc tipc M ch q n k s := by
  unfold contrib
  by_cases hc : ch < Tc
  · simp [hc, ha hc]
  · simp only [hc, if_false, sumFin_eq_sum]
    rw [Finset.mul_sum]
    refine Finset.sum_congr rfl fun j _ => ?_
    rw [h (Nat.le_of_not_lt hc) j]; ring

theorem combine_get (Tc : Nat) (tipc : Nat → Fin N → Fin K → Fin S → F) (M : Mats F K S)
    (st : Store F N K S) (l r : Nat) (n : Fin N) (k : Fin K) (s : Fin S) :
    (combine Tc tipc M st l r).get n k s =
      contrib Tc tipc M l (st.get l) n k s * contrib Tc tipc M r (st.get r) n k s := by
  simp [combine]

theorem siteLik_scale (freqs : Fin S → F) (props : Fin K → F) (p q : Part F N K S) (a : F) (n : Fin N)
    (h : ∀ k s, p.get n k s = a * q.get n k s) :
    siteLik freqs props p n = a * siteLik freqs props q n := by
  unfold siteLik
  simp only [sumFin_eq_sum]
  rw [Finset.mul_sum]
  refine Finset.sum_congr rfl fun s _ => ?_
  rw [Finset.mul_sum, Finset.mul_sum, Finset.mul_sum]
  refine Finset.sum_congr rfl fun k _ => ?_
  rw [h k s]; ring


/-- the scaler the rescaled loop appends for triple `t` when the list is `st` -/
def stepScaler (scaler : Nat → Fin N → Part F N K S → F) (Tc : Nat)
    (tipc : Nat → Fin N → Fin K → Fin S → F) (M : Mats F K S) (st : Store F N K S) (t : Triple)
    (n : Fin N) : F :=
  scaler t.1 n (combine Tc tipc M st t.2.1 t.2.2)

/-- ghost update of the factors: the new node collects its children's factors and its own scaler -/
def cUpd (Tc : Nat) (c : Nat → Fin N → F) (t : Triple) (sc : Fin N → F) : Nat → Fin N → F :=
  fun i n => if i = t.1 then cEff Tc c t.2.1 n * cEff Tc c t.2.2 n * sc n else c i n

theorem rescStep_st (scaler : Nat → Fin N → Part F N K S → F) (Tc : Nat)
    (tipc : Nat → Fin N → Fin K → Fin S → F) (M : Mats F K S) (rs : RState F N K S) (t : Triple) :
    (rescStep scaler Tc tipc M rs t).st =
      rs.st.set t.1 (divide (combine Tc tipc M rs.st t.2.1 t.2.2)
        (Vector.ofFn (stepScaler scaler Tc tipc M rs.st t))) := rfl

theorem rescStep_scalers (scaler : Nat → Fin N → Part F N K S → F) (Tc : Nat)
    (tipc : Nat → Fin N → Fin K → Fin S → F) (M : Mats F K S) (rs : RState F N K S) (t : Triple) :
    (rescStep scaler Tc tipc M rs t).scalers =
      rs.scalers ++ [Vector.ofFn (stepScaler scaler Tc tipc M rs.st t)] := rfl

theorem ofFn_getFin {β : Type} {n : Nat} (f : Fin n → β) (i : Fin n) : (Vector.ofFn f)[i] = f i := by
  simp

theorem divide_get (raw : Part F N K S) (sc : Fin N → F) (n : Fin N) (k : Fin K) (s : Fin S) :
    (divide raw (Vector.ofFn sc)).get n k s = raw.get n k s / sc n := by
  simp [divide]

/-- one loop iteration keeps `plain = factor · scaled` (no assumption on the triple) -/
theorem invA_step (scaler : Nat → Fin N → Part F N K S → F) (Tc : Nat)
    (tipc : Nat → Fin N → Fin K → Fin S → F) (M : Mats F K S) (P : Store F N K S)
    (rs : RState F N K S) (c : Nat → Fin N → F) (t : Triple)
    (hA : InvA P rs.st c) (hsc : ∀ n, stepScaler scaler Tc tipc M rs.st t n ≠ 0) :
    InvA (peelStep Tc tipc M P t) (rescStep scaler Tc tipc M rs t).st
      (cUpd Tc c t (stepScaler scaler Tc tipc M rs.st t)) := by
  intro i n k s
  rw [rescStep_st]
  unfold peelStep cUpd
  simp only [Store.get_set]
  by_cases hi : i = t.1
  · simp only [hi, if_true, divide_get, combine_get]
    have hl := contrib_scale Tc tipc M t.2.1 (P.get t.2.1) (rs.st.get t.2.1) (cEff Tc c t.2.1 n) n k s
      (fun h => by simp [cEff, h]) (fun h j => by
        have : ¬ t.2.1 < Tc := Nat.not_lt.mpr h
        simp only [cEff, this, if_false]; exact hA _ _ _ _)
    have hr := contrib_scale Tc tipc M t.2.2 (P.get t.2.2) (rs.st.get t.2.2) (cEff Tc c t.2.2 n) n k s
      (fun h => by simp [cEff, h]) (fun h j => by
        have : ¬ t.2.2 < Tc := Nat.not_lt.mpr h
        simp only [cEff, this, if_false]; exact hA _ _ _ _)
    rw [hl, hr]
    have := hsc n
    field_simp
  · simp only [hi, if_false]; exact hA i n k s


/-! ### accounting under `wf`: the root's factor is the product of all appended scalers -/

theorem wfAux_cons {T : Nat} {t : Triple} {ts : List Triple} {live done lf : List Nat}
    (h : wfAux T (t :: ts) live done = some lf) :
    T ≤ t.1 ∧ t.1 ∉ done ∧ childOk T live t.2.1 = true ∧
      childOk T (consume T live t.2.1) t.2.2 = true ∧
      wfAux T ts (t.1 :: consume T (consume T live t.2.1) t.2.2) (t.1 :: done) = some lf := by
  unfold wfAux at h
  split at h
  · rename_i hc
    simp only [Bool.and_eq_true, decide_eq_true_eq, Bool.not_eq_true', List.contains_eq_mem,
      decide_eq_false_iff_not] at hc
    exact ⟨hc.1.1.1, hc.1.1.2, hc.1.2, hc.2, h⟩
  · cases h

theorem consume_subset (T : Nat) (live : List Nat) (ch : Nat) : ∀ i ∈ consume T live ch, i ∈ live := by
  intro i hi
  unfold consume at hi
  split at hi
  · exact hi
  · exact List.mem_of_mem_erase hi

/-- bookkeeping invariant of the ghost factors along a well-formed post-order -/
structure InvB (T : Nat) (c : Nat → Fin N → F) (live done : List Nat) (scalers : List (Vector F N)) :
    Prop where
  one : ∀ i, i ∉ done → ∀ n, c i n = 1
  prod : ∀ n, (live.map fun i => c i n).prod = (scalers.map fun sc => sc[n]).prod
  sub : ∀ i ∈ live, i ∈ done
  ge : ∀ i ∈ done, T ≤ i

theorem consume_prod {T Tc : Nat} (hTc : Tc ≤ T) (c : Nat → Fin N → F) (live done : List Nat) (ch : Nat)
    (hone : ∀ i, i ∉ done → ∀ n, c i n = 1) (hge : ∀ i ∈ done, T ≤ i)
    (hok : childOk T live ch = true) (n : Fin N) :
    (live.map fun i => c i n).prod = cEff Tc c ch n * ((consume T live ch).map fun i => c i n).prod := by
  unfold consume cEff
  by_cases hch : ch < T
  · have hnd : ch ∉ done := fun h => absurd (hge ch h) (Nat.not_le.mpr hch)
    simp only [hch, if_true]
    split
    · simp
    · rw [hone ch hnd n]; simp
  · have hmem : ch ∈ live := by
      unfold childOk at hok
      simp only [Bool.or_eq_true, decide_eq_true_eq, List.contains_eq_mem] at hok
      rcases hok with h | h
      · exact absurd h hch
      · exact h
    have : ¬ ch < Tc := fun h => hch (Nat.lt_of_lt_of_le h hTc)
    simp only [hch, this, if_false]
    exact (List.prod_map_erase (fun i => c i n) hmem).symm

theorem invB_step {T Tc : Nat} (hTc : Tc ≤ T) (c : Nat → Fin N → F) (live done : List Nat)
    (scalers : List (Vector F N)) (t : Triple) (sc : Fin N → F)
    (hB : InvB T c live done scalers) (hT : T ≤ t.1) (hnd : t.1 ∉ done)
    (hl : childOk T live t.2.1 = true) (hr : childOk T (consume T live t.2.1) t.2.2 = true) :
    InvB T (cUpd Tc c t sc) (t.1 :: consume T (consume T live t.2.1) t.2.2) (t.1 :: done)
      (scalers ++ [Vector.ofFn sc]) := by
  refine ⟨?_, ?_, ?_, ?_⟩
  · intro i hi n
    simp only [List.mem_cons, not_or] at hi
    simp [cUpd, hi.1, hB.one i hi.2 n]
  · intro n
    have h1 := consume_prod hTc c live done t.2.1 hB.one hB.ge hl n
    have h2 := consume_prod hTc c (consume T live t.2.1) done t.2.2 hB.one hB.ge hr n
    have hrest : ((consume T (consume T live t.2.1) t.2.2).map fun i => cUpd Tc c t sc i n)
        = ((consume T (consume T live t.2.1) t.2.2).map fun i => c i n) := by
      refine List.map_congr_left fun i hi => ?_
      have hid : i ∈ done := hB.sub i (consume_subset _ _ _ i (consume_subset _ _ _ i hi))
      have : i ≠ t.1 := fun h => hnd (h ▸ hid)
      simp [cUpd, this]
    simp only [List.map_cons, List.prod_cons, List.map_append, List.prod_append, List.map_nil,
      List.prod_nil, mul_one, ofFn_getFin, hrest]
    rw [← hB.prod n, h1, h2]
    simp only [cUpd, if_true]
    ring
  · intro i hi
    simp only [List.mem_cons] at hi ⊢
    rcases hi with h | h
    · exact Or.inl h
    · exact Or.inr (hB.sub i (consume_subset _ _ _ i (consume_subset _ _ _ i h)))
  · intro i hi
    simp only [List.mem_cons] at hi
    rcases hi with h | h
    · exact h ▸ hT
    · exact hB.ge i h

theorem resc_scalers_mem (scaler : Nat → Fin N → Part F N K S → F) (Tc : Nat)
    (tipc : Nat → Fin N → Fin K → Fin S → F) (M : Mats F K S) :
    ∀ (ts : List Triple) (rs : RState F N K S) (sc : Vector F N), sc ∈ rs.scalers →
      sc ∈ (ts.foldl (rescStep scaler Tc tipc M) rs).scalers
  | [], _, _, h => h
  | t :: ts, rs, sc, h => by
      simp only [List.foldl_cons]
      exact resc_scalers_mem scaler Tc tipc M ts _ sc (by rw [rescStep_scalers]; simp [h])

/-- main induction: lock-step plain / rescaled passes along a well-formed post-order -/
theorem resc_main {T Tc : Nat} (hTc : Tc ≤ T) (scaler : Nat → Fin N → Part F N K S → F)
    (tipc : Nat → Fin N → Fin K → Fin S → F) (M : Mats F K S) :
    ∀ (ts : List Triple) (P : Store F N K S) (rs : RState F N K S) (c : Nat → Fin N → F)
      (live done lf : List Nat),
      InvA P rs.st c → InvB T c live done rs.scalers → wfAux T ts live done = some lf →
      (∀ sc ∈ (ts.foldl (rescStep scaler Tc tipc M) rs).scalers, ∀ n : Fin N, sc[n] ≠ 0) →
      ∃ c' : Nat → Fin N → F,
        InvA (peel Tc tipc M P ts) (ts.foldl (rescStep scaler Tc tipc M) rs).st c' ∧
        ∀ n, (lf.map fun i => c' i n).prod =
          ((ts.foldl (rescStep scaler Tc tipc M) rs).scalers.map fun sc => sc[n]).prod
  | [], P, rs, c, live, done, lf, hA, hB, hwf, _ => by
      simp only [wfAux, Option.some.injEq] at hwf
      subst hwf
      exact ⟨c, hA, hB.prod⟩
  | t :: ts, P, rs, c, live, done, lf, hA, hB, hwf, hpos => by
      obtain ⟨hT, hnd, hl, hr, hwf'⟩ := wfAux_cons hwf
      simp only [List.foldl_cons] at hpos ⊢
      have hsc : ∀ n, stepScaler scaler Tc tipc M rs.st t n ≠ 0 := by
        intro n
        have hm : Vector.ofFn (stepScaler scaler Tc tipc M rs.st t) ∈
            (rescStep scaler Tc tipc M rs t).scalers := by rw [rescStep_scalers]; simp
        have := hpos _ (resc_scalers_mem scaler Tc tipc M ts _ _ hm) n
        rwa [ofFn_getFin] at this
      have hA' := invA_step scaler Tc tipc M P rs c t hA hsc
      have hB' := invB_step hTc c live done rs.scalers t (stepScaler scaler Tc tipc M rs.st t) hB hT hnd hl hr
      rw [← rescStep_scalers] at hB'
      exact resc_main hTc scaler tipc M ts _ _ _ _ _ lf hA' hB' hwf' hpos


theorem wf_unpack {T : Nat} {ts : List Triple} (h : wf T ts = true) :
    wfAux T ts [] [] = some [rootOf ts] := by
  unfold wf at h
  split at h
  · rename_i live hl
    have : live = [rootOf ts] := by simpa using h
    rw [hl, this]
  · cases h

theorem invA_refl (st : Store F N K S) : InvA st st (fun _ _ => 1) := by
  intro i n k s; simp

theorem invB_init (T : Nat) : InvB (N := N) (F := F) T (fun _ _ => 1) [] [] [] :=
  ⟨fun _ _ _ => rfl, fun _ => by simp, fun _ h => by simp at h, fun _ h => by simp at h⟩

/-- algebraic core of `rescaled_eq_plain`, over any field: along a well-formed post-order the plain
  site value is the scaled site value times the product of all appended scalers -/
theorem siteLik_rescaled_mul {T Tc : Nat} (hTc : Tc ≤ T) (scaler : Nat → Fin N → Part F N K S → F)
    (tipc : Nat → Fin N → Fin K → Fin S → F) (M : Mats F K S) (freqs : Fin S → F) (props : Fin K → F)
    (st : Store F N K S) (ts : List Triple) (hwf : wf T ts = true)
    (hne : ∀ sc ∈ (peelRescaledWith scaler Tc tipc M st ts).scalers, ∀ n : Fin N, sc[n] ≠ 0)
    (n : Fin N) :
    siteLik freqs props ((peel Tc tipc M st ts).get (rootOf ts)) n =
      ((peelRescaledWith scaler Tc tipc M st ts).scalers.map fun sc => sc[n]).prod *
        siteLik freqs props ((peelRescaledWith scaler Tc tipc M st ts).st.get (rootOf ts)) n := by
  obtain ⟨c', hA, hprod⟩ := resc_main hTc scaler tipc M ts st ⟨st, []⟩ (fun _ _ => 1) [] [] [rootOf ts]
    (invA_refl st) (invB_init T) (wf_unpack hwf) hne
  have hp := hprod n
  simp only [List.map_cons, List.map_nil, List.prod_cons, List.prod_nil, mul_one] at hp
  unfold peelRescaledWith
  rw [← hp]
  exact siteLik_scale freqs props _ _ _ n (fun k s => hA (rootOf ts) n k s)


/-! ### the safe pass: run on the list a plain pass left behind -/

/-- the stale list is what a plain pass with the same matrices leaves: every triple's slot holds
  the product computed from its children's slots -/
def Consistent (Pf : Store F N K S) (M : Mats F K S) (ts : List Triple) : Prop :=
  ∀ t ∈ ts, ∀ n k s,
    ((Pf.get t.1).get n k s) = (combine 0 noTips M Pf t.2.1 t.2.2).get n k s

theorem safeStep_true (below : Part F N K S → Bool) (scaler : Nat → Fin N → Part F N K S → F)
    (M : Mats F K S) (ss : SState F N K S) (t : Triple)
    (h : (ss.flags t.2.1 || ss.flags t.2.2 || below (ss.st.get t.1)) = true) :
    safeStep below scaler M ss t =
      { st := (rescStep scaler 0 noTips M ⟨ss.st, ss.scalers⟩ t).st,
        flags := setFlag ss.flags t.1,
        scalers := (rescStep scaler 0 noTips M ⟨ss.st, ss.scalers⟩ t).scalers } := by
  unfold safeStep
  rw [if_pos h]
  rfl

theorem safeStep_false (below : Part F N K S → Bool) (scaler : Nat → Fin N → Part F N K S → F)
    (M : Mats F K S) (ss : SState F N K S) (t : Triple)
    (h : ¬ (ss.flags t.2.1 || ss.flags t.2.2 || below (ss.st.get t.1)) = true) :
    safeStep below scaler M ss t = ss := by
  unfold safeStep
  rw [if_neg h]

theorem safe_scalers_mem (below : Part F N K S → Bool) (scaler : Nat → Fin N → Part F N K S → F)
    (M : Mats F K S) :
    ∀ (ts : List Triple) (ss : SState F N K S) (sc : Vector F N), sc ∈ ss.scalers →
      sc ∈ (ts.foldl (safeStep below scaler M) ss).scalers
  | [], _, _, h => h
  | t :: ts, ss, sc, h => by
      simp only [List.foldl_cons]
      refine safe_scalers_mem below scaler M ts _ sc ?_
      by_cases hc : (ss.flags t.2.1 || ss.flags t.2.2 || below (ss.st.get t.1)) = true
      · rw [safeStep_true _ _ _ _ _ hc, rescStep_scalers]; simp [h]
      · rw [safeStep_false _ _ _ _ _ hc]; exact h

/-- a node that is not rescaled keeps factor 1; bookkeeping for that case -/
theorem invB_skip {T : Nat} (c : Nat → Fin N → F) (live done : List Nat)
    (scalers : List (Vector F N)) (t : Triple)
    (hB : InvB T c live done scalers) (hT : T ≤ t.1) (hnd : t.1 ∉ done)
    (hl : childOk T live t.2.1 = true) (hr : childOk T (consume T live t.2.1) t.2.2 = true)
    (hcl : ∀ n, c t.2.1 n = 1) (hcr : ∀ n, c t.2.2 n = 1) :
    InvB T c (t.1 :: consume T (consume T live t.2.1) t.2.2) (t.1 :: done) scalers := by
  refine ⟨?_, ?_, ?_, ?_⟩
  · intro i hi n
    simp only [List.mem_cons, not_or] at hi
    exact hB.one i hi.2 n
  · intro n
    have h1 := consume_prod (Tc := 0) (Nat.zero_le T) c live done t.2.1 hB.one hB.ge hl n
    have h2 := consume_prod (Tc := 0) (Nat.zero_le T) c (consume T live t.2.1) done t.2.2 hB.one hB.ge hr n
    simp only [cEff, Nat.not_lt_zero, if_false, hcl n, hcr n, one_mul] at h1 h2
    simp only [List.map_cons, List.prod_cons, hB.one t.1 hnd n, one_mul]
    rw [← hB.prod n, h1, h2]
  · intro i hi
    simp only [List.mem_cons] at hi ⊢
    rcases hi with h | h
    · exact Or.inl h
    · exact Or.inr (hB.sub i (consume_subset _ _ _ i (consume_subset _ _ _ i h)))
  · intro i hi
    simp only [List.mem_cons] at hi
    rcases hi with h | h
    · exact h ▸ hT
    · exact hB.ge i h

/-- main induction for the safe pass -/
theorem safe_main {T : Nat} (below : Part F N K S → Bool) (scaler : Nat → Fin N → Part F N K S → F)
    (M : Mats F K S) (Pf : Store F N K S) :
    ∀ (ts : List Triple) (ss : SState F N K S) (c : Nat → Fin N → F) (live done lf : List Nat),
      Consistent Pf M ts → InvA Pf ss.st c → InvB T c live done ss.scalers →
      (∀ i, ss.flags i = false → ∀ n, c i n = 1) →
      wfAux T ts live done = some lf →
      (∀ sc ∈ (ts.foldl (safeStep below scaler M) ss).scalers, ∀ n : Fin N, sc[n] ≠ 0) →
      ∃ c' : Nat → Fin N → F,
        InvA Pf (ts.foldl (safeStep below scaler M) ss).st c' ∧
        ∀ n, (lf.map fun i => c' i n).prod =
          ((ts.foldl (safeStep below scaler M) ss).scalers.map fun sc => sc[n]).prod
  | [], ss, c, live, done, lf, _, hA, hB, _, hwf, _ => by
      simp only [wfAux, Option.some.injEq] at hwf
      subst hwf
      exact ⟨c, hA, hB.prod⟩
  | t :: ts, ss, c, live, done, lf, hcons, hA, hB, hF, hwf, hpos => by
      obtain ⟨hT, hnd, hl, hr, hwf'⟩ := wfAux_cons hwf
      have hcons' : Consistent Pf M ts := fun t' ht' => hcons t' (List.mem_cons_of_mem _ ht')
      simp only [List.foldl_cons] at hpos ⊢
      by_cases hc : (ss.flags t.2.1 || ss.flags t.2.2 || below (ss.st.get t.1)) = true
      · -- node recomputed and rescaled
        have hstep := safeStep_true below scaler M ss t hc
        have hsc : ∀ n, stepScaler scaler 0 noTips M ss.st t n ≠ 0 := by
          intro n
          have hm : Vector.ofFn (stepScaler scaler 0 noTips M ss.st t) ∈
              (safeStep below scaler M ss t).scalers := by
            rw [hstep]; simp [rescStep_scalers]
          have := hpos _ (safe_scalers_mem below scaler M ts _ _ hm) n
          rwa [ofFn_getFin] at this
        have hA0 := invA_step scaler 0 noTips M Pf ⟨ss.st, ss.scalers⟩ c t hA hsc
        have hA' : InvA Pf (safeStep below scaler M ss t).st
            (cUpd 0 c t (stepScaler scaler 0 noTips M ss.st t)) := by
          rw [hstep]
          intro i n k s
          rw [← hA0 i n k s]
          unfold peelStep
          simp only [Store.get_set]
          by_cases hi : i = t.1
          · simp only [hi, if_true]
            exact hcons t (List.mem_cons_self) n k s
          · simp only [hi, if_false]
        have hB' := invB_step (Tc := 0) (Nat.zero_le T) c live done ss.scalers t
          (stepScaler scaler 0 noTips M ss.st t) hB hT hnd hl hr
        have hB'' : InvB T (cUpd 0 c t (stepScaler scaler 0 noTips M ss.st t))
            (t.1 :: consume T (consume T live t.2.1) t.2.2) (t.1 :: done)
            (safeStep below scaler M ss t).scalers := by
          rw [hstep]; simpa [rescStep_scalers] using hB'
        have hF' : ∀ i, (safeStep below scaler M ss t).flags i = false →
            ∀ n, cUpd 0 c t (stepScaler scaler 0 noTips M ss.st t) i n = 1 := by
          intro i hi n
          rw [hstep] at hi
          simp only [setFlag] at hi
          by_cases hin : i = t.1
          · simp [hin] at hi
          · simp only [hin, if_false] at hi
            simp [cUpd, hin, hF i hi n]
        exact safe_main below scaler M Pf ts _ _ _ _ lf hcons' hA' hB'' hF' hwf' hpos
      · -- node kept as the plain pass left it
        have hstep := safeStep_false below scaler M ss t hc
        rw [hstep] at hpos ⊢
        have hfl : ss.flags t.2.1 = false ∧ ss.flags t.2.2 = false := by
          simp only [Bool.or_eq_true, not_or, Bool.not_eq_true] at hc
          exact ⟨hc.1.1, hc.1.2⟩
        have hB' := invB_skip c live done ss.scalers t hB hT hnd hl hr (hF _ hfl.1) (hF _ hfl.2)
        exact safe_main below scaler M Pf ts ss c _ _ lf hcons' hA hB' hF hwf' hpos

/-- algebraic core of `safe_eq_plain` over any field -/
theorem siteLik_safe_mul {T : Nat} (below : Part F N K S → Bool)
    (scaler : Nat → Fin N → Part F N K S → F) (M : Mats F K S) (freqs : Fin S → F) (props : Fin K → F)
    (Pf : Store F N K S) (ts : List Triple) (hwf : wf T ts = true) (hcons : Consistent Pf M ts)
    (hne : ∀ sc ∈ (peelSafeWith below scaler M Pf ts).scalers, ∀ n : Fin N, sc[n] ≠ 0)
    (n : Fin N) :
    siteLik freqs props (Pf.get (rootOf ts)) n =
      ((peelSafeWith below scaler M Pf ts).scalers.map fun sc => sc[n]).prod *
        siteLik freqs props ((peelSafeWith below scaler M Pf ts).st.get (rootOf ts)) n := by
  obtain ⟨c', hA, hprod⟩ := safe_main (T := T) below scaler M Pf ts ⟨Pf, fun _ => false, []⟩
    (fun _ _ => 1) [] [] [rootOf ts] hcons (invA_refl Pf) (invB_init T) (fun _ _ _ => rfl)
    (wf_unpack hwf) hne
  have hp := hprod n
  simp only [List.map_cons, List.map_nil, List.prod_cons, List.prod_nil, mul_one] at hp
  unfold peelSafeWith
  rw [← hp]
  exact siteLik_scale freqs props _ _ _ n (fun k s => hA (rootOf ts) n k s)


/-! ### what the loops leave untouched / what they depend on, along a well-formed post-order -/

theorem combine_congr (Tc : Nat) (tipc : Nat → Fin N → Fin K → Fin S → F) (M : Mats F K S)
    (st st' : Store F N K S) (l r : Nat) (hl : st.get l = st'.get l) (hr : st.get r = st'.get r) :
    combine Tc tipc M st l r = combine Tc tipc M st' l r := by
  unfold combine; rw [hl, hr]

/-- children below `tipCount` are not read from the list at all -/
theorem combine_congr_ge (Tc : Nat) (tipc : Nat → Fin N → Fin K → Fin S → F) (M : Mats F K S)
    (st st' : Store F N K S) (l r : Nat) (hl : Tc ≤ l → st.get l = st'.get l)
    (hr : Tc ≤ r → st.get r = st'.get r) :
    combine Tc tipc M st l r = combine Tc tipc M st' l r := by
  unfold combine
  show Part.ofFn _ = Part.ofFn _
  congr 1
  funext n k s
  have key : ∀ c, (Tc ≤ c → st.get c = st'.get c) →
      contrib Tc tipc M c (st.get c) n k s = contrib Tc tipc M c (st'.get c) n k s := by
    intro c hc
    unfold contrib
    by_cases h : c < Tc
    · simp [h]
    · rw [hc (Nat.le_of_not_lt h)]
  rw [key l hl, key r hr]

theorem childOk_cases {T : Nat} {live : List Nat} {ch : Nat} (h : childOk T live ch = true) :
    ch < T ∨ ch ∈ live := by
  unfold childOk at h
  simpa only [Bool.or_eq_true, decide_eq_true_eq, List.contains_eq_mem] using h

theorem wfAux_live_ge {T : Nat} : ∀ (ts : List Triple) (live done lf : List Nat),
    (∀ i ∈ live, T ≤ i) → wfAux T ts live done = some lf → ∀ i ∈ lf, T ≤ i
  | [], live, _, lf, h, hwf => by
      simp only [wfAux, Option.some.injEq] at hwf
      subst hwf; exact h
  | t :: ts, live, done, lf, h, hwf => by
      obtain ⟨hT, _, _, _, hwf'⟩ := wfAux_cons hwf
      refine wfAux_live_ge ts _ _ lf ?_ hwf'
      intro i hi
      rcases List.mem_cons.mp hi with rfl | hi
      · exact hT
      · exact h i (consume_subset _ _ _ i (consume_subset _ _ _ i hi))

/-- under `wf` the root slot is an internal slot -/
theorem wf_root_ge {T : Nat} {ts : List Triple} (h : wf T ts = true) : T ≤ rootOf ts :=
  wfAux_live_ge ts [] [] _ (fun _ h => by simp at h) (wf_unpack h) _ (List.mem_singleton.mpr rfl)

/-- slots of tips and of already written internal nodes are not touched by the rest of the loop -/
theorem peel_get_keep {T : Nat} (Tc : Nat) (tipc : Nat → Fin N → Fin K → Fin S → F) (M : Mats F K S) :
    ∀ (ts : List Triple) (st : Store F N K S) (live done lf : List Nat),
      wfAux T ts live done = some lf → ∀ i, (i < T ∨ i ∈ done) →
      (peel Tc tipc M st ts).get i = st.get i
  | [], _, _, _, _, _, _, _ => rfl
  | t :: ts, st, live, done, lf, hwf, i, hi => by
      obtain ⟨hT, hnd, _, _, hwf'⟩ := wfAux_cons hwf
      have hne : i ≠ t.1 := by
        rcases hi with h | h
        · exact fun e => absurd (e ▸ hT) (Nat.not_le.mpr h)
        · exact fun e => hnd (e ▸ h)
      unfold peel
      simp only [List.foldl_cons]
      have := peel_get_keep Tc tipc M ts (peelStep Tc tipc M st t) _ _ lf hwf' i
        (hi.imp id (List.mem_cons_of_mem _))
      unfold peel at this
      rw [this]
      simp [peelStep, hne]

/-- the list a plain pass leaves behind is consistent (what the safe pass relies on) -/
theorem peel_consistent {T : Nat} (M : Mats F K S) :
    ∀ (ts : List Triple) (st : Store F N K S) (live done lf : List Nat),
      (∀ i ∈ live, i ∈ done) → wfAux T ts live done = some lf →
      Consistent (peel 0 noTips M st ts) M ts
  | [], _, _, _, _, _, _ => fun _ h => by simp at h
  | t :: ts, st, live, done, lf, hsub, hwf => by
      obtain ⟨hT, hnd, hl, hr, hwf'⟩ := wfAux_cons hwf
      have hsub' : ∀ i ∈ t.1 :: consume T (consume T live t.2.1) t.2.2, i ∈ t.1 :: done := by
        intro i hi
        simp only [List.mem_cons] at hi ⊢
        exact hi.imp id fun h => hsub i (consume_subset _ _ _ i (consume_subset _ _ _ i h))
      have ih := peel_consistent M ts (peelStep 0 noTips M st t) _ _ lf hsub' hwf'
      have hpe : peel 0 noTips M st (t :: ts) = peel 0 noTips M (peelStep 0 noTips M st t) ts := rfl
      rw [hpe]
      intro t' ht' n k s
      rcases List.mem_cons.mp ht' with rfl | h
      · have keep := peel_get_keep (T := T) 0 noTips M ts (peelStep 0 noTips M st t') _ _ lf hwf'
        have hlk : t'.2.1 < T ∨ t'.2.1 ∈ t'.1 :: done :=
          (childOk_cases hl).imp id fun h => List.mem_cons_of_mem _ (hsub _ h)
        have hrk : t'.2.2 < T ∨ t'.2.2 ∈ t'.1 :: done :=
          (childOk_cases hr).imp id fun h =>
            List.mem_cons_of_mem _ (hsub _ (consume_subset _ _ _ _ h))
        have hlne : t'.2.1 ≠ t'.1 := by
          rcases childOk_cases hl with h | h
          · exact fun e => absurd (e ▸ hT) (Nat.not_le.mpr h)
          · exact fun e => hnd (e ▸ hsub _ h)
        have hrne : t'.2.2 ≠ t'.1 := by
          rcases childOk_cases hr with h | h
          · exact fun e => absurd (e ▸ hT) (Nat.not_le.mpr h)
          · exact fun e => hnd (e ▸ hsub _ (consume_subset _ _ _ _ h))
        rw [keep t'.1 (Or.inr (List.mem_cons_self))]
        rw [combine_congr 0 noTips M _ st t'.2.1 t'.2.2
          (by rw [keep _ hlk]; simp [peelStep, hlne]) (by rw [keep _ hrk]; simp [peelStep, hrne])]
        simp [peelStep]
      · exact ih t' h n k s

/-- two start lists that agree on the tips that are READ (slots `≥ tipCount`; tip-state passes
  never read tip slots) give the same slots wherever the loop has written -/
theorem peel_indep {T : Nat} (Tc : Nat) (tipc : Nat → Fin N → Fin K → Fin S → F) (M : Mats F K S) :
    ∀ (ts : List Triple) (st st' : Store F N K S) (live done lf : List Nat),
      (∀ i ∈ live, i ∈ done) → wfAux T ts live done = some lf →
      (∀ i, Tc ≤ i → (i < T ∨ i ∈ done) → st.get i = st'.get i) →
      ∀ i ∈ lf, Tc ≤ i → (peel Tc tipc M st ts).get i = (peel Tc tipc M st' ts).get i
  | [], st, st', live, done, lf, hsub, hwf, hag => by
      simp only [wfAux, Option.some.injEq] at hwf
      subst hwf
      intro i hi hge
      exact hag i hge (Or.inr (hsub i hi))
  | t :: ts, st, st', live, done, lf, hsub, hwf, hag => by
      obtain ⟨hT, hnd, hl, hr, hwf'⟩ := wfAux_cons hwf
      have hsub' : ∀ i ∈ t.1 :: consume T (consume T live t.2.1) t.2.2, i ∈ t.1 :: done := by
        intro i hi
        simp only [List.mem_cons] at hi ⊢
        exact hi.imp id fun h => hsub i (consume_subset _ _ _ i (consume_subset _ _ _ i h))
      have hag' : ∀ i, Tc ≤ i → (i < T ∨ i ∈ t.1 :: done) →
          (peelStep Tc tipc M st t).get i = (peelStep Tc tipc M st' t).get i := by
        intro i hge hi
        unfold peelStep
        simp only [Store.get_set]
        by_cases hit : i = t.1
        · simp only [hit, if_true]
          exact combine_congr_ge Tc tipc M st st' _ _
            (fun h => hag _ h ((childOk_cases hl).imp id fun h => hsub _ h))
            (fun h => hag _ h ((childOk_cases hr).imp id fun h => hsub _ (consume_subset _ _ _ _ h)))
        · simp only [hit, if_false]
          refine hag i hge (hi.imp id fun h => ?_)
          rcases List.mem_cons.mp h with h | h
          · exact absurd h hit
          · exact h
      exact peel_indep Tc tipc M ts _ _ _ _ lf hsub' hwf' hag'

/-- the rescaled loop writes internal slots only -/
theorem resc_get_keep {T : Nat} (scaler : Nat → Fin N → Part F N K S → F) (Tc : Nat)
    (tipc : Nat → Fin N → Fin K → Fin S → F) (M : Mats F K S) :
    ∀ (ts : List Triple) (rs : RState F N K S) (live done lf : List Nat),
      wfAux T ts live done = some lf → ∀ i, i < T →
      (ts.foldl (rescStep scaler Tc tipc M) rs).st.get i = rs.st.get i
  | [], _, _, _, _, _, _, _ => rfl
  | t :: ts, rs, live, done, lf, hwf, i, hi => by
      obtain ⟨hT, _, _, _, hwf'⟩ := wfAux_cons hwf
      have hne : i ≠ t.1 := fun e => absurd (e ▸ hT) (Nat.not_le.mpr hi)
      simp only [List.foldl_cons]
      rw [resc_get_keep scaler Tc tipc M ts _ _ _ lf hwf' i hi, rescStep_st]
      simp [hne]

/-- the safe loop writes internal slots only -/
theorem safe_get_keep {T : Nat} (below : Part F N K S → Bool) (scaler : Nat → Fin N → Part F N K S → F)
    (M : Mats F K S) :
    ∀ (ts : List Triple) (ss : SState F N K S) (live done lf : List Nat),
      wfAux T ts live done = some lf → ∀ i, i < T →
      (ts.foldl (safeStep below scaler M) ss).st.get i = ss.st.get i
  | [], _, _, _, _, _, _, _ => rfl
  | t :: ts, ss, live, done, lf, hwf, i, hi => by
      obtain ⟨hT, _, _, _, hwf'⟩ := wfAux_cons hwf
      have hne : i ≠ t.1 := fun e => absurd (e ▸ hT) (Nat.not_le.mpr hi)
      simp only [List.foldl_cons]
      rw [safe_get_keep below scaler M ts _ _ _ lf hwf' i hi]
      by_cases hc : (ss.flags t.2.1 || ss.flags t.2.2 || below (ss.st.get t.1)) = true
      · rw [safeStep_true _ _ _ _ _ hc]; simp [rescStep_st, hne]
      · rw [safeStep_false _ _ _ _ _ hc]

end TT.C03
