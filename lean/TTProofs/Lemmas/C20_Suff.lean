import TTModel.C20_GMRF
import TTProofs.Lemmas.C08_Main
import Mathlib.Data.List.GetD
/-!
# C20 — regrouping: per-section sums of the interval terms reproduce the log density

`tensor_split` at the positions of the `v` marks groups the interval terms by exactly the index
`cumsum(mask == v)` that `log_prob` uses to look up `θ`.
-/
namespace TT.C20
open TT.C08

/-- `Σ_g F(s_g, j + g)` -/
def idxSum (F : ℝ → ℕ → ℝ) (j : ℕ) : List ℝ → ℝ
  | [] => 0
  | s :: ss => F s j + idxSum F (j + 1) ss

theorem splitAtMarks_ne_nil {β : Type} (v : Int) : ∀ (ms : List Int) (vals : List β),
    splitAtMarks v ms vals ≠ []
  | [], _ => by simp [splitAtMarks]
  | m :: ms, [] => by
      unfold splitAtMarks
      split
      · simp
      · exact splitAtMarks_ne_nil v ms []
  | m :: ms, x :: xs => by
      unfold splitAtMarks
      have h := splitAtMarks_ne_nil v ms xs
      split
      · simp
      · cases hG : splitAtMarks v ms xs with
        | nil => exact absurd hG h
        | cons g gs => simp [consHead]

theorem idxSum_consHead (h : ℕ → ℝ) (x : ℝ) (j : ℕ) {G : List (List ℝ)} (hG : G ≠ []) :
    idxSum (fun s g => s * h g) j ((consHead x G).map List.sum)
      = x * h j + idxSum (fun s g => s * h g) j (G.map List.sum) := by
  cases G with
  | nil => exact absurd rfl hG
  | cons g gs => simp only [consHead, List.map_cons, idxSum, List.sum_cons]; ring

/-- **regrouping lemma**: terms weighted by `h` at the running count of `v` marks = per-section sums
weighted by `h` at the section number -/
theorem regroup (h : ℕ → ℝ) (v : Int) : ∀ (ms : List Int) (vals : List ℝ) (j : ℕ),
    vals.length ≤ ms.length →
    (List.zipWith (fun x i => x * h i) vals (cumsumFrom j (isMark v ms))).sum
      = idxSum (fun s g => s * h g) j ((splitAtMarks v ms vals).map List.sum)
  | [], vals, j, hl => by
      have : vals = [] := List.length_eq_zero_iff.mp (Nat.le_zero.mp hl)
      subst this
      simp [isMark, cumsumFrom, splitAtMarks, idxSum]
  | m :: ms, [], j, _ => by
      have ih0 := regroup h v ms [] j (Nat.zero_le _)
      have ih1 := regroup h v ms [] (j + 1) (Nat.zero_le _)
      simp only [List.zipWith_nil_left, List.sum_nil] at ih0 ih1 ⊢
      unfold splitAtMarks
      split
      · simp only [List.map_cons, idxSum, List.sum_nil, zero_mul, zero_add]
        exact ih1
      · exact ih0
  | m :: ms, x :: xs, j, hl => by
      have hl' : xs.length ≤ ms.length := by simpa using hl
      have hne := splitAtMarks_ne_nil v ms xs
      unfold splitAtMarks
      by_cases hm : m = v
      · have ih := regroup h v ms xs (j + 1) hl'
        simp only [isMark, List.map_cons, hm, if_true, cumsumFrom, List.zipWith_cons_cons, List.sum_cons,
          idxSum, List.sum_nil, zero_mul, zero_add] at ih ⊢
        rw [idxSum_consHead h x (j + 1) hne, ← ih]
      · have ih := regroup h v ms xs j hl'
        simp only [isMark, List.map_cons, hm, if_false, cumsumFrom, List.zipWith_cons_cons, List.sum_cons,
          add_zero] at ih ⊢
        rw [idxSum_consHead h x j hne, ← ih]

/-- sums indexed into `θ` by position are the truncating `zipWith` sums, for weights that vanish at the
default value `0` (`s / 0 = 0`, `c · log 0 = 0` in Lean's reals) -/
theorem idxSum_eq_zipWith (F : ℝ → ℝ → ℝ) (hF : ∀ s, F s 0 = 0) : ∀ (ss θ : List ℝ) (j : ℕ),
    idxSum (fun s g => F s (θ.getD g 0)) j ss = (List.zipWith F ss (θ.drop j)).sum
  | [], θ, j => by simp [idxSum]
  | s :: ss, θ, j => by
      unfold idxSum
      rw [idxSum_eq_zipWith F hF ss θ (j + 1)]
      by_cases hj : j < θ.length
      · rw [List.drop_eq_getElem_cons hj, List.zipWith_cons_cons, List.sum_cons,
          List.getD_eq_getElem _ _ hj]
      · have hge : θ.length ≤ j := Nat.le_of_not_lt hj
        rw [List.drop_eq_nil_of_le hge, List.drop_eq_nil_of_le (Nat.le_succ_of_le hge),
          List.getD_eq_default _ _ hge, hF]
        simp

theorem splitAtMarks_map {β γ : Type} (f : β → γ) (v : Int) : ∀ (ms : List Int) (vals : List β),
    splitAtMarks v ms (vals.map f) = (splitAtMarks v ms vals).map (List.map f)
  | [], vals => by simp [splitAtMarks]
  | m :: ms, [] => by
      have ih := splitAtMarks_map f v ms []
      simp only [List.map_nil] at ih ⊢
      unfold splitAtMarks
      split <;> simp [ih]
  | m :: ms, x :: xs => by
      have ih := splitAtMarks_map f v ms xs
      simp only [List.map_cons]
      unfold splitAtMarks
      rw [ih]
      have hc : ∀ G : List (List β), consHead (f x) (G.map (List.map f)) = (consHead x G).map (List.map f) := by
        intro G; cases G <;> simp [consHead]
      split <;> simp [hc]

theorem zipWith3_eq_zipWith (f : ℤ → ℝ → ℝ) (h : ℕ → ℝ) : ∀ (ks : List ℤ) (ds : List ℝ) (is : List ℕ),
    zipWith3 (fun k d i => f k d * h i) ks ds is = List.zipWith (fun x i => x * h i) (List.zipWith f ks ds) is
  | [], _, _ => by simp [zipWith3]
  | _ :: _, [], _ => by simp [zipWith3]
  | _ :: _, _ :: _, [] => by simp [zipWith3]
  | k :: ks, d :: ds, i :: is => by
      simp only [zipWith3, List.zipWith_cons_cons]
      rw [zipWith3_eq_zipWith f h ks ds is]

/-- `zipWith` against a list or against its `dropLast` agree when the other list is shorter -/
theorem zipWith_dropLast {β γ δ : Type} (f : β → γ → δ) : ∀ (l : List β) (r : List γ),
    l.length + 1 ≤ r.length → List.zipWith f l r.dropLast = List.zipWith f l r
  | [], _, _ => by simp
  | a :: l, [], h => by simp at h
  | a :: l, [b], h => by simp at h
  | a :: l, b :: c :: r, h => by
      rw [List.dropLast_cons_cons, List.zipWith_cons_cons, List.zipWith_cons_cons,
        zipWith_dropLast f l (c :: r) (by simpa using h)]

theorem length_cumsumFrom {β : Type} [Add β] (acc : β) (l : List β) : (cumsumFrom acc l).length = l.length := by
  induction l generalizing acc with
  | nil => rfl
  | cons a l ih => simp [cumsumFrom, ih]

theorem length_diffs (l : List ℝ) : (diffs l).length = l.length - 1 := by
  induction l with
  | nil => rfl
  | cons a l ih =>
    cases l with
    | nil => rfl
    | cons b l => simp only [diffs, List.length_cons] at ih ⊢; omega

theorem length_consHead {β : Type} (x : β) {G : List (List β)} (hG : G ≠ []) :
    (consHead x G).length = G.length := by
  cases G with
  | nil => exact absurd rfl hG
  | cons g gs => simp [consHead]

/-- one section more than there are `v` marks -/
theorem length_splitAtMarks {β : Type} (v : Int) : ∀ (ms : List Int) (vals : List β),
    (splitAtMarks v ms vals).length = ms.countP (fun m => decide (m = v)) + 1
  | [], _ => by simp [splitAtMarks]
  | m :: ms, [] => by
      have ih := length_splitAtMarks v ms ([] : List β)
      unfold splitAtMarks
      rw [List.countP_cons]
      by_cases hm : m = v <;> simp [hm, ih]
  | m :: ms, x :: xs => by
      have ih := length_splitAtMarks v ms xs
      have hne := splitAtMarks_ne_nil v ms xs
      unfold splitAtMarks
      rw [List.countP_cons]
      by_cases hm : m = v <;> simp [hm, ih, length_consHead x hne]

theorem zipWith_dropLast_left {β γ δ : Type} (f : β → γ → δ) : ∀ (l : List β) (r : List γ),
    r.length + 1 ≤ l.length → List.zipWith f l.dropLast r = List.zipWith f l r
  | _, [], _ => by simp
  | [], b :: r, h => by simp at h
  | [a], b :: r, h => by simp at h
  | a :: c :: l, b :: r, h => by
      rw [List.dropLast_cons_cons, List.zipWith_cons_cons, List.zipWith_cons_cons,
        zipWith_dropLast_left f (c :: l) r (by simpa using h)]

theorem zipWith_replicate_left {β γ δ : Type} (f : β → γ → δ) (c : β) : ∀ (m : ℕ) (r : List γ),
    r.length ≤ m → List.zipWith f (List.replicate m c) r = r.map (f c)
  | _, [], _ => by simp
  | 0, b :: r, h => by simp at h
  | m + 1, b :: r, h => by
      rw [List.replicate_succ, List.zipWith_cons_cons, List.map_cons,
        zipWith_replicate_left f c m r (by simpa using h)]

/-- the sorted events contain exactly `coal.length` coalescent marks -/
theorem count_coal_marks {samp coal grid : List ℝ} {ev : List (Ev ℝ)} (hperm : ev.Perm (evs samp coal grid)) :
    (marks ev).countP (fun m => decide (m = -1)) = coal.length := by
  unfold marks
  rw [List.countP_map, hperm.countP_eq, List.countP_eq_length_filter]
  have := filter_coal_evs samp coal grid
  simp only [Function.comp_def] at this ⊢
  rw [this, List.length_map]

/-- core of `suffstats_reproduce_skygrid`: whenever the first sorted event is not a coalescent event (so that the
`[1:]` slice of `log_prob` drops nothing), statistics and counts reproduce `-log_prob` — ties of any kind allowed -/
theorem reproduce_of_head (θ grid heights : List ℝ) (e1 : Ev ℝ) (l : List (Ev ℝ))
    (hS : sortEvents (mkEvents heights grid) = e1 :: l) (hhead : e1.mark ≠ -1) :
    reproduce θ (skygridSuffStats grid heights).1 (skygridSuffStats grid heights).2
      = -(skygridLogProb θ grid heights) := by
  unfold reproduce skygridSuffStats skygridLogProb skygridIntegral skygridLogs
  simp only [trans_log_real]
  rw [hS]
  generalize hev : e1 :: l = ev at hhead
  have hlenM : (marks ev).length = ev.length := by simp [marks]
  have hpos : 1 ≤ ev.length := by rw [← hev]; simp
  have hlenT : (intervalTerms ev).length + 1 ≤ (marks ev).length := by
    unfold intervalTerms lineages cumsum
    rw [List.length_zipWith, List.length_dropLast, length_cumsumFrom, length_diffs, hlenM]
    simp only [times, List.length_map]
    omega
  -- the statistics
  have h1 : (List.zipWith (fun s t => s / t) ((splitAtMarks 0 (marks ev) (intervalTerms ev)).map List.sum) θ).sum
      = (zipWith3 (fun k d i => (choose2 k : ℝ) * d / θ.getD i 0) (lineages ev) (diffs (times ev))
          (skygridIdx ev).dropLast).sum := by
    have hb := idxSum_eq_zipWith (fun s t => s / t) (fun s => by simp)
      ((splitAtMarks 0 (marks ev) (intervalTerms ev)).map List.sum) θ 0
    rw [List.drop_zero] at hb
    rw [← hb]
    have hr := regroup (fun g => (θ.getD g 0)⁻¹) 0 (marks ev) (intervalTerms ev) 0 (by omega)
    simp only [div_eq_mul_inv] at hr ⊢
    rw [← hr]
    have hz := zipWith3_eq_zipWith (fun k d => (choose2 k : ℝ) * d) (fun i => (θ.getD i 0)⁻¹)
      (lineages ev) (diffs (times ev)) (skygridIdx ev).dropLast
    rw [hz]
    unfold skygridIdx cumsum intervalTerms
    rw [zipWith_dropLast]
    rw [length_cumsumFrom]
    simp only [isMark, List.length_map]
    exact hlenT
  -- the counts
  have h2 : (List.zipWith (fun (c : ℕ) t => ((c : ℤ) : ℝ) * Real.log t)
        ((splitAtMarks 0 (marks ev) (isMark (-1) (marks ev))).map List.sum) θ).sum
      = ((List.zipWith (fun m i => if m = -1 then Real.log (θ.getD i 0) else (0 : ℝ)) (marks ev)
          (skygridIdx ev)).tail).sum := by
    -- counts as reals
    have hcast : (List.zipWith (fun (c : ℕ) t => ((c : ℤ) : ℝ) * Real.log t)
          ((splitAtMarks 0 (marks ev) (isMark (-1) (marks ev))).map List.sum) θ)
        = List.zipWith (fun s t => s * Real.log t)
            ((splitAtMarks 0 (marks ev) ((isMark (-1) (marks ev)).map (fun c : ℕ => (c : ℝ)))).map List.sum) θ := by
      have hsum : ∀ g : List ℕ, (((g.sum : ℕ) : ℤ) : ℝ) = (g.map (fun c : ℕ => (c : ℝ))).sum := by
        intro g
        induction g with
        | nil => simp
        | cons a g ih => simp only [List.sum_cons, List.map_cons, ← ih]; push_cast; ring
      rw [splitAtMarks_map, List.map_map, List.zipWith_map_left, List.zipWith_map_left]
      congr 1
      funext g t
      simp only [Function.comp, hsum]
    rw [hcast]
    have hb := idxSum_eq_zipWith (fun s t => s * Real.log t) (fun s => by simp)
      ((splitAtMarks 0 (marks ev) ((isMark (-1) (marks ev)).map (fun c : ℕ => (c : ℝ)))).map List.sum) θ 0
    rw [List.drop_zero] at hb
    rw [← hb]
    have hr := regroup (fun g => Real.log (θ.getD g 0)) 0 (marks ev)
      ((isMark (-1) (marks ev)).map (fun c : ℕ => (c : ℝ))) 0 (by simp [isMark])
    rw [← hr]
    -- indicator × log = the `where`, and position 0 is not a coalescent event
    subst hev
    unfold skygridIdx cumsum
    simp only [marks, isMark, List.map_cons, cumsumFrom, List.zipWith_cons_cons, List.tail_cons, List.sum_cons,
      List.map_map]
    rw [if_neg hhead]
    simp only [Nat.cast_zero, zero_mul, zero_add]
    rw [List.zipWith_map_left, List.zipWith_map_left]
    congr 2
    funext a b
    simp only [Function.comp]
    by_cases hm : a.mark = -1 <;> simp [hm]
  rw [h1, h2]
  ring

end TT.C20
