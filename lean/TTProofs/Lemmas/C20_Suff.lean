import TTModel.C20_GMRF
import TTProofs.Lemmas.C08_Main
import Mathlib.Data.List.GetD
/-!
# C20 — regrouping: per-section sums of the interval terms reproduce the log density

`tensor_split` at the positions of the `v` marks groups the interval terms by exactly the index
`cumsum(mask == v)` that `log_prob` uses to look up `θ`.
-/
namespace TT.C20
open TT.C08

/-- `Σ_g F(s_g, j + g)` -/
def idxSum (F : ℝ → ℕ → ℝ) (j : ℕ) : List ℝ → ℝ
  | [] => 0
  | s :: ss => F s j + idxSum F (j + 1) ss

theorem splitAtMarks_ne_nil {β : Type} (v : Int) : ∀ (ms : List Int) (vals : List β),
    splitAtMarks v ms vals ≠ []
  | [], _ => by simp [splitAtMarks]
  | m :: ms, [] => by
      unfold splitAtMarks
      split
      · simp
      · exact splitAtMarks_ne_nil v ms []
  | m :: ms, x :: xs => by
      unfold splitAtMarks
      have h := splitAtMarks_ne_nil v ms xs
      split
      · simp
      · cases hG : splitAtMarks v ms xs with
        | nil => exact absurd hG h
        | cons g gs => simp [consHead]

theorem idxSum_consHead (h : ℕ → ℝ) (x : ℝ) (j : ℕ) {G : List (List ℝ)} (hG : G ≠ []) :
    idxSum (fun s g => s * h g) j ((consHead x G).map List.sum)
      = x * h j + idxSum (fun s g => s * h g) j (G.map List.sum) := by
  cases G with
  | nil => exact absurd rfl hG
  | cons g gs => simp only [consHead, List.map_cons, idxSum, List.sum_cons]; ring

/-- **regrouping lemma**: terms weighted by `h` at the running count of `v` marks = per-section sums
weighted by `h` at the section number -/
theorem regroup (h : ℕ → ℝ) (v : Int) : ∀ (ms : List Int) (vals : List ℝ) (j : ℕ),
    vals.length ≤ ms.length →
    (List.zipWith (fun x i => x * h i) vals (cumsumFrom j (isMark v ms))).sum
      = idxSum (fun s g => s * h g) j ((splitAtMarks v ms vals).map List.sum)
  | [], vals, j, hl => by
      have : vals = [] := List.length_eq_zero_iff.mp (Nat.le_zero.mp hl)
      subst this
      simp [isMark, cumsumFrom, splitAtMarks, idxSum]
  | m :: ms, [], j, _ => by
      have ih0 := regroup h v ms [] j (Nat.zero_le _)
      have ih1 := regroup h v ms [] (j + 1) (Nat.zero_le _)
      simp only [List.zipWith_nil_left, List.sum_nil] at ih0 ih1 ⊢
      unfold splitAtMarks
      split
      · simp only [List.map_cons, idxSum, List.sum_nil, zero_mul, zero_add]
        exact ih1
      · exact ih0
  | m :: ms, x :: xs, j, hl => by
      have hl' : xs.length ≤ ms.length := by simpa using hl
      have hne := splitAtMarks_ne_nil v ms xs
      unfold splitAtMarks
      by_cases hm : m = v
      · have ih := regroup h v ms xs (j + 1) hl'
        simp only [isMark, List.map_cons, hm, if_true, cumsumFrom, List.zipWith_cons_cons, List.sum_cons,
          idxSum, List.sum_nil, zero_mul, zero_add] at ih ⊢
        rw [idxSum_consHead h x (j + 1) hne, ← ih]
      · have ih := regroup h v ms xs j hl'
        simp only [isMark, List.map_cons, hm, if_false, cumsumFrom, List.zipWith_cons_cons, List.sum_cons,
          add_zero] at ih ⊢
        rw [idxSum_consHead h x j hne, ← ih]

/-- sums indexed into `θ` by position are the truncating `zipWith` sums, for weights that vanish at the
default value `0` (`s / 0 = 0`, `c · log 0 = 0` in Lean's reals) -/
theorem idxSum_eq_zipWith (F : ℝ → ℝ → ℝ) (hF : ∀ s, F s 0 = 0) : ∀ (ss θ : List ℝ) (j : ℕ),
    idxSum (fun s g => F s (θ.getD g 0)) j ss = (List.zipWith F ss (θ.drop j)).sum
  | [], θ, j => by simp [idxSum]
  | s :: ss, θ, j => by
      unfold idxSum
      rw [idxSum_eq_zipWith F hF ss θ (j + 1)]
      by_cases hj : j < θ.length
      · rw [List.drop_eq_getElem_cons hj, List.zipWith_cons_cons, List.sum_cons,
          List.getD_eq_getElem _ _ hj]
      · have hge : θ.length ≤ j := Nat.le_of_not_lt hj
        rw [List.drop_eq_nil_of_le hge, List.drop_eq_nil_of_le (Nat.le_succ_of_le hge),
          List.getD_eq_default _ _ hge, hF]
        simp

theorem splitAtMarks_map {β γ : Type} (f : β → γ) (v : Int) : ∀ (ms : List Int) (vals : List β),
    splitAtMarks v ms (vals.map f) = (splitAtMarks v ms vals).map (List.map f)
  | [], vals => by simp [splitAtMarks]
  | m :: ms, [] => by
      have ih := splitAtMarks_map f v ms []
      simp only [List.map_nil] at ih ⊢
      unfold splitAtMarks
      split <;> simp [ih]
  | m :: ms, x :: xs => by
      have ih := splitAtMarks_map f v ms xs
      simp only [List.map_cons]
      unfold splitAtMarks
      rw [ih]
      have hc : ∀ G : List (List β), consHead (f x) (G.map (List.map f)) = (consHead x G).map (List.map f) := by
        intro G; cases G <;> simp [consHead]
      split <;> simp [hc]

theorem zipWith3_eq_zipWith (f : ℤ → ℝ → ℝ) (h : ℕ → ℝ) : ∀ (ks : List ℤ) (ds : List ℝ) (is : List ℕ),
    zipWith3 (fun k d i => f k d * h i) ks ds is = List.zipWith (fun x i => x * h i) (List.zipWith f ks ds) is
  | [], _, _ => by simp [zipWith3]
  | _ :: _, [], _ => by simp [zipWith3]
  | _ :: _, _ :: _, [] => by simp [zipWith3]
  | k :: ks, d :: ds, i :: is => by
      simp only [zipWith3, List.zipWith_cons_cons]
      rw [zipWith3_eq_zipWith f h ks ds is]

/-- `zipWith` against a list or against its `dropLast` agree when the other list is shorter -/
theorem zipWith_dropLast {β γ δ : Type} (f : β → γ → δ) : ∀ (l : List β) (r : List γ),
    l.length + 1 ≤ r.length → List.zipWith f l r.dropLast = List.zipWith f l r
  | [], _, _ => by simp
  | a :: l, [], h => by simp at h
  | a :: l, [b], h => by simp at h
  | a :: l, b :: c :: r, h => by
      rw [List.dropLast_cons_cons, List.zipWith_cons_cons, List.zipWith_cons_cons,
        zipWith_dropLast f l (c :: r) (by simpa using h)]

theorem length_cumsumFrom {β : Type} [Add β] (acc : β) (l : List β) : (cumsumFrom acc l).length = l.length := by
  induction l generalizing acc with
  | nil => rfl
  | cons a l ih => simp [cumsumFrom, ih]

theorem length_diffs (l : List ℝ) : (diffs l).length = l.length - 1 := by
  induction l with
  | nil => rfl
  | cons a l ih =>
    cases l with
    | nil => rfl
    | cons b l => simp only [diffs, List.length_cons] at ih ⊢; omega

theorem length_consHead {β : Type} (x : β) {G : List (List β)} (hG : G ≠ []) :
    (consHead x G).length = G.length := by
  cases G with
  | nil => exact absurd rfl hG
  | cons g gs => simp [consHead]

/-- one section more than there are `v` marks -/
theorem length_splitAtMarks {β : Type} (v : Int) : ∀ (ms : List Int) (vals : List β),
    (splitAtMarks v ms vals).length = ms.countP (fun m => decide (m = v)) + 1
  | [], _ => by simp [splitAtMarks]
  | m :: ms, [] => by
      have ih := length_splitAtMarks v ms ([] : List β)
      unfold splitAtMarks
      rw [List.countP_cons]
      by_cases hm : m = v <;> simp [hm, ih]
  | m :: ms, x :: xs => by
      have ih := length_splitAtMarks v ms xs
      have hne := splitAtMarks_ne_nil v ms xs
      unfold splitAtMarks
      rw [List.countP_cons]
      by_cases hm : m = v <;> simp [hm, ih, length_consHead x hne]

theorem zipWith_dropLast_left {β γ δ : Type} (f : β → γ → δ) : ∀ (l : List β) (r : List γ),
    r.length + 1 ≤ l.length → List.zipWith f l.dropLast r = List.zipWith f l r
  | _, [], _ => by simp
  | [], b :: r, h => by simp at h
  | [a], b :: r, h => by simp at h
  | a :: c :: l, b :: r, h => by
      rw [List.dropLast_cons_cons, List.zipWith_cons_cons, List.zipWith_cons_cons,
        zipWith_dropLast_left f (c :: l) r (by simpa using h)]

theorem zipWith_replicate_left {β γ δ : Type} (f : β → γ → δ) (c : β) : ∀ (m : ℕ) (r : List γ),
    r.length ≤ m → List.zipWith f (List.replicate m c) r = r.map (f c)
  | _, [], _ => by simp
  | 0, b :: r, h => by simp at h
  | m + 1, b :: r, h => by
      rw [List.replicate_succ, List.zipWith_cons_cons, List.map_cons,
        zipWith_replicate_left f c m r (by simpa using h)]

/-- the sorted events contain exactly `coal.length` coalescent marks -/
theorem count_coal_marks {samp coal grid : List ℝ} {ev : List (Ev ℝ)} (hperm : ev.Perm (evs samp coal grid)) :
    (marks ev).countP (fun m => decide (m = -1)) = coal.length := by
  unfold marks
  rw [List.countP_map, hperm.countP_eq, List.countP_eq_length_filter]
  have := filter_coal_evs samp coal grid
  simp only [Function.comp_def] at this ⊢
  rw [this, List.length_map]

end TT.C20
