import TTModel.C04_Subst
import TTProofs.Lemmas.Sums
import TTProofs.Lemmas.ScalarReal
import Mathlib.Analysis.SpecialFunctions.ExpDeriv
import Mathlib.Algebra.BigOperators.Field
import Mathlib.Tactic.FieldSimp
import Mathlib.Tactic.Ring
import Mathlib.Tactic.Positivity
import Mathlib.Tactic.Linarith
import Mathlib.Tactic.NormNum
/-! helper lemmas for C04: the closed forms `GeneralJC69.p_t` / `JC69.p_t` over `ℝ` -/
namespace TT.C04
open Real

/-- `exp(-n/(n-1) t)` -/
noncomputable def jcE (n : Nat) (t : ℝ) : ℝ := Real.exp (-(n : ℝ) / ((n : ℝ) - 1) * t)

theorem jcE_zero (n : Nat) : jcE n 0 = 1 := by simp [jcE]

theorem jcE_add (n : Nat) (s t : ℝ) : jcE n (s + t) = jcE n s * jcE n t := by
  unfold jcE; rw [← Real.exp_add]; ring_nf

theorem jcE_pos (n : Nat) (t : ℝ) : 0 < jcE n t := Real.exp_pos _

theorem jcE_le_one (n : Nat) (hn : 2 ≤ n) (t : ℝ) (ht : 0 ≤ t) : jcE n t ≤ 1 := by
  unfold jcE
  rw [Real.exp_le_one_iff]
  have h2 : (2 : ℝ) ≤ (n : ℝ) := by exact_mod_cast hn
  have : 0 ≤ (n : ℝ) / ((n : ℝ) - 1) * t := by
    apply mul_nonneg _ ht
    apply div_nonneg <;> linarith
  have e : -(n : ℝ) / ((n : ℝ) - 1) * t = -((n : ℝ) / ((n : ℝ) - 1) * t) := by ring
  rw [e]; linarith

/-- the closed form written as `((1 - E)/n) J + E I` -/
theorem generalJC69P_apply (n : Nat) (hn : (n : ℝ) ≠ 0) (t : ℝ) (i j : Fin n) :
    generalJC69P n t i j = (1 - jcE n t) / (n : ℝ) + jcE n t * (if i = j then 1 else 0) := by
  unfold generalJC69P jcE
  simp only [trans_exp_real]
  by_cases h : i = j
  · simp only [h, if_true]; field_simp; ring
  · simp only [h, if_false]; ring

theorem generalJC69P_zero (n : Nat) (hn : (n : ℝ) ≠ 0) : generalJC69P n (0 : ℝ) = ident := by
  funext i j
  rw [generalJC69P_apply n hn, jcE_zero]
  simp [ident]

theorem generalJC69P_row_sum (n : Nat) (hn : (n : ℝ) ≠ 0) (t : ℝ) (i : Fin n) :
    ∑ j, generalJC69P n t i j = 1 := by
  simp only [generalJC69P_apply n hn, Finset.sum_add_distrib, Finset.sum_const, Finset.card_univ,
    Fintype.card_fin, nsmul_eq_mul, ← Finset.mul_sum, Finset.sum_ite_eq, Finset.mem_univ, if_true]
  field_simp
  ring

theorem generalJC69P_nonneg (n : Nat) (hn : 2 ≤ n) (t : ℝ) (ht : 0 ≤ t) (i j : Fin n) :
    0 ≤ generalJC69P n t i j := by
  have h2 : (2 : ℝ) ≤ (n : ℝ) := by exact_mod_cast hn
  have hn0 : (n : ℝ) ≠ 0 := by linarith
  rw [generalJC69P_apply n hn0]
  have h1 := jcE_le_one n hn t ht
  have h0 := jcE_pos n t
  have : 0 ≤ (1 - jcE n t) / (n : ℝ) := div_nonneg (by linarith) (by linarith)
  split_ifs <;> nlinarith

theorem generalJC69P_le_one (n : Nat) (hn : 2 ≤ n) (t : ℝ) (ht : 0 ≤ t) (i j : Fin n) :
    generalJC69P n t i j ≤ 1 := by
  have hn0 : (n : ℝ) ≠ 0 := by
    have h2 : (2 : ℝ) ≤ (n : ℝ) := by exact_mod_cast hn
    linarith
  have hs := generalJC69P_row_sum n hn0 t i
  have hle : generalJC69P n t i j ≤ ∑ k, generalJC69P n t i k :=
    Finset.single_le_sum (f := fun k => generalJC69P n t i k)
      (fun k _ => generalJC69P_nonneg n hn t ht i k) (Finset.mem_univ j)
  linarith

theorem generalJC69P_semigroup (n : Nat) (hn : (n : ℝ) ≠ 0) (s t : ℝ) :
    mmul (generalJC69P n s) (generalJC69P n t) = generalJC69P n (s + t) := by
  funext i j
  unfold mmul
  rw [sumFin_eq_sum]
  simp only [generalJC69P_apply n hn, jcE_add]
  have e : ∀ k : Fin n,
      ((1 - jcE n s) / (n : ℝ) + jcE n s * (if i = k then 1 else 0)) *
        ((1 - jcE n t) / (n : ℝ) + jcE n t * (if k = j then 1 else 0))
      = (1 - jcE n s) / (n : ℝ) * ((1 - jcE n t) / (n : ℝ))
        + (1 - jcE n s) / (n : ℝ) * jcE n t * (if k = j then 1 else 0)
        + jcE n s * ((1 - jcE n t) / (n : ℝ)) * (if i = k then 1 else 0)
        + jcE n s * jcE n t * (if i = k then (if k = j then 1 else 0) else 0) := by
    intro k
    split_ifs <;> ring
  simp only [e, Finset.sum_add_distrib, ← Finset.mul_sum, Finset.sum_const, Finset.card_univ,
    Fintype.card_fin, nsmul_eq_mul, Finset.sum_ite_eq, Finset.sum_ite_eq', Finset.mem_univ, if_true]
  field_simp
  ring

/-- derivative of every entry of the closed form, at every time -/
theorem generalJC69P_hasDerivAt (n : Nat) (hn : (n : ℝ) ≠ 0) (t : ℝ) (i j : Fin n) :
    HasDerivAt (fun t => generalJC69P n t i j)
      ((-(n : ℝ) / ((n : ℝ) - 1)) * jcE n t * (-(1 / (n : ℝ)) + if i = j then 1 else 0)) t := by
  have hE : HasDerivAt (fun t => jcE n t) (jcE n t * (-(n : ℝ) / ((n : ℝ) - 1))) t := by
    unfold jcE
    have := (hasDerivAt_id t).const_mul (-(n : ℝ) / ((n : ℝ) - 1))
    simpa using this.exp
  have h1 : HasDerivAt (fun t => (1 - jcE n t) / (n : ℝ) + jcE n t * (if i = j then 1 else 0))
      ((0 - jcE n t * (-(n : ℝ) / ((n : ℝ) - 1))) / (n : ℝ)
        + jcE n t * (-(n : ℝ) / ((n : ℝ) - 1)) * (if i = j then 1 else 0)) t :=
    (((hasDerivAt_const t (1 : ℝ)).sub hE).div_const _).add (hE.mul_const _)
  have e : (fun t => generalJC69P n t i j)
      = fun t => (1 - jcE n t) / (n : ℝ) + jcE n t * (if i = j then 1 else 0) := by
    funext t; exact generalJC69P_apply n hn t i j
  rw [e]
  convert h1 using 1
  ring

theorem generalJC69Q_row_sum (n : Nat) (hn : 2 ≤ n) (i : Fin n) :
    ∑ j, generalJC69Q (α := ℝ) n i j = 0 := by
  have h2 : (2 : ℝ) ≤ (n : ℝ) := by exact_mod_cast hn
  have hc : ((n - 1 : Nat) : ℝ) = (n : ℝ) - 1 := by
    rw [Nat.cast_sub (by omega)]; simp
  have e : ∀ j, generalJC69Q (α := ℝ) n i j
      = 1 / ((n : ℝ) - 1) - (1 / ((n : ℝ) - 1) + 1) * (if i = j then 1 else 0) := by
    intro j; unfold generalJC69Q; rw [hc]; split_ifs <;> ring
  simp only [e, Finset.sum_sub_distrib, Finset.sum_const, Finset.card_univ, Fintype.card_fin,
    nsmul_eq_mul, ← Finset.mul_sum, Finset.sum_ite_eq, Finset.mem_univ, if_true]
  have : (n : ℝ) - 1 ≠ 0 := by linarith
  field_simp
  ring

theorem generalJC69_norm (n : Nat) (hn : (n : ℝ) ≠ 0) :
    norm (generalJC69Q (α := ℝ) n) (generalJC69Freq n) = 1 := by
  unfold norm
  rw [sumFin_eq_sum]
  simp only [generalJC69Q, generalJC69Freq, if_true, Finset.sum_const, Finset.card_univ,
    Fintype.card_fin, nsmul_eq_mul]
  field_simp

/-- derivative at `0` is the rate matrix `GeneralJC69.q()` -/
theorem generalJC69P_deriv_zero (n : Nat) (hn : 2 ≤ n) (i j : Fin n) :
    HasDerivAt (fun t => generalJC69P n t i j) (generalJC69Q (α := ℝ) n i j) 0 := by
  have h2 : (2 : ℝ) ≤ (n : ℝ) := by exact_mod_cast hn
  have hn0 : (n : ℝ) ≠ 0 := by linarith
  have hn1 : (n : ℝ) - 1 ≠ 0 := by linarith
  have hc : ((n - 1 : Nat) : ℝ) = (n : ℝ) - 1 := by
    rw [Nat.cast_sub (by omega)]; simp
  have h := generalJC69P_hasDerivAt n hn0 0 i j
  convert h using 1
  rw [jcE_zero]
  unfold generalJC69Q
  rw [hc]
  split_ifs <;> field_simp <;> ring

/-! `JC69` is `GeneralJC69` with four states -/

theorem jc69Q_eq : jc69Q (α := ℝ) = generalJC69Q 4 := by
  funext i j; simp [jc69Q, generalJC69Q]

theorem jc69Freq_eq : jc69Freq (α := ℝ) = generalJC69Freq 4 := by
  funext i; simp [jc69Freq, generalJC69Freq]

theorem jc69P_eq (t : ℝ) : jc69P t = generalJC69P 4 t := by
  funext i j
  unfold jc69P generalJC69P
  simp only [trans_exp_real, Nat.cast_ofNat]
  have e : (-(4 : ℝ) / 3 * t) = (-(4 : ℝ) / (4 - 1) * t) := by norm_num
  rw [e]
  split_ifs <;> ring

end TT.C04
