import TTModel.C20_GMRF
import TTProofs.Lemmas.ScalarReal
import Mathlib.Analysis.SpecialFunctions.Gamma.Basic
import Mathlib.MeasureTheory.Integral.IntegralEqImproper
/-!
# C20 — integrating the precision out of `Gamma(τ; a, b) · GMRF(x | τ)`
-/
namespace TT.C20
open MeasureTheory Set

/-- log density of the gamma distribution with shape `a` and rate `b` (`lgA = log Γ(a)`), the prior the
integrated model documents -/
noncomputable def gammaLogPdf (a b lgA τ : ℝ) : ℝ := a * Real.log b - lgA + (a - 1) * Real.log τ - b * τ

/-- `∫_0^∞ exp(c₀ + (s-1) log τ - r τ) dτ = exp(c₀) · Γ(s) / r^s` -/
theorem integral_exp_gamma_kernel (c₀ s r : ℝ) (hs : 0 < s) (hr : 0 < r) :
    ∫ τ in Ioi (0 : ℝ), Real.exp (c₀ + (s - 1) * Real.log τ - r * τ)
      = Real.exp (c₀ + Real.log (Real.Gamma s) - s * Real.log r) := by
  have hcongr : ∀ τ ∈ Ioi (0 : ℝ), Real.exp (c₀ + (s - 1) * Real.log τ - r * τ)
      = Real.exp c₀ * (τ ^ (s - 1) * Real.exp (-(r * τ))) := by
    intro τ hτ
    rw [Real.rpow_def_of_pos hτ, ← Real.exp_add, ← Real.exp_add]
    congr 1; ring
  rw [setIntegral_congr_fun measurableSet_Ioi hcongr, integral_const_mul,
    Real.integral_rpow_mul_exp_neg_mul_Ioi hs hr]
  have hG : 0 < Real.Gamma s := Real.Gamma_pos_of_pos hs
  rw [Real.exp_sub, Real.exp_add, Real.exp_log hG, one_div, Real.inv_rpow hr.le,
    Real.rpow_def_of_pos hr]
  rw [show Real.log r * s = s * Real.log r by ring]
  field_simp

/-- log density of the inverse-gamma distribution with shape `a` and scale `b` (`lgA = log Γ(a)`) -/
noncomputable def invGammaLogPdf (a b lgA θ : ℝ) : ℝ := a * Real.log b - lgA - (a + 1) * Real.log θ - b / θ

/-- `∫_0^∞ exp(c₀ − (s+1) log θ − r/θ) dθ = exp(c₀) · Γ(s) / r^s` (substitution `y = 1/θ`) -/
theorem integral_exp_invgamma_kernel (c₀ s r : ℝ) (hs : 0 < s) (hr : 0 < r) :
    ∫ θ in Ioi (0 : ℝ), Real.exp (c₀ - (s + 1) * Real.log θ - r / θ)
      = Real.exp (c₀ + Real.log (Real.Gamma s) - s * Real.log r) := by
  rw [← integral_exp_gamma_kernel c₀ s r hs hr,
    ← integral_comp_rpow_Ioi (fun y => Real.exp (c₀ + (s - 1) * Real.log y - r * y)) (p := -1) (by norm_num)]
  apply setIntegral_congr_fun measurableSet_Ioi
  intro x hx
  have hx0 : (0 : ℝ) < x := hx
  simp only [abs_neg, abs_one, one_mul, smul_eq_mul]
  rw [Real.log_rpow hx0, Real.rpow_neg_one, Real.rpow_def_of_pos hx0, ← Real.exp_add]
  congr 1
  rw [div_eq_mul_inv]
  ring

theorem sum_zipWith_neg_div (θ : ℝ) : ∀ (ks : List ℤ) (ds : List ℝ),
    (List.zipWith (fun k d => -(TT.C08.choose2 k : ℝ) * d / θ) ks ds).sum
      = -(List.zipWith (fun k d => (TT.C08.choose2 k : ℝ) * d) ks ds).sum / θ
  | [], _ => by simp
  | _ :: _, [] => by simp
  | k :: ks, d :: ds => by
      simp only [List.zipWith_cons_cons, List.sum_cons, sum_zipWith_neg_div θ ks ds]
      ring

end TT.C20
