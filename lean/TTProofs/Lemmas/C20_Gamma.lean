import TTModel.C20_GMRF
import TTProofs.Lemmas.ScalarReal
import Mathlib.Analysis.SpecialFunctions.Gamma.Basic
/-!
# C20 — integrating the precision out of `Gamma(τ; a, b) · GMRF(x | τ)`
-/
namespace TT.C20
open MeasureTheory Set

/-- log density of the gamma distribution with shape `a` and rate `b` (`lgA = log Γ(a)`), the prior the
integrated model documents -/
noncomputable def gammaLogPdf (a b lgA τ : ℝ) : ℝ := a * Real.log b - lgA + (a - 1) * Real.log τ - b * τ

/-- `∫_0^∞ exp(c₀ + (s-1) log τ - r τ) dτ = exp(c₀) · Γ(s) / r^s` -/
theorem integral_exp_gamma_kernel (c₀ s r : ℝ) (hs : 0 < s) (hr : 0 < r) :
    ∫ τ in Ioi (0 : ℝ), Real.exp (c₀ + (s - 1) * Real.log τ - r * τ)
      = Real.exp (c₀ + Real.log (Real.Gamma s) - s * Real.log r) := by
  have hcongr : ∀ τ ∈ Ioi (0 : ℝ), Real.exp (c₀ + (s - 1) * Real.log τ - r * τ)
      = Real.exp c₀ * (τ ^ (s - 1) * Real.exp (-(r * τ))) := by
    intro τ hτ
    rw [Real.rpow_def_of_pos hτ, ← Real.exp_add, ← Real.exp_add]
    congr 1; ring
  rw [setIntegral_congr_fun measurableSet_Ioi hcongr, integral_const_mul,
    Real.integral_rpow_mul_exp_neg_mul_Ioi hs hr]
  have hG : 0 < Real.Gamma s := Real.Gamma_pos_of_pos hs
  rw [Real.exp_sub, Real.exp_add, Real.exp_log hG, one_div, Real.inv_rpow hr.le,
    Real.rpow_def_of_pos hr]
  rw [show Real.log r * s = s * Real.log r by ring]
  field_simp

end TT.C20
