import TTModel.C19_CLI
import TTProofs.Lemmas.C19_CLI
/-! C19: what `paramCase` does to ONE annotated `Parameter` literal, uniformly over the dispatch table. -/
namespace TT.C19
open TT.C13 TT.C13.Json

variable {ν : Type} [CliNum ν]

/-- the row of the dispatch table that applies to a `Parameter` literal (`none`: fixed, unannotated,
or an annotation the code refuses) -/
def rowOf (d : Dispatch) (kvs : List (String × Json ν)) : Option Row :=
  match lookup "@lower" kvs, lookup "@upper" kvs with
  | some lo, some up => if isLo0 lo && isUp1 up then some d.unit else none
  | some lo, none =>
    match lo with
    | .num x => if CliNum.pos x then some d.lowerPos else some d.lower0
    | _ => none
  | none, _ => if simplexFlag kvs then some d.simplex else none

/-- an unconstrained plain parameter: what the sampler may move freely -/
def CleanParam (c : Json ν) : Prop :=
  ∃ ckvs, c = .obj ckvs ∧ lookup "type" ckvs = some (.str "Parameter") ∧
    lookup "@lower" ckvs = none ∧ lookup "@upper" ckvs = none ∧ lookup "@simplex" ckvs = none

/-- the image of an annotated parameter: a `TransformedParameter` with the row's transform over some child -/
def IsTransformed (row : Row) (j : Json ν) : Prop :=
  ∃ kvs', j = .obj kvs' ∧ lookup "type" kvs' = some (.str "TransformedParameter") ∧
    lookup "transform" kvs' = some (.str row.transform) ∧ (lookup "x" kvs').isSome = true

omit [CliNum ν] in
theorem lookup_foldl_delKey (key : String) (del : List String) (hne : ∀ k ∈ del, key ≠ k) :
    ∀ l : List (String × Json ν), lookup key (del.foldl (fun acc k => delKey k acc) l) = lookup key l := by
  induction del with
  | nil => intro l; rfl
  | cons k ks ih =>
    intro l
    simp only [List.foldl_cons]
    rw [ih (fun k' hk' => hne k' (List.mem_cons_of_mem _ hk'))]
    exact lookup_delKey_ne k key l (hne k List.mem_cons_self)

omit [CliNum ν] in
theorem rewrittenAs_isTransformed (row : Row) (kvs : List (String × Json ν)) (x : Json ν) (del : List String)
    (hdel : del = [] ∨ del = ["full"] ∨ del = ["full_like"]) :
    IsTransformed row (.obj (rewrittenAs kvs row.transform x del)) := by
  have h1 : ∀ k ∈ del, "type" ≠ k := by rcases hdel with h | h | h <;> subst h <;> simp
  have h2 : ∀ k ∈ del, "transform" ≠ k := by rcases hdel with h | h | h <;> subst h <;> simp
  have h3 : ∀ k ∈ del, "x" ≠ k := by rcases hdel with h | h | h <;> subst h <;> simp
  refine ⟨_, rfl, ?_, ?_, ?_⟩
  · simp only [rewrittenAs]
    rw [lookup_delKey_ne _ _ _ (by decide), lookup_foldl_delKey _ _ h1,
      lookup_setKey_ne _ _ _ _ (by decide), lookup_setKey_ne _ _ _ _ (by decide), lookup_setKey_same]
  · simp only [rewrittenAs]
    rw [lookup_delKey_ne _ _ _ (by decide), lookup_foldl_delKey _ _ h2,
      lookup_setKey_ne _ _ _ _ (by decide), lookup_setKey_same]
  · simp only [rewrittenAs]
    rw [lookup_delKey_ne _ _ _ (by decide), lookup_foldl_delKey _ _ h3, lookup_setKey_same]
    rfl

theorem childOf_spec (inv : ν → ν) (kvs : List (String × Json ν)) (xid : Json ν) (b : Bool)
    (x : List (String × Json ν)) (del : List String) (h : childOf inv kvs xid b = some (x, del)) :
    (del = [] ∨ del = ["full"] ∨ del = ["full_like"]) ∧ CleanParam (.obj x) := by
  unfold childOf at h
  simp only [bind, pure] at h
  repeat' (split at h)
  all_goals (simp only [Option.bind_eq_some_iff, Option.some.injEq, Prod.mk.injEq] at h)
  all_goals first
    | (obtain ⟨rfl, rfl⟩ := h
       exact ⟨by simp, _, rfl, by simp [lookup]⟩)
    | (obtain ⟨_, _, _, _, rfl, rfl⟩ := h
       exact ⟨by simp, _, rfl, by simp [lookup]⟩)
    | (obtain ⟨_, _, _, _, _, _, rfl, rfl⟩ := h
       exact ⟨by simp, _, rfl, by simp [lookup]⟩)

theorem expCase_covers (d : Dispatch) (kvs : List (String × Json ν)) (u : Unc ν) (h : expCase d kvs = some u) :
    IsTransformed d.lower0 u.json ∧ u.unres ≠ [] ∧ ∀ c ∈ u.unres, CleanParam c := by
  unfold expCase at h
  split at h
  · rename_i xid inv i _ _ _
    split at h
    · rename_i x del hc
      cases h
      have hs := childOf_spec inv kvs xid false x del hc
      exact ⟨rewrittenAs_isTransformed d.lower0 kvs _ del hs.1, by simp, by
        intro c hc'; simp at hc'; subst hc'; exact hs.2⟩
    · cases h
  · cases h

theorem sigmoidCase_covers (d : Dispatch) (kvs : List (String × Json ν)) (u : Unc ν) (h : sigmoidCase d kvs = some u) :
    IsTransformed d.unit u.json ∧ u.unres ≠ [] ∧ ∀ c ∈ u.unres, CleanParam c := by
  unfold sigmoidCase at h
  split at h
  · rename_i xid inv i _ _ _ _ _
    split at h
    · rename_i x del hc
      cases h
      have hs := childOf_spec inv kvs xid true x del hc
      exact ⟨rewrittenAs_isTransformed d.unit kvs _ del hs.1, by simp, by
        intro c hc'; simp at hc'; subst hc'; exact hs.2⟩
    · cases h
  · cases h

theorem simplexCase_covers (d : Dispatch) (kvs : List (String × Json ν)) (u : Unc ν) (h : simplexCase d kvs = some u) :
    IsTransformed d.simplex u.json ∧ u.unres ≠ [] ∧ ∀ c ∈ u.unres, CleanParam c := by
  unfold simplexCase at h
  split at h
  · cases h
  · split at h
    · cases h
      refine ⟨⟨_, rfl, ?_, ?_, ?_⟩, by simp, ?_⟩
      · split
        · rw [lookup_delKey_ne _ _ _ (by decide), lookup_delKey_ne _ _ _ (by decide),
            lookup_setKey_ne _ _ _ _ (by decide), lookup_setKey_ne _ _ _ _ (by decide), lookup_setKey_same]
        · rw [lookup_delKey_ne _ _ _ (by decide),
            lookup_setKey_ne _ _ _ _ (by decide), lookup_setKey_ne _ _ _ _ (by decide), lookup_setKey_same]
      · split
        · rw [lookup_delKey_ne _ _ _ (by decide), lookup_delKey_ne _ _ _ (by decide),
            lookup_setKey_ne _ _ _ _ (by decide), lookup_setKey_same]
        · rw [lookup_delKey_ne _ _ _ (by decide),
            lookup_setKey_ne _ _ _ _ (by decide), lookup_setKey_same]
      · split
        · rw [lookup_delKey_ne _ _ _ (by decide), lookup_delKey_ne _ _ _ (by decide), lookup_setKey_same]; rfl
        · rw [lookup_delKey_ne _ _ _ (by decide), lookup_setKey_same]; rfl
      · intro c hc
        simp at hc; subst hc
        exact ⟨_, rfl, by simp [lookup]⟩
    · cases h

theorem affineCase_covers (d : Dispatch) (kvs : List (String × Json ν)) (lo : ν) (u : Unc ν)
    (h : affineCase d kvs lo = some u) :
    IsTransformed d.lowerPos u.json ∧ u.unres ≠ [] ∧ ∀ c ∈ u.unres, CleanParam c := by
  unfold affineCase at h
  split at h
  · cases h
  · split at h
    · simp only at h
      split at h
      · rename_i inner hin
        cases h
        have hi := expCase_covers d _ inner hin
        refine ⟨⟨_, rfl, ?_, ?_, ?_⟩, hi.2.1, hi.2.2⟩
        · rw [lookup_delKey_ne _ _ _ (by decide), lookup_setKey_ne _ _ _ _ (by decide),
            lookup_setKey_ne _ _ _ _ (by decide), lookup_setKey_ne _ _ _ _ (by decide), lookup_setKey_same]
        · rw [lookup_delKey_ne _ _ _ (by decide), lookup_setKey_ne _ _ _ _ (by decide),
            lookup_setKey_ne _ _ _ _ (by decide), lookup_setKey_same]
        · rw [lookup_delKey_ne _ _ _ (by decide), lookup_setKey_same]; rfl
      · cases h
    · cases h

/-- **what happens to one annotated `Parameter`**: whenever `make_unconstrained` handles it (no
exception), it has become a `TransformedParameter` carrying the transform of ITS row of the
dispatch table over some child `x`, and everything handed to the sampler for it is a plain
`Parameter` without any constraint annotation. -/
theorem paramCase_covers (d : Dispatch) (kvs : List (String × Json ν)) (u : Unc ν) (row : Row)
    (h : paramCase d kvs = some u) (hr : rowOf d kvs = some row) :
    IsTransformed row u.json ∧ u.unres ≠ [] ∧ ∀ c ∈ u.unres, CleanParam c := by
  unfold paramCase at h
  unfold rowOf at hr
  split at h
  · rename_i lo up hlo hup
    simp only [hlo, hup] at hr
    by_cases hc : (isLo0 lo && isUp1 up) = true
    · simp only [hc, if_true, Option.some.injEq] at hr h
      subst hr
      exact sigmoidCase_covers d kvs u h
    · simp [hc] at hr
  · rename_i lo hlo hup
    simp only [hlo, hup] at hr
    cases lo with
    | num x =>
      simp only at h hr
      by_cases hpos : CliNum.pos x = true
      · simp only [hpos, if_true, Option.some.injEq] at hr h
        subst hr
        exact affineCase_covers d kvs x u h
      · simp only [hpos, Bool.false_eq_true, if_false, Option.some.injEq] at hr h
        subst hr
        exact expCase_covers d kvs u h
    | _ => simp at hr
  · rename_i hlo
    simp only [hlo] at hr
    by_cases hs : simplexFlag kvs = true
    · simp only [hs, if_true, Option.some.injEq] at hr h
      subst hr
      exact simplexCase_covers d kvs u h
    · simp [hs] at hr

/-- a parameter to which no row applies and which is accepted (fixed `@lower == @upper`, or
unannotated) is left exactly as it is -/
theorem paramCase_untouched (d : Dispatch) (kvs : List (String × Json ν)) (u : Unc ν)
    (h : paramCase d kvs = some u) (hr : rowOf d kvs = none) : u.json = .obj kvs := by
  unfold paramCase at h
  unfold rowOf at hr
  split at h
  · rename_i lo up hlo hup
    simp only [hlo, hup] at hr
    by_cases hc : (isLo0 lo && isUp1 up) = true
    · simp [hc] at hr
    · simp only [hc, Bool.false_eq_true, if_false] at h
      split at h
      · cases h; rfl
      · cases h
  · rename_i lo hlo hup
    simp only [hlo, hup] at hr
    cases lo with
    | num x => simp only at hr; split at hr <;> cases hr
    | _ => simp at h
  · rename_i hlo
    simp only [hlo] at hr
    by_cases hs : simplexFlag kvs = true
    · simp [hs] at hr
    · simp only [hs, Bool.false_eq_true, if_false] at h
      split at h
      · cases h; rfl
      · cases h

end TT.C19
