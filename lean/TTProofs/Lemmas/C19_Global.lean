import TTModel.C19_CLI
import TTProofs.Lemmas.C19_CLI
/-! C19: `makeUnconstrained` / `meanfieldRewrite` as ONE statement over the whole Json tree: every
reached `Parameter` literal is replaced by its `paramCase` / `mfParam` image, nothing else changes,
and the reported lists are the concatenation, in document order, of the per-literal lists. -/
namespace TT.C19
open TT.C13 TT.C13.Json

variable {ν : Type} [CliNum ν]

def ucJson (d : Dispatch) (kvs : List (String × Json ν)) : Json ν :=
  match paramCase d kvs with
  | some u => u.json
  | none => .obj kvs
def ucUnres (d : Dispatch) (kvs : List (String × Json ν)) : List (Json ν) :=
  match paramCase d kvs with
  | some u => u.unres
  | none => []
def ucParams (d : Dispatch) (kvs : List (String × Json ν)) : List (Json ν) :=
  match paramCase d kvs with
  | some u => u.params
  | none => []

mutual
theorem makeUnconstrained_global (d : Dispatch) : ∀ (j : Json ν) (r : Unc ν), makeUnconstrained d j = some r →
    (∀ kvs ∈ topParams j, (paramCase d kvs).isSome = true) ∧ r.json = mapTop (ucJson d) j ∧
    r.unres = (topParams j).flatMap (ucUnres d) ∧ r.params = (topParams j).flatMap (ucParams d)
  | .arr xs, r, h => by
    simp only [makeUnconstrained] at h
    cases hm : muList d xs with
    | none => simp [hm] at h
    | some t =>
      rcases t with ⟨ys, u, p⟩
      simp [hm] at h
      subst h
      have := muList_global d xs ys u p hm
      simp only [topParams, mapTop]
      exact ⟨this.1, by rw [this.2.1], this.2.2.1, this.2.2.2⟩
  | .obj kvs, r, h => by
    simp only [makeUnconstrained] at h
    by_cases hp : strIs "Parameter" (lookup "type" kvs) = true
    · simp only [hp, if_true] at h
      simp only [topParams, mapTop, hp, if_true, List.mem_singleton, forall_eq, List.flatMap_cons,
        List.flatMap_nil, List.append_nil, ucJson, ucUnres, ucParams, h]
      simp
    · simp only [hp] at h
      cases hm : muFields d kvs with
      | none => simp [hm] at h
      | some t =>
        rcases t with ⟨ys, u, p⟩
        simp [hm] at h
        subst h
        have := muFields_global d kvs ys u p hm
        simp only [topParams, mapTop, hp]
        exact ⟨this.1, by simp [this.2.1], this.2.2.1, this.2.2.2⟩
  | .null, r, h => by simp [makeUnconstrained] at h; subst h; simp [topParams, mapTop]
  | .bool _, r, h => by simp [makeUnconstrained] at h; subst h; simp [topParams, mapTop]
  | .num _, r, h => by simp [makeUnconstrained] at h; subst h; simp [topParams, mapTop]
  | .str _, r, h => by simp [makeUnconstrained] at h; subst h; simp [topParams, mapTop]
theorem muList_global (d : Dispatch) : ∀ (xs ys u p : List (Json ν)), muList d xs = some (ys, u, p) →
    (∀ kvs ∈ topParamsList xs, (paramCase d kvs).isSome = true) ∧ ys = mapTopList (ucJson d) xs ∧
    u = (topParamsList xs).flatMap (ucUnres d) ∧ p = (topParamsList xs).flatMap (ucParams d)
  | [], ys, u, p, h => by
    simp [muList] at h
    rcases h with ⟨rfl, rfl, rfl⟩
    simp [topParamsList, mapTopList]
  | x :: xs, ys, u, p, h => by
    simp only [muList] at h
    cases hx : makeUnconstrained d x with
    | none => simp [hx] at h
    | some r =>
      cases hm : muList d xs with
      | none => simp [hx, hm] at h
      | some t =>
        rcases t with ⟨ys', u', p'⟩
        simp [hx, hm] at h
        rcases h with ⟨rfl, rfl, rfl⟩
        have h1 := makeUnconstrained_global d x r hx
        have h2 := muList_global d xs ys' u' p' hm
        refine ⟨?_, ?_, ?_, ?_⟩
        · intro kvs hk
          simp only [topParamsList, List.mem_append] at hk
          rcases hk with hk | hk
          · exact h1.1 kvs hk
          · exact h2.1 kvs hk
        · simp [mapTopList, h1.2.1, h2.2.1]
        · simp [topParamsList, List.flatMap_append, h1.2.2.1, h2.2.2.1]
        · simp [topParamsList, List.flatMap_append, h1.2.2.2, h2.2.2.2]
theorem muFields_global (d : Dispatch) :
    ∀ (kvs ys : List (String × Json ν)) (u p : List (Json ν)), muFields d kvs = some (ys, u, p) →
    (∀ k ∈ topParamsFields kvs, (paramCase d k).isSome = true) ∧ ys = mapTopFields (ucJson d) kvs ∧
    u = (topParamsFields kvs).flatMap (ucUnres d) ∧ p = (topParamsFields kvs).flatMap (ucParams d)
  | [], ys, u, p, h => by
    simp [muFields] at h
    rcases h with ⟨rfl, rfl, rfl⟩
    simp [topParamsFields, mapTopFields]
  | (k, v) :: rest, ys, u, p, h => by
    simp only [muFields] at h
    cases hx : makeUnconstrained d v with
    | none => simp [hx] at h
    | some r =>
      cases hm : muFields d rest with
      | none => simp [hx, hm] at h
      | some t =>
        rcases t with ⟨ys', u', p'⟩
        simp [hx, hm] at h
        rcases h with ⟨rfl, rfl, rfl⟩
        have h1 := makeUnconstrained_global d v r hx
        have h2 := muFields_global d rest ys' u' p' hm
        refine ⟨?_, ?_, ?_, ?_⟩
        · intro kk hk
          simp only [topParamsFields, List.mem_append] at hk
          rcases hk with hk | hk
          · exact h1.1 kk hk
          · exact h2.1 kk hk
        · simp [mapTopFields, h1.2.1, h2.2.1]
        · simp [topParamsFields, List.flatMap_append, h1.2.2.1, h2.2.2.1]
        · simp [topParamsFields, List.flatMap_append, h1.2.2.2, h2.2.2.2]
end

/-! the same for `create_meanfield`'s rewriting -/

def mfJson (m : Dispatch) (kvs : List (String × Json ν)) : Json ν :=
  match mfParam m kvs with
  | some j => j
  | none => .obj kvs

mutual
theorem meanfieldRewrite_global (m : Dispatch) : ∀ (j j' : Json ν), meanfieldRewrite m j = some j' →
    (∀ kvs ∈ topParams j, (mfParam m kvs).isSome = true) ∧ j' = mapTop (mfJson m) j
  | .arr xs, j', h => by
    simp only [meanfieldRewrite] at h
    cases hm : mfList m xs with
    | none => simp [hm] at h
    | some ys =>
      simp [hm] at h; subst h
      have := mfList_global m xs ys hm
      simp only [topParams, mapTop]
      exact ⟨this.1, by rw [this.2]⟩
  | .obj kvs, j', h => by
    simp only [meanfieldRewrite] at h
    by_cases hp : strIs "Parameter" (lookup "type" kvs) = true
    · simp only [hp, if_true] at h
      simp [topParams, mapTop, hp, mfJson, h]
    · simp only [hp] at h
      cases hm : mfFields m kvs with
      | none => simp [hm] at h
      | some ys =>
        simp [hm] at h; subst h
        have := mfFields_global m kvs ys hm
        simp only [topParams, mapTop, hp]
        exact ⟨this.1, by simp [this.2]⟩
  | .null, j', h => by simp [meanfieldRewrite] at h; subst h; simp [topParams, mapTop]
  | .bool _, j', h => by simp [meanfieldRewrite] at h; subst h; simp [topParams, mapTop]
  | .num _, j', h => by simp [meanfieldRewrite] at h; subst h; simp [topParams, mapTop]
  | .str _, j', h => by simp [meanfieldRewrite] at h; subst h; simp [topParams, mapTop]
theorem mfList_global (m : Dispatch) : ∀ (xs ys : List (Json ν)), mfList m xs = some ys →
    (∀ kvs ∈ topParamsList xs, (mfParam m kvs).isSome = true) ∧ ys = mapTopList (mfJson m) xs
  | [], ys, h => by simp [mfList] at h; subst h; simp [topParamsList, mapTopList]
  | x :: xs, ys, h => by
    simp only [mfList] at h
    cases hx : meanfieldRewrite m x with
    | none => simp [hx] at h
    | some y =>
      cases hm : mfList m xs with
      | none => simp [hx, hm] at h
      | some ys' =>
        simp [hx, hm] at h; subst h
        have h1 := meanfieldRewrite_global m x y hx
        have h2 := mfList_global m xs ys' hm
        refine ⟨?_, by simp [mapTopList, h1.2, h2.2]⟩
        intro kvs hk
        simp only [topParamsList, List.mem_append] at hk
        rcases hk with hk | hk
        · exact h1.1 kvs hk
        · exact h2.1 kvs hk
theorem mfFields_global (m : Dispatch) : ∀ (kvs ys : List (String × Json ν)), mfFields m kvs = some ys →
    (∀ k ∈ topParamsFields kvs, (mfParam m k).isSome = true) ∧ ys = mapTopFields (mfJson m) kvs
  | [], ys, h => by simp [mfFields] at h; subst h; simp [topParamsFields, mapTopFields]
  | (k, v) :: rest, ys, h => by
    simp only [mfFields] at h
    cases hx : meanfieldRewrite m v with
    | none => simp [hx] at h
    | some y =>
      cases hm : mfFields m rest with
      | none => simp [hx, hm] at h
      | some ys' =>
        simp [hx, hm] at h; subst h
        have h1 := meanfieldRewrite_global m v y hx
        have h2 := mfFields_global m rest ys' hm
        refine ⟨?_, by simp [mapTopFields, h1.2, h2.2]⟩
        intro kk hk
        simp only [topParamsFields, List.mem_append] at hk
        rcases hk with hk | hk
        · exact h1.1 kk hk
        · exact h2.1 kk hk
end

end TT.C19
