import TTProofs.Lemmas.C08_Spec
/-! concrete instance used by the non-vacuity `example`s of `Props/C08.lean`:
sampling times `0, 0, 1` (a tie, serial sampling), coalescent times `2, 3`, supplied shuffled -/
namespace TT.C08.Ex

theorem p3 : ([1, 0, 0] : List ℝ).Perm [0, 0, 1] :=
  (List.Perm.swap 0 1 [0]).trans ((List.Perm.swap 0 1 []).cons 0)

theorem p2 : ([3, 2] : List ℝ).Perm [2, 3] := List.Perm.swap 2 3 []

theorem young : ∀ c ∈ ([2, 3] : List ℝ), ∃ s ∈ ([0, 0, 1] : List ℝ), s < c := by
  intro c hc
  exact ⟨0, by simp, by simp at hc; rcases hc with rfl | rfl <;> norm_num⟩

end TT.C08.Ex
