import TTProofs.Lemmas.C09_SplitRec
/-! C09: events inside a grid; rho-tips; list helpers for splitting sums. -/
open TT TT.C09
namespace TT.C09

/-- events of a tree inside the grid: births in `[t_0, t_m)`, samplings in `(t_0, t_m]` -/
def Events (t : Nat → ℝ) (m : Nat) (xs ys : List ℝ) : Prop :=
  (∀ x ∈ xs, t 0 ≤ x ∧ x < t m) ∧ (∀ y ∈ ys, t 0 < y ∧ y ≤ t m)

theorem countEq_pos_iff (t : Nat → ℝ) (n : Nat) (y : ℝ) : 0 < countEq t n y ↔ ∃ j, j < n ∧ t j = y := by
  unfold countEq
  rw [List.length_pos_iff_exists_mem]
  constructor
  · rintro ⟨j, hj⟩
    simp only [List.mem_filter, List.mem_range, beq_iff_eq] at hj
    exact ⟨j, hj.1, hj.2⟩
  · rintro ⟨j, hj, e⟩
    exact ⟨j, by simp [List.mem_filter, hj, e]⟩

/-- a tip is `rho`-sampled iff it sits at the end of an epoch whose `rho` is positive -/
theorem isRhoTip_iff {r : Rates ℝ} {t : Nat → ℝ} {m : Nat} (g : Grid t m) (y : ℝ) (h0 : t 0 < y) (hm : y ≤ t m) :
    isRhoTip r t m y = true ↔ ∃ k, k < m ∧ y = t (k + 1) ∧ 0 < r.rho k := by
  unfold isRhoTip
  simp only [Bool.and_eq_true, decide_eq_true_eq, countEq_pos_iff]
  obtain ⟨k, hk, h1, h2⟩ := exists_epoch_Y (t := t) (m := m) y h0 hm
  have hidx := idxY_of_mem g k hk y h1 h2
  constructor
  · rintro ⟨⟨j, hj, e⟩, hr⟩
    refine ⟨k, hk, ?_, by rw [hidx] at hr; exact hr⟩
    -- t j = y ∈ (t k, t (k+1)] forces j = k+1
    have hjk : k < j := by
      by_contra hc
      have := g.le (not_lt.mp hc) (by omega)
      linarith
    have hjk' : j ≤ k + 1 := by
      by_contra hc
      have := g (k + 1) j (by omega) (by omega)
      linarith
    have : j = k + 1 := by omega
    rw [← e, this]
  · rintro ⟨k', hk', e, hr⟩
    have hkk : k' = k := by
      have h3 : t k' < y := by rw [e]; exact g k' (k' + 1) (by omega) (by omega)
      have := idxY_of_mem g k' hk' y h3 (le_of_eq e)
      rw [this] at hidx; exact hidx
    subst hkk
    exact ⟨⟨k' + 1, by omega, e.symm⟩, by rw [hidx]; exact hr⟩

theorem sum_filter_split (l : List ℝ) (P Q : ℝ → Prop) [DecidablePred P] [DecidablePred Q] (f : ℝ → ℝ) :
    ((l.filter fun x => P x).map f).sum
      = ((l.filter fun x => P x ∧ Q x).map f).sum + ((l.filter fun x => P x ∧ ¬ Q x).map f).sum := by
  induction l with
  | nil => simp
  | cons a l ih =>
      by_cases hp : P a <;> by_cases hq : Q a <;> simp [List.filter_cons, hp, hq, ih] <;> ring

theorem length_filter_split' (l : List ℝ) (P Q : ℝ → Prop) [DecidablePred P] [DecidablePred Q] :
    (l.filter fun x => P x).length
      = (l.filter fun x => P x ∧ Q x).length + (l.filter fun x => P x ∧ ¬ Q x).length := by
  induction l with
  | nil => simp
  | cons a l ih =>
      by_cases hp : P a <;> by_cases hq : Q a <;> simp [List.filter_cons, hp, hq, ih] <;> omega

theorem filter_congr_mem (l : List ℝ) (P Q : ℝ → Prop) [DecidablePred P] [DecidablePred Q]
    (h : ∀ x ∈ l, (P x ↔ Q x)) : (l.filter fun x => P x) = l.filter fun x => Q x := by
  apply List.filter_congr
  intro x hx
  simp only [decide_eq_decide]
  exact h x hx

end TT.C09
