import TTModel.C11_Cache
set_option linter.unusedSimpArgs false
/-! C11 helper lemmas: the executable checks of the driver imply the propositions the main
theorem assumes; class-level well-wiredness lifts to every graph that instantiates the classes -/
namespace TT.C11

theorem allLt_iff (n : Nat) (p : Nat → Bool) : allLt n p = true ↔ ∀ i < n, p i = true := by
  unfold allLt
  simp [List.all_eq_true, List.mem_range]

/-- `wfB` (run by the driver on every extracted graph) is sound for `WF` -/
theorem wfB_sound (m : Machine) (h : wfB m = true) : WF m := by
  unfold wfB at h
  simp only [Bool.and_eq_true, allLt_iff] at h
  obtain ⟨⟨⟨⟨⟨⟨h1, h2⟩, h3⟩, h4⟩, h5⟩, h6⟩, h7⟩ := h
  refine ⟨?_, ?_, ?_, ?_, ?_, ?_, ?_, ?_, ?_, ?_⟩
  · intro c hc r hr
    have := h1 c hc
    simp only [List.all_eq_true, decide_eq_true_eq] at this
    exact this r hr
  · intro c hc; simpa using h2 c hc
  · intro j hj l hl
    have := h3 j hj
    simp only [List.all_eq_true, Bool.and_eq_true, decide_eq_true_eq] at this
    exact this l hl
  · intro c hc c' hc' ho hg hn
    have := h4 c hc c' hc'
    simp only [Bool.or_eq_true, Bool.not_eq_true', Bool.and_eq_false_iff, decide_eq_false_iff_not,
      decide_eq_true_eq] at this
    rcases this with (h | h) | h
    · rcases h with h | h
      · exact absurd ho h
      · exact absurd hg h
    · simp at h; exact absurd h hn
    · exact h
  · intro c hc hl c' hc' ho
    have := h5 c hc
    simp only [hl, Bool.not_true, Bool.false_or, allLt_iff] at this
    have := this c' hc'
    simp only [Bool.or_eq_true, Bool.not_eq_true', decide_eq_false_iff_not, decide_eq_true_eq] at this
    rcases this with h | h
    · exact absurd ho h
    · exact h
  · intro c hc hl
    have := h6 c hc
    simpa [hl] using this
  · intro j hj c hs
    have := h7 j hj
    simp only [hs, Bool.and_eq_true, decide_eq_true_eq] at this
    exact ⟨this.1.1, this.1.2, this.2⟩
  · intro j hj p pc hs
    have := h7 j hj
    simp only [hs, Bool.and_eq_true, decide_eq_true_eq] at this
    exact ⟨this.1.1.1, this.1.1.2, this.1.2, this.2⟩
  · intro j hj x hs
    have := h7 j hj
    simpa [hs] using this
  · intro j hj ch f hs x hx
    have := h7 j hj
    simp only [hs, List.all_eq_true, decide_eq_true_eq] at this
    exact this x hx

theorem mem_enumFrom {α} (l : List α) : ∀ (start i : Nat) (h : i < l.length),
    (start + i, l[i]) ∈ enumFrom start l := by
  induction l with
  | nil => intro _ i h; cases h
  | cons x xs ih =>
    intro start i h
    cases i with
    | zero => simp [enumFrom]
    | succ i =>
      simp only [enumFrom, List.mem_cons, List.getElem_cons_succ]
      right
      have := ih (start + 1) i (by simpa using h)
      rwa [show start + 1 + i = start + (i + 1) by omega] at this

theorem getD_eq_getElem {α} (l : List α) (i : Nat) (d : α) (h : i < l.length) : l.getD i d = l[i] := by
  simp [List.getD, List.getElem?_eq_getElem h]

/-- what `classOK` gives for one template cell -/
theorem classOK_cell (s : ClassSpec) (r : ClassReads) (h : classOK s r = true) (i : Nat)
    (hi : i < r.cells.length) : cellOK s r i (r.cells.getD i default) = true := by
  unfold classOK at h
  simp only [Bool.and_eq_true, List.all_eq_true] at h
  have := h.1.1 (0 + i, r.cells[i]) (mem_enumFrom r.cells 0 i hi)
  rw [getD_eq_getElem _ _ _ hi]
  simpa using this

theorem classOK_kind (s : ClassSpec) (r : ClassReads) (h : classOK s r = true) (k k' : Kind)
    (ht : (s.handler k).tail = .fire k') : k' = s.emits := by
  unfold classOK at h
  simp only [Bool.and_eq_true, List.all_eq_true] at h
  have := (h.2 k (by cases k <;> simp)).2
  rw [ht] at this
  simpa using this

theorem classOK_noraise (s : ClassSpec) (r : ClassReads) (h : classOK s r = true) (k : Kind)
    (hc : s.canReceive k = true) : (s.handler k).tail ≠ .raise := by
  unfold classOK at h
  simp only [Bool.and_eq_true, List.all_eq_true] at h
  have := (h.2 k (by cases k <;> simp)).1
  simp only [hc, Bool.not_true, Bool.false_or, Bool.and_eq_true, bne_iff_ne, ne_eq] at this
  exact this.2

/-- **lifting**: a well-formed graph that instantiates the class templates (`conformsB`) and all of
whose classes are well wired (`classOK`, decided on the generated table) is well wired -/
theorem conforms_wellwired (m : Machine) (hwf : WF m) (hc : conformsB m = true)
    (hk : classesOKB m = true) : WellWired m := by
  unfold conformsB at hc
  unfold classesOKB at hk
  simp only [Bool.and_eq_true, allLt_iff] at hc hk
  obtain ⟨⟨⟨hcell, hreg⟩, hlst⟩, _⟩ := hc
  -- unpack the per-cell conformance once
  have cellFacts : ∀ c < m.nC,
      (m.cellAt c).tmpl < (m.readsOf (m.cellAt c).owner).cells.length ∧
      (m.cellAt c).kinds = ((m.readsOf (m.cellAt c).owner).cells.getD (m.cellAt c).tmpl default).kinds ∧
      (m.cellAt c).guard = cellGuardIdx (m.specOf (m.cellAt c).owner)
        ((m.readsOf (m.cellAt c).owner).cells.getD (m.cellAt c).tmpl default) ∧
      ∀ rd ∈ (m.cellAt c).reads,
        (if (m.cellAt rd.1).owner = (m.cellAt c).owner then
          (((m.readsOf (m.cellAt c).owner).cells.getD (m.cellAt c).tmpl default).own.contains
            ((m.cellAt rd.1).tmpl, rd.2)) = true
        else ((m.nodeAt (m.cellAt c).owner).inputs.any fun inp =>
          decide (inp.1 = (m.cellAt rd.1).owner) &&
          ((m.readsOf (m.cellAt c).owner).cells.getD (m.cellAt c).tmpl default).ext.contains
            (inp.2, m.emits (m.cellAt rd.1).owner)) = true) := by
    intro c hcc
    have := hcell c hcc
    simp only [Bool.and_eq_true, decide_eq_true_eq, List.all_eq_true] at this
    obtain ⟨⟨⟨⟨⟨⟨a1, a2⟩, a3⟩, _⟩, _⟩, _⟩, a7⟩ := this
    refine ⟨a1, a2, a3, ?_⟩
    intro rd hrd
    have := a7 rd hrd
    split
    · rename_i hh; simpa [hh] using this
    · rename_i hh; simpa [hh] using this
  have cellok : ∀ c < m.nC, cellOK (m.specOf (m.cellAt c).owner) (m.readsOf (m.cellAt c).owner)
      (m.cellAt c).tmpl ((m.readsOf (m.cellAt c).owner).cells.getD (m.cellAt c).tmpl default) = true := by
    intro c hcc
    exact classOK_cell _ _ (hk _ (hwf.owner_lt c hcc)) _ (cellFacts c hcc).1
  refine ⟨?_, ?_, ?_, ?_, ?_⟩
  · -- ext
    intro c hcc r hr hne
    obtain ⟨_, hkinds, _, hreads⟩ := cellFacts c hcc
    have h := hreads r hr
    rw [if_neg hne] at h
    simp only [List.any_eq_true, Bool.and_eq_true, decide_eq_true_eq] at h
    obtain ⟨inp, hinp, hu, hext⟩ := h
    have hok := cellok c hcc
    unfold cellOK at hok
    simp only [Bool.and_eq_true, List.all_eq_true] at hok
    have he := hok.1.1.2 _ (List.contains_iff_mem.mp hext)
    simp only [Bool.and_eq_true] at he
    constructor
    · have := hreg _ (hwf.owner_lt c hcc)
      simp only [List.all_eq_true, Bool.or_eq_true, Bool.not_eq_true'] at this
      rcases this inp hinp with h' | h'
      · rw [hu, he.1] at h'; cases h'
      · rw [hu] at h'; exact List.contains_iff_mem.mp h'
    · rw [hkinds]; exact List.contains_iff_mem.mp he.2
  · -- own
    intro c hcc r hr hsame k hkk
    obtain ⟨_, hkinds, _, hreads⟩ := cellFacts c hcc
    have h := hreads r hr
    rw [if_pos hsame] at h
    have hok := cellok c hcc
    unfold cellOK at hok
    simp only [Bool.and_eq_true, List.all_eq_true] at hok
    have ho := hok.1.2 _ (List.contains_iff_mem.mp h)
    simp only [Bool.and_eq_true, List.all_eq_true, decide_eq_true_eq] at ho
    have hrlt : r.1 < m.nC := by have := hwf.reads_lt c hcc r hr; omega
    have hk2 := (cellFacts r.1 hrlt).2.1
    rw [hsame] at hk2
    rw [hk2] at hkk
    rw [hkinds]
    exact List.contains_iff_mem.mp (ho.2 k hkk)
  · -- sets
    intro c hcc k hkk
    obtain ⟨_, hkinds, hguard, _⟩ := cellFacts c hcc
    have hok := cellok c hcc
    unfold cellOK at hok
    simp only [Bool.and_eq_true, List.all_eq_true] at hok
    rw [hkinds] at hkk
    have := hok.1.1.1 k hkk
    simp only [Bool.and_eq_true, beq_iff_eq] at this
    refine ⟨this.1.2, ?_⟩
    intro f hf
    rw [hguard] at hf
    have h3 := this.2
    rw [hf] at h3
    exact List.contains_iff_mem.mp h3
  · -- noraise
    intro j hj l hl
    have hlN := (hwf.lst_gt j hj l hl).2
    have := hlst j hj
    simp only [List.all_eq_true, List.any_eq_true, Bool.and_eq_true, decide_eq_true_eq] at this
    obtain ⟨inp, _, hu, hr⟩ := this l hl
    apply classOK_noraise _ _ (hk l hlN)
    unfold ClassSpec.canReceive
    cases ho : inp.2 <;> simp [ho] at hr <;> simp [hr]
  · -- kind
    intro j hj k k' ht
    exact classOK_kind _ _ (hk j hj) k k' ht

end TT.C11
