import TTProofs.Lemmas.C09_Epochs
/-! C09: the constant-rate class `BirthDeath` is the single-epoch skyline. -/
open TT TT.C09
namespace TT.C09

/-- the first factor as `birth_death.py` writes it (`e = exp(-A T)`) is `q` at distance `T` -/
theorem q0_eq_qv (A B T : ℝ) :
    4 * Real.exp (-(A * T)) / ((Real.exp (-(A * T)) * (1 - B) + (1 + B)) * (Real.exp (-(A * T)) * (1 - B) + (1 + B)))
      = qv A B T := by
  unfold qv
  have h : Real.exp (-(A * T)) = (Real.exp (A * T))⁻¹ := Real.exp_neg _
  rw [h]
  have hne : Real.exp (A * T) ≠ 0 := Real.exp_ne_zero _
  set E := Real.exp (A * T)
  have : E⁻¹ * (1 - B) + (1 + B) = (E * (1 + B) + (1 - B)) / E := by field_simp; ring
  rw [this, div_mul_div_comm, ← sq, div_div_eq_mul_div]
  field_simp

theorem ite_any_sum' (ys : List ℝ) (P : ℝ → Bool) (h : ℝ → ℝ) :
    (if (ys.any fun y => !P y) = true then (ys.map fun y => if P y = true then 0 else h y).sum else 0)
      = (ys.map fun y => if P y = true then 0 else h y).sum := by
  split
  · rfl
  · rename_i hc
    symm
    apply sum_zero_of_all
    intro y hy
    simp only [Bool.not_eq_true, List.any_eq_false, Bool.not_eq_eq_eq_not] at hc
    have hP : P y = true := by
      have := hc y hy
      cases hv : P y <;> simp_all
    simp [hP]

theorem rho_sum (l : List ℝ) (ρ : ℝ) :
    (l.map fun h => if h = 0 ∧ 0 < ρ then Real.log (if 0 < ρ then ρ else 1) else 0).sum
      = ((l.filter (· = 0)).length : ℝ) * Real.log (if 0 < (l.filter (· = 0)).length ∧ 0 < ρ then ρ else 1) := by
  by_cases hρ : 0 < ρ
  · simp only [hρ, and_true, ↓reduceIte]
    induction l with
    | nil => simp
    | cons a l ih =>
        by_cases ha : a = 0
        · simp only [List.map_cons, List.sum_cons, ha, ↓reduceIte, List.filter_cons, decide_true, List.length_cons,
            Nat.cast_add, Nat.cast_one, Nat.lt_add_one_iff, Nat.zero_le]
          rw [ih]
          by_cases hl : 0 < (l.filter (· = 0)).length
          · simp [hl]; ring
          · have : (l.filter (· = 0)).length = 0 := by omega
            simp [this]
        · simp only [List.map_cons, List.sum_cons, ha, ↓reduceIte, List.filter_cons, decide_false, zero_add,
            Bool.false_eq_true]
          exact ih
  · simp [hρ]

/-- **the constant model is the single-epoch skyline**: `BirthDeath.log_prob` (as repaired) equals
`PiecewiseConstantBirthDeath.log_prob` with one epoch `[0, T)`, for every input in the domain -/
theorem logProbConst_eq_single (r : Rates ℝ) (t : Nat → ℝ) (T : ℝ) (h0 : t 0 = 0) (h1 : t 1 = T)
    (surv : Bool) (tips ints : List ℝ) (hT : 0 < T)
    (hints : ∀ h ∈ ints, 0 < h ∧ h < T) (htips : ∀ h ∈ tips, 0 ≤ h ∧ h < T) :
    logProbConst (r.lam 0) (r.mu 0) (r.psi 0) (r.rho 0) T surv tips ints = logProb r none t 1 surv tips ints := by
  rw [logProb_single r t T h0 h1 surv tips ints hT hints htips]
  have hA : Real.sqrt ((r.lam 0 - r.mu 0 - r.psi 0) * (r.lam 0 - r.mu 0 - r.psi 0) + 4 * r.lam 0 * r.psi 0) = Acoef r 0 := by
    unfold Acoef; simp
  have hB : ((1 - 2 * (1 - r.rho 0)) * r.lam 0 + r.mu 0 + r.psi 0) / Acoef r 0 = Bcoef r 0 1 := by
    rw [Bcoef_def]; simp
  unfold logProbConst
  simp only [trans_sqrt_real, trans_exp_real, trans_log_real, four_real, two_real, sumList_eq_sum, hA, hB]
  rw [q0_eq_qv]
  have hp : (r.lam 0 + r.mu 0 + r.psi 0 - Acoef r 0 * (Real.exp (Acoef r 0 * T) * (1 + Bcoef r 0 1) - (1 - Bcoef r 0 1))
      / (Real.exp (Acoef r 0 * T) * (1 + Bcoef r 0 1) + (1 - Bcoef r 0 1))) / (2 * r.lam 0) = pStep r 0 T 1 := by
    rw [pStep_eq_pClosed]; unfold pClosed; simp
  rw [hp]
  -- births
  have hb : (ints.map fun h => Real.log (r.lam 0) + logq (Acoef r 0) (Bcoef r 0 1) (T - h) T)
      = ints.map fun h => Real.log (r.lam 0) + Real.log (qv (Acoef r 0) (Bcoef r 0 1) h) := by
    apply List.map_congr_left; intro h _; rw [logq_eq]; congr 3; ring
  rw [hb]
  -- tips
  have hP : ∀ h : ℝ, ((h == 0) && decide (0 < r.rho 0)) = decide (h = 0 ∧ 0 < r.rho 0) := by
    intro h; by_cases a : h = 0 <;> by_cases b : 0 < r.rho 0 <;> simp [a, b]
  simp only [hP]
  have hs := ite_any_sum' tips (fun h => decide (h = 0 ∧ 0 < r.rho 0))
    (fun h => Real.log (r.psi 0) - logq (Acoef r 0) (Bcoef r 0 1) (T - h) T)
  rw [hs]
  simp only [decide_eq_true_eq]
  have hs2 : (tips.map fun h => if h = 0 ∧ 0 < r.rho 0 then 0 else Real.log (r.psi 0) - logq (Acoef r 0) (Bcoef r 0 1) (T - h) T)
      = tips.map fun h => if h = 0 ∧ 0 < r.rho 0 then 0 else Real.log (r.psi 0) - Real.log (qv (Acoef r 0) (Bcoef r 0 1) h) := by
    apply List.map_congr_left; intro h _
    split
    · rfl
    · rw [logq_eq]; congr 3; ring
  rw [hs2]
  -- rho term
  have hr := rho_sum tips (r.rho 0)
  rw [hr]
  cases surv <;> simp

end TT.C09
