import TTModel.Scalar
import Mathlib.Analysis.SpecialFunctions.Pow.Real
import Mathlib.Analysis.SpecialFunctions.Sqrt
/-! the `Trans` instance at which theorems over `ℝ` are stated -/
namespace TT
noncomputable instance : Trans ℝ := ⟨Real.exp, Real.log, Real.sqrt, Real.rpow⟩
@[simp] theorem trans_exp_real (x : ℝ) : Trans.exp x = Real.exp x := rfl
@[simp] theorem trans_log_real (x : ℝ) : Trans.log x = Real.log x := rfl
@[simp] theorem trans_sqrt_real (x : ℝ) : Trans.sqrt x = Real.sqrt x := rfl
@[simp] theorem trans_pow_real (x y : ℝ) : Trans.pow x y = x ^ y := rfl
end TT
